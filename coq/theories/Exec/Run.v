(* Executable entry points used by the correspondence check: each chk_* runs the
   model on one case and compares with the implementation's canonicalised answer. *)
From Coq Require Export ZArith QArith Qcanon List Bool.
From Dyce Require Export Base.Sums Base.Order Base.Hist Base.QcOrd.
From Dyce Require Export Model.Draw.
Export ListNotations.
Open Scope Z_scope.

Fixpoint bad_indices_from (i : nat) (l : list bool) : list nat :=
  match l with
  | [] => []
  | true :: t => bad_indices_from (S i) t
  | false :: t => i :: bad_indices_from (S i) t
  end.
Definition bad_indices := bad_indices_from 0.
(* result codes of a comparison: 0 agree, 1 disagree, 2 outside the model's domain *)
Definition cb (b : bool) : nat := if b then 0%nat else 1%nat.
Fixpoint nonzero_codes_from (i : nat) (l : list nat) : list (nat * nat) :=
  match l with
  | [] => []
  | O :: t => nonzero_codes_from (S i) t
  | c :: t => (i, c) :: nonzero_codes_from (S i) t
  end.
Definition nonzero_codes := nonzero_codes_from 0.


Fixpoint list_eqb {A} (e : A -> A -> bool) (a b : list A) : bool :=
  match a, b with
  | [], [] => true
  | x :: a', y :: b' => e x y && list_eqb e a' b'
  | _, _ => false
  end.
Definition pair_eqb {A B} (ea : A -> A -> bool) (eb : B -> B -> bool) (x y : A * B) : bool :=
  ea (fst x) (fst y) && eb (snd x) (snd y).
Definition hist_eqb : hist Qc -> hist Qc -> bool := list_eqb (pair_eqb Veqb Z.eqb).
Definition exn_eqb (a b : exn) : bool :=
  match a, b with
  | ValueError, ValueError | TypeError, TypeError | IndexError, IndexError
  | ZeroDivisionError, ZeroDivisionError | RecursionError, RecursionError => true
  | UserError i, UserError j => Nat.eqb i j
  | Unsupported, Unsupported => true
  | TypeCheck, TypeCheck => true
  | _, _ => false
  end.
Definition res_eqb {A} (e : A -> A -> bool) (a b : res A) : bool :=
  match a, b with
  | Ok x, Ok y => e x y
  | Err x, Err y => exn_eqb x y
  | _, _ => false
  end.
Definition cres_code {A} (e : A -> A -> bool) (model expected : res A) : nat :=
  match model with
  | Err Unsupported => 2%nat
  | _ => cb (res_eqb e model expected)
  end.
(* drop zero-count entries: comparison "as count functions" *)
Definition nz (h : hist Qc) : hist Qc := filter (fun oc => negb (snd oc =? 0)) h.

(* ---- C18 ---- *)
(* zero entries for outcomes the histogram never held are not observables of C18 *)
Definition keep_orig (h : hist Qc) (r : res (hist Qc)) : res (hist Qc) :=
  match r with
  | Ok x => Ok (filter (fun oc => negb (snd oc =? 0) || existsb (Veqb (fst oc)) (keys h)) x)
  | Err e => Err e
  end.
Definition chk_draw (h : hist Qc) (req : list (Qc * Z)) (expected : res (hist Qc)) : bool :=
  res_eqb hist_eqb (keep_orig h (draw VO h req)) (keep_orig h expected).
Definition chk_draws (h : hist Qc) (reqs : list (list (Qc * Z))) (expected : res (hist Qc)) : bool :=
  res_eqb hist_eqb (keep_orig h (draws VO h reqs)) (keep_orig h expected).
Definition chk_accumulate (h o : hist Qc) (expected : hist Qc) : bool := hist_eqb (accumulate VO h o) expected.
Definition chk_zero_fill (h : hist Qc) (outs : list Qc) (expected : hist Qc) : bool := hist_eqb (zero_fill VO h outs) expected.
Definition chk_remove (h : hist Qc) (o : Qc) (expected : hist Qc) : bool := hist_eqb (remove VO h o) expected.

(* ---- generic canonicalisation of weighted tuple lists ---- *)
From Dyce Require Export Base.Brute Model.Select Model.Pool.

Fixpoint tuple_leb (a b : list Qc) : bool :=
  match a, b with
  | [], _ => true
  | _ :: _, [] => false
  | x :: a', y :: b' => if Veqb x y then tuple_leb a' b' else Vleb x y
  end.
Definition tuple_eqb : list Qc -> list Qc -> bool := list_eqb Veqb.

Section MSort.
Context {A : Type} (le : A -> A -> bool).
Fixpoint merge_fuel (fuel : nat) (a b : list A) : list A :=
  match fuel with
  | O => a ++ b
  | S f => match a, b with
           | [], _ => b
           | _, [] => a
           | x :: a', y :: b' => if le x y then x :: merge_fuel f a' b else y :: merge_fuel f a b'
           end
  end.
Definition merge2 (a b : list A) := merge_fuel (length a + length b) a b.
Fixpoint merge_pairs (ls : list (list A)) : list (list A) :=
  match ls with
  | a :: b :: t => merge2 a b :: merge_pairs t
  | _ => ls
  end.
Fixpoint msort_fuel (fuel : nat) (ls : list (list A)) : list A :=
  match fuel with
  | O => concat ls
  | S f => match ls with
           | [] => []
           | [a] => a
           | _ => msort_fuel f (merge_pairs ls)
           end
  end.
Definition msort (l : list A) : list A := msort_fuel (S (length l)) (map (fun x => [x]) l).
End MSort.

Fixpoint agg_sorted (l : list (list Qc * Z)) : list (list Qc * Z) :=
  match l with
  | [] => []
  | (t, c) :: rest =>
      match agg_sorted rest with
      | (t', c') :: r' => if tuple_eqb t t' then (t, c + c') :: r' else (t, c) :: (t', c') :: r'
      | [] => [(t, c)]
      end
  end.
(* aggregated per roll, zero-count rolls dropped, in a canonical order *)
Definition canon_rolls (l : list (list Qc * Z)) : list (list Qc * Z) :=
  filter (fun tc => negb (snd tc =? 0)) (agg_sorted (msort (fun a b => tuple_leb (fst a) (fst b)) l)).
Definition rolls_eqb (a b : list (list Qc * Z)) : bool :=
  list_eqb (pair_eqb tuple_eqb Z.eqb) (canon_rolls a) (canon_rolls b).

Definition Vzero : Qc := qc 0 1.
Definition Vadd (x y : Qc) : Qc := Qcplus x y.
Definition Vmulz (z : Z) (x : Qc) : Qc := Qcmult (Vz z) x.

(* ---- C02 / C03 ---- *)
Definition chk_rwc (p : list (hist Qc)) (which : option (list sel)) (expected : res (list (list Qc * Z))) : bool :=
  res_eqb rolls_eqb (rwc VO Vzero p which) expected.
Definition chk_p_h (p : list (hist Qc)) (which : option (list sel)) (expected : res (hist Qc)) : bool :=
  res_eqb (fun a b => hist_eqb (nz a) (nz b)) (p_h VO Vzero Vadd Vmulz p which) expected.
Definition chk_mkP (hs : list (hist Qc)) (expected : list (hist Qc)) : bool :=
  list_eqb hist_eqb (mkP VO hs) expected.

(* ---- C01 ---- *)
From Dyce Require Export Model.Arith.
Definition cnt_eqb (a b : hist Qc) : bool := hist_eqb (nz a) (nz b).
Definition pool_operand (dice : list (hist Qc)) : operand := OpH (sum_h VO Vzero Vadd (mkP VO dice)).
Definition chk_hbin (o : bop) (l r : operand) (expected : res (hist Qc)) : nat :=
  cres_code cnt_eqb (h_binop o l r) expected.
Definition chk_hun (o : uop) (a : operand) (expected : res (hist Qc)) : nat :=
  match a with
  | OpH h => cres_code cnt_eqb (h_unop o h) expected
  | OpS _ => 2%nat
  end.

(* ---- C04 / C05 / C16 ---- *)
From Dyce Require Export Model.Equality Model.Stats.
Definition chk_hmatmul (n : Z) (h : hist Qc) (expected : res (hist Qc)) : bool :=
  res_eqb hist_eqb (hmatmul VO Vzero Vadd n h) expected.
Definition chk_pmatmul (n : Z) (dice : list (hist Qc)) (expected : res (list (hist Qc))) : bool :=
  res_eqb (list_eqb hist_eqb) (pmatmul VO n (mkP VO dice)) expected.
Definition chk_mkP_args (args : list (list (hist Qc))) (expected : list (hist Qc)) (tot : Z) : bool :=
  list_eqb hist_eqb (mkP_args VO args) expected && (ptotal (mkP_args VO args) =? tot).
Definition chk_sum_h (dice : list (hist Qc)) (expected : hist Qc) : bool :=
  hist_eqb (sum_h VO Vzero Vadd (mkP VO dice)) expected.

Definition chk_eq (a b : hist Qc) (eq ne hasheq : bool) : bool :=
  Bool.eqb (heq VO a b) eq && Bool.eqb (hne VO a b) ne &&
  (* equal histograms must hash equal; unequal ones may collide, so only that direction is checked *)
  (if heq VO a b then hasheq else true).
Definition chk_lowest (a : hist Qc) (expected : hist Qc) : bool := hist_eqb (lowest VO a) expected.
Definition chk_mk (l : list (Qc * Z)) (expected : res (hist Qc)) : bool := res_eqb hist_eqb (mkH VO l) expected.
Definition chk_hrange (n : Z) (expected : hist Qc) : bool := hist_eqb (hrange VO Vz n) expected.
Definition chk_peq (dice : list (hist Qc)) (h : hist Qc) (eq : bool) : bool :=
  Bool.eqb (heq VO (sum_h VO Vzero Vadd (mkP VO dice)) h) eq.

Definition dist_eqb (a b : list (Qc * (Z * Z))) : bool :=
  list_eqb (pair_eqb Veqb (pair_eqb Z.eqb Z.eqb)) a b.
Definition chk_distribution (h : hist Qc) (expected : list (Qc * (Z * Z))) : bool := dist_eqb (distribution h) expected.
(* exact comparison, or closeness for float results: |got - want| <= (|scale| + 1) / 2^tolbits *)
Definition Vabs (x : Qc) : Qc := if Vleb (qc 0 1) x then x else (- x)%Qc.
Definition close (tolbits : Z) (got want scale : Qc) : bool :=
  Vleb (Vabs (got - want)%Qc * Vz (2 ^ tolbits))%Qc (Vabs scale + qc 1 1)%Qc.
Definition chk_mean (h : hist Qc) (got : Qc) (exact : bool) : bool :=
  if exact then Veqb (mean h) got else close 50 got (mean h) (mean h).
Definition chk_variance (h : hist Qc) (got : Qc) (exact : bool) : bool :=
  if exact then Veqb (variance h) got
  else close 36 got (variance h) (variance h + mean h * mean h)%Qc.

(* ---- C09 ---- *)
From Dyce Require Export Base.ZOrd Model.OrderStat.
Definition zhist_eqb (a b : hist Z) : bool :=
  list_eqb (pair_eqb Z.eqb Z.eqb) (filter (fun oc => negb (snd oc =? 0)) a) (filter (fun oc => negb (snd oc =? 0)) b).
Definition chk_order_stat (h : hist Qc) (qs : list (Z * Z)) (expected : list (res (hist Qc))) : bool :=
  list_eqb (res_eqb cnt_eqb) (os_run VO [] h qs) expected
  && list_eqb (res_eqb cnt_eqb) (map (fun q => order_stat VO h (fst q) (snd q)) qs) expected.
Definition chk_exactly (h : hist Qc) (o : Qc) (n k : nat) (expected : Z) : bool := exactly_k VO h o n k =? expected.
Definition chk_appearances (dice : list (hist Qc)) (o : Qc) (expected : hist Z) : bool :=
  zhist_eqb (appearances VO (mkP VO dice) o) expected.

(* ---- C06 / C07 / C08 / C14: evaluation ---- *)
From Dyce Require Export Model.Eval Model.Explode.
Definition lift_h (r : res (hist Qc)) : res (val (T:=Qc)) := match r with Ok h => Ok (VHist h) | Err e => Err e end.
(* Python's `a + b` on callback values *)
Definition vadd (a b : val (T:=Qc)) : res (val (T:=Qc)) :=
  match a, b with
  | VOut x, VOut y => Ok (VOut (x + y)%Qc)
  | VHist h, VOut y => lift_h (hmap_s VO (binop Add) h y)
  | VOut x, VHist h => lift_h (hrmap VO (binop Add) x h)
  | VHist h1, VHist h2 => lift_h (hmap VO (binop Add) h1 h2)
  end.
Definition vaddc (c : Qc) (v : val (T:=Qc)) : res (val (T:=Qc)) := vadd v (VOut c).
Definition coalesce_replace (v : val (T:=Qc)) (_ : Qc) : res (val (T:=Qc)) := Ok v.
Definition coalesce_add (v : val (T:=Qc)) (o : Qc) : res (val (T:=Qc)) := vadd v (VOut o).

Definition results_eqb (a b : list (list Qc)) : bool := list_eqb (list_eqb Veqb) a b.
(* exception classes of an `except` clause in a callback *)
Definition catch_value_error (e : exn) : bool := match e with ValueError => true | _ => false end.
Definition catch_exception (e : exn) : bool := true.
Definition mechT := list (list (source (T:=Qc)) * hist Qc * list (list (list Qc) * ret (T:=Qc) (St:=nat))).
Definition mech_srcs (m : mechT) (st : nat) : list (source (T:=Qc)) :=
  match nth_error m st with Some (s, _, _) => s | None => [] end.
Definition mech_sent (m : mechT) (st : nat) : hist Qc :=
  match nth_error m st with Some (_, s, _) => s | None => [] end.
Definition mech_cb (m : mechT) (st : nat) (rs : list (list Qc)) : ret (T:=Qc) (St:=nat) :=
  match nth_error m st with
  | Some (_, _, tbl) => match find (fun e => results_eqb (fst e) rs) tbl with
                        | Some e => snd e
                        | None => ROut (qc 0 1)       (* results the table does not list *)
                        end
  | None => RRaise (UserError 98)
  end.
Definition FUEL : nat := 400.
Fixpoint run_calls (m : mechT) (fault : option nat) (s : evstate) (calls : list (nat * option rawlimit))
  : list (res (hist Qc)) :=
  match calls with
  | [] => []
  | (st, lim) :: cs =>
      let '(s', r) := call VO Vzero (mech_srcs m) (mech_sent m) (mech_cb m) fault FUEL s st lim in
      r :: run_calls m fault s' cs
  end.
Definition any_unsupported (l : list (res (hist Qc))) : bool :=
  existsb (fun r => match r with Err Unsupported => true | _ => false end) l.
Definition chk_mech (m : mechT) (fault : option nat) (calls : list (nat * option rawlimit))
           (expected : list (res (hist Qc))) : nat :=
  let got := run_calls m fault (None, 0%nat) calls in
  if any_unsupported got then 2%nat else cb (list_eqb (res_eqb cnt_eqb) got expected).

Definition subset_pred (sub : list Qc) (o : Qc) (_ : hist Qc) : bool := existsb (Veqb o) sub.
Definition chk_explode (h : hist Qc) (sub : list Qc) (lim : option rawlimit) (infv : option Qc)
           (expected : res (hist Qc)) : nat :=
  cres_code cnt_eqb
    (explode VO Vzero vadd FUEL h (subset_pred sub) lim qzero
             (fun o => match infv with Some v => Some (v * o)%Qc | None => None end)) expected.
Definition expand_of (tbl : list (Qc * val (T:=Qc))) (_ : hist Qc) (o : Qc) : val (T:=Qc) :=
  match find (fun e => Veqb (fst e) o) tbl with Some e => snd e | None => VOut o end.
Definition chk_substitute (h : hist Qc) (tbl : list (Qc * val (T:=Qc))) (use_add : bool)
           (md pl : option rawlimit) (expected : res (hist Qc)) : nat :=
  cres_code cnt_eqb
    (substitute VO Vzero FUEL h (expand_of tbl) (if use_add then coalesce_add else coalesce_replace) md pl) expected.
(* an expand function that also depends on the histogram being expanded: one face table per histogram *)
Definition expand_of2 (tbl : list (Qc * val (T:=Qc))) (tbls : list (hist Qc * list (Qc * val (T:=Qc))))
           (src : hist Qc) (o : Qc) : val (T:=Qc) :=
  match find (fun e => hist_eqb (fst e) src) tbls with
  | Some e => expand_of (snd e) src o
  | None => expand_of tbl src o
  end.
Definition chk_substitute2 (h : hist Qc) (tbl : list (Qc * val (T:=Qc))) (tbls : list (hist Qc * list (Qc * val (T:=Qc))))
           (use_add : bool) (md pl : option rawlimit) (expected : res (hist Qc)) : nat :=
  cres_code cnt_eqb
    (substitute VO Vzero FUEL h (expand_of2 tbl tbls) (if use_add then coalesce_add else coalesce_replace) md pl) expected.
Definition maxQ (h : hist Qc) : option Qc := match rev h with [] => None | oc :: _ => Some (fst oc) end.
Definition chk_h_explode (h : hist Qc) (md pl : option rawlimit) (expected : res (hist Qc)) : nat :=
  cres_code cnt_eqb (h_explode VO Vzero vadd FUEL maxQ h md pl) expected.
Definition chk_p_foreach (pools : list (list (hist Qc))) (tbl : list (list (list Qc) * val (T:=Qc)))
           (expected : res (hist Qc)) : nat :=
  cres_code cnt_eqb
    (p_foreach VO Vzero (map (mkP VO) pools)
       (fun rs => match find (fun e => results_eqb (fst e) rs) tbl with
                  | Some e => Ok (snd e) | None => Ok (VOut (qc 0 1)) end)) expected.
Definition chk_aggw (ws : list (val (T:=Qc) * Z)) (expected : res (hist Qc)) : nat :=
  cres_code hist_eqb (aggw VO ws) expected.
Definition default_pred (o : Qc) (src : hist Qc) : bool :=
  match maxQ src with Some m => Veqb o m | None => false end.
Definition chk_explode_default (h : hist Qc) (lim : option rawlimit) (infv : option Qc)
           (expected : res (hist Qc)) : nat :=
  cres_code cnt_eqb
    (explode VO Vzero vadd FUEL h default_pred lim qzero
             (fun o => match infv with Some v => Some (v * o)%Qc | None => None end)) expected.

(* bitwise operators on (integral) roller values: Python's &, |, ^ *)
Definition qbit (o : bop) (x y : Qc) : Qc := match binop o x y with Ok v => v | Err _ => qc 0 1 end.
(* ---- C10 / C11: scripted random choices ---- *)
From Dyce Require Export Model.Roller.
Definition asks_eqb (a b : list (list Qc * list Z)) : bool :=
  list_eqb (pair_eqb (list_eqb Veqb) (list_eqb Z.eqb)) a b.
Definition opt_eqb {A} (e : A -> A -> bool) (a b : option A) : bool :=
  match a, b with Some x, Some y => e x y | None, None => true | _, _ => false end.
Definition chk_run {A} (e : A -> A -> bool) (t : tree (T:=Qc) A) (script : list nat)
           (exp_asks : list (list Qc * list Z)) (expected : res A) : bool :=
  let '(asks, r) := run t script in
  asks_eqb asks exp_asks && match r with Some x => res_eqb e x expected | None => false end.
Definition chk_h_roll (h : hist Qc) script asks (expected : res Qc) : bool :=
  chk_run Veqb (h_roll Vzero h) script asks expected.
Definition chk_p_roll (dice : list (hist Qc)) script asks (expected : res (list Qc)) : bool :=
  chk_run (list_eqb Veqb) (p_roll VO Vzero (mkP VO dice)) script asks expected.
Definition rtreeQ := rtree (T:=Qc).
Definition chk_roll (r : rtreeQ) script asks (expected : res (list (option Qc))) : bool :=
  chk_run (list_eqb (opt_eqb Veqb)) (roll_v VO Vzero Vadd r) script asks expected.
Definition p_even (v : Qc) : bool := is_int v && Z.even (numz v).
Definition p_odd (v : Qc) : bool := is_int v && Z.odd (numz v).
Definition p_gt (c : Qc) (v : Qc) : bool := negb (Vleb v c).
Definition expand_tbl (tbl : list (Qc * expansion (T:=Qc))) (v : Qc) : expansion (T:=Qc) :=
  match find (fun e => Veqb (fst e) v) tbl with Some e => snd e | None => EKeep end.

(* ---- C12: roll records ---- *)
From Dyce Require Export Model.RollRecord.
Definition path_eqb : list nat -> list nat -> bool := list_eqb Nat.eqb.
Fixpoint otree_eqb (a b : otree (T:=Qc)) : bool :=
  match a, b with
  | ONode v1 o1 s1, ONode v2 o2 s2 =>
      opt_eqb Veqb v1 v2 && opt_eqb path_eqb o1 o2 &&
      (fix go (x y : list (otree (T:=Qc))) : bool :=
         match x, y with
         | [], [] => true
         | p :: x', q :: y' => otree_eqb p q && go x' y'
         | _, _ => false
         end) s1 s2
  end.
Fixpoint rolltree_eqb (a b : rolltree (T:=Qc)) : bool :=
  match a, b with
  | RNode p1 o1 s1, RNode p2 o2 s2 =>
      path_eqb p1 p2 && list_eqb otree_eqb o1 o2 &&
      (fix go (x y : list (rolltree (T:=Qc))) : bool :=
         match x, y with
         | [], [] => true
         | p :: x', q :: y' => rolltree_eqb p q && go x' y'
         | _, _ => false
         end) s1 s2
  end.
Definition chk_record (r : rtreeQ) (script : list nat) (expected : res (rolltree (T:=Qc))) : bool :=
  let '(_, res) := run (roll_m VO Vzero Vadd [] r (heap0 (T:=Qc))) script in
  match res, expected with
  | Some (Ok (hp, rid)), Ok e => rolltree_eqb (r_tree 40 hp rid) e
  | Some (Err e1), Err e2 => exn_eqb e1 e2
  | _, _ => false
  end.

(* ---- C19: argument validation ---- *)
From Dyce Require Export Model.Guards.
Definition chk_guard_z (g : res Z) (expected : res Z) : bool := res_eqb Z.eqb g expected.
Definition chk_guard_nat (g : res nat) (expected : res nat) : bool := res_eqb Nat.eqb g expected.
Definition chk_guard_unit (g : res unit) (ok : bool) (e : exn) : bool :=
  match g with Ok _ => ok | Err e' => negb ok && exn_eqb e e' end.
Definition chk_limit_guard (bt : bool) (a : arg) (ok : bool) (e : exn) : bool :=
  match limit_guard bt a with Ok _ => ok | Err e' => negb ok && exn_eqb e e' end.
Definition chk_parity (a : arg) (expected : res bool) : bool := res_eqb Bool.eqb (parity_guard a) expected.

(* ---- C17 ---- *)
From Dyce Require Export Model.Rng.
Definition chk_bits (k : Z) (bs : list Z) (expected : Z) : bool :=
  (bits_of k bs =? expected) && (Z.of_nat (length bs) =? numbytes k) && (0 <=? expected) && (expected <? 2 ^ k).

(* ---- C15: the store ---- *)
From Dyce Require Export Model.Store.
Definition obs_eqb (a b : observation) : bool :=
  match a, b with
  | ObsH i1 t1, ObsH i2 t2 => hist_eqb i1 i2 && (t1 =? t2)
  | ObsP d1, ObsP d2 => list_eqb hist_eqb d1 d2
  | ObsR s1 a1, ObsR s2 a2 => list_eqb Nat.eqb s1 s2 && Nat.eqb a1 a2
  | _, _ => false
  end.
(* replay the operations; the results (object id or exception) and the final observation of EVERY
   object must be the implementation's *)
Fixpoint store_run (s : store) (ops : list op) : store * list (res nat) :=
  match ops with
  | [] => (s, [])
  | o :: rest => let '(s1, r) := step s o in let '(s2, rs) := store_run s1 rest in (s2, r :: rs)
  end.
Definition chk_store (ops : list op) (results : list (res nat)) (final : list observation) : bool :=
  let '(s, rs) := store_run store0 ops in
  list_eqb (res_eqb Nat.eqb) rs results &&
  list_eqb obs_eqb (map (observe s) (seq 0 (length (objs s)))) final.
(* a predicate that looks at the histogram: the face has the largest count *)
Definition maxcount_pred (o : Qc) (src : hist Qc) : bool :=
  let m := fold_right Z.max 0 (map snd src) in cnt VO src o =? m.
Definition chk_explode_maxcount (h : hist Qc) (lim : option rawlimit) (infv : option Qc)
           (expected : res (hist Qc)) : nat :=
  cres_code cnt_eqb
    (explode VO Vzero vadd FUEL h maxcount_pred lim qzero
             (fun o => match infv with Some v => Some (v * o)%Qc | None => None end)) expected.
(* a callback that calls the deprecated, context-free P.foreach / H.foreach and returns its result *)
Definition ret_of_res {St} (r : res (hist Qc)) : ret (T:=Qc) (St:=St) :=
  match r with Ok h => RHist h | Err e => RRaise e end.
Definition dep_foreach {St} (pools : list (list (hist Qc))) (tbl : list (list (list Qc) * val (T:=Qc))) : ret (T:=Qc) (St:=St) :=
  ret_of_res (p_foreach VO Vzero (map (mkP VO) pools)
       (fun rs => match find (fun e => results_eqb (fst e) rs) tbl with
                  | Some e => Ok (snd e) | None => Ok (VOut (qc 0 1)) end)).
