(* Executable entry points used by the correspondence check: each chk_* runs the
   model on one case and compares with the implementation's canonicalised answer. *)
From Coq Require Export ZArith QArith Qcanon List Bool.
From Dyce Require Export Base.Sums Base.Order Base.Hist Base.QcOrd.
From Dyce Require Export Model.Draw.
Export ListNotations.
Open Scope Z_scope.

Fixpoint bad_indices_from (i : nat) (l : list bool) : list nat :=
  match l with
  | [] => []
  | true :: t => bad_indices_from (S i) t
  | false :: t => i :: bad_indices_from (S i) t
  end.
Definition bad_indices := bad_indices_from 0.

Fixpoint list_eqb {A} (e : A -> A -> bool) (a b : list A) : bool :=
  match a, b with
  | [], [] => true
  | x :: a', y :: b' => e x y && list_eqb e a' b'
  | _, _ => false
  end.
Definition pair_eqb {A B} (ea : A -> A -> bool) (eb : B -> B -> bool) (x y : A * B) : bool :=
  ea (fst x) (fst y) && eb (snd x) (snd y).
Definition hist_eqb : hist Qc -> hist Qc -> bool := list_eqb (pair_eqb Veqb Z.eqb).
Definition exn_eqb (a b : exn) : bool :=
  match a, b with
  | ValueError, ValueError | TypeError, TypeError | IndexError, IndexError
  | ZeroDivisionError, ZeroDivisionError | RecursionError, RecursionError => true
  | UserError i, UserError j => Nat.eqb i j
  | _, _ => false
  end.
Definition res_eqb {A} (e : A -> A -> bool) (a b : res A) : bool :=
  match a, b with
  | Ok x, Ok y => e x y
  | Err x, Err y => exn_eqb x y
  | _, _ => false
  end.
(* drop zero-count entries: comparison "as count functions" *)
Definition nz (h : hist Qc) : hist Qc := filter (fun oc => negb (snd oc =? 0)) h.

(* ---- C18 ---- *)
(* zero entries for outcomes the histogram never held are not observables of C18 *)
Definition keep_orig (h : hist Qc) (r : res (hist Qc)) : res (hist Qc) :=
  match r with
  | Ok x => Ok (filter (fun oc => negb (snd oc =? 0) || existsb (Veqb (fst oc)) (keys h)) x)
  | Err e => Err e
  end.
Definition chk_draw (h : hist Qc) (req : list (Qc * Z)) (expected : res (hist Qc)) : bool :=
  res_eqb hist_eqb (keep_orig h (draw VO h req)) (keep_orig h expected).
Definition chk_draws (h : hist Qc) (reqs : list (list (Qc * Z))) (expected : res (hist Qc)) : bool :=
  res_eqb hist_eqb (keep_orig h (draws VO h reqs)) (keep_orig h expected).
Definition chk_accumulate (h o : hist Qc) (expected : hist Qc) : bool := hist_eqb (accumulate VO h o) expected.
Definition chk_zero_fill (h : hist Qc) (outs : list Qc) (expected : hist Qc) : bool := hist_eqb (zero_fill VO h outs) expected.
Definition chk_remove (h : hist Qc) (o : Qc) (expected : hist Qc) : bool := hist_eqb (remove VO h o) expected.
