(* Specification for C10/C11: the same roller expression evaluated by ENUMERATION - every leaf
   contributes all its faces (all sorted rolls of a pool) with their probabilities count/total, inner
   nodes combine the Cartesian product of their sources' enumerations and multiply the probabilities.  Also the
   expectation of a choice tree under a fair chooser. *)
From Coq Require Import ZArith QArith List Bool Arith.
From Dyce Require Import Base.Sums Base.Order Base.Hist Model.Select Model.Pool Model.Roller.
Import ListNotations.
Open Scope Z_scope.

Section S.
Context {T : Type} (O : ord T).
Variable zeroT : T.
Variable addT : T -> T -> T.

(* expectation of g over the results of a choice tree when every Ask is answered with index i with
   probability w_i / sum w; a failure is presented to g as Err *)
Fixpoint expect {A} (t : tree (T:=T) A) (g : res A -> Q) : Q :=
  match t with
  | Ret a => g (Ok a)
  | Fail e => g (Err e)
  | Ask pop w k =>
      let tot := lsum (fun x => x) w in
      fold_right Qplus 0%Q
        (map (fun i => (inject_Z (nth i w 0%Z) / inject_Z tot) * expect (k i) g)%Q (seq 0 (length w)))
  end.

(* finite distributions: (result, probability) pairs; the monad of finite weighted alternatives with
   exact rational probabilities (a leaf of count c in a histogram of total t has probability c/t) *)
Definition wl (A : Type) := list (res A * Q).
Definition wret {A} (a : A) : wl A := [(Ok a, 1%Q)].
Definition wbind {A B} (l : wl A) (f : A -> wl B) : wl B :=
  flat_map (fun ac => match fst ac with
                      | Ok a => map (fun bd => (fst bd, (snd ac * snd bd)%Q)) (f a)
                      | Err e => [(Err e, snd ac)]
                      end) l.
(* total mass (1 for every enumeration built below) *)
Definition wweight {A} (l : wl A) : Q := fold_right Qplus 0%Q (map snd l).
(* the expectation of g *)
Definition wexpect {A} (l : wl A) (g : res A -> Q) : Q :=
  fold_right Qplus 0%Q (map (fun ac => (snd ac * g (fst ac))%Q) l).

Fixpoint wseq {A} (l : list (wl A)) : wl (list A) :=
  match l with
  | [] => wret []
  | t :: ts => wbind t (fun a => wbind (wseq ts) (fun r => wret (a :: r)))
  end.

(* leaves: a histogram enumerates its faces with their counts (a zero-total histogram "rolls" 0) *)
Definition h_enum (h : hist T) : wl T :=
  if total h =? 0 then wret zeroT
  else map (fun oc => (Ok (fst oc), (inject_Z (snd oc) / inject_Z (total h))%Q)) h.
(* a pool enumerates the Cartesian product of its dice, each result sorted ascending *)
Fixpoint p_enum_raw (p : list (hist T)) : wl (list T) :=
  match p with
  | [] => wret []
  | h :: p' => wbind (h_enum h) (fun x => wbind (p_enum_raw p') (fun l => wret (x :: l)))
  end.
Definition p_enum (p : list (hist T)) : wl (list T) := wbind (p_enum_raw p) (fun l => wret (isort O l)).

Definition select_enum (w : list sel) (vals : list T) : wl (rollv (T:=T)) :=
  let sorted := isort O vals in
  match resolve (length sorted) w with
  | Err e => [(Err e, 1%Q)]
  | Ok idx =>
      let excluded := filter (fun i => negb (existsb (Nat.eqb i) idx)) (seq 0 (length sorted)) in
      wret (map (@Some T) (getitems sorted idx) ++ map (fun _ => None) excluded)
  end.

Fixpoint denote (r : rtree (T:=T)) : wl (rollv (T:=T)) :=
  match r with
  | RVal v => wret [Some v]
  | RH h => wbind (h_enum h) (fun x => wret [Some x])
  | RP p => wbind (p_enum p) (fun l => wret (map (@Some T) l))
  | RPool l => wbind (wseq (map denote l)) (fun rs => wret (map (@Some T) (flat_map (@live T) rs)))
  | RRepeat n r' => wbind (wseq (repeat (denote r') n)) (fun rs => wret (map (@Some T) (flat_map (@live T) rs)))
  | RBinOp op a b =>
      wbind (denote a) (fun ra => wbind (denote b) (fun rb =>
        wret [Some (op (summed zeroT addT ra) (summed zeroT addT rb))]))
  | RUnOp op a => wbind (denote a) (fun ra => wret [Some (op (summed zeroT addT ra))])
  | RSelect w l => wbind (wseq (map denote l)) (fun rs => select_enum w (flat_map (@live T) rs))
  | RFilter pred l =>
      wbind (wseq (map denote l))
            (fun rs => wret (map (fun v => if pred v then Some v else None) (flat_map (@live T) rs)))
  | RFilterBy pred l => wbind (wseq (map denote l)) (fun rs => wret (filter_by pred rs))
  | RSubst expand append depth r' =>
      let src := denote r' in
      let fix expand_roll (left : nat) (rv : rollv (T:=T)) {struct left} : wl (rollv (T:=T)) :=
        match left with
        | 0%nat => wret (map (@Some T) (live rv))
        | Datatypes.S left' =>
            let fix each (vals : list T) : wl (rollv (T:=T)) :=
              match vals with
              | [] => wret []
              | v :: rest =>
                  wbind (match expand v with
                         | EKeep => wret [Some v]
                         | EOut v' => wret [Some v']
                         | EReroll =>
                             wbind src (fun rv' => wbind (expand_roll left' rv')
                                                      (fun sub => wret ((if append then Some v else None) :: sub)))
                         end)
                        (fun here => wbind (each rest) (fun more => wret (here ++ more)))
              end in
            each (live rv)
        end in
      wbind src (expand_roll depth)
  end.
End S.
