(* Finite sums over nat ranges, integer powers and binomial coefficients. *)
From Coq Require Import ZArith List Lia Bool Arith Permutation.
Import ListNotations.
Open Scope Z_scope.

Fixpoint zsum (f : nat -> Z) (n : nat) : Z :=
  match n with 0%nat => 0 | S n' => zsum f n' + f n' end.

Lemma zsum_ext f g n : (forall i, (i < n)%nat -> f i = g i) -> zsum f n = zsum g n.
Proof. induction n as [|n IH]; intros H; cbn [zsum]; [reflexivity|].
  rewrite IH by (intros; apply H; lia). rewrite H by lia. reflexivity. Qed.
Lemma zsum_add f g n : zsum (fun i => f i + g i) n = zsum f n + zsum g n.
Proof. induction n as [|n IH]; cbn [zsum]; [reflexivity|]. rewrite IH. ring. Qed.
Lemma zsum_scale c f n : zsum (fun i => c * f i) n = c * zsum f n.
Proof. induction n as [|n IH]; cbn [zsum]; [ring|]. rewrite IH. ring. Qed.
Lemma zsum_shift f n : zsum f (S n) = f 0%nat + zsum (fun i => f (S i)) n.
Proof. induction n as [|n IH]; [cbn [zsum]; ring|].
  change (zsum f (S (S n))) with (zsum f (S n) + f (S n)). rewrite IH. cbn [zsum]. ring. Qed.
Lemma zsum_split f a b : zsum f (a + b) = zsum f a + zsum (fun j => f (a + j)%nat) b.
Proof. induction b as [|b IH]; [rewrite Nat.add_0_r; cbn [zsum]; ring|].
  replace (a + S b)%nat with (S (a + b)) by lia. cbn [zsum]. rewrite IH. ring. Qed.
Lemma zsum_split_at f k n : (k <= n)%nat -> zsum f n = zsum f k + zsum (fun j => f (k + j)%nat) (n - k).
Proof. intros H. rewrite <- zsum_split. f_equal. lia. Qed.
Lemma zsum_zero n : zsum (fun _ => 0) n = 0.
Proof. induction n as [|n IH]; cbn [zsum]; lia. Qed.
Lemma zsum_nonneg f n : (forall i, (i < n)%nat -> 0 <= f i) -> 0 <= zsum f n.
Proof. induction n as [|n IH]; intros H; cbn [zsum]; [lia|].
  assert (0 <= zsum f n) by (apply IH; intros; apply H; lia). assert (0 <= f n) by (apply H; lia). lia. Qed.
Fixpoint zpow (c : Z) (i : nat) : Z := match i with 0%nat => 1 | S i' => c * zpow c i' end.

Lemma zpow_add c a b : zpow c (a + b) = zpow c a * zpow c b.
Proof. induction a as [|a IH]; cbn [zpow Nat.add]; [ring|]. rewrite IH. ring. Qed.
Lemma zpow_nonneg c i : 0 <= c -> 0 <= zpow c i.
Proof. intros H. induction i as [|i IH]; cbn [zpow]; lia. Qed.
Lemma zpow_pos c i : 0 < c -> 0 < zpow c i.
Proof. intros H. induction i as [|i IH]; cbn [zpow]; lia. Qed.
Lemma zpow_0_l i : (0 < i)%nat -> zpow 0 i = 0.
Proof. destruct i; [lia|]. intros _. cbn [zpow]. ring. Qed.
Lemma zpow_1_l i : zpow 1 i = 1.
Proof. induction i as [|i IH]; cbn [zpow]; lia. Qed.
Lemma zpow_mul a b i : zpow (a * b) i = zpow a i * zpow b i.
Proof. induction i as [|i IH]; cbn [zpow]; [ring|]. rewrite IH. ring. Qed.
Lemma zpow_Zpow c i : zpow c i = c ^ Z.of_nat i.
Proof. induction i as [|i IH]; [reflexivity|].
  rewrite Nat2Z.inj_succ, Z.pow_succ_r by lia. cbn [zpow]. rewrite IH. reflexivity. Qed.

(* Pascal's rule: the specification of math.comb *)
Fixpoint binom (n k : nat) : Z :=
  match n, k with
  | _, 0%nat => 1
  | 0%nat, S _ => 0
  | S n', S k' => binom n' k' + binom n' k
  end.
Lemma binom_gt n : forall k, (n < k)%nat -> binom n k = 0.
Proof. induction n as [|n IH]; intros [|k] H; cbn [binom]; try lia. rewrite !IH by lia. lia. Qed.
Lemma binom_0 n : binom n 0 = 1. Proof. destruct n; reflexivity. Qed.
Lemma binom_nonneg n : forall k, 0 <= binom n k.
Proof. induction n as [|n IH]; intros [|k]; cbn [binom]; try lia. pose proof (IH k). pose proof (IH (S k)). lia. Qed.
Lemma binom_nn n : binom n n = 1.
Proof. induction n as [|n IH]; [reflexivity|]. cbn [binom]. rewrite IH, binom_gt by lia. lia. Qed.

(* executable binomial: one row of Pascal's triangle at a time *)
Fixpoint next_row (prev : Z) (row : list Z) : list Z :=
  match row with
  | [] => [prev]
  | x :: t => (prev + x) :: next_row x t
  end.
Fixpoint pascal_row (n : nat) : list Z :=
  match n with 0%nat => [1] | S n' => next_row 0 (pascal_row n') end.
Definition binomR (n k : nat) : Z := nth k (pascal_row n) 0.

Lemma nth_nil_Z k : nth k (@nil Z) 0 = 0.
Proof. destruct k; reflexivity. Qed.
Lemma next_row_nth row : forall prev k,
  nth k (next_row prev row) 0 =
  match k with 0%nat => prev + nth 0 row 0 | S k' => nth k' row 0 + nth k row 0 end.
Proof.
  induction row as [|x t IH]; intros prev k; cbn [next_row].
  - destruct k as [|k]; [cbn [nth]; lia|]. cbn [nth]. destruct k; reflexivity.
  - destruct k as [|k]; cbn [nth]; [reflexivity|]. rewrite IH. destruct k; cbn [nth]; reflexivity.
Qed.
Lemma binomR_binom n : forall k, binomR n k = binom n k.
Proof.
  unfold binomR. induction n as [|n IH]; intros k.
  - destruct k as [|[|k]]; reflexivity.
  - cbn [pascal_row]. rewrite next_row_nth. destruct k as [|k].
    + rewrite IH. rewrite binom_0. reflexivity.
    + rewrite !IH. reflexivity.
Qed.

(* the binomial theorem, in the form used for the remaining-probability shortcut *)
Lemma binomial_theorem a b n :
  zsum (fun i => binom n i * zpow a i * zpow b (n - i)) (S n) = zpow (a + b) n.
Proof.
  induction n as [|n IH]; [cbn; ring|].
  cbn [zpow]. rewrite <- IH.
  rewrite (zsum_shift (fun i => binom (S n) i * zpow a i * zpow b (S n - i)) (S n)).
  rewrite binom_0. change (zpow a 0) with 1. replace (S n - 0)%nat with (S n) by lia.
  rewrite (zsum_ext (fun i => binom (S n) (S i) * zpow a (S i) * zpow b (S n - S i))
            (fun i => a * (binom n i * zpow a i * zpow b (n - i)) + binom n (S i) * zpow a (S i) * zpow b (n - i))).
  2:{ intros i _. cbn [binom zpow]. replace (S n - S i)%nat with (n - i)%nat by lia. ring. }
  rewrite zsum_add, zsum_scale.
  set (A := zsum (fun i => binom n i * zpow a i * zpow b (n - i)) (S n)).
  assert (HB : b * A = zpow b (S n) + zsum (fun i => binom n (S i) * zpow a (S i) * zpow b (n - i)) (S n)).
  { unfold A. rewrite (zsum_shift _ n). rewrite binom_0. change (zpow a 0) with 1. replace (n - 0)%nat with n by lia.
    change (zsum (fun i => binom n (S i) * zpow a (S i) * zpow b (n - i)) (S n))
      with (zsum (fun i => binom n (S i) * zpow a (S i) * zpow b (n - i)) n + binom n (S n) * zpow a (S n) * zpow b (n - n)).
    rewrite (binom_gt n (S n)) by lia.
    rewrite Z.mul_add_distr_l. rewrite <- zsum_scale.
    rewrite (zsum_ext (fun i => b * (binom n (S i) * zpow a (S i) * zpow b (n - S i)))
              (fun i => binom n (S i) * zpow a (S i) * zpow b (n - i)) n).
    2:{ intros i Hi. replace (n - i)%nat with (S (n - S i)) by lia. cbn [zpow]. ring. }
    cbn [zpow]. ring. }
  fold A. lia.
Qed.

(* ---------- sums over lists ---------- *)
Section LSum.
Context {A : Type}.
Fixpoint lsum (f : A -> Z) (l : list A) : Z := match l with [] => 0 | x :: t => f x + lsum f t end.

Lemma lsum_ext (l : list A) f g : (forall x, In x l -> f x = g x) -> lsum f l = lsum g l.
Proof. induction l as [|x l IH]; intros H; cbn [lsum]; [reflexivity|].
  rewrite H by (left; reflexivity). rewrite IH by (intros; apply H; right; assumption). reflexivity. Qed.
Lemma lsum_scale (l : list A) c f : lsum (fun x => c * f x) l = c * lsum f l.
Proof. induction l as [|x l IH]; cbn [lsum]; [ring|]. rewrite IH. ring. Qed.
Lemma lsum_add (l : list A) f g : lsum (fun x => f x + g x) l = lsum f l + lsum g l.
Proof. induction l as [|x l IH]; cbn [lsum]; [ring|]. rewrite IH. ring. Qed.
Lemma lsum_app (l1 l2 : list A) f : lsum f (l1 ++ l2) = lsum f l1 + lsum f l2.
Proof. induction l1 as [|x l IH]; cbn [lsum app]; [ring|]. rewrite IH. ring. Qed.
Lemma lsum_zero (l : list A) : lsum (fun _ => 0) l = 0.
Proof. induction l as [|x l IH]; cbn [lsum]; lia. Qed.
Lemma lsum_zsum (l : list A) (F : A -> nat -> Z) n :
  lsum (fun x => zsum (F x) n) l = zsum (fun i => lsum (fun x => F x i) l) n.
Proof. induction l as [|x l IH]; cbn [lsum].
  - rewrite zsum_zero. reflexivity.
  - rewrite IH. rewrite <- zsum_add. reflexivity. Qed.
Lemma lsum_nonneg (l : list A) f : (forall x, In x l -> 0 <= f x) -> 0 <= lsum f l.
Proof. induction l as [|x l IH]; intros H; cbn [lsum]; [lia|].
  assert (0 <= f x) by (apply H; left; reflexivity).
  assert (0 <= lsum f l) by (apply IH; intros; apply H; right; assumption). lia. Qed.
Lemma lsum_perm (l l' : list A) f : Permutation.Permutation l l' -> lsum f l = lsum f l'.
Proof. induction 1; cbn [lsum]; lia. Qed.
End LSum.
Lemma lsum_swap {A B} (l : list A) (m : list B) (F : A -> B -> Z) :
  lsum (fun x => lsum (fun y => F x y) m) l = lsum (fun y => lsum (fun x => F x y) l) m.
Proof. induction l as [|x l IH]; cbn [lsum]; [rewrite lsum_zero; reflexivity|].
  rewrite IH, <- lsum_add. reflexivity. Qed.
Lemma lsum_map {A B} (g : A -> B) (f : B -> Z) l : lsum f (map g l) = lsum (fun x => f (g x)) l.
Proof. induction l as [|x l IH]; cbn [lsum map]; [reflexivity|]. rewrite IH. reflexivity. Qed.
Lemma lsum_flat_map {A B} (g : A -> list B) (f : B -> Z) l : lsum f (flat_map g l) = lsum (fun x => lsum f (g x)) l.
Proof. induction l as [|x l IH]; cbn [lsum flat_map]; [reflexivity|]. rewrite lsum_app, IH. reflexivity. Qed.
Lemma lsum_seq (f : nat -> Z) a k : lsum f (seq a k) = zsum (fun j => f (a + j)%nat) k.
Proof. revert a. induction k as [|k IH]; intros a; [reflexivity|].
  rewrite zsum_shift. cbn [seq lsum]. rewrite IH, Nat.add_0_r. f_equal.
  apply zsum_ext. intros i _. f_equal. lia. Qed.
