(* Decidable total orders on outcomes; insertion sort and the uniqueness of
   sorted permutations. *)
From Coq Require Import ZArith List Lia Bool Arith Permutation Sorted.
Import ListNotations.

Record ord (T : Type) := Ord {
  leb : T -> T -> bool;
  eqb : T -> T -> bool;
  eqb_spec : forall x y, reflect (x = y) (eqb x y);
  leb_refl : forall x, leb x x = true;
  leb_total : forall x y, leb x y = true \/ leb y x = true;
  leb_trans : forall x y z, leb x y = true -> leb y z = true -> leb x z = true;
  leb_antisym : forall x y, leb x y = true -> leb y x = true -> x = y
}.
Arguments leb {T} _ _ _.
Arguments eqb {T} _ _ _.
Arguments eqb_spec {T} _ _ _.
Arguments leb_refl {T} _ _.
Arguments leb_total {T} _ _ _.
Arguments leb_trans {T} _ _ _ _ _ _.
Arguments leb_antisym {T} _ _ _ _ _.

Section Ord.
Context {T : Type} (O : ord T).

Definition ltb (x y : T) : bool := leb O x y && negb (eqb O x y).

Lemma eqb_refl x : eqb O x x = true.
Proof. destruct (eqb_spec O x x); [reflexivity|contradiction]. Qed.
Lemma eqb_eq x y : eqb O x y = true <-> x = y.
Proof. destruct (eqb_spec O x y); split; intros; try assumption; try reflexivity; try discriminate; contradiction. Qed.
Lemma eqb_neq x y : eqb O x y = false <-> x <> y.
Proof. destruct (eqb_spec O x y); split; intros; try assumption; try reflexivity; try discriminate; contradiction. Qed.
Lemma eqb_sym x y : eqb O x y = eqb O y x.
Proof. destruct (eqb_spec O x y), (eqb_spec O y x); congruence. Qed.

Lemma ltb_neq x y : ltb x y = true -> x <> y.
Proof. unfold ltb. destruct (eqb_spec O x y); intros H E; [rewrite andb_false_r in H; discriminate|contradiction]. Qed.
Lemma ltb_leb x y : ltb x y = true -> leb O x y = true.
Proof. unfold ltb. intros H. apply andb_prop in H. tauto. Qed.
Lemma ltb_irrefl x : ltb x x = false.
Proof. unfold ltb. rewrite eqb_refl, andb_false_r. reflexivity. Qed.
Lemma ltb_intro x y : leb O x y = true -> x <> y -> ltb x y = true.
Proof. intros L N. unfold ltb. rewrite L. destruct (eqb_spec O x y); [contradiction|reflexivity]. Qed.
Lemma ltb_trans x y z : ltb x y = true -> ltb y z = true -> ltb x z = true.
Proof. intros H1 H2. pose proof (ltb_leb _ _ H1) as L1. pose proof (ltb_leb _ _ H2) as L2.
  apply ltb_intro; [exact (leb_trans O _ _ _ L1 L2)|]. intros E. subst z.
  apply (ltb_neq _ _ H1). apply (leb_antisym O); assumption. Qed.
Lemma nle_ltb x y : leb O x y = false -> ltb y x = true.
Proof. intros H. destruct (leb_total O x y) as [E|E]; [congruence|].
  apply ltb_intro; [assumption|]. intros E'. subst y. rewrite (leb_refl O) in H. discriminate. Qed.
Lemma ltb_nle x y : ltb x y = true -> leb O y x = false.
Proof. intros H. destruct (leb O y x) eqn:E; [|reflexivity]. exfalso.
  apply (ltb_neq _ _ H). apply (leb_antisym O); [apply ltb_leb|]; assumption. Qed.
Lemma leb_ltb_trans x y z : leb O x y = true -> ltb y z = true -> ltb x z = true.
Proof. intros H1 H2. apply ltb_intro; [exact (leb_trans O _ _ _ H1 (ltb_leb _ _ H2))|].
  intros E. subst z. pose proof (ltb_nle _ _ H2). congruence. Qed.

(* ---------- insertion sort ---------- *)
Fixpoint insert (x : T) (l : list T) : list T :=
  match l with [] => [x] | y :: t => if leb O x y then x :: l else y :: insert x t end.
Fixpoint isort (l : list T) : list T :=
  match l with [] => [] | x :: t => insert x (isort t) end.

Definition le (x y : T) : Prop := leb O x y = true.
Definition sorted (l : list T) : Prop := StronglySorted le l.

Lemma insert_perm x l : Permutation (x :: l) (insert x l).
Proof. induction l as [|y t IH]; cbn [insert]; [reflexivity|].
  destruct (leb O x y); [reflexivity|]. rewrite perm_swap. constructor. exact IH. Qed.
Lemma isort_perm l : Permutation l (isort l).
Proof. induction l as [|x t IH]; cbn [isort]; [reflexivity|].
  rewrite <- insert_perm. constructor. exact IH. Qed.
Lemma insert_length x l : length (insert x l) = S (length l).
Proof. symmetry. apply (Permutation_length (insert_perm x l)). Qed.
Lemma isort_length l : length (isort l) = length l.
Proof. symmetry. apply (Permutation_length (isort_perm l)). Qed.

Lemma insert_sorted x l : sorted l -> sorted (insert x l).
Proof.
  unfold sorted. induction 1 as [|y t Hs IH Hy]; cbn [insert].
  - constructor; constructor.
  - destruct (leb O x y) eqn:E.
    + constructor; [constructor; assumption|]. constructor; [exact E|].
      apply Forall_impl with (2 := Hy). intros z Hz. exact (leb_trans O _ _ _ E Hz).
    + constructor; [exact IH|].
      assert (Hyx : le y x). { destruct (leb_total O x y) as [A|A]; [unfold le in *; congruence|exact A]. }
      apply (Permutation_Forall (insert_perm x t)). constructor; assumption.
Qed.
Lemma isort_sorted l : sorted (isort l).
Proof. induction l as [|x t IH]; cbn [isort]; [constructor|]. apply insert_sorted. exact IH. Qed.

Lemma sorted_perm_unique : forall l l', sorted l -> sorted l' -> Permutation l l' -> l = l'.
Proof.
  unfold sorted. induction l as [|x l IH]; intros l' Hl Hl' P.
  - apply Permutation_nil in P. subst. reflexivity.
  - destruct l' as [|y l']; [apply Permutation_sym, Permutation_nil in P; discriminate|].
    inversion Hl as [|? ? Hs Hx]; subst. inversion Hl' as [|? ? Hs' Hy]; subst.
    assert (x = y).
    { assert (Ix : In x (y :: l')) by (apply (Permutation_in _ P); left; reflexivity).
      assert (Iy : In y (x :: l)) by (apply (Permutation_in _ (Permutation_sym P)); left; reflexivity).
      destruct Ix as [E|Ix]; [auto|]. destruct Iy as [E|Iy]; [auto|].
      rewrite Forall_forall in Hx, Hy. apply (leb_antisym O); [apply Hx|apply Hy]; assumption. }
    subst y. f_equal. apply IH; try assumption. apply Permutation_cons_inv with x. exact P.
Qed.

Lemma isort_of_perm l l' : Permutation l l' -> isort l = isort l'.
Proof. intros P. apply sorted_perm_unique; try apply isort_sorted.
  rewrite <- (isort_perm l), <- (isort_perm l'). exact P. Qed.
Lemma isort_id l : sorted l -> isort l = l.
Proof. intros H. apply sorted_perm_unique; [apply isort_sorted|exact H|]. symmetry. apply isort_perm. Qed.
Lemma isort_idem l : isort (isort l) = isort l.
Proof. apply isort_id, isort_sorted. Qed.
Lemma insert_isort x l : insert x (isort l) = isort (x :: l).
Proof. reflexivity. Qed.
Lemma isort_insert x l : isort (insert x l) = isort (x :: l).
Proof. apply isort_of_perm. symmetry. apply insert_perm. Qed.
Lemma isort_app_isort_l a b : isort (isort a ++ b) = isort (a ++ b).
Proof. apply isort_of_perm. apply Permutation_app_tail. symmetry. apply isort_perm. Qed.
Lemma isort_app_isort_r a b : isort (a ++ isort b) = isort (a ++ b).
Proof. apply isort_of_perm. apply Permutation_app_head. symmetry. apply isort_perm. Qed.
Lemma isort_app_comm a b : isort (a ++ b) = isort (b ++ a).
Proof. apply isort_of_perm. apply Permutation_app_comm. Qed.
Lemma insert_comm x y l : sorted l -> insert x (insert y l) = insert y (insert x l).
Proof. intros H. apply sorted_perm_unique; try (apply insert_sorted, insert_sorted; exact H).
  rewrite <- (insert_perm x (insert y l)), <- (insert_perm y (insert x l)).
  rewrite <- (insert_perm y l), <- (insert_perm x l). apply perm_swap. Qed.

Lemma sorted_repeat x n : sorted (repeat x n).
Proof. induction n as [|n IH]; cbn [repeat]; [constructor|]. constructor; [exact IH|].
  apply Forall_forall. intros y Hy. apply repeat_spec in Hy. subst y. apply (leb_refl O). Qed.
Lemma sorted_app a b : sorted a -> sorted b -> (forall x y, In x a -> In y b -> le x y) -> sorted (a ++ b).
Proof. unfold sorted. induction 1 as [|x a Hs IH Hx]; intros Hb Hab; cbn [app]; [exact Hb|].
  constructor; [apply IH; [exact Hb|intros; apply Hab; [right|]; assumption]|].
  apply Forall_app. split; [exact Hx|]. apply Forall_forall. intros y Hy. apply Hab; [left; reflexivity|exact Hy]. Qed.
Lemma sorted_tail x l : sorted (x :: l) -> sorted l.
Proof. intros H. inversion H; assumption. Qed.
Lemma sorted_head x l : sorted (x :: l) -> Forall (le x) l.
Proof. intros H. inversion H; assumption. Qed.

End Ord.

(* the opposite order *)
Definition flip_ord {T} (O : ord T) : ord T.
Proof.
  refine (@Ord T (fun x y => leb O y x) (eqb O) (eqb_spec O) (leb_refl O) _ _ _).
  - intros x y. destruct (leb_total O x y); [right|left]; assumption.
  - intros x y z H1 H2. exact (leb_trans O _ _ _ H2 H1).
  - intros x y H1 H2. exact (leb_antisym O _ _ H2 H1).
Defined.

Section Flip.
Context {T : Type} (O : ord T).
Lemma sorted_flip_rev l : sorted O l -> sorted (flip_ord O) (rev l).
Proof.
  unfold sorted. induction 1 as [|x l Hs IH Hx]; cbn [rev]; [constructor|].
  apply sorted_app; [exact IH|constructor; [constructor|constructor]|].
  intros a b Ha [Hb|[]]. subst b. unfold le. cbn. apply in_rev in Ha.
  rewrite Forall_forall in Hx. apply Hx. exact Ha.
Qed.
Lemma isort_flip l : isort (flip_ord O) l = rev (isort O l).
Proof.
  apply sorted_perm_unique with (O := flip_ord O); [apply isort_sorted|apply sorted_flip_rev, isort_sorted|].
  rewrite <- (isort_perm (flip_ord O) l). rewrite <- Permutation_rev. apply isort_perm.
Qed.
End Flip.
