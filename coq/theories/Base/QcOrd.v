(* The executable outcome domain: canonical rationals with their usual order. *)
From Coq Require Import ZArith QArith Qcanon List Bool Lia.
From Dyce Require Import Base.Order.
Import ListNotations.

Definition V := Qc.
Definition qc (n : Z) (d : positive) : Qc := Q2Qc (n # d).
Definition Vleb (x y : Qc) : bool := Qle_bool (this x) (this y).
Definition Veqb (x y : Qc) : bool := Qeq_bool (this x) (this y).

Lemma Veqb_spec x y : reflect (x = y) (Veqb x y).
Proof. unfold Veqb. destruct (Qeq_bool (this x) (this y)) eqn:E; constructor.
  - apply Qc_is_canon. apply Qeq_bool_iff. exact E.
  - intros H. subst y. rewrite (proj2 (Qeq_bool_iff _ _) (Qeq_refl _)) in E. discriminate. Qed.

Definition VO : ord Qc.
Proof.
  refine (@Ord Qc Vleb Veqb Veqb_spec _ _ _ _); unfold Vleb.
  - intros x. apply Qle_bool_iff. apply Qle_refl.
  - intros x y. rewrite !Qle_bool_iff. destruct (Qlt_le_dec (this x) (this y)) as [H|H]; [left; apply Qlt_le_weak; exact H|right; exact H].
  - intros x y z. rewrite !Qle_bool_iff. apply Qle_trans.
  - intros x y. rewrite !Qle_bool_iff. intros H1 H2. apply Qc_is_canon. apply Qle_antisym; assumption.
Defined.

Definition Vz (z : Z) : Qc := Q2Qc (inject_Z z).
Definition V_is_int (x : Qc) : bool := Pos.eqb (Qden (this x)) 1.
Definition V_to_Z (x : Qc) : Z := Qnum (this x).
Definition Vfloor (x : Qc) : Z := Z.div (Qnum (this x)) (Zpos (Qden (this x))).
