(* Integers with their usual order, for histograms over counts of dice. *)
From Coq Require Import ZArith Bool Lia.
From Dyce Require Import Base.Order.
Definition ZO : ord Z.
Proof.
  refine (@Ord Z Z.leb Z.eqb Z.eqb_spec _ _ _ _).
  - intros x. apply Z.leb_refl.
  - intros x y. destruct (Z.leb_spec x y); [left; reflexivity|right; apply Z.leb_le; lia].
  - intros x y z H1 H2. apply Z.leb_le in H1, H2. apply Z.leb_le. lia.
  - intros x y H1 H2. apply Z.leb_le in H1, H2. lia.
Defined.
