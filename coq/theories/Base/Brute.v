(* Brute-force enumeration: the weighted sum of F over the ascending-sorted outcome
   lists of all n-sequences of faces of a histogram (bsum), of all rolls of a list of
   dice (pbsum); the binomial split of the extreme face; the count-level partial
   selection recursion (selc) and its correctness. *)
From Coq Require Import ZArith List Lia Bool Arith Permutation.
From Dyce Require Import Base.Sums Base.Order Base.Hist.
Import ListNotations.
Open Scope Z_scope.

Section B.
Context {T : Type} (O : ord T).
Local Notation leb := (leb O).
Local Notation insert := (insert O).
Local Notation isort := (isort O).
Local Notation hist := (hist T).

Fixpoint bsum (h : hist) (n : nat) (F : list T -> Z) : Z :=
  match n with
  | 0%nat => F []
  | S n' => lsum (fun f => snd f * bsum h n' (fun l => F (insert (fst f) l))) h
  end.

(* all rolls of a list of (possibly different) dice *)
Fixpoint pbsum (p : list hist) (F : list T -> Z) : Z :=
  match p with
  | [] => F []
  | h :: p' => lsum (fun f => snd f * pbsum p' (fun l => F (insert (fst f) l))) h
  end.

Lemma pbsum_repeat h n F : pbsum (repeat h n) F = bsum h n F.
Proof. revert F. induction n as [|n IH]; intros F; cbn [repeat pbsum bsum]; [reflexivity|].
  apply lsum_ext. intros f _. rewrite IH. reflexivity. Qed.

Definition inh (h : hist) (l : list T) := Forall (fun x => In x (keys h)) l.

Lemma insert_inh h x l : In x (keys h) -> inh h l -> inh h (insert x l).
Proof. intros Hx Hl. unfold inh. apply (Permutation_Forall (insert_perm O x l)). constructor; assumption. Qed.

Lemma bsum_ext_inh h n : forall F G, (forall l, inh h l -> sorted O l -> length l = n -> F l = G l) -> bsum h n F = bsum h n G.
Proof. induction n as [|n IH]; intros F G H; cbn [bsum].
  - apply H; [constructor|constructor|reflexivity].
  - apply lsum_ext. intros f Hf. f_equal. apply IH. intros l Hl Hs Hlen. apply H.
    + apply insert_inh; [apply in_map; assumption|assumption].
    + apply insert_sorted. exact Hs.
    + rewrite insert_length. lia. Qed.
Lemma bsum_ext h n F G : (forall l, F l = G l) -> bsum h n F = bsum h n G.
Proof. intros H. apply bsum_ext_inh. intros; apply H. Qed.

Lemma pbsum_ext_s p : forall F G, (forall l, sorted O l -> length l = length p -> F l = G l) -> pbsum p F = pbsum p G.
Proof. induction p as [|h p IH]; intros F G H; cbn [pbsum].
  - apply H; [constructor|reflexivity].
  - apply lsum_ext. intros f _. f_equal. apply IH. intros l Hs Hl. apply H; [apply insert_sorted; exact Hs|].
    rewrite insert_length. cbn [length]. lia. Qed.
Lemma pbsum_ext p F G : (forall l, F l = G l) -> pbsum p F = pbsum p G.
Proof. intros H. apply pbsum_ext_s. intros; apply H. Qed.

Lemma bsum_scale h n c F : bsum h n (fun l => c * F l) = c * bsum h n F.
Proof. revert F. induction n as [|n IH]; intros F; cbn [bsum]; [reflexivity|].
  rewrite <- lsum_scale. apply lsum_ext. intros f _. rewrite IH. ring. Qed.
Lemma bsum_add h n F G : bsum h n (fun l => F l + G l) = bsum h n F + bsum h n G.
Proof. revert F G. induction n as [|n IH]; intros F G; cbn [bsum]; [reflexivity|].
  rewrite <- lsum_add. apply lsum_ext. intros f _. rewrite IH. ring. Qed.
Lemma pbsum_scale p c F : pbsum p (fun l => c * F l) = c * pbsum p F.
Proof. revert F. induction p as [|h p IH]; intros F; cbn [pbsum]; [reflexivity|].
  rewrite <- lsum_scale. apply lsum_ext. intros f _. rewrite IH. ring. Qed.
Lemma pbsum_add p F G : pbsum p (fun l => F l + G l) = pbsum p F + pbsum p G.
Proof. revert F G. induction p as [|h p IH]; intros F G; cbn [pbsum]; [reflexivity|].
  rewrite <- lsum_add. apply lsum_ext. intros f _. rewrite IH. ring. Qed.

Lemma bsum_const h n v : bsum h n (fun _ => v) = zpow (total h) n * v.
Proof. induction n as [|n IH]; cbn [bsum zpow]; [ring|].
  rewrite (lsum_ext h _ (fun f => (zpow (total h) n * v) * snd f)).
  2:{ intros f _. rewrite IH. ring. }
  rewrite lsum_scale. unfold total. ring. Qed.
Definition ptotal (p : list hist) : Z := fold_right (fun h acc => total h * acc) 1 p.
Lemma pbsum_const p v : pbsum p (fun _ => v) = ptotal p * v.
Proof. induction p as [|h p IH]; cbn [pbsum ptotal fold_right]; [ring|]. fold (ptotal p).
  rewrite (lsum_ext h _ (fun f => (ptotal p * v) * snd f)).
  2:{ intros f _. rewrite IH. ring. }
  rewrite lsum_scale. unfold total. ring. Qed.

(* ---------- binomial split of the lowest face ---------- *)
Section Split.
Variables (m : T) (c : Z) (h' : hist).
Hypothesis Hlt : forall x, In x (keys h') -> ltb O m x = true.

Lemma insert_min i l : inh h' l -> insert m (repeat m i ++ l) = repeat m (S i) ++ l.
Proof. intros Hl. destruct i as [|i]; cbn [repeat app Order.insert].
  - destruct Hl as [|y t Hy Ht]; cbn [Order.insert]; [reflexivity|]. rewrite (ltb_leb O _ _ (Hlt _ Hy)). reflexivity.
  - rewrite (leb_refl O). reflexivity. Qed.

Lemma insert_skip x i l : In x (keys h') -> insert x (repeat m i ++ l) = repeat m i ++ insert x l.
Proof. intros Hx. induction i as [|i IH]; cbn [repeat app Order.insert]; [reflexivity|].
  rewrite (ltb_nle O _ _ (Hlt _ Hx)), IH. reflexivity. Qed.

Definition X (F : list T -> Z) (k j : nat) := bsum h' k (fun l => F (repeat m j ++ l)).

Lemma split : forall n F,
  bsum ((m, c) :: h') n F = zsum (fun i => binom n i * zpow c i * X F (n - i) i) (S n).
Proof.
  set (h := (m, c) :: h').
  induction n as [|n IH]; intros F.
  - unfold X. cbn [bsum zsum binom zpow repeat app Nat.sub]. ring.
  - change (bsum h (S n) F) with
      (c * bsum h n (fun l => F (insert m l)) +
       lsum (fun f => snd f * bsum h n (fun l => F (insert (fst f) l))) h').
    rewrite IH.
    assert (E1 : zsum (fun i => binom n i * zpow c i * X (fun l => F (insert m l)) (n - i) i) (S n)
               = zsum (fun i => binom n i * zpow c i * X F (n - i) (S i)) (S n)).
    { apply zsum_ext. intros i _. f_equal. unfold X. apply bsum_ext_inh. intros l Hl _ _.
      rewrite insert_min by assumption. reflexivity. }
    rewrite E1. clear E1.
    assert (E2 : lsum (fun f => snd f * bsum h n (fun l => F (insert (fst f) l))) h'
               = zsum (fun i => binom n i * zpow c i * X F (S (n - i)) i) (S n)).
    { rewrite (lsum_ext h' _ (fun f => zsum (fun i => snd f * (binom n i * zpow c i *
                 bsum h' (n - i) (fun l => F (repeat m i ++ insert (fst f) l)))) (S n))).
      2:{ intros f Hf. rewrite IH. rewrite <- zsum_scale. apply zsum_ext. intros i _.
          f_equal. f_equal. unfold X. apply bsum_ext. intros l.
          rewrite insert_skip by (apply in_map; assumption). reflexivity. }
      rewrite lsum_zsum. apply zsum_ext. intros i _.
      unfold X. cbn [bsum].
      rewrite <- lsum_scale. apply lsum_ext. intros f _. ring. }
    rewrite E2. clear E2.
    rewrite (zsum_shift (fun i => binom (S n) i * zpow c i * X F (S n - i) i) (S n)).
    set (A := zsum (fun i => binom n i * zpow c i * X F (n - i) (S i)) (S n)).
    set (B := zsum (fun i => binom n i * zpow c i * X F (S (n - i)) i) (S n)).
    set (D := zsum (fun i => binom n (S i) * zpow c (S i) * X F (n - i) (S i)) (S n)).
    assert (HC : zsum (fun i => binom (S n) (S i) * zpow c (S i) * X F (S n - S i) (S i)) (S n)
                 = c * A + D).
    { unfold A, D. rewrite <- zsum_scale, <- zsum_add. apply zsum_ext. intros i _.
      cbn [binom zpow]. replace (S n - S i)%nat with (n - i)%nat by lia. ring. }
    assert (HB : B = X F (S n) 0 + D).
    { unfold B, D. rewrite (zsum_shift _ n).
      rewrite binom_0. replace (S (n - 0)) with (S n) by lia.
      change (zsum (fun i => binom n (S i) * zpow c (S i) * X F (n - i) (S i)) (S n))
        with (zsum (fun i => binom n (S i) * zpow c (S i) * X F (n - i) (S i)) n
              + binom n (S n) * zpow c (S n) * X F (n - n) (S n)).
      rewrite (binom_gt n (S n)) by lia.
      rewrite (zsum_ext (fun i => binom n (S i) * zpow c (S i) * X F (S (n - S i)) (S i))
                        (fun i => binom n (S i) * zpow c (S i) * X F (n - i) (S i)) n).
      2:{ intros i Hi. replace (S (n - S i)) with (n - i)%nat by lia. reflexivity. }
      change (zpow c 0) with 1. ring. }
    rewrite HC, HB. rewrite binom_0. change (zpow c 0) with 1.
    replace (S n - 0)%nat with (S n) by lia. ring.
Qed.
End Split.

(* ---------- weighted lists of tuples ---------- *)
Fixpoint wsum (l : list (list T * Z)) (F : list T -> Z) : Z :=
  match l with [] => 0 | tc :: l' => snd tc * F (fst tc) + wsum l' F end.

Lemma wsum_app l1 l2 F : wsum (l1 ++ l2) F = wsum l1 F + wsum l2 F.
Proof. induction l1 as [|x l1 IH]; cbn [wsum app]; [ring|]. rewrite IH. ring. Qed.
Lemma wsum_map (g : list T -> list T) (s : Z) l F :
  wsum (map (fun tc => (g (fst tc), s * snd tc)) l) F = s * wsum l (fun t => F (g t)).
Proof. induction l as [|x l IH]; cbn [wsum map fst snd]; [ring|]. rewrite IH. ring. Qed.
Lemma wsum_map_fst (g : list T -> list T) l F :
  wsum (map (fun tc => (g (fst tc), snd tc)) l) F = wsum l (fun t => F (g t)).
Proof. induction l as [|x l IH]; cbn [wsum map fst snd]; [ring|]. rewrite IH. ring. Qed.
Lemma wsum_ext l F G : (forall t, In t (map fst l) -> F t = G t) -> wsum l F = wsum l G.
Proof. induction l as [|x l IH]; intros H; cbn [wsum]; [reflexivity|].
  rewrite H by (left; reflexivity). rewrite IH by (intros; apply H; right; assumption). reflexivity. Qed.
Lemma wsum_flat_seq (G : nat -> list (list T * Z)) F a k :
  wsum (flat_map G (seq a k)) F = zsum (fun j => wsum (G (a + j)%nat) F) k.
Proof. revert a. induction k as [|k IH]; intros a; [reflexivity|].
  rewrite zsum_shift. cbn [seq flat_map]. rewrite wsum_app, IH. rewrite Nat.add_0_r. f_equal.
  apply zsum_ext. intros i _. replace (S a + i)%nat with (a + S i)%nat by lia. reflexivity. Qed.
Lemma wsum_as_lsum l F : wsum l F = lsum (fun tc => snd tc * F (fst tc)) l.
Proof. induction l as [|x l IH]; cbn [wsum lsum]; [reflexivity|]. rewrite IH. reflexivity. Qed.

Lemma firstn_rep_lt (m : T) i k l : (i <= k)%nat -> firstn k (repeat m i ++ l) = repeat m i ++ firstn (k - i) l.
Proof. intros H. rewrite firstn_app, repeat_length. rewrite firstn_all2 by (rewrite repeat_length; lia). reflexivity. Qed.
Lemma firstn_rep_ge (m : T) i k l : (k <= i)%nat -> firstn k (repeat m i ++ l) = repeat m k.
Proof. intros H. rewrite firstn_app, repeat_length. replace (k - i)%nat with 0%nat by lia.
  cbn [firstn]. rewrite app_nil_r. replace i with (k + (i - k))%nat by lia. rewrite repeat_app, firstn_app, repeat_length.
  replace (k - k)%nat with 0%nat by lia. cbn [firstn]. rewrite app_nil_r. apply firstn_all2. rewrite repeat_length. lia. Qed.

(* count-level partial selection from the low end (h in ascending order) *)
Fixpoint selc (h : hist) (n k : nat) : list (list T * Z) :=
  match h with
  | [] => [([], match n with 0%nat => 1 | _ => 0 end)]
  | (m, c) :: h' =>
      flat_map (fun i => map (fun tc => (repeat m i ++ fst tc, (binom n i * zpow c i) * snd tc))
                             (selc h' (n - i) (k - i))) (seq 0 k)
      ++ [(repeat m k,
           zsum (fun j => binom n (k + j) * zpow c (k + j) * zpow (total h') (n - (k + j))) (S n - k))]
  end.

Theorem selc_correct : forall h, sasc O (keys h) -> forall n k F, (k <= n)%nat ->
  wsum (selc h n k) F = bsum h n (fun l => F (firstn k l)).
Proof.
  induction h as [|[m c] h' IH]; intros Hasc n k F Hk.
  - destruct n as [|n]; cbn [selc wsum fst snd bsum lsum].
    + rewrite firstn_nil. ring.
    + ring.
  - destruct Hasc as [Hm Hasc].
    rewrite (split m c h' Hm).
    cbn [selc]. rewrite wsum_app, wsum_flat_seq.
    rewrite (zsum_split_at _ k (S n)) by lia. f_equal.
    + apply zsum_ext. intros i Hi. cbn [Nat.add]. rewrite wsum_map.
      unfold X. rewrite (IH Hasc (n - i)%nat (k - i)%nat) by lia. f_equal.
      apply bsum_ext. intros l. rewrite firstn_rep_lt by lia. reflexivity.
    + cbn [wsum fst snd]. rewrite Z.add_0_r. rewrite Z.mul_comm, <- zsum_scale.
      apply zsum_ext. intros j _. unfold X.
      rewrite (bsum_ext h' _ _ (fun _ => F (repeat m k))).
      2:{ intros l. rewrite firstn_rep_ge by lia. reflexivity. }
      rewrite bsum_const. ring.
Qed.
End B.
