(* Histograms: association lists with strictly ascending outcomes, built by the
   sorted-insert accumulation of H.__init__ (dyce/h.py). *)
From Coq Require Import ZArith List Lia Bool Arith Permutation.
From Dyce Require Import Base.Sums Base.Order.
Import ListNotations.
Open Scope Z_scope.

(* Python exception classes; [Unsupported] is not an exception: it marks inputs on which
   the model declines to predict (the result leaves the exact-rational domain). *)
Inductive exn := ValueError | TypeError | IndexError | ZeroDivisionError | RecursionError | UserError (id : nat) | Unsupported
  | TypeCheck.   (* the runtime type-checker's violation error (beartype) *)
Inductive res (A : Type) := Ok (a : A) | Err (e : exn).
Arguments Ok {A} _.
Arguments Err {A} _.
Definition rbind {A B} (r : res A) (f : A -> res B) : res B :=
  match r with Ok a => f a | Err e => Err e end.

Section H.
Context {T : Type} (O : ord T).
Local Notation eqb := (eqb O).
Local Notation leb := (leb O).
Local Notation ltb := (ltb O).

Definition hist := list (T * Z).

Fixpoint cnt (h : hist) (z : T) : Z :=
  match h with [] => 0 | (o, c) :: h' => (if eqb o z then c else 0) + cnt h' z end.
Definition keys (h : hist) : list T := map fst h.
Definition total (h : hist) : Z := lsum (@snd T Z) h.

(* strictly ascending *)
Fixpoint sasc (l : list T) : Prop :=
  match l with [] => True | x :: t => (forall y, In y t -> ltb x y = true) /\ sasc t end.
Definition nonneg (h : hist) : Prop := forall oc, In oc h -> 0 <= snd oc.
Definition wf (h : hist) : Prop := sasc (keys h) /\ nonneg h.

(* H.__init__ accumulation: insert one (outcome, count) pair *)
Fixpoint hins (o : T) (c : Z) (h : hist) : hist :=
  match h with
  | [] => [(o, c)]
  | (o', c') :: h' =>
      if eqb o o' then (o', c' + c) :: h'
      else if leb o o' then (o, c) :: h
      else (o', c') :: hins o c h'
  end.
Definition mk (l : list (T * Z)) : hist := fold_right (fun oc acc => hins (fst oc) (snd oc) acc) [] l.

(* the constructor with its negative-count rejection *)
Definition mkH (l : list (T * Z)) : res hist :=
  if existsb (fun oc => snd oc <? 0) l then Err ValueError else Ok (mk l).

Lemma cnt_hins o c h z : cnt (hins o c h) z = (if eqb o z then c else 0) + cnt h z.
Proof. induction h as [|[o' c'] h IH]; cbn [hins cnt]; [reflexivity|].
  destruct (eqb_spec O o o') as [E|N].
  - subst o'. cbn [cnt]. destruct (eqb o z); ring.
  - destruct (leb o o'); cbn [cnt]; [ring|]. rewrite IH. ring. Qed.

Lemma cnt_mk l z : cnt (mk l) z = lsum (fun oc => if eqb (fst oc) z then snd oc else 0) l.
Proof. induction l as [|[o c] l IH]; cbn [mk fold_right fst snd lsum]; [reflexivity|].
  fold (mk l). rewrite cnt_hins, IH. reflexivity. Qed.

Lemma cnt_as_lsum h z : cnt h z = lsum (fun oc => if eqb (fst oc) z then snd oc else 0) h.
Proof. induction h as [|[o c] h IH]; cbn [cnt lsum fst snd]; [reflexivity|]. rewrite IH. reflexivity. Qed.

Lemma cnt_app a b z : cnt (a ++ b) z = cnt a z + cnt b z.
Proof. rewrite !cnt_as_lsum. apply lsum_app. Qed.

Lemma in_keys_hins o c h y : In y (keys (hins o c h)) <-> y = o \/ In y (keys h).
Proof. unfold keys. induction h as [|[o' c'] h IH]; cbn [hins map fst In]; [intuition congruence|].
  destruct (eqb_spec O o o') as [E|N]; [subst; cbn [map fst In]; intuition congruence|].
  destruct (leb o o'); cbn [map fst In]; [intuition congruence|]. rewrite IH. intuition congruence. Qed.

Lemma sasc_hins o c h : sasc (keys h) -> sasc (keys (hins o c h)).
Proof. unfold keys. induction h as [|[o' c'] h IH]; cbn [hins map fst sasc]; [intros _; split; [intros y []|exact I]|].
  intros [Hlt Hs]. destruct (eqb_spec O o o') as [E|N]; [cbn [map fst sasc]; split; assumption|].
  destruct (leb o o') eqn:L; cbn [map fst sasc].
  - assert (Hoo : ltb o o' = true) by (apply ltb_intro; assumption).
    split; [|split; assumption]. intros y [Hy|Hy].
    + subst y. exact Hoo.
    + apply (ltb_trans O) with o'; [exact Hoo|auto].
  - split; [|auto]. intros y Hy. apply (in_keys_hins o c h y) in Hy. destruct Hy as [Hy|Hy]; [|auto].
    subst y. apply nle_ltb; assumption. Qed.

Lemma sasc_mk l : sasc (keys (mk l)).
Proof. induction l as [|[o c] l IH]; cbn [mk fold_right]; [exact I|]. apply sasc_hins. exact IH. Qed.

Lemma in_keys_mk l y : In y (keys (mk l)) <-> In y (map fst l).
Proof. induction l as [|[o c] l IH]; cbn [mk fold_right map fst In]; [unfold keys; cbn; tauto|].
  fold (mk l). rewrite in_keys_hins, IH. cbn [fst]. intuition congruence. Qed.

Lemma sasc_unique : forall l1 l2, sasc l1 -> sasc l2 -> (forall y, In y l1 <-> In y l2) -> l1 = l2.
Proof.
  induction l1 as [|x l1 IH]; intros [|y l2] H1 H2 Hin.
  - reflexivity.
  - exfalso. apply (Hin y). left; reflexivity.
  - exfalso. apply (Hin x). left; reflexivity.
  - destruct H1 as [Hx H1], H2 as [Hy H2].
    assert (x = y).
    { destruct (proj1 (Hin x) (or_introl eq_refl)) as [E|E]; [auto|].
      destruct (proj2 (Hin y) (or_introl eq_refl)) as [E'|E']; [auto|].
      exfalso. pose proof (Hy _ E) as A. pose proof (Hx _ E') as B.
      apply (ltb_neq O _ _ A). apply (leb_antisym O); apply ltb_leb; assumption. }
    subst y. f_equal. apply IH; [assumption|assumption|].
    intros z; split; intros Hz.
    + destruct (proj1 (Hin z) (or_intror Hz)) as [E|E]; [|assumption].
      subst z. exfalso. exact (ltb_neq O _ _ (Hx _ Hz) eq_refl).
    + destruct (proj2 (Hin z) (or_intror Hz)) as [E|E]; [|assumption].
      subst z. exfalso. exact (ltb_neq O _ _ (Hy _ Hz) eq_refl).
Qed.

Lemma cnt_notin h z : ~ In z (keys h) -> cnt h z = 0.
Proof. unfold keys. induction h as [|[o c] h IH]; cbn [cnt map fst In]; [reflexivity|].
  intros H. destruct (eqb_spec O o z); [tauto|]. rewrite IH by tauto. ring. Qed.

Lemma sasc_head_notin x l : sasc (x :: l) -> ~ In x l.
Proof. intros [H _] I. exact (ltb_neq O _ _ (H _ I) eq_refl). Qed.

(* extensionality *)
Lemma hist_ext : forall a b, sasc (keys a) -> sasc (keys b) -> keys a = keys b ->
  (forall z, cnt a z = cnt b z) -> a = b.
Proof.
  induction a as [|[o c] a IH]; intros [|[o' c'] b] Ha Hb Hk Hc; try discriminate; [reflexivity|].
  unfold keys in *. cbn [map fst] in Hk. injection Hk as E Hk. subst o'.
  pose proof (sasc_head_notin _ _ Ha) as Na. pose proof (sasc_head_notin _ _ Hb) as Nb.
  destruct Ha as [Hlt Ha], Hb as [Hlt' Hb].
  pose proof (Hc o) as Ho. cbn [cnt] in Ho. rewrite (eqb_refl O) in Ho.
  rewrite (cnt_notin a o Na), (cnt_notin b o Nb) in Ho. assert (c = c') by lia. subst c'.
  f_equal. apply IH; try assumption.
  intros z. pose proof (Hc z) as Hz. cbn [cnt] in Hz. lia.
Qed.

Theorem mk_perm l l' : Permutation l l' -> mk l = mk l'.
Proof.
  intros P. apply hist_ext; try apply sasc_mk.
  - apply sasc_unique; try apply sasc_mk. intros y. rewrite !in_keys_mk.
    split; apply Permutation_in; [apply Permutation_map; assumption|apply Permutation_map; apply Permutation_sym; assumption].
  - intros z. rewrite !cnt_mk. apply lsum_perm. exact P.
Qed.

Lemma total_hins o c h : total (hins o c h) = c + total h.
Proof. unfold total. induction h as [|[o' c'] h IH]; cbn [hins lsum snd]; [ring|].
  destruct (eqb o o'); cbn [lsum snd]; [ring|]. destruct (leb o o'); cbn [lsum snd]; [ring|]. rewrite IH. ring. Qed.
Lemma total_mk l : total (mk l) = lsum (@snd T Z) l.
Proof. induction l as [|[o c] l IH]; cbn [mk fold_right lsum snd fst]; [reflexivity|]. fold (mk l).
  rewrite total_hins, IH. reflexivity. Qed.

Lemma nonneg_hins o c h : 0 <= c -> nonneg h -> nonneg (hins o c h).
Proof. unfold nonneg. induction h as [|[o' c'] h IH]; cbn [hins]; intros Hc Hh oc Hin.
  - destruct Hin as [E|[]]. subst oc. exact Hc.
  - pose proof (Hh (o', c') (or_introl eq_refl)) as Hc'. cbn [snd] in Hc'.
    destruct (eqb o o').
    + destruct Hin as [E|Hin]; [subst oc; cbn [snd]; lia|apply Hh; right; exact Hin].
    + destruct (leb o o').
      * destruct Hin as [E|Hin]; [subst oc; exact Hc|apply Hh; exact Hin].
      * destruct Hin as [E|Hin]; [subst oc; exact Hc'|].
        apply IH; [exact Hc|intros; apply Hh; right; assumption|exact Hin]. Qed.
Lemma nonneg_mk l : (forall oc, In oc l -> 0 <= snd oc) -> nonneg (mk l).
Proof. induction l as [|[o c] l IH]; intros H; cbn [mk fold_right fst snd]; [intros ? []|]. fold (mk l).
  apply nonneg_hins; [apply (H (o, c)); left; reflexivity|apply IH; intros; apply H; right; assumption]. Qed.

Lemma mkH_ok l h : mkH l = Ok h -> h = mk l /\ wf h.
Proof. unfold mkH. destruct (existsb _ l) eqn:E; [discriminate|]. intros H. injection H as <-.
  split; [reflexivity|]. split; [apply sasc_mk|]. apply nonneg_mk. intros oc Hin.
  destruct (Z.ltb_spec (snd oc) 0) as [L|L]; [|exact L]. exfalso.
  assert (existsb (fun oc => snd oc <? 0) l = true); [|congruence].
  apply existsb_exists. exists oc. split; [exact Hin|]. apply Z.ltb_lt. exact L. Qed.
Lemma mkH_err l : (exists e, mkH l = Err e) <-> exists oc, In oc l /\ snd oc < 0.
Proof. unfold mkH. destruct (existsb _ l) eqn:E.
  - split; [intros _|intros _; eexists; reflexivity]. apply existsb_exists in E. destruct E as [oc [Hin Hlt]].
    exists oc. split; [exact Hin|apply Z.ltb_lt; exact Hlt].
  - split; [intros [e He]; discriminate|]. intros [oc [Hin Hlt]]. exfalso.
    assert (existsb (fun oc => snd oc <? 0) l = true); [|congruence].
    apply existsb_exists. exists oc. split; [exact Hin|apply Z.ltb_lt; exact Hlt]. Qed.

Lemma cnt_nonneg h z : nonneg h -> 0 <= cnt h z.
Proof. unfold nonneg. induction h as [|[o c] h IH]; intros H; cbn [cnt]; [lia|].
  pose proof (H (o, c) (or_introl eq_refl)) as Hc. cbn [snd] in Hc.
  assert (0 <= cnt h z) by (apply IH; intros; apply H; right; assumption).
  destruct (eqb o z); lia. Qed.
Lemma total_nonneg h : nonneg h -> 0 <= total h.
Proof. intros H. apply lsum_nonneg. exact H. Qed.

(* a wf histogram is its own construction *)
Lemma sasc_tail x l : sasc (x :: l) -> sasc l. Proof. intros [_ H]; exact H. Qed.
Lemma hins_head o c h : (forall y, In y (keys h) -> ltb o y = true) -> hins o c h = (o, c) :: h.
Proof. destruct h as [|[o' c'] h]; [reflexivity|]. intros H. cbn [hins].
  pose proof (H o' (or_introl eq_refl)) as L. destruct (eqb_spec O o o') as [E|N].
  - subst o'. rewrite ltb_irrefl in L. discriminate.
  - rewrite (ltb_leb O _ _ L). reflexivity. Qed.
Lemma mk_id h : sasc (keys h) -> mk h = h.
Proof. induction h as [|[o c] h IH]; [reflexivity|]. intros [Hlt Hs]. cbn [mk fold_right fst snd]. fold (mk h).
  rewrite IH by exact Hs. apply hins_head. exact Hlt. Qed.

Lemma total_as_cnt h : sasc (keys h) -> total h = lsum (fun o => cnt h o) (keys h).
Proof. induction h as [|[o c] h IH]; [reflexivity|]. intros Hs.
  pose proof (sasc_head_notin _ _ Hs) as Hn. destruct Hs as [Hlt Hs].
  unfold total, keys in *. cbn [lsum snd map fst cnt]. rewrite (eqb_refl O).
  rewrite (cnt_notin h o Hn). rewrite IH by exact Hs. f_equal; [lia|].
  apply lsum_ext. intros y Hy. destruct (eqb_spec O o y) as [E|N]; [subst y; contradiction|ring]. Qed.

(* boolean well-formedness, for examples *)
Fixpoint sascb (l : list T) : bool :=
  match l with [] => true | x :: t => forallb (ltb x) t && sascb t end.
Lemma sascb_sound l : sascb l = true -> sasc l.
Proof. induction l as [|x t IH]; cbn [sascb sasc]; [trivial|]. intros H. apply andb_prop in H. destruct H as [H1 H2].
  split; [|apply IH; exact H2]. intros y Hy. rewrite forallb_forall in H1. apply H1. exact Hy. Qed.
Definition nonnegb (h : hist) : bool := forallb (fun oc => 0 <=? snd oc) h.
Lemma nonnegb_sound h : nonnegb h = true -> nonneg h.
Proof. unfold nonnegb, nonneg. rewrite forallb_forall. intros H oc Hin. apply Z.leb_le. apply H. exact Hin. Qed.
Definition wfb (h : hist) : bool := sascb (keys h) && nonnegb h.
Lemma wfb_sound h : wfb h = true -> wf h.
Proof. unfold wfb, wf. intros H. apply andb_prop in H. destruct H as [H1 H2]. split; [apply sascb_sound|apply nonnegb_sound]; assumption. Qed.

End H.
Arguments hist : clear implicits.
