(* H.lowest_terms, __eq__, __ne__, __hash__ and the H(n) shorthand (dyce/h.py:384-490, 1284-1309). *)
From Coq Require Import ZArith List Bool.
From Dyce Require Import Base.Sums Base.Order Base.Hist Model.Pool.
Import ListNotations.
Open Scope Z_scope.

Section M.
Context {T : Type} (O : ord T).
Local Notation hist := (hist T).

(* math.gcd( *counts ); gcd() = 0 *)
Definition counts_gcd (h : hist) : Z := fold_right (fun oc g => Z.gcd (snd oc) g) 0 h.

Definition lowest (h : hist) : hist :=
  let g := counts_gcd h in
  if ((g =? 0) || (g =? 1)) && negb (existsb (fun oc => snd oc =? 0) h) then h
  else mk O (map (fun oc => (fst oc, snd oc / g)) (filter (fun oc => negb (snd oc =? 0)) h)).

(* dict equality of the reduced mappings; both are in ascending key order *)
Definition heq (a b : hist) : bool := items_eqb O (lowest a) (lowest b).
Definition hne (a b : hist) : bool := negb (heq a b).
(* hash(frozenset(lowest_terms().items())): any function of the reduced item list *)
Definition hhash (a : hist) : hist := lowest a.

(* H(n): faces 1..n (n > 0), n..-1 (n < 0), none for 0 *)
Variable ofZ : Z -> T.
Definition hrange (n : Z) : hist :=
  if n =? 0 then []
  else if n <? 0 then mk O (map (fun i => (ofZ (n + Z.of_nat i), 1)) (seq 0 (Z.to_nat (- n))))
  else mk O (map (fun i => (ofZ (1 + Z.of_nat i), 1)) (seq 0 (Z.to_nat n))).
End M.
