(* foreach, explode, H.substitute, H.explode, P.foreach as instances of the interpreter
   (dyce/evaluation.py:782-946; dyce/h.py:746-818, 1243-1282, 1446-1506; dyce/p.py:421-577). *)
From Coq Require Import ZArith QArith List Bool Arith.
From Dyce Require Import Base.Sums Base.Order Base.Hist Base.Brute Model.Select Model.Pool Model.Equality Model.Eval.
Import ListNotations.
Open Scope Z_scope.

Section X.
Context {T : Type} (O : ord T).
Local Notation hist := (hist T).
Variable pad : T.
(* H + outcome, outcome + outcome, H + H as Python evaluates `a + b` on callback values *)
Variable vadd : val (T:=T) -> val (T:=T) -> res (val (T:=T)).
Variable fuel : nat.
Definition top : evstate := (None, 0%nat).

Definition is_fractional (l : option rawlimit) : bool :=
  match l with Some (RInt _) | None => false | Some _ => true end.

(* evaluation.explode(h, predicate, limit, inf): one decorated function _explode with
   sentinel h; [infv o] is inf * o when that is expressible (None: it leaves the domain) *)
Definition explode (h : hist) (pred : T -> hist -> bool) (lim : option rawlimit)
           (is_zero : T -> bool) (infv : T -> option T) : res hist :=
  let cb (src : hist) (rs : list (result (T:=T))) : ret (T:=T) (St:=hist) :=
    match rs with
    | [[o]] =>
        if pred o src then
          if (Nat.eqb (length src) 1) && is_fractional lim then
            if is_zero o then RHist [(o, 1)]
            else match infv o with Some v => RHist [(v, 1)] | None => RRaise Unsupported end
          else RBin vadd (RCall src None) (ROut o)
        else ROut o
    | _ => RRaise TypeError
    end in
  snd (call O pad (fun src => [SH src]) (fun _ => h) cb None fuel top h lim).

(* H.substitute(expand, coalesce, max_depth, precision_limit) *)
Definition substitute (h : hist) (expand : hist -> T -> val (T:=T)) (coalesce : val (T:=T) -> T -> res (val (T:=T)))
           (max_depth precision_limit : option rawlimit) : res hist :=
  match max_depth, precision_limit with
  | Some _, Some _ => Err ValueError
  | _, _ =>
    let lim := match precision_limit with None => max_depth | Some _ => precision_limit end in
    let cb (src : hist) (rs : list (result (T:=T))) : ret (T:=T) (St:=hist) :=
      match rs with
      | [[o]] => match expand src o with
                 | VHist h' => RUn (fun v => coalesce v o) (RCall h' None)
                 | VOut o' => ROut o'
                 end
      | _ => RRaise TypeError
      end in
    snd (call O pad (fun src => [SH src]) (fun _ => h) cb None fuel top h lim)
  end.

(* deprecated H.explode(max_depth, precision_limit) *)
Variable maxT : hist -> option T.     (* max(h) *)
Definition h_explode (h : hist) (max_depth precision_limit : option rawlimit) : res hist :=
  substitute h
    (fun src o => if Nat.eqb (length src) 1 then VOut o
                  else match maxT src with
                       | Some m => if eqb O o m then VHist src else VOut o
                       | None => VOut o
                       end)
    (fun v o => vadd v (VOut o)) max_depth precision_limit.

(* foreach / an @expandable function called at top level on the given sources *)
Definition foreach (srcs : list (source (T:=T))) (sentinel : hist)
           (cb : list (result (T:=T)) -> ret (T:=T) (St:=unit)) (lim : option rawlimit) : res hist :=
  snd (call O pad (fun _ => srcs) (fun _ => sentinel) (fun _ => cb) None fuel top tt lim).

(* deprecated P.foreach: no context, no limit; aggregate_weighted(...).lowest_terms() *)
Definition p_foreach (pools : list (list hist)) (cb : list (result (T:=T)) -> res (val (T:=T))) : res hist :=
  match branches O pad (map SP pools) with
  | Err e => Err e
  | Ok bs =>
      match seq_res (map (fun b => match cb (fst b) with Ok v => Ok (v, snd b) | Err e => Err e end) bs) with
      | Err e => Err e
      | Ok ws => match aggw O ws with Ok h => Ok (lowest O h) | Err e => Err e end
      end
  end.
End X.
