(* H.exactly_k_times_in_n, H.order_stat_for_n_at_pos with its per-instance cache,
   P.appearances_in_rolls (dyce/h.py:1134-1212, 1311-1369, 1891-1911; dyce/p.py:600-679). *)
From Coq Require Import ZArith List Bool Arith.
From Dyce Require Import Base.Sums Base.Order Base.ZOrd Base.Hist Model.Select Model.Pool.
Import ListNotations.
Open Scope Z_scope.

Section M.
Context {T : Type} (O : ord T).
Local Notation hist := (hist T).

(* n @ h.umap(pred) with False = 0, True = 1: the histogram of "how many of n dice satisfy pred" *)
Definition beta (h : hist) (n : nat) (pred : T -> bool) : Hist.hist Z :=
  sum_h ZO 0 Z.add (repeat (mk ZO (map (fun oc => (if pred (fst oc) then 1 else 0, snd oc)) h)) n).
(* b.gt(pos).get(True, 0) *)
Definition count_above (b : Hist.hist Z) (pos : Z) : Z :=
  lsum (fun kc => if pos <? fst kc then snd kc else 0) b.

(* the betas computed once per n by _order_stat_func_for_n *)
Definition betas (h : hist) (n : nat) : list (T * (Hist.hist Z * Hist.hist Z)) :=
  map (fun oc => let o := fst oc in (o, (beta h n (fun x => leb O x o), beta h n (fun x => ltb O x o)))) h.
Definition os_at (bs : list (T * (Hist.hist Z * Hist.hist Z))) (pos : Z) : hist :=
  mk O (map (fun e => (fst e, count_above (fst (snd e)) pos - count_above (snd (snd e)) pos)) bs).

(* pure answer of h.order_stat_for_n_at_pos(n, pos) *)
Definition order_stat (h : hist) (n pos : Z) : res hist :=
  if n <? 0 then Err ValueError
  else Ok (os_at (betas h (Z.to_nat n)) (if pos <? 0 then n + pos else pos)).

(* with the instance cache _order_stat_funcs_by_n : n -> closure over the betas *)
Definition os_cache := list (Z * list (T * (Hist.hist Z * Hist.hist Z))).
Fixpoint cache_get (c : os_cache) (n : Z) :=
  match c with [] => None | (m, bs) :: c' => if m =? n then Some bs else cache_get c' n end.
Definition order_stat_cached (c : os_cache) (h : hist) (n pos : Z) : os_cache * res hist :=
  if n <? 0 then (c, Err ValueError)
  else let '(c', bs) := match cache_get c n with
                        | Some bs => (c, bs)
                        | None => let bs := betas h (Z.to_nat n) in ((n, bs) :: c, bs)
                        end in
       (c', Ok (os_at bs (if pos <? 0 then n + pos else pos))).
Fixpoint os_run (c : os_cache) (h : hist) (qs : list (Z * Z)) : list (res hist) :=
  match qs with
  | [] => []
  | (n, pos) :: qs' => let '(c', r) := order_stat_cached c h n pos in r :: os_run c' h qs'
  end.

(* h.exactly_k_times_in_n(outcome, n, k) *)
Definition exactly_k (h : hist) (o : T) (n k : nat) : Z := exactly (cnt O h o) (total h) n k.

(* P.appearances_in_rolls(outcome): one binomial histogram per group of identical dice, summed *)
Definition appearances (p : list hist) (o : T) : Hist.hist Z :=
  sum_h ZO 0 Z.add
    (map (fun g => mk ZO (map (fun k => (Z.of_nat k, exactly_k (fst g) o (snd g) k)) (seq 0 (S (snd g)))))
         (h_groups O p)).
End M.
