(* Random rolls as choice trees: H.roll, P.roll (dyce/h.py:1876-1889, dyce/p.py:681-693) and the
   roller classes of dyce/r.py (ValueRoller, PoolRoller, RepeatRoller, Binary/UnarySumOpRoller,
   SelectionRoller, FilterRoller, SubstitutionRoller) at the level of outcome values. *)
From Coq Require Import ZArith QArith List Bool Arith.
From Dyce Require Import Base.Sums Base.Order Base.Hist Model.Select Model.Pool.
Import ListNotations.
Open Scope Z_scope.

Section R.
Context {T : Type} (O : ord T).
Local Notation hist := (hist T).

(* a computation that may ask the random source for one weighted choice at a time:
   RNG.choices(population, weights, k=1)[0]; the answer is the index chosen *)
Inductive tree (A : Type) :=
| Ret (a : A)
| Fail (e : exn)
| Ask (pop : list T) (w : list Z) (k : nat -> tree A).
Arguments Ret {A} _.
Arguments Fail {A} _.
Arguments Ask {A} _ _ _.

Fixpoint bind {A B} (t : tree A) (f : A -> tree B) : tree B :=
  match t with
  | Ret a => f a
  | Fail e => Fail e
  | Ask pop w k => Ask pop w (fun i => bind (k i) f)
  end.

(* probability that the result satisfies P when every Ask is answered fairly: index i with
   probability w_i / sum w (failures count as not satisfying P) *)
Fixpoint prob {A} (t : tree A) (P : A -> bool) : Q :=
  match t with
  | Ret a => if P a then 1%Q else 0%Q
  | Fail _ => 0%Q
  | Ask pop w k =>
      let tot := lsum (fun x => x) w in
      fold_right Qplus 0%Q (map (fun i => (inject_Z (nth i w 0%Z) / inject_Z tot) * prob (k i) P)%Q (seq 0 (length w)))
  end.

(* scripted execution: the answers given by the random source, in order; returns the asks made *)
Fixpoint run {A} (t : tree A) (script : list nat) : list (list T * list Z) * option (res A) :=
  match t with
  | Ret a => ([], Some (Ok a))
  | Fail e => ([], Some (Err e))
  | Ask pop w k =>
      match script with
      | [] => ([(pop, w)], None)
      | i :: rest => let '(asks, r) := run (k i) rest in ((pop, w) :: asks, r)
      end
  end.

Variable zeroT : T.
Variable addT : T -> T -> T.

(* H.roll *)
Definition h_roll (h : hist) : tree T :=
  if total h =? 0 then Ret zeroT
  else Ask (keys h) (map snd h) (fun i => Ret (nth i (keys h) zeroT)).
(* P.roll: one draw per die, then sorted *)
Fixpoint p_roll_raw (p : list hist) : tree (list T) :=
  match p with
  | [] => Ret []
  | h :: p' => bind (h_roll h) (fun x => bind (p_roll_raw p') (fun l => Ret (x :: l)))
  end.
Definition p_roll (p : list hist) : tree (list T) := bind (p_roll_raw p) (fun l => Ret (isort O l)).

(* ---- rollers ---- *)
Inductive expansion := EKeep | EOut (v : T) | EReroll.
Inductive rtree :=
| RVal (v : T)
| RH (h : hist)
| RP (p : list hist)
| RPool (l : list rtree)
| RRepeat (n : nat) (r : rtree)
| RBinOp (op : T -> T -> T) (a b : rtree)
| RUnOp (op : T -> T) (a : rtree)
| RSelect (w : list sel) (l : list rtree)
| RFilter (pred : T -> bool) (l : list rtree)
| RFilterBy (pred : nat -> T -> bool) (l : list rtree)
| RSubst (expand : T -> expansion) (append : bool) (depth : nat) (r : rtree).

(* the values of a roll's outcomes in order; None is a tombstone (dropped outcome) *)
Definition rollv := list (option T).
Definition live (r : rollv) : list T := flat_map (fun o => match o with Some v => [v] | None => [] end) r.
Definition tsumv (l : list T) : T := fold_right addT zeroT l.
(* provenance: the elements of the lists f x (x in l, in order), each paired with the position of x in l
   (positions counted from k) *)
Fixpoint tagged_from {A B} (f : A -> list B) (k : nat) (l : list A) : list (nat * B) :=
  match l with
  | [] => []
  | x :: t => map (pair k) (f x) ++ tagged_from f (Datatypes.S k) t
  end.
(* FilterRoller with a predicate that looks at the provenance of an outcome: pred i v decides the live
   value v of the i-th source roll (0-based); rejected outcomes become tombstones *)
Definition filter_by (pred : nat -> T -> bool) (rs : list rollv) : rollv :=
  map (fun kv => if pred (fst kv) (snd kv) then Some (snd kv) else None) (tagged_from live 0%nat rs).
(* NarySumOpRoller: a single live outcome is used as is, otherwise the sum of the live outcomes *)
Definition summed (r : rollv) : T :=
  match r with
  | [Some v] => v
  | _ => tsumv (live r)
  end.

Fixpoint seq_tree {A} (l : list (tree A)) : tree (list A) :=
  match l with
  | [] => Ret []
  | t :: ts => bind t (fun a => bind (seq_tree ts) (fun r => Ret (a :: r)))
  end.

Definition select_values (w : list sel) (vals : list T) : tree rollv :=
  let sorted := isort O vals in
  match resolve (length sorted) w with
  | Err e => Fail e
  | Ok idx =>
      let excluded := filter (fun i => negb (existsb (Nat.eqb i) idx)) (seq 0 (length sorted)) in
      Ret (map (@Some T) (getitems sorted idx) ++ map (fun _ => None) excluded)
  end.

Fixpoint roll_v (r : rtree) : tree rollv :=
  match r with
  | RVal v => Ret [Some v]
  | RH h => bind (h_roll h) (fun x => Ret [Some x])
  | RP p => bind (p_roll p) (fun l => Ret (map (@Some T) l))
  | RPool l =>
      bind (seq_tree (map roll_v l)) (fun rs => Ret (map (@Some T) (flat_map live rs)))
  | RRepeat n r' =>
      bind (seq_tree (repeat (roll_v r') n)) (fun rs => Ret (map (@Some T) (flat_map live rs)))
  | RBinOp op a b =>
      bind (roll_v a) (fun ra => bind (roll_v b) (fun rb => Ret [Some (op (summed ra) (summed rb))]))
  | RUnOp op a => bind (roll_v a) (fun ra => Ret [Some (op (summed ra))])
  | RSelect w l =>
      bind (seq_tree (map roll_v l)) (fun rs => select_values w (flat_map live rs))
  | RFilter pred l =>
      bind (seq_tree (map roll_v l))
           (fun rs => Ret (map (fun v => if pred v then Some v else None) (flat_map live rs)))
  | RFilterBy pred l =>
      bind (seq_tree (map roll_v l)) (fun rs => Ret (filter_by pred rs))
  | RSubst expand append depth r' =>
      let src := roll_v r' in
      (* _expanded_roll_outcomes(roll, depth): [left] levels of substitution remain *)
      let fix expand_roll (left : nat) (rv : rollv) {struct left} : tree rollv :=
        match left with
        | 0%nat => Ret (map (@Some T) (live rv))
        | Datatypes.S left' =>
            let fix each (vals : list T) : tree rollv :=
              match vals with
              | [] => Ret []
              | v :: rest =>
                  bind (match expand v with
                        | EKeep => Ret [Some v]
                        | EOut v' => Ret [Some v']
                        | EReroll =>
                            bind src (fun rv' => bind (expand_roll left' rv')
                                                     (fun sub => Ret ((if append then Some v else None) :: sub)))
                        end)
                       (fun here => bind (each rest) (fun more => Ret (here ++ more)))
              end in
            each (live rv)
        end in
      bind src (expand_roll depth)
  end.

(* what outcomes()/total() report: the non-dropped values *)
Definition outcomes_of (t : tree rollv) : tree (list T) := bind t (fun r => Ret (live r)).
End R.
Arguments Ret {T A} _.
Arguments Fail {T A} _.
Arguments Ask {T A} _ _ _.
