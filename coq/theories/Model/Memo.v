(* Memoisation as the code uses it: functools.cache on _selected_distros_memoized (dyce/p.py:1133),
   the per-instance lazy caches of H (_lowest_terms, _hash, _order_stat_funcs_by_n).  A memo table is
   keyed by a function K of the arguments; a call looks the key up and otherwise computes and stores. *)
From Coq Require Import ZArith QArith Qcanon List Bool.
From Dyce Require Import Base.Sums Base.Order Base.Hist Base.QcOrd Model.Select Model.Pool Model.Equality.
Import ListNotations.
Open Scope Z_scope.

Section Memo.
Context {In Key Ans : Type}.
Variable K : In -> Key.
Variable f : In -> Ans.
Variable keqb : Key -> Key -> bool.

Definition table := list (Key * Ans).
Definition memo_call (t : table) (x : In) : table * Ans :=
  match find (fun e => keqb (fst e) (K x)) t with
  | Some e => (t, snd e)
  | None => ((K x, f x) :: t, f x)
  end.
(* the answers of a history of calls sharing one table *)
Fixpoint memo_run (t : table) (xs : list In) : list Ans :=
  match xs with
  | [] => []
  | x :: rest => let '(t', a) := memo_call t x in a :: memo_run t' rest
  end.
End Memo.

(* ---- the memo of partial selections, with outcome representations made visible ---- *)
(* an outcome as Python holds it: its numeric type and its value; == and hash only see the value *)
Inductive tag := TBool | TInt | TFraction | TFloat.
Definition tout := (tag * Qc)%type.
Definition thist := list (tout * Z).
Definition untag (h : thist) : hist Qc := map (fun oc => (snd (fst oc), snd oc)) h.
Definition tag_eqb (a b : tag) : bool :=
  match a, b with TBool, TBool | TInt, TInt | TFraction, TFraction | TFloat, TFloat => true | _, _ => false end.

Definition sel_args := (thist * nat * nat * bool)%type.
(* what is computed: the partial selection over the typed items *)
Definition sel_fun (a : sel_args) : list (list tout * Z * Z) :=
  let '(h, n, k, rt) := a in seld rt (if rt then rev h else h) n k.
(* the key after the repair: the exact items (types, values, counts) and the other arguments *)
Definition K_exact (a : sel_args) : sel_args := a.
(* the key before the repair: H.__eq__/__hash__, i.e. the distribution (reduced, untyped) *)
Definition K_dist (a : sel_args) : (hist Qc * nat * nat * bool) :=
  let '(h, n, k, rt) := a in (lowest VO (untag h), n, k, rt).

Definition titem_eqb (x y : tout * Z) : bool :=
  tag_eqb (fst (fst x)) (fst (fst y)) && Veqb (snd (fst x)) (snd (fst y)) && (snd x =? snd y).
Fixpoint thist_eqb (a b : thist) : bool :=
  match a, b with
  | [], [] => true
  | x :: a', y :: b' => titem_eqb x y && thist_eqb a' b'
  | _, _ => false
  end.
Definition K_exact_eqb (a b : sel_args) : bool :=
  let '(h1, n1, k1, r1) := a in let '(h2, n2, k2, r2) := b in
  thist_eqb h1 h2 && Nat.eqb n1 n2 && Nat.eqb k1 k2 && Bool.eqb r1 r2.
Definition K_dist_eqb (a b : hist Qc * nat * nat * bool) : bool :=
  let '(h1, n1, k1, r1) := a in let '(h2, n2, k2, r2) := b in
  items_eqb VO h1 h2 && Nat.eqb n1 n2 && Nat.eqb k1 k2 && Bool.eqb r1 r2.
