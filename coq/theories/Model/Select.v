(* Index / slice resolution (dyce/types.py getitems, Python's slice.indices) and
   _analyze_selection (dyce/p.py:978-1013). *)
From Coq Require Import ZArith List Bool Arith.
From Dyce Require Import Base.Hist.
Import ListNotations.
Open Scope Z_scope.

Inductive sel := Idx (i : Z) | Slice (start stop step : option Z).

Fixpoint zrange_up (fuel : nat) (cur stop step : Z) : list Z :=
  match fuel with
  | O => []
  | S f => if cur <? stop then cur :: zrange_up f (cur + step) stop step else []
  end.
Fixpoint zrange_down (fuel : nat) (cur stop step : Z) : list Z :=
  match fuel with
  | O => []
  | S f => if stop <? cur then cur :: zrange_down f (cur + step) stop step else []
  end.

(* slice.indices(n) followed by range(start, stop, step) *)
Definition slice_positions (n : nat) (start stop step : option Z) : res (list Z) :=
  let len := Z.of_nat n in
  let st := match step with None => 1 | Some s => s end in
  if st =? 0 then Err ValueError else
  let lower := if st <? 0 then -1 else 0 in
  let upper := if st <? 0 then len - 1 else len in
  let clamp (b : Z) := if b <? 0 then Z.max (b + len) lower else Z.min b upper in
  let s0 := match start with None => if st <? 0 then upper else lower | Some b => clamp b end in
  let e0 := match stop with None => if st <? 0 then lower else upper | Some b => clamp b end in
  Ok (if st <? 0 then zrange_down (S n) s0 e0 st else zrange_up (S n) s0 e0 st).

Definition resolve1 (n : nat) (s : sel) : res (list nat) :=
  match s with
  | Idx i =>
      let len := Z.of_nat n in
      if (0 <=? i) && (i <? len) then Ok [Z.to_nat i]
      else if (- len <=? i) && (i <? 0) then Ok [Z.to_nat (i + len)]
      else Err IndexError
  | Slice a b c =>
      match slice_positions n a b c with
      | Ok l => Ok (map Z.to_nat l)
      | Err e => Err e
      end
  end.

Fixpoint resolve (n : nat) (which : list sel) : res (list nat) :=
  match which with
  | [] => Ok []
  | s :: w => match resolve1 n s with
              | Err e => Err e
              | Ok l => match resolve n w with Ok l' => Ok (l ++ l') | Err e => Err e end
              end
  end.

Definition getitems {A} (l : list A) (idx : list nat) : list A :=
  flat_map (fun i => match nth_error l i with Some x => [x] | None => [] end) idx.

(* _analyze_selection on the resolved index list.
   Some 0: nothing selected; Some k (0<k<n): positions all below k; Some (-k): all in the top k;
   Some (m*n): every position exactly m times; None: anything else. *)
Definition occurrences (i : nat) (idx : list nat) : nat := length (filter (Nat.eqb i) idx).
Definition analyze (n : nat) (idx : list nat) : option Z :=
  match idx with
  | [] => Some 0
  | i0 :: _ =>
      let mn := fold_right Nat.min i0 idx in
      let mx := S (fold_right Nat.max i0 idx) in
      if Nat.eqb (mx - mn) n then
        if forallb (fun i => existsb (Nat.eqb i) idx) (seq 0 n)
           && forallb (fun i => Nat.eqb (occurrences i idx) (occurrences i0 idx)) idx
        then Some (Z.of_nat n * Z.of_nat (occurrences i0 idx))
        else None
      else if Nat.ltb (n - mx) mn then Some (Z.of_nat mn - Z.of_nat n)
      else Some (Z.of_nat mx)
  end.
