(* Argument validation at the public entry points that document a rejection
   (dyce/types.py as_int, getitems; H.__init__ counts; H/P/R.__matmul__; is_even/is_odd; within;
   _normalize_limit; explode/substitute mutual exclusion; RollOutcome(None)). *)
From Coq Require Import ZArith QArith List Bool.
From Dyce Require Import Base.Hist Model.Eval.
Import ListNotations.
Open Scope Z_scope.

(* the argument grammar: what a caller may pass where an integer is expected *)
Inductive arg :=
| AInt (z : Z) | ABool (b : bool) | ANpInt (z : Z)          (* int, bool, numpy integer *)
| AFloat (q : Q) | AFrac (q : Q) | ANpFloat (q : Q)         (* float, Fraction, numpy float (exact value) *)
| AStr | ANone.

Definition q_integral (q : Q) : bool := (Qnum q mod Zpos (Qden q) =? 0).
Definition q_to_Z (q : Q) : Z := Qnum q / Zpos (Qden q).

(* the integer an argument equals, if any (independent of any guard) *)
Definition integral_value (a : arg) : option Z :=
  match a with
  | AInt z | ANpInt z => Some z
  | ABool b => Some (if b then 1 else 0)
  | AFloat q | AFrac q | ANpFloat q => if q_integral q then Some (q_to_Z q) else None
  | AStr | ANone => None
  end.
Definition is_number (a : arg) : bool := match a with AStr | ANone => false | _ => true end.
(* has __index__: only true integers *)
Definition is_index (a : arg) : bool := match a with AInt _ | ABool _ | ANpInt _ => true | _ => false end.

(* as_int: lossless coercion; with runtime type-checking on, non-numbers are rejected by the checker *)
Definition as_int_arg (bt : bool) (a : arg) : res Z :=
  match a with
  | AStr | ANone => Err (if bt then TypeCheck else TypeError)
  | _ => match integral_value a with Some z => Ok z | None => Err TypeError end
  end.

(* H({o: count}): counts through as_int, negative rejected *)
Definition count_guard (bt : bool) (a : arg) : res Z :=
  match as_int_arg bt a with
  | Ok z => if z <? 0 then Err ValueError else Ok z
  | Err e => Err e
  end.
(* n @ h, n @ p, n @ r *)
Definition matmul_guard (bt : bool) (a : arg) : res Z :=
  match as_int_arg bt a with
  | Ok z => if z <? 0 then Err ValueError else Ok z
  | Err e => Err e
  end.
(* a selection position for a sequence of length n: operator.__index__ then tuple indexing *)
Definition index_guard (bt : bool) (n : nat) (a : arg) : res nat :=
  if is_index a then
    match integral_value a with
    | Some i => let len := Z.of_nat n in
                if (0 <=? i) && (i <? len) then Ok (Z.to_nat i)
                else if (- len <=? i) && (i <? 0) then Ok (Z.to_nat (i + len))
                else Err IndexError
    | None => Err TypeError
    end
  else Err (if bt then TypeCheck else TypeError).
(* limit= of expandable / foreach / explode *)
Definition limit_arg (a : arg) : option rawlimit :=
  match a with
  | ANone => None
  | AInt z | ANpInt z => Some (RInt z)
  | ABool b => Some (RInt (if b then 1 else 0))
  | AFrac q => Some (RFrac q)
  | AFloat q | ANpFloat q => Some (RFloat q)
  | AStr => Some ROther
  end.
Definition limit_guard (bt : bool) (a : arg) : res (option limit) :=
  match limit_arg a with
  | None => Ok None
  | Some ROther => Err (if bt then TypeCheck else TypeError)
  | Some r => match norm_limit r with Ok l => Ok (Some l) | Err e => Err e end
  end.
(* is_even / is_odd on an outcome *)
Definition parity_guard (a : arg) : res bool :=
  match integral_value a with Some z => Ok (Z.even z) | None => Err TypeError end.
(* within(lo, hi) *)
Definition within_guard (lo hi : Q) : res unit := if Qle_bool lo hi then Ok tt else Err ValueError.
(* max_depth and precision_limit together *)
Definition both_limits_guard (md pl : bool) : res unit := if md && pl then Err ValueError else Ok tt.
(* RollOutcome(value, sources) *)
Definition roll_outcome_guard (value_is_none : bool) (nsources : nat) : res unit :=
  if value_is_none && Nat.eqb nsources 0 then Err ValueError else Ok tt.
