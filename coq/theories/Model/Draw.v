(* H.draw / accumulate / zero_fill / remove  (dyce/h.py:1033-1132, 1371-1380, 1565-1577) *)
From Coq Require Import ZArith List Bool.
From Dyce Require Import Base.Sums Base.Order Base.Hist.
Import ListNotations.
Open Scope Z_scope.

Section M.
Context {T : Type} (O : ord T).

(* A request is the content of Counter(outcomes): (outcome, amount) pairs; an
   iterable of outcomes lists each occurrence with amount 1; repeated keys add. *)
Definition request := list (T * Z).

(* set(+to_draw) - set(+self): a positive amount of an outcome self does not positively hold *)
Definition would_go_negative (h : hist T) (req : request) : bool :=
  existsb (fun o => (0 <? cnt O req o) && negb (0 <? cnt O h o)) (keys req).

(* Counter(self) then .subtract(to_draw): every key of either side survives *)
Definition subtracted (h : hist T) (req : request) : hist T :=
  mk O (h ++ map (fun oc => (fst oc, - snd oc)) req).

Definition draw (h : hist T) (req : request) : res (hist T) :=
  if would_go_negative h req then Err ValueError
  else let new := subtracted h req in
       (* H.__init__ on the counter: a negative count is rejected *)
       if existsb (fun oc => snd oc <? 0) new then Err ValueError else Ok new.

Definition accumulate (h other : hist T) : hist T := mk O (h ++ other).
Definition zero_fill (h : hist T) (outs : list T) : hist T :=
  accumulate h (mk O (map (fun o => (o, 0)) outs)).
Definition remove (h : hist T) (o : T) : hist T :=
  if existsb (eqb O o) (keys h) then mk O (filter (fun oc => negb (eqb O (fst oc) o)) h) else h.

(* successive draws from a deck *)
Fixpoint draws (h : hist T) (reqs : list request) : res (hist T) :=
  match reqs with
  | [] => Ok h
  | r :: rs => match draw h r with Ok h' => draws h' rs | Err e => Err e end
  end.
End M.
