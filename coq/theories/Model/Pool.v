(* Pools: P.__init__, P.total, rolls_with_counts and its helpers, P.h
   (dyce/p.py:198-226, 401-417, 876-920, 1017-1177; H.exactly_k_times_in_n h.py:1200-1212). *)
From Coq Require Import ZArith List Bool Arith.
From Dyce Require Import Base.Sums Base.Order Base.Hist Base.Brute Model.Select.
Import ListNotations.
Open Scope Z_scope.

Section M.
Context {T : Type} (O : ord T).
Local Notation hist := (hist T).

(* math.comb(n,k) * c**k * (total-c)**(n-k) *)
Definition exactly (c tot : Z) (n k : nat) : Z := binomR n k * zpow c k * zpow (tot - c) (n - k).

(* _selected_distros_memoized without the memo.  [hl] lists the items in processing
   order: ascending when taking from the left (this_outcome = min), descending when
   taking from the right (this_outcome = max).  Results are (tuple, numerator,
   denominator); the code reduces the last branch through Fraction, the model keeps
   numerator and denominator unreduced (same rational value). *)
Fixpoint seld (right : bool) (hl : list (T * Z)) (n k : nat) : list (list T * Z * Z) :=
  match hl with
  | [] => [(@nil T, 1, 1)]
  | (m, c) :: hl' =>
      match hl' with
      | [] => [(repeat m k, 1, 1)]
      | _ :: _ =>
          let tot := total hl in
          let tt := if zpow tot n =? 0 then 1 else zpow tot n in     (* h.total**n or 1 *)
          flat_map (fun i =>
                      let head := repeat m i in
                      let hc := exactly c tot n i in
                      map (fun t => let '(tail, tn, td) := t in
                                    (if right then tail ++ head else head ++ tail, hc * tn, tt * td))
                          (seld right hl' (n - i) (k - i)))
                   (seq 0 k)
          ++ [(repeat m k, tt - lsum (fun i => exactly c tot n i) (seq 0 k), tt)]
      end
  end.

(* _rwc_homogeneous_n_h_using_partial_selection *)
Definition rwc_hom (n : nat) (h : hist) (k : Z) (fill : option T) : list (list T * Z) :=
  let right := k <? 0 in
  let ka := Z.abs_nat k in
  if Nat.eqb ka 0 || Nat.ltb n ka then [] else
  let tc := zpow (total h) n in
  map (fun t => let '(outs, num, den) := t in
                (match fill with
                 | None => outs
                 | Some f => if right then repeat f (n - ka) ++ outs else outs ++ repeat f (n - ka)
                 end, tc * num / den))
      (seld right (if right then rev h else h) n ka).

(* itertools.product over the groups' partial enumerations *)
Fixpoint rwc_product (gs : list (list (list T * Z))) : list (list (list T) * Z) :=
  match gs with
  | [] => [([], 1)]
  | g :: gs' => flat_map (fun rc => map (fun rest => (fst rc :: fst rest, snd rc * snd rest)) (rwc_product gs')) g
  end.

(* _rwc_heterogeneous_h_groups; [pad] stands for the +/-inf padding, which is
   deselected afterwards *)
Definition rwc_het (pad : T) (groups : list (hist * nat)) (k : option Z) : list (list T * Z) :=
  let total_n := fold_right (fun g acc => (snd g + acc)%nat) 0%nat groups in
  let per_group := map (fun g => let '(h, n) := g in
                          let kg := match k with
                                    | Some kk => if negb (kk =? 0) && (Z.abs kk <? Z.of_nat n) then kk else Z.of_nat n
                                    | None => Z.of_nat n
                                    end in
                          rwc_hom n h kg None) groups in
  match groups with
  | [] => []
  | _ => map (fun v => let so := isort O (concat (fst v)) in
                       (match k with
                        | None => so
                        | Some kk => if kk <? 0 then repeat pad (total_n - length so) ++ so
                                     else so ++ repeat pad (total_n - length so)
                        end, snd v))
             (rwc_product per_group)
  end.

Definition item_eqb (a b : T * Z) : bool := eqb O (fst a) (fst b) && (snd a =? snd b).
Fixpoint items_eqb (a b : hist) : bool :=
  match a, b with
  | [], [] => true
  | x :: a', y :: b' => item_eqb x y && items_eqb a' b'
  | _, _ => false
  end.
(* groupby on exact items *)
Fixpoint h_groups (p : list hist) : list (hist * nat) :=
  match p with
  | [] => []
  | h :: p' => match h_groups p' with
               | (h', n) :: gs => if items_eqb h h' then (h, S n) :: gs else (h, 1%nat) :: (h', n) :: gs
               | [] => [(h, 1%nat)]
               end
  end.

(* P.rolls_with_counts( *which ); which = None stands for "no argument" *)
Definition rwc (pad : T) (p : list hist) (which : option (list sel)) : res (list (list T * Z)) :=
  let n := length p in
  let ri := match which with
            | None => Ok (Some (Z.of_nat n), None)
            | Some w => match resolve n w with
                        | Ok idx => Ok (analyze n idx, Some idx)
                        | Err e => Err e
                        end
            end in
  match ri with
  | Err e => Err e
  | Ok (i, oidx) =>
      let rolls :=
        if (match i with Some 0 => true | _ => false end) || Nat.eqb n 0 then []
        else match h_groups p with
             | [(h, hn)] =>
                 match i with
                 | Some ii => if negb (ii =? 0) && (Z.abs ii <? Z.of_nat n) then rwc_hom n h ii (Some pad)
                              else rwc_hom n h (Z.of_nat n) None
                 | None => rwc_hom n h (Z.of_nat n) None
                 end
             | groups => rwc_het pad groups i
             end in
      Ok (map (fun rc => (match oidx with Some idx => getitems (fst rc) idx | None => fst rc end, snd rc)) rolls)
  end.

(* lexicographic comparison of item tuples, as Python compares tuples of pairs *)
Fixpoint items_leb (a b : hist) : bool :=
  match a, b with
  | [], _ => true
  | _ :: _, [] => false
  | (o1, c1) :: a', (o2, c2) :: b' =>
      if eqb O o1 o2 then (if c1 =? c2 then items_leb a' b' else c1 <? c2) else leb O o1 o2
  end.
Fixpoint insert_by {A} (le : A -> A -> bool) (x : A) (l : list A) : list A :=
  match l with [] => [x] | y :: t => if le x y then x :: l else y :: insert_by le x t end.
Definition isort_by {A} (le : A -> A -> bool) (l : list A) : list A := fold_right (insert_by le) [] l.

(* P.__init__ on already-flattened histogram arguments: drop falsy, canonical sort *)
Definition mkP (hs : list hist) : list hist :=
  isort_by items_leb (filter (fun h => negb (total h =? 0)) hs).
End M.

(* sums need arithmetic on outcomes *)
Section Sum.
Context {T : Type} (O : ord T).
Variable zeroT : T.
Variable addT : T -> T -> T.
Variable mulzT : Z -> T -> T.
Local Notation hist := (hist T).

Definition tsum (l : list T) : T := fold_right addT zeroT l.

(* H.map(add, other) for two histograms *)
Definition hadd (a b : hist) : hist :=
  mk O (flat_map (fun x => map (fun y => (addT (fst x) (fst y), snd x * snd y)) b) a).
(* sum_h: sum() starts from 0, i.e. 0 + h1 is h1.rmap(0, add) *)
Definition sum_h (hs : list hist) : hist :=
  match hs with
  | [] => []
  | h :: rest => fold_left hadd rest (mk O (map (fun oc => (addT zeroT (fst oc), snd oc)) h))
  end.

(* n @ h: as_int guard elsewhere (C19); negative n rejected; sum_h(repeat(h, n)) *)
Definition hmatmul (n : Z) (h : hist) : res hist :=
  if n <? 0 then Err ValueError else Ok (sum_h (repeat h (Z.to_nat n))).
(* n @ p: n copies of every die, through P.__init__ *)
Definition pmatmul (n : Z) (p : list hist) : res (list hist) :=
  if n <? 0 then Err ValueError else Ok (mkP O (concat (repeat p (Z.to_nat n)))).
(* P( *args ): each argument is a histogram (one die) or a pool (its dice) *)
Definition mkP_args (args : list (list hist)) : list hist := mkP O (concat args).

(* P.h( *which ) *)
Definition p_h (p : list hist) (which : option (list sel)) : res hist :=
  match which with
  | None => Ok (sum_h p)
  | Some [] => Ok (sum_h p)              (* `if which:` is false for an empty argument tuple *)
  | Some w =>
      let n := length p in
      match resolve n w with
      | Err e => Err e
      | Ok idx =>
          match analyze n idx with
          | Some i =>
              if negb (i =? 0) && (Z.of_nat n <=? i)
              then Ok (mk O (map (fun oc => (mulzT (i / Z.of_nat n) (fst oc), snd oc)) (sum_h p)))
              else match rwc O zeroT p which with
                   | Ok rolls => Ok (mk O (map (fun rc => (tsum (fst rc), snd rc)) rolls))
                   | Err e => Err e
                   end
          | None => match rwc O zeroT p which with
                    | Ok rolls => Ok (mk O (map (fun rc => (tsum (fst rc), snd rc)) rolls))
                    | Err e => Err e
                    end
          end
      end
  end.
End Sum.
