(* Histogram arithmetic: H.map / rmap / umap (dyce/h.py:821-911), the operator dunders and
   comparator shorthands that delegate to them, within/vs, and Python's operator semantics
   on the exact-rational outcome domain. *)
From Coq Require Import ZArith QArith Qcanon List Bool.
From Dyce Require Import Base.Sums Base.Order Base.Hist Base.QcOrd.
Import ListNotations.
Open Scope Z_scope.

Fixpoint rmapM {A B} (f : A -> res B) (l : list A) : res (list B) :=
  match l with
  | [] => Ok []
  | x :: t => match f x with
              | Err e => Err e
              | Ok y => match rmapM f t with Ok ys => Ok (y :: ys) | Err e => Err e end
              end
  end.

Section M.
Context {T : Type} (O : ord T).
Local Notation hist := (hist T).

(* total operators: the mathematical content *)
Definition hmapT (op : T -> T -> T) (a b : hist) : hist :=
  mk O (flat_map (fun x => map (fun y => (op (fst x) (fst y), snd x * snd y)) b) a).
Definition humapT (f : T -> T) (a : hist) : hist := mk O (map (fun x => (f (fst x), snd x)) a).

(* operators that may raise: product(self, other) in iteration order, every pair of the
   support product is evaluated (zero-count faces included), first exception wins *)
Definition hmap (op : T -> T -> res T) (a b : hist) : res hist :=
  match rmapM (fun xy => match op (fst (fst xy)) (fst (snd xy)) with
                         | Ok v => Ok (v, snd (fst xy) * snd (snd xy))
                         | Err e => Err e
                         end) (list_prod a b) with
  | Ok l => mkH O l
  | Err e => Err e
  end.
Definition humap (f : T -> res T) (a : hist) : res hist :=
  match rmapM (fun x => match f (fst x) with Ok v => Ok (v, snd x) | Err e => Err e end) a with
  | Ok l => mkH O l
  | Err e => Err e
  end.
(* scalar on the right (map) and on the left (rmap) *)
Definition hmap_s (op : T -> T -> res T) (a : hist) (s : T) : res hist := humap (fun x => op x s) a.
Definition hrmap (op : T -> T -> res T) (s : T) (a : hist) : res hist := humap (fun x => op s x) a.
End M.

(* ---------- Python's operators on exact rationals ---------- *)
Inductive bop := Add | Sub | Mul | TrueDiv | FloorDiv | Mod | Pow | And | Or | Xor
               | Lt | Le | Eq | Ne | Gt | Ge | Within (lo hi : Qc).
Inductive uop := Neg | Pos | Abs | Invert | IsEven | IsOdd.

Definition is_int (x : Qc) : bool := Pos.eqb (Qden (this x)) 1.
Definition numz (x : Qc) : Z := Qnum (this x).
Definition qfloor (x : Qc) : Z := Qnum (this x) / Zpos (Qden (this x)).
Definition ofb (b : bool) : Qc := if b then qc 1 1 else qc 0 1.
Definition qzero (x : Qc) : bool := Z.eqb (numz x) 0.
Fixpoint pos_is_pow2 (p : positive) : bool :=
  match p with xH => true | xO p' => pos_is_pow2 p' | xI _ => false end.
(* int / int gives a float: predicted only when the quotient is exactly representable
   (dyadic with small numerator and denominator) *)
Definition float_exact (x : Qc) : bool :=
  pos_is_pow2 (Qden (this x)) && (Z.abs (numz x) <? 2 ^ 50) && (Zpos (Qden (this x)) <? 2 ^ 50).

Definition binop (o : bop) (x y : Qc) : res Qc :=
  match o with
  | Add => Ok (x + y)%Qc
  | Sub => Ok (x - y)%Qc
  | Mul => Ok (x * y)%Qc
  | TrueDiv =>
      if qzero y then Err ZeroDivisionError
      else let r := (x / y)%Qc in
           if is_int x && is_int y then (if float_exact r then Ok r else Err Unsupported) else Ok r
  | FloorDiv => if qzero y then Err ZeroDivisionError else Ok (Vz (qfloor (x / y)%Qc))
  | Mod => if qzero y then Err ZeroDivisionError else Ok (x - y * Vz (qfloor (x / y)%Qc))%Qc
  | Pow =>
      if negb (is_int y) then Err Unsupported
      else let e := numz y in
           if 0 <=? e then Ok (Qcpower x (Z.to_nat e))
           else if is_int x then
                  (* int ** negative int is a float *)
                  if qzero x then Err ZeroDivisionError
                  else let r := Qcpower (/ x)%Qc (Z.to_nat (- e)) in if float_exact r then Ok r else Err Unsupported
                else if qzero x then Err ZeroDivisionError else Ok (Qcpower (/ x)%Qc (Z.to_nat (- e)))
  | And => if is_int x && is_int y then Ok (Vz (Z.land (numz x) (numz y))) else Err TypeError
  | Or => if is_int x && is_int y then Ok (Vz (Z.lor (numz x) (numz y))) else Err TypeError
  | Xor => if is_int x && is_int y then Ok (Vz (Z.lxor (numz x) (numz y))) else Err TypeError
  | Lt => Ok (ofb (negb (Vleb y x)))
  | Le => Ok (ofb (Vleb x y))
  | Eq => Ok (ofb (Veqb x y))
  | Ne => Ok (ofb (negb (Veqb x y)))
  | Gt => Ok (ofb (negb (Vleb x y)))
  | Ge => Ok (ofb (Vleb y x))
  | Within lo hi =>
      (* _cmp of _within: bool(diff > hi) - bool(diff < lo) *)
      let d := (x - y)%Qc in
      Ok (Vz ((if negb (Vleb d hi) then 1 else 0) - (if negb (Vleb lo d) then 1 else 0)))
  end.

Definition unop (o : uop) (x : Qc) : res Qc :=
  match o with
  | Neg => Ok (- x)%Qc
  | Pos => Ok x
  | Abs => Ok (if Vleb (qc 0 1) x then x else (- x)%Qc)
  | Invert => if is_int x then Ok (Vz (- numz x - 1)) else Err TypeError
  | IsEven => if is_int x then Ok (ofb (Z.even (numz x))) else Err TypeError
  | IsOdd => if is_int x then Ok (ofb (Z.odd (numz x))) else Err TypeError
  end.

(* as_int on a scalar operand of & | ^ *)
Definition as_int_q (x : Qc) : res Qc := if is_int x then Ok x else Err TypeError.

Inductive operand := OpH (h : hist Qc) | OpS (s : Qc).

(* the H dunder / method for operator o applied to (left, right); reflected forms arise
   when the left operand is a scalar *)
Definition h_binop (o : bop) (l r : operand) : res (hist Qc) :=
  let bitwise := match o with And | Or | Xor => true | _ => false end in
  let within_guard := match o with Within lo hi => negb (Vleb lo hi) | _ => false end in
  if within_guard then Err ValueError else
  match l, r with
  | OpH a, OpH b => hmap VO (binop o) a b
  | OpH a, OpS s =>
      if bitwise then match as_int_q s with Ok s' => hmap_s VO (binop o) a s' | Err e => Err e end
      else hmap_s VO (binop o) a s
  | OpS s, OpH b =>
      if bitwise then match as_int_q s with Ok s' => hrmap VO (binop o) s' b | Err e => Err e end
      else hrmap VO (binop o) s b
  | OpS _, OpS _ => Err Unsupported
  end.
Definition h_unop (o : uop) (a : hist Qc) : res (hist Qc) := humap VO (unop o) a.
