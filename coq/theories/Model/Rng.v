(* dyce.rng.NumPyRandomBase: a random.Random whose bits come from a NumPy bit generator
   (dyce/rng.py:54-117).  The NumPy generator is an abstract deterministic state machine. *)
From Coq Require Import ZArith List Bool.
From Dyce Require Import Base.Hist.
Import ListNotations.
Open Scope Z_scope.

(* int.from_bytes(bs, "big") *)
Fixpoint be_value (bs : list Z) : Z :=
  match bs with [] => 0 | b :: rest => b * 256 ^ Z.of_nat (length rest) + be_value rest end.
Definition numbytes (k : Z) : Z := (k + 7) / 8.
(* getrandbits(k) given the bytes the generator returned for randbytes(numbytes k) *)
Definition bits_of (k : Z) (bs : list Z) : Z := Z.shiftr (be_value bs) (numbytes k * 8 - k).

Section G.
Variable G : Type.                       (* state of the NumPy Generator / bit generator *)
Variable U : Type.                       (* floats *)
Variable g_seed : Z -> G.                (* default_rng(bit_generator(a)) *)
Variable g_bytes : G -> nat -> G * list Z.
Variable g_random : G -> G * U.
Variable gauss_pair : U -> U -> U * U.   (* the two normal deviates random.Random.gauss derives from two uniforms *)

(* instance state: the generator and the value random.Random.gauss caches for its next call *)
Definition rstate := (G * option U)%type.

Definition r_seed (a : Z) : rstate := (g_seed a, None).      (* seed() also clears gauss_next *)
(* r.seed(a) on an existing instance: a new generator, and gauss_next cleared *)
Definition r_reseed (_ : rstate) (a : Z) : rstate := r_seed a.
Definition r_getstate (s : rstate) : rstate := s.            (* (bit_generator.state, gauss_next) *)
Definition r_setstate (_ : rstate) (saved : rstate) : rstate := saved.
(* before the repair gauss_next was neither captured nor restored nor cleared *)
Definition r_getstate_old (s : rstate) : G := fst s.
Definition r_setstate_old (s : rstate) (saved : G) : rstate := (saved, snd s).
Definition r_seed_old (s : rstate) (a : Z) : rstate := (g_seed a, snd s).

Definition r_randbytes (s : rstate) (n : nat) : rstate * list Z :=
  let '(g, bs) := g_bytes (fst s) n in ((g, snd s), bs).
Definition r_random (s : rstate) : rstate * U :=
  let '(g, u) := g_random (fst s) in ((g, snd s), u).
Definition r_getrandbits (s : rstate) (k : Z) : rstate * res Z :=
  if k <? 0 then (s, Err ValueError)
  else let '(s', bs) := r_randbytes s (Z.to_nat (numbytes k)) in (s', Ok (bits_of k bs)).
(* the inherited random.Random.gauss *)
Definition r_gauss (s : rstate) : rstate * U :=
  match snd s with
  | Some z => ((fst s, None), z)
  | None => let '(g1, u1) := g_random (fst s) in
            let '(g2, u2) := g_random g1 in
            let '(z1, z2) := gauss_pair u1 u2 in ((g2, Some z2), z1)
  end.

(* a program over the public sampling methods *)
Inductive rop := OpRandom | OpGauss | OpBits (k : Z) | OpBytes (n : nat).
Inductive rout := OutU (u : U) | OutZ (z : res Z) | OutB (bs : list Z).
Definition r_step (s : rstate) (o : rop) : rstate * rout :=
  match o with
  | OpRandom => let '(s', u) := r_random s in (s', OutU u)
  | OpGauss => let '(s', u) := r_gauss s in (s', OutU u)
  | OpBits k => let '(s', z) := r_getrandbits s k in (s', OutZ z)
  | OpBytes n => let '(s', b) := r_randbytes s n in (s', OutB b)
  end.
Fixpoint r_run (s : rstate) (ops : list rop) : list rout :=
  match ops with [] => [] | o :: rest => let '(s', out) := r_step s o in out :: r_run s' rest end.
Fixpoint r_exec (s : rstate) (ops : list rop) : rstate :=
  match ops with [] => s | o :: rest => r_exec (fst (r_step s o)) rest end.
End G.
