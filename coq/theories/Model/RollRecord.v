(* Rolls as records of how results were produced: the object graph built by R.roll()
   (dyce/r.py: Roll.__init__ 2766-2829, RollOutcome.__init__/adopt/euthanize/map/umap,
   ValueRoller/PoolRoller/RepeatRoller/NarySumOpRoller/SelectionRoller/FilterRoller/
   SubstitutionRoller.roll).  Objects live in a heap and are referred to by ids, so that sharing
   and the late association of an outcome with its roll (RollOutcome._roll) can be expressed. *)
From Coq Require Import ZArith QArith List Bool Arith.
From Dyce Require Import Base.Sums Base.Order Base.Hist Model.Select Model.Pool Model.Roller.
Import ListNotations.
Open Scope Z_scope.

Section R.
Context {T : Type} (O : ord T).
Variable zeroT : T.
Variable addT : T -> T -> T.

Definition path := list nat.          (* position of a roller inside the tree: identifies roll.r *)
Record ocell := { ov : option T; osrc : list nat; oown : option nat }.
Record rcell := { rpath : path; rout : list nat; rsrc : list nat }.
Record heap := { houts : list ocell; hrolls : list rcell }.
Definition heap0 : heap := {| houts := []; hrolls := [] |}.

Definition get_o (hp : heap) (i : nat) : ocell :=
  nth i (houts hp) {| ov := None; osrc := []; oown := None |}.
Definition get_r (hp : heap) (i : nat) : rcell :=
  nth i (hrolls hp) {| rpath := []; rout := []; rsrc := [] |}.

(* RollOutcome(value, sources): a fresh, not yet associated outcome *)
Definition new_o (hp : heap) (v : option T) (srcs : list nat) (own : option nat) : heap * nat :=
  ({| houts := houts hp ++ [{| ov := v; osrc := srcs; oown := own |}]; hrolls := hrolls hp |}, length (houts hp)).
Fixpoint new_os (hp : heap) (vs : list T) : heap * list nat :=
  match vs with
  | [] => (hp, [])
  | v :: rest => let '(hp1, i) := new_o hp (Some v) [] None in
                 let '(hp2, is) := new_os hp1 rest in (hp2, i :: is)
  end.
Fixpoint set_owner (l : list ocell) (ids : list nat) (rid : nat) (pos : nat) : list ocell :=
  match l with
  | [] => []
  | c :: t => (if existsb (Nat.eqb pos) ids && (match oown c with None => true | Some _ => false end)
               then {| ov := ov c; osrc := osrc c; oown := Some rid |} else c)
              :: set_owner t ids rid (Datatypes.S pos)
  end.
(* Roll(r, roll_outcomes, source_rolls): outcomes not yet associated with a roll become this roll's *)
Definition new_roll (hp : heap) (p : path) (outs : list nat) (srolls : list nat) : heap * nat :=
  let rid := length (hrolls hp) in
  ({| houts := set_owner (houts hp) outs rid 0; hrolls := hrolls hp ++ [{| rpath := p; rout := outs; rsrc := srolls |}] |}, rid).
(* the fix of NarySumOpRoller.roll: associate the implicit sums with the roll *)
Definition adopt_orphans (hp : heap) (ids : list nat) (rid : nat) : heap :=
  {| houts := set_owner (houts hp) ids rid 0; hrolls := hrolls hp |}.

Definition live_ids (hp : heap) (ids : list nat) : list nat :=
  filter (fun i => match ov (get_o hp i) with Some _ => true | None => false end) ids.
Definition val_of (hp : heap) (i : nat) : T := match ov (get_o hp i) with Some v => v | None => zeroT end.
Definition roll_live (hp : heap) (rid : nat) : list nat := live_ids hp (rout (get_r hp rid)).
(* roll.outcomes() *)
Definition outcomes_rec (hp : heap) (rid : nat) : list T := map (val_of hp) (roll_live hp rid).

(* outcome.euthanize() = umap(lambda: None): a tombstone whose source is the outcome *)
Definition euthanize (hp : heap) (i : nat) : heap * nat := new_o hp None [i] None.
(* outcome.adopt(sources, APPEND): a copy with the extra sources, keeping the association *)
Definition adopt_o (hp : heap) (i : nat) (extra : list nat) : heap * nat :=
  let c := get_o hp i in new_o hp (ov c) (osrc c ++ extra) (oown c).
Fixpoint adopt_os (hp : heap) (ids : list nat) (extra : list nat) : heap * list nat :=
  match ids with
  | [] => (hp, [])
  | i :: rest => let '(hp1, j) := adopt_o hp i extra in
                 let '(hp2, js) := adopt_os hp1 rest extra in (hp2, j :: js)
  end.
(* roll.adopt(sources, APPEND): a new Roll object of the same roller over adopted copies *)
Definition adopt_roll (hp : heap) (rid : nat) (extra : list nat) : heap * nat :=
  let c := get_r hp rid in
  let '(hp1, outs) := adopt_os hp (rout c) extra in
  new_roll hp1 (rpath c) outs (rsrc c).

(* stable sort of outcome ids by value (list.sort(key=attrgetter("value"))) *)
Fixpoint insert_id (hp : heap) (i : nat) (l : list nat) : list nat :=
  match l with
  | [] => [i]
  | j :: t => if leb O (val_of hp i) (val_of hp j) then i :: l else j :: insert_id hp i t
  end.
Definition sort_ids (hp : heap) (ids : list nat) : list nat := fold_right (insert_id hp) [] ids.

Definition M (A : Type) := heap -> tree (T:=T) (heap * A).
Definition mret {A} (a : A) : M A := fun hp => Ret (hp, a).
Definition mbind {A B} (m : M A) (f : A -> M B) : M B :=
  fun hp => bind (m hp) (fun r => f (snd r) (fst r)).
Definition mlift {A} (t : tree (T:=T) A) : M A := fun hp => bind t (fun a => Ret (hp, a)).
Definition mfail {A} (e : exn) : M A := fun _ => Fail e.
Fixpoint mseq {A} (l : list (M A)) : M (list A) :=
  match l with
  | [] => mret []
  | m :: ms => mbind m (fun a => mbind (mseq ms) (fun r => mret (a :: r)))
  end.

(* NarySumOpRoller: per source roll either its single live outcome or a fresh outcome holding the
   sum of its live outcomes, whose sources are ALL outcomes of that roll *)
Definition sum_outcome (rid : nat) : M (nat * list nat) :=
  fun hp =>
    let outs := rout (get_r hp rid) in
    match outs with
    | [i] => match ov (get_o hp i) with
             | Some _ => Ret (hp, (i, []))
             | None => let '(hp1, s) := new_o hp (Some (tsumv zeroT addT (outcomes_rec hp rid))) outs None in
                       Ret (hp1, (s, [s]))
             end
    | _ => let '(hp1, s) := new_o hp (Some (tsumv zeroT addT (outcomes_rec hp rid))) outs None in
           Ret (hp1, (s, [s]))
    end.

Fixpoint roll_m (p : path) (r : rtree (T:=T)) {struct r} : M nat :=
  let sources (l : list (rtree (T:=T))) : M (list nat) :=
    (fix go (l : list (rtree (T:=T))) (k : nat) : M (list nat) :=
       match l with
       | [] => mret []
       | x :: rest => mbind (roll_m (p ++ [k]) x) (fun rid => mbind (go rest (Datatypes.S k)) (fun rs => mret (rid :: rs)))
       end) l 0%nat in
  match r with
  | RVal v => fun hp => let '(hp1, i) := new_o hp (Some v) [] None in Ret (new_roll hp1 p [i] [])
  | RH h => mbind (mlift (h_roll zeroT h)) (fun x => fun hp =>
              let '(hp1, i) := new_o hp (Some x) [] None in Ret (new_roll hp1 p [i] []))
  | RP pl => mbind (mlift (p_roll O zeroT pl)) (fun l => fun hp =>
               let '(hp1, is) := new_os hp l in Ret (new_roll hp1 p is []))
  | RPool l => mbind (sources l) (fun rids => fun hp =>
                 Ret (new_roll hp p (flat_map (roll_live hp) rids) rids))
  | RRepeat n r' =>
      mbind (mseq (repeat (roll_m (p ++ [0%nat]) r') n)) (fun rids => fun hp =>
        Ret (new_roll hp p (flat_map (roll_live hp) rids) rids))
  | RBinOp op a b =>
      mbind (roll_m (p ++ [0%nat]) a) (fun ra => mbind (roll_m (p ++ [1%nat]) b) (fun rb =>
      mbind (sum_outcome ra) (fun sa => mbind (sum_outcome rb) (fun sb => fun hp =>
        let x := fst sa in let y := fst sb in
        let '(hp1, res) := new_o hp (Some (op (val_of hp x) (val_of hp y))) [x; y] None in
        let '(hp2, rid) := new_roll hp1 p [res] [ra; rb] in
        Ret (adopt_orphans hp2 (snd sa ++ snd sb) rid, rid)))))
  | RUnOp op a =>
      mbind (roll_m (p ++ [0%nat]) a) (fun ra => mbind (sum_outcome ra) (fun sa => fun hp =>
        let x := fst sa in
        let '(hp1, res) := new_o hp (Some (op (val_of hp x))) [x] None in
        let '(hp2, rid) := new_roll hp1 p [res] [ra] in
        Ret (adopt_orphans hp2 (snd sa) rid, rid)))
  | RSelect w l =>
      mbind (sources l) (fun rids => fun hp =>
        let sorted := sort_ids hp (flat_map (roll_live hp) rids) in
        match resolve (length sorted) w with
        | Err e => Fail e
        | Ok idx =>
            let excluded := filter (fun i => negb (existsb (Nat.eqb i) idx)) (seq 0 (length sorted)) in
            let '(hp1, tombs) :=
              fold_left (fun acc i => let '(h0, ts) := acc in
                                      let '(h1, t) := euthanize h0 (nth i sorted 0%nat) in (h1, ts ++ [t]))
                        excluded (hp, []) in
            Ret (new_roll hp1 p (getitems sorted idx ++ tombs) rids)
        end)
  | RFilter pred l =>
      mbind (sources l) (fun rids => fun hp =>
        let '(hp1, outs) :=
          fold_left (fun acc i => let '(h0, os) := acc in
                                  if pred (val_of h0 i) then (h0, os ++ [i])
                                  else let '(h1, t) := euthanize h0 i in (h1, os ++ [t]))
                    (flat_map (roll_live hp) rids) (hp, []) in
        Ret (new_roll hp1 p outs rids))
  | RFilterBy pred l =>
      (* as RFilter, but the live outcome ids come paired with the position of their source roll in rids *)
      mbind (sources l) (fun rids => fun hp =>
        let '(hp1, outs) :=
          fold_left (fun acc ki => let '(h0, os) := acc in
                                   if pred (fst ki) (val_of h0 (snd ki)) then (h0, os ++ [snd ki])
                                   else let '(h1, t) := euthanize h0 (snd ki) in (h1, os ++ [t]))
                    (tagged_from (roll_live hp) 0%nat rids) (hp, []) in
        Ret (new_roll hp1 p outs rids))
  | RSubst expand append depth r' =>
      let src := roll_m (p ++ [0%nat]) r' in
      (* _expanded_roll_outcomes(roll, depth): returns (outcome ids yielded, source rolls appended) *)
      let fix expand_roll (left : nat) (rid : nat) {struct left} : M (list nat * list nat) :=
        match left with
        | 0%nat => fun hp => Ret (hp, (roll_live hp rid, [rid]))
        | Datatypes.S left' =>
            let fix each (ids : list nat) : M (list nat * list nat) :=
              match ids with
              | [] => mret ([], [])
              | i :: rest =>
                  mbind (fun hp =>
                           match expand (val_of hp i) with
                           | EKeep => Ret (hp, ([i], []))
                           | EOut v' =>
                               (* RollOutcome(v') then .adopt((outcome,), APPEND) *)
                               let '(hp1, fresh) := new_o hp (Some v') [] None in
                               let '(hp2, ad) := adopt_o hp1 fresh [i] in Ret (hp2, ([ad], []))
                           | EReroll =>
                               bind (src hp) (fun r1 =>
                                 let hp1 := fst r1 in let rid' := snd r1 in
                                 let '(hp2, head) := if append then (hp1, i) else euthanize hp1 i in
                                 let '(hp3, ar) := adopt_roll hp2 rid' [i] in
                                 bind (expand_roll left' ar hp3) (fun r2 =>
                                   Ret (fst r2, (head :: fst (snd r2), snd (snd r2)))))
                           end)
                        (fun here => mbind (each rest) (fun more =>
                           mret (fst here ++ fst more, snd here ++ snd more)))
              end in
            fun hp => bind (each (roll_live hp rid) hp) (fun r => Ret (fst r, (fst (snd r), rid :: snd (snd r))))
        end in
      mbind src (fun rid => mbind (expand_roll depth rid) (fun res => fun hp =>
        Ret (new_roll hp p (fst res) (snd res))))
  end.

(* ---- projection used by the correspondence: the record as a tree ---- *)
Inductive otree := ONode (v : option T) (owner : option path) (sources : list otree).
Inductive rolltree := RNode (p : path) (outs : list otree) (srolls : list rolltree).
Fixpoint o_tree (fuel : nat) (hp : heap) (i : nat) : otree :=
  match fuel with
  | 0%nat => ONode None None []
  | Datatypes.S f => let c := get_o hp i in
                     ONode (ov c) (match oown c with Some rid => Some (rpath (get_r hp rid)) | None => None end)
                           (map (o_tree f hp) (osrc c))
  end.
Fixpoint r_tree (fuel : nat) (hp : heap) (rid : nat) : rolltree :=
  match fuel with
  | 0%nat => RNode [] [] []
  | Datatypes.S f => let c := get_r hp rid in
                     RNode (rpath c) (map (o_tree f hp) (rout c)) (map (r_tree f hp) (rsrc c))
  end.
End R.
