(* Histograms, pools and rollers as immutable values in a store: every public operation allocates
   new objects and never writes an existing one (dyce/h.py, dyce/p.py, dyce/r.py: all methods build
   via type(self)(...), P(...), copy-then-annotate); H(h) aliases the underlying mapping of h. *)
From Coq Require Import ZArith QArith Qcanon List Bool.
From Dyce Require Import Base.Sums Base.Order Base.Hist Base.QcOrd Model.Select Model.Pool Model.Equality
  Model.Arith Model.Draw.
Import ListNotations.
Open Scope Z_scope.

Inductive obj :=
| HObj (dict : nat)                         (* an H: a reference to its mapping *)
| PObj (dice : list nat)                    (* a P: references to its H objects, in canonical order *)
| RObj (sources : list nat) (annotation : nat).
Record store := { dicts : list (hist Qc); objs : list obj }.
Definition store0 : store := {| dicts := []; objs := [] |}.

Definition get_dict (s : store) (d : nat) : hist Qc := nth d (dicts s) [].
Definition get_obj (s : store) (i : nat) : obj := nth i (objs s) (HObj 0).
Definition h_items (s : store) (i : nat) : hist Qc :=
  match get_obj s i with HObj d => get_dict s d | _ => [] end.

(* what a client can observe of an object *)
Inductive observation :=
| ObsH (items : hist Qc) (total : Z)
| ObsP (dice : list (hist Qc))
| ObsR (sources : list nat) (annotation : nat).
Definition observe (s : store) (i : nat) : observation :=
  match get_obj s i with
  | HObj d => ObsH (get_dict s d) (total (get_dict s d))
  | PObj dice => ObsP (map (h_items s) dice)
  | RObj srcs ann => ObsR srcs ann
  end.

Definition new_h (s : store) (h : hist Qc) : store * nat :=
  ({| dicts := dicts s ++ [h]; objs := objs s ++ [HObj (length (dicts s))] |}, length (objs s)).
Definition new_obj (s : store) (o : obj) : store * nat :=
  ({| dicts := dicts s; objs := objs s ++ [o] |}, length (objs s)).
Fixpoint new_hs (s : store) (hs : list (hist Qc)) : store * list nat :=
  match hs with
  | [] => (s, [])
  | h :: rest => let '(s1, i) := new_h s h in let '(s2, is) := new_hs s1 rest in (s2, i :: is)
  end.
(* the dice of a pool object, or the histogram itself *)
Definition dice_of (s : store) (i : nat) : list nat :=
  match get_obj s i with PObj dice => dice | HObj _ => [i] | RObj _ _ => [] end.
(* P(...) sorts its (non-empty) dice canonically; the H objects themselves are reused *)
Definition pool_ids (s : store) (ids : list nat) : list nat :=
  isort_by (fun a b => items_leb VO (h_items s a) (h_items s b))
           (filter (fun i => negb (total (h_items s i) =? 0)) ids).

Inductive op :=
| OConst (h : hist Qc)                      (* H({...}) *)
| OAdd (a b : nat)                          (* a + b on two histograms *)
| OAlias (a : nat)                          (* H(a) *)
| OLowest (a : nat)                         (* a.lowest_terms() (may return a itself) *)
| ODraw (a : nat) (req : list (Qc * Z))
| OAccumulate (a b : nat)
| OPool (args : list nat)                   (* P(x, y, ...) over histograms and pools *)
| OPoolIndex (p : nat) (i : nat)            (* p[i] *)
| OPoolSlice (p : nat) (lo hi : nat)        (* p[lo:hi] *)
| OMatmulP (n : Z) (p : nat)                (* n @ p *)
| OFlatten (p : nat)                        (* H(p) / p.h() *)
| ORoller (sources : list nat) (ann : nat)
| OAnnotate (r : nat) (ann : nat)           (* r.annotate(ann) *)
| OSetItem (a : nat)                        (* a[k] = v, del a[k]: unsupported *)
| ORejected (e : exn).                      (* any call rejected by argument validation (C19) *)

Definition step (s : store) (o : op) : store * res nat :=
  let ok (r : store * nat) := (fst r, Ok (snd r)) in
  match o with
  | OConst h => match mkH VO h with Ok h' => ok (new_h s h') | Err e => (s, Err e) end
  | OAdd a b => match hmap VO (binop Add) (h_items s a) (h_items s b) with
                | Ok h => ok (new_h s h) | Err e => (s, Err e) end
  | OAlias a => match get_obj s a with HObj d => ok (new_obj s (HObj d)) | _ => (s, Err TypeError) end
  | OLowest a =>
      let h := h_items s a in
      if items_eqb VO (lowest VO h) h then (s, Ok a) else ok (new_h s (lowest VO h))
  | ODraw a req => match draw VO (h_items s a) req with Ok h => ok (new_h s h) | Err e => (s, Err e) end
  | OAccumulate a b => ok (new_h s (accumulate VO (h_items s a) (h_items s b)))
  | OPool args => ok (new_obj s (PObj (pool_ids s (flat_map (dice_of s) args))))
  | OPoolIndex p i => match nth_error (dice_of s p) i with Some d => (s, Ok d) | None => (s, Err IndexError) end
  | OPoolSlice p lo hi => ok (new_obj s (PObj (pool_ids s (firstn (hi - lo) (skipn lo (dice_of s p))))))
  | OMatmulP n p => if n <? 0 then (s, Err ValueError)
                    else ok (new_obj s (PObj (pool_ids s (concat (repeat (dice_of s p) (Z.to_nat n))))))
  | OFlatten p => ok (new_h s (sum_h VO (qc 0 1) Qcplus (map (h_items s) (dice_of s p))))
  | ORoller srcs ann => ok (new_obj s (RObj srcs ann))
  | OAnnotate r ann => match get_obj s r with
                       | RObj srcs _ => ok (new_obj s (RObj srcs ann))
                       | _ => (s, Err TypeError) end
  | OSetItem a => (s, Err TypeError)
  | ORejected e => (s, Err e)
  end.

Fixpoint steps (s : store) (ops : list op) : store :=
  match ops with [] => s | o :: rest => steps (fst (step s o)) rest end.
