(* H.distribution, mean, variance (dyce/h.py:1590-1705, 1833-1874) over exact rationals. *)
From Coq Require Import ZArith QArith Qcanon List Bool.
From Dyce Require Import Base.Sums Base.Order Base.Hist Base.QcOrd.
Import ListNotations.
Open Scope Z_scope.

Definition tot1 (h : hist Qc) : Z := if total h =? 0 then 1 else total h.   (* total or 1 *)

(* (outcome, rational_t(count, total or 1)) for every outcome in order *)
Definition distribution (h : hist Qc) : list (Qc * (Z * Z)) :=
  map (fun oc => (fst oc, (snd oc, tot1 h))) h.

Fixpoint qsum {A} (f : A -> Qc) (l : list A) : Qc :=
  match l with [] => Q2Qc 0 | x :: t => (f x + qsum f t)%Qc end.

Definition zq (z : Z) : Qc := Q2Qc (inject_Z z).
Definition prob (h : hist Qc) (oc : Qc * Z) : Qc := (zq (snd oc) / zq (tot1 h))%Qc.

Definition mean (h : hist Qc) : Qc :=
  (qsum (fun oc => fst oc * zq (snd oc)) h / zq (tot1 h))%Qc.
(* numerator / (denominator or 1) - mu**2 with mu = mean *)
Definition variance (h : hist Qc) : Qc :=
  (qsum (fun oc => fst oc * fst oc * zq (snd oc)) h / zq (tot1 h) - mean h * mean h)%Qc.
(* the definition of variance: E[(X - mu)^2] *)
Definition variance_spec (h : hist Qc) : Qc :=
  (qsum (fun oc => (fst oc - mean h) * (fst oc - mean h) * zq (snd oc)) h / zq (tot1 h))%Qc.
