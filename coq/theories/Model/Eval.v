(* Dependent-term evaluation: expandable._f, aggregate_weighted, _normalize_limit, the
   ContextVar discipline, foreach, explode, H.substitute, P.foreach
   (dyce/evaluation.py:80-101, 619-708, 718-779, 782-830, 929-1010; dyce/h.py:1243-1282,
   1446-1506; dyce/p.py:421-577). *)
From Coq Require Import ZArith QArith List Bool Arith.
From Dyce Require Import Base.Sums Base.Order Base.Hist Base.Brute Model.Select Model.Pool Model.Equality.
Import ListNotations.
Open Scope Z_scope.

(* ---- limits ---- *)
Inductive limit := LInt (z : Z) | LFrac (q : Q).
(* what a caller may pass: an integral value (int, bool, numpy ints), a Fraction, a float
   (given by its exact value), or something that is not a number *)
Inductive rawlimit := RInt (z : Z) | RFrac (q : Q) | RFloat (q : Q) | ROther.
Definition maxsize : Z := 2 ^ 63 - 1.

(* _normalize_limit *)
Definition norm_limit (l : rawlimit) : res limit :=
  match l with
  | RInt z => if z =? -1 then Ok (LInt maxsize) else if z <? 0 then Err ValueError else Ok (LInt z)
  | RFrac q | RFloat q =>
      if Qle_bool q 0 || Qle_bool 1 q then Err ValueError else Ok (LFrac q)
  | ROther => Err TypeError
  end.
Definition raw_of (l : limit) : rawlimit := match l with LInt z => RInt z | LFrac q => RFrac q end.

Record ctxt := { c_lim : option limit; c_depth : Z; c_prec : Q }.
Definition ctxt0 : ctxt := {| c_lim := None; c_depth := 0; c_prec := 1 |}.
Definition cvar := option ctxt.            (* the ContextVar: None = never set (LookupError) *)

Definition cut (l : limit) (c : ctxt) : bool :=
  match l with
  | LInt z => z <=? c_depth c
  | LFrac q => Qle_bool (c_prec c) q
  end.

Section E.
Context {T : Type} (O : ord T).
(* the decorated functions in play, together with the sources each one is called with *)
Context {St : Type}.
Local Notation hist := (hist T).

Inductive val := VOut (o : T) | VHist (h : hist).
Definition result := list T.      (* HResult: [outcome]; PResult: the (selected) roll *)

Inductive source := SH (h : hist) | SP (p : list hist) | SPW (p : list hist) (w : list sel).

Variable pad : T.

(* _h_or_p_or_p_with_selection_to_result_iterable *)
Definition src_results (s : source) : res (list (result * Z)) :=
  match s with
  | SH h => Ok (map (fun oc => ([fst oc], snd oc)) h)
  | SP p => rwc O pad p None
  | SPW p [] => rwc O pad p None                (* rolls_with_counts( *() ) *)
  | SPW p w => rwc O pad p (Some w)
  end.
Definition src_total (s : source) : Z :=
  match s with SH h => total h | SP p | SPW p _ => ptotal p end.

(* itertools.product of the result iterables; the combined count is the product *)
Fixpoint results_product (rs : list (list (result * Z))) : list (list result * Z) :=
  match rs with
  | [] => [([], 1)]
  | r :: rs' => flat_map (fun x => map (fun rest => (fst x :: fst rest, snd x * snd rest)) (results_product rs')) r
  end.
Fixpoint seq_res {A} (l : list (res A)) : res (list A) :=
  match l with
  | [] => Ok []
  | Ok a :: t => match seq_res t with Ok r => Ok (a :: r) | Err e => Err e end
  | Err e :: _ => Err e
  end.
Definition branches (srcs : list source) : res (list (list result * Z)) :=
  match seq_res (map src_results srcs) with
  | Ok rs => Ok (results_product rs)
  | Err e => Err e
  end.
Definition srcs_total (srcs : list source) : Z := fold_right (fun s acc => src_total s * acc) 1 srcs.

(* aggregate_weighted *)
Definition aggw_step (st : Z * list (T * Z)) (vc : val * Z) : Z * list (T * Z) :=
  let '(scalar, ocs) := st in
  let '(v, count) := vc in
  match v with
  | VHist h =>
      if total h =? 0 then (scalar, ocs)            (* `if outcome_or_h:` - falsy histograms are skipped *)
      else (scalar * total h,
            map (fun oc => (fst oc, snd oc * total h)) ocs
            ++ map (fun oc => (fst oc, count * scalar * snd oc)) h)
  | VOut o => (scalar, ocs ++ [(o, count * scalar)])
  end.
Definition aggw (ws : list (val * Z)) : res hist := mkH O (snd (fold_left aggw_step ws (1, []))).

(* what a callback may return: a term over outcomes, histograms, nested decorated calls and
   arbitrary (possibly raising) unary / binary operations on their values *)
Inductive ret :=
| ROut (o : T)
| RHist (h : hist)
| RCall (st : St) (lim : option rawlimit)
| RUn (f : val -> res val) (r : ret)
| RBin (f : val -> val -> res val) (r1 r2 : ret)
| RRaise (e : exn)
(* try: r1  except <classes c>: r2 *)
| RTry (c : exn -> bool) (r1 r2 : ret).

(* a mechanic: per decorated function (state) its sources, sentinel and callback *)
Variable srcs : St -> list source.
Variable sentinel : St -> hist.
Variable cb : St -> list result -> ret.
(* fault injection: the callback invocation with this running index raises UserError 7 *)
Variable fault : option nat.

Definition evstate := (cvar * nat)%type.   (* ContextVar content, number of callback invocations so far *)

Definition lowest_if_top (c : ctxt) (h : hist) : hist := if c_depth c =? 0 then lowest O h else h.

Fixpoint call (fuel : nat) (s : evstate) (st : St) (lim : option rawlimit) {struct fuel} : evstate * res hist :=
  match fuel with
  | Datatypes.O => (s, Err RecursionError)
  | Datatypes.S fuel' =>
    let cur := match fst s with Some c => c | None => ctxt0 end in
    let nl := match lim with
              | None => match c_lim cur with None => Ok (LInt 1) | Some l => norm_limit (raw_of l) end
              | Some l => norm_limit l
              end in
    match nl with
    | Err e => (s, Err e)
    | Ok l =>
      if cut l cur then (s, Ok (lowest_if_top cur (sentinel st))) else
      match branches (srcs st) with
      | Err e => (s, Err e)
      | Ok bs =>
        let tot := srcs_total (srcs st) in
        let eval_ret := fix ev (r : ret) (s : evstate) {struct r} : evstate * res val :=
          match r with
          | ROut o => (s, Ok (VOut o))
          | RHist h => (s, Ok (VHist h))
          | RCall st' lim' => match call fuel' s st' lim' with
                              | (s', Ok h) => (s', Ok (VHist h))
                              | (s', Err e) => (s', Err e)
                              end
          | RUn f r' => match ev r' s with
                        | (s', Ok x) => (s', f x)
                        | (s', Err e) => (s', Err e)
                        end
          | RBin f r1 r2 => match ev r1 s with
                            | (s1, Ok x1) => match ev r2 s1 with
                                             | (s2, Ok x2) => (s2, f x1 x2)
                                             | (s2, Err e) => (s2, Err e)
                                             end
                            | (s1, Err e) => (s1, Err e)
                            end
          | RRaise e => (s, Err e)
          | RTry c r1 r2 => match ev r1 s with
                            | (s1, Ok x) => (s1, Ok x)
                            | (s1, Err e) => if c e then ev r2 s1 else (s1, Err e)
                            end
          end in
        let loop := fix go (bs : list (list result * Z)) (s : evstate) (acc : list (val * Z))
                      : evstate * res (list (val * Z)) :=
          match bs with
          | [] => (s, Ok (rev acc))
          | (rs, cnt) :: bs' =>
            let token := fst s in
            let newc := {| c_lim := Some l; c_depth := c_depth cur + 1;
                           c_prec := (c_prec cur * (inject_Z cnt / inject_Z (if tot =? 0 then 1 else tot)))%Q |} in
            let n := snd s in
            (* the callback is invoked with the context set; the token is reset in `finally` *)
            let '(s', r) := if (match fault with Some i => Nat.eqb i n | None => false end)
                            then ((Some newc, Datatypes.S n), Err (UserError 7))
                            else eval_ret (cb st rs) (Some newc, Datatypes.S n) in
            let s'' := (token, snd s') in
            match r with
            | Ok x => go bs' s'' ((x, cnt) :: acc)
            | Err RecursionError => go bs' s'' ((VHist (sentinel st), cnt) :: acc)
            | Err e => (s'', Err e)
            end
          end in
        match loop bs s [] with
        | (s', Ok ws) => match aggw ws with
                         | Ok h => (s', Ok (lowest_if_top cur h))
                         | Err e => (s', Err e)
                         end
        | (s', Err e) => (s', Err e)
        end
      end
    end
  end.
End E.
Arguments VOut {T} _.
Arguments VHist {T} _.
Arguments ROut {T St} _.
Arguments RHist {T St} _.
Arguments RCall {T St} _ _.
Arguments RUn {T St} _ _.
Arguments RBin {T St} _ _ _.
Arguments RRaise {T St} _.
Arguments RTry {T St} _ _ _.
Arguments SH {T} _.
Arguments SP {T} _.
Arguments SPW {T} _ _.
