(* C18 - Deck-style draws and count bookkeeping are exact.
   This file holds only the property theorems; proofs live in Proofs/DrawP.v. *)
From Coq Require Import ZArith List.
From Dyce Require Import Base.Sums Base.Order Base.Hist Base.QcOrd Model.Draw Model.Equality Proofs.DrawP Proofs.DrawLawsP.
Import ListNotations.
Open Scope Z_scope.

(* a successful draw reduces exactly the requested counts, keeps every outcome,
   never leaves a negative count and changes the total by the net number drawn *)
Theorem C18_draw_exact : forall {T} (O : ord T) h r h', draw O h r = Ok h' ->
  (forall z, cnt O h' z = cnt O h z - cnt O r z) /\
  (forall y, In y (keys h') <-> In y (keys h) \/ In y (keys r)) /\
  wf O h' /\ total h' = total h - total r.
Proof. exact @draw_ok. Qed.
Print Assumptions C18_draw_exact.

(* it fails (ValueError) exactly when some outcome is over-drawn *)
Theorem C18_draw_rejects_iff : forall {T} (O : ord T) h r, wf O h ->
  ((exists e, draw O h r = Err e) <-> exists o, cnt O h o < cnt O r o).
Proof. exact @draw_err_iff. Qed.
Print Assumptions C18_draw_rejects_iff.

(* any sequence of draws conserves the bookkeeping until the deck is exhausted *)
Theorem C18_draw_sequences : forall {T} (O : ord T) h rs h', wf O h -> draws O h rs = Ok h' ->
  total h' = total h - lsum (fun r => total r) rs /\ wf O h' /\
  (forall z, cnt O h' z = cnt O h z - lsum (fun r => cnt O r z) rs).
Proof. exact @draws_total. Qed.
Print Assumptions C18_draw_sequences.

(* h.draw() = draw of one card of an outcome roll() can return *)
Theorem C18_draw_one_card : forall {T} (O : ord T) h o, wf O h -> 0 < cnt O h o ->
  exists h', draw O h [(o, 1)] = Ok h' /\ cnt O h' o = cnt O h o - 1 /\
             (forall z, z <> o -> cnt O h' z = cnt O h z) /\ total h' = total h - 1.
Proof. exact @draw_one. Qed.
Print Assumptions C18_draw_one_card.

Theorem C18_accumulate : forall {T} (O : ord T) h other,
  (forall z, cnt O (accumulate O h other) z = cnt O h z + cnt O other z) /\
  total (accumulate O h other) = total h + total other /\
  sasc O (keys (accumulate O h other)) /\
  (forall y, In y (keys (accumulate O h other)) <-> In y (keys h) \/ In y (keys other)).
Proof. exact @accumulate_spec. Qed.
Print Assumptions C18_accumulate.

Theorem C18_zero_fill : forall {T} (O : ord T) h outs,
  (forall z, cnt O (zero_fill O h outs) z = cnt O h z) /\ total (zero_fill O h outs) = total h /\
  (forall y, In y (keys (zero_fill O h outs)) <-> In y (keys h) \/ In y outs).
Proof. exact @zero_fill_spec. Qed.
Print Assumptions C18_zero_fill.

Theorem C18_remove : forall {T} (O : ord T) h o, sasc O (keys h) ->
  (forall z, cnt O (remove O h o) z = if eqb O z o then 0 else cnt O h z) /\
  (forall y, In y (keys (remove O h o)) <-> In y (keys h) /\ y <> o).
Proof. exact @remove_spec. Qed.
Print Assumptions C18_remove.

(* laws of successive draws (Proofs/DrawLawsP.v): a deck drawn against itself is exhausted, every
   original outcome kept at count zero *)
Theorem C18_draw_exhausts : forall {T} (O : ord T) h, wf O h ->
  exists h', draw O h h = Ok h' /\ (forall z, cnt O h' z = 0) /\ total h' = 0 /\
             (forall y, In y (keys h') <-> In y (keys h)) /\ wf O h'.
Proof. exact @draw_exhaust. Qed.
Print Assumptions C18_draw_exhausts.

(* putting back exactly what was drawn (the negated request) restores every count and the total *)
Theorem C18_draw_undo : forall {T} (O : ord T) h r h', wf O h -> draw O h r = Ok h' ->
  exists h'', draw O h' (negreq r) = Ok h'' /\ (forall z, cnt O h'' z = cnt O h z) /\ total h'' = total h.
Proof. exact @draw_undo. Qed.
Print Assumptions C18_draw_undo.

(* the order of two successive draws does not matter *)
Theorem C18_draws_commute : forall {T} (O : ord T) h r1 r2 a b, wf O h ->
  draws O h [r1; r2] = Ok a -> draws O h [r2; r1] = Ok b ->
  (forall z, cnt O a z = cnt O b z) /\ total a = total b.
Proof. exact @draws_commute. Qed.
Print Assumptions C18_draws_commute.

(* two successive draws that succeed equal one draw of the combined request *)
Theorem C18_draws_combined : forall {T} (O : ord T) h r1 r2 a, wf O h -> draws O h [r1; r2] = Ok a ->
  exists c, draw O h (r1 ++ r2) = Ok c /\ (forall z, cnt O c z = cnt O a z) /\ total c = total a.
Proof. exact @draws_combined. Qed.
Print Assumptions C18_draws_combined.

(* zero_fill never alters a distribution: its result is a well-formed histogram that is == (C05) to h *)
Theorem C18_zero_fill_same_distribution : forall {T} (O : ord T) (h : hist T) outs, wf O h ->
  wf O (zero_fill O h outs) /\ heq O (zero_fill O h outs) h = true.
Proof. exact @zero_fill_heq. Qed.
Print Assumptions C18_zero_fill_same_distribution.

(* non-vacuity: a concrete deck, a successful and a failing draw *)
Example C18_nonvacuous :
  draw VO [(qc 1 1, 2); (qc 2 1, 1)] [(qc 1 1, 1); (qc 3 1, -1)] = Ok [(qc 1 1, 1); (qc 2 1, 1); (qc 3 1, 1)] /\
  draw VO [(qc 1 1, 2); (qc 2 1, 1)] [(qc 2 1, 2)] = Err ValueError.
Proof. split; vm_compute; reflexivity. Qed.
