(* C05 - Equality, hashing, reduction and construction agree on "same distribution".
   Only property theorems here; proofs are in Proofs/EqualityP.v and Base/Hist.v. *)
From Coq Require Import ZArith List Permutation.
From Dyce Require Import Base.Sums Base.Order Base.Hist Base.QcOrd Model.Pool Model.Equality Proofs.EqualityP Proofs.InitP.
Import ListNotations.
Open Scope Z_scope.

(* == holds exactly for the same distribution: both totals zero, or both non-zero with
   proportional counts (zero-count outcomes and common multipliers are ignored) *)
Theorem C05_eq_iff_same_distribution : forall {T} (O : ord T) a b, wf O a -> wf O b ->
  (heq O a b = true <->
   (total a = 0 /\ total b = 0) \/
   (total a <> 0 /\ total b <> 0 /\ forall z, cnt O a z * total b = cnt O b z * total a)).
Proof. exact @heq_iff. Qed.
Print Assumptions C05_eq_iff_same_distribution.
Theorem C05_equal_hash_equal : forall {T} (O : ord T) a b, heq O a b = true -> hhash O a = hhash O b.
Proof. exact @heq_hash. Qed.
Print Assumptions C05_equal_hash_equal.
Theorem C05_ne_is_negation : forall {T} (O : ord T) a b, hne O a b = negb (heq O a b).
Proof. exact @hne_negb. Qed.
Print Assumptions C05_ne_is_negation.
Theorem C05_eq_symmetric : forall {T} (O : ord T) a b, heq O a b = heq O b a.
Proof. exact @heq_sym. Qed.
Print Assumptions C05_eq_symmetric.
(* == is an equivalence relation: reflexive, symmetric (above), transitive *)
Theorem C05_eq_reflexive : forall {T} (O : ord T) a, heq O a a = true.
Proof. exact @heq_refl. Qed.
Print Assumptions C05_eq_reflexive.
Theorem C05_eq_transitive : forall {T} (O : ord T) a b c, heq O a b = true -> heq O b c = true -> heq O a c = true.
Proof. exact @heq_trans. Qed.
Print Assumptions C05_eq_transitive.
(* two histograms are == exactly when their lowest terms are the identical item list *)
Theorem C05_eq_iff_same_lowest_terms : forall {T} (O : ord T) a b, heq O a b = true <-> lowest O a = lowest O b.
Proof. exact @heq_same_lowest. Qed.
Print Assumptions C05_eq_iff_same_lowest_terms.
Theorem C05_scaled_copy_equal : forall {T} (O : ord T) k h, wf O h -> 0 < k ->
  heq O (map (fun oc => (fst oc, k * snd oc)) h) h = true.
Proof. exact @heq_scale. Qed.
Print Assumptions C05_scaled_copy_equal.
Theorem C05_zero_padded_copy_equal : forall {T} (O : ord T) h o, wf O h -> heq O (mk O ((o, 0) :: h)) h = true.
Proof. exact @heq_zero_pad. Qed.
Print Assumptions C05_zero_padded_copy_equal.

(* lowest_terms: idempotent, same distribution, no zero counts, positive counts with gcd 1 *)
Theorem C05_lowest_idempotent : forall {T} (O : ord T) h, wf O h -> lowest O (lowest O h) = lowest O h.
Proof. exact @lowest_idem. Qed.
Print Assumptions C05_lowest_idempotent.
Theorem C05_lowest_same_distribution : forall {T} (O : ord T) h, wf O h -> heq O (lowest O h) h = true.
Proof. exact @heq_lowest. Qed.
Print Assumptions C05_lowest_same_distribution.
Theorem C05_lowest_counts : forall {T} (O : ord T) h, wf O h -> forall z, cnt O (lowest O h) z * counts_gcd h = cnt O h z.
Proof. exact @lowest_cnt. Qed.
Print Assumptions C05_lowest_counts.
Theorem C05_lowest_positive : forall {T} (O : ord T) h, wf O h -> forall oc, In oc (lowest O h) -> 0 < snd oc.
Proof. exact @lowest_positive. Qed.
Print Assumptions C05_lowest_positive.
Theorem C05_lowest_gcd_one : forall {T} (O : ord T) h, wf O h -> lowest O h <> [] -> counts_gcd (lowest O h) = 1.
Proof. exact @lowest_gcd_one. Qed.
Print Assumptions C05_lowest_gcd_one.

(* construction: any order and any regrouping of the same (outcome, count) data gives the identical
   histogram, ascending, repeated outcomes accumulated, total = sum of counts, negative rejected *)
Theorem C05_construction_order_irrelevant : forall {T} (O : ord T) l l', Permutation l l' -> mkH O l = mkH O l'.
Proof. exact @mkH_perm. Qed.
Print Assumptions C05_construction_order_irrelevant.
Theorem C05_construction_regroup : forall {T} (O : ord T) (l1 l2 : list (T * Z)), mk O (mk O l1 ++ l2) = mk O (l1 ++ l2).
Proof. exact @mk_regroup. Qed.
Print Assumptions C05_construction_regroup.
Theorem C05_construction_counts : forall {T} (O : ord T) l z,
  cnt O (mk O l) z = lsum (fun oc => if eqb O (fst oc) z then snd oc else 0) l.
Proof. exact @cnt_mk. Qed.
Print Assumptions C05_construction_counts.
Theorem C05_construction_wf_total : forall {T} (O : ord T) l h, mkH O l = Ok h -> total h = lsum (@snd T Z) l /\ wf O h.
Proof. exact @mkH_total. Qed.
Print Assumptions C05_construction_wf_total.
Theorem C05_negative_count_rejected : forall {T} (O : ord T) l,
  (exists e, mkH O l = Err e) <-> exists oc, In oc l /\ snd oc < 0.
Proof. exact @mkH_err. Qed.
Print Assumptions C05_negative_count_rejected.

(* the constructor's actual algorithm - sort the (outcome, count) items as tuples, then accumulate into a
   dict that appends an outcome the first time it is seen - builds exactly the sorted-insert histogram
   the other theorems speak about *)
Theorem C05_constructor_algorithm : forall {T} (O : ord T) (l : list (T * Z)), init_items O l = mk O l.
Proof. exact @init_items_is_mk. Qed.
Print Assumptions C05_constructor_algorithm.

Example C05_nonvacuous :
  heq VO [(qc 1 1, 2); (qc 2 1, 4); (qc 3 1, 0)] [(qc 1 1, 1); (qc 2 1, 2)] = true /\
  heq VO [(qc 1 1, 2); (qc 2 1, 4)] [(qc 1 1, 1); (qc 2 1, 3)] = false /\
  lowest VO [(qc 1 1, 6); (qc 2 1, 0); (qc 5 2, 9)] = [(qc 1 1, 2); (qc 5 2, 3)] /\
  mkH VO [(qc 2 1, 1); (qc 1 1, 1); (qc 2 1, 3)] = Ok [(qc 1 1, 1); (qc 2 1, 4)].
Proof. repeat split; vm_compute; reflexivity. Qed.
