(* C16 - Distribution and summary statistics are consistent with the counts.
   Only property theorems here; proofs are in Proofs/StatsP.v.  Rational identities only:
   floating-point rounding and sqrt are outside the model (see DESIGN.md). *)
From Coq Require Import ZArith QArith Qcanon List.
From Dyce Require Import Base.Sums Base.Order Base.Hist Base.QcOrd Model.Stats Model.Arith Proofs.StatsP.
Import ListNotations.
Open Scope Z_scope.

Theorem C16_distribution_every_outcome_once_in_order : forall h, map fst (distribution h) = keys h.
Proof. exact distribution_keys. Qed.
Print Assumptions C16_distribution_every_outcome_once_in_order.
Theorem C16_distribution_count_total : forall h o c, In (o, c) h -> In (o, (c, tot1 h)) (distribution h).
Proof. exact distribution_entry. Qed.
Print Assumptions C16_distribution_count_total.
Theorem C16_probabilities_sum_to_one : forall h, 0 < total h -> qsum (prob h) h = Q2Qc 1.
Proof. exact prob_sum_one. Qed.
Print Assumptions C16_probabilities_sum_to_one.
(* variance() = E[X^2] - E[X]^2 equals the definition E[(X - mu)^2] *)
Theorem C16_variance_is_variance : forall h, 0 < total h -> variance h = variance_spec h.
Proof. exact variance_is_spec. Qed.
Print Assumptions C16_variance_is_variance.
Theorem C16_mean_scale_invariant : forall k h, 0 < k -> nonneg h -> mean (scaleh k h) = mean h.
Proof. exact mean_scale. Qed.
Print Assumptions C16_mean_scale_invariant.
Theorem C16_variance_scale_invariant : forall k h, 0 < k -> nonneg h -> variance (scaleh k h) = variance h.
Proof. exact variance_scale. Qed.
Print Assumptions C16_variance_scale_invariant.
Theorem C16_mean_zero_pad_invariant : forall h o, mean ((o, 0) :: h) = mean h.
Proof. exact mean_zero_pad. Qed.
Print Assumptions C16_mean_zero_pad_invariant.
Theorem C16_variance_zero_pad_invariant : forall h o, variance ((o, 0) :: h) = variance h.
Proof. exact variance_zero_pad. Qed.
Print Assumptions C16_variance_zero_pad_invariant.
Theorem C16_mean_count_function_only : forall a b, sasc VO (keys a) -> sasc VO (keys b) ->
  (forall z, cnt VO a z = cnt VO b z) -> mean a = mean b.
Proof. exact mean_cnt_ext. Qed.
Print Assumptions C16_mean_count_function_only.
Theorem C16_variance_count_function_only : forall a b, sasc VO (keys a) -> sasc VO (keys b) ->
  (forall z, cnt VO a z = cnt VO b z) -> variance a = variance b.
Proof. exact variance_cnt_ext. Qed.
Print Assumptions C16_variance_count_function_only.
(* independent a and b: mean and variance of a + b are the sums *)
Theorem C16_mean_additive : forall a b, 0 < total a -> 0 < total b ->
  mean (hmapT VO Qcplus a b) = (mean a + mean b)%Qc.
Proof. exact mean_add. Qed.
Print Assumptions C16_mean_additive.
Theorem C16_variance_additive : forall a b, 0 < total a -> 0 < total b ->
  variance (hmapT VO Qcplus a b) = (variance a + variance b)%Qc.
Proof. exact variance_add. Qed.
Print Assumptions C16_variance_additive.

Example C16_nonvacuous :
  Veqb (mean [(qc 1 1, 1); (qc 2 1, 1); (qc 6 1, 2)]) (qc 15 4) = true /\
  Veqb (variance [(qc 1 1, 1); (qc 2 1, 1); (qc 6 1, 2)]) (qc 83 16) = true /\
  distribution [(qc 1 1, 1); (qc 2 1, 3)] = [(qc 1 1, (1, 4)); (qc 2 1, (3, 4))].
Proof. repeat split; vm_compute; reflexivity. Qed.
