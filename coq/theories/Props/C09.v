(* C09 - Closed-form counting shortcuts agree with enumeration.
   Only property theorems here; proofs are in Proofs/OrderStatP.v. *)
From Coq Require Import ZArith List.
From Dyce Require Import Base.Sums Base.Order Base.ZOrd Base.Hist Base.Brute Base.QcOrd Model.Select Model.Pool
  Model.OrderStat Proofs.OrderStatP.
Import ListNotations.

(* h.order_stat_for_n_at_pos(n, pos): exact count of z at position pos of the ascending roll of n
   copies of h - the same brute-force sum that C03_order_statistic gives for (n@P(h)).h(pos) *)
Theorem C09_order_stat_exact : forall {T} (O : ord T) (h : hist T) n pos z,
  sasc O (keys h) -> (1 <= n)%Z -> (- n <= pos < n)%Z ->
  exists r, order_stat O h n pos = Ok r /\
    cnt O r z = bsum O h (Z.to_nat n)
                  (fun l => match nth_error l (Z.to_nat (if (pos <? 0)%Z then n + pos else pos)) with
                            | Some x => if eqb O x z then 1 else 0
                            | None => 0 end)%Z.
Proof. exact @order_stat_correct. Qed.
Print Assumptions C09_order_stat_exact.

(* summed over all positions: n * h[z] * total^(n-1) *)
Theorem C09_order_stat_sum : forall {T} (O : ord T) (h : hist T) n z, sasc O (keys h) -> (1 <= n)%nat ->
  zsum (fun pos => cnt O (os_at O (betas O h n) (Z.of_nat pos)) z) n
  = (Z.of_nat n * cnt O h z * zpow (total h) (n - 1))%Z.
Proof. exact @order_stat_sum. Qed.
Print Assumptions C09_order_stat_sum.

(* exactly_k_times_in_n = brute force = count of k in n @ (h.eq(o)) *)
Theorem C09_exactly_k_is_brute_force : forall {T} (O : ord T) (h : hist T) o n k,
  exactly_k O h o n k = bsum O h n (fun l => if Nat.eqb (length (filter (eqb O o) l)) k then 1 else 0)%Z.
Proof. exact @exactly_is_brute_gen. Qed.
Print Assumptions C09_exactly_k_is_brute_force.
Theorem C09_exactly_k_is_eq_histogram : forall {T} (O : ord T) (h : hist T) o n k,
  sasc O (keys h) -> (1 <= n)%nat -> (k <= n)%nat ->
  exactly_k O h o n k = cnt ZO (beta h n (eqb O o)) (Z.of_nat k).
Proof. exact @exactly_is_beta. Qed.
Print Assumptions C09_exactly_k_is_eq_histogram.

(* appearances_in_rolls = histogram over all rolls of how many dice show o *)
Theorem C09_appearances_exact : forall {T} (O : ord T) (p : list (hist T)) o k,
  Forall (fun h => sasc O (keys h)) p -> p <> [] ->
  cnt ZO (appearances O p o) k =
  pbsum O p (fun l => if (Z.of_nat (length (filter (eqb O o) l)) =? k)%Z then 1 else 0)%Z.
Proof. exact @appearances_correct. Qed.
Print Assumptions C09_appearances_exact.

(* the per-instance cache: any history of (n, pos) calls on one object answers as first calls do *)
Theorem C09_cache_transparent : forall {T} (O : ord T) (h : hist T) qs,
  os_run O [] h qs = map (fun q => order_stat O h (fst q) (snd q)) qs.
Proof. exact @os_cache_transparent. Qed.
Print Assumptions C09_cache_transparent.

Example C09_nonvacuous :
  exists r, order_stat VO [(qc 1 1, 1%Z); (qc 2 1, 2%Z); (qc 3 1, 0%Z)] 3 (-1) = Ok r /\
            cnt VO r (qc 2 1) = 26%Z /\ cnt VO r (qc 1 1) = 1%Z.
Proof. eexists. split; [vm_compute; reflexivity|]. split; vm_compute; reflexivity. Qed.
