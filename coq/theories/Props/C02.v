(* C02 - Pool roll enumeration equals brute-force enumeration for every selection.
   Only property theorems here; proofs are in Proofs/{SeldP,MergeP,SelectP,RwcP}.v. *)
From Coq Require Import ZArith List Bool.
From Dyce Require Import Base.Sums Base.Order Base.Hist Base.Brute Base.QcOrd Model.Select Model.Pool
  Proofs.SeldP Proofs.MergeP Proofs.SelectP Proofs.RwcP.
Import ListNotations.

(* Reading guide.  [pbsum O p F] is the weighted sum of F over the ascending-sorted rolls of the
   Cartesian product of the dice of p (Base/Brute.v); [wsum rolls F] is the sum of count * F roll
   over the yielded pairs.  "forall F, wsum rolls F = pbsum ..." says the aggregated (roll, count)
   multisets coincide (take F an indicator).  [getitems l idx] picks the resolved positions in
   the order given; [resolve] is Python's index/slice resolution; [okpool] asks every die to be
   a well-formed non-empty histogram (ascending outcomes, counts >= 0). *)

(* no selection argument: every sorted roll with its exact count, whatever strategy is chosen *)
Theorem C02_all_rolls : forall {T} (O : ord T) pad p, okpool O p -> p <> [] ->
  exists rolls, rwc O pad p None = Ok rolls /\ forall F, wsum rolls F = pbsum O p F.
Proof. exact @rwc_none_correct. Qed.
Print Assumptions C02_all_rolls.

(* any selection (indexes, negative indexes, slices with any step, repeats, any order) *)
Theorem C02_selected_rolls : forall {T} (O : ord T) pad p w idx, okpool O p -> p <> [] ->
  resolve (length p) w = Ok idx ->
  exists rolls, rwc O pad p (Some w) = Ok rolls /\
    (idx = [] -> rolls = []) /\
    (idx <> [] -> forall F, wsum rolls F = pbsum O p (fun l => F (getitems l idx))).
Proof. exact @rwc_some_correct. Qed.
Print Assumptions C02_selected_rolls.

(* counts sum to the pool's total for every non-empty selection *)
Theorem C02_counts_sum_to_total : forall {T} (O : ord T) pad p w idx rolls, okpool O p -> p <> [] ->
  resolve (length p) w = Ok idx -> idx <> [] ->
  rwc O pad p (Some w) = Ok rolls -> lsum snd rolls = ptotal p.
Proof. exact @rwc_counts_sum. Qed.
Print Assumptions C02_counts_sum_to_total.
Theorem C02_counts_sum_to_total_noarg : forall {T} (O : ord T) pad p rolls, okpool O p -> p <> [] ->
  rwc O pad p None = Ok rolls -> lsum snd rolls = ptotal p.
Proof. exact @rwc_none_counts_sum. Qed.
Print Assumptions C02_counts_sum_to_total_noarg.

(* an out-of-range index raises IndexError (a zero step ValueError), unchanged *)
Theorem C02_selection_errors : forall {T} (O : ord T) pad p w e,
  resolve (length p) w = Err e -> rwc O pad p (Some w) = Err e.
Proof. exact @rwc_error. Qed.
Print Assumptions C02_selection_errors.
Theorem C02_index_error_iff_out_of_range : forall n w, resolve n w = Err IndexError ->
  exists i, In (Idx i) w /\ (i < - Z.of_nat n \/ Z.of_nat n <= i)%Z.
Proof. exact resolve_index_error. Qed.
Print Assumptions C02_index_error_iff_out_of_range.
Theorem C02_empty_pool : forall {T} (O : ord T) pad which rolls, rwc O pad [] which = Ok rolls -> rolls = [].
Proof. exact @rwc_empty_pool. Qed.
Print Assumptions C02_empty_pool.

(* the building blocks, each equal to brute force on its own: partial selection from either end *)
Theorem C02_partial_selection_low : forall {T} (O : ord T) (h : hist T), sasc O (keys h) -> nonneg h -> h <> [] ->
  forall n k F, (1 <= k <= n)%nat ->
  wsum (map (conv (zpow (total h) n)) (seld false h n k)) F = bsum O h n (fun l => F (firstn k l)).
Proof. exact @seld_left_correct. Qed.
Print Assumptions C02_partial_selection_low.
Theorem C02_partial_selection_high : forall {T} (O : ord T) (h : hist T), sasc O (keys h) -> nonneg h -> h <> [] ->
  forall n k F, (1 <= k <= n)%nat ->
  wsum (map (conv (zpow (total h) n)) (seld true (rev h) n k)) F = bsum O h n (fun l => F (skipn (n - k) l)).
Proof. exact @seld_right_correct. Qed.
Print Assumptions C02_partial_selection_high.

(* non-vacuity: a heterogeneous pool with a zero-count face and a proportional twin, middle selection *)
Example C02_nonvacuous :
  let p := mkP VO [[(qc 1 1, 1%Z); (qc 2 1, 0%Z); (qc 3 1, 2%Z)]; [(qc 1 1, 2%Z); (qc 3 1, 4%Z)]; [(qc 0 1, 1%Z); (qc 5 2, 1%Z)]] in
  okpool VO p /\ p <> [] /\ resolve (length p) [Idx 1; Slice (Some (-1)%Z) None None] = Ok [1%nat; 2%nat].
Proof.
  split; [|split; [discriminate|reflexivity]].
  assert (H : forallb (fun h => andb (wfb VO h) (negb (match h with [] => true | _ => false end)))
    (mkP VO [[(qc 1 1, 1%Z); (qc 2 1, 0%Z); (qc 3 1, 2%Z)]; [(qc 1 1, 2%Z); (qc 3 1, 4%Z)]; [(qc 0 1, 1%Z); (qc 5 2, 1%Z)]]) = true)
    by (vm_compute; reflexivity).
  rewrite forallb_forall in H. apply Forall_forall. intros h Hin. specialize (H h Hin).
  apply andb_prop in H. destruct H as [Hw Hne]. apply wfb_sound in Hw. destruct Hw as [Hs Hn].
  split; [exact Hs|split; [exact Hn|]]. destruct h; [discriminate|discriminate].
Qed.
