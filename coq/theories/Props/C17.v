(* C17 - The NumPy-backed generator is a faithful, reproducible random.Random.
   Only property theorems here; proofs are in Proofs/RngP.v.  The NumPy Generator is an abstract
   deterministic state machine (section variables g_seed, g_bytes, g_random); only the wrapper
   (getrandbits via randbytes with excess-bit trimming; seed / getstate / setstate including the cached
   gauss value) is modelled and proved - see the level note. *)
From Coq Require Import ZArith List Bool.
From Dyce Require Import Base.Hist Model.Rng Proofs.RngP.
Import ListNotations.
Open Scope Z_scope.

Theorem C17_getrandbits_range : forall k bs, 0 <= k -> Z.of_nat (length bs) = numbytes k ->
  Forall (fun b => 0 <= b < 256) bs -> 0 <= bits_of k bs < 2 ^ k.
Proof. exact bits_of_range. Qed.
Print Assumptions C17_getrandbits_range.
Theorem C17_getrandbits_in_range_for_any_generator : forall G U (g_bytes : G -> nat -> G * list Z) s k s' z, 0 <= k ->
  (forall g n, length (snd (g_bytes g n)) = n /\ Forall (fun b => 0 <= b < 256) (snd (g_bytes g n))) ->
  r_getrandbits G U g_bytes s k = (s', Ok z) -> 0 <= z < 2 ^ k.
Proof. exact getrandbits_range. Qed.
Print Assumptions C17_getrandbits_in_range_for_any_generator.
Theorem C17_getrandbits_negative_rejected : forall G U (g_bytes : G -> nat -> G * list Z) s k, k < 0 ->
  r_getrandbits G U g_bytes s k = (s, Err ValueError).
Proof. exact getrandbits_negative. Qed.
Print Assumptions C17_getrandbits_negative_rejected.
Theorem C17_randbytes_length : forall G U (g_bytes : G -> nat -> G * list Z) s n,
  (forall g m, length (snd (g_bytes g m)) = m) -> length (snd (r_randbytes G U g_bytes s n)) = n.
Proof. exact randbytes_length. Qed.
Print Assumptions C17_randbytes_length.

(* setstate(getstate()) taken at any point replays exactly the continuation that followed, for every
   program over random / gauss / getrandbits / randbytes (the repaired state includes gauss_next) *)
Theorem C17_snapshot_replays : forall G U g_bytes g_random gauss_pair s ops1 ops2 other,
  let snap := r_getstate G U (r_exec G U g_bytes g_random gauss_pair s ops1) in
  r_run G U g_bytes g_random gauss_pair (r_setstate G U other snap) ops2
  = r_run G U g_bytes g_random gauss_pair (r_exec G U g_bytes g_random gauss_pair s ops1) ops2.
Proof. exact snapshot_replays. Qed.
Print Assumptions C17_snapshot_replays.
(* re-seeding restarts the stream of a freshly seeded generator *)
Theorem C17_reseed_is_fresh : forall G U (g_seed : Z -> G) g_bytes g_random gauss_pair a s ops,
  r_run G U g_bytes g_random gauss_pair (r_reseed G U g_seed s a) ops
  = r_run G U g_bytes g_random gauss_pair (r_seed G U g_seed a) ops.
Proof. exact reseed_is_fresh. Qed.
Print Assumptions C17_reseed_is_fresh.
(* REFUTED for the pinned code, which ignored gauss_next in getstate/setstate (defect F7, repaired) *)
Theorem C17_old_state_capture_refuted :
  let g_random := fun n : nat => (S n, n) in
  let gauss_pair := fun u v : nat => (u + 10 * v, u + 100 * v)%nat in
  exists s0,
    let s1 := fst (r_gauss nat nat g_random gauss_pair s0) in
    let saved := r_getstate_old nat nat s1 in
    let '(s2, a) := r_gauss nat nat g_random gauss_pair s1 in
    let s3 := r_setstate_old nat nat s2 saved in
    snd (r_gauss nat nat g_random gauss_pair s3) <> a.
Proof. exact old_state_capture_refuted. Qed.
Print Assumptions C17_old_state_capture_refuted.

Example C17_nonvacuous : bits_of 9 [255; 255] = 511 /\ bits_of 0 [] = 0 /\ bits_of 8 [171] = 171 /\ numbytes 9 = 2.
Proof. repeat split; reflexivity. Qed.
