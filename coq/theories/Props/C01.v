(* C01 - Histogram arithmetic is the exact convolution of independent outcomes.
   Only property theorems here; proofs are in Proofs/ArithP.v. *)
From Coq Require Import ZArith List.
From Dyce Require Import Base.Sums Base.Order Base.Hist Base.QcOrd Model.Arith Proofs.ArithP.
Import ListNotations.
Open Scope Z_scope.

(* the count of z in `a op b` is the sum of a[x]*b[y] over all pairs with x op y = z *)
Theorem C01_convolution : forall {T} (O : ord T) (op : T -> T -> T) (a b : hist T) z,
  cnt O (hmapT O op a b) z =
  lsum (fun x => lsum (fun y => if eqb O (op (fst x) (fst y)) z then snd x * snd y else 0) b) a.
Proof. exact @hmapT_cnt. Qed.
Print Assumptions C01_convolution.

Theorem C01_total_is_product : forall {T} (O : ord T) op (a b : hist T),
  total (hmapT O op a b) = total a * total b.
Proof. exact @hmapT_total. Qed.
Print Assumptions C01_total_is_product.

(* scalar operand on either side / unary operator: relabelling, colliding outcomes add, total preserved *)
Theorem C01_relabel : forall {T} (O : ord T) (f : T -> T) (a : hist T) z,
  cnt O (humapT O f a) z = lsum (fun x => if eqb O (f (fst x)) z then snd x else 0) a.
Proof. exact @humapT_cnt. Qed.
Print Assumptions C01_relabel.
Theorem C01_relabel_total : forall {T} (O : ord T) f (a : hist T), total (humapT O f a) = total a.
Proof. exact @humapT_total. Qed.
Print Assumptions C01_relabel_total.

(* the code paths with operators that may raise: same histogram when nothing raises, and an
   exception exactly when some pair of the support product (zero-count faces included) raises *)
Theorem C01_map_agrees : forall {T} (O : ord T) (op : T -> T -> res T) (opT : T -> T -> T) a b,
  nonneg a -> nonneg b ->
  (forall x y, In x (keys a) -> In y (keys b) -> op x y = Ok (opT x y)) ->
  hmap O op a b = Ok (hmapT O opT a b).
Proof. exact @hmap_total_op. Qed.
Print Assumptions C01_map_agrees.
Theorem C01_map_raises_iff : forall {T} (O : ord T) (op : T -> T -> res T) a b, nonneg a -> nonneg b ->
  ((exists e, hmap O op a b = Err e) <-> exists x y e, In x (keys a) /\ In y (keys b) /\ op x y = Err e).
Proof. exact @hmap_raises_iff. Qed.
Print Assumptions C01_map_raises_iff.
Theorem C01_umap_agrees : forall {T} (O : ord T) (f : T -> res T) (fT : T -> T) a, nonneg a ->
  (forall x, In x (keys a) -> f x = Ok (fT x)) -> humap O f a = Ok (humapT O fT a).
Proof. exact @humap_total_op. Qed.
Print Assumptions C01_umap_agrees.
Theorem C01_umap_raises_iff : forall {T} (O : ord T) (f : T -> res T) a, nonneg a ->
  ((exists e, humap O f a = Err e) <-> exists x e, In x (keys a) /\ f x = Err e).
Proof. exact @humap_raises_iff. Qed.
Print Assumptions C01_umap_raises_iff.

(* zero-count faces and common multipliers change nothing beyond the formula; the result only
   depends on the operands as count functions *)
Theorem C01_scale_l : forall {T} (O : ord T) op k a b z,
  cnt O (hmapT O op (scale k a) b) z = k * cnt O (hmapT O op a b) z.
Proof. exact @hmapT_scale_l. Qed.
Print Assumptions C01_scale_l.
Theorem C01_scale_r : forall {T} (O : ord T) op k a b z,
  cnt O (hmapT O op a (scale k b)) z = k * cnt O (hmapT O op a b) z.
Proof. exact @hmapT_scale_r. Qed.
Print Assumptions C01_scale_r.
Theorem C01_zero_face_l : forall {T} (O : ord T) op a b o z,
  cnt O (hmapT O op ((o, 0) :: a) b) z = cnt O (hmapT O op a b) z.
Proof. exact @hmapT_zero_face_l. Qed.
Print Assumptions C01_zero_face_l.
Theorem C01_zero_face_r : forall {T} (O : ord T) op a b o z,
  cnt O (hmapT O op a ((o, 0) :: b)) z = cnt O (hmapT O op a b) z.
Proof. exact @hmapT_zero_face_r. Qed.
Print Assumptions C01_zero_face_r.
Theorem C01_count_function_only : forall {T} (O : ord T) op a a' b b' z,
  sasc O (keys a) -> sasc O (keys a') -> sasc O (keys b) -> sasc O (keys b') ->
  (forall x, cnt O a x = cnt O a' x) -> (forall y, cnt O b y = cnt O b' y) ->
  cnt O (hmapT O op a b) z = cnt O (hmapT O op a' b') z.
Proof. exact @hmapT_cnt_ext. Qed.
Print Assumptions C01_count_function_only.

(* non-vacuity: 2d2 by convolution, a colliding relabelling, a raising pair with a zero count *)
Example C01_nonvacuous :
  h_binop Add (OpH [(qc 1 1, 1); (qc 2 1, 1)]) (OpH [(qc 1 1, 1); (qc 2 1, 1)])
    = Ok [(qc 2 1, 1); (qc 3 1, 2); (qc 4 1, 1)] /\
  h_binop FloorDiv (OpH [(qc 1 1, 1); (qc 2 1, 1); (qc 3 1, 5)]) (OpS (qc 2 1))
    = Ok [(qc 0 1, 1); (qc 1 1, 6)] /\
  h_binop TrueDiv (OpH [(qc 1 1, 1)]) (OpH [(qc 0 1, 0); (qc 1 2, 1)]) = Err ZeroDivisionError.
Proof. repeat split; vm_compute; reflexivity. Qed.
