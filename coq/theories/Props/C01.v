(* C01 - Histogram arithmetic is the exact convolution of independent outcomes.
   Only property theorems here; proofs are in Proofs/ArithP.v. *)
From Coq Require Import ZArith List.
From Dyce Require Import Base.Sums Base.Order Base.Hist Base.QcOrd Model.Arith Proofs.ArithP Proofs.ArithLawsP.
Import ListNotations.
Open Scope Z_scope.

(* the count of z in `a op b` is the sum of a[x]*b[y] over all pairs with x op y = z *)
Theorem C01_convolution : forall {T} (O : ord T) (op : T -> T -> T) (a b : hist T) z,
  cnt O (hmapT O op a b) z =
  lsum (fun x => lsum (fun y => if eqb O (op (fst x) (fst y)) z then snd x * snd y else 0) b) a.
Proof. exact @hmapT_cnt. Qed.
Print Assumptions C01_convolution.

Theorem C01_total_is_product : forall {T} (O : ord T) op (a b : hist T),
  total (hmapT O op a b) = total a * total b.
Proof. exact @hmapT_total. Qed.
Print Assumptions C01_total_is_product.

(* scalar operand on either side / unary operator: relabelling, colliding outcomes add, total preserved *)
Theorem C01_relabel : forall {T} (O : ord T) (f : T -> T) (a : hist T) z,
  cnt O (humapT O f a) z = lsum (fun x => if eqb O (f (fst x)) z then snd x else 0) a.
Proof. exact @humapT_cnt. Qed.
Print Assumptions C01_relabel.
Theorem C01_relabel_total : forall {T} (O : ord T) f (a : hist T), total (humapT O f a) = total a.
Proof. exact @humapT_total. Qed.
Print Assumptions C01_relabel_total.

(* the code paths with operators that may raise: same histogram when nothing raises, and an
   exception exactly when some pair of the support product (zero-count faces included) raises *)
Theorem C01_map_agrees : forall {T} (O : ord T) (op : T -> T -> res T) (opT : T -> T -> T) a b,
  nonneg a -> nonneg b ->
  (forall x y, In x (keys a) -> In y (keys b) -> op x y = Ok (opT x y)) ->
  hmap O op a b = Ok (hmapT O opT a b).
Proof. exact @hmap_total_op. Qed.
Print Assumptions C01_map_agrees.
Theorem C01_map_raises_iff : forall {T} (O : ord T) (op : T -> T -> res T) a b, nonneg a -> nonneg b ->
  ((exists e, hmap O op a b = Err e) <-> exists x y e, In x (keys a) /\ In y (keys b) /\ op x y = Err e).
Proof. exact @hmap_raises_iff. Qed.
Print Assumptions C01_map_raises_iff.
Theorem C01_umap_agrees : forall {T} (O : ord T) (f : T -> res T) (fT : T -> T) a, nonneg a ->
  (forall x, In x (keys a) -> f x = Ok (fT x)) -> humap O f a = Ok (humapT O fT a).
Proof. exact @humap_total_op. Qed.
Print Assumptions C01_umap_agrees.
Theorem C01_umap_raises_iff : forall {T} (O : ord T) (f : T -> res T) a, nonneg a ->
  ((exists e, humap O f a = Err e) <-> exists x e, In x (keys a) /\ f x = Err e).
Proof. exact @humap_raises_iff. Qed.
Print Assumptions C01_umap_raises_iff.

(* zero-count faces and common multipliers change nothing beyond the formula; the result only
   depends on the operands as count functions *)
Theorem C01_scale_l : forall {T} (O : ord T) op k a b z,
  cnt O (hmapT O op (scale k a) b) z = k * cnt O (hmapT O op a b) z.
Proof. exact @hmapT_scale_l. Qed.
Print Assumptions C01_scale_l.
Theorem C01_scale_r : forall {T} (O : ord T) op k a b z,
  cnt O (hmapT O op a (scale k b)) z = k * cnt O (hmapT O op a b) z.
Proof. exact @hmapT_scale_r. Qed.
Print Assumptions C01_scale_r.
Theorem C01_zero_face_l : forall {T} (O : ord T) op a b o z,
  cnt O (hmapT O op ((o, 0) :: a) b) z = cnt O (hmapT O op a b) z.
Proof. exact @hmapT_zero_face_l. Qed.
Print Assumptions C01_zero_face_l.
Theorem C01_zero_face_r : forall {T} (O : ord T) op a b o z,
  cnt O (hmapT O op a ((o, 0) :: b)) z = cnt O (hmapT O op a b) z.
Proof. exact @hmapT_zero_face_r. Qed.
Print Assumptions C01_zero_face_r.
Theorem C01_count_function_only : forall {T} (O : ord T) op a a' b b' z,
  sasc O (keys a) -> sasc O (keys a') -> sasc O (keys b) -> sasc O (keys b') ->
  (forall x, cnt O a x = cnt O a' x) -> (forall y, cnt O b y = cnt O b' y) ->
  cnt O (hmapT O op a b) z = cnt O (hmapT O op a' b') z.
Proof. exact @hmapT_cnt_ext. Qed.
Print Assumptions C01_count_function_only.

(* "with a scalar operand (on either side) ... every outcome is relabelled": a scalar operand is the
   one-point histogram, and the convolution with it IS the relabelling (identical lists) *)
Theorem C01_scalar_right_is_relabelling : forall {T} (O : ord T) (op : T -> T -> T) (a : hist T) s,
  hmapT O op a [(s, 1)] = humapT O (fun x => op x s) a.
Proof. exact @hmapT_scalar_r. Qed.
Print Assumptions C01_scalar_right_is_relabelling.
Theorem C01_scalar_left_is_relabelling : forall {T} (O : ord T) (op : T -> T -> T) (b : hist T) s,
  hmapT O op [(s, 1)] b = humapT O (fun y => op s y) b.
Proof. exact @hmapT_scalar_l. Qed.
Print Assumptions C01_scalar_left_is_relabelling.
(* the algebra users rely on: commutative / associative operators give commutative / associative
   histogram operators (identical results, not only equal distributions); relabellings compose;
   relabelling a result is the operation with the relabelled operator; operands are mixtures *)
Theorem C01_commutative : forall {T} (O : ord T) (op : T -> T -> T) (a b : hist T),
  (forall x y, op x y = op y x) -> hmapT O op a b = hmapT O op b a.
Proof. exact @hmapT_comm. Qed.
Print Assumptions C01_commutative.
Theorem C01_associative : forall {T} (O : ord T) (op : T -> T -> T) (a b c : hist T),
  (forall x y u, op (op x y) u = op x (op y u)) ->
  hmapT O op (hmapT O op a b) c = hmapT O op a (hmapT O op b c).
Proof. exact @hmapT_assoc. Qed.
Print Assumptions C01_associative.
Theorem C01_relabellings_compose : forall {T} (O : ord T) (f g : T -> T) (a : hist T),
  humapT O f (humapT O g a) = humapT O (fun x => f (g x)) a.
Proof. exact @humapT_compose. Qed.
Print Assumptions C01_relabellings_compose.
Theorem C01_relabel_result : forall {T} (O : ord T) (f : T -> T) (op : T -> T -> T) (a b : hist T),
  humapT O f (hmapT O op a b) = hmapT O (fun x y => f (op x y)) a b.
Proof. exact @humapT_hmapT. Qed.
Print Assumptions C01_relabel_result.
Theorem C01_unit_operand : forall {T} (O : ord T) (op : T -> T -> T) (a : hist T) e,
  (forall x, op x e = x) -> sasc O (keys a) -> hmapT O op a [(e, 1)] = a.
Proof. exact @hmapT_unit_r. Qed.
Print Assumptions C01_unit_operand.
Theorem C01_linear_in_left_operand : forall {T} (O : ord T) (op : T -> T -> T) (a a' b : hist T) z,
  cnt O (hmapT O op (a ++ a') b) z = cnt O (hmapT O op a b) z + cnt O (hmapT O op a' b) z.
Proof. exact @hmapT_app_l_cnt. Qed.
Print Assumptions C01_linear_in_left_operand.
(* the count function of the result depends on the operands' count functions only - no sortedness
   or reducedness of the operands needed *)
Theorem C01_count_function_only_general : forall {T} (O : ord T) (op : T -> T -> T) a a' b b' z,
  (forall x, cnt O a x = cnt O a' x) -> (forall y, cnt O b y = cnt O b' y) ->
  cnt O (hmapT O op a b) z = cnt O (hmapT O op a' b') z.
Proof. exact @hmapT_cnt_ext_gen. Qed.
Print Assumptions C01_count_function_only_general.

(* non-vacuity: 2d2 by convolution, a colliding relabelling, a raising pair with a zero count *)
Example C01_nonvacuous :
  h_binop Add (OpH [(qc 1 1, 1); (qc 2 1, 1)]) (OpH [(qc 1 1, 1); (qc 2 1, 1)])
    = Ok [(qc 2 1, 1); (qc 3 1, 2); (qc 4 1, 1)] /\
  h_binop FloorDiv (OpH [(qc 1 1, 1); (qc 2 1, 1); (qc 3 1, 5)]) (OpS (qc 2 1))
    = Ok [(qc 0 1, 1); (qc 1 1, 6)] /\
  h_binop TrueDiv (OpH [(qc 1 1, 1)]) (OpH [(qc 0 1, 0); (qc 1 2, 1)]) = Err ZeroDivisionError.
Proof. repeat split; vm_compute; reflexivity. Qed.
