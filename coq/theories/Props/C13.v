(* C13 - Results never depend on what was computed earlier (cache transparency).
   Only property theorems here; proofs are in Proofs/MemoP.v and Proofs/OrderStatP.v. *)
From Coq Require Import ZArith QArith List Bool.
From Dyce Require Import Base.Sums Base.Order Base.Hist Base.QcOrd Model.Select Model.Pool Model.Equality
  Model.OrderStat Model.Memo Proofs.MemoP Proofs.OrderStatP.
Import ListNotations.

(* Reading guide.  [memo_run K f keqb [] xs] are the answers of a history xs of calls to a function f
   memoised in one table keyed by K (functools.cache keys by equality and hash of the arguments; the
   per-instance lazy caches are memos keyed by the object itself). *)

(* a memo is transparent for EVERY history exactly when its key determines the answer *)
Theorem C13_memo_transparent : forall {Inp Key Ans} (K : Inp -> Key) (f : Inp -> Ans) (keqb : Key -> Key -> bool),
  (forall a b, keqb a b = true <-> a = b) ->
  (forall x y, K x = K y -> f x = f y) ->
  forall xs, memo_run K f keqb [] xs = map f xs.
Proof. exact @memo_transparent. Qed.
Print Assumptions C13_memo_transparent.
Theorem C13_conflating_key_breaks_some_history : forall {Inp Key Ans} (K : Inp -> Key) (f : Inp -> Ans) (keqb : Key -> Key -> bool),
  (forall a b, keqb a b = true <-> a = b) ->
  forall x y, K x = K y -> f x <> f y -> memo_run K f keqb [] [x; y] <> map f [x; y].
Proof. exact @memo_not_transparent. Qed.
Print Assumptions C13_conflating_key_breaks_some_history.

(* the process-wide memo of partial selections after the repair: keyed by the exact typed items *)
Theorem C13_selection_memo_key_is_exact : forall a b, K_exact a = K_exact b -> sel_fun a = sel_fun b.
Proof. exact K_exact_respects. Qed.
Print Assumptions C13_selection_memo_key_is_exact.

(* REFUTED for the key the pinned code used (H.__eq__/__hash__ = same distribution): a query on
   H({1: 1, 2: 1}) followed by the same query on H({1.0: 1, 2.0: 1}) answers with int outcomes *)
Theorem C13_distribution_key_refuted :
  exists x y, memo_run K_dist sel_fun K_dist_eqb [] [x; y] <> map sel_fun [x; y].
Proof.
  exists ([((TInt, qc 1 1), 1%Z); ((TInt, qc 2 1), 1%Z)], 2%nat, 1%nat, false),
         ([((TFloat, qc 1 1), 1%Z); ((TFloat, qc 2 1), 1%Z)], 2%nat, 1%nat, false).
  vm_compute. intros E. discriminate E.
Qed.
Print Assumptions C13_distribution_key_refuted.
(* and zero-count padding leaks as well *)
Theorem C13_distribution_key_refuted_zero_padding :
  exists x y, memo_run K_dist sel_fun K_dist_eqb [] [x; y] <> map sel_fun [x; y].
Proof.
  exists ([((TInt, qc 1 1), 0%Z); ((TInt, qc 2 1), 2%Z); ((TInt, qc 3 1), 2%Z)], 2%nat, 1%nat, false),
         ([((TInt, qc 2 1), 2%Z); ((TInt, qc 3 1), 2%Z)], 2%nat, 1%nat, false).
  vm_compute. intros E. discriminate E.
Qed.
Print Assumptions C13_distribution_key_refuted_zero_padding.

(* the per-instance order-statistic cache (keyed by n) never changes an answer *)
Theorem C13_order_stat_cache_transparent : forall {T} (O : ord T) (h : hist T) qs,
  os_run O [] h qs = map (fun q => order_stat O h (fst q) (snd q)) qs.
Proof. exact @os_cache_transparent. Qed.
Print Assumptions C13_order_stat_cache_transparent.
