(* C06 - Dependent-term evaluation computes the exact weighted mixture.
   Only property theorems here; proofs are in Proofs/EvalP.v. *)
From Coq Require Import ZArith QArith List.
From Dyce Require Import Base.Sums Base.Order Base.Hist Base.QcOrd Model.Select Model.Pool Model.Equality
  Model.Eval Model.Explode Proofs.EvalP Proofs.EqualityP Proofs.SourcesP Base.Brute.
Import ListNotations.
Open Scope Z_scope.

(* Reading guide.  A branch value is an outcome (VOut o) or a histogram (VHist h); [kept v] is false
   exactly for histograms of total 0 (the empty histogram included); [vcnt v z] is the count of z in
   the branch (1 or 0 for an outcome), [vtotal v] its total (1 for an outcome).  [qmix G ws] is the sum
   over the kept branches (v, c) of c * G v, so
     qmix (fun v => vcnt v z / vtotal v) ws / qmix (fun _ => 1) ws
   is the mixture  sum_i c_i * P_i(z) / sum_i c_i  of the branch distributions P_i, with dropped
   branches excluded and the rest renormalised. *)

(* aggregate_weighted returns exactly that mixture, for every list of weighted branches *)
Theorem C06_aggregate_is_mixture : forall {T} (O : ord T) (ws : list (val (T:=T) * Z)) h z,
  aggw O ws = Ok h -> total h <> 0 ->
  (inject_Z (cnt O h z) / inject_Z (total h) ==
   qmix (fun v => inject_Z (vcnt O v z) / inject_Z (vtotal v)) ws / qmix (fun _ => 1) ws)%Q.
Proof. exact @aggw_mixture_Q. Qed.
Print Assumptions C06_aggregate_is_mixture.

(* the integer form: each kept branch contributes count * (product of the other kept totals) * its counts *)
Theorem C06_aggregate_counts : forall {T} (O : ord T) (ws : list (val (T:=T) * Z)) h z,
  aggw O ws = Ok h -> cnt O h z = mixsum (fun v => vcnt O v z) ws.
Proof. exact @aggw_cnt. Qed.
Print Assumptions C06_aggregate_counts.
Theorem C06_aggregate_total : forall {T} (O : ord T) (ws : list (val (T:=T) * Z)) h,
  aggw O ws = Ok h -> total h = ktot ws * wsumk ws.
Proof. exact @aggw_total_wsumk. Qed.
Print Assumptions C06_aggregate_total.
(* a branch returning the empty (or any zero-total) histogram is dropped *)
Theorem C06_empty_branch_dropped : forall {T} (O : ord T) (ws1 ws2 : list (val (T:=T) * Z)) h0 c,
  total h0 = 0 -> aggw O (ws1 ++ (VHist h0, c) :: ws2) = aggw O (ws1 ++ ws2).
Proof. exact @aggw_skip_empty. Qed.
Print Assumptions C06_empty_branch_dropped.
Theorem C06_aggregate_defined : forall {T} (O : ord T) (ws : list (val (T:=T) * Z)),
  (forall v c, In (v, c) ws -> 0 <= c /\ match v with VHist h => nonneg h | VOut _ => True end) ->
  exists h, aggw O ws = Ok h /\ wf O h.
Proof. exact @aggw_ok. Qed.
Print Assumptions C06_aggregate_defined.

(* foreach / an @expandable function with a non-recursive callback (an arbitrary function [cbv] of the
   tuple of source results): the lowest-terms reduction of the aggregate over the Cartesian product of
   the sources' results, each weighted by the product of its counts; the callback receives the results
   in the order of the sources (positional first, then keyword) *)
Theorem C06_foreach_is_reduced_aggregate : forall {T} (O : ord T) (pad : T) fuel srcl sent
  (cbv : list (result (T:=T)) -> val (T:=T)), (1 <= fuel)%nat ->
  foreach O pad fuel srcl sent (fun rs => ret_of_val (cbv rs)) None =
  match branches O pad srcl with
  | Err e => Err e
  | Ok bs => match aggw O (map (fun b => (cbv (fst b), snd b)) bs) with
             | Ok h => Ok (lowest O h)
             | Err e => Err e
             end
  end.
Proof. exact @foreach_unfold. Qed.
Print Assumptions C06_foreach_is_reduced_aggregate.
(* the reduction keeps the distribution and is in lowest terms (C05) *)
Theorem C06_result_in_lowest_terms : forall {T} (O : ord T) h, wf O h ->
  heq O (lowest O h) h = true /\ (forall oc, In oc (lowest O h) -> 0 < snd oc) /\
  (lowest O h <> [] -> counts_gcd (lowest O h) = 1).
Proof. intros T O h H. split; [apply heq_lowest; exact H|]. split; [apply lowest_positive; exact H|apply lowest_gcd_one; exact H]. Qed.
Print Assumptions C06_result_in_lowest_terms.
(* Pool sources present each sorted (selected) roll with its exact count: [branches] takes them from
   [rwc], which is brute force by C02_all_rolls / C02_selected_rolls. *)

(* the branch list itself, against brute force: every linear functional of the weighted branches is the
   nested brute-force sum over the sources (faces with their counts / all ordered rolls of the Cartesian
   product of the dice, sorted, restricted to the selected positions) *)
Theorem C06_branches_are_brute_force : forall {T} (O : ord T) (pad : T) srcs bs (F : list (result (T:=T)) -> Z),
  Forall (src_ok O) srcs -> branches O pad srcs = Ok bs ->
  lsum (fun b => snd b * F (fst b)) bs = srcs_sum O srcs F.
Proof. exact @branches_sum. Qed.
Print Assumptions C06_branches_are_brute_force.
Theorem C06_branches_defined : forall {T} (O : ord T) (pad : T) srcs,
  Forall (src_ok O) srcs -> exists bs, branches O pad srcs = Ok bs.
Proof. exact @branches_ok. Qed.
Print Assumptions C06_branches_defined.
(* the weights of the branches add up to the product of the sources' totals: the denominator of the
   branch precision (C07) *)
Theorem C06_branch_weights_total : forall {T} (O : ord T) (pad : T) srcs bs,
  Forall (src_ok O) srcs -> Forall src_nonempty_sel srcs ->
  branches O pad srcs = Ok bs -> lsum snd bs = srcs_total srcs.
Proof. exact @branches_total. Qed.
Print Assumptions C06_branch_weights_total.
(* foreach with an arbitrary non-recursive callback, stated against brute force with the count of
   every outcome of the unreduced aggregate spelled out *)
Theorem C06_foreach_against_brute_force : forall {T} (O : ord T) (pad : T) fuel srcl sent
  (cbv : list (result (T:=T)) -> val (T:=T)) r,
  (1 <= fuel)%nat -> Forall (src_ok O) srcl ->
  foreach O pad fuel srcl sent (fun rs => ret_of_val (cbv rs)) None = Ok r ->
  exists bs h, branches O pad srcl = Ok bs /\ r = lowest O h /\
    (forall z, cnt O h z = mixsum (fun v => vcnt O v z) (map (fun b => (cbv (fst b), snd b)) bs)) /\
    (forall F, lsum (fun b => snd b * F (fst b)) bs = srcs_sum O srcl F).
Proof. exact @foreach_count_against_brute_force. Qed.
Print Assumptions C06_foreach_against_brute_force.

Example C06_nonvacuous :
  exists h, aggw VO [(VOut (qc 1 1), 1); (VHist [(qc 1 1, 1); (qc 2 1, 2)], 2); (VHist [], 5)] = Ok h /\
            cnt VO h (qc 1 1) = 5 /\ cnt VO h (qc 2 1) = 4 /\ total h = 9.
Proof. eexists. split; [vm_compute; reflexivity|]. repeat split; vm_compute; reflexivity. Qed.
