(* C07 - Recursion limits cut expansion exactly where documented.
   Only property theorems here; proofs are in Proofs/LimitsP.v (and Proofs/EvalP.v for the mixture). *)
From Coq Require Import ZArith QArith List.
From Dyce Require Import Base.Sums Base.Order Base.Hist Base.QcOrd Model.Select Model.Pool Model.Equality
  Model.Eval Proofs.LimitsP Proofs.EvalP.
Import ListNotations.

(* Reading guide.  [call] is the model of the decorated function with the ContextVar as threaded
   state.  [xeval fuel il d pi n st lim] is the same evaluator with EXPLICIT parameters: the limit [il]
   inherited from the enclosing evaluation, the nesting depth [d] and the probability [pi] of the path
   taken so far relative to the whole evaluation; a nested call met in a branch of combined count
   [cnt] is evaluated at depth d+1 with pi * cnt / total (total = product of ALL the sources' totals).
   C07_contextvar_is_explicit_passing says the two coincide; the remaining theorems are read on xeval. *)
Section C07.
Context {T : Type} (O : ord T) {St : Type} (pad : T).
Variable srcs : St -> list (source (T:=T)).
Variable sentinel : St -> hist T.
Variable cb : St -> list (result (T:=T)) -> ret (T:=T) (St:=St).
Variable fault : option nat.

Theorem C07_contextvar_is_explicit_passing : forall fuel il d pi n st lim,
  call O pad srcs sentinel cb fault fuel (Some (ctx_of il d pi), n) st lim =
  (let '(n', r) := xeval O pad srcs sentinel cb fault fuel il d pi n st lim in (Some (ctx_of il d pi), n', r)).
Proof. exact (call_is_xeval O pad srcs sentinel cb fault). Qed.
Theorem C07_top_level_starts_at_depth_zero : forall fuel n st lim,
  call O pad srcs sentinel cb fault fuel (None, n) st lim =
  (let '(n', r) := xeval O pad srcs sentinel cb fault fuel None 0%Z 1%Q n st lim in (None, n', r)).
Proof. exact (call_is_xeval_top O pad srcs sentinel cb fault). Qed.

(* the sentinel is substituted exactly when the cut-off test holds: whole-number limit L at depth >= L,
   fractional limit e at path probability <= e; [eff_limit] = own limit, else inherited, else 1 *)
Theorem C07_cut_gives_sentinel : forall fuel il d pi n st lim l, (1 <= fuel)%nat ->
  match lim with
  | Some r => norm_limit r
  | None => match il with Some l0 => norm_limit (raw_of l0) | None => Ok (LInt 1) end
  end = Ok l ->
  cut l (ctx_of il d pi) = true ->
  xeval O pad srcs sentinel cb fault fuel il d pi n st lim =
  (n, Ok (if (d =? 0)%Z then lowest O (sentinel st) else sentinel st)).
Proof. exact (xeval_cut O pad srcs sentinel cb fault). Qed.
Theorem C07_cut_test_whole : forall L il d pi, cut (LInt L) (ctx_of il d pi) = (L <=? d)%Z.
Proof. exact cut_int. Qed.
Theorem C07_cut_test_fraction : forall e il d pi, cut (LFrac e) (ctx_of il d pi) = Qle_bool pi e.
Proof. exact cut_frac. Qed.
(* below the cut-off every branch is expanded one level deeper with the limit inherited, and the
   value returned is the aggregate (exact mixture, C06) of expanded and sentinel branches *)
Theorem C07_expansion_step : forall fuel il d pi n st lim l bs,
  eff_limit il lim = Ok l -> cut l (ctx_of il d pi) = false -> branches O pad (srcs st) = Ok bs ->
  xeval O pad srcs sentinel cb fault (S fuel) il d pi n st lim =
  (let (n', r) := xloop sentinel cb fault
                    (fun pi' => xeval O pad srcs sentinel cb fault fuel (Some l) (d + 1)%Z pi') st pi
                    (srcs_total (srcs st)) bs n [] in
   match r with
   | Ok ws => match aggw O ws with
              | Ok h => (n', Ok (if (d =? 0)%Z then lowest O h else h))
              | Err e => (n', Err e)
              end
   | Err e => (n', Err e)
   end).
Proof. exact (xeval_expand O pad srcs sentinel cb fault). Qed.
(* limit 0 gives the sentinel alone; the default limit is 1 *)
Theorem C07_limit_zero : forall fuel n st, (1 <= fuel)%nat ->
  xeval O pad srcs sentinel cb fault fuel None 0%Z 1%Q n st (Some (RInt 0)) = (n, Ok (lowest O (sentinel st))).
Proof. exact (xeval_limit_zero O pad srcs sentinel cb fault). Qed.
Theorem C07_default_limit_is_one : forall fuel n st,
  xeval O pad srcs sentinel cb fault fuel None 0%Z 1%Q n st None =
  xeval O pad srcs sentinel cb fault fuel None 0%Z 1%Q n st (Some (RInt 1)).
Proof. exact (xeval_default_limit O pad srcs sentinel cb fault). Qed.
(* illegal limits raise before anything is evaluated *)
Theorem C07_illegal_limit_rejected : forall fuel il d pi n st r e, (1 <= fuel)%nat -> norm_limit r = Err e ->
  xeval O pad srcs sentinel cb fault fuel il d pi n st (Some r) = (n, Err e).
Proof. exact (xeval_bad_limit O pad srcs sentinel cb fault). Qed.
(* try/except in a callback.  The callback terms of a decorated call are evaluated by
   [ev (call ... fuel)] (Proofs/EvalP.v, call_unfold); when the protected term r1 of
   [RTry c r1 r2] fails, the state s1 the handler r2 starts from has the ContextVar of the state s the
   protected term started from - the failed nested evaluation leaves nothing behind - so a fallback
   call made by the handler inherits the enclosing limit, depth and precision.  (In the explicit
   evaluator [xev] the handler is by definition evaluated with the same limit / depth / probability;
   C07_contextvar_is_explicit_passing above covers terms with RTry.) *)
Theorem C07_handler_sees_enclosing_context : forall fuel c r1 r2 s s1 e,
  ev (call O pad srcs sentinel cb fault fuel) r1 s = (s1, Err e) ->
  fst s1 = fst s /\
  (c e = true -> ev (call O pad srcs sentinel cb fault fuel) (RTry c r1 r2) s
                 = ev (call O pad srcs sentinel cb fault fuel) r2 s1).
Proof. exact (call_try_handler_context O pad srcs sentinel cb fault). Qed.
End C07.
Print Assumptions C07_contextvar_is_explicit_passing.
Print Assumptions C07_handler_sees_enclosing_context.
Print Assumptions C07_top_level_starts_at_depth_zero.
Print Assumptions C07_cut_gives_sentinel.
Print Assumptions C07_cut_test_whole.
Print Assumptions C07_cut_test_fraction.
Print Assumptions C07_expansion_step.
Print Assumptions C07_limit_zero.
Print Assumptions C07_default_limit_is_one.
Print Assumptions C07_illegal_limit_rejected.

(* which limits are legal: -1 is unbounded, other negatives and fractions outside (0,1) are ValueError *)
Theorem C07_limit_validation_int : forall z, norm_limit (RInt z) =
  if (z =? -1)%Z then Ok (LInt maxsize) else if (z <? 0)%Z then Err ValueError else Ok (LInt z).
Proof. exact norm_limit_int. Qed.
Print Assumptions C07_limit_validation_int.
Theorem C07_limit_validation_fraction_ok : forall q, (0 < q)%Q -> (q < 1)%Q ->
  norm_limit (RFrac q) = Ok (LFrac q) /\ norm_limit (RFloat q) = Ok (LFrac q).
Proof. exact norm_limit_frac_ok. Qed.
Print Assumptions C07_limit_validation_fraction_ok.
Theorem C07_limit_validation_fraction_bad : forall q, (q <= 0)%Q \/ (1 <= q)%Q ->
  norm_limit (RFrac q) = Err ValueError /\ norm_limit (RFloat q) = Err ValueError.
Proof. exact norm_limit_frac_bad. Qed.
Print Assumptions C07_limit_validation_fraction_bad.
(* nested calls inherit the enclosing limit unchanged *)
Theorem C07_inherited_limit_unchanged : forall l l', norm_limit l = Ok l' -> norm_limit (raw_of l') = Ok l'.
Proof. exact norm_limit_idem. Qed.
Print Assumptions C07_inherited_limit_unchanged.

Example C07_nonvacuous :
  norm_limit (RInt (-1)) = Ok (LInt maxsize) /\ norm_limit (RInt (-2)) = Err ValueError /\
  norm_limit (RFloat (1 # 1)) = Err ValueError /\ cut (LFrac (1 # 4)) (ctx_of None 1 (1 # 4)) = true /\
  cut (LFrac (1 # 4)) (ctx_of None 1 (1 # 3)) = false /\ cut (LInt 2) (ctx_of None 2 1) = true.
Proof. repeat split; reflexivity. Qed.
