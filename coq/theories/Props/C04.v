(* C04 - Repetition, pooling and totals obey the counting laws.
   Only property theorems here; proofs are in Proofs/RepeatP.v. *)
From Coq Require Import ZArith List Permutation.
From Dyce Require Import Base.Sums Base.Order Base.Hist Base.Brute Base.QcOrd Model.Select Model.Pool Proofs.RepeatP Exec.Run Proofs.QcInstanceP.
Import ListNotations.

(* Outcome addition is assumed commutative, associative with a left unit (true of Python numbers). *)
Section C04.
Context {T : Type} (O : ord T) (zeroT : T) (addT : T -> T -> T).
Hypothesis add_comm : forall x y, addT x y = addT y x.
Hypothesis add_assoc : forall x y z, addT x (addT y z) = addT (addT x y) z.
Hypothesis add_0_l : forall x, addT zeroT x = x.

(* n@h is the n-fold sum of independent copies: brute-force counts, total h.total**n *)
Theorem C04_matmul_is_nfold_sum : forall n h z, (1 <= n)%Z ->
  exists r, hmatmul O zeroT addT n h = Ok r /\
    cnt O r z = bsum O h (Z.to_nat n) (fun l => if eqb O (tsum zeroT addT l) z then 1 else 0)%Z /\
    total r = zpow (total h) (Z.to_nat n).
Proof. exact (hmatmul_cnt O zeroT addT add_comm add_assoc add_0_l). Qed.
Theorem C04_matmul_zero : forall h, hmatmul O zeroT addT 0 h = Ok [].
Proof. exact (hmatmul_zero O zeroT addT). Qed.
Theorem C04_matmul_negative_rejected : forall n h, (n < 0)%Z -> hmatmul O zeroT addT n h = Err ValueError.
Proof. exact (hmatmul_neg O zeroT addT). Qed.
(* (m+n)@h == m@h + n@h, as identical histograms *)
Theorem C04_matmul_additive : forall m n h, (1 <= m)%nat -> (1 <= n)%nat ->
  sum_h O zeroT addT (repeat h (m + n)) =
  hadd O addT (sum_h O zeroT addT (repeat h m)) (sum_h O zeroT addT (repeat h n)).
Proof. exact (hmatmul_add O zeroT addT add_assoc add_0_l). Qed.

(* p.h() is the sum of the dice = brute force over all rolls; its total is the product of totals *)
Theorem C04_pool_sum : forall (p : list (hist T)) z, p <> [] ->
  cnt O (sum_h O zeroT addT p) z = pbsum O p (fun l => if eqb O (tsum zeroT addT l) z then 1 else 0)%Z.
Proof. exact (sum_h_cnt O zeroT addT add_comm add_assoc add_0_l). Qed.
Theorem C04_pool_sum_total : forall (p : list (hist T)), p <> [] -> total (sum_h O zeroT addT p) = ptotal p.
Proof. exact (sum_h_total O zeroT addT add_comm add_assoc add_0_l). Qed.
End C04.
Print Assumptions C04_matmul_is_nfold_sum.
Print Assumptions C04_matmul_zero.
Print Assumptions C04_matmul_negative_rejected.
Print Assumptions C04_matmul_additive.
Print Assumptions C04_pool_sum.
Print Assumptions C04_pool_sum_total.

(* P(...): argument order is irrelevant, nested pools flatten, zero-total dice are dropped,
   one canonical (sorted) order; P.total is the product of the dice totals (1 when empty) *)
Theorem C04_pool_ignores_order : forall {T} (O : ord T) (l l' : list (hist T)), Permutation l l' -> mkP O l = mkP O l'.
Proof. exact @mkP_perm_strong. Qed.
Print Assumptions C04_pool_ignores_order.
Theorem C04_pool_flattens_nesting : forall {T} (O : ord T) (args : list (list (hist T))),
  mkP_args O (map (mkP O) args) = mkP_args O args.
Proof. exact @mkP_args_flatten_strong. Qed.
Print Assumptions C04_pool_flattens_nesting.
Theorem C04_pool_content : forall {T} (O : ord T) (l : list (hist T)),
  Permutation (mkP O l) (filter (fun h => negb (total h =? 0)%Z) l).
Proof. exact @mkP_content. Qed.
Print Assumptions C04_pool_content.
Theorem C04_pool_canonical_order : forall {T} (O : ord T) (l : list (hist T)), sorted (HO O) (mkP O l).
Proof. exact @mkP_sorted. Qed.
Print Assumptions C04_pool_canonical_order.
Theorem C04_pool_total : forall {T} (O : ord T) (l : list (hist T)),
  ptotal (mkP O l) = fold_right (fun h acc => (if (total h =? 0)%Z then 1 else total h) * acc)%Z 1%Z l.
Proof. exact @ptotal_mkP. Qed.
Print Assumptions C04_pool_total.
(* n@P(h) is n copies of h, so (n@P(h)).h() is n@h *)
Theorem C04_pool_of_copies : forall {T} (O : ord T) n (h : hist T), total h <> 0%Z -> mkP O (repeat h n) = repeat h n.
Proof. exact @pool_of_copies. Qed.
Print Assumptions C04_pool_of_copies.

(* for exactly the functions the correspondence check evaluates: no hypothesis about addition left *)
Theorem C04_matmul_is_nfold_sum_executable_instance : forall n h z, (1 <= n)%Z ->
  exists r, hmatmul VO Vzero Vadd n h = Ok r /\
    cnt VO r z = bsum VO h (Z.to_nat n) (fun l => if eqb VO (tsum Vzero Vadd l) z then 1 else 0)%Z /\
    total r = zpow (total h) (Z.to_nat n).
Proof. exact hmatmul_cnt_Qc. Qed.
Print Assumptions C04_matmul_is_nfold_sum_executable_instance.
Theorem C04_pool_sum_executable_instance : forall (p : list (hist Qc)) z, p <> [] ->
  cnt VO (sum_h VO Vzero Vadd p) z = pbsum VO p (fun l => if eqb VO (tsum Vzero Vadd l) z then 1 else 0)%Z.
Proof. exact sum_h_cnt_Qc. Qed.
Print Assumptions C04_pool_sum_executable_instance.

Example C04_nonvacuous :
  hmatmul VO (qc 0 1) Qcanon.Qcplus 2 [(qc 1 1, 1%Z); (qc 2 1, 3%Z)] = Ok [(qc 2 1, 1%Z); (qc 3 1, 6%Z); (qc 4 1, 9%Z)] /\
  mkP VO [[(qc 2 1, 1%Z)]; [(qc 5 1, 0%Z)]; [(qc 1 1, 1%Z); (qc 2 1, 1%Z)]] = [[(qc 1 1, 1%Z); (qc 2 1, 1%Z)]; [(qc 2 1, 1%Z)]].
Proof. split; vm_compute; reflexivity. Qed.
