(* C03 - Selective pool sums P.h( *which ) are exact, including every short-circuit.
   Only property theorems here; proofs are in Proofs/PoolHP.v (on top of RwcP, RepeatP). *)
From Coq Require Import ZArith List Permutation.
From Dyce Require Import Base.Sums Base.Order Base.Hist Base.Brute Base.QcOrd Model.Select Model.Pool
  Proofs.RwcP Proofs.PoolHP Exec.Run Proofs.QcInstanceP.
Import ListNotations.

Section C03.
Context {T : Type} (O : ord T) (zeroT : T) (addT : T -> T -> T) (mulzT : Z -> T -> T).
Hypothesis add_comm : forall x y, addT x y = addT y x.
Hypothesis add_assoc : forall x y z, addT x (addT y z) = addT (addT x y) z.
Hypothesis add_0_l : forall x, addT zeroT x = x.
Hypothesis mulz_nat : forall m x, mulzT (Z.of_nat m) x = tsum zeroT addT (repeat x m).

(* P.h( *which ) has exactly (counts, not proportions) the brute-force counts of the sum of the
   selected positions of the ascending-sorted roll, whichever branch (short-circuit or
   enumeration strategy) computes it; an empty selection gives the empty histogram *)
Theorem C03_selective_sum_exact : forall p w idx, okpool O p -> p <> [] -> w <> [] ->
  resolve (length p) w = Ok idx ->
  exists r, p_h O zeroT addT mulzT p (Some w) = Ok r /\
    (idx = [] -> r = []) /\
    (idx <> [] -> forall z, cnt O r z =
        pbsum O p (fun l => if eqb O (tsum zeroT addT (getitems l idx)) z then 1 else 0)%Z) /\
    (idx <> [] -> total r = ptotal p).
Proof. exact (p_h_correct O zeroT addT mulzT add_comm add_assoc add_0_l mulz_nat). Qed.

Theorem C03_no_selection_is_sum_of_dice : forall p, p_h O zeroT addT mulzT p None = Ok (sum_h O zeroT addT p).
Proof. exact (p_h_none O zeroT addT mulzT). Qed.

(* equivalent selections (same multiset of positions, however written) give the same counts *)
Theorem C03_equivalent_selections : forall p w1 w2 idx1 idx2 r1 r2, okpool O p -> p <> [] -> w1 <> [] -> w2 <> [] ->
  resolve (length p) w1 = Ok idx1 -> resolve (length p) w2 = Ok idx2 -> Permutation idx1 idx2 ->
  p_h O zeroT addT mulzT p (Some w1) = Ok r1 -> p_h O zeroT addT mulzT p (Some w2) = Ok r2 ->
  forall z, cnt O r1 z = cnt O r2 z.
Proof. exact (p_h_equivalent O zeroT addT mulzT add_comm add_assoc add_0_l mulz_nat). Qed.

(* selecting every position once is P.h() *)
Theorem C03_select_all : forall p w idx r, okpool O p -> p <> [] -> w <> [] -> resolve (length p) w = Ok idx ->
  Permutation idx (seq 0 (length p)) -> p_h O zeroT addT mulzT p (Some w) = Ok r ->
  forall z, cnt O r z = cnt O (sum_h O zeroT addT p) z.
Proof. exact (p_h_all O zeroT addT mulzT add_comm add_assoc add_0_l mulz_nat). Qed.

(* P.h(i) is the i-th order statistic *)
Theorem C03_order_statistic : forall p i r, okpool O p -> p <> [] ->
  (- Z.of_nat (length p) <= i < Z.of_nat (length p))%Z ->
  p_h O zeroT addT mulzT p (Some [Idx i]) = Ok r ->
  let pos := Z.to_nat (if (i <? 0)%Z then i + Z.of_nat (length p) else i)%Z in
  forall z, cnt O r z = pbsum O p (fun l => match nth_error l pos with
                                            | Some x => if eqb O (addT x zeroT) z then 1 else 0
                                            | None => 0 end)%Z.
Proof. exact (p_h_order_stat O zeroT addT mulzT add_comm add_assoc add_0_l mulz_nat). Qed.

Theorem C03_selection_errors : forall p w e, w <> [] -> resolve (length p) w = Err e ->
  p_h O zeroT addT mulzT p (Some w) = Err e.
Proof. exact (p_h_error O zeroT addT mulzT). Qed.
End C03.
Print Assumptions C03_selective_sum_exact.
Print Assumptions C03_no_selection_is_sum_of_dice.
Print Assumptions C03_equivalent_selections.
Print Assumptions C03_select_all.
Print Assumptions C03_order_statistic.
Print Assumptions C03_selection_errors.

(* relabelling all faces by an increasing map relabels every sorted roll by the same map; a
   decreasing map mirrors the positions (so the selected sum of the relabelled pool is the
   relabelled selection of the original pool) *)
Theorem C03_relabel_increasing : forall {T} (O : ord T) g p F,
  (forall x y, leb O x y = true -> leb O (g x) (g y) = true) ->
  pbsum O (map (relabel g) p) F = pbsum O p (fun l => F (map g l)).
Proof. exact @pbsum_relabel_incr. Qed.
Print Assumptions C03_relabel_increasing.
Theorem C03_relabel_decreasing : forall {T} (O : ord T) g p F,
  (forall x y, leb O x y = true -> leb O (g y) (g x) = true) ->
  pbsum O (map (relabel g) p) F = pbsum O p (fun l => F (rev (map g l))).
Proof. exact @pbsum_relabel_decr. Qed.
Print Assumptions C03_relabel_decreasing.

(* the same theorem for exactly the functions the correspondence check evaluates (outcomes Qc with
   their addition): no hypothesis about outcome arithmetic is left *)
Theorem C03_selective_sum_exact_executable_instance : forall p w idx, okpool VO p -> p <> [] -> w <> [] ->
  resolve (length p) w = Ok idx ->
  exists r, p_h VO Vzero Vadd Vmulz p (Some w) = Ok r /\
    (idx = [] -> r = []) /\
    (idx <> [] -> forall z, cnt VO r z =
        pbsum VO p (fun l => if eqb VO (tsum Vzero Vadd (getitems l idx)) z then 1 else 0)%Z) /\
    (idx <> [] -> total r = ptotal p).
Proof. exact p_h_correct_Qc. Qed.
Print Assumptions C03_selective_sum_exact_executable_instance.

Example C03_nonvacuous :
  exists r, p_h VO (qc 0 1) Qcanon.Qcplus (fun z x => Qcanon.Qcmult (Vz z) x)
      (mkP VO [[(qc 1 1, 1%Z); (qc 2 1, 1%Z)]; [(qc 1 1, 1%Z); (qc 2 1, 1%Z)]; [(qc 0 1, 1%Z); (qc 3 1, 2%Z)]])
      (Some [Idx (-1); Idx 0]) = Ok r /\
    cnt VO r (qc 4 1) = 6%Z /\ cnt VO r (qc 5 1) = 2%Z /\ total r = 12%Z.
Proof. eexists. split; [vm_compute; reflexivity|]. repeat split; vm_compute; reflexivity. Qed.
