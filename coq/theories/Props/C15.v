(* C15 - Histograms, pools and rollers are immutable values.
   Only property theorems here; proofs are in Proofs/StoreP.v.  Objects live in a store and are
   referred to by ids; [observe s i] is everything a client can see of object i (outcomes in order,
   counts, total; the dice of a pool in order; the sources and annotation of a roller). *)
From Coq Require Import ZArith List Bool.
From Dyce Require Import Base.Hist Base.QcOrd Model.Store Proofs.StoreP.
Import ListNotations.

(* no operation, successful or failing, changes the observable content of an existing object *)
Theorem C15_frame : forall s o i, store_ok s -> (i < length (objs s))%nat ->
  observe (fst (step s o)) i = observe s i.
Proof. exact step_frame. Qed.
Print Assumptions C15_frame.
(* ... for every sequence of public operations *)
Theorem C15_frame_sequences : forall s ops i, store_ok s -> (i < length (objs s))%nat ->
  observe (steps s ops) i = observe s i.
Proof. exact steps_frame_any. Qed.
Print Assumptions C15_frame_sequences.
(* operations return new objects: the store only grows, nothing existing is written *)
Theorem C15_store_only_grows : forall s o,
  exists ds os, dicts (fst (step s o)) = dicts s ++ ds /\ objs (fst (step s o)) = objs s ++ os.
Proof. exact step_extends. Qed.
Print Assumptions C15_store_only_grows.
(* a failing operation (item assignment, deletion, a rejected argument, an over-draw) changes nothing *)
Theorem C15_failure_changes_nothing : forall s o e, snd (step s o) = Err e -> fst (step s o) = s.
Proof. exact step_error_unchanged. Qed.
Print Assumptions C15_failure_changes_nothing.
Theorem C15_item_assignment_unsupported : forall s a, step s (OSetItem a) = (s, Err TypeError).
Proof. reflexivity. Qed.
Print Assumptions C15_item_assignment_unsupported.
(* objects constructed from other objects (H(h) shares the mapping) and their inputs stay as they were,
   whatever is done later with either *)
Theorem C15_alias_and_input_stable : forall s a s1 b ops, store_ok s -> (a < length (objs s))%nat ->
  step s (OAlias a) = (s1, Ok b) -> ops_ok s1 ops ->
  observe (steps s1 ops) a = observe s a /\ observe (steps s1 ops) b = observe s a /\
  exists items tot, observe s a = ObsH items tot.
Proof. exact alias_stable. Qed.
Print Assumptions C15_alias_and_input_stable.
Theorem C15_wellformed_preserved : forall s ops, store_ok s -> ops_ok s ops -> store_ok (steps s ops).
Proof. exact steps_ok. Qed.
Print Assumptions C15_wellformed_preserved.

Example C15_nonvacuous :
  let ops := [OConst [(qc 1 1, 1%Z); (qc 2 1, 1%Z)]; OAlias 0%nat; ODraw 0%nat [(qc 1 1, 2%Z)]; OPool [0%nat; 1%nat]; OSetItem 0%nat; OMatmulP 2%Z 2%nat] in
  store_ok store0 /\ ops_ok store0 ops /\ length (objs (steps store0 ops)) = 4%nat /\
  observe (steps store0 ops) 0%nat = ObsH [(qc 1 1, 1%Z); (qc 2 1, 1%Z)] 2%Z.
Proof. split; [exact store0_ok|]. split; [cbn; repeat split; repeat constructor|]. split; vm_compute; reflexivity. Qed.
