(* C14 - Evaluation limits and context never leak across calls, even after errors.
   Only property theorems here; proofs are in Proofs/EvalP.v. *)
From Coq Require Import ZArith QArith List.
From Dyce Require Import Base.Sums Base.Order Base.Hist Base.QcOrd Base.ZOrd Model.Select Model.Pool Model.Equality
  Model.Eval Proofs.EvalP.
Import ListNotations.

(* Reading guide.  [call fault fuel s st lim] evaluates the decorated function [st] from the
   interpreter state [s] = (content of the ContextVar, number of callback invocations so far);
   [fault = Some i] makes callback invocation number i raise the marker exception UserError 7,
   wherever it happens (top level, nested evaluation, pool-roll enumeration). *)
Section C14.
Context {T : Type} (O : ord T) {St : Type} (pad : T).
Variable srcs : St -> list (source (T:=T)).
Variable sentinel : St -> hist T.
Variable cb : St -> list (result (T:=T)) -> ret (T:=T) (St:=St).

(* the ContextVar is restored whatever happened: completion, nesting, an exception at any point *)
Theorem C14_context_restored : forall fault fuel s st lim,
  fst (fst (call O pad srcs sentinel cb fault fuel s st lim)) = fst s.
Proof. exact (call_restores O pad srcs sentinel cb). Qed.

(* after ANY first top-level evaluation (completed or aborted by the injected exception), a later
   top-level evaluation equals the one from a fresh interpreter *)
Theorem C14_later_evaluations_fresh : forall fault fuel st1 lim1 st2 lim2,
  let s1 := fst (call O pad srcs sentinel cb fault fuel (None, 0%nat) st1 lim1) in
  (forall i, fault = Some i -> (i < snd s1)%nat) ->
  snd (call O pad srcs sentinel cb fault fuel s1 st2 lim2)
  = snd (call O pad srcs sentinel cb None fuel (None, 0%nat) st2 lim2).
Proof. exact (later_call_fresh O pad srcs sentinel cb). Qed.

(* the injected exception reaches the caller unchanged if its invocation is reached, and otherwise the
   evaluation is exactly the fault-free one - PROVIDED no callback catches exceptions
   ([try_free r = true] iff the term r contains no RTry; with a try/except around a nested evaluation
   the injected exception may be caught and the call completes: C14_try_catches_injected_exception and
   C14_try_free_hypothesis_needed below) *)
Theorem C14_exception_propagates_unchanged : (forall st rs, try_free (cb st rs) = true) ->
  forall i fuel s st lim, (snd s <= i)%nat ->
  let R := call O pad srcs sentinel cb (Some i) fuel s st lim in
  ((i < snd (fst R))%nat /\ snd R = Err (UserError 7)) \/
  ((snd (fst R) <= i)%nat /\ R = call O pad srcs sentinel cb None fuel s st lim).
Proof. exact (call_fault_dichotomy O pad srcs sentinel cb). Qed.

(* only RecursionError is converted into the sentinel: a successful call evaluated ALL its branches,
   each returning a value or raising RecursionError (recorded as the sentinel) *)
Theorem C14_only_recursion_error_swallowed : forall fault fuel s st lim s' h,
  call O pad srcs sentinel cb fault (Datatypes.S fuel) s st lim = (s', Ok h) ->
  exists l, nlimit s lim = Ok l /\
  ((cut l (cur_of s) = true /\ s' = s /\ h = lowest_if_top O (cur_of s) (sentinel st)) \/
   (cut l (cur_of s) = false /\
    exists bs ws hh, branches O pad (srcs st) = Ok bs /\
      go_trace sentinel cb (call O pad srcs sentinel cb fault fuel) fault st l (cur_of s) (srcs_total (srcs st)) bs s ws s' /\
      aggw O ws = Ok hh /\ h = lowest_if_top O (cur_of s) hh)).
Proof. exact (only_recursion_error_is_swallowed O pad srcs sentinel cb). Qed.

(* a top-level evaluation starts at depth 0 with full precision and returns a lowest-terms histogram:
   the fresh state has no context, i.e. ctxt0 *)
Theorem C14_fresh_context : cur_of (None, 0%nat) = ctxt0 /\ c_depth ctxt0 = 0%Z /\ (c_prec ctxt0 == 1)%Q /\ c_lim ctxt0 = None.
Proof. repeat split; reflexivity. Qed.
End C14.
Print Assumptions C14_context_restored.
Print Assumptions C14_later_evaluations_fresh.
Print Assumptions C14_exception_propagates_unchanged.
Print Assumptions C14_only_recursion_error_swallowed.
Print Assumptions C14_fresh_context.

(* Non-vacuity of try/except.  The outer mechanic ([true]) rolls a d2 and, on every face, tries the
   nested mechanic ([false], a d2 returning its face) and falls back to the outcome 0 when UserError 7
   is raised.  Invocations: 0 = outer face 1, 1 = nested face 1 (the injected fault), 2 = outer face 2,
   3, 4 = nested faces.  The injected exception is caught, the evaluation completes, and the fallback
   outcome is in the result; without the fault the counter reaches 6 and the result is the plain d2. *)
Definition catch7 (e : exn) : bool := match e with UserError 7 => true | _ => false end.
Definition try_srcs (_ : bool) : list (source (T:=Z)) := [SH [(1%Z, 1%Z); (2%Z, 1%Z)]].
Definition try_sent (_ : bool) : hist Z := [].
Definition try_cb (st : bool) (rs : list (result (T:=Z))) : ret (T:=Z) (St:=bool) :=
  if st then RTry catch7 (RCall false None) (ROut 0%Z)
  else match rs with [[o]] => ROut o | _ => RRaise TypeError end.
Example C14_try_catches_injected_exception :
  call ZO 0%Z try_srcs try_sent try_cb (Some 1%nat) 5 (None, 0%nat) true (Some (RInt 2))
    = ((None, 5%nat), Ok [(0%Z, 2%Z); (1%Z, 1%Z); (2%Z, 1%Z)]) /\
  call ZO 0%Z try_srcs try_sent try_cb None 5 (None, 0%nat) true (Some (RInt 2))
    = ((None, 6%nat), Ok [(1%Z, 1%Z); (2%Z, 1%Z)]).
Proof. vm_compute. split; reflexivity. Qed.
Print Assumptions C14_try_catches_injected_exception.
(* hence the hypothesis of C14_exception_propagates_unchanged cannot be dropped: for this mechanic the
   fault is reached (the counter passes 1) and yet the call does not raise *)
Example C14_try_free_hypothesis_needed :
  let R := call ZO 0%Z try_srcs try_sent try_cb (Some 1%nat) 5 (None, 0%nat) true (Some (RInt 2)) in
  ~ (((1 < snd (fst R))%nat /\ snd R = Err (UserError 7)) \/
     ((snd (fst R) <= 1)%nat /\ R = call ZO 0%Z try_srcs try_sent try_cb None 5 (None, 0%nat) true (Some (RInt 2)))).
Proof. vm_compute. intros [[_ H]|[_ H]]; discriminate H. Qed.
Print Assumptions C14_try_free_hypothesis_needed.
