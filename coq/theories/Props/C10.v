(* C10 - H.roll and P.roll sample exactly the encoded distribution.
   Only property theorems here; proofs are in Proofs/RollerP.v.  [prob t P] is the probability that the
   result of the choice tree t satisfies P when every question to the random source (one call of
   RNG.choices(population, weights, k=1)) is answered with index i with probability w_i / sum w. *)
From Coq Require Import ZArith QArith List.
From Dyce Require Import Base.Sums Base.Order Base.Hist Base.Brute Base.QcOrd Model.Select Model.Pool Model.Roller
  Spec.RollerSpec Proofs.RollerP Proofs.RwcP.
Import ListNotations.

Theorem C10_h_roll_distribution : forall {T} (zeroT : T) (h : hist T) (P : T -> bool),
  nonneg h -> (0 < total h)%Z ->
  (prob (h_roll zeroT h) P == inject_Z (lsum (fun oc => if P (fst oc) then snd oc else 0%Z) h) / inject_Z (total h))%Q.
Proof. exact @h_roll_prob. Qed.
Print Assumptions C10_h_roll_distribution.
(* a zero-count outcome is never returned: its probability is 0 (instance of the above), and an empty
   or zero-total histogram rolls 0 without consulting the random source *)
Theorem C10_h_roll_zero_total : forall {T} (zeroT : T) (h : hist T), total h = 0%Z -> h_roll zeroT h = Ret zeroT.
Proof. exact @h_roll_zero_total. Qed.
Print Assumptions C10_h_roll_zero_total.
(* P.roll returns each ascending-sorted roll with exactly brute-force count / total, which is what
   rolls_with_counts enumerates (C02_all_rolls) *)
Theorem C10_p_roll_distribution : forall {T} (O : ord T) (zeroT : T) (p : list (hist T)) (P : list T -> bool),
  Forall (fun h => nonneg h /\ (0 < total h)%Z) p ->
  (prob (p_roll O zeroT p) P == inject_Z (pbsum O p (fun l => if P l then 1%Z else 0%Z)) / inject_Z (ptotal p))%Q.
Proof. exact @p_roll_prob. Qed.
Print Assumptions C10_p_roll_distribution.
(* one independent draw per die: exactly one question per die, with that die's outcomes and counts *)
Theorem C10_p_roll_one_draw_per_die : forall {T} (O : ord T) (zeroT : T) (p : list (hist T)) script,
  Forall (fun h => total h <> 0%Z) p -> length script = length p ->
  fst (run (p_roll O zeroT p) script) = map (fun h => (keys h, map snd h)) p.
Proof. exact @p_roll_asks. Qed.
Print Assumptions C10_p_roll_one_draw_per_die.

Example C10_nonvacuous :
  run (p_roll VO (qc 0 1) [[(qc 1 1, 1%Z); (qc 2 1, 3%Z)]; [(qc 0 1, 2%Z); (qc 5 1, 0%Z)]]) [1%nat; 0%nat]
  = ([([qc 1 1; qc 2 1], [1%Z; 3%Z]); ([qc 0 1; qc 5 1], [2%Z; 0%Z])], Some (Ok [qc 0 1; qc 2 1])).
Proof. vm_compute. reflexivity. Qed.
