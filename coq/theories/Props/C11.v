(* C11 - Roller trees produce exactly the distribution their expression denotes.
   Only property theorems here; proofs are in Proofs/RollerP.v.  [roll_v] is the sampling semantics
   of a roller tree (Model/Roller.v), [denote] the same expression evaluated by enumeration with exact
   probabilities (Spec/RollerSpec.v); [expect t g] is the expectation of g over the results of t under
   a fair random source, [wexpect l g] the sum of probability * g over the enumerated alternatives. *)
From Coq Require Import ZArith QArith List.
From Dyce Require Import Base.Sums Base.Order Base.Hist Base.QcOrd Model.Select Model.Pool Model.Roller
  Spec.RollerSpec Proofs.RollerP.
Import ListNotations.

(* for every roller tree and every observable g of the roll (values in order, tombstones, failures):
   sampling has exactly the enumerated distribution *)
Theorem C11_sampling_is_enumeration : forall {T} (O : ord T) (zeroT : T) (addT : T -> T -> T)
  (r : rtree (T:=T)) (g : res (rollv (T:=T)) -> Q), proper r ->
  (expect (roll_v O zeroT addT r) g == wexpect (denote O zeroT addT r) g)%Q.
Proof. exact @roll_v_denote. Qed.
Print Assumptions C11_sampling_is_enumeration.
Theorem C11_probability_of_any_event : forall {T} (O : ord T) (zeroT : T) (addT : T -> T -> T)
  (r : rtree (T:=T)) (P : rollv (T:=T) -> bool), proper r ->
  (prob (roll_v O zeroT addT r) P ==
   wexpect (denote O zeroT addT r) (fun ra => match ra with Ok a => if P a then 1 else 0 | Err _ => 0 end))%Q.
Proof. exact @roll_v_prob. Qed.
Print Assumptions C11_probability_of_any_event.
(* the enumeration is a probability distribution *)
Theorem C11_enumeration_mass_one : forall {T} (O : ord T) (zeroT : T) (addT : T -> T -> T) (r : rtree (T:=T)),
  proper r -> (wweight (denote O zeroT addT r) == 1)%Q.
Proof. exact @denote_mass_one. Qed.
Print Assumptions C11_enumeration_mass_one.
(* leaves: a histogram leaf enumerates its faces with probability count/total, a pool leaf every
   sorted roll of the Cartesian product *)
Theorem C11_leaf_histogram : forall {T} (zeroT : T) (h : hist T) g, nonneg h -> (0 < total h)%Z ->
  (expect (h_roll zeroT h) g == wexpect (h_enum zeroT h) g)%Q.
Proof. exact @h_roll_expect. Qed.
Print Assumptions C11_leaf_histogram.
Theorem C11_leaf_pool : forall {T} (O : ord T) (zeroT : T) (p : list (hist T)) g,
  Forall (fun h => nonneg h /\ (0 < total h)%Z) p ->
  (expect (p_roll O zeroT p) g == wexpect (p_enum O zeroT p) g)%Q.
Proof. exact @p_roll_expect. Qed.
Print Assumptions C11_leaf_pool.

(* filters may look at provenance - which source an outcome belongs to (RFilterBy is part of the syntax the
   theorems above quantify over); a provenance-blind one is the value filter *)
Theorem C11_provenance_blind_filter_is_value_filter : forall {T} (O : ord T) (zeroT : T) (addT : T -> T -> T)
  (pred : T -> bool) (l : list (rtree (T:=T))),
  denote O zeroT addT (RFilterBy (fun _ => pred) l) = denote O zeroT addT (RFilter pred l).
Proof. exact @filterby_const_is_filter_denote. Qed.
Print Assumptions C11_provenance_blind_filter_is_value_filter.
(* two dice showing the same value, kept or dropped according to where they come from: sampling and enumeration *)
Example C11_provenance_filter_nonvacuous :
  let r := RFilterBy (fun i v => if Nat.eqb i 0 then Veqb v (qc 6 1) else Vleb (qc 4 1) v) [RVal (qc 5 1); RVal (qc 5 1)] in
  snd (run (roll_v VO (qc 0 1) Qcanon.Qcplus r) []) = Some (Ok [None; Some (qc 5 1)]) /\
  map fst (denote VO (qc 0 1) Qcanon.Qcplus r) = [Ok [None; Some (qc 5 1)]].
Proof. split; vm_compute; reflexivity. Qed.

(* non-vacuity: 2@d2 keep-highest, re-rolled once when it shows 2 (REPLACE): scripted run and enumeration *)
Example C11_nonvacuous :
  let d2 := RH [(qc 1 1, 1%Z); (qc 2 1, 1%Z)] in
  let t := RSubst (fun v => if Veqb v (qc 2 1) then EReroll else EKeep) false 1
             (RSelect [Idx (-1)] [RRepeat 2 d2]) in
  snd (run (roll_v VO (qc 0 1) Qcanon.Qcplus t) [0%nat; 1%nat; 0%nat; 0%nat]) = Some (Ok [None; Some (qc 1 1)]) /\
  proper t.
Proof. split; [vm_compute; reflexivity|]. cbn. repeat split; try (intros oc [E|[E|[]]]; subst; cbn; discriminate). Qed.
