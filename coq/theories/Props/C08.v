(* C08 - explode and substitute equal the truncated re-roll process.
   Only property theorems here; proofs are in Proofs/LimitsP.v. *)
From Coq Require Import ZArith QArith List.
From Dyce Require Import Base.Sums Base.Order Base.Hist Base.QcOrd Model.Select Model.Pool Model.Equality Model.Arith
  Model.Eval Model.Explode Proofs.LimitsP Proofs.EvalP Exec.Run Proofs.QcInstanceP.
Import ListNotations.

(* Reading guide.  [reroll h pred k] is the literal re-roll recursion with k re-rolls left: roll h;
   for each face f of count c, if the predicate holds for f the branch is the histogram of
   (a fresh [reroll h pred (k-1)]) + f, otherwise the outcome f; branches are combined by
   aggregate_weighted (the exact mixture, C06_aggregate_is_mixture); with no re-roll left the roll
   is kept as is.  [subst_k] is the same recursion for H.substitute with coalesce applied to every
   expanded branch and the original histogram as sentinel. *)
Section C08.
Context {T : Type} (O : ord T) (pad : T) (addT : T -> T -> T).
Variable vadd : val (T:=T) -> val (T:=T) -> res (val (T:=T)).
Hypothesis vadd_hist_out : forall h o, vadd (VHist h) (VOut o) = Ok (VHist (humapT O (fun x => addT x o) h)).

Theorem C08_explode_is_truncated_reroll : forall fuel h pred n isz infv, (n < fuel)%nat ->
  explode O pad vadd fuel h pred (Some (RInt (Z.of_nat n))) isz infv =
  match reroll O addT h pred n with Ok x => Ok (lowest O x) | Err e => Err e end.
Proof. exact (explode_int O pad addT vadd vadd_hist_out). Qed.
Theorem C08_explode_default_limit : forall fuel h pred isz infv,
  explode O pad vadd fuel h pred None isz infv = explode O pad vadd fuel h pred (Some (RInt 1)) isz infv.
Proof. exact (explode_default O pad vadd). Qed.
Theorem C08_explode_limit_zero : forall fuel h pred isz infv, (0 < fuel)%nat ->
  explode O pad vadd fuel h pred (Some (RInt 0)) isz infv = Ok (lowest O h).
Proof. exact (explode_zero O pad vadd). Qed.
Theorem C08_explode_empty : forall fuel pred lim isz infv l, (0 < fuel)%nat ->
  match lim with Some r => norm_limit r | None => Ok (LInt 1) end = Ok l ->
  explode O pad vadd fuel [] pred lim isz infv = Ok [].
Proof. exact (explode_empty O pad vadd). Qed.

Theorem C08_substitute_is_truncated_recursion : forall h0 expand coalesce,
  (forall v o e, coalesce v o = Err e -> e <> RecursionError) ->
  forall fuel n, (n < fuel)%nat ->
  substitute O pad fuel h0 expand coalesce (Some (RInt (Z.of_nat n))) None =
  match subst_k O h0 expand coalesce n h0 with Ok x => Ok (lowest O x) | Err e => Err e end.
Proof. exact (substitute_int O pad). Qed.
Theorem C08_both_limits_rejected : forall fuel h expand coalesce a b,
  substitute O pad fuel h expand coalesce (Some a) (Some b) = Err ValueError.
Proof. exact (substitute_both_limits O pad). Qed.

(* the deprecated H.explode / P.explode: evaluation.explode with the default predicate whenever the
   histogram does not have exactly one face ... *)
Theorem C08_deprecated_spelling_max_depth : forall maxT h md isz infv fuel, length h <> 1%nat ->
  h_explode O pad vadd fuel maxT h md None = explode O pad vadd fuel h (max_pred O maxT) md isz infv.
Proof. exact (h_explode_max_depth O pad vadd). Qed.
Theorem C08_deprecated_spelling_precision : forall maxT h pl isz infv fuel, length h <> 1%nat ->
  h_explode O pad vadd fuel maxT h None (Some pl) = explode O pad vadd fuel h (max_pred O maxT) (Some pl) isz infv.
Proof. exact (h_explode_precision O pad vadd). Qed.
(* ... and for a single-faced histogram it returns the histogram unchanged (the documented guard) *)
Theorem C08_deprecated_spelling_single_face : forall fuel maxT h md l, length h = 1%nat ->
  (forall oc, In oc h -> (0 <= snd oc)%Z) -> (0 < fuel)%nat ->
  match md with Some r => norm_limit r | None => Ok (LInt 1) end = Ok l ->
  h_explode O pad vadd fuel maxT h md None = Ok (lowest O h).
Proof. exact (h_explode_single_face O pad vadd). Qed.
End C08.
Print Assumptions C08_explode_is_truncated_reroll.
Print Assumptions C08_explode_default_limit.
Print Assumptions C08_explode_limit_zero.
Print Assumptions C08_explode_empty.
Print Assumptions C08_substitute_is_truncated_recursion.
Print Assumptions C08_both_limits_rejected.
Print Assumptions C08_deprecated_spelling_max_depth.
Print Assumptions C08_deprecated_spelling_precision.
Print Assumptions C08_deprecated_spelling_single_face.

(* for exactly the function the correspondence check evaluates: the executable `vadd` satisfies the
   hypothesis only on histograms without negative counts (on a negative count the constructor inside
   H.map raises), which is all a well-formed input ever produces *)
Theorem C08_explode_is_truncated_reroll_executable_instance : forall pad fuel h pred n isz infv,
  nonneg h -> (n < fuel)%nat ->
  explode VO pad vadd fuel h pred (Some (RInt (Z.of_nat n))) isz infv =
  match reroll VO Vadd h pred n with Ok x => Ok (lowest VO x) | Err e => Err e end.
Proof. exact explode_int_Qc. Qed.
Print Assumptions C08_explode_is_truncated_reroll_executable_instance.

(* K1 (known finding, not repaired): on a single-faced histogram the deprecated spelling and
   evaluation.explode differ - the full statement "H.explode equals evaluation.explode" is refuted *)
Theorem C08_deprecated_spelling_refuted_on_single_face :
  exists h, h_explode VO Vzero vadd FUEL maxQ h (Some (RInt 2)) None = Ok [(qc 3 1, 1%Z)] /\
            chk_explode_default h (Some (RInt 2)) None (Ok [(qc 9 1, 1%Z)]) = 0%nat.
Proof. exists [(qc 3 1, 1%Z)]. split; vm_compute; reflexivity. Qed.
Print Assumptions C08_deprecated_spelling_refuted_on_single_face.

Example C08_nonvacuous :
  chk_explode [(qc 1 1, 1%Z); (qc 2 1, 1%Z)] [qc 2 1] (Some (RInt 2)) None
    (Ok [(qc 1 1, 4%Z); (qc 3 1, 2%Z); (qc 5 1, 1%Z); (qc 6 1, 1%Z)]) = 0%nat.
Proof. vm_compute. reflexivity. Qed.
