(* C12 - Rolls are complete, consistent records of how results were produced.
   Only property theorems here; proofs are in Proofs/RollRecordP.v.  The record is the object graph in
   a heap (Model/RollRecord.v): [complete hp rid] says (1) every outcome reachable through `sources`
   from roll rid's outcomes is associated with a roll and (2) every live outcome of every source roll
   of rid is one of rid's outcomes or a (transitive) source of one. *)
From Coq Require Import ZArith List Bool.
From Dyce Require Import Base.Sums Base.Order Base.Hist Base.QcOrd Model.Select Model.Pool Model.Roller
  Model.RollRecord Proofs.RollRecordP.
Import ListNotations.

(* for EVERY roller tree, EVERY script of answers of the random source and every starting heap: the
   roll returned is complete, carries the producing roller's position, and every roll allocated on the
   way is complete - or is a copy made by Roll.adopt inside SubstitutionRoller, for which clause (1)
   holds and which copies a complete roll (roll_ok) *)
Theorem C12_records_complete : forall {T} (O : ord T) (zeroT : T) (addT : T -> T -> T)
  (r : rtree (T:=T)) p hp script asks hp' rid,
  heap_ok hp -> (forall rid0, (rid0 < length (hrolls hp))%nat -> roll_ok hp rid0) ->
  run (roll_m O zeroT addT p r hp) script = (asks, Some (Ok (hp', rid))) ->
  heap_ok hp' /\ extends hp hp' /\ (length (hrolls hp) <= rid < length (hrolls hp'))%nat /\
  rpath (get_r hp' rid) = p /\ complete hp' rid /\
  (forall rid0, (rid0 < length (hrolls hp'))%nat -> roll_ok hp' rid0).
Proof. exact @roll_m_complete. Qed.
Print Assumptions C12_records_complete.

(* every outcome reachable through `sources` from ANY allocated roll is associated with a roll *)
Theorem C12_every_reachable_outcome_has_a_roll : forall {T} (O : ord T) (zeroT : T) (addT : T -> T -> T)
  (r : rtree (T:=T)) p hp script asks hp' rid,
  heap_ok hp -> (forall rid0, (rid0 < length (hrolls hp))%nat -> roll_ok hp rid0) ->
  run (roll_m O zeroT addT p r hp) script = (asks, Some (Ok (hp', rid))) ->
  forall rid0 i j, (rid0 < length (hrolls hp'))%nat -> In i (rout (get_r hp' rid0)) -> reach hp' i j -> owned hp' j.
Proof. exact @roll_m_all_owned. Qed.
Print Assumptions C12_every_reachable_outcome_has_a_roll.

(* without SubstitutionRoller every allocated roll is complete *)
Theorem C12_records_complete_without_substitution : forall {T} (O : ord T) (zeroT : T) (addT : T -> T -> T)
  (r : rtree (T:=T)), no_subst r -> forall p hp script asks hp' rid,
  heap_ok hp -> (forall rid0, (rid0 < length (hrolls hp))%nat -> complete hp rid0) ->
  run (roll_m O zeroT addT p r hp) script = (asks, Some (Ok (hp', rid))) ->
  heap_ok hp' /\ extends hp hp' /\ (length (hrolls hp) <= rid < length (hrolls hp'))%nat /\
  rpath (get_r hp' rid) = p /\
  (forall rid0, (rid0 < length (hrolls hp'))%nat -> complete hp' rid0).
Proof. exact @roll_m_complete_no_subst. Qed.
Print Assumptions C12_records_complete_without_substitution.

(* REFUTED (known finding K2, confirmed on the implementation): "every allocated roll is complete" fails
   for the copy Roll.adopt makes of an expansion roll whose roller passes outcomes of its own sources
   through - witness RSubst (always re-roll) APPEND depth 1 over a PoolRoller of one ValueRoller *)
Theorem C12_full_statement_refuted : forall {T} (O : ord T) (zeroT : T) (addT : T -> T -> T),
  ~ (forall (r : rtree (T:=T)) p hp script asks hp' rid,
       heap_ok hp -> (forall rid0, (rid0 < length (hrolls hp))%nat -> complete hp rid0) ->
       run (roll_m O zeroT addT p r hp) script = (asks, Some (Ok (hp', rid))) ->
       heap_ok hp' /\ extends hp hp' /\ (length (hrolls hp) <= rid < length (hrolls hp'))%nat /\
       rpath (get_r hp' rid) = p /\
       (forall rid0, (rid0 < length (hrolls hp'))%nat -> complete hp' rid0)).
Proof. exact @roll_m_complete_original_fails. Qed.
Print Assumptions C12_full_statement_refuted.

(* source rolls are the rolls of the child rollers in source order (n-fold for n@r, one per expansion and
   all by the source roller for substitution) *)
Theorem C12_source_rolls_in_order : forall {T} (O : ord T) (zeroT : T) (addT : T -> T -> T)
  (r : rtree (T:=T)) p hp script asks hp' rid, heap_ok hp ->
  run (roll_m O zeroT addT p r hp) script = (asks, Some (Ok (hp', rid))) -> src_paths r p hp' rid.
Proof. exact @roll_m_source_paths. Qed.
Print Assumptions C12_source_rolls_in_order.

(* the values recorded in the roll are exactly those of the value-level semantics (C11): derived values
   are the node's operation on the recorded source values; outcomes()/total() = the live values *)
Theorem C12_recorded_values : forall {T} (O : ord T) (zeroT : T) (addT : T -> T -> T)
  (r : rtree (T:=T)) p hp script asks hp' rid, heap_ok hp ->
  run (roll_m O zeroT addT p r hp) script = (asks, Some (Ok (hp', rid))) ->
  exists asks', run (roll_v O zeroT addT r) script
                = (asks', Some (Ok (map (fun i => ov (get_o hp' i)) (rout (get_r hp' rid))))) /\ asks' = asks.
Proof. exact @roll_m_values. Qed.
Print Assumptions C12_recorded_values.
