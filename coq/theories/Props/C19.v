(* C19 - Invalid arguments are rejected, never turned into a wrong histogram.
   Only property theorems here; proofs are in Proofs/GuardsP.v (limits also Proofs/LimitsP.v).
   [integral_value a] is the integer the argument equals, if any, defined by cases on the argument
   grammar independently of the guards; [bt] says whether runtime type-checking is on. *)
From Coq Require Import ZArith QArith List Bool.
From Dyce Require Import Base.Hist Model.Eval Model.Guards Proofs.GuardsP.
Open Scope Z_scope.

Theorem C19_integral_values_accepted : forall bt a z, integral_value a = Some z -> as_int_arg bt a = Ok z.
Proof. exact as_int_accepts. Qed.
Print Assumptions C19_integral_values_accepted.
Theorem C19_non_integral_rejected : forall bt a, integral_value a = None ->
  as_int_arg bt a = Err (if bt && negb (is_number a) then TypeCheck else TypeError).
Proof. exact as_int_rejects. Qed.
Print Assumptions C19_non_integral_rejected.

Theorem C19_count_accepted : forall bt a z, integral_value a = Some z -> 0 <= z -> count_guard bt a = Ok z.
Proof. exact count_accepts. Qed.
Print Assumptions C19_count_accepted.
Theorem C19_negative_count_rejected : forall bt a z, integral_value a = Some z -> z < 0 -> count_guard bt a = Err ValueError.
Proof. exact count_negative_rejected. Qed.
Print Assumptions C19_negative_count_rejected.
Theorem C19_non_integral_count_rejected : forall bt a, integral_value a = None ->
  exists e, count_guard bt a = Err e /\ (e = TypeError \/ e = TypeCheck).
Proof. exact count_nonintegral_rejected. Qed.
Print Assumptions C19_non_integral_count_rejected.

Theorem C19_repetition_accepted : forall bt a z, integral_value a = Some z -> 0 <= z -> matmul_guard bt a = Ok z.
Proof. exact matmul_accepts. Qed.
Print Assumptions C19_repetition_accepted.
Theorem C19_negative_repetition_rejected : forall bt a z, integral_value a = Some z -> z < 0 -> matmul_guard bt a = Err ValueError.
Proof. exact matmul_negative_rejected. Qed.
Print Assumptions C19_negative_repetition_rejected.
Theorem C19_non_integral_repetition_rejected : forall bt a, integral_value a = None ->
  exists e, matmul_guard bt a = Err e /\ (e = TypeError \/ e = TypeCheck).
Proof. exact matmul_nonintegral_rejected. Qed.
Print Assumptions C19_non_integral_repetition_rejected.

Theorem C19_position_in_range : forall bt n a i, is_index a = true -> integral_value a = Some i ->
  - Z.of_nat n <= i < Z.of_nat n ->
  index_guard bt n a = Ok (Z.to_nat (if i <? 0 then i + Z.of_nat n else i)).
Proof. exact index_in_range. Qed.
Print Assumptions C19_position_in_range.
Theorem C19_position_out_of_range_rejected : forall bt n a i, is_index a = true -> integral_value a = Some i ->
  (i < - Z.of_nat n \/ Z.of_nat n <= i) -> index_guard bt n a = Err IndexError.
Proof. exact index_out_of_range. Qed.
Print Assumptions C19_position_out_of_range_rejected.
Theorem C19_non_index_position_rejected : forall bt n a, is_index a = false ->
  index_guard bt n a = Err (if bt then TypeCheck else TypeError).
Proof. exact index_non_index_rejected. Qed.
Print Assumptions C19_non_index_position_rejected.

Theorem C19_illegal_integral_limit_rejected : forall bt a z, limit_arg a = Some (RInt z) -> z < -1 -> limit_guard bt a = Err ValueError.
Proof. exact limit_illegal_int_rejected. Qed.
Print Assumptions C19_illegal_integral_limit_rejected.
Theorem C19_illegal_fractional_limit_rejected : forall bt a q,
  (limit_arg a = Some (RFrac q) \/ limit_arg a = Some (RFloat q)) -> (q <= 0 \/ 1 <= q)%Q -> limit_guard bt a = Err ValueError.
Proof. exact limit_fraction_outside_rejected. Qed.
Print Assumptions C19_illegal_fractional_limit_rejected.
Theorem C19_non_number_limit_rejected : forall bt, limit_guard bt AStr = Err (if bt then TypeCheck else TypeError).
Proof. exact limit_non_number_rejected. Qed.
Print Assumptions C19_non_number_limit_rejected.
Theorem C19_whole_limit_accepted : forall bt a z, limit_arg a = Some (RInt z) -> 0 <= z -> limit_guard bt a = Ok (Some (LInt z)).
Proof. exact limit_valid_int. Qed.
Print Assumptions C19_whole_limit_accepted.

Theorem C19_parity_accepted : forall a z, integral_value a = Some z -> parity_guard a = Ok (Z.even z).
Proof. exact parity_accepts. Qed.
Print Assumptions C19_parity_accepted.
Theorem C19_parity_non_integral_rejected : forall a, integral_value a = None -> parity_guard a = Err TypeError.
Proof. exact parity_rejects. Qed.
Print Assumptions C19_parity_non_integral_rejected.
Theorem C19_inverted_within_rejected : forall lo hi, (hi < lo)%Q -> within_guard lo hi = Err ValueError.
Proof. exact within_inverted_rejected. Qed.
Print Assumptions C19_inverted_within_rejected.
Theorem C19_both_limits_rejected : both_limits_guard true true = Err ValueError.
Proof. exact both_limits_rejected. Qed.
Print Assumptions C19_both_limits_rejected.
Theorem C19_none_outcome_without_sources_rejected : roll_outcome_guard true 0 = Err ValueError.
Proof. exact roll_outcome_none_rejected. Qed.
Print Assumptions C19_none_outcome_without_sources_rejected.

Example C19_nonvacuous :
  matmul_guard false (AFloat (4 # 2)) = Ok 2 /\ matmul_guard false (AFrac (5 # 2)) = Err TypeError /\
  matmul_guard true AStr = Err TypeCheck /\ index_guard false 3 (AFloat (2 # 1)) = Err TypeError /\
  index_guard false 3 (ABool true) = Ok 1%nat /\ count_guard false (ANpInt (-1)) = Err ValueError.
Proof. repeat split; reflexivity. Qed.
