(* C10/C11: sampling a roller tree (Model/Roller.v, choice trees answered by a fair chooser) has
   exactly the distribution obtained by enumeration (Spec/RollerSpec.v). *)
From Coq Require Import ZArith QArith List Bool Arith Lia Setoid.
From Dyce Require Import Base.Sums Base.Order Base.Hist Base.Brute Model.Select Model.Pool
  Model.Roller Spec.RollerSpec.
Import ListNotations.
Open Scope Z_scope.

(* ---------- finite sums of rationals ---------- *)
Section QSum.
Context {A : Type}.
Definition qsum (F : A -> Q) (l : list A) : Q := fold_right Qplus 0%Q (map F l).

Lemma qsum_nil F : qsum F [] = 0%Q. Proof. reflexivity. Qed.
Lemma qsum_cons F x l : qsum F (x :: l) = (F x + qsum F l)%Q. Proof. reflexivity. Qed.

Lemma qsum_ext_in l F G : (forall x, In x l -> (F x == G x)%Q) -> (qsum F l == qsum G l)%Q.
Proof. induction l as [|x l IH]; intros H; [reflexivity|]. rewrite !qsum_cons.
  rewrite (H x (or_introl eq_refl)). rewrite IH by (intros y Hy; apply H; right; exact Hy). reflexivity. Qed.
Lemma qsum_ext l F G : (forall x, (F x == G x)%Q) -> (qsum F l == qsum G l)%Q.
Proof. intros H. apply qsum_ext_in. intros x _. apply H. Qed.
Lemma qsum_scale c F l : (qsum (fun x => c * F x) l == c * qsum F l)%Q.
Proof. induction l as [|x l IH]; [rewrite !qsum_nil; ring|]. rewrite !qsum_cons, IH. ring. Qed.
Lemma qsum_app F l1 l2 : (qsum F (l1 ++ l2) == qsum F l1 + qsum F l2)%Q.
Proof. induction l1 as [|x l1 IH]; cbn [app]; [rewrite qsum_nil; ring|]. rewrite !qsum_cons, IH. ring. Qed.
Lemma qsum_zero l : (qsum (fun _ => 0) l == 0)%Q.
Proof. induction l as [|x l IH]; [reflexivity|]. rewrite qsum_cons, IH. ring. Qed.
Lemma qsum_inject_Z (f : A -> Z) l : (qsum (fun x => inject_Z (f x)) l == inject_Z (lsum f l))%Q.
Proof. induction l as [|x l IH]; [reflexivity|]. rewrite qsum_cons. cbn [lsum]. rewrite inject_Z_plus, IH. reflexivity. Qed.
End QSum.
Lemma qsum_map {A B} (g : A -> B) (F : B -> Q) l : qsum F (map g l) = qsum (fun x => F (g x)) l.
Proof. unfold qsum. rewrite map_map. reflexivity. Qed.
Lemma qsum_flat_map {A B} (g : A -> list B) (F : B -> Q) l :
  (qsum F (flat_map g l) == qsum (fun x => qsum F (g x)) l)%Q.
Proof. induction l as [|x l IH]; [reflexivity|]. cbn [flat_map]. rewrite qsum_app, qsum_cons, IH. reflexivity. Qed.

Lemma qsum_seq_nth {A} (F : A -> Q) (l : list A) d : (qsum (fun i => F (nth i l d)) (seq 0 (length l)) == qsum F l)%Q.
Proof. induction l as [|x l IH]; [reflexivity|]. cbn [length seq]. rewrite <- seq_shift.
  rewrite !qsum_cons. cbn [nth]. rewrite qsum_map. cbn [nth]. rewrite IH. reflexivity. Qed.

Lemma inject_Z_nz z : z <> 0 -> ~ (inject_Z z == 0)%Q.
Proof. intros H E. apply H. unfold Qeq in E. cbn [Qnum Qden inject_Z] in E. lia. Qed.

(* ---------- the enumeration monad ---------- *)
Section WL.
Lemma wexpect_qsum {A} (l : wl A) g : wexpect l g = qsum (fun ac => (snd ac * g (fst ac))%Q) l.
Proof. reflexivity. Qed.
Lemma wweight_qsum {A} (l : wl A) : wweight l = qsum snd l.
Proof. reflexivity. Qed.

Lemma wexpect_ext {A} (l : wl A) g g' : (forall x, (g x == g' x)%Q) -> (wexpect l g == wexpect l g')%Q.
Proof. intros H. rewrite !wexpect_qsum. apply qsum_ext. intros ac. rewrite H. reflexivity. Qed.
Lemma wexpect_ret {A} (a : A) g : (wexpect (wret a) g == g (Ok a))%Q.
Proof. unfold wret. rewrite wexpect_qsum, qsum_cons, qsum_nil. cbn [fst snd]. ring. Qed.
Lemma wexpect_wbind {A B} (l : wl A) (f : A -> wl B) g :
  (wexpect (wbind l f) g == wexpect l (fun ra => match ra with Ok a => wexpect (f a) g | Err e => g (Err e) end))%Q.
Proof. unfold wbind. rewrite !wexpect_qsum, qsum_flat_map. apply qsum_ext. intros [[a|e] c]; cbn [fst snd].
  - rewrite qsum_map. cbn [fst snd]. rewrite wexpect_qsum, <- qsum_scale. apply qsum_ext. intros bd. ring.
  - rewrite qsum_cons, qsum_nil. cbn [fst snd]. ring. Qed.
Lemma wweight_wexpect {A} (l : wl A) : (wweight l == wexpect l (fun _ => 1))%Q.
Proof. rewrite wweight_qsum, wexpect_qsum. apply qsum_ext. intros ac. ring. Qed.
Lemma mass_ret {A} (a : A) : (wweight (wret a) == 1)%Q.
Proof. rewrite wweight_wexpect, wexpect_ret. reflexivity. Qed.
Lemma mass_bind {A B} (l : wl A) (f : A -> wl B) :
  (wweight l == 1)%Q -> (forall a, (wweight (f a) == 1)%Q) -> (wweight (wbind l f) == 1)%Q.
Proof. intros Hl Hf. rewrite wweight_wexpect, wexpect_wbind. rewrite <- Hl, (wweight_wexpect l).
  apply wexpect_ext. intros [a|e]; [|reflexivity]. rewrite <- wweight_wexpect. apply Hf. Qed.
Lemma mass_wseq {A} (ls : list (wl A)) : Forall (fun l => (wweight l == 1)%Q) ls -> (wweight (wseq ls) == 1)%Q.
Proof. induction 1 as [|l ls Hl Hls IH]; cbn [wseq]; [apply mass_ret|].
  apply mass_bind; [exact Hl|]. intros a. apply mass_bind; [exact IH|]. intros r. apply mass_ret. Qed.
End WL.

Section RP.
Context {T : Type} (O : ord T).
Variable zeroT : T.
Variable addT : T -> T -> T.
Local Notation tree := (@tree T).
Local Notation rtree := (@rtree T).
Local Notation rollv := (@rollv T).
Local Notation hist := (hist T).
Local Notation expansion := (@expansion T).

(* ---------- expectation over choice trees ---------- *)
Lemma expect_Ask {A} pop w (k : nat -> tree A) g :
  expect (Ask pop w k) g =
  qsum (fun i => (inject_Z (nth i w 0%Z) / inject_Z (lsum (fun x => x) w) * expect (k i) g)%Q) (seq 0 (length w)).
Proof. reflexivity. Qed.

Lemma expect_ext {A} (t : tree A) g g' : (forall x, (g x == g' x)%Q) -> (expect t g == expect t g')%Q.
Proof. intros H. induction t as [a|e|pop w k IH]; cbn [expect]; [apply H|apply H|].
  fold (qsum (fun i => (inject_Z (nth i w 0%Z) / inject_Z (lsum (fun x => x) w) * expect (k i) g)%Q) (seq 0 (length w))).
  fold (qsum (fun i => (inject_Z (nth i w 0%Z) / inject_Z (lsum (fun x => x) w) * expect (k i) g')%Q) (seq 0 (length w))).
  apply qsum_ext. intros i. rewrite IH. reflexivity. Qed.

Lemma expect_bind {A B} (t : tree A) (f : A -> tree B) g :
  (expect (bind t f) g == expect t (fun ra => match ra with Ok a => expect (f a) g | Err e => g (Err e) end))%Q.
Proof. induction t as [a|e|pop w k IH]; cbn [bind]; [reflexivity|reflexivity|].
  rewrite !expect_Ask. apply qsum_ext. intros i. rewrite IH. reflexivity. Qed.

Lemma prob_expect {A} (t : tree A) P :
  (prob t P == expect t (fun ra => match ra with Ok a => if P a then 1 else 0 | Err _ => 0 end))%Q.
Proof. induction t as [a|e|pop w k IH]; cbn [prob]; [reflexivity|reflexivity|].
  rewrite expect_Ask.
  fold (qsum (fun i => (inject_Z (nth i w 0%Z) / inject_Z (lsum (fun x => x) w) * prob (k i) P)%Q) (seq 0 (length w))).
  apply qsum_ext. intros i. rewrite IH. reflexivity. Qed.

(* sampling then continuing = enumerating then continuing *)
Lemma bind_corr {A B} (t : tree A) (l : wl A) (f : A -> tree B) (F : A -> wl B) :
  (forall g, (expect t g == wexpect l g)%Q) ->
  (forall a g, (expect (f a) g == wexpect (F a) g)%Q) ->
  forall g, (expect (bind t f) g == wexpect (wbind l F) g)%Q.
Proof. intros Ht Hf g. rewrite expect_bind, wexpect_wbind, Ht. apply wexpect_ext.
  intros [a|e]; [apply Hf|reflexivity]. Qed.
Lemma ret_corr {A} (a : A) g : (expect (Ret (T:=T) a) g == wexpect (wret a) g)%Q.
Proof. rewrite wexpect_ret. reflexivity. Qed.

(* ---------- H.roll ---------- *)
Lemma lsum_id_map_snd (h : hist) : lsum (fun x => x) (map snd h) = total h.
Proof. unfold total. rewrite lsum_map. reflexivity. Qed.

(* holds for every histogram (the identity is formal; nonneg/0<total make it a probability) *)
Lemma h_roll_expect_all (h : hist) g : (expect (h_roll zeroT h) g == wexpect (h_enum zeroT h) g)%Q.
Proof. unfold h_roll, h_enum. destruct (total h =? 0); [apply ret_corr|].
  rewrite expect_Ask, lsum_id_map_snd, map_length. cbn [expect].
  rewrite wexpect_qsum, qsum_map. cbn [fst snd].
  rewrite <- (qsum_seq_nth (fun oc => (inject_Z (snd oc) / inject_Z (total h) * g (Ok (fst oc)))%Q) h (zeroT, 0)).
  apply qsum_ext. intros i. unfold keys.
  change 0 with (snd (zeroT, 0)) at 1. rewrite (map_nth (@snd T Z)).
  change zeroT with (fst (zeroT, 0)) at 2. rewrite (map_nth (@fst T Z)). reflexivity. Qed.

Theorem h_roll_expect (h : hist) g : nonneg h -> 0 < total h ->
  (expect (h_roll zeroT h) g == wexpect (h_enum zeroT h) g)%Q.
Proof. intros _ _. apply h_roll_expect_all. Qed.

Lemma h_enum_pos (h : hist) : total h <> 0 ->
  h_enum zeroT h = map (fun oc => (Ok (fst oc), (inject_Z (snd oc) / inject_Z (total h))%Q)) h.
Proof. intros H. unfold h_enum. destruct (Z.eqb_spec (total h) 0); [contradiction|reflexivity]. Qed.

Theorem h_roll_prob (h : hist) P : nonneg h -> 0 < total h ->
  (prob (h_roll zeroT h) P == inject_Z (lsum (fun oc => if P (fst oc) then snd oc else 0%Z) h) / inject_Z (total h))%Q.
Proof. intros _ Ht. rewrite prob_expect, h_roll_expect_all, h_enum_pos by lia.
  rewrite wexpect_qsum, qsum_map. cbn [fst snd].
  rewrite <- qsum_inject_Z. unfold Qdiv. rewrite (Qmult_comm (qsum _ h)), <- qsum_scale.
  apply qsum_ext. intros oc. destruct (P (fst oc)); [ring|]. change (inject_Z 0) with 0%Q. ring. Qed.

Theorem h_roll_zero_total (h : hist) : total h = 0 -> h_roll zeroT h = Ret zeroT.
Proof. intros H. unfold h_roll. rewrite H. reflexivity. Qed.

Lemma h_enum_mass (h : hist) : (wweight (h_enum zeroT h) == 1)%Q.
Proof. unfold h_enum. destruct (Z.eqb_spec (total h) 0) as [E|N]; [apply mass_ret|].
  rewrite wweight_qsum, qsum_map. cbn [snd]. unfold Qdiv.
  rewrite (qsum_ext h _ (fun oc => (/ inject_Z (total h) * inject_Z (snd oc))%Q)) by (intros oc; ring).
  rewrite qsum_scale, qsum_inject_Z. fold (total h). field. apply inject_Z_nz. exact N. Qed.

(* ---------- P.roll ---------- *)
Lemma p_roll_raw_expect (p : list hist) g : (expect (p_roll_raw zeroT p) g == wexpect (p_enum_raw zeroT p) g)%Q.
Proof. revert g. induction p as [|h p IH]; intros g; cbn [p_roll_raw p_enum_raw]; [apply ret_corr|].
  apply bind_corr; [intros g'; apply h_roll_expect_all|]. intros x g'.
  apply bind_corr; [exact IH|]. intros l g''. apply ret_corr. Qed.
Lemma p_roll_expect_all (p : list hist) g : (expect (p_roll O zeroT p) g == wexpect (p_enum O zeroT p) g)%Q.
Proof. unfold p_roll, p_enum. apply bind_corr; [intros g'; apply p_roll_raw_expect|]. intros l g'. apply ret_corr. Qed.
Theorem p_roll_expect (p : list hist) g : Forall (fun h => nonneg h /\ 0 < total h) p ->
  (expect (p_roll O zeroT p) g == wexpect (p_enum O zeroT p) g)%Q.
Proof. intros _. apply p_roll_expect_all. Qed.

Lemma p_enum_raw_mass (p : list hist) : (wweight (p_enum_raw zeroT p) == 1)%Q.
Proof. induction p as [|h p IH]; cbn [p_enum_raw]; [apply mass_ret|].
  apply mass_bind; [apply h_enum_mass|]. intros x. apply mass_bind; [exact IH|]. intros l. apply mass_ret. Qed.
Lemma p_enum_mass (p : list hist) : (wweight (p_enum O zeroT p) == 1)%Q.
Proof. unfold p_enum. apply mass_bind; [apply p_enum_raw_mass|]. intros l. apply mass_ret. Qed.

Lemma ptotal_nz (p : list hist) : Forall (fun h => total h <> 0) p -> ptotal p <> 0.
Proof. induction 1 as [|h p Hh Hp IH]; cbn [ptotal fold_right]; [lia|]. fold (ptotal p). nia. Qed.

Lemma p_enum_raw_pbsum (p : list hist) : Forall (fun h => total h <> 0) p -> forall F : list T -> Z,
  (wexpect (p_enum_raw zeroT p) (fun ra => match ra with Ok l => inject_Z (F (isort O l)) | Err _ => 0 end)
   == inject_Z (pbsum O p F) / inject_Z (ptotal p))%Q.
Proof. induction 1 as [|h p Hh Hp IH]; intros F; cbn [p_enum_raw pbsum ptotal fold_right].
  - rewrite wexpect_ret. cbn [isort]. change (inject_Z 1) with 1%Q. field.
  - fold (ptotal p). rewrite wexpect_wbind, h_enum_pos by exact Hh.
    rewrite wexpect_qsum, qsum_map. cbn [fst snd].
    rewrite (qsum_ext h _ (fun oc => ((/ inject_Z (total h) * / inject_Z (ptotal p)) *
               inject_Z (snd oc * pbsum O p (fun l => F (insert O (fst oc) l))))%Q)).
    + rewrite qsum_scale, qsum_inject_Z, inject_Z_mult. field.
      split; apply inject_Z_nz; [apply ptotal_nz; exact Hp|exact Hh].
    + intros oc. rewrite wexpect_wbind.
      rewrite (wexpect_ext (p_enum_raw zeroT p) _
                 (fun ra => match ra with Ok l => inject_Z (F (insert O (fst oc) (isort O l))) | Err _ => 0%Q end)).
      2:{ intros [l|e]; [|reflexivity]. rewrite wexpect_ret. reflexivity. }
      rewrite (IH (fun l => F (insert O (fst oc) l))). rewrite inject_Z_mult. field.
      split; apply inject_Z_nz; [apply ptotal_nz; exact Hp|exact Hh]. Qed.

Theorem p_roll_prob (p : list hist) P : Forall (fun h => nonneg h /\ 0 < total h) p ->
  (prob (p_roll O zeroT p) P == inject_Z (pbsum O p (fun l => if P l then 1%Z else 0%Z)) / inject_Z (ptotal p))%Q.
Proof. intros Hp. rewrite prob_expect, p_roll_expect_all. unfold p_enum. rewrite wexpect_wbind.
  rewrite <- p_enum_raw_pbsum.
  2:{ apply Forall_impl with (2 := Hp). intros h [_ Hh]. lia. }
  apply wexpect_ext. intros [l|e]; [|reflexivity]. rewrite wexpect_ret. destruct (P (isort O l)); reflexivity. Qed.

(* exactly one question per die, in order *)
Lemma run_bind_assoc {A B C} (t : tree A) (f : A -> tree B) (f' : B -> tree C) script :
  run (bind (bind t f) f') script = run (bind t (fun a => bind (f a) f')) script.
Proof. revert script. induction t as [a|e|pop w k IH]; intros script; cbn [bind]; [reflexivity|reflexivity|].
  destruct script as [|i rest]; cbn [run]; [reflexivity|]. rewrite IH. reflexivity. Qed.

Lemma p_roll_raw_asks {B} (p : list hist) : forall (f : list T -> tree B) script,
  (forall l s, fst (run (f l) s) = []) ->
  Forall (fun h => total h <> 0) p -> length script = length p ->
  fst (run (bind (p_roll_raw zeroT p) f) script) = map (fun h => (keys h, map snd h)) p.
Proof. induction p as [|h p IH]; intros f script Hf Hp Hlen; cbn [p_roll_raw].
  - cbn [bind map]. apply Hf.
  - inversion Hp as [|h' p' Hh Hp']; subst h' p'.
    destruct script as [|i rest]; [discriminate|]. cbn [length] in Hlen.
    unfold h_roll. destruct (Z.eqb_spec (total h) 0) as [E|_]; [contradiction|].
    cbn [bind run].
    rewrite run_bind_assoc.
    pose proof (IH (fun l => bind (Ret (nth i (keys h) zeroT :: l)) f) rest) as IH'.
    destruct (run (bind (p_roll_raw zeroT p) _) rest) as [asks r] eqn:E.
    cbn [fst map]. f_equal.
    change asks with (fst (asks, r)). rewrite <- E. apply IH; [|exact Hp'|lia].
    intros l s. cbn [bind]. apply Hf. Qed.

Theorem p_roll_asks (p : list hist) script : Forall (fun h => total h <> 0) p -> length script = length p ->
  fst (run (p_roll O zeroT p) script) = map (fun h => (keys h, map snd h)) p.
Proof. intros Hp Hlen. unfold p_roll. apply p_roll_raw_asks; [|exact Hp|exact Hlen]. intros l s. reflexivity. Qed.

(* ---------- sequences of sources ---------- *)
Definition corr {A} (t : tree A) (l : wl A) : Prop := forall g, (expect t g == wexpect l g)%Q.

Lemma seq_corr {A} (ts : list (tree A)) (ls : list (wl A)) :
  Forall2 corr ts ls -> corr (seq_tree ts) (wseq ls).
Proof. induction 1 as [|t l ts ls Htl Hrest IH]; cbn [seq_tree wseq]; [intros g; apply ret_corr|].
  intros g. apply bind_corr; [exact Htl|]. intros a g'.
  apply bind_corr; [exact IH|]. intros r g''. apply ret_corr. Qed.
Lemma Forall2_map_corr {X A} (ft : X -> tree A) (fw : X -> wl A) (l : list X) :
  Forall (fun x => corr (ft x) (fw x)) l -> Forall2 corr (map ft l) (map fw l).
Proof. induction 1 as [|x l Hx Hl IH]; cbn [map]; constructor; assumption. Qed.
Lemma Forall2_repeat_corr {A} (t : tree A) (l : wl A) n : corr t l -> Forall2 corr (repeat t n) (repeat l n).
Proof. intros H. induction n as [|n IH]; cbn [repeat]; constructor; assumption. Qed.

Lemma select_corr w vals : corr (select_values O w vals) (select_enum O w vals).
Proof. intros g. unfold select_values, select_enum. destruct (resolve _ w) as [idx|e]; [apply ret_corr|].
  cbn [expect]. rewrite wexpect_qsum, qsum_cons, qsum_nil. cbn [fst snd]. ring. Qed.
Lemma select_mass w vals : (wweight (select_enum O w vals) == 1)%Q.
Proof. unfold select_enum. destruct (resolve _ w) as [idx|e]; [apply mass_ret|].
  rewrite wweight_qsum, qsum_cons, qsum_nil. cbn [snd]. ring. Qed.

(* ---------- substitution: the nested fixpoints of roll_v / denote, named ---------- *)
Section Sub.
Variables (s : tree rollv) (sd : wl rollv) (expand : T -> expansion) (append : bool).

Definition each_t (rec : rollv -> tree rollv) : list T -> tree rollv :=
  fix each (vals : list T) : tree rollv :=
    match vals with
    | [] => Ret []
    | v :: rest =>
        bind (match expand v with
              | EKeep => Ret [Some v]
              | EOut v' => Ret [Some v']
              | EReroll => bind s (fun rv' => bind (rec rv') (fun sub => Ret ((if append then Some v else None) :: sub)))
              end)
             (fun here => bind (each rest) (fun more => Ret (here ++ more)))
    end.
Fixpoint exp_t (left : nat) (rv : rollv) {struct left} : tree rollv :=
  match left with
  | 0%nat => Ret (map (@Some T) (live rv))
  | Datatypes.S left' => each_t (exp_t left') (live rv)
  end.

Definition each_w (rec : rollv -> wl rollv) : list T -> wl rollv :=
  fix each (vals : list T) : wl rollv :=
    match vals with
    | [] => wret []
    | v :: rest =>
        wbind (match expand v with
               | EKeep => wret [Some v]
               | EOut v' => wret [Some v']
               | EReroll => wbind sd (fun rv' => wbind (rec rv') (fun sub => wret ((if append then Some v else None) :: sub)))
               end)
              (fun here => wbind (each rest) (fun more => wret (here ++ more)))
    end.
Fixpoint exp_w (left : nat) (rv : rollv) {struct left} : wl rollv :=
  match left with
  | 0%nat => wret (map (@Some T) (live rv))
  | Datatypes.S left' => each_w (exp_w left') (live rv)
  end.

Hypothesis Hs : corr s sd.

Lemma each_corr rec_t rec_w : (forall rv, corr (rec_t rv) (rec_w rv)) ->
  forall vals, corr (each_t rec_t vals) (each_w rec_w vals).
Proof. intros Hrec. induction vals as [|v rest IH]; cbn [each_t each_w]; [intros g; apply ret_corr|].
  intros g. apply bind_corr.
  - intros g'. destruct (expand v) as [|v'|]; [apply ret_corr|apply ret_corr|].
    apply bind_corr; [exact Hs|]. intros rv' g''. apply bind_corr; [apply Hrec|]. intros sub g3. apply ret_corr.
  - intros here g'. apply bind_corr; [exact IH|]. intros more g''. apply ret_corr. Qed.
Lemma exp_corr left : forall rv, corr (exp_t left rv) (exp_w left rv).
Proof. induction left as [|left IH]; intros rv; cbn [exp_t exp_w]; [intros g; apply ret_corr|].
  apply each_corr. exact IH. Qed.

Hypothesis Hm : (wweight sd == 1)%Q.
Lemma each_mass rec_w : (forall rv, (wweight (rec_w rv) == 1)%Q) -> forall vals, (wweight (each_w rec_w vals) == 1)%Q.
Proof. intros Hrec. induction vals as [|v rest IH]; cbn [each_w]; [apply mass_ret|].
  apply mass_bind.
  - destruct (expand v) as [|v'|]; [apply mass_ret|apply mass_ret|].
    apply mass_bind; [exact Hm|]. intros rv'. apply mass_bind; [apply Hrec|]. intros sub. apply mass_ret.
  - intros here. apply mass_bind; [exact IH|]. intros more. apply mass_ret. Qed.
Lemma exp_mass left : forall rv, (wweight (exp_w left rv) == 1)%Q.
Proof. induction left as [|left IH]; intros rv; cbn [exp_w]; [apply mass_ret|]. apply each_mass. exact IH. Qed.
End Sub.

Lemma roll_v_subst e a d r :
  roll_v O zeroT addT (RSubst e a d r) = bind (roll_v O zeroT addT r) (exp_t (roll_v O zeroT addT r) e a d).
Proof. reflexivity. Qed.
Lemma denote_subst e a d r :
  denote O zeroT addT (RSubst e a d r) = wbind (denote O zeroT addT r) (exp_w (denote O zeroT addT r) e a d).
Proof. reflexivity. Qed.

(* ---------- induction on roller trees (nested through lists) ---------- *)
Section RInd.
Variable P : rtree -> Prop.
Hypothesis HVal : forall v, P (RVal v).
Hypothesis HH : forall h, P (RH h).
Hypothesis HP : forall p, P (RP p).
Hypothesis HPool : forall l, Forall P l -> P (RPool l).
Hypothesis HRepeat : forall n r, P r -> P (RRepeat n r).
Hypothesis HBin : forall op a b, P a -> P b -> P (RBinOp op a b).
Hypothesis HUn : forall op a, P a -> P (RUnOp op a).
Hypothesis HSelect : forall w l, Forall P l -> P (RSelect w l).
Hypothesis HFilter : forall pred l, Forall P l -> P (RFilter pred l).
Hypothesis HFilterBy : forall pred l, Forall P l -> P (RFilterBy pred l).
Hypothesis HSubst : forall e a d r, P r -> P (RSubst e a d r).
Fixpoint rtree_ind2 (r : rtree) : P r :=
  let all := fix all (l : list rtree) : Forall P l :=
    match l with [] => Forall_nil P | x :: t => Forall_cons x (rtree_ind2 x) (all t) end in
  match r with
  | RVal v => HVal v
  | RH h => HH h
  | RP p => HP p
  | RPool l => HPool l (all l)
  | RRepeat n r' => HRepeat n r' (rtree_ind2 r')
  | RBinOp op a b => HBin op a b (rtree_ind2 a) (rtree_ind2 b)
  | RUnOp op a => HUn op a (rtree_ind2 a)
  | RSelect w l => HSelect w l (all l)
  | RFilter pred l => HFilter pred l (all l)
  | RFilterBy pred l => HFilterBy pred l (all l)
  | RSubst e a d r' => HSubst e a d r' (rtree_ind2 r')
  end.
End RInd.

(* ---------- the main theorem ---------- *)
Section AllP.
Context {X : Type} (P : X -> Prop).
Fixpoint allP (l : list X) : Prop := match l with [] => True | x :: t => P x /\ allP t end.
End AllP.

(* every histogram at a leaf has counts >= 0 (and a positive total inside pools) *)
Fixpoint proper (r : rtree) : Prop :=
  match r with
  | RVal _ => True
  | RH h => nonneg h
  | RP p => Forall (fun h => nonneg h /\ 0 < total h) p
  | RPool l => allP proper l
  | RRepeat _ r' => proper r'
  | RBinOp _ a b => proper a /\ proper b
  | RUnOp _ a => proper a
  | RSelect _ l => allP proper l
  | RFilter _ l => allP proper l
  | RFilterBy _ l => allP proper l
  | RSubst _ _ _ r' => proper r'
  end.

(* sampling = enumeration, for EVERY roller tree (errors included; the identity does not need [proper]) *)
Theorem roll_v_denote_all (r : rtree) : corr (roll_v O zeroT addT r) (denote O zeroT addT r).
Proof. induction r as [v|h|p|l IH|n r IH|op a b IHa IHb|op a IH|w l IH|pred l IH|pred l IH|e a d r IH] using rtree_ind2.
  - intros g. apply ret_corr.
  - intros g. cbn [roll_v denote]. apply bind_corr; [intros g'; apply h_roll_expect_all|]. intros x g'. apply ret_corr.
  - intros g. cbn [roll_v denote]. apply bind_corr; [intros g'; apply p_roll_expect_all|]. intros x g'. apply ret_corr.
  - intros g. cbn [roll_v denote]. apply bind_corr; [apply seq_corr, Forall2_map_corr; exact IH|]. intros x g'. apply ret_corr.
  - intros g. cbn [roll_v denote]. apply bind_corr; [apply seq_corr, Forall2_repeat_corr; exact IH|]. intros x g'. apply ret_corr.
  - intros g. cbn [roll_v denote]. apply bind_corr; [exact IHa|]. intros ra g'.
    apply bind_corr; [exact IHb|]. intros rb g''. apply ret_corr.
  - intros g. cbn [roll_v denote]. apply bind_corr; [exact IH|]. intros ra g'. apply ret_corr.
  - intros g. cbn [roll_v denote]. apply bind_corr; [apply seq_corr, Forall2_map_corr; exact IH|]. intros x g'. apply select_corr.
  - intros g. cbn [roll_v denote]. apply bind_corr; [apply seq_corr, Forall2_map_corr; exact IH|]. intros x g'. apply ret_corr.
  - intros g. cbn [roll_v denote]. apply bind_corr; [apply seq_corr, Forall2_map_corr; exact IH|]. intros x g'. apply ret_corr.
  - intros g. rewrite roll_v_subst, denote_subst. apply bind_corr; [exact IH|]. intros rv g'. apply exp_corr. exact IH.
Qed.

Theorem roll_v_denote (r : rtree) g : proper r ->
  (expect (roll_v O zeroT addT r) g == wexpect (denote O zeroT addT r) g)%Q.
Proof. intros _. apply roll_v_denote_all. Qed.

Corollary roll_v_prob (r : rtree) P : proper r ->
  (prob (roll_v O zeroT addT r) P ==
   wexpect (denote O zeroT addT r) (fun ra => match ra with Ok a => if P a then 1 else 0 | Err _ => 0 end))%Q.
Proof. intros _. rewrite prob_expect. apply roll_v_denote_all. Qed.

(* total mass one *)
Theorem denote_mass_one_all (r : rtree) : (wweight (denote O zeroT addT r) == 1)%Q.
Proof. induction r as [v|h|p|l IH|n r IH|op a b IHa IHb|op a IH|w l IH|pred l IH|pred l IH|e a d r IH] using rtree_ind2.
  - apply mass_ret.
  - cbn [denote]. apply mass_bind; [apply h_enum_mass|]. intros x. apply mass_ret.
  - cbn [denote]. apply mass_bind; [apply p_enum_mass|]. intros x. apply mass_ret.
  - cbn [denote]. apply mass_bind; [apply mass_wseq; apply Forall_map; exact IH|]. intros x. apply mass_ret.
  - cbn [denote]. apply mass_bind; [apply mass_wseq; apply Forall_forall; intros x Hx; apply repeat_spec in Hx; subst x; exact IH|].
    intros x. apply mass_ret.
  - cbn [denote]. apply mass_bind; [exact IHa|]. intros ra. apply mass_bind; [exact IHb|]. intros rb. apply mass_ret.
  - cbn [denote]. apply mass_bind; [exact IH|]. intros ra. apply mass_ret.
  - cbn [denote]. apply mass_bind; [apply mass_wseq; apply Forall_map; exact IH|]. intros x. apply select_mass.
  - cbn [denote]. apply mass_bind; [apply mass_wseq; apply Forall_map; exact IH|]. intros x. apply mass_ret.
  - cbn [denote]. apply mass_bind; [apply mass_wseq; apply Forall_map; exact IH|]. intros x. apply mass_ret.
  - rewrite denote_subst. apply mass_bind; [exact IH|]. intros rv. apply exp_mass. exact IH.
Qed.
Theorem denote_mass_one (r : rtree) : proper r -> (wweight (denote O zeroT addT r) == 1)%Q.
Proof. intros _. apply denote_mass_one_all. Qed.

(* ---------- the provenance-aware filter with a predicate that ignores the provenance ---------- *)
Lemma tagged_from_snd {A B} (f : A -> list B) l : forall k, map snd (tagged_from f k l) = flat_map f l.
Proof. induction l as [|x t IH]; intros k; [reflexivity|]. cbn [tagged_from flat_map].
  rewrite map_app, map_map, IH. cbn [snd]. rewrite map_id. reflexivity. Qed.
Lemma filter_by_const (pred : T -> bool) (rs : list rollv) :
  filter_by (fun _ => pred) rs = map (fun v => if pred v then Some v else None) (flat_map (@live T) rs).
Proof. unfold filter_by. rewrite <- (tagged_from_snd (@live T) rs 0%nat), map_map. reflexivity. Qed.

(* choice trees that differ only in extensionally equal continuations.  (Leibniz equality of two trees
   [Ask pop w k] needs k = k', i.e. functional extensionality, as soon as a source asks a question.) *)
Inductive teq {A} : tree A -> tree A -> Prop :=
| teq_ret a : teq (Ret a) (Ret a)
| teq_fail e : teq (Fail e) (Fail e)
| teq_ask pop w k k' : (forall i, teq (k i) (k' i)) -> teq (Ask pop w k) (Ask pop w k').
Lemma teq_refl {A} (t : tree A) : teq t t.
Proof. induction t as [a|e|pop w k IH]; constructor. exact IH. Qed.
Lemma teq_bind {A B} (t : tree A) (f f' : A -> tree B) : (forall a, teq (f a) (f' a)) -> teq (bind t f) (bind t f').
Proof. intros Hf. induction t as [a|e|pop w k IH]; cbn [bind]; [apply Hf|constructor|constructor; exact IH]. Qed.
Lemma teq_run {A} (t t' : tree A) : teq t t' -> forall script, run t script = run t' script.
Proof. induction 1 as [a|e|pop w k k' Hk IH]; intros script; [reflexivity|reflexivity|].
  destruct script as [|i rest]; cbn [run]; [reflexivity|]. rewrite IH. reflexivity. Qed.
Lemma teq_expect {A} (t t' : tree A) : teq t t' -> forall g, expect t g = expect t' g.
Proof. induction 1 as [a|e|pop w k k' Hk IH]; intros g; [reflexivity|reflexivity|].
  cbn [expect]. f_equal. apply map_ext. intros i. rewrite IH. reflexivity. Qed.
Lemma teq_eq_funext {A} (t t' : tree A) :
  (forall (k k' : nat -> tree A), (forall i, k i = k' i) -> k = k') -> teq t t' -> t = t'.
Proof. intros Hext. induction 1 as [a|e|pop w k k' Hk IH]; [reflexivity|reflexivity|]. f_equal. apply Hext. exact IH. Qed.

Lemma wbind_ext {A B} (l : wl A) (f f' : A -> wl B) : (forall a, f a = f' a) -> wbind l f = wbind l f'.
Proof. intros Hf. unfold wbind. apply flat_map_ext. intros [[a|e] c]; cbn [fst snd]; [rewrite Hf|]; reflexivity. Qed.

(* RFilterBy with a predicate that does not look at the source index is RFilter.
   Sampling: the two trees ask the same questions and differ only in the (pointwise equal) final
   continuation, hence [teq]; consequences: the same scripted runs, the same expectations, and Leibniz
   equality exactly when continuations are extensional. *)
Lemma filterby_const_is_filter (pred : T -> bool) (l : list rtree) :
  teq (roll_v O zeroT addT (RFilterBy (fun _ => pred) l)) (roll_v O zeroT addT (RFilter pred l)).
Proof. cbn [roll_v]. apply teq_bind. intros rs. rewrite filter_by_const. apply teq_refl. Qed.
Lemma filterby_const_is_filter_run (pred : T -> bool) (l : list rtree) script :
  run (roll_v O zeroT addT (RFilterBy (fun _ => pred) l)) script = run (roll_v O zeroT addT (RFilter pred l)) script.
Proof. apply teq_run, filterby_const_is_filter. Qed.
Lemma filterby_const_is_filter_expect (pred : T -> bool) (l : list rtree) g :
  expect (roll_v O zeroT addT (RFilterBy (fun _ => pred) l)) g = expect (roll_v O zeroT addT (RFilter pred l)) g.
Proof. apply teq_expect, filterby_const_is_filter. Qed.
Lemma filterby_const_is_filter_funext (pred : T -> bool) (l : list rtree) :
  (forall (k k' : nat -> tree rollv), (forall i, k i = k' i) -> k = k') ->
  roll_v O zeroT addT (RFilterBy (fun _ => pred) l) = roll_v O zeroT addT (RFilter pred l).
Proof. intros Hext. apply teq_eq_funext; [exact Hext|apply filterby_const_is_filter]. Qed.
(* Enumeration: plain equality *)
Lemma filterby_const_is_filter_denote (pred : T -> bool) (l : list rtree) :
  denote O zeroT addT (RFilterBy (fun _ => pred) l) = denote O zeroT addT (RFilter pred l).
Proof. cbn [denote]. apply wbind_ext. intros rs. rewrite filter_by_const. reflexivity. Qed.

End RP.

Print Assumptions expect_bind.
Print Assumptions expect_ext.
Print Assumptions prob_expect.
Print Assumptions h_roll_expect.
Print Assumptions h_roll_prob.
Print Assumptions h_roll_zero_total.
Print Assumptions p_roll_expect.
Print Assumptions p_roll_prob.
Print Assumptions p_roll_asks.
Print Assumptions roll_v_denote.
Print Assumptions roll_v_denote_all.
Print Assumptions roll_v_prob.
Print Assumptions denote_mass_one.
Print Assumptions denote_mass_one_all.
Print Assumptions filterby_const_is_filter.
Print Assumptions filterby_const_is_filter_run.
Print Assumptions filterby_const_is_filter_expect.
Print Assumptions filterby_const_is_filter_funext.
Print Assumptions filterby_const_is_filter_denote.

(* sanity checks on the two trees for which un-normalised integer weights would have gone wrong:
   a reroll that changes the number of draws, and a selection that fails on some branches only *)
From Dyce Require Import Base.ZOrd.
Example subst_reroll_half :
  let d2 : hist Z := [(1, 1); (2, 1)] in
  let r := RSubst (fun v => if v =? 1 then EReroll else EKeep) false 1 (RH d2) in
  (wexpect (denote ZO 0%Z Z.add r) (fun ra => match ra with Ok [Some 2%Z] => 1 | _ => 0 end) == 1 # 2)%Q.
Proof. vm_compute. reflexivity. Qed.
Example partial_failure_half :
  let d2 : hist Z := [(1, 1); (2, 1)] in
  let r := RBinOp Z.add (RSelect [Idx 0] [RFilter (fun v => v =? 1) [RH d2]]) (RH d2) in
  (wexpect (denote ZO 0%Z Z.add r) (fun ra => match ra with Err IndexError => 1 | _ => 0 end) == 1 # 2)%Q.
Proof. vm_compute. reflexivity. Qed.

(* RFilterBy sees provenance: two equal values, from source 0 and from source 1; "keep a 2 only if it comes
   from source 0" keeps the first and drops the second, which no value-only predicate (RFilter) can do *)
Example filterby_provenance_run :
  let r := RFilterBy (fun i v => if Nat.eqb i 0 then Z.eqb v 2 else false) [RVal 2%Z; RVal 2%Z] in
  run (roll_v ZO 0%Z Z.add r) [] = ([], Some (Ok [Some 2%Z; None])).
Proof. vm_compute. reflexivity. Qed.
Example filterby_provenance_denote :
  let r := RFilterBy (fun i v => if Nat.eqb i 0 then Z.eqb v 2 else false) [RVal 2%Z; RVal 2%Z] in
  map fst (denote ZO 0%Z Z.add r) = [Ok [Some 2%Z; None]] /\ (wweight (denote ZO 0%Z Z.add r) == 1)%Q.
Proof. vm_compute. split; reflexivity. Qed.
Example filter_no_provenance :
  forall pred, exists o, run (roll_v ZO 0%Z Z.add (RFilter pred [RVal 2%Z; RVal 2%Z])) [] = ([], Some (Ok [o; o])).
Proof. intros pred. exists (if pred 2%Z then Some 2%Z else None). reflexivity. Qed.
(* a wild die (source 0, kept only on 6) and a skill die (source 1, kept on 4+) both showing 5 *)
Example filterby_wild_die :
  let r := RFilterBy (fun i v => if Nat.eqb i 0 then Z.eqb v 6 else Z.leb 4 v) [RVal 5%Z; RVal 5%Z] in
  run (roll_v ZO 0%Z Z.add r) [] = ([], Some (Ok [None; Some 5%Z])).
Proof. vm_compute. reflexivity. Qed.
