(* Laws of successive draws that follow from the exact bookkeeping (C18):
   a deck drawn against itself is exhausted with every outcome kept at zero, putting the drawn
   cards back restores every count, the order of two draws does not matter, and two draws equal
   the draw of the combined request. *)
From Coq Require Import ZArith List Bool Lia.
From Dyce Require Import Base.Sums Base.Order Base.Hist Model.Draw Proofs.DrawP.
Import ListNotations.
Open Scope Z_scope.

Section P.
Context {T : Type} (O : ord T).
Local Notation cnt := (cnt O).

Lemma draw_dichotomy (h : hist T) r : (exists h', draw O h r = Ok h') \/ (exists e, draw O h r = Err e).
Proof. destruct (draw O h r) as [a|e]; [left; exists a; reflexivity | right; exists e; reflexivity]. Qed.

Definition negreq (r : list (T * Z)) : list (T * Z) := map (fun oc => (fst oc, - snd oc)) r.

(* drawing the whole deck succeeds, leaves every original outcome with count zero and total 0 *)
Theorem draw_exhaust h : wf O h ->
  exists h', draw O h h = Ok h' /\ (forall z, cnt h' z = 0) /\ total h' = 0 /\
             (forall y, In y (keys h') <-> In y (keys h)) /\ wf O h'.
Proof.
  intros Hw. destruct (draw_dichotomy h h) as [[h' E]|He].
  - exists h'. split; [exact E|]. destruct (draw_ok O h h h' E) as (Hc & Hk & Hw' & Ht).
    split; [intros z; rewrite Hc; lia|]. split; [lia|]. split; [|exact Hw'].
    intros y. rewrite Hk. tauto.
  - apply (draw_err_iff O h h Hw) in He. destruct He as [o Ho]. lia.
Qed.

(* putting back exactly what was drawn restores every count and the total *)
Theorem draw_undo h r h' : wf O h -> draw O h r = Ok h' ->
  exists h'', draw O h' (negreq r) = Ok h'' /\ (forall z, cnt h'' z = cnt h z) /\ total h'' = total h.
Proof.
  intros Hw E. destruct (draw_ok O h r h' E) as (Hc & _ & Hw' & Ht).
  destruct (draw_dichotomy h' (negreq r)) as [[h'' E2]|He].
  - exists h''. split; [exact E2|]. destruct (draw_ok O h' (negreq r) h'' E2) as (Hc2 & _ & _ & Ht2).
    split.
    + intros z. rewrite Hc2, Hc. unfold negreq. rewrite cnt_map_neg. lia.
    + assert (Hn : total (negreq r) = - total r).
      { unfold negreq, total. clear. induction r as [|[o c] r IH]; cbn [map lsum fst snd]; [reflexivity|].
        rewrite IH. ring. }
      lia.
  - apply (draw_err_iff O h' (negreq r) Hw') in He. destruct He as [o Ho].
    unfold negreq in Ho. rewrite cnt_map_neg, Hc in Ho.
    destruct Hw as [_ Hn]. pose proof (cnt_nonneg O h o Hn). lia.
Qed.

(* two successive draws: order irrelevant for the resulting counts and totals *)
Theorem draws_commute h r1 r2 a b : wf O h ->
  draws O h [r1; r2] = Ok a -> draws O h [r2; r1] = Ok b ->
  (forall z, cnt a z = cnt b z) /\ total a = total b.
Proof.
  intros Hw Ea Eb.
  destruct (draws_total O h [r1; r2] a Hw Ea) as (Ta & _ & Ca).
  destruct (draws_total O h [r2; r1] b Hw Eb) as (Tb & _ & Cb).
  cbn [lsum] in *. split; [intros z; rewrite Ca, Cb; lia | lia].
Qed.

(* two successive draws succeed only if the combined request does, and then give the same counts *)
Theorem draws_combined h r1 r2 a : wf O h -> draws O h [r1; r2] = Ok a ->
  exists c, draw O h (r1 ++ r2) = Ok c /\ (forall z, cnt c z = cnt a z) /\ total c = total a.
Proof.
  intros Hw Ea. destruct (draws_total O h [r1; r2] a Hw Ea) as (Ta & [_ Na] & Ca). cbn [lsum] in *.
  destruct (draw_dichotomy h (r1 ++ r2)) as [[c E]|He].
  - exists c. split; [exact E|]. destruct (draw_ok O h (r1 ++ r2) c E) as (Hc & _ & _ & Ht).
    split.
    + intros z. rewrite Hc, Ca, cnt_app. lia.
    + unfold total in *. rewrite lsum_app in Ht. lia.
  - apply (draw_err_iff O h (r1 ++ r2) Hw) in He. destruct He as [o Ho].
    rewrite cnt_app in Ho. pose proof (cnt_nonneg O a o Na). rewrite Ca in H. lia.
Qed.
End P.

(* link to C05: zero_fill never alters the distribution - its result is == to the original histogram *)
From Dyce Require Import Model.Equality Proofs.EqualityP.
Section Z.
Context {T : Type} (O : ord T).
Theorem zero_fill_heq (h : hist T) outs : wf O h -> wf O (zero_fill O h outs) /\ heq O (zero_fill O h outs) h = true.
Proof.
  intros Hw. destruct (zero_fill_spec O h outs) as (Hc & Ht & _).
  assert (Hw' : wf O (zero_fill O h outs)).
  { split.
    - unfold zero_fill. apply (accumulate_spec O h _).
    - unfold zero_fill, accumulate. apply nonneg_mk. intros oc Hin. apply in_app_or in Hin. destruct Hin as [Hin|Hin].
      + destruct Hw as [_ Hn]. apply Hn. exact Hin.
      + pose proof (nonneg_mk O (map (fun o => (o, 0)) outs)) as Hz.
        apply Hz; [|exact Hin]. intros oc' Hin'. apply in_map_iff in Hin'. destruct Hin' as (o & <- & _). cbn. lia. }
  split; [exact Hw'|]. apply heq_cnt_ext; assumption.
Qed.
End Z.
