(* Fidelity of the histogram constructor: H.__init__ sorts the (outcome, count) items
   as tuples and accumulates them into a dict (insertion order = first occurrence).
   That procedure, transcribed literally as [init_items], yields exactly the model's
   [mk] (sorted-insert accumulation). *)
From Coq Require Import ZArith List Lia Bool Arith Permutation Sorted.
From Dyce Require Import Base.Sums Base.Order Base.Hist Model.Pool.
Import ListNotations.
Open Scope Z_scope.

Section I.
Context {T : Type} (O : ord T).
Local Notation hist := (hist T).

(* tuple comparison of (outcome, count) pairs *)
Definition pair_leb (a b : T * Z) : bool :=
  if eqb O (fst a) (fst b) then (snd a <=? snd b)%Z else leb O (fst a) (fst b).

(* d[outcome] += count, inserting at the END when the outcome is new (dict insertion order) *)
Fixpoint dict_add (d : hist) (o : T) (c : Z) : hist :=
  match d with
  | [] => [(o, c)]
  | (o', c') :: d' => if eqb O o o' then (o', (c' + c)%Z) :: d' else (o', c') :: dict_add d' o c
  end.

Definition init_items (l : list (T * Z)) : hist :=
  fold_left (fun d oc => dict_add d (fst oc) (snd oc)) (isort_by pair_leb l) [].

(* ---------- the sort ---------- *)
Definition ole (a b : T * Z) : Prop := leb O (fst a) (fst b) = true.
Definition osorted (l : list (T * Z)) : Prop := StronglySorted ole l.

Lemma insert_by_perm {A} (le : A -> A -> bool) x l : Permutation (x :: l) (insert_by le x l).
Proof. induction l as [|y t IH]; cbn [insert_by]; [reflexivity|].
  destruct (le x y); [reflexivity|]. rewrite perm_swap. constructor. exact IH. Qed.
Lemma isort_by_perm {A} (le : A -> A -> bool) l : Permutation l (isort_by le l).
Proof. unfold isort_by. induction l as [|x t IH]; cbn [fold_right]; [reflexivity|].
  rewrite <- insert_by_perm. constructor. exact IH. Qed.

Lemma pair_leb_true a b : pair_leb a b = true -> ole a b.
Proof. unfold pair_leb, ole. destruct (eqb_spec O (fst a) (fst b)) as [E|N]; [|auto].
  intros _. rewrite E. apply (leb_refl O). Qed.
Lemma pair_leb_false a b : pair_leb a b = false -> ole b a.
Proof. unfold pair_leb, ole. destruct (eqb_spec O (fst a) (fst b)) as [E|N].
  - intros _. rewrite E. apply (leb_refl O).
  - intros H. destruct (leb_total O (fst a) (fst b)) as [L|L]; [congruence|exact L]. Qed.

Lemma insert_by_osorted x l : osorted l -> osorted (insert_by pair_leb x l).
Proof.
  unfold osorted. induction 1 as [|y t Hs IH Hy]; cbn [insert_by].
  - constructor; constructor.
  - destruct (pair_leb x y) eqn:E.
    + apply pair_leb_true in E. constructor; [constructor; assumption|]. constructor; [exact E|].
      apply Forall_impl with (2 := Hy). intros z Hz. unfold ole in *. exact (leb_trans O _ _ _ E Hz).
    + apply pair_leb_false in E. constructor; [exact IH|].
      apply (Permutation_Forall (insert_by_perm pair_leb x t)). constructor; assumption.
Qed.
Lemma isort_by_osorted l : osorted (isort_by pair_leb l).
Proof. unfold isort_by. induction l as [|x t IH]; cbn [fold_right]; [constructor|].
  apply insert_by_osorted. exact IH. Qed.

(* ---------- the dict accumulation ---------- *)
Lemma cnt_dict_add d o c z : cnt O (dict_add d o c) z = cnt O d z + (if eqb O o z then c else 0).
Proof. induction d as [|[o' c'] d IH]; cbn [dict_add cnt]; [ring|].
  destruct (eqb_spec O o o') as [E|N].
  - subst o'. cbn [cnt]. destruct (eqb O o z); ring.
  - cbn [cnt]. rewrite IH. ring. Qed.

Lemma in_keys_dict_add d o c y : In y (keys (dict_add d o c)) <-> y = o \/ In y (keys d).
Proof. unfold keys. induction d as [|[o' c'] d IH]; cbn [dict_add map fst In]; [intuition congruence|].
  destruct (eqb_spec O o o') as [E|N]; cbn [map fst In]; [subst; intuition congruence|].
  rewrite IH. intuition congruence. Qed.

Lemma sasc_dict_add d o c : sasc O (keys d) -> (forall y, In y (keys d) -> leb O y o = true) ->
  sasc O (keys (dict_add d o c)).
Proof.
  unfold keys. induction d as [|[o' c'] d IH]; cbn [dict_add map fst sasc In].
  - intros _ _. split; [intros y []|exact I].
  - intros [Hlt Hs] Hle. destruct (eqb_spec O o o') as [E|N]; cbn [map fst sasc].
    + split; assumption.
    + split; [|apply IH; [exact Hs|intros y Hy; apply Hle; right; exact Hy]].
      intros y Hy. apply (in_keys_dict_add d o c y) in Hy. destruct Hy as [Hy|Hy]; [|apply Hlt; exact Hy].
      subst y. apply ltb_intro; [apply Hle; left; reflexivity|congruence].
Qed.

Local Notation step := (fun (d : hist) (oc : T * Z) => dict_add d (fst oc) (snd oc)).

Lemma cnt_fold l : forall d z, cnt O (fold_left step l d) z = cnt O d z + cnt O l z.
Proof. induction l as [|[o c] l IH]; intros d z; cbn [fold_left cnt fst snd]; [ring|].
  rewrite IH, cnt_dict_add. ring. Qed.

Lemma in_keys_fold l : forall d y, In y (keys (fold_left step l d)) <-> In y (keys d) \/ In y (map fst l).
Proof. induction l as [|[o c] l IH]; intros d y; cbn [fold_left map fst snd In]; [tauto|].
  rewrite IH, in_keys_dict_add. intuition congruence. Qed.

Lemma sasc_fold l : osorted l -> forall d, sasc O (keys d) ->
  (forall y x, In y (keys d) -> In x l -> leb O y (fst x) = true) ->
  sasc O (keys (fold_left step l d)).
Proof.
  unfold osorted. induction 1 as [|[o c] l Hs IH Hx]; intros d Hd Hle; cbn [fold_left fst snd]; [exact Hd|].
  apply IH.
  - apply sasc_dict_add; [exact Hd|]. intros y Hy. apply (Hle y (o, c)); [exact Hy|left; reflexivity].
  - intros y x Hy Hin. apply in_keys_dict_add in Hy. destruct Hy as [Hy|Hy].
    + subst y. rewrite Forall_forall in Hx. apply (Hx x Hin).
    + apply Hle; [exact Hy|right; exact Hin].
Qed.

Theorem init_items_is_mk l : init_items l = mk O l.
Proof.
  unfold init_items. rewrite (mk_perm O _ _ (isort_by_perm pair_leb l)).
  set (s := isort_by pair_leb l).
  assert (Hs : sasc O (keys (fold_left step s []))).
  { apply sasc_fold; [apply isort_by_osorted|exact I|intros y x []]. }
  apply hist_ext with (O := O); [exact Hs|apply sasc_mk| |].
  - apply sasc_unique with (O := O); [exact Hs|apply sasc_mk|]. intros y.
    rewrite in_keys_fold, in_keys_mk. cbn [keys map In]. tauto.
  - intros z. rewrite cnt_fold, cnt_mk, <- cnt_as_lsum. cbn [cnt]. ring.
Qed.

(* corollaries: the literal constructor output is canonical *)
Corollary init_items_sasc l : sasc O (keys (init_items l)).
Proof. rewrite init_items_is_mk. apply sasc_mk. Qed.
Corollary init_items_perm l l' : Permutation l l' -> init_items l = init_items l'.
Proof. intros P. rewrite !init_items_is_mk. apply mk_perm. exact P. Qed.

End I.

Print Assumptions init_items_is_mk.
Print Assumptions init_items_sasc.
Print Assumptions init_items_perm.
