(* P.h( *which ) equals brute force: the histogram returned by [p_h] counts, for every
   outcome z, the rolls of the pool whose selected positions (of the ascending-sorted
   roll) sum to z.  Covers the two short-circuits (no selection; every position taken
   m times) and the enumeration through rolls_with_counts.  Also: invariance under
   equivalent selections, the plain sum, order statistics, and the commutation of
   sorting with monotone relabellings at the level of the brute-force specification. *)
From Coq Require Import ZArith List Lia Bool Arith Permutation Sorted.
From Dyce Require Import Base.Sums Base.Order Base.Hist Base.Brute Model.Select Model.Pool.
From Dyce Require Import Proofs.SelectP Proofs.RwcP Proofs.RepeatP.
Import ListNotations. Open Scope Z_scope.

(* ====================================================================== *)
(* relabelling: sorting commutes with monotone maps                         *)
(* ====================================================================== *)
Section Relabel.
Context {T : Type} (O : ord T).
Local Notation hist := (hist T).

Definition relabel (g : T -> T) (h : hist) : hist := map (fun oc => (g (fst oc), snd oc)) h.

Lemma sorted_map_incr g l : (forall x y, leb O x y = true -> leb O (g x) (g y) = true) ->
  sorted O l -> sorted O (map g l).
Proof.
  intros Hg. unfold sorted. induction 1 as [|x l Hs IH Hx]; cbn [map]; [constructor|].
  constructor; [exact IH|]. apply Forall_forall. intros y Hy.
  apply in_map_iff in Hy. destruct Hy as [y' [E Hy']]. subst y.
  rewrite Forall_forall in Hx. apply Hg. apply Hx. exact Hy'.
Qed.

Lemma sorted_rev_map_decr g l : (forall x y, leb O x y = true -> leb O (g y) (g x) = true) ->
  sorted O l -> sorted O (rev (map g l)).
Proof.
  intros Hg. unfold sorted. induction 1 as [|x l Hs IH Hx]; cbn [map rev]; [constructor|].
  apply sorted_app; [exact IH|constructor; [constructor|constructor]|].
  intros a b Ha [Hb|[]]. subst b. apply in_rev in Ha.
  apply in_map_iff in Ha. destruct Ha as [y [E Hy]]. subst a.
  rewrite Forall_forall in Hx. unfold le. apply Hg. apply Hx. exact Hy.
Qed.

Lemma insert_map_incr g x l : (forall x y, leb O x y = true -> leb O (g x) (g y) = true) ->
  sorted O l -> insert O (g x) (map g l) = map g (insert O x l).
Proof.
  intros Hg Hs. apply (sorted_perm_unique O).
  - apply insert_sorted. apply sorted_map_incr; assumption.
  - apply sorted_map_incr; [exact Hg|]. apply insert_sorted. exact Hs.
  - rewrite <- (insert_perm O (g x) (map g l)).
    change (g x :: map g l) with (map g (x :: l)). apply Permutation_map. apply insert_perm.
Qed.

Lemma insert_rev_map_decr g x l : (forall x y, leb O x y = true -> leb O (g y) (g x) = true) ->
  sorted O l -> insert O (g x) (rev (map g l)) = rev (map g (insert O x l)).
Proof.
  intros Hg Hs. apply (sorted_perm_unique O).
  - apply insert_sorted. apply sorted_rev_map_decr; assumption.
  - apply sorted_rev_map_decr; [exact Hg|]. apply insert_sorted. exact Hs.
  - rewrite <- (insert_perm O (g x) (rev (map g l))).
    rewrite <- (Permutation_rev (map g (insert O x l))).
    rewrite <- (Permutation_rev (map g l)).
    change (g x :: map g l) with (map g (x :: l)). apply Permutation_map. apply insert_perm.
Qed.

Theorem pbsum_relabel_incr g p F : (forall x y, leb O x y = true -> leb O (g x) (g y) = true) ->
  pbsum O (map (relabel g) p) F = pbsum O p (fun l => F (map g l)).
Proof.
  intros Hg. revert F. induction p as [|h p IH]; intros F; cbn [map pbsum]; [reflexivity|].
  change (relabel g h) with (map (fun oc : T * Z => (g (fst oc), snd oc)) h).
  rewrite lsum_map. cbn [fst snd].
  apply lsum_ext. intros f _. f_equal. rewrite IH.
  apply pbsum_ext_s. intros l Hs _. rewrite insert_map_incr by assumption. reflexivity.
Qed.

Theorem pbsum_relabel_decr g p F : (forall x y, leb O x y = true -> leb O (g y) (g x) = true) ->
  pbsum O (map (relabel g) p) F = pbsum O p (fun l => F (rev (map g l))).
Proof.
  intros Hg. revert F. induction p as [|h p IH]; intros F; cbn [map pbsum]; [reflexivity|].
  change (relabel g h) with (map (fun oc : T * Z => (g (fst oc), snd oc)) h).
  rewrite lsum_map. cbn [fst snd].
  apply lsum_ext. intros f _. f_equal. rewrite IH.
  apply pbsum_ext_s. intros l Hs _. rewrite insert_rev_map_decr by assumption. reflexivity.
Qed.

End Relabel.

(* ====================================================================== *)
(* P.h                                                                      *)
(* ====================================================================== *)
Section PH.
Context {T : Type} (O : ord T).
Variable zeroT : T.
Variable addT : T -> T -> T.
Variable mulzT : Z -> T -> T.
Hypothesis add_comm : forall x y, addT x y = addT y x.
Hypothesis add_assoc : forall x y z, addT x (addT y z) = addT (addT x y) z.
Hypothesis add_0_l : forall x, addT zeroT x = x.
Hypothesis mulz_nat : forall m x, mulzT (Z.of_nat m) x = tsum zeroT addT (repeat x m).

Local Notation hist := (hist T).
Local Notation tsum := (tsum zeroT addT).
Local Notation sum_h := (sum_h O zeroT addT).
Local Notation p_h := (p_h O zeroT addT mulzT).
Local Notation okpool := (okpool O).

(* ---------- the trivial cases ---------- *)
Theorem p_h_none p : p_h p None = Ok (sum_h p).
Proof. reflexivity. Qed.

Theorem p_h_noarg p : p_h p (Some []) = Ok (sum_h p).
Proof. reflexivity. Qed.

Theorem p_h_error p w e : w <> [] -> resolve (length p) w = Err e -> p_h p (Some w) = Err e.
Proof.
  intros Hw Hr. destruct w as [|s w]; [contradiction|].
  unfold Pool.p_h. rewrite Hr. reflexivity.
Qed.

(* ---------- the two computation paths ---------- *)
Definition via_rwc (p : list hist) (which : option (list sel)) : res hist :=
  match rwc O zeroT p which with
  | Ok rolls => Ok (mk O (map (fun rc => (tsum (fst rc), snd rc)) rolls))
  | Err e => Err e
  end.

Lemma p_h_unfold p s w : p_h p (Some (s :: w)) =
  match resolve (length p) (s :: w) with
  | Err e => Err e
  | Ok idx =>
      match analyze (length p) idx with
      | Some i => if negb (i =? 0) && (Z.of_nat (length p) <=? i)
                  then Ok (mk O (map (fun oc => (mulzT (i / Z.of_nat (length p)) (fst oc), snd oc)) (sum_h p)))
                  else via_rwc p (Some (s :: w))
      | None => via_rwc p (Some (s :: w))
      end
  end.
Proof. reflexivity. Qed.

Definition sel_spec (p : list hist) (idx : list nat) (r : hist) : Prop :=
  (idx = [] -> r = []) /\
  (idx <> [] -> forall z, cnt O r z =
      pbsum O p (fun l => if eqb O (tsum (getitems l idx)) z then 1 else 0)) /\
  (idx <> [] -> total r = ptotal p).

Lemma via_rwc_correct p w idx : okpool p -> p <> [] -> resolve (length p) w = Ok idx ->
  exists r, via_rwc p (Some w) = Ok r /\ sel_spec p idx r.
Proof.
  intros Hok Hne Hr.
  destruct (rwc_some_correct O zeroT p w idx Hok Hne Hr) as (rolls & Hrw & Hnil & Hsum).
  unfold via_rwc. rewrite Hrw. eexists. split; [reflexivity|]. split; [|split].
  - intros Hidx. rewrite (Hnil Hidx). reflexivity.
  - intros Hidx z. rewrite cnt_mk, lsum_map. cbn [fst snd].
    rewrite <- (Hsum Hidx (fun t => if eqb O (tsum t) z then 1 else 0)).
    rewrite wsum_as_lsum. apply lsum_ext. intros x _. destruct (eqb O (tsum (fst x)) z); ring.
  - intros Hidx. rewrite total_mk, lsum_map. cbn [snd].
    exact (rwc_counts_sum O zeroT p w idx rolls Hok Hne Hr Hidx Hrw).
Qed.

Lemma tsum_cons x l : tsum (x :: l) = addT x (tsum l).
Proof. reflexivity. Qed.

Lemma tsum_concat_repeat l m : tsum (concat (repeat l m)) = tsum (repeat (tsum l) m).
Proof.
  induction m as [|m IH]; cbn [repeat concat]; [reflexivity|].
  rewrite (tsum_app zeroT addT add_assoc add_0_l), IH, tsum_cons. reflexivity.
Qed.

Lemma tsum_all_m (l : list T) idx m :
  Forall (fun i => (i < length l)%nat) idx ->
  (forall i, (i < length l)%nat -> occurrences i idx = m) ->
  tsum (getitems l idx) = mulzT (Z.of_nat m) (tsum l).
Proof.
  intros Hb Hocc.
  rewrite (tsum_perm zeroT addT add_comm add_assoc _ _ (getitems_all_m l idx m Hb Hocc)).
  rewrite tsum_concat_repeat, mulz_nat. reflexivity.
Qed.

Lemma short_circuit_correct p idx m : p <> [] -> idx <> [] ->
  Forall (fun i => (i < length p)%nat) idx ->
  (forall i, (i < length p)%nat -> occurrences i idx = m) ->
  sel_spec p idx (mk O (map (fun oc => (mulzT (Z.of_nat m) (fst oc), snd oc)) (sum_h p))).
Proof.
  intros Hne Hidx Hb Hocc. split; [|split].
  - intros E. contradiction.
  - intros _ z. rewrite cnt_mk, lsum_map. cbn [fst snd].
    transitivity (push (sum_h p) (fun k => if eqb O (mulzT (Z.of_nat m) k) z then 1 else 0)).
    { unfold push. apply lsum_ext. intros x _. destruct (eqb O (mulzT (Z.of_nat m) (fst x)) z); ring. }
    rewrite (sum_h_pushforward O zeroT addT add_comm add_assoc add_0_l p _ Hne).
    apply pbsum_ext_s. intros l _ Hl.
    rewrite (tsum_all_m l idx m); [reflexivity|rewrite Hl; exact Hb|rewrite Hl; exact Hocc].
  - intros _. rewrite total_mk, lsum_map. cbn [snd].
    exact (sum_h_total O zeroT addT add_comm add_assoc add_0_l p Hne).
Qed.

Lemma p_h_sel_spec p w idx : okpool p -> p <> [] -> w <> [] -> resolve (length p) w = Ok idx ->
  exists r, p_h p (Some w) = Ok r /\ sel_spec p idx r.
Proof.
  intros Hok Hne Hw Hr. destruct w as [|s w]; [contradiction|]. clear Hw.
  rewrite p_h_unfold, Hr.
  pose proof (resolve_bound _ _ _ Hr) as Hb.
  destruct (analyze (length p) idx) as [i|] eqn:Ha; [|apply via_rwc_correct; assumption].
  destruct (negb (i =? 0) && (Z.of_nat (length p) <=? i)) eqn:Hc; [|apply via_rwc_correct; assumption].
  apply andb_prop in Hc. destruct Hc as [Hi0 Hin].
  apply negb_true_iff in Hi0. apply Z.eqb_neq in Hi0. apply Z.leb_le in Hin.
  destruct (analyze_sound (length p) idx i Hb Ha)
    as [(Hz & _) | [(Hrg & _) | [(Hrg & _) | (m & Hm & Hz & Hn & Hocc)]]]; try lia.
  assert (Hidx : idx <> []).
  { intros E. rewrite E, analyze_nil in Ha. injection Ha as Ha. lia. }
  assert (Hq : i / Z.of_nat (length p) = Z.of_nat m).
  { rewrite Hz, Z.mul_comm. apply Z.div_mul. lia. }
  rewrite Hq. eexists. split; [reflexivity|].
  apply short_circuit_correct; assumption.
Qed.

(* the selective sum is exactly the brute-force histogram of the selected sum *)
Theorem p_h_correct p w idx : okpool p -> p <> [] -> w <> [] -> resolve (length p) w = Ok idx ->
  exists r, p_h p (Some w) = Ok r /\
    (idx = [] -> r = []) /\
    (idx <> [] -> forall z, cnt O r z =
        pbsum O p (fun l => if eqb O (tsum (getitems l idx)) z then 1 else 0)) /\
    (idx <> [] -> total r = ptotal p).
Proof. exact (p_h_sel_spec p w idx). Qed.

(* equivalent selections (same multiset of positions) give the same counts *)
Theorem p_h_equivalent p w1 w2 idx1 idx2 r1 r2 : okpool p -> p <> [] -> w1 <> [] -> w2 <> [] ->
  resolve (length p) w1 = Ok idx1 -> resolve (length p) w2 = Ok idx2 -> Permutation idx1 idx2 ->
  p_h p (Some w1) = Ok r1 -> p_h p (Some w2) = Ok r2 ->
  forall z, cnt O r1 z = cnt O r2 z.
Proof.
  intros Hok Hne Hw1 Hw2 Hr1 Hr2 Hp H1 H2 z.
  destruct (p_h_correct p w1 idx1 Hok Hne Hw1 Hr1) as (r1' & E1 & Hn1 & Hc1 & _).
  destruct (p_h_correct p w2 idx2 Hok Hne Hw2 Hr2) as (r2' & E2 & Hn2 & Hc2 & _).
  rewrite H1 in E1. injection E1 as <-. rewrite H2 in E2. injection E2 as <-.
  destruct idx1 as [|a idx1'].
  - apply Permutation_nil in Hp. subst idx2. rewrite (Hn1 eq_refl), (Hn2 eq_refl). reflexivity.
  - assert (Hidx2 : idx2 <> []).
    { intros E. subst idx2. apply Permutation_sym, Permutation_nil in Hp. discriminate. }
    rewrite Hc1 by discriminate. rewrite Hc2 by exact Hidx2.
    apply pbsum_ext. intros l.
    rewrite (tsum_perm zeroT addT add_comm add_assoc _ _ (getitems_perm l _ _ Hp)). reflexivity.
Qed.

(* selecting everything once is the plain sum *)
Theorem p_h_all p w idx r : okpool p -> p <> [] -> w <> [] -> resolve (length p) w = Ok idx ->
  Permutation idx (seq 0 (length p)) -> p_h p (Some w) = Ok r ->
  forall z, cnt O r z = cnt O (sum_h p) z.
Proof.
  intros Hok Hne Hw Hr Hp H z.
  destruct (p_h_correct p w idx Hok Hne Hw Hr) as (r' & E & _ & Hc & _).
  rewrite H in E. injection E as <-.
  assert (Hidx : idx <> []).
  { intros E. subst idx. apply Permutation_nil in Hp.
    destruct p as [|h p]; [contradiction|]. cbn [length seq] in Hp. discriminate. }
  rewrite (Hc Hidx). rewrite (sum_h_cnt O zeroT addT add_comm add_assoc add_0_l p z Hne).
  apply pbsum_ext_s. intros l _ Hl.
  rewrite (tsum_perm zeroT addT add_comm add_assoc _ _ (getitems_perm l _ _ Hp)).
  rewrite <- Hl, getitems_seq_all. reflexivity.
Qed.

(* a single position: the order statistic *)
Theorem p_h_order_stat p i r : okpool p -> p <> [] ->
  (- Z.of_nat (length p) <= i < Z.of_nat (length p))%Z ->
  p_h p (Some [Idx i]) = Ok r ->
  let pos := Z.to_nat (if (i <? 0)%Z then i + Z.of_nat (length p) else i)%Z in
  forall z, cnt O r z = pbsum O p (fun l => match nth_error l pos with
                                            | Some x => if eqb O (addT x zeroT) z then 1 else 0
                                            | None => 0 end).
Proof.
  intros Hok Hne Hi H pos z.
  assert (Hr : resolve (length p) [Idx i] = Ok [pos]).
  { unfold pos. cbn [resolve resolve1].
    destruct (Z.leb_spec 0 i) as [H0|H0]; destruct (Z.ltb_spec i (Z.of_nat (length p))) as [H1|H1];
      cbn [andb]; try lia.
    - destruct (Z.ltb_spec i 0) as [H3|H3]; [lia|]. reflexivity.
    - destruct (Z.leb_spec (- Z.of_nat (length p)) i) as [H2|H2]; [|lia].
      destruct (Z.ltb_spec i 0) as [H3|H3]; [|lia]. reflexivity. }
  assert (Hpos : (pos < length p)%nat).
  { unfold pos. destruct (Z.ltb_spec i 0) as [H3|H3]; lia. }
  assert (Hw : [Idx i] <> []) by discriminate.
  destruct (p_h_correct p [Idx i] [pos] Hok Hne Hw Hr) as (r' & E & _ & Hc & _).
  rewrite H in E. injection E as <-.
  rewrite Hc by discriminate.
  apply pbsum_ext_s. intros l _ Hl.
  rewrite getitems_cons, getitems_nil, app_nil_r.
  destruct (nth_error l pos) as [x|] eqn:Hn; [reflexivity|].
  apply nth_error_None in Hn. lia.
Qed.

End PH.

Print Assumptions p_h_correct.
Print Assumptions p_h_equivalent.
Print Assumptions p_h_all.
Print Assumptions p_h_order_stat.
Print Assumptions p_h_error.
Print Assumptions pbsum_relabel_incr.
Print Assumptions pbsum_relabel_decr.
