(* Counting laws for sums of pools, n @ h, and the canonical form of P(...):
   A. sum_h is the brute-force histogram of roll sums;
   B. n @ h (hmatmul): counts, totals, error cases, (m+n)@h = m@h + n@h as lists;
   C. mkP: canonical order, permutation invariance, idempotence, flattening, totals;
   D. a pool of n copies of one die is already canonical. *)
From Coq Require Import ZArith List Lia Bool Arith Permutation Sorted.
From Dyce Require Import Base.Sums Base.Order Base.Hist Base.Brute Model.Select Model.Pool.
Import ListNotations. Open Scope Z_scope.

(* ---------- generic list facts ---------- *)
Lemma perm_filter {A} (f : A -> bool) l l' : Permutation l l' -> Permutation (filter f l) (filter f l').
Proof.
  induction 1 as [|x l l' P IH|x y l|l l' l'' P1 IH1 P2 IH2]; cbn [filter].
  - constructor.
  - destruct (f x); [constructor|]; assumption.
  - destruct (f x), (f y); try reflexivity. apply perm_swap.
  - etransitivity; eassumption.
Qed.

Lemma filter_all {A} (f : A -> bool) l : (forall x, In x l -> f x = true) -> filter f l = l.
Proof.
  induction l as [|x l IH]; intros H; cbn [filter]; [reflexivity|].
  rewrite (H x (or_introl eq_refl)). f_equal. apply IH. intros y Hy. apply H. right. exact Hy.
Qed.

Lemma repeat_snoc {A} (x : A) n : repeat x (S n) = repeat x n ++ [x].
Proof. induction n as [|n IH]; [reflexivity|]. cbn [repeat app] in *. rewrite <- IH. reflexivity. Qed.

Lemma repeat_S_neq_nil {A} (x : A) n : (1 <= n)%nat -> repeat x n <> [].
Proof. destruct n as [|n]; [lia|]. intros _. cbn [repeat]. discriminate. Qed.

(* ====================================================================== *)
(* C, D: the canonical form of a pool                                       *)
(* ====================================================================== *)
Section C.
Context {T : Type} (O : ord T).
Local Notation hist := (hist T).

(* items_leb is a decidable total order on all association lists (no sortedness needed) *)
Lemma items_eqb_spec : forall a b : hist, reflect (a = b) (items_eqb O a b).
Proof.
  induction a as [|[o c] a IH]; intros [|[o' c'] b]; cbn [items_eqb]; try (constructor; congruence).
  unfold item_eqb. cbn [fst snd].
  destruct (eqb_spec O o o') as [E|N]; cbn [andb]; [|constructor; congruence].
  destruct (Z.eqb_spec c c') as [E'|N']; cbn [andb]; [|constructor; congruence].
  destruct (IH b) as [E''|N'']; constructor; congruence.
Qed.

Lemma items_leb_refl : forall a : hist, items_leb O a a = true.
Proof.
  induction a as [|[o c] a IH]; cbn [items_leb]; [reflexivity|].
  rewrite (eqb_refl O), Z.eqb_refl. exact IH.
Qed.

Lemma items_leb_total : forall a b : hist, items_leb O a b = true \/ items_leb O b a = true.
Proof.
  induction a as [|[o c] a IH]; intros [|[o' c'] b]; cbn [items_leb];
    [left; reflexivity|left; reflexivity|right; reflexivity|].
  rewrite (eqb_sym O o' o). destruct (eqb_spec O o o') as [E|N].
  - rewrite (Z.eqb_sym c' c). destruct (Z.eqb_spec c c') as [E'|N']; [apply IH|].
    destruct (Z.ltb_spec c c') as [L|L]; [left; reflexivity|].
    destruct (Z.ltb_spec c' c) as [L'|L']; [right; reflexivity|]. lia.
  - apply (leb_total O).
Qed.

Lemma items_leb_antisym : forall a b : hist, items_leb O a b = true -> items_leb O b a = true -> a = b.
Proof.
  induction a as [|[o c] a IH]; intros [|[o' c'] b]; cbn [items_leb]; intros H1 H2;
    try discriminate; [reflexivity|].
  rewrite (eqb_sym O o' o) in H2. destruct (eqb_spec O o o') as [E|N].
  - subst o'. rewrite (Z.eqb_sym c' c) in H2. destruct (Z.eqb_spec c c') as [E'|N'].
    + subst c'. f_equal. apply IH; assumption.
    + apply Z.ltb_lt in H1. apply Z.ltb_lt in H2. lia.
  - exfalso. apply N. apply (leb_antisym O); assumption.
Qed.

Lemma items_leb_trans : forall a b d : hist,
  items_leb O a b = true -> items_leb O b d = true -> items_leb O a d = true.
Proof.
  induction a as [|[o1 c1] a IH]; intros [|[o2 c2] b] [|[o3 c3] d]; cbn [items_leb]; intros H1 H2;
    try discriminate; try reflexivity.
  destruct (eqb_spec O o1 o2) as [E12|N12]; [subst o2|].
  - destruct (eqb_spec O o1 o3) as [E13|N13]; [subst o3|exact H2].
    destruct (Z.eqb_spec c1 c2) as [Ec|Nc]; [subst c2|].
    + destruct (Z.eqb_spec c1 c3) as [Ec'|Nc']; [eapply IH; eassumption|exact H2].
    + destruct (Z.eqb_spec c2 c3) as [Ec'|Nc']; [subst c3|].
      * destruct (Z.eqb_spec c1 c2) as [Ec''|Nc'']; [contradiction|exact H1].
      * apply Z.ltb_lt in H1. apply Z.ltb_lt in H2.
        destruct (Z.eqb_spec c1 c3) as [Ec''|Nc'']; [lia|apply Z.ltb_lt; lia].
  - destruct (eqb_spec O o2 o3) as [E23|N23]; [subst o3|].
    + destruct (eqb_spec O o1 o2) as [E|N]; [contradiction|exact H1].
    + destruct (eqb_spec O o1 o3) as [E13|N13].
      * subst o3. exfalso. apply N12. apply (leb_antisym O); assumption.
      * exact (leb_trans O _ _ _ H1 H2).
Qed.

Definition HO : ord hist :=
  @Ord hist (items_leb O) (items_eqb O) items_eqb_spec items_leb_refl items_leb_total
       items_leb_trans items_leb_antisym.

Lemma insert_by_eq (x : hist) l : insert_by (items_leb O) x l = insert HO x l.
Proof.
  induction l as [|y t IH]; cbn [insert_by insert]; [reflexivity|].
  change (leb HO x y) with (items_leb O x y).
  destruct (items_leb O x y); [reflexivity|]. rewrite IH. reflexivity.
Qed.

Lemma isort_by_eq (l : list hist) : isort_by (items_leb O) l = isort HO l.
Proof.
  induction l as [|x l IH]; [reflexivity|]. unfold isort_by in *. cbn [fold_right isort].
  rewrite IH. apply insert_by_eq.
Qed.

Definition nzt (h : hist) : bool := negb (total h =? 0).

Lemma mkP_eq l : mkP O l = isort HO (filter nzt l).
Proof. unfold mkP. apply isort_by_eq. Qed.

(* the result is sorted for the lexicographic order *)
Theorem mkP_sorted l : sorted HO (mkP O l).
Proof. rewrite mkP_eq. apply isort_sorted. Qed.

Theorem mkP_content l : Permutation (mkP O l) (filter (fun h => negb (total h =? 0)%Z) l).
Proof. rewrite mkP_eq. symmetry. apply isort_perm. Qed.

Lemma mkP_filter_perm l l' : Permutation (filter nzt l) (filter nzt l') -> mkP O l = mkP O l'.
Proof. intros P. rewrite !mkP_eq. apply isort_of_perm. exact P. Qed.

(* argument order is irrelevant (holds for arbitrary association lists) *)
Theorem mkP_perm_strong (l l' : list hist) : Permutation l l' -> mkP O l = mkP O l'.
Proof. intros P. apply mkP_filter_perm. apply perm_filter. exact P. Qed.

Theorem mkP_perm (l l' : list hist) :
  Forall (fun h => sasc O (keys h)) l -> Permutation l l' -> mkP O l = mkP O l'.
Proof. intros _. apply mkP_perm_strong. Qed.

Lemma mkP_members l h : In h (mkP O l) -> nzt h = true.
Proof.
  intros H. apply (Permutation_in _ (mkP_content l)) in H. apply filter_In in H. exact (proj2 H).
Qed.

Lemma filter_mkP l : filter nzt (mkP O l) = mkP O l.
Proof. apply filter_all. intros h. apply mkP_members. Qed.

Theorem mkP_idem_strong l : mkP O (mkP O l) = mkP O l.
Proof.
  rewrite (mkP_eq (mkP O l)). rewrite filter_mkP. rewrite mkP_eq. apply isort_idem.
Qed.

Theorem mkP_idem l : Forall (fun h => sasc O (keys h)) l -> mkP O (mkP O l) = mkP O l.
Proof. intros _. apply mkP_idem_strong. Qed.

Theorem mkP_args_flatten_strong (args : list (list hist)) :
  mkP_args O (map (mkP O) args) = mkP_args O args.
Proof.
  unfold mkP_args. apply mkP_filter_perm.
  induction args as [|a args IH]; cbn [map concat]; [reflexivity|].
  rewrite !filter_app. apply Permutation_app; [|exact IH].
  rewrite filter_mkP. apply mkP_content.
Qed.

Theorem mkP_args_flatten (args : list (list hist)) :
  Forall (Forall (fun h => sasc O (keys h))) args ->
  mkP_args O (map (mkP O) args) = mkP_args O args.
Proof. intros _. apply mkP_args_flatten_strong. Qed.

Lemma ptotal_perm (l l' : list hist) : Permutation l l' -> ptotal l = ptotal l'.
Proof.
  unfold ptotal. induction 1 as [|x l l' P IH|x y l|l l' l'' P1 IH1 P2 IH2]; cbn [fold_right].
  - reflexivity.
  - rewrite IH. reflexivity.
  - ring.
  - congruence.
Qed.

Theorem ptotal_mkP l :
  ptotal (mkP O l) = fold_right (fun h acc => (if (total h =? 0)%Z then 1 else total h) * acc)%Z 1%Z l.
Proof.
  rewrite (ptotal_perm _ _ (mkP_content l)).
  unfold ptotal. induction l as [|h l IH]; cbn [filter fold_right]; [reflexivity|].
  destruct (Z.eqb_spec (total h) 0) as [E|N]; cbn [negb fold_right]; rewrite IH; [ring|reflexivity].
Qed.

(* D. a pool of copies of one (non-null) die is already canonical *)
Theorem pool_of_copies n h : total h <> 0%Z -> mkP O (repeat h n) = repeat h n.
Proof.
  intros Hh. rewrite mkP_eq. rewrite filter_all.
  - apply isort_id. apply sorted_repeat.
  - intros x Hx. apply repeat_spec in Hx. subst x. unfold nzt.
    destruct (Z.eqb_spec (total h) 0) as [E|N]; [contradiction|reflexivity].
Qed.

End C.

(* ====================================================================== *)
(* A, B: sums of dice                                                       *)
(* ====================================================================== *)
Section R.
Context {T : Type} (O : ord T).
Variable zeroT : T.
Variable addT : T -> T -> T.
Hypothesis add_comm : forall x y, addT x y = addT y x.
Hypothesis add_assoc : forall x y z, addT x (addT y z) = addT (addT x y) z.
Hypothesis add_0_l : forall x, addT zeroT x = x.

Local Notation hist := (hist T).
Local Notation tsum := (tsum zeroT addT).
Local Notation hadd := (hadd O addT).
Local Notation sum_h := (sum_h O zeroT addT).
Local Notation hmatmul := (hmatmul O zeroT addT).

(* the weighted sum of G over the faces: every counting statement is an instance *)
Definition push (a : hist) (G : T -> Z) : Z := lsum (fun x => snd x * G (fst x)) a.

Lemma push_ext a G G' : (forall k, G k = G' k) -> push a G = push a G'.
Proof. intros H. unfold push. apply lsum_ext. intros x _. rewrite H. reflexivity. Qed.

Lemma push_hins o c h G : push (hins O o c h) G = c * G o + push h G.
Proof.
  unfold push. induction h as [|[o' c'] h IH]; cbn [hins lsum fst snd]; [ring|].
  destruct (eqb_spec O o o') as [E|N].
  - subst o'. cbn [lsum fst snd]. ring.
  - destruct (leb O o o'); cbn [lsum fst snd]; [ring|]. rewrite IH. ring.
Qed.

Lemma push_mk l G : push (mk O l) G = push l G.
Proof.
  induction l as [|[o c] l IH]; [reflexivity|].
  change (mk O ((o, c) :: l)) with (hins O o c (mk O l)).
  rewrite push_hins, IH. unfold push. cbn [lsum fst snd]. reflexivity.
Qed.

Lemma cnt_push a z : cnt O a z = push a (fun k => if eqb O k z then 1 else 0).
Proof.
  rewrite cnt_as_lsum. unfold push. apply lsum_ext. intros x _. destruct (eqb O (fst x) z); ring.
Qed.

Lemma total_push a : total a = push a (fun _ => 1).
Proof. unfold total, push. apply lsum_ext. intros x _. ring. Qed.

Lemma push_hadd a b G : push (hadd a b) G = push a (fun s => push b (fun t => G (addT s t))).
Proof.
  unfold Pool.hadd. rewrite push_mk. unfold push. rewrite lsum_flat_map. apply lsum_ext. intros x _.
  rewrite lsum_map. cbn [fst snd]. rewrite <- lsum_scale. apply lsum_ext. intros y _. ring.
Qed.

(* the same functional over a list of dice, head first *)
Fixpoint Q (p : list hist) (G : T -> Z) : Z :=
  match p with
  | [] => G zeroT
  | h :: p' => push h (fun x => Q p' (fun t => G (addT x t)))
  end.

Lemma Q_ext p : forall G G', (forall k, G k = G' k) -> Q p G = Q p G'.
Proof.
  induction p as [|h p IH]; intros G G' H; cbn [Q]; [apply H|].
  apply push_ext. intros x. apply IH. intros t. apply H.
Qed.

Lemma tsum_perm l l' : Permutation l l' -> tsum l = tsum l'.
Proof.
  unfold Pool.tsum. induction 1 as [|x l l' P IH|x y l|l l' l'' P1 IH1 P2 IH2]; cbn [fold_right].
  - reflexivity.
  - rewrite IH. reflexivity.
  - rewrite !add_assoc. rewrite (add_comm y x). reflexivity.
  - congruence.
Qed.

Lemma tsum_insert x l : tsum (insert O x l) = addT x (tsum l).
Proof. rewrite <- (tsum_perm _ _ (insert_perm O x l)). reflexivity. Qed.

Lemma tsum_app l1 l2 : tsum (l1 ++ l2) = addT (tsum l1) (tsum l2).
Proof.
  unfold Pool.tsum. induction l1 as [|x l1 IH]; cbn [app fold_right].
  - rewrite add_0_l. reflexivity.
  - rewrite IH. apply add_assoc.
Qed.

Lemma Q_pbsum p : forall G, Q p G = pbsum O p (fun l => G (tsum l)).
Proof.
  induction p as [|h p IH]; intros G; cbn [Q pbsum]; [reflexivity|].
  unfold push. apply lsum_ext. intros f _. f_equal. rewrite IH.
  apply pbsum_ext. intros l. rewrite tsum_insert. reflexivity.
Qed.

Lemma push_fold rest : forall acc G,
  push (fold_left hadd rest acc) G = push acc (fun s => Q rest (fun t => G (addT s t))).
Proof.
  induction rest as [|h r IH]; intros acc G; cbn [fold_left Q].
  - apply push_ext. intros s. rewrite (add_comm s zeroT), add_0_l. reflexivity.
  - rewrite IH, push_hadd. apply push_ext. intros s. apply push_ext. intros x.
    apply Q_ext. intros t. rewrite add_assoc. reflexivity.
Qed.

Lemma sum_h_push p G : p <> [] -> push (sum_h p) G = Q p G.
Proof.
  destruct p as [|h rest]; [intros H; contradiction|]. intros _.
  unfold Pool.sum_h. rewrite push_fold, push_mk. cbn [Q]. unfold push. rewrite lsum_map. cbn [fst snd].
  apply lsum_ext. intros f _. f_equal. apply Q_ext. intros t. rewrite add_0_l. reflexivity.
Qed.

(* the general form: any face-linear functional of the sum is the brute-force sum *)
Theorem sum_h_pushforward p G : p <> [] -> push (sum_h p) G = pbsum O p (fun l => G (tsum l)).
Proof. intros H. rewrite sum_h_push by exact H. apply Q_pbsum. Qed.

(* ---------- A ---------- *)
Theorem sum_h_cnt (p : list hist) z : p <> [] ->
  cnt O (sum_h p) z = pbsum O p (fun l => if eqb O (tsum l) z then 1 else 0).
Proof. intros H. rewrite cnt_push, sum_h_pushforward by exact H. reflexivity. Qed.

Theorem sum_h_total (p : list hist) : p <> [] -> total (sum_h p) = ptotal p.
Proof.
  intros H. rewrite total_push, sum_h_pushforward by exact H. cbv beta.
  rewrite pbsum_const. ring.
Qed.

Theorem sum_h_nil : sum_h [] = [].
Proof. reflexivity. Qed.

Lemma fold_hadd_sasc rest : forall acc, sasc O (keys acc) -> sasc O (keys (fold_left hadd rest acc)).
Proof.
  induction rest as [|h r IH]; intros acc H; cbn [fold_left]; [exact H|].
  apply IH. unfold Pool.hadd. apply sasc_mk.
Qed.

Theorem sum_h_sasc p : sasc O (keys (sum_h p)).
Proof.
  destruct p as [|h rest]; [exact I|]. unfold Pool.sum_h. apply fold_hadd_sasc. apply sasc_mk.
Qed.

(* ---------- B ---------- *)
Lemma ptotal_repeat (h : hist) n : ptotal (repeat h n) = zpow (total h) n.
Proof.
  unfold ptotal. induction n as [|n IH]; cbn [repeat fold_right zpow]; [reflexivity|].
  rewrite IH. reflexivity.
Qed.

Theorem hmatmul_cnt n h z : (1 <= n)%Z ->
  exists r, hmatmul n h = Ok r /\
    cnt O r z = bsum O h (Z.to_nat n) (fun l => if eqb O (tsum l) z then 1 else 0) /\
    total r = zpow (total h) (Z.to_nat n).
Proof.
  intros Hn. unfold Pool.hmatmul. destruct (Z.ltb_spec n 0) as [L|L]; [lia|].
  eexists. split; [reflexivity|].
  assert (Hne : repeat h (Z.to_nat n) <> []) by (apply repeat_S_neq_nil; lia).
  split.
  - rewrite sum_h_cnt by exact Hne. apply pbsum_repeat.
  - rewrite sum_h_total by exact Hne. apply ptotal_repeat.
Qed.

Theorem hmatmul_zero h : hmatmul 0 h = Ok [].
Proof. reflexivity. Qed.

Theorem hmatmul_neg n h : (n < 0)%Z -> hmatmul n h = Err ValueError.
Proof. intros H. unfold Pool.hmatmul. destruct (Z.ltb_spec n 0) as [L|L]; [reflexivity|lia]. Qed.

(* equality of histograms from equality of supports and of all face-linear functionals *)
Lemma hist_eq_push (a b : hist) : sasc O (keys a) -> sasc O (keys b) ->
  (forall k, In k (keys a) <-> In k (keys b)) -> (forall G, push a G = push b G) -> a = b.
Proof.
  intros Ha Hb Hk Hp. apply (hist_ext O); try assumption.
  - apply (sasc_unique O); assumption.
  - intros z. rewrite !cnt_push. apply Hp.
Qed.

Lemma hadd_sasc a b : sasc O (keys (hadd a b)).
Proof. unfold Pool.hadd. apply sasc_mk. Qed.

Lemma in_keys_hadd a b k :
  In k (keys (hadd a b)) <-> exists x y, In x (keys a) /\ In y (keys b) /\ k = addT x y.
Proof.
  unfold Pool.hadd. rewrite in_keys_mk. rewrite in_map_iff. split.
  - intros [[k' c] [E H]]. cbn [fst] in E. subst k'.
    apply in_flat_map in H. destruct H as [x [Hx H]].
    apply in_map_iff in H. destruct H as [y [E Hy]]. injection E as E1 E2.
    exists (fst x), (fst y). unfold keys.
    split; [apply in_map; exact Hx|]. split; [apply in_map; exact Hy|]. symmetry. exact E1.
  - intros [x [y [Hx [Hy E]]]]. unfold keys in Hx, Hy.
    apply in_map_iff in Hx. destruct Hx as [xc [Ex Hx]].
    apply in_map_iff in Hy. destruct Hy as [yc [Ey Hy]]. subst x y k.
    exists (addT (fst xc) (fst yc), snd xc * snd yc). split; [reflexivity|].
    apply in_flat_map. exists xc. split; [exact Hx|].
    apply in_map_iff. exists yc. split; [reflexivity|exact Hy].
Qed.

(* h1 + (h2 + h3) == (h1 + h2) + h3, as identical lists *)
Theorem hadd_assoc a b d : hadd (hadd a b) d = hadd a (hadd b d).
Proof.
  apply hist_eq_push; try apply hadd_sasc.
  - intros k. rewrite !in_keys_hadd. split.
    + intros [u [w [Hu [Hw E]]]]. apply in_keys_hadd in Hu. destruct Hu as [x [y [Hx [Hy E']]]].
      subst u k. exists x, (addT y w). split; [exact Hx|]. split.
      * apply in_keys_hadd. exists y, w. split; [exact Hy|]. split; [exact Hw|reflexivity].
      * symmetry. apply add_assoc.
    + intros [x [v [Hx [Hv E]]]]. apply in_keys_hadd in Hv. destruct Hv as [y [w [Hy [Hw E']]]].
      subst v k. exists (addT x y), w. split.
      * apply in_keys_hadd. exists x, y. split; [exact Hx|]. split; [exact Hy|reflexivity].
      * split; [exact Hw|]. apply add_assoc.
  - intros G. rewrite !push_hadd. apply push_ext. intros s.
    rewrite push_hadd. apply push_ext. intros t. apply push_ext. intros u.
    rewrite add_assoc. reflexivity.
Qed.

(* h1 + h2 == h2 + h1, as identical lists *)
Theorem hadd_comm a b : hadd a b = hadd b a.
Proof.
  apply hist_eq_push; try apply hadd_sasc.
  - intros k. rewrite !in_keys_hadd. split.
    + intros [x [y [Hx [Hy E]]]]. exists y, x. split; [exact Hy|]. split; [exact Hx|].
      rewrite add_comm. exact E.
    + intros [x [y [Hx [Hy E]]]]. exists y, x. split; [exact Hy|]. split; [exact Hx|].
      rewrite add_comm. exact E.
  - intros G. rewrite !push_hadd. unfold push.
    rewrite (lsum_ext a _ (fun x => lsum (fun y => snd x * (snd y * G (addT (fst x) (fst y)))) b)).
    2:{ intros x _. rewrite <- lsum_scale. reflexivity. }
    rewrite lsum_swap. apply lsum_ext. intros y _. rewrite <- lsum_scale.
    apply lsum_ext. intros x _. rewrite (add_comm (fst y) (fst x)). ring.
Qed.

(* the relabelling 0 + o of the first die is the identity on the second operand *)
Lemma hadd_zero_r a h : hadd a (mk O (map (fun oc => (addT zeroT (fst oc), snd oc)) h)) = hadd a h.
Proof.
  apply hist_eq_push; try apply hadd_sasc.
  - intros k. rewrite !in_keys_hadd.
    assert (Hk : forall y, In y (keys (mk O (map (fun oc => (addT zeroT (fst oc), snd oc)) h))) <-> In y (keys h)).
    { intros y. rewrite in_keys_mk, map_map. cbn [fst]. unfold keys. rewrite !in_map_iff.
      split; intros [oc [E H]]; exists oc; (split; [|exact H]).
      - rewrite add_0_l in E. exact E.
      - rewrite add_0_l. exact E. }
    split; intros [x [y [Hx [Hy E]]]]; exists x, y; (split; [exact Hx|]); (split; [|exact E]); apply Hk; exact Hy.
  - intros G. rewrite !push_hadd. apply push_ext. intros s. rewrite push_mk.
    unfold push. rewrite lsum_map. cbn [fst snd]. apply lsum_ext. intros y _. rewrite add_0_l. reflexivity.
Qed.

Lemma sum_h_snoc p h : p <> [] -> sum_h (p ++ [h]) = hadd (sum_h p) h.
Proof.
  destruct p as [|g rest]; [intros H; contradiction|]. intros _.
  cbn [app]. unfold Pool.sum_h. rewrite fold_left_app. reflexivity.
Qed.

(* (m+n)@h == m@h + n@h, as identical lists *)
Theorem hmatmul_add m n h : (1 <= m)%nat -> (1 <= n)%nat ->
  sum_h (repeat h (m + n)) = hadd (sum_h (repeat h m)) (sum_h (repeat h n)).
Proof.
  intros Hm Hn. induction n as [|n IH]; [lia|]. destruct n as [|n].
  - replace (m + 1)%nat with (S m) by lia. rewrite (repeat_snoc h m).
    rewrite sum_h_snoc by (apply repeat_S_neq_nil; exact Hm).
    change (sum_h (repeat h 1)) with (mk O (map (fun oc => (addT zeroT (fst oc), snd oc)) h)).
    symmetry. apply hadd_zero_r.
  - replace (m + S (S n))%nat with (S (m + S n)) by lia.
    rewrite (repeat_snoc h (m + S n)).
    rewrite sum_h_snoc by (apply repeat_S_neq_nil; lia).
    rewrite IH by lia.
    rewrite (repeat_snoc h (S n)).
    rewrite (sum_h_snoc (repeat h (S n)) h) by (apply repeat_S_neq_nil; lia).
    apply hadd_assoc.
Qed.

(* the same law at the level of hmatmul results *)
Corollary hmatmul_add_Z m n h : (1 <= m)%Z -> (1 <= n)%Z ->
  exists rm rn, hmatmul m h = Ok rm /\ hmatmul n h = Ok rn /\ hmatmul (m + n) h = Ok (hadd rm rn).
Proof.
  intros Hm Hn. unfold Pool.hmatmul.
  destruct (Z.ltb_spec m 0) as [L1|L1]; [lia|]. destruct (Z.ltb_spec n 0) as [L2|L2]; [lia|].
  destruct (Z.ltb_spec (m + n) 0) as [L3|L3]; [lia|].
  eexists. eexists. split; [reflexivity|]. split; [reflexivity|]. f_equal.
  rewrite Z2Nat.inj_add by lia. apply hmatmul_add; lia.
Qed.

End R.

Print Assumptions sum_h_cnt.
Print Assumptions hmatmul_cnt.
Print Assumptions hmatmul_add.
Print Assumptions mkP_perm.
Print Assumptions mkP_idem.
Print Assumptions mkP_args_flatten.
Print Assumptions ptotal_mkP.
Print Assumptions pool_of_copies.
