(* H.exactly_k_times_in_n, H.order_stat_for_n_at_pos (and its per-instance cache),
   P.appearances_in_rolls against brute-force enumeration:
   1. beta h n pred is the histogram of "how many of the n dice satisfy pred";
   2. exactly_k is the brute-force count of rolls showing o exactly k times;
   3. order_stat is the brute-force histogram of the face at a position of the sorted roll,
      and its sum over all positions;
   4. the cache of order_stat_for_n_at_pos never changes an answer;
   5. appearances is the brute-force histogram of the number of dice showing o. *)
From Coq Require Import ZArith List Lia Bool Arith Permutation Sorted.
From Dyce Require Import Base.Sums Base.Order Base.ZOrd Base.Hist Base.Brute Model.Select Model.Pool Model.OrderStat.
From Dyce Require Import Proofs.MergeP Proofs.SeldP Proofs.RepeatP Proofs.RwcP.
Import ListNotations. Open Scope Z_scope.

(* ---------- generic facts ---------- *)
Lemma map_repeat' {A B} (f : A -> B) x n : map f (repeat x n) = repeat (f x) n.
Proof. induction n as [|n IH]; cbn [repeat map]; [reflexivity|]. rewrite IH. reflexivity. Qed.

Lemma Zltb_nat a b : (Z.of_nat a <? Z.of_nat b) = (a <? b)%nat.
Proof. destruct (Z.ltb_spec (Z.of_nat a) (Z.of_nat b)), (Nat.ltb_spec a b); try reflexivity; lia. Qed.

Lemma Zeqb_nat a b : (Z.of_nat a =? Z.of_nat b) = (a =? b)%nat.
Proof. destruct (Z.eqb_spec (Z.of_nat a) (Z.of_nat b)), (Nat.eqb_spec a b); try reflexivity; lia. Qed.

Lemma filter_length_le {A} (f : A -> bool) l : (length (filter f l) <= length l)%nat.
Proof. induction l as [|x l IH]; cbn [filter length]; [lia|]. destruct (f x); cbn [length]; lia. Qed.

Definition symm {A} (F : list A -> Z) : Prop := forall l l', Permutation l l' -> F l = F l'.

(* ====================================================================== *)
(* 4. the cache                                                             *)
(* ====================================================================== *)
Section Cache.
Context {T : Type} (O : ord T).
Local Notation hist := (hist T).

Definition cinv (h : hist) (c : os_cache) : Prop :=
  forall n bs, cache_get c n = Some bs -> bs = betas O h (Z.to_nat n).

Lemma order_stat_cached_spec h c n pos : cinv h c ->
  cinv h (fst (order_stat_cached O c h n pos)) /\
  snd (order_stat_cached O c h n pos) = order_stat O h n pos.
Proof.
  intros Hc. unfold order_stat_cached, order_stat.
  destruct (n <? 0); cbn [fst snd]; [split; [exact Hc|reflexivity]|].
  destruct (cache_get c n) as [bs|] eqn:E; cbn [fst snd].
  - split; [exact Hc|]. rewrite (Hc _ _ E). reflexivity.
  - split; [|reflexivity]. intros m bs'. cbn [cache_get].
    destruct (Z.eqb_spec n m) as [Enm|Nnm].
    + subst m. intros H. injection H as <-. reflexivity.
    + apply Hc.
Qed.

Lemma os_run_gen h qs : forall c, cinv h c ->
  os_run O c h qs = map (fun q => order_stat O h (fst q) (snd q)) qs.
Proof.
  induction qs as [|[n pos] qs IH]; intros c Hc; cbn [os_run map fst snd]; [reflexivity|].
  pose proof (order_stat_cached_spec h c n pos Hc) as [H1 H2].
  destruct (order_stat_cached O c h n pos) as [c' r]. cbn [fst snd] in H1, H2. subst r.
  f_equal. apply IH. exact H1.
Qed.

Theorem os_cache_transparent (h : hist) qs :
  os_run O [] h qs = map (fun q => order_stat O h (fst q) (snd q)) qs.
Proof. apply os_run_gen. intros n bs H. discriminate. Qed.
End Cache.

(* ====================================================================== *)
(* relabelling the faces of the dice of a pool                              *)
(* ====================================================================== *)
Section Transport.
Context {T U : Type} (O : ord T) (P : ord U) (g : T -> U).

Definition relabel (h : hist T) : hist U := mk P (map (fun oc => (g (fst oc), snd oc)) h).

Lemma pbsum_relabel p : forall F, symm F ->
  pbsum P (map relabel p) F = pbsum O p (fun l => F (map g l)).
Proof.
  induction p as [|h p IH]; intros F HF; cbn [map pbsum]; [reflexivity|].
  etransitivity.
  { unfold relabel at 1.
    apply (push_mk P (map (fun oc => (g (fst oc), snd oc)) h)
             (fun x => pbsum P (map relabel p) (fun l => F (insert P x l)))). }
  unfold push. rewrite lsum_map. cbn [fst snd].
  apply lsum_ext. intros f _. f_equal. rewrite IH.
  - apply pbsum_ext. intros l. apply HF. rewrite <- insert_perm.
    change (g (fst f) :: map g l) with (map g (fst f :: l)). apply Permutation_map. apply insert_perm.
  - intros l l' Hp. apply HF. rewrite <- !insert_perm. constructor. exact Hp.
Qed.
End Transport.

Section Main.
Context {T : Type} (O : ord T).
Local Notation hist := (hist T).
Local Notation countb pred l := (length (filter pred l)).
Local Notation zs := (tsum 0 Z.add).

(* ====================================================================== *)
(* 1. beta                                                                  *)
(* ====================================================================== *)
Lemma zs_symm (G : Z -> Z) : symm (fun l => G (zs l)).
Proof. intros l l' Hp. f_equal. apply (tsum_perm 0 Z.add Z.add_comm Z.add_assoc). exact Hp. Qed.

Lemma zs_ind (pred : T -> bool) (l : list T) :
  zs (map (fun x => if pred x then 1 else 0) l) = Z.of_nat (countb pred l).
Proof.
  unfold tsum. induction l as [|x l IH]; cbn [map fold_right filter]; [reflexivity|].
  rewrite IH. destruct (pred x); cbn [length]; lia.
Qed.

Lemma beta_push (h : hist) n pred G : (1 <= n)%nat ->
  push (beta h n pred) G = bsum O h n (fun l => G (Z.of_nat (countb pred l))).
Proof.
  intros Hn. unfold beta.
  rewrite (sum_h_pushforward ZO 0 Z.add Z.add_comm Z.add_assoc Z.add_0_l)
    by (apply repeat_S_neq_nil; exact Hn).
  change (mk ZO (map (fun oc => (if pred (fst oc) then 1 else 0, snd oc)) h))
    with (relabel ZO (fun x => if pred x then 1 else 0) h).
  rewrite <- map_repeat'. rewrite (pbsum_relabel O ZO) by apply zs_symm.
  rewrite pbsum_repeat. apply bsum_ext. intros l. rewrite zs_ind. reflexivity.
Qed.

Theorem beta_cnt (h : hist) n pred k : (1 <= n)%nat ->
  cnt ZO (beta h n pred) k = bsum O h n (fun l => if (Z.of_nat (length (filter pred l)) =? k)%Z then 1 else 0)%Z.
Proof. intros Hn. rewrite cnt_push, beta_push by exact Hn. reflexivity. Qed.

(* ====================================================================== *)
(* 2. exactly_k                                                             *)
(* ====================================================================== *)
(* the weight of the faces satisfying pred *)
Definition wt (pred : T -> bool) (h : hist) : Z := lsum (fun f => if pred (fst f) then snd f else 0) h.

Lemma countb_insert (pred : T -> bool) x l :
  countb pred (insert O x l) = ((if pred x then 1 else 0) + countb pred l)%nat.
Proof.
  rewrite <- (Permutation_length (perm_filter pred _ _ (insert_perm O x l))).
  cbn [filter]. destruct (pred x); reflexivity.
Qed.

Lemma lsum_pred_split (pred : T -> bool) (h : hist) A B :
  lsum (fun f => snd f * (if pred (fst f) then A else B)) h = wt pred h * A + (total h - wt pred h) * B.
Proof.
  unfold wt, total. induction h as [|f h IH]; cbn [lsum]; [ring|]. rewrite IH.
  destruct (pred (fst f)); ring.
Qed.

Lemma bsum_step_pred (pred : T -> bool) (h : hist) n (F : nat -> Z) :
  bsum O h (S n) (fun l => F (countb pred l)) =
  wt pred h * bsum O h n (fun l => F (S (countb pred l)))
  + (total h - wt pred h) * bsum O h n (fun l => F (countb pred l)).
Proof.
  rewrite <- lsum_pred_split. cbn [bsum]. apply lsum_ext. intros f _. f_equal.
  destruct (pred (fst f)) eqn:E; apply bsum_ext; intros l; rewrite countb_insert, E; reflexivity.
Qed.

Lemma brute_binom (pred : T -> bool) (h : hist) : forall n k,
  bsum O h n (fun l => if Nat.eqb (countb pred l) k then 1 else 0) =
  binom n k * zpow (wt pred h) k * zpow (total h - wt pred h) (n - k).
Proof.
  set (a := wt pred h). set (b := total h - a).
  induction n as [|n IH]; intros k.
  - cbn [bsum filter length]. destruct k as [|k]; cbn [Nat.eqb binom zpow Nat.sub]; ring.
  - rewrite (bsum_step_pred pred h n (fun c => if Nat.eqb c k then 1 else 0)).
    fold a. fold b. destruct k as [|k].
    + cbn [Nat.eqb]. rewrite bsum_const. rewrite IH.
      rewrite !binom_0. cbn [zpow Nat.sub]. rewrite Nat.sub_0_r. ring.
    + cbn [Nat.eqb]. rewrite !IH. cbn [binom zpow Nat.sub].
      destruct (le_lt_dec (S k) n) as [L|L].
      * replace (n - k)%nat with (S (n - S k)) by lia. cbn [zpow]. ring.
      * rewrite (binom_gt n (S k)) by lia. ring.
Qed.

Lemma wt_eqb (h : hist) o : wt (eqb O o) h = cnt O h o.
Proof.
  rewrite cnt_as_lsum. unfold wt. apply lsum_ext. intros f _. rewrite (eqb_sym O). reflexivity.
Qed.

(* holds without the hypotheses; they are kept to match the documented preconditions *)
Lemma exactly_is_brute_gen (h : hist) o n k :
  exactly_k O h o n k = bsum O h n (fun l => if Nat.eqb (countb (eqb O o) l) k then 1 else 0).
Proof. unfold exactly_k. rewrite exactly_binom, brute_binom, wt_eqb. reflexivity. Qed.

Theorem exactly_is_brute (h : hist) o n k : sasc O (keys h) -> (k <= n)%nat ->
  exactly_k O h o n k = bsum O h n (fun l => if Nat.eqb (length (filter (eqb O o) l)) k then 1 else 0)%Z.
Proof. intros _ _. apply exactly_is_brute_gen. Qed.

Theorem exactly_is_beta (h : hist) o n k : sasc O (keys h) -> (1 <= n)%nat -> (k <= n)%nat ->
  exactly_k O h o n k = cnt ZO (beta h n (eqb O o)) (Z.of_nat k).
Proof.
  intros _ Hn _. rewrite beta_cnt by exact Hn. rewrite exactly_is_brute_gen.
  apply bsum_ext. intros l. rewrite Zeqb_nat. reflexivity.
Qed.

(* ====================================================================== *)
(* 3. order statistics                                                      *)
(* ====================================================================== *)
Lemma bsum_sub (h : hist) n F G : bsum O h n (fun l => F l - G l) = bsum O h n F - bsum O h n G.
Proof.
  rewrite (bsum_ext O h n _ (fun l => F l + (-1) * G l)) by (intros; ring).
  rewrite bsum_add, bsum_scale. ring.
Qed.

Lemma bsum_zero (h : hist) n : bsum O h n (fun _ => 0) = 0.
Proof. rewrite bsum_const. ring. Qed.

Lemma bsum_zsum (h : hist) n (F : nat -> list T -> Z) m :
  zsum (fun i => bsum O h n (F i)) m = bsum O h n (fun l => zsum (fun i => F i l) m).
Proof.
  induction m as [|m IH]; cbn [zsum]; [rewrite bsum_zero; reflexivity|].
  rewrite IH, <- bsum_add. reflexivity.
Qed.

Lemma count_above_push b pos : count_above b pos = push b (fun k => if pos <? k then 1 else 0).
Proof. unfold count_above, push. apply lsum_ext. intros x _. destruct (pos <? fst x); ring. Qed.

Lemma count_above_beta (h : hist) n pred pos : (1 <= n)%nat ->
  count_above (beta h n pred) pos =
  bsum O h n (fun l => if pos <? Z.of_nat (countb pred l) then 1 else 0).
Proof. intros Hn. rewrite count_above_push, beta_push by exact Hn. reflexivity. Qed.

(* in a sorted list the elements satisfying a downward-closed predicate form a prefix *)
Definition dclosed (pred : T -> bool) : Prop :=
  forall x y, leb O x y = true -> pred y = true -> pred x = true.

Lemma filter_above_false (pred : T -> bool) x l : dclosed pred -> Forall (le O x) l -> pred x = false ->
  filter pred l = [].
Proof.
  intros D H Hx. induction H as [|y l Hy Hl IH]; cbn [filter]; [reflexivity|].
  destruct (pred y) eqn:E; [|exact IH]. rewrite (D x y Hy E) in Hx. discriminate.
Qed.

Lemma sorted_nth_pred (pred : T -> bool) : dclosed pred -> forall l, sorted O l -> forall p x,
  nth_error l p = Some x -> pred x = (p <? countb pred l)%nat.
Proof.
  intros D. induction l as [|y t IH]; intros Hs p x Hn; [destruct p; discriminate|].
  pose proof (sorted_head O _ _ Hs) as Hy. pose proof (sorted_tail O _ _ Hs) as Ht.
  destruct p as [|p]; cbn [nth_error] in Hn.
  - injection Hn as <-. cbn [filter]. destruct (pred y) eqn:E; cbn [length]; [reflexivity|].
    rewrite (filter_above_false pred y t D Hy E). reflexivity.
  - cbn [filter]. destruct (pred y) eqn:E; cbn [length].
    + rewrite (IH Ht p x Hn). reflexivity.
    + rewrite (filter_above_false pred y t D Hy E). cbn [length].
      destruct (pred x) eqn:Ex; [|reflexivity].
      apply nth_error_In in Hn. rewrite Forall_forall in Hy.
      rewrite (D y x (Hy _ Hn) Ex) in E. discriminate.
Qed.

Lemma dclosed_leb z : dclosed (fun x => leb O x z).
Proof. intros x y H1 H2. exact (leb_trans O _ _ _ H1 H2). Qed.
Lemma dclosed_ltb z : dclosed (fun x => ltb O x z).
Proof. intros x y H1 H2. exact (leb_ltb_trans O _ _ _ H1 H2). Qed.

Lemma nth_ind l p z : sorted O l -> (p < length l)%nat ->
  (if Z.of_nat p <? Z.of_nat (countb (fun x => leb O x z) l) then 1 else 0)
  - (if Z.of_nat p <? Z.of_nat (countb (fun x => ltb O x z) l) then 1 else 0)
  = match nth_error l p with Some x => if eqb O x z then 1 else 0 | None => 0 end.
Proof.
  intros Hs Hp. rewrite !Zltb_nat. destruct (nth_error l p) as [x|] eqn:E.
  - rewrite <- (sorted_nth_pred _ (dclosed_leb z) l Hs p x E).
    rewrite <- (sorted_nth_pred _ (dclosed_ltb z) l Hs p x E).
    unfold ltb. destruct (eqb_spec O x z) as [Exz|Nxz].
    + subst z. rewrite (leb_refl O). reflexivity.
    + destruct (leb O x z); reflexivity.
  - apply nth_error_None in E. lia.
Qed.

Lemma lsum_pick_notin (h : hist) z (D : T -> Z) : ~ In z (keys h) ->
  lsum (fun oc => if eqb O (fst oc) z then D (fst oc) else 0) h = 0.
Proof.
  unfold keys. induction h as [|[o c] h IH]; intros Hn; cbn [lsum fst map In] in *; [reflexivity|].
  destruct (eqb_spec O o z) as [E|N]; [tauto|]. rewrite IH by tauto. ring.
Qed.

Lemma lsum_pick_in (h : hist) z (D : T -> Z) : sasc O (keys h) -> In z (keys h) ->
  lsum (fun oc => if eqb O (fst oc) z then D (fst oc) else 0) h = D z.
Proof.
  induction h as [|[o c] h IH]; intros Hs Hin; [destruct Hin|].
  pose proof (sasc_head_notin O _ _ Hs) as Hn. destruct Hs as [_ Hs].
  cbn [lsum fst]. destruct (eqb_spec O o z) as [E|N].
  - subst o. rewrite lsum_pick_notin by exact Hn. ring.
  - destruct Hin as [E|Hin]; [contradiction|]. rewrite IH by assumption. ring.
Qed.

Lemma in_keys_dec (h : hist) z : {In z (keys h)} + {~ In z (keys h)}.
Proof. apply in_dec. intros x y. destruct (eqb_spec O x y); [left|right]; assumption. Qed.

Definition osD (h : hist) (n : nat) (pos : Z) (o : T) : Z :=
  count_above (beta h n (fun x => leb O x o)) pos - count_above (beta h n (fun x => ltb O x o)) pos.

Lemma os_at_cnt_lsum (h : hist) n pos z :
  cnt O (os_at O (betas O h n) pos) z =
  lsum (fun oc => if eqb O (fst oc) z then osD h n pos (fst oc) else 0) h.
Proof.
  unfold os_at, betas. rewrite cnt_mk, !lsum_map. cbn [fst snd]. reflexivity.
Qed.

Lemma os_at_cnt (h : hist) n p z : sasc O (keys h) -> (p < n)%nat ->
  cnt O (os_at O (betas O h n) (Z.of_nat p)) z =
  bsum O h n (fun l => match nth_error l p with
                       | Some x => if eqb O x z then 1 else 0
                       | None => 0 end).
Proof.
  intros Hs Hp. rewrite os_at_cnt_lsum. destruct (in_keys_dec h z) as [Hin|Hn].
  - rewrite lsum_pick_in by assumption. unfold osD.
    rewrite !count_above_beta by lia. rewrite <- bsum_sub.
    apply bsum_ext_inh. intros l _ Hsl Hl. apply nth_ind; [exact Hsl|lia].
  - rewrite lsum_pick_notin by exact Hn. symmetry.
    rewrite (bsum_ext_inh O h n _ (fun _ => 0)); [apply bsum_zero|].
    intros l Hl _ _. destruct (nth_error l p) as [x|] eqn:E; [|reflexivity].
    apply nth_error_In in E. unfold inh in Hl. rewrite Forall_forall in Hl.
    destruct (eqb_spec O x z) as [Exz|Nxz]; [|reflexivity]. subst x. exfalso. apply Hn. apply Hl. exact E.
Qed.

Theorem order_stat_correct (h : hist) n pos z : sasc O (keys h) -> (1 <= n)%Z -> (- n <= pos < n)%Z ->
  exists r, order_stat O h n pos = Ok r /\
    cnt O r z = bsum O h (Z.to_nat n)
                  (fun l => match nth_error l (Z.to_nat (if (pos <? 0)%Z then n + pos else pos)) with
                            | Some x => if eqb O x z then 1 else 0
                            | None => 0 end)%Z.
Proof.
  intros Hs Hn Hpos. unfold order_stat. destruct (Z.ltb_spec n 0) as [L|L]; [lia|].
  eexists. split; [reflexivity|].
  set (q := if pos <? 0 then n + pos else pos).
  assert (Hq : 0 <= q < n) by (unfold q; destruct (Z.ltb_spec pos 0); lia).
  remember (Z.to_nat q) as p eqn:Ep. assert (Eq : q = Z.of_nat p) by lia. rewrite Eq.
  apply os_at_cnt; [exact Hs|lia].
Qed.

Theorem order_stat_neg (h : hist) n pos : (n < 0)%Z -> order_stat O h n pos = Err ValueError.
Proof. intros H. unfold order_stat. destruct (Z.ltb_spec n 0) as [L|L]; [reflexivity|lia]. Qed.

(* ---------- 3b. summed over all positions ---------- *)
Lemma zsum_nth (f : T -> bool) l :
  zsum (fun p => match nth_error l p with Some x => if f x then 1 else 0 | None => 0 end) (length l)
  = Z.of_nat (countb f l).
Proof.
  induction l as [|x l IH]; [reflexivity|]. cbn [length]. rewrite zsum_shift. cbn [nth_error filter].
  rewrite IH. destruct (f x); cbn [length]; lia.
Qed.

Lemma bsum_count (pred : T -> bool) (h : hist) n :
  bsum O h (S n) (fun l => Z.of_nat (countb pred l)) = Z.of_nat (S n) * wt pred h * zpow (total h) n.
Proof.
  induction n as [|n IH].
  - rewrite (bsum_step_pred pred h 0 Z.of_nat). cbn [bsum filter length zpow]. change (Z.of_nat 0) with 0.
    change (Z.of_nat 1) with 1. ring.
  - rewrite (bsum_step_pred pred h (S n) Z.of_nat).
    rewrite (bsum_ext O h (S n) (fun l => Z.of_nat (S (countb pred l))) (fun l => 1 + Z.of_nat (countb pred l)))
      by (intros; lia).
    rewrite bsum_add, bsum_const, IH. rewrite (Nat2Z.inj_succ (S n)). cbn [zpow]. ring.
Qed.

Theorem order_stat_sum (h : hist) n z : sasc O (keys h) -> (1 <= n)%nat ->
  zsum (fun pos => cnt O (os_at O (betas O h n) (Z.of_nat pos)) z) n = (Z.of_nat n * cnt O h z * zpow (total h) (n - 1))%Z.
Proof.
  intros Hs Hn.
  rewrite (zsum_ext _ (fun pos => bsum O h n (fun l => match nth_error l pos with
                       | Some x => if eqb O x z then 1 else 0
                       | None => 0 end)) n) by (intros i Hi; apply os_at_cnt; assumption).
  rewrite (bsum_zsum h n (fun pos l => match nth_error l pos with
                       | Some x => if eqb O x z then 1 else 0
                       | None => 0 end) n).
  rewrite (bsum_ext_inh O h n _ (fun l => Z.of_nat (countb (fun x => eqb O x z) l))).
  2:{ intros l _ _ Hl. rewrite <- Hl. apply (zsum_nth (fun x => eqb O x z)). }
  destruct n as [|n]; [lia|]. rewrite bsum_count. replace (S n - 1)%nat with n by lia.
  rewrite cnt_as_lsum. reflexivity.
Qed.

(* ====================================================================== *)
(* 5. appearances                                                           *)
(* ====================================================================== *)
Lemma zsum_delta (Phi : nat -> Z) c m :
  zsum (fun k => Phi k * (if Nat.eqb c k then 1 else 0)) m = if (c <? m)%nat then Phi c else 0.
Proof.
  induction m as [|m IH]; cbn [zsum]; [reflexivity|]. rewrite IH.
  destruct (Nat.ltb_spec c m), (Nat.ltb_spec c (S m)), (Nat.eqb_spec c m); try lia; subst; ring.
Qed.

(* conditioning on the number of dice satisfying pred *)
Lemma bsum_by_count (pred : T -> bool) (h : hist) n (Phi : nat -> Z) :
  bsum O h n (fun l => Phi (countb pred l)) =
  zsum (fun k => bsum O h n (fun l => if Nat.eqb (countb pred l) k then 1 else 0) * Phi k) (S n).
Proof.
  rewrite (zsum_ext _ (fun k => bsum O h n (fun l => Phi k * (if Nat.eqb (countb pred l) k then 1 else 0))) (S n))
    by (intros k _; rewrite bsum_scale; ring).
  rewrite (bsum_zsum h n (fun k l => Phi k * (if Nat.eqb (countb pred l) k then 1 else 0)) (S n)).
  apply bsum_ext_inh. intros l _ _ Hl. rewrite zsum_delta.
  pose proof (filter_length_le pred l) as Hle.
  destruct (Nat.ltb_spec (countb pred l) (S n)); [reflexivity|lia].
Qed.

Definition grp_hist (o : T) (g : hist * nat) : Hist.hist Z :=
  mk ZO (map (fun k => (Z.of_nat k, exactly_k O (fst g) o (snd g) k)) (seq 0 (S (snd g)))).

Lemma groups_conv o gs : forall G : Z -> Z,
  pbsum ZO (map (grp_hist o) gs) (fun l => G (zs l)) =
  gsum O gs (fun ls => G (lsum (fun l => Z.of_nat (countb (eqb O o) l)) ls)).
Proof.
  induction gs as [|[h n] gs IH]; intros G; cbn [map pbsum gsum]; [reflexivity|].
  etransitivity.
  { unfold grp_hist at 1.
    apply (push_mk ZO _ (fun x => pbsum ZO (map (grp_hist o) gs) (fun l => G (zs (insert ZO x l))))). }
  unfold push. rewrite lsum_map. cbn [fst snd]. rewrite lsum_seq. cbn [Nat.add lsum].
  rewrite (bsum_by_count (eqb O o) h n
             (fun c => gsum O gs (fun ls => G (Z.of_nat c + lsum (fun l => Z.of_nat (countb (eqb O o) l)) ls)))).
  apply zsum_ext. intros k _. rewrite exactly_is_brute_gen. f_equal.
  rewrite <- (IH (fun s => G (Z.of_nat k + s))). apply pbsum_ext. intros l. f_equal.
  apply (tsum_insert ZO 0 Z.add Z.add_comm Z.add_assoc).
Qed.

Lemma countb_concat (f : T -> bool) (ls : list (list T)) :
  Z.of_nat (countb f (concat ls)) = lsum (fun l => Z.of_nat (countb f l)) ls.
Proof.
  induction ls as [|l ls IH]; cbn [concat lsum]; [reflexivity|].
  rewrite filter_app, app_length, Nat2Z.inj_add, IH. reflexivity.
Qed.

Lemma countb_isort (f : T -> bool) l : countb f (isort O l) = countb f l.
Proof. symmetry. apply Permutation_length. apply perm_filter. apply isort_perm. Qed.

Theorem appearances_correct (p : list hist) o k :
  Forall (fun h => sasc O (keys h)) p -> p <> [] ->
  cnt ZO (appearances O p o) k =
  pbsum O p (fun l => if (Z.of_nat (length (filter (eqb O o) l)) =? k)%Z then 1 else 0)%Z.
Proof.
  intros _ Hp.
  change (appearances O p o) with (sum_h ZO 0 Z.add (map (grp_hist o) (h_groups O p))).
  assert (Hne : map (grp_hist o) (h_groups O p) <> []).
  { pose proof (h_groups_expand O p) as E. destruct (h_groups O p); [|discriminate].
    cbn in E. subst p. contradiction. }
  rewrite cnt_push.
  rewrite (sum_h_pushforward ZO 0 Z.add Z.add_comm Z.add_assoc Z.add_0_l) by exact Hne.
  rewrite (groups_conv o (h_groups O p) (fun s => if eqb ZO s k then 1 else 0)).
  transitivity (pbsum O (expand_groups (h_groups O p))
                  (fun l => if Z.of_nat (countb (eqb O o) l) =? k then 1 else 0));
    [|rewrite h_groups_expand; reflexivity].
  rewrite pbsum_groups. apply gsum_ext. intros ls.
  rewrite countb_isort, countb_concat. reflexivity.
Qed.

End Main.

Print Assumptions os_cache_transparent.
Print Assumptions beta_cnt.
Print Assumptions exactly_is_brute.
Print Assumptions exactly_is_beta.
Print Assumptions order_stat_correct.
Print Assumptions order_stat_neg.
Print Assumptions order_stat_sum.
Print Assumptions appearances_correct.
