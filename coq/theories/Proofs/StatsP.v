(* H.distribution / mean / variance (Model/Stats.v): probabilities sum to one, the variance
   formula equals its definition, invariance under count scaling / zero-count padding /
   count-function extensionality, and additivity of mean and variance for independent sums. *)
From Coq Require Import ZArith QArith Qcanon List Bool Lia Permutation.
From Dyce Require Import Base.Sums Base.Order Base.Hist Base.QcOrd Model.Stats Model.Arith Proofs.ArithP.
Import ListNotations.
Open Scope Z_scope.

(* ---------- zq : Z -> Qc is an injective ring morphism ---------- *)
Lemma zq_0 : zq 0 = 0%Qc. Proof. reflexivity. Qed.
Lemma zq_1 : zq 1 = 1%Qc. Proof. reflexivity. Qed.
Lemma zq_add a b : zq (a + b) = (zq a + zq b)%Qc.
Proof. unfold zq, Qcplus. apply Q2Qc_eq_iff. cbn [this Q2Qc]. rewrite !Qred_correct.
  rewrite inject_Z_plus. reflexivity. Qed.
Lemma zq_mul a b : zq (a * b) = (zq a * zq b)%Qc.
Proof. unfold zq, Qcmult. apply Q2Qc_eq_iff. cbn [this Q2Qc]. rewrite !Qred_correct.
  rewrite inject_Z_mult. reflexivity. Qed.
Lemma zq_inj a b : zq a = zq b -> a = b.
Proof. unfold zq. intros H. apply Q2Qc_eq_iff in H. apply inject_Z_injective. exact H. Qed.
Lemma zq_nz a : a <> 0 -> zq a <> 0%Qc.
Proof. intros N E. apply N. apply zq_inj. rewrite zq_0. exact E. Qed.

(* ---------- algebra of qsum ---------- *)
Section Q.
Context {A : Type}.
Lemma qsum_ext (l : list A) f g : (forall x, In x l -> f x = g x) -> qsum f l = qsum g l.
Proof. induction l as [|x l IH]; intros H; cbn [qsum]; [reflexivity|].
  rewrite IH by (intros; apply H; right; assumption). rewrite (H x) by (left; reflexivity). reflexivity. Qed.
Lemma qsum_add (l : list A) f g : qsum (fun x => f x + g x)%Qc l = (qsum f l + qsum g l)%Qc.
Proof. induction l as [|x l IH]; cbn [qsum]; [ring|]. rewrite IH. ring. Qed.
Lemma qsum_scale (l : list A) c f : qsum (fun x => c * f x)%Qc l = (c * qsum f l)%Qc.
Proof. induction l as [|x l IH]; cbn [qsum]; [ring|]. rewrite IH. ring. Qed.
Lemma qsum_scale_r (l : list A) c f : qsum (fun x => f x * c)%Qc l = (qsum f l * c)%Qc.
Proof. induction l as [|x l IH]; cbn [qsum]; [ring|]. rewrite IH. ring. Qed.
Lemma qsum_app (l1 l2 : list A) f : qsum f (l1 ++ l2) = (qsum f l1 + qsum f l2)%Qc.
Proof. induction l1 as [|x l IH]; cbn [qsum app]; [ring|]. rewrite IH. ring. Qed.
Lemma qsum_zero (l : list A) : qsum (fun _ => 0%Qc) l = 0%Qc.
Proof. induction l as [|x l IH]; cbn [qsum]; [reflexivity|]. rewrite IH. ring. Qed.
End Q.
Lemma qsum_map {A B} (g : A -> B) (f : B -> Qc) l : qsum f (map g l) = qsum (fun x => f (g x)) l.
Proof. induction l as [|x l IH]; cbn [qsum map]; [reflexivity|]. rewrite IH. reflexivity. Qed.
Lemma qsum_flat_map {A B} (g : A -> list B) (f : B -> Qc) l :
  qsum f (flat_map g l) = qsum (fun x => qsum f (g x)) l.
Proof. induction l as [|x l IH]; cbn [qsum flat_map]; [reflexivity|]. rewrite qsum_app, IH. reflexivity. Qed.
Lemma qsum_zq {A} (f : A -> Z) l : qsum (fun x => zq (f x)) l = zq (lsum f l).
Proof. induction l as [|x l IH]; cbn [qsum lsum]; [reflexivity|]. rewrite IH, zq_add. reflexivity. Qed.

(* double sums *)
Lemma qsum2_ext {A B} (a : list A) (b : list B) (F G : A -> B -> Qc) :
  (forall x y, F x y = G x y) ->
  qsum (fun x => qsum (fun y => F x y) b) a = qsum (fun x => qsum (fun y => G x y) b) a.
Proof. intros H. apply qsum_ext. intros x _. apply qsum_ext. intros y _. apply H. Qed.
Lemma qsum2_add {A B} (a : list A) (b : list B) (F G : A -> B -> Qc) :
  qsum (fun x => qsum (fun y => F x y + G x y)%Qc b) a =
  (qsum (fun x => qsum (fun y => F x y) b) a + qsum (fun x => qsum (fun y => G x y) b) a)%Qc.
Proof. rewrite <- qsum_add. apply qsum_ext. intros x _. apply qsum_add. Qed.
Lemma qsum2_prod {A B} (a : list A) (b : list B) (f : A -> Qc) (g : B -> Qc) :
  qsum (fun x => qsum (fun y => f x * g y)%Qc b) a = (qsum f a * qsum g b)%Qc.
Proof. rewrite <- qsum_scale_r. apply qsum_ext. intros x _. apply qsum_scale. Qed.

(* ---------- count-weighted sums: sum of g(outcome) * count ---------- *)
Definition wsum (g : Qc -> Qc) (h : hist Qc) : Qc := qsum (fun oc => g (fst oc) * zq (snd oc))%Qc h.

Lemma mean_wsum h : mean h = (wsum (fun x => x) h / zq (tot1 h))%Qc.
Proof. reflexivity. Qed.
Lemma variance_wsum h : variance h = (wsum (fun x => x * x)%Qc h / zq (tot1 h) - mean h * mean h)%Qc.
Proof. reflexivity. Qed.
Lemma wsum_one h : wsum (fun _ => 1%Qc) h = zq (total h).
Proof. unfold wsum, total. rewrite <- qsum_zq. apply qsum_ext. intros x _. ring. Qed.
Lemma wsum_cons g o c h : wsum g ((o, c) :: h) = (g o * zq c + wsum g h)%Qc.
Proof. reflexivity. Qed.

Lemma tot1_pos h : total h <> 0 -> tot1 h = total h.
Proof. unfold tot1. intros H. destruct (Z.eqb_spec (total h) 0); [contradiction|reflexivity]. Qed.
Lemma tot1_zero h : total h = 0 -> tot1 h = 1.
Proof. unfold tot1. intros H. rewrite H. reflexivity. Qed.
Lemma tot1_nz h : tot1 h <> 0.
Proof. unfold tot1. destruct (Z.eqb_spec (total h) 0); lia. Qed.

(* the sorted-insert accumulation preserves count-weighted sums *)
Lemma wsum_hins g o c h : wsum g (hins VO o c h) = (g o * zq c + wsum g h)%Qc.
Proof. induction h as [|[o' c'] h IH]; cbn [hins]; [reflexivity|].
  destruct (eqb_spec VO o o') as [E|N].
  - subst o'. rewrite !wsum_cons, zq_add. ring.
  - destruct (leb VO o o'); [reflexivity|]. rewrite !wsum_cons, IH. ring. Qed.
Lemma wsum_mk g l : wsum g (mk VO l) = wsum g l.
Proof. induction l as [|[o c] l IH]; cbn [mk fold_right fst snd]; [reflexivity|]. fold (mk VO l).
  rewrite wsum_hins, IH. reflexivity. Qed.

(* ---------- distribution ---------- *)
Theorem distribution_keys h : map fst (distribution h) = keys h.
Proof. unfold distribution, keys. rewrite map_map. reflexivity. Qed.
Theorem distribution_entry h o c : In (o, c) h -> In (o, (c, tot1 h)) (distribution h).
Proof. intros H. unfold distribution.
  exact (in_map (fun oc : Qc * Z => (fst oc, (snd oc, tot1 h))) h (o, c) H). Qed.
Theorem distribution_length h : length (distribution h) = length h.
Proof. unfold distribution. apply map_length. Qed.

Theorem prob_sum_one h : 0 < total h -> qsum (prob h) h = Q2Qc 1.
Proof. intros H. unfold prob. rewrite tot1_pos by lia.
  assert (Hz : zq (total h) <> 0%Qc) by (apply zq_nz; lia).
  unfold Qcdiv. rewrite qsum_scale_r. rewrite (qsum_zq (@snd Qc Z) h). fold (total h).
  field. exact Hz. Qed.

(* ---------- variance = E[(X - mu)^2] ---------- *)
Lemma wsum_add g1 g2 h : wsum (fun x => g1 x + g2 x)%Qc h = (wsum g1 h + wsum g2 h)%Qc.
Proof. unfold wsum. rewrite <- qsum_add. apply qsum_ext. intros x _. ring. Qed.
Lemma wsum_scale c g h : wsum (fun x => c * g x)%Qc h = (c * wsum g h)%Qc.
Proof. unfold wsum. rewrite <- qsum_scale. apply qsum_ext. intros x _. ring. Qed.
Lemma wsum_ext g1 g2 h : (forall x, g1 x = g2 x) -> wsum g1 h = wsum g2 h.
Proof. intros H. unfold wsum. apply qsum_ext. intros x _. rewrite H. reflexivity. Qed.

Lemma variance_is_spec_nz h : total h <> 0 -> variance h = variance_spec h.
Proof. intros H.
  assert (Hz : zq (total h) <> 0%Qc) by (apply zq_nz; exact H).
  unfold variance_spec. fold (wsum (fun x => (x - mean h) * (x - mean h))%Qc h).
  rewrite variance_wsum.
  rewrite (wsum_ext (fun x => (x - mean h) * (x - mean h))%Qc
            (fun x => x * x + ((- (1 + 1) * mean h) * x + (mean h * mean h) * 1))%Qc)
    by (intros x; ring).
  rewrite wsum_add, wsum_add, !wsum_scale, wsum_one.
  assert (Hm : wsum (fun x => x) h = (mean h * zq (total h))%Qc).
  { rewrite mean_wsum, tot1_pos by exact H. field. exact Hz. }
  rewrite Hm. rewrite tot1_pos by exact H.
  set (S2 := wsum (fun x => x * x)%Qc h). set (m := mean h). set (t := zq (total h)) in *.
  field. exact Hz. Qed.
Theorem variance_is_spec h : 0 < total h -> variance h = variance_spec h.
Proof. intros H. apply variance_is_spec_nz. lia. Qed.

(* ---------- scaling of counts ---------- *)
Definition scaleh (k : Z) (h : hist Qc) : hist Qc := map (fun oc => (fst oc, k * snd oc)) h.

Lemma total_scaleh k h : total (scaleh k h) = k * total h.
Proof. unfold total, scaleh. rewrite lsum_map. cbn [snd]. apply lsum_scale. Qed.
Lemma wsum_scaleh g k h : wsum g (scaleh k h) = (zq k * wsum g h)%Qc.
Proof. unfold wsum, scaleh. rewrite qsum_map, <- qsum_scale. apply qsum_ext. intros x _.
  cbn [fst snd]. rewrite zq_mul. ring. Qed.
Lemma nonneg_total0 (h : hist Qc) : nonneg h -> total h = 0 -> forall oc, In oc h -> snd oc = 0.
Proof. unfold nonneg, total. induction h as [|x h IH]; intros Hn Ht oc Hin; [destruct Hin|].
  cbn [lsum] in Ht.
  assert (H0 : 0 <= snd x) by (apply Hn; left; reflexivity).
  assert (H1 : 0 <= lsum (@snd Qc Z) h) by (apply lsum_nonneg; intros; apply Hn; right; assumption).
  destruct Hin as [E|Hin]; [subst oc; lia|].
  apply IH; [intros; apply Hn; right; assumption|lia|exact Hin]. Qed.
Lemma wsum_total0 g h : nonneg h -> total h = 0 -> wsum g h = 0%Qc.
Proof. intros Hn Ht. unfold wsum. rewrite <- (qsum_zero h). apply qsum_ext. intros x Hx.
  rewrite (nonneg_total0 h Hn Ht x Hx), zq_0. ring. Qed.

(* the common shape: a count-weighted sum over (total or 1) *)
Lemma ratio_scale g k h : k <> 0 -> (total h <> 0 \/ nonneg h) ->
  (wsum g (scaleh k h) / zq (tot1 (scaleh k h)) = wsum g h / zq (tot1 h))%Qc.
Proof. intros Hk Hh. rewrite wsum_scaleh.
  destruct (Z.eq_dec (total h) 0) as [E|N].
  - destruct Hh as [Hh|Hh]; [contradiction|].
    rewrite (wsum_total0 g h Hh E). rewrite !tot1_zero by (rewrite ?total_scaleh; lia).
    rewrite zq_1. field. discriminate.
  - rewrite !tot1_pos by (rewrite ?total_scaleh; lia). rewrite total_scaleh, zq_mul.
    assert (Hz : zq (total h) <> 0%Qc) by (apply zq_nz; exact N).
    assert (Hzk : zq k <> 0%Qc) by (apply zq_nz; exact Hk).
    field. split; assumption. Qed.

Lemma mean_scale_gen k h : k <> 0 -> (total h <> 0 \/ nonneg h) -> mean (scaleh k h) = mean h.
Proof. intros Hk Hh. rewrite !mean_wsum. apply ratio_scale; assumption. Qed.
Lemma variance_scale_gen k h : k <> 0 -> (total h <> 0 \/ nonneg h) -> variance (scaleh k h) = variance h.
Proof. intros Hk Hh. rewrite !variance_wsum. rewrite mean_scale_gen by assumption.
  rewrite ratio_scale by assumption. reflexivity. Qed.

Theorem mean_scale k h : 0 < k -> nonneg h -> mean (scaleh k h) = mean h.
Proof. intros Hk Hh. apply mean_scale_gen; [lia|right; exact Hh]. Qed.
Theorem variance_scale k h : 0 < k -> nonneg h -> variance (scaleh k h) = variance h.
Proof. intros Hk Hh. apply variance_scale_gen; [lia|right; exact Hh]. Qed.
Theorem mean_scale_nz k h : k <> 0 -> total h <> 0 -> mean (scaleh k h) = mean h.
Proof. intros Hk Hh. apply mean_scale_gen; [exact Hk|left; exact Hh]. Qed.
Theorem variance_scale_nz k h : k <> 0 -> total h <> 0 -> variance (scaleh k h) = variance h.
Proof. intros Hk Hh. apply variance_scale_gen; [exact Hk|left; exact Hh]. Qed.

(* without [nonneg h] (or total h <> 0) the statements are false: counts 1 and -1 *)
Definition cex : hist Qc := [(qc 1 1, 1); (qc 2 1, -1)].
Example mean_scale_needs_nonneg : 0 < 2 /\ mean (scaleh 2 cex) <> mean cex.
Proof. split; [lia|]. intros H. apply (f_equal this) in H. vm_compute in H. discriminate. Qed.
Example variance_scale_needs_nonneg : 0 < 2 /\ variance (scaleh 2 cex) <> variance cex.
Proof. split; [lia|]. intros H. apply (f_equal this) in H. vm_compute in H. discriminate. Qed.

(* ---------- zero-count padding ---------- *)
Lemma total_zero_pad (h : hist Qc) o : total ((o, 0) :: h) = total h.
Proof. unfold total. cbn [lsum snd]. lia. Qed.
Lemma tot1_zero_pad h o : tot1 ((o, 0) :: h) = tot1 h.
Proof. unfold tot1. rewrite total_zero_pad. reflexivity. Qed.
Lemma wsum_zero_pad g h o : wsum g ((o, 0) :: h) = wsum g h.
Proof. rewrite wsum_cons, zq_0. ring. Qed.
Theorem mean_zero_pad h o : mean ((o, 0) :: h) = mean h.
Proof. rewrite !mean_wsum, wsum_zero_pad, tot1_zero_pad. reflexivity. Qed.
Theorem variance_zero_pad h o : variance ((o, 0) :: h) = variance h.
Proof. rewrite !variance_wsum, mean_zero_pad, wsum_zero_pad, tot1_zero_pad. reflexivity. Qed.

(* ---------- dependence on the count function only ---------- *)
Lemma wsum_nz g h : wsum g (nz h) = wsum g h.
Proof. induction h as [|[o c] h IH]; [reflexivity|]. unfold nz in *. cbn [filter snd].
  destruct (Z.eqb_spec c 0) as [E|N]; cbn [negb].
  - subst c. rewrite wsum_zero_pad. exact IH.
  - rewrite !wsum_cons, IH. reflexivity. Qed.
Lemma wsum_cnt_ext g a b : sasc VO (keys a) -> sasc VO (keys b) ->
  (forall z, cnt VO a z = cnt VO b z) -> wsum g a = wsum g b.
Proof. intros Ha Hb Hc. rewrite <- (wsum_nz g a), <- (wsum_nz g b).
  rewrite (nz_eq VO a b Ha Hb Hc). reflexivity. Qed.
Lemma total_cnt_ext a b : sasc VO (keys a) -> sasc VO (keys b) ->
  (forall z, cnt VO a z = cnt VO b z) -> total a = total b.
Proof. intros Ha Hb Hc. apply zq_inj. rewrite <- !wsum_one. apply wsum_cnt_ext; assumption. Qed.
Lemma tot1_cnt_ext a b : sasc VO (keys a) -> sasc VO (keys b) ->
  (forall z, cnt VO a z = cnt VO b z) -> tot1 a = tot1 b.
Proof. intros Ha Hb Hc. unfold tot1. rewrite (total_cnt_ext a b Ha Hb Hc). reflexivity. Qed.
Theorem mean_cnt_ext a b : sasc VO (keys a) -> sasc VO (keys b) ->
  (forall z, cnt VO a z = cnt VO b z) -> mean a = mean b.
Proof. intros Ha Hb Hc. rewrite !mean_wsum.
  rewrite (wsum_cnt_ext _ a b Ha Hb Hc), (tot1_cnt_ext a b Ha Hb Hc). reflexivity. Qed.
Theorem variance_cnt_ext a b : sasc VO (keys a) -> sasc VO (keys b) ->
  (forall z, cnt VO a z = cnt VO b z) -> variance a = variance b.
Proof. intros Ha Hb Hc. rewrite !variance_wsum. rewrite (mean_cnt_ext a b Ha Hb Hc).
  rewrite (wsum_cnt_ext _ a b Ha Hb Hc), (tot1_cnt_ext a b Ha Hb Hc). reflexivity. Qed.

(* ---------- independent sums ---------- *)
Lemma wsum_hmapT g op a b :
  wsum g (hmapT VO op a b) =
  qsum (fun x => qsum (fun y => g (op (fst x) (fst y)) * (zq (snd x) * zq (snd y)))%Qc b) a.
Proof. unfold hmapT. rewrite wsum_mk. unfold wsum. rewrite qsum_flat_map.
  apply qsum_ext. intros x _. rewrite qsum_map. apply qsum_ext. intros y _.
  cbn [fst snd]. rewrite zq_mul. reflexivity. Qed.

Lemma qsum_total (h : hist Qc) : qsum (fun x => zq (snd x)) h = zq (total h).
Proof. exact (qsum_zq (@snd Qc Z) h). Qed.

Lemma wsum1_add a b :
  wsum (fun x => x) (hmapT VO Qcplus a b) =
  (wsum (fun x => x) a * zq (total b) + zq (total a) * wsum (fun x => x) b)%Qc.
Proof. rewrite wsum_hmapT.
  rewrite (qsum2_ext a b _ (fun x y => (fst x * zq (snd x)) * zq (snd y)
                                       + zq (snd x) * (fst y * zq (snd y)))%Qc)
    by (intros x y; ring).
  rewrite qsum2_add, !qsum2_prod, !qsum_total. reflexivity. Qed.

Lemma wsum2_add a b :
  wsum (fun x => x * x)%Qc (hmapT VO Qcplus a b) =
  (wsum (fun x => x * x) a * zq (total b)
   + (1 + 1) * (wsum (fun x => x) a * wsum (fun x => x) b)
   + zq (total a) * wsum (fun x => x * x) b)%Qc.
Proof. rewrite wsum_hmapT.
  rewrite (qsum2_ext a b _ (fun x y => (fst x * fst x * zq (snd x)) * zq (snd y)
                                       + (((1 + 1) * (fst x * zq (snd x))) * (fst y * zq (snd y))
                                          + zq (snd x) * (fst y * fst y * zq (snd y))))%Qc)
    by (intros x y; ring).
  rewrite qsum2_add, qsum2_add, !qsum2_prod, !qsum_total. rewrite (qsum_scale a (1 + 1)%Qc).
  fold (wsum (fun x => x) a) (wsum (fun x => x) b).
  fold (wsum (fun x => x * x)%Qc a) (wsum (fun x => x * x)%Qc b).
  ring. Qed.

Lemma mean_add_nz a b : total a <> 0 -> total b <> 0 ->
  mean (hmapT VO Qcplus a b) = (mean a + mean b)%Qc.
Proof. intros Ha Hb. rewrite !mean_wsum, wsum1_add.
  rewrite !tot1_pos by (rewrite ?hmapT_total; nia). rewrite hmapT_total, zq_mul.
  assert (Hza : zq (total a) <> 0%Qc) by (apply zq_nz; exact Ha).
  assert (Hzb : zq (total b) <> 0%Qc) by (apply zq_nz; exact Hb).
  set (Na := wsum (fun x => x) a). set (Nb := wsum (fun x => x) b).
  set (Ta := zq (total a)) in *. set (Tb := zq (total b)) in *.
  field. split; assumption. Qed.
Theorem mean_add a b : 0 < total a -> 0 < total b ->
  mean (hmapT VO Qcplus a b) = (mean a + mean b)%Qc.
Proof. intros Ha Hb. apply mean_add_nz; lia. Qed.

Lemma variance_add_nz a b : total a <> 0 -> total b <> 0 ->
  variance (hmapT VO Qcplus a b) = (variance a + variance b)%Qc.
Proof. intros Ha Hb. rewrite !variance_wsum, wsum2_add. rewrite mean_add_nz by assumption.
  rewrite !mean_wsum.
  rewrite !tot1_pos by (rewrite ?hmapT_total; nia). rewrite hmapT_total, zq_mul.
  assert (Hza : zq (total a) <> 0%Qc) by (apply zq_nz; exact Ha).
  assert (Hzb : zq (total b) <> 0%Qc) by (apply zq_nz; exact Hb).
  set (Na := wsum (fun x => x) a). set (Nb := wsum (fun x => x) b).
  set (Sa := wsum (fun x => x * x)%Qc a). set (Sb := wsum (fun x => x * x)%Qc b).
  set (Ta := zq (total a)) in *. set (Tb := zq (total b)) in *.
  field. split; assumption. Qed.
Theorem variance_add a b : 0 < total a -> 0 < total b ->
  variance (hmapT VO Qcplus a b) = (variance a + variance b)%Qc.
Proof. intros Ha Hb. apply variance_add_nz; lia. Qed.

Print Assumptions prob_sum_one.
Print Assumptions variance_is_spec.
Print Assumptions mean_add.
Print Assumptions variance_add.
Print Assumptions mean_scale.
Print Assumptions variance_scale.
Print Assumptions variance_cnt_ext.
Print Assumptions variance_zero_pad.
