(* Merging sorted partial selections: the k smallest (largest) of a union only depend on
   the k smallest (largest) of each part; brute-force enumeration over a concatenation of
   pools, and over a pool made of groups of identical dice. *)
From Coq Require Import ZArith List Lia Bool Arith Permutation Sorted.
From Dyce Require Import Base.Sums Base.Order Base.Hist Base.Brute.
Import ListNotations. Open Scope Z_scope.

(* order-independent list facts *)
Definition lastn {A} (k : nat) (l : list A) : list A := skipn (length l - k) l.

Lemma lastn_rev_firstn {A} k (l : list A) : lastn k l = rev (firstn k (rev l)).
Proof. unfold lastn. rewrite firstn_rev, rev_involutive. reflexivity. Qed.

Lemma concat_map_rev_perm {A} (g : list A -> list A) (ls : list (list A)) :
  Permutation (concat (map (fun l => rev (g l)) ls)) (concat (map g ls)).
Proof. induction ls as [|l ls IH]; cbn [map concat]; [reflexivity|].
  apply Permutation_app; [symmetry; apply Permutation_rev|exact IH]. Qed.

Lemma map_ext_all {A B} (f g : A -> B) l : (forall x, f x = g x) -> map f l = map g l.
Proof. intros H. apply map_ext. exact H. Qed.

Section P.
Context {T : Type} (O : ord T).

(* ---------- 1. the k smallest ---------- *)

(* the first k elements of an insertion only depend on the first k elements of the list
   (no sortedness needed) *)
Lemma firstn_insert_firstn x : forall k s,
  firstn k (insert O x s) = firstn k (insert O x (firstn k s)).
Proof.
  induction k as [|k IH]; intros s; [reflexivity|].
  destruct s as [|y t]; [reflexivity|].
  cbn [firstn insert]. destruct (leb O x y) eqn:E.
  - cbn [firstn]. f_equal.
    change (y :: firstn k t) with (firstn (S k) (y :: t)).
    rewrite firstn_firstn. replace (Nat.min k (S k)) with k by lia. reflexivity.
  - cbn [firstn]. f_equal. apply IH.
Qed.

Lemma sorted_firstn k l : sorted O l -> sorted O (firstn k l).
Proof.
  unfold sorted. intros H. revert k. induction H as [|x l Hs IH Hx]; intros k.
  - rewrite firstn_nil. constructor.
  - destruct k as [|k]; cbn [firstn]; [constructor|]. constructor; [apply IH|].
    rewrite Forall_forall in *. intros y Hy. apply Hx.
    rewrite <- (firstn_skipn k l). apply in_or_app. left. exact Hy.
Qed.

Lemma firstn_isort_firstn_isort k l :
  firstn k (isort O (firstn k (isort O l))) = firstn k (isort O l).
Proof.
  rewrite (isort_id O (firstn k (isort O l))) by (apply sorted_firstn, isort_sorted).
  rewrite firstn_firstn. rewrite Nat.min_id. reflexivity.
Qed.

Lemma firstn_isort_app_r k b : forall a,
  firstn k (isort O (a ++ b)) = firstn k (isort O (a ++ firstn k (isort O b))).
Proof.
  induction a as [|x a IH].
  - cbn [app]. symmetry. apply firstn_isort_firstn_isort.
  - cbn [app isort].
    rewrite (firstn_insert_firstn x k (isort O (a ++ b))).
    rewrite (firstn_insert_firstn x k (isort O (a ++ firstn k (isort O b)))).
    rewrite IH. reflexivity.
Qed.

Lemma firstn_isort_app_l k a b :
  firstn k (isort O (a ++ b)) = firstn k (isort O (firstn k (isort O a) ++ b)).
Proof.
  rewrite (isort_app_comm O a b), firstn_isort_app_r.
  rewrite (isort_app_comm O b). reflexivity.
Qed.

Lemma firstn_isort_app k a b :
  firstn k (isort O (a ++ b)) = firstn k (isort O (firstn k (isort O a) ++ firstn k (isort O b))).
Proof. rewrite firstn_isort_app_l, firstn_isort_app_r. reflexivity. Qed.

Lemma firstn_isort_concat k (ls : list (list T)) :
  firstn k (isort O (concat ls)) = firstn k (isort O (concat (map (fun l => firstn k (isort O l)) ls))).
Proof.
  induction ls as [|l ls IH]; [reflexivity|].
  cbn [map concat].
  rewrite (firstn_isort_app k l (concat ls)), IH.
  rewrite (firstn_isort_app k (firstn k (isort O l))
             (concat (map (fun l => firstn k (isort O l)) ls))).
  rewrite firstn_isort_firstn_isort. reflexivity.
Qed.

(* ---------- 3. brute force over a concatenation of pools ---------- *)

Lemma insert_isort_app x l1 l2 :
  insert O x (isort O (l1 ++ l2)) = isort O (insert O x l1 ++ l2).
Proof.
  change (insert O x (isort O (l1 ++ l2))) with (isort O ((x :: l1) ++ l2)).
  apply isort_of_perm. apply Permutation_app_tail. apply insert_perm.
Qed.

Lemma pbsum_app (p q : list (hist T)) F :
  pbsum O (p ++ q) F = pbsum O p (fun l1 => pbsum O q (fun l2 => F (isort O (l1 ++ l2)))).
Proof.
  revert F. induction p as [|h p IH]; intros F.
  - cbn [app pbsum]. apply pbsum_ext_s. intros l Hs _. rewrite isort_id by exact Hs. reflexivity.
  - cbn [app pbsum]. apply lsum_ext. intros f _. f_equal. rewrite IH.
    apply pbsum_ext. intros l1. apply pbsum_ext. intros l2.
    rewrite insert_isort_app. reflexivity.
Qed.

Definition expand_groups (gs : list (hist T * nat)) : list (hist T) :=
  concat (map (fun g => repeat (fst g) (snd g)) gs).
Fixpoint gsum (gs : list (hist T * nat)) (F : list (list T) -> Z) : Z :=
  match gs with
  | [] => F []
  | (h, n) :: gs' => bsum O h n (fun l => gsum gs' (fun ls => F (l :: ls)))
  end.

Lemma gsum_ext gs : forall F G, (forall ls, F ls = G ls) -> gsum gs F = gsum gs G.
Proof.
  induction gs as [|[h n] gs IH]; intros F G H; cbn [gsum]; [apply H|].
  apply bsum_ext. intros l. apply IH. intros ls. apply H.
Qed.

Lemma pbsum_groups gs F :
  pbsum O (expand_groups gs) F = gsum gs (fun ls => F (isort O (concat ls))).
Proof.
  revert F. induction gs as [|[h n] gs IH]; intros F; [reflexivity|].
  unfold expand_groups. cbn [map concat fst snd gsum]. fold (expand_groups gs).
  rewrite pbsum_app, pbsum_repeat.
  apply bsum_ext. intros l. rewrite IH.
  apply gsum_ext. intros ls. cbn [concat].
  rewrite isort_app_isort_r. reflexivity.
Qed.

End P.

(* ---------- 2. the k largest, through the flipped order ---------- *)
Section L.
Context {T : Type} (O : ord T).

Lemma lastn_isort_flip k (l : list T) :
  lastn k (isort O l) = rev (firstn k (isort (flip_ord O) l)).
Proof. rewrite lastn_rev_firstn, isort_flip. reflexivity. Qed.

Lemma lastn_isort_concat k (ls : list (list T)) :
  lastn k (isort O (concat ls)) = lastn k (isort O (concat (map (fun l => lastn k (isort O l)) ls))).
Proof.
  rewrite !lastn_isort_flip. f_equal.
  rewrite (firstn_isort_concat (flip_ord O) k ls). f_equal.
  apply isort_of_perm.
  rewrite (map_ext_all (fun l => lastn k (isort O l))
                       (fun l => rev (firstn k (isort (flip_ord O) l)))) by (intros; apply lastn_isort_flip).
  symmetry. apply (concat_map_rev_perm (fun l => firstn k (isort (flip_ord O) l))).
Qed.

(* the pairwise versions *)
Lemma lastn_isort_app k (a b : list T) :
  lastn k (isort O (a ++ b)) = lastn k (isort O (lastn k (isort O a) ++ lastn k (isort O b))).
Proof.
  pose proof (lastn_isort_concat k [a; b]) as H. cbn [map concat] in H.
  rewrite !app_nil_r in H. exact H.
Qed.
End L.

Print Assumptions firstn_isort_concat.
Print Assumptions lastn_isort_concat.
Print Assumptions pbsum_app.
Print Assumptions pbsum_groups.
