From Coq Require Import ZArith List Bool Lia Permutation.
From Dyce Require Import Base.Sums Base.Order Base.Hist Model.Draw.
Import ListNotations.
Open Scope Z_scope.

Section P.
Context {T : Type} (O : ord T).
Local Notation cnt := (cnt O).
Local Notation mk := (mk O).

Lemma cnt_map_neg (r : list (T * Z)) z : cnt (map (fun oc => (fst oc, - snd oc)) r) z = - cnt r z.
Proof. induction r as [|[o c] r IH]; cbn [map cnt fst snd]; [reflexivity|]. rewrite IH. destruct (eqb O o z); ring. Qed.

Lemma cnt_subtracted h r z : cnt (subtracted O h r) z = cnt h z - cnt r z.
Proof. unfold subtracted. rewrite cnt_mk, <- cnt_as_lsum, cnt_app, cnt_map_neg. ring. Qed.

Lemma in_sasc_cnt (h : hist T) o c : sasc O (keys h) -> In (o, c) h -> cnt h o = c.
Proof. induction h as [|[o' c'] h IH]; [intros _ []|]. intros Hs Hin.
  pose proof (sasc_head_notin O _ _ Hs) as Hn. destruct Hs as [Hlt Hs]. cbn [cnt].
  destruct Hin as [E|Hin].
  - injection E as -> ->. rewrite (eqb_refl O). rewrite (cnt_notin O h o Hn). ring.
  - destruct (eqb_spec O o' o) as [E|N].
    + subst o'. exfalso. apply Hn. apply (in_map fst) in Hin. exact Hin.
    + rewrite (IH Hs Hin). ring. Qed.

Lemma keys_subtracted h r y : In y (keys (subtracted O h r)) <-> In y (keys h) \/ In y (keys r).
Proof. unfold subtracted. rewrite in_keys_mk, map_app, in_app_iff, map_map. cbn [fst]. reflexivity. Qed.

Theorem draw_ok h r h' : draw O h r = Ok h' ->
  (forall z, cnt h' z = cnt h z - cnt r z) /\
  (forall y, In y (keys h') <-> In y (keys h) \/ In y (keys r)) /\
  wf O h' /\ total h' = total h - total r.
Proof.
  unfold draw. destruct (would_go_negative O h r); [discriminate|].
  destruct (existsb _ (subtracted O h r)) eqn:E; [discriminate|]. intros H. injection H as <-.
  split; [apply cnt_subtracted|]. split; [apply keys_subtracted|]. split.
  - split; [apply sasc_mk|]. intros oc Hin. destruct (Z.ltb_spec (snd oc) 0) as [L|L]; [|exact L]. exfalso.
    assert (existsb (fun oc => snd oc <? 0) (subtracted O h r) = true); [|congruence].
    apply existsb_exists. exists oc. split; [exact Hin|apply Z.ltb_lt; exact L].
  - unfold subtracted. rewrite total_mk, lsum_app, lsum_map. cbn [snd]. unfold total.
    rewrite (lsum_ext r (fun x => - snd x) (fun x => (-1) * snd x)) by (intros; ring). rewrite lsum_scale. ring.
Qed.

(* exactly when it fails: some outcome is asked for more often than it is held *)
Theorem draw_err_iff h r : wf O h ->
  ((exists e, draw O h r = Err e) <-> exists o, cnt h o < cnt r o).
Proof.
  intros [Hs Hn]. unfold draw. destruct (would_go_negative O h r) eqn:W.
  - split; [intros _|intros _; eexists; reflexivity]. unfold would_go_negative in W.
    apply existsb_exists in W. destruct W as [o [_ Ho]]. apply andb_prop in Ho. destruct Ho as [H1 H2].
    apply Z.ltb_lt in H1. apply negb_true_iff, Z.ltb_ge in H2. exists o. lia.
  - destruct (existsb _ (subtracted O h r)) eqn:E.
    + split; [intros _|intros _; eexists; reflexivity]. apply existsb_exists in E. destruct E as [[o c] [Hin Hlt]].
      apply Z.ltb_lt in Hlt. cbn [snd] in Hlt. exists o.
      pose proof (in_sasc_cnt _ o c (sasc_mk O _) Hin) as Hc. fold (subtracted O h r) in Hc. rewrite cnt_subtracted in Hc. lia.
    + split; [intros [e He]; discriminate|]. intros [o Ho]. exfalso.
      assert (Hk : In o (keys (subtracted O h r))).
      { destruct (in_dec (fun a b => reflect_dec _ _ (eqb_spec O a b)) o (keys (subtracted O h r))) as [I|I]; [exact I|].
        exfalso. rewrite keys_subtracted in I.
        assert (cnt r o = 0) by (apply cnt_notin; tauto). assert (cnt h o = 0) by (apply cnt_notin; tauto). lia. }
      unfold keys in Hk. apply in_map_iff in Hk. destruct Hk as [[o' c] [Eo Hin]]. cbn [fst] in Eo. subst o'.
      pose proof (in_sasc_cnt _ o c (sasc_mk O _) Hin) as Hc. fold (subtracted O h r) in Hc. rewrite cnt_subtracted in Hc.
      assert (existsb (fun oc => snd oc <? 0) (subtracted O h r) = true); [|congruence].
      apply existsb_exists. exists (o, c). split; [exact Hin|]. apply Z.ltb_lt. cbn [snd]. lia.
Qed.

(* the pre-check of the code never changes the verdict: it is implied by the count check *)
Lemma would_go_negative_sound h r : wf O h -> would_go_negative O h r = true -> exists o, cnt h o < cnt r o.
Proof. intros Hw W. apply (draw_err_iff h r Hw). unfold draw. rewrite W. eexists; reflexivity. Qed.

Theorem draws_total h rs h' : wf O h -> draws O h rs = Ok h' ->
  total h' = total h - lsum (fun r => total r) rs /\ wf O h' /\
  (forall z, cnt h' z = cnt h z - lsum (fun r => cnt r z) rs).
Proof.
  revert h. induction rs as [|r rs IH]; intros h Hw; cbn [draws lsum].
  - intros H. injection H as <-. split; [lia|]. split; [exact Hw|]. intros z; lia.
  - destruct (draw O h r) as [h1|e] eqn:D; [|discriminate]. intros H.
    destruct (draw_ok h r h1 D) as [Hc [_ [Hw1 Ht]]].
    destruct (IH h1 Hw1 H) as [Ht' [Hw' Hc']]. split; [lia|]. split; [exact Hw'|].
    intros z. rewrite Hc', Hc. lia.
Qed.

(* a single card of an outcome the histogram can roll *)
Theorem draw_one h o : wf O h -> 0 < cnt h o ->
  exists h', draw O h [(o, 1)] = Ok h' /\ cnt h' o = cnt h o - 1 /\
             (forall z, z <> o -> cnt h' z = cnt h z) /\ total h' = total h - 1.
Proof.
  intros Hw Hpos. destruct (draw O h [(o, 1)]) as [h'|e] eqn:D.
  - exists h'. destruct (draw_ok _ _ _ D) as [Hc [_ [_ Ht]]]. split; [reflexivity|]. split; [|split].
    + rewrite Hc. cbn [cnt]. rewrite (eqb_refl O). ring.
    + intros z Hz. rewrite Hc. cbn [cnt]. destruct (eqb_spec O o z); [congruence|ring].
    + rewrite Ht. unfold total at 2. cbn [lsum snd]. ring.
  - exfalso. assert (He : exists e, draw O h [(o, 1)] = Err e) by (eexists; exact D).
    apply (draw_err_iff h _ Hw) in He. destruct He as [z Hz]. cbn [cnt] in Hz.
    destruct (eqb_spec O o z) as [E|N]; [subst z; lia|]. pose proof (cnt_nonneg O h z (proj2 Hw)). lia.
Qed.

Theorem accumulate_spec h other :
  (forall z, cnt (accumulate O h other) z = cnt h z + cnt other z) /\
  total (accumulate O h other) = total h + total other /\
  sasc O (keys (accumulate O h other)) /\
  (forall y, In y (keys (accumulate O h other)) <-> In y (keys h) \/ In y (keys other)).
Proof. unfold accumulate. split; [|split; [|split]].
  - intros z. rewrite cnt_mk, <- cnt_as_lsum, cnt_app. reflexivity.
  - rewrite total_mk, lsum_app. reflexivity.
  - apply sasc_mk.
  - intros y. rewrite in_keys_mk, map_app, in_app_iff. reflexivity. Qed.

Lemma cnt_zeros (outs : list T) z : cnt (map (fun o => (o, 0)) outs) z = 0.
Proof. induction outs as [|o outs IH]; cbn [map cnt]; [reflexivity|]. rewrite IH. destruct (eqb O o z); ring. Qed.

Theorem zero_fill_spec h outs :
  (forall z, cnt (zero_fill O h outs) z = cnt h z) /\ total (zero_fill O h outs) = total h /\
  (forall y, In y (keys (zero_fill O h outs)) <-> In y (keys h) \/ In y outs).
Proof. unfold zero_fill. destruct (accumulate_spec h (mk (map (fun o => (o, 0)) outs))) as [Hc [Ht [_ Hk]]].
  split; [|split].
  - intros z. rewrite Hc, cnt_mk, <- cnt_as_lsum, cnt_zeros. ring.
  - rewrite Ht, total_mk, lsum_map. cbn [snd]. rewrite lsum_zero. ring.
  - intros y. rewrite Hk, in_keys_mk, map_map. cbn [fst]. rewrite map_id. reflexivity. Qed.

Lemma cnt_filter_ne (h : hist T) o z :
  cnt (filter (fun oc => negb (eqb O (fst oc) o)) h) z = if eqb O z o then 0 else cnt h z.
Proof. induction h as [|[o' c'] h IH]; cbn [filter cnt fst]; [destruct (eqb O z o); reflexivity|].
  destruct (eqb_spec O o' o) as [E|N]; cbn [negb cnt].
  - subst o'. rewrite IH. rewrite (eqb_sym O o z). destruct (eqb O z o); ring.
  - rewrite IH. destruct (eqb_spec O z o) as [E|N']; [subst z|reflexivity].
    destruct (eqb_spec O o' o); [contradiction|ring]. Qed.

Theorem remove_spec h o : sasc O (keys h) ->
  (forall z, cnt (remove O h o) z = if eqb O z o then 0 else cnt h z) /\
  (forall y, In y (keys (remove O h o)) <-> In y (keys h) /\ y <> o).
Proof.
  intros Hs. unfold remove. destruct (existsb (eqb O o) (keys h)) eqn:E.
  - split.
    + intros z. rewrite cnt_mk, <- cnt_as_lsum. apply cnt_filter_ne.
    + intros y. rewrite in_keys_mk. rewrite in_map_iff. split.
      * intros [[o' c] [Ey Hin]]. cbn [fst] in Ey. subst o'. apply filter_In in Hin. destruct Hin as [Hin Hne].
        cbn [fst] in Hne. apply negb_true_iff in Hne. split; [apply (in_map fst) in Hin; exact Hin|].
        apply (eqb_neq O). exact Hne.
      * intros [Hin Hne]. unfold keys in Hin. apply in_map_iff in Hin. destruct Hin as [[o' c] [Ey Hin]].
        exists (o', c). split; [exact Ey|]. apply filter_In. split; [exact Hin|]. cbn [fst] in *. subst o'.
        apply negb_true_iff. apply (eqb_neq O). exact Hne.
  - assert (Hn : ~ In o (keys h)).
    { intros I. assert (existsb (eqb O o) (keys h) = true); [|congruence]. apply existsb_exists. exists o. split; [exact I|apply (eqb_refl O)]. }
    split.
    + intros z. destruct (eqb_spec O z o) as [->|N]; [apply cnt_notin; exact Hn|reflexivity].
    + intros y. split; [intros I; split; [exact I|intros ->; contradiction]|tauto].
Qed.
End P.
