(* Algebraic laws of histogram arithmetic (H.map / H.umap with total operators):
   commutativity, associativity, scalar operands, composition of relabellings, units,
   identity relabelling and linearity in each operand.  Every law is stated twice:
   as an equality of count functions ([_cnt] suffix) and, using the canonicity of [mk]
   (strictly ascending keys, equal key sets, equal counts => equal lists), as an
   equality of histograms.  All statements are generic in the outcome order. *)
From Coq Require Import ZArith List Lia Bool Arith Permutation.
From Dyce Require Import Base.Sums Base.Order Base.Hist Model.Arith Proofs.ArithP.
Import ListNotations. Open Scope Z_scope.

Section L.
Context {T : Type} (O : ord T).

(* ---------- 0. tools ---------- *)

(* a sum that is linear in the counts does not see the canonicalisation *)
Lemma lsum_lin_hins (G : T -> Z) o c (h : hist T) :
  lsum (fun x => G (fst x) * snd x) (hins O o c h) = G o * c + lsum (fun x => G (fst x) * snd x) h.
Proof.
  induction h as [|[o' c'] h IH]; cbn [hins lsum fst snd]; [ring|].
  destruct (eqb_spec O o o') as [E|N]; [subst o'; cbn [lsum fst snd]; ring|].
  destruct (leb O o o'); cbn [lsum fst snd]; [ring|]. rewrite IH. ring.
Qed.

Lemma lsum_lin_mk (G : T -> Z) (l : list (T * Z)) :
  lsum (fun x => G (fst x) * snd x) (mk O l) = lsum (fun x => G (fst x) * snd x) l.
Proof.
  induction l as [|[o c] l IH]; cbn [mk fold_right fst snd lsum]; [reflexivity|]. fold (mk O l).
  rewrite lsum_lin_hins, IH. reflexivity.
Qed.

(* canonical form: ascending keys + same key set + same counts => same list *)
Lemma canon_eq (a b : hist T) : sasc O (keys a) -> sasc O (keys b) ->
  (forall y, In y (keys a) <-> In y (keys b)) -> (forall z, cnt O a z = cnt O b z) -> a = b.
Proof.
  intros Ha Hb Hk Hc. apply (hist_ext O); try assumption. apply (sasc_unique O); assumption.
Qed.

(* the raw (unsorted, unaccumulated) item lists *)
Definition pairs (op : T -> T -> T) (a b : hist T) : list (T * Z) :=
  flat_map (fun x => map (fun y => (op (fst x) (fst y), snd x * snd y)) b) a.
Definition relab (f : T -> T) (a : hist T) : list (T * Z) := map (fun x => (f (fst x), snd x)) a.

Lemma hmapT_unfold op a b : hmapT O op a b = mk O (pairs op a b).
Proof. reflexivity. Qed.
Lemma humapT_unfold f a : humapT O f a = mk O (relab f a).
Proof. reflexivity. Qed.

Lemma sasc_hmapT op a b : sasc O (keys (hmapT O op a b)).
Proof. unfold hmapT. apply sasc_mk. Qed.
Lemma sasc_humapT f a : sasc O (keys (humapT O f a)).
Proof. unfold humapT. apply sasc_mk. Qed.

Lemma in_keys_hmapT op a b k :
  In k (keys (hmapT O op a b)) <-> exists x y, In x (keys a) /\ In y (keys b) /\ k = op x y.
Proof.
  unfold hmapT. rewrite in_keys_mk. rewrite in_map_iff. split.
  - intros [oc [E H]]. apply in_flat_map in H. destruct H as [x [Hx H]].
    apply in_map_iff in H. destruct H as [y [E' Hy]]. subst oc k. cbn [fst].
    exists (fst x), (fst y). split; [unfold keys; apply in_map; exact Hx|].
    split; [unfold keys; apply in_map; exact Hy|reflexivity].
  - intros [x [y [Hx [Hy E]]]]. unfold keys in Hx, Hy.
    apply in_map_iff in Hx. destruct Hx as [xc [Ex Hx]].
    apply in_map_iff in Hy. destruct Hy as [yc [Ey Hy]]. subst x y k.
    exists (op (fst xc) (fst yc), snd xc * snd yc). split; [reflexivity|].
    apply in_flat_map. exists xc. split; [exact Hx|]. apply in_map_iff. exists yc. split; [reflexivity|exact Hy].
Qed.

Lemma in_keys_humapT f a k :
  In k (keys (humapT O f a)) <-> exists x, In x (keys a) /\ k = f x.
Proof.
  unfold humapT. rewrite in_keys_mk. rewrite in_map_iff. split.
  - intros [oc [E H]]. apply in_map_iff in H. destruct H as [x [E' Hx]]. subst oc k. cbn [fst].
    exists (fst x). split; [unfold keys; apply in_map; exact Hx|reflexivity].
  - intros [x [Hx E]]. unfold keys in Hx. apply in_map_iff in Hx. destruct Hx as [xc [Ex Hx]]. subst x k.
    exists (f (fst xc), snd xc). split; [reflexivity|]. apply in_map_iff. exists xc. split; [reflexivity|exact Hx].
Qed.

(* the convolution count is linear in each operand's counts *)
Definition GL (op : T -> T -> T) (b : hist T) (z k : T) : Z :=
  lsum (fun y => if eqb O (op k (fst y)) z then snd y else 0) b.
Definition GR (op : T -> T -> T) (a : hist T) (z k : T) : Z :=
  lsum (fun x => if eqb O (op (fst x) k) z then snd x else 0) a.

Lemma hmapT_cnt_linl op (a b : hist T) z :
  cnt O (hmapT O op a b) z = lsum (fun x => GL op b z (fst x) * snd x) a.
Proof.
  rewrite hmapT_cnt. apply lsum_ext. intros x _. unfold GL. rewrite Z.mul_comm, <- lsum_scale.
  apply lsum_ext. intros y _. destruct (eqb O (op (fst x) (fst y)) z); ring.
Qed.

Lemma hmapT_cnt_linr op (a b : hist T) z :
  cnt O (hmapT O op a b) z = lsum (fun y => GR op a z (fst y) * snd y) b.
Proof.
  rewrite hmapT_cnt.
  rewrite (lsum_swap a b (fun x y => if eqb O (op (fst x) (fst y)) z then snd x * snd y else 0)).
  apply lsum_ext. intros y _. unfold GR. rewrite Z.mul_comm, <- lsum_scale.
  apply lsum_ext. intros x _. destruct (eqb O (op (fst x) (fst y)) z); ring.
Qed.

Lemma humapT_cnt_lin f (a : hist T) z :
  cnt O (humapT O f a) z = lsum (fun x => (if eqb O (f (fst x)) z then 1 else 0) * snd x) a.
Proof.
  rewrite humapT_cnt. apply lsum_ext. intros x _. destruct (eqb O (f (fst x)) z); ring.
Qed.

(* arithmetic does not see whether an operand has been canonicalised *)
Theorem hmapT_mk_l op (l b : hist T) z : cnt O (hmapT O op (mk O l) b) z = cnt O (hmapT O op l b) z.
Proof. rewrite !hmapT_cnt_linl. apply lsum_lin_mk. Qed.

Theorem hmapT_mk_r op (a l : hist T) z : cnt O (hmapT O op a (mk O l)) z = cnt O (hmapT O op a l) z.
Proof. rewrite !hmapT_cnt_linr. apply lsum_lin_mk. Qed.

Theorem humapT_mk f (l : hist T) z : cnt O (humapT O f (mk O l)) z = cnt O (humapT O f l) z.
Proof.
  rewrite !humapT_cnt_lin.
  apply (lsum_lin_mk (fun k => if eqb O (f k) z then 1 else 0)).
Qed.

(* ... and therefore depends on the operands' count functions only: [hmapT_cnt_ext]
   without the ascending-keys hypotheses *)
Lemma lsum_cnt_ext_gen (G : T -> Z) (a a' : hist T) : (forall x, cnt O a x = cnt O a' x) ->
  lsum (fun x => G (fst x) * snd x) a = lsum (fun x => G (fst x) * snd x) a'.
Proof.
  intros Hc. rewrite <- (lsum_lin_mk G a), <- (lsum_lin_mk G a').
  apply (lsum_cnt_ext O); try apply sasc_mk.
  intros x. rewrite !cnt_mk, <- !cnt_as_lsum. apply Hc.
Qed.

Theorem hmapT_cnt_ext_gen op (a a' b b' : hist T) z :
  (forall x, cnt O a x = cnt O a' x) -> (forall y, cnt O b y = cnt O b' y) ->
  cnt O (hmapT O op a b) z = cnt O (hmapT O op a' b') z.
Proof.
  intros Ha Hb. transitivity (cnt O (hmapT O op a' b) z).
  - rewrite !hmapT_cnt_linl. apply lsum_cnt_ext_gen. exact Ha.
  - rewrite !hmapT_cnt_linr. apply lsum_cnt_ext_gen. exact Hb.
Qed.

Theorem humapT_cnt_ext_gen f (a a' : hist T) z :
  (forall x, cnt O a x = cnt O a' x) -> cnt O (humapT O f a) z = cnt O (humapT O f a') z.
Proof.
  intros Ha. rewrite !humapT_cnt_lin.
  apply (lsum_cnt_ext_gen (fun k => if eqb O (f k) z then 1 else 0)). exact Ha.
Qed.

(* ---------- 1. commutativity ---------- *)
Theorem hmapT_comm_cnt op (a b : hist T) z :
  (forall x y, op x y = op y x) -> cnt O (hmapT O op a b) z = cnt O (hmapT O op b a) z.
Proof.
  intros C. rewrite !hmapT_cnt.
  rewrite (lsum_swap a b (fun x y => if eqb O (op (fst x) (fst y)) z then snd x * snd y else 0)).
  apply lsum_ext. intros y _. apply lsum_ext. intros x _.
  rewrite (C (fst x) (fst y)). destruct (eqb O (op (fst y) (fst x)) z); ring.
Qed.

Theorem hmapT_comm op (a b : hist T) :
  (forall x y, op x y = op y x) -> hmapT O op a b = hmapT O op b a.
Proof.
  intros C. apply canon_eq; try apply sasc_hmapT.
  - intros k. rewrite !in_keys_hmapT.
    split; intros [x [y [Hx [Hy E]]]]; exists y, x; (split; [exact Hy|split; [exact Hx|]]); rewrite E; apply C.
  - intros z. apply hmapT_comm_cnt. exact C.
Qed.

(* ---------- 2. associativity (and the two triple-convolution formulas) ---------- *)
Theorem hmapT_nest_l_cnt op1 op2 (a b c : hist T) z :
  cnt O (hmapT O op1 (hmapT O op2 a b) c) z =
  lsum (fun x => lsum (fun y => lsum (fun u =>
    if eqb O (op1 (op2 (fst x) (fst y)) (fst u)) z then snd x * snd y * snd u else 0) c) b) a.
Proof.
  rewrite (hmapT_unfold op2 a b), hmapT_mk_l, hmapT_cnt. unfold pairs. rewrite lsum_flat_map.
  apply lsum_ext. intros x _. rewrite lsum_map. apply lsum_ext. intros y _. cbn [fst snd]. reflexivity.
Qed.

Theorem hmapT_nest_r_cnt op1 op2 (a b c : hist T) z :
  cnt O (hmapT O op1 a (hmapT O op2 b c)) z =
  lsum (fun x => lsum (fun y => lsum (fun u =>
    if eqb O (op1 (fst x) (op2 (fst y) (fst u))) z then snd x * snd y * snd u else 0) c) b) a.
Proof.
  rewrite (hmapT_unfold op2 b c), hmapT_mk_r, hmapT_cnt. unfold pairs.
  apply lsum_ext. intros x _. rewrite lsum_flat_map.
  apply lsum_ext. intros y _. rewrite lsum_map. apply lsum_ext. intros u _. cbn [fst snd].
  destruct (eqb O (op1 (fst x) (op2 (fst y) (fst u))) z); ring.
Qed.

Theorem hmapT_assoc_cnt op (a b c : hist T) z :
  (forall x y u, op (op x y) u = op x (op y u)) ->
  cnt O (hmapT O op (hmapT O op a b) c) z = cnt O (hmapT O op a (hmapT O op b c)) z.
Proof.
  intros A. rewrite hmapT_nest_l_cnt, hmapT_nest_r_cnt.
  apply lsum_ext. intros x _. apply lsum_ext. intros y _. apply lsum_ext. intros u _.
  rewrite A. reflexivity.
Qed.

Theorem hmapT_assoc op (a b c : hist T) :
  (forall x y u, op (op x y) u = op x (op y u)) ->
  hmapT O op (hmapT O op a b) c = hmapT O op a (hmapT O op b c).
Proof.
  intros A. apply canon_eq; try apply sasc_hmapT.
  - intros k. rewrite !in_keys_hmapT. split.
    + intros [w [u [Hw [Hu E]]]]. apply in_keys_hmapT in Hw. destruct Hw as [x [y [Hx [Hy E']]]]. subst w k.
      exists x, (op y u). split; [exact Hx|]. split; [|apply A].
      apply in_keys_hmapT. exists y, u. split; [exact Hy|split; [exact Hu|reflexivity]].
    + intros [x [w [Hx [Hw E]]]]. apply in_keys_hmapT in Hw. destruct Hw as [y [u [Hy [Hu E']]]]. subst w k.
      exists (op x y), u. split; [|split; [exact Hu|symmetry; apply A]].
      apply in_keys_hmapT. exists x, y. split; [exact Hx|split; [exact Hy|reflexivity]].
  - intros z. apply hmapT_assoc_cnt. exact A.
Qed.

Theorem hmapT_total_assoc op (a b c : hist T) :
  total (hmapT O op (hmapT O op a b) c) = total (hmapT O op a (hmapT O op b c)).
Proof. rewrite !hmapT_total. ring. Qed.

Theorem hmapT_total_comm op (a b : hist T) : total (hmapT O op a b) = total (hmapT O op b a).
Proof. rewrite !hmapT_total. ring. Qed.

(* ---------- 3. a scalar operand is the one-point histogram ---------- *)
Theorem hmapT_scalar_r_cnt op (a : hist T) s z :
  cnt O (hmapT O op a [(s, 1)]) z = cnt O (humapT O (fun x => op x s) a) z.
Proof.
  rewrite hmapT_cnt, humapT_cnt. apply lsum_ext. intros x _. cbn [lsum fst snd].
  destruct (eqb O (op (fst x) s) z); ring.
Qed.

Theorem hmapT_scalar_l_cnt op (b : hist T) s z :
  cnt O (hmapT O op [(s, 1)] b) z = cnt O (humapT O (fun y => op s y) b) z.
Proof.
  rewrite hmapT_cnt, humapT_cnt. cbn [lsum fst snd]. rewrite Z.add_0_r. apply lsum_ext. intros y _.
  destruct (eqb O (op s (fst y)) z); ring.
Qed.

Theorem hmapT_scalar_r op (a : hist T) s : hmapT O op a [(s, 1)] = humapT O (fun x => op x s) a.
Proof.
  apply canon_eq; [apply sasc_hmapT|apply sasc_humapT| |intros z; apply hmapT_scalar_r_cnt].
  intros k. rewrite in_keys_hmapT, in_keys_humapT. cbn [keys map fst In]. split.
  - intros [x [y [Hx [[Hy|[]] E]]]]. subst y. exists x. split; assumption.
  - intros [x [Hx E]]. exists x, s. split; [exact Hx|]. split; [left; reflexivity|exact E].
Qed.

Theorem hmapT_scalar_l op (b : hist T) s : hmapT O op [(s, 1)] b = humapT O (fun y => op s y) b.
Proof.
  apply canon_eq; [apply sasc_hmapT|apply sasc_humapT| |intros z; apply hmapT_scalar_l_cnt].
  intros k. rewrite in_keys_hmapT, in_keys_humapT. cbn [keys map fst In]. split.
  - intros [x [y [[Hx|[]] [Hy E]]]]. subst x. exists y. split; assumption.
  - intros [y [Hy E]]. exists s, y. split; [left; reflexivity|]. split; [exact Hy|exact E].
Qed.

(* ---------- 4. composition of relabellings ---------- *)
Theorem humapT_compose_cnt f g (a : hist T) z :
  cnt O (humapT O f (humapT O g a)) z = cnt O (humapT O (fun x => f (g x)) a) z.
Proof.
  rewrite (humapT_unfold g a), humapT_mk, !humapT_cnt. unfold relab. rewrite lsum_map.
  cbn [fst snd]. reflexivity.
Qed.

Theorem humapT_compose f g (a : hist T) : humapT O f (humapT O g a) = humapT O (fun x => f (g x)) a.
Proof.
  apply canon_eq; try apply sasc_humapT; [|intros z; apply humapT_compose_cnt].
  intros k. rewrite !in_keys_humapT. split.
  - intros [w [Hw E]]. apply in_keys_humapT in Hw. destruct Hw as [x [Hx E']]. subst w k.
    exists x. split; [exact Hx|reflexivity].
  - intros [x [Hx E]]. exists (g x). split; [|exact E]. apply in_keys_humapT. exists x. split; [exact Hx|reflexivity].
Qed.

(* ---------- 5. relabelling a result / an operand ---------- *)
Theorem humapT_hmapT_cnt f op (a b : hist T) z :
  cnt O (humapT O f (hmapT O op a b)) z = cnt O (hmapT O (fun x y => f (op x y)) a b) z.
Proof.
  rewrite (hmapT_unfold op a b), humapT_mk, humapT_cnt, hmapT_cnt. unfold pairs. rewrite lsum_flat_map.
  apply lsum_ext. intros x _. rewrite lsum_map. cbn [fst snd]. reflexivity.
Qed.

Theorem humapT_hmapT f op (a b : hist T) :
  humapT O f (hmapT O op a b) = hmapT O (fun x y => f (op x y)) a b.
Proof.
  apply canon_eq; [apply sasc_humapT|apply sasc_hmapT| |intros z; apply humapT_hmapT_cnt].
  intros k. rewrite in_keys_humapT, in_keys_hmapT. split.
  - intros [w [Hw E]]. apply in_keys_hmapT in Hw. destruct Hw as [x [y [Hx [Hy E']]]]. subst w k.
    exists x, y. split; [exact Hx|split; [exact Hy|reflexivity]].
  - intros [x [y [Hx [Hy E]]]]. exists (op x y). split; [|exact E].
    apply in_keys_hmapT. exists x, y. split; [exact Hx|split; [exact Hy|reflexivity]].
Qed.

Theorem hmapT_humapT_l_cnt f op (a b : hist T) z :
  cnt O (hmapT O op (humapT O f a) b) z = cnt O (hmapT O (fun x y => op (f x) y) a b) z.
Proof.
  rewrite (humapT_unfold f a), hmapT_mk_l, !hmapT_cnt. unfold relab. rewrite lsum_map.
  cbn [fst snd]. reflexivity.
Qed.

Theorem hmapT_humapT_r_cnt f op (a b : hist T) z :
  cnt O (hmapT O op a (humapT O f b)) z = cnt O (hmapT O (fun x y => op x (f y)) a b) z.
Proof.
  rewrite (humapT_unfold f b), hmapT_mk_r, !hmapT_cnt. unfold relab.
  apply lsum_ext. intros x _. rewrite lsum_map. cbn [fst snd]. reflexivity.
Qed.

Theorem hmapT_humapT_l f op (a b : hist T) :
  hmapT O op (humapT O f a) b = hmapT O (fun x y => op (f x) y) a b.
Proof.
  apply canon_eq; try apply sasc_hmapT; [|intros z; apply hmapT_humapT_l_cnt].
  intros k. rewrite !in_keys_hmapT. split.
  - intros [w [y [Hw [Hy E]]]]. apply in_keys_humapT in Hw. destruct Hw as [x [Hx E']]. subst w k.
    exists x, y. split; [exact Hx|split; [exact Hy|reflexivity]].
  - intros [x [y [Hx [Hy E]]]]. exists (f x), y. split; [|split; [exact Hy|exact E]].
    apply in_keys_humapT. exists x. split; [exact Hx|reflexivity].
Qed.

Theorem hmapT_humapT_r f op (a b : hist T) :
  hmapT O op a (humapT O f b) = hmapT O (fun x y => op x (f y)) a b.
Proof.
  apply canon_eq; try apply sasc_hmapT; [|intros z; apply hmapT_humapT_r_cnt].
  intros k. rewrite !in_keys_hmapT. split.
  - intros [x [w [Hx [Hw E]]]]. apply in_keys_humapT in Hw. destruct Hw as [y [Hy E']]. subst w k.
    exists x, y. split; [exact Hx|split; [exact Hy|reflexivity]].
  - intros [x [y [Hx [Hy E]]]]. exists x, (f y). split; [exact Hx|split; [|exact E]].
    apply in_keys_humapT. exists y. split; [exact Hy|reflexivity].
Qed.

(* ---------- 7. the identity relabelling (used by 6) ---------- *)
Lemma relab_id (a : hist T) : relab (fun x => x) a = a.
Proof.
  unfold relab. induction a as [|[o c] a IH]; cbn [map fst snd]; [reflexivity|]. rewrite IH. reflexivity.
Qed.

Theorem humapT_id_mk (a : hist T) : humapT O (fun x => x) a = mk O a.
Proof. rewrite humapT_unfold, relab_id. reflexivity. Qed.

Theorem humapT_id_cnt (a : hist T) z : cnt O (humapT O (fun x => x) a) z = cnt O a z.
Proof. rewrite humapT_id_mk, cnt_mk, <- cnt_as_lsum. reflexivity. Qed.

Theorem humapT_id (a : hist T) : sasc O (keys a) -> humapT O (fun x => x) a = a.
Proof. intros Ha. rewrite humapT_id_mk. apply mk_id. exact Ha. Qed.

(* a relabelling that fixes every outcome of [a] *)
Theorem humapT_fix_cnt f (a : hist T) z :
  (forall x, In x (keys a) -> f x = x) -> cnt O (humapT O f a) z = cnt O a z.
Proof.
  intros F. rewrite humapT_cnt, cnt_as_lsum. apply lsum_ext. intros x Hx.
  rewrite F by (unfold keys; apply in_map; exact Hx). reflexivity.
Qed.

Theorem humapT_fix_mk f (a : hist T) :
  (forall x, In x (keys a) -> f x = x) -> humapT O f a = mk O a.
Proof.
  intros F. unfold humapT. f_equal. rewrite <- (relab_id a) at 2. unfold relab.
  apply map_ext_in. intros x Hx. rewrite F by (unfold keys; apply in_map; exact Hx). reflexivity.
Qed.

(* ---------- 6. units ---------- *)
(* the count-function form needs neither ascending keys nor a global unit law:
   [op x e = x] on the outcomes of [a] suffices *)
Theorem hmapT_unit_r_cnt op (a : hist T) e z :
  (forall x, In x (keys a) -> op x e = x) -> cnt O (hmapT O op a [(e, 1)]) z = cnt O a z.
Proof. intros U. rewrite hmapT_scalar_r_cnt. apply humapT_fix_cnt. exact U. Qed.

Theorem hmapT_unit_l_cnt op (b : hist T) e z :
  (forall y, In y (keys b) -> op e y = y) -> cnt O (hmapT O op [(e, 1)] b) z = cnt O b z.
Proof. intros U. rewrite hmapT_scalar_l_cnt. apply humapT_fix_cnt. exact U. Qed.

(* without [sasc]: the result is the canonical form of [a] *)
Theorem hmapT_unit_r_mk op (a : hist T) e :
  (forall x, In x (keys a) -> op x e = x) -> hmapT O op a [(e, 1)] = mk O a.
Proof. intros U. rewrite hmapT_scalar_r. apply humapT_fix_mk. exact U. Qed.

Theorem hmapT_unit_l_mk op (b : hist T) e :
  (forall y, In y (keys b) -> op e y = y) -> hmapT O op [(e, 1)] b = mk O b.
Proof. intros U. rewrite hmapT_scalar_l. apply humapT_fix_mk. exact U. Qed.

(* The list equality [hmapT op a [(e,1)] = a] is false without [sasc (keys a)]:
   over Z with op = +, e = 0, a = [(2,1);(1,1)] the left side is [(1,1);(2,1)], and
   a = [(1,1);(1,1)] gives [(1,2)]. *)
Theorem hmapT_unit_r op (a : hist T) e :
  (forall x, op x e = x) -> sasc O (keys a) -> hmapT O op a [(e, 1)] = a.
Proof. intros U Ha. rewrite hmapT_unit_r_mk by (intros; apply U). apply mk_id. exact Ha. Qed.

Theorem hmapT_unit_l op (b : hist T) e :
  (forall y, op e y = y) -> sasc O (keys b) -> hmapT O op [(e, 1)] b = b.
Proof. intros U Hb. rewrite hmapT_unit_l_mk by (intros; apply U). apply mk_id. exact Hb. Qed.

(* ---------- 9. linearity in each operand (mixtures) ---------- *)
Theorem hmapT_app_l_cnt op (a a' b : hist T) z :
  cnt O (hmapT O op (a ++ a') b) z = cnt O (hmapT O op a b) z + cnt O (hmapT O op a' b) z.
Proof. rewrite !hmapT_cnt. apply lsum_app. Qed.

Theorem hmapT_app_r_cnt op (a b b' : hist T) z :
  cnt O (hmapT O op a (b ++ b')) z = cnt O (hmapT O op a b) z + cnt O (hmapT O op a b') z.
Proof.
  rewrite !hmapT_cnt. rewrite <- lsum_add. apply lsum_ext. intros x _. apply lsum_app.
Qed.

Theorem humapT_app_cnt f (a a' : hist T) z :
  cnt O (humapT O f (a ++ a')) z = cnt O (humapT O f a) z + cnt O (humapT O f a') z.
Proof. rewrite !humapT_cnt. apply lsum_app. Qed.

(* the same, with the mixture itself canonicalised: H(a ++ a') *)
Theorem hmapT_mix_l_cnt op (a a' b : hist T) z :
  cnt O (hmapT O op (mk O (a ++ a')) b) z = cnt O (hmapT O op a b) z + cnt O (hmapT O op a' b) z.
Proof. rewrite hmapT_mk_l. apply hmapT_app_l_cnt. Qed.

Theorem hmapT_mix_r_cnt op (a b b' : hist T) z :
  cnt O (hmapT O op a (mk O (b ++ b'))) z = cnt O (hmapT O op a b) z + cnt O (hmapT O op a b') z.
Proof. rewrite hmapT_mk_r. apply hmapT_app_r_cnt. Qed.

(* list form: the convolution of a concatenation is the accumulation of the two convolutions *)
Theorem hmapT_app_l op (a a' b : hist T) :
  hmapT O op (a ++ a') b = mk O (hmapT O op a b ++ hmapT O op a' b).
Proof.
  apply canon_eq; [apply sasc_hmapT|apply sasc_mk| |].
  - intros k. rewrite in_keys_hmapT, in_keys_mk. fold (keys (hmapT O op a b ++ hmapT O op a' b)).
    unfold keys at 3. rewrite map_app. rewrite in_app_iff.
    fold (keys (hmapT O op a b)). fold (keys (hmapT O op a' b)). rewrite !in_keys_hmapT.
    unfold keys at 1. rewrite map_app. fold (keys a). fold (keys a'). split.
    + intros [x [y [Hx [Hy E]]]]. apply in_app_iff in Hx. destruct Hx as [Hx|Hx]; [left|right];
        exists x, y; (split; [exact Hx|split; [exact Hy|exact E]]).
    + intros [[x [y [Hx [Hy E]]]]|[x [y [Hx [Hy E]]]]]; exists x, y;
        (split; [apply in_app_iff; auto|split; [exact Hy|exact E]]).
  - intros z. rewrite hmapT_app_l_cnt, cnt_mk, <- cnt_as_lsum, cnt_app. reflexivity.
Qed.

Theorem hmapT_app_r op (a b b' : hist T) :
  hmapT O op a (b ++ b') = mk O (hmapT O op a b ++ hmapT O op a b').
Proof.
  apply canon_eq; [apply sasc_hmapT|apply sasc_mk| |].
  - intros k. rewrite in_keys_hmapT, in_keys_mk. rewrite map_app, in_app_iff.
    fold (keys (hmapT O op a b)). fold (keys (hmapT O op a b')). rewrite !in_keys_hmapT.
    unfold keys at 2. rewrite map_app. fold (keys b). fold (keys b'). split.
    + intros [x [y [Hx [Hy E]]]]. apply in_app_iff in Hy. destruct Hy as [Hy|Hy]; [left|right];
        exists x, y; (split; [exact Hx|split; [exact Hy|exact E]]).
    + intros [[x [y [Hx [Hy E]]]]|[x [y [Hx [Hy E]]]]]; exists x, y;
        (split; [exact Hx|split; [apply in_app_iff; auto|exact E]]).
  - intros z. rewrite hmapT_app_r_cnt, cnt_mk, <- cnt_as_lsum, cnt_app. reflexivity.
Qed.

End L.

Print Assumptions lsum_lin_mk.
Print Assumptions canon_eq.
Print Assumptions in_keys_hmapT.
Print Assumptions in_keys_humapT.
Print Assumptions hmapT_mk_l.
Print Assumptions hmapT_mk_r.
Print Assumptions humapT_mk.
Print Assumptions hmapT_cnt_ext_gen.
Print Assumptions humapT_cnt_ext_gen.
Print Assumptions hmapT_comm_cnt.
Print Assumptions hmapT_comm.
Print Assumptions hmapT_nest_l_cnt.
Print Assumptions hmapT_nest_r_cnt.
Print Assumptions hmapT_assoc_cnt.
Print Assumptions hmapT_assoc.
Print Assumptions hmapT_total_assoc.
Print Assumptions hmapT_total_comm.
Print Assumptions hmapT_scalar_r_cnt.
Print Assumptions hmapT_scalar_l_cnt.
Print Assumptions hmapT_scalar_r.
Print Assumptions hmapT_scalar_l.
Print Assumptions humapT_compose_cnt.
Print Assumptions humapT_compose.
Print Assumptions humapT_hmapT_cnt.
Print Assumptions humapT_hmapT.
Print Assumptions hmapT_humapT_l_cnt.
Print Assumptions hmapT_humapT_r_cnt.
Print Assumptions hmapT_humapT_l.
Print Assumptions hmapT_humapT_r.
Print Assumptions humapT_id_mk.
Print Assumptions humapT_id_cnt.
Print Assumptions humapT_id.
Print Assumptions humapT_fix_cnt.
Print Assumptions humapT_fix_mk.
Print Assumptions hmapT_unit_r_cnt.
Print Assumptions hmapT_unit_l_cnt.
Print Assumptions hmapT_unit_r_mk.
Print Assumptions hmapT_unit_l_mk.
Print Assumptions hmapT_unit_r.
Print Assumptions hmapT_unit_l.
Print Assumptions hmapT_app_l_cnt.
Print Assumptions hmapT_app_r_cnt.
Print Assumptions humapT_app_cnt.
Print Assumptions hmapT_mix_l_cnt.
Print Assumptions hmapT_mix_r_cnt.
Print Assumptions hmapT_app_l.
Print Assumptions hmapT_app_r.
