(* The executable instance.  The correspondence check evaluates the model at
     T := Qc, O := VO, zeroT := Vzero, addT := Vadd, mulzT := Vmulz, vadd := Exec.Run.vadd.
   The property theorems are stated under hypotheses on outcome addition (C03, C04) and on
   vadd (C08); this file discharges those hypotheses for exactly the functions that are run. *)
From Coq Require Import ZArith QArith Qcanon List Bool Lia Permutation.
From Dyce Require Import Base.Sums Base.Order Base.Hist Base.Brute Base.QcOrd Model.Select Model.Pool Model.Arith
  Model.Equality Model.Eval Model.Explode Proofs.ArithP Proofs.RwcP Proofs.RepeatP Proofs.PoolHP Proofs.EvalP
  Proofs.LimitsP Exec.Run.
Import ListNotations.
Open Scope Z_scope.

(* ------------------------------------------------------------------------------------ *)
(* (a) the algebra of the executable outcome operations                                  *)
(* ------------------------------------------------------------------------------------ *)
Lemma Vadd_comm : forall x y, Vadd x y = Vadd y x.
Proof. intros x y. unfold Vadd. ring. Qed.
Lemma Vadd_assoc : forall x y z, Vadd x (Vadd y z) = Vadd (Vadd x y) z.
Proof. intros x y z. unfold Vadd. ring. Qed.
Lemma Vadd_0_l : forall x, Vadd Vzero x = x.
Proof. intros x. unfold Vadd, Vzero, qc. apply Qcplus_0_l. Qed.

Lemma Vz_plus a b : Vz (a + b) = (Vz a + Vz b)%Qc.
Proof. apply Qc_is_canon. unfold Vz, Qcplus, Q2Qc. cbn [this]. rewrite !Qred_correct.
  rewrite inject_Z_plus. reflexivity. Qed.
Lemma Vz_0 : Vz 0 = 0%Qc. Proof. reflexivity. Qed.
Lemma Vz_1 : Vz 1 = 1%Qc. Proof. reflexivity. Qed.

Lemma Vmulz_nat : forall m x, Vmulz (Z.of_nat m) x = tsum Vzero Vadd (repeat x m).
Proof.
  intros m x. induction m as [|m IH].
  - cbn [repeat tsum fold_right Z.of_nat]. unfold Vmulz. rewrite Vz_0. unfold Vzero, qc. ring.
  - rewrite Nat2Z.inj_succ. cbn [repeat tsum fold_right]. fold (tsum Vzero Vadd (repeat x m)).
    rewrite <- IH. unfold Vmulz, Vadd. unfold Z.succ. rewrite Vz_plus, Vz_1. ring.
Qed.

(* ------------------------------------------------------------------------------------ *)
(* (b) C03 / C04 at the executable instance: no hypothesis about addition is left        *)
(* ------------------------------------------------------------------------------------ *)
Theorem p_h_correct_Qc : forall p w idx, okpool VO p -> p <> [] -> w <> [] ->
  resolve (length p) w = Ok idx ->
  exists r, p_h VO Vzero Vadd Vmulz p (Some w) = Ok r /\
    (idx = [] -> r = []) /\
    (idx <> [] -> forall z, cnt VO r z =
        pbsum VO p (fun l => if eqb VO (tsum Vzero Vadd (getitems l idx)) z then 1 else 0)) /\
    (idx <> [] -> total r = ptotal p).
Proof. exact (p_h_correct VO Vzero Vadd Vmulz Vadd_comm Vadd_assoc Vadd_0_l Vmulz_nat). Qed.

Theorem p_h_equivalent_Qc : forall p w1 w2 idx1 idx2 r1 r2, okpool VO p -> p <> [] -> w1 <> [] -> w2 <> [] ->
  resolve (length p) w1 = Ok idx1 -> resolve (length p) w2 = Ok idx2 -> Permutation idx1 idx2 ->
  p_h VO Vzero Vadd Vmulz p (Some w1) = Ok r1 -> p_h VO Vzero Vadd Vmulz p (Some w2) = Ok r2 ->
  forall z, cnt VO r1 z = cnt VO r2 z.
Proof. exact (p_h_equivalent VO Vzero Vadd Vmulz Vadd_comm Vadd_assoc Vadd_0_l Vmulz_nat). Qed.

Theorem p_h_all_Qc : forall p w idx r, okpool VO p -> p <> [] -> w <> [] -> resolve (length p) w = Ok idx ->
  Permutation idx (seq 0 (length p)) -> p_h VO Vzero Vadd Vmulz p (Some w) = Ok r ->
  forall z, cnt VO r z = cnt VO (sum_h VO Vzero Vadd p) z.
Proof. exact (p_h_all VO Vzero Vadd Vmulz Vadd_comm Vadd_assoc Vadd_0_l Vmulz_nat). Qed.

Theorem p_h_order_stat_Qc : forall p i r, okpool VO p -> p <> [] ->
  - Z.of_nat (length p) <= i < Z.of_nat (length p) ->
  p_h VO Vzero Vadd Vmulz p (Some [Idx i]) = Ok r ->
  let pos := Z.to_nat (if i <? 0 then i + Z.of_nat (length p) else i) in
  forall z, cnt VO r z = pbsum VO p (fun l => match nth_error l pos with
                                              | Some x => if eqb VO (Vadd x Vzero) z then 1 else 0
                                              | None => 0 end).
Proof. exact (p_h_order_stat VO Vzero Vadd Vmulz Vadd_comm Vadd_assoc Vadd_0_l Vmulz_nat). Qed.

Theorem sum_h_cnt_Qc : forall (p : list (hist Qc)) z, p <> [] ->
  cnt VO (sum_h VO Vzero Vadd p) z = pbsum VO p (fun l => if eqb VO (tsum Vzero Vadd l) z then 1 else 0).
Proof. exact (sum_h_cnt VO Vzero Vadd Vadd_comm Vadd_assoc Vadd_0_l). Qed.

Theorem sum_h_total_Qc : forall (p : list (hist Qc)), p <> [] -> total (sum_h VO Vzero Vadd p) = ptotal p.
Proof. exact (sum_h_total VO Vzero Vadd Vadd_comm Vadd_assoc Vadd_0_l). Qed.

Theorem hmatmul_cnt_Qc : forall n h z, 1 <= n ->
  exists r, hmatmul VO Vzero Vadd n h = Ok r /\
    cnt VO r z = bsum VO h (Z.to_nat n) (fun l => if eqb VO (tsum Vzero Vadd l) z then 1 else 0) /\
    total r = zpow (total h) (Z.to_nat n).
Proof. exact (hmatmul_cnt VO Vzero Vadd Vadd_comm Vadd_assoc Vadd_0_l). Qed.

Theorem hmatmul_add_Qc : forall m n h, (1 <= m)%nat -> (1 <= n)%nat ->
  sum_h VO Vzero Vadd (repeat h (m + n)) =
  hadd VO Vadd (sum_h VO Vzero Vadd (repeat h m)) (sum_h VO Vzero Vadd (repeat h n)).
Proof. exact (hmatmul_add VO Vzero Vadd Vadd_assoc Vadd_0_l). Qed.

(* ------------------------------------------------------------------------------------ *)
(* (c) C08 at the executable vadd                                                        *)
(* ------------------------------------------------------------------------------------ *)
(* the executable vadd satisfies the C08 hypothesis on histograms without negative counts
   (on a negative count the constructor inside H.map raises, so the hypothesis as stated
   for ALL h is false of vadd: see [vadd_hist_out_neg]) *)
Theorem vadd_hist_out_nonneg : forall h o, nonneg h ->
  vadd (VHist h) (VOut o) = Ok (VHist (humapT VO (fun x => Vadd x o) h)).
Proof.
  intros h o Hn. cbn [vadd]. unfold hmap_s.
  rewrite (humap_total_op VO (fun x => binop Add x o) (fun x => Vadd x o) h Hn); [reflexivity|].
  intros x _. reflexivity.
Qed.
Theorem vadd_hist_out_neg :
  exists h o, vadd (VHist h) (VOut o) <> Ok (VHist (humapT VO (fun x => Vadd x o) h)).
Proof. exists [(qc 1 1, -1)], (qc 0 1). vm_compute. discriminate. Qed.

(* the total variant: the right-hand side of the hypothesis on (histogram, outcome), vadd elsewhere *)
Definition vadd' (a b : val (T:=Qc)) : res (val (T:=Qc)) :=
  match a, b with
  | VHist h, VOut o => Ok (VHist (humapT VO (fun x => Vadd x o) h))
  | _, _ => vadd a b
  end.
Lemma vadd'_hist_out : forall h o, vadd' (VHist h) (VOut o) = Ok (VHist (humapT VO (fun x => Vadd x o) h)).
Proof. reflexivity. Qed.

Definition vgoodQ (v : val (T:=Qc)) : Prop := match v with VHist h => nonneg h | VOut _ => True end.
Theorem vadd_vadd'_agree : forall a b, vgoodQ a -> vadd a b = vadd' a b.
Proof.
  intros [x|h] [y|h'] Ha; try reflexivity. cbn [vadd']. apply vadd_hist_out_nonneg. exact Ha.
Qed.

(* every histogram vadd returns has gone through the constructor *)
Lemma lift_h_good (r : res (hist Qc)) y : (forall h, r = Ok h -> nonneg h) -> lift_h r = Ok y -> vgoodQ y.
Proof. intros H. destruct r as [h|e]; cbn [lift_h]; [|discriminate]. intros E. injection E as <-. cbn [vgoodQ]. apply H. reflexivity. Qed.
Lemma humap_ok_nonneg (f : Qc -> res Qc) a h : humap VO f a = Ok h -> nonneg h.
Proof. unfold humap. destruct (rmapM _ a) as [l|e]; [|discriminate]. intros E. apply mkH_ok in E. destruct E as [_ [_ E]]. exact E. Qed.
Lemma hmap_ok_nonneg (op : Qc -> Qc -> res Qc) a b h : hmap VO op a b = Ok h -> nonneg h.
Proof. unfold hmap. destruct (rmapM _ (list_prod a b)) as [l|e]; [|discriminate]. intros E. apply mkH_ok in E. destruct E as [_ [_ E]]. exact E. Qed.
Lemma vadd_good : forall a b y, vadd a b = Ok y -> vgoodQ y.
Proof.
  intros [x|h] [y'|h'] y; cbn [vadd].
  - intros E. injection E as <-. exact I.
  - apply lift_h_good. intros h0. unfold hrmap. apply humap_ok_nonneg.
  - apply lift_h_good. intros h0. unfold hmap_s. apply humap_ok_nonneg.
  - apply lift_h_good. intros h0. apply hmap_ok_nonneg.
Qed.

(* ---------- a congruence for the interpreter ----------
   Two mechanics with the same sources and sentinels, whose callbacks return terms that
   differ only in operations agreeing on values without negative counts, evaluate alike -
   because every histogram the interpreter hands to an operation has no negative count. *)
Section Sim.
Context {T : Type} (O : ord T) {St : Type}.
Local Notation hist := (hist T).
Local Notation val := (val (T:=T)).
Local Notation ret := (ret (T:=T) (St:=St)).
Local Notation result := (result (T:=T)).
Variable pad : T.
Variable srcs : St -> list (source (T:=T)).
Variable sentinel : St -> hist.
Variables cb1 cb2 : St -> list result -> ret.
Variable fault : option nat.
Hypothesis Hsent : forall st, nonneg (sentinel st).

Definition vgood (v : val) : Prop := match v with VHist h => nonneg h | VOut _ => True end.

Inductive rsim : ret -> ret -> Prop :=
| rs_out o : rsim (ROut o) (ROut o)
| rs_hist h : nonneg h -> rsim (RHist h) (RHist h)
| rs_call st lim : rsim (RCall st lim) (RCall st lim)
| rs_un f f' r r' : rsim r r' ->
    (forall x, vgood x -> f x = f' x /\ forall y, f x = Ok y -> vgood y) -> rsim (RUn f r) (RUn f' r')
| rs_bin f f' r1 r1' r2 r2' : rsim r1 r1' -> rsim r2 r2' ->
    (forall x1 x2, vgood x1 -> vgood x2 -> f x1 x2 = f' x1 x2 /\ forall y, f x1 x2 = Ok y -> vgood y) ->
    rsim (RBin f r1 r2) (RBin f' r1' r2')
| rs_raise e : rsim (RRaise e) (RRaise e)
| rs_try c r1 r1' r2 r2' : rsim r1 r1' -> rsim r2 r2' -> rsim (RTry c r1 r2) (RTry c r1' r2').

Hypothesis Hcb : forall st rs, rsim (cb1 st rs) (cb2 st rs).

Lemma counts_gcd_nonneg (h : hist) : 0 <= counts_gcd h.
Proof. destruct h as [|oc h]; cbn [counts_gcd fold_right]; [lia|apply Z.gcd_nonneg]. Qed.
Lemma lowest_nonneg (h : hist) : nonneg h -> nonneg (lowest O h).
Proof.
  intros Hn. unfold lowest. destruct (_ && _); [exact Hn|]. apply nonneg_mk.
  intros oc Hin. apply in_map_iff in Hin. destruct Hin as [x [E Hx]]. subst oc. cbn [snd].
  apply filter_In in Hx. destruct Hx as [Hx _].
  apply Z_div_nonneg_nonneg; [apply Hn; exact Hx|apply counts_gcd_nonneg].
Qed.
Lemma lowest_if_top_nonneg c (h : hist) : nonneg h -> nonneg (lowest_if_top O c h).
Proof. intros Hn. unfold lowest_if_top. destruct (c_depth c =? 0); [apply lowest_nonneg|]; exact Hn. Qed.

Definition rec_ok (rec1 rec2 : evstate -> St -> option rawlimit -> evstate * res hist) : Prop :=
  forall s st lim, rec1 s st lim = rec2 s st lim /\ forall s' x, rec1 s st lim = (s', Ok x) -> nonneg x.

Lemma cev_sim rec1 rec2 : rec_ok rec1 rec2 -> forall r r', rsim r r' ->
  forall s, cev rec1 r s = cev rec2 r' s /\ forall s' v, cev rec1 r s = (s', Ok v) -> vgood v.
Proof.
  intros Hrec r r' Hs.
  induction Hs as [o|h Hh|st lim|f f' r r' Hr IH Hf|f f' r1 r1' r2 r2' Hr1 IH1 Hr2 IH2 Hf|e
                   |catch r1 r1' r2 r2' Hr1 IH1 Hr2 IH2]; intros s;
    cbn [cev].
  - split; [reflexivity|]. intros s' v E. injection E as _ <-. exact I.
  - split; [reflexivity|]. intros s' v E. injection E as _ <-. exact Hh.
  - destruct (Hrec s st lim) as [E G]. rewrite <- E. destruct (rec1 s st lim) as [s1 [x|e]].
    + split; [reflexivity|]. intros s' v E'. injection E' as _ <-. cbn [vgood]. apply (G s1). reflexivity.
    + split; [reflexivity|]. intros s' v E'. discriminate.
  - destruct (IH s) as [E G]. rewrite <- E. destruct (cev rec1 r s) as [s1 [x|e]].
    + assert (Gx : vgood x) by (apply (G s1); reflexivity). destruct (Hf x Gx) as [Ef Gf]. rewrite <- Ef.
      split; [reflexivity|]. intros s' v E'. injection E' as _ E'. apply Gf. exact E'.
    + split; [reflexivity|]. intros s' v E'. discriminate.
  - destruct (IH1 s) as [E1 G1]. rewrite <- E1. destruct (cev rec1 r1 s) as [s1 [x1|e]].
    + assert (Gx1 : vgood x1) by (apply (G1 s1); reflexivity).
      destruct (IH2 s1) as [E2 G2]. rewrite <- E2. destruct (cev rec1 r2 s1) as [s2 [x2|e]].
      * assert (Gx2 : vgood x2) by (apply (G2 s2); reflexivity). destruct (Hf x1 x2 Gx1 Gx2) as [Ef Gf].
        rewrite <- Ef. split; [reflexivity|]. intros s' v E'. injection E' as _ E'. apply Gf. exact E'.
      * split; [reflexivity|]. intros s' v E'. discriminate.
    + split; [reflexivity|]. intros s' v E'. discriminate.
  - split; [reflexivity|]. intros s' v E'. discriminate.
  - destruct (IH1 s) as [E1 G1]. rewrite <- E1. destruct (cev rec1 r1 s) as [s1 [x1|e]].
    + split; [reflexivity|]. intros s' v E'. injection E' as <- <-. apply (G1 s1). reflexivity.
    + destruct (catch e); [apply IH2|]. split; [reflexivity|]. intros s' v E'. discriminate.
Qed.

Lemma cloop_sim ev1 ev2 l cur tot st :
  (forall r r' s, rsim r r' -> ev1 r s = ev2 r' s) ->
  forall bs s acc, cloop sentinel cb1 fault ev1 l cur tot st bs s acc = cloop sentinel cb2 fault ev2 l cur tot st bs s acc.
Proof.
  intros Hev. induction bs as [|[rs c] bs IH]; intros s acc; [reflexivity|].
  rewrite !cloop_cons. cbv zeta. rewrite (Hev _ _ _ (Hcb st rs)).
  destruct (if match fault with Some i => Nat.eqb i (snd s) | None => false end
            then _ else _) as [s' [x|e]].
  - apply IH.
  - destruct e; try reflexivity. apply IH.
Qed.

Theorem call_sim : forall fuel s st lim,
  call O pad srcs sentinel cb1 fault fuel s st lim = call O pad srcs sentinel cb2 fault fuel s st lim /\
  forall s' x, call O pad srcs sentinel cb1 fault fuel s st lim = (s', Ok x) -> nonneg x.
Proof.
  induction fuel as [|fuel IH]; intros s st lim.
  - cbn [call]. split; [reflexivity|]. intros s' x E. discriminate.
  - rewrite !call_unfold. cbv zeta.
    destruct (match lim with Some l => norm_limit l | None => _ end) as [l|e].
    2:{ split; [reflexivity|]. intros s' x E. discriminate. }
    destruct (cut l _).
    { split; [reflexivity|]. intros s' x E. injection E as _ <-. apply lowest_if_top_nonneg. apply Hsent. }
    destruct (branches O pad (srcs st)) as [bs|e].
    2:{ split; [reflexivity|]. intros s' x E. discriminate. }
    rewrite <- (cloop_sim (cev (call O pad srcs sentinel cb1 fault fuel)) (cev (call O pad srcs sentinel cb2 fault fuel))).
    2:{ intros r r' s0 Hr. apply (cev_sim _ _ IH r r' Hr s0). }
    destruct (cloop _ _ _ _ _ _ _ _ _ _ _) as [s1 [ws|e]].
    2:{ split; [reflexivity|]. intros s' x E. discriminate. }
    destruct (aggw O ws) as [h|e] eqn:Ea.
    2:{ split; [reflexivity|]. intros s' x E. discriminate. }
    split; [reflexivity|]. intros s' x E. injection E as _ <-. apply lowest_if_top_nonneg.
    unfold aggw in Ea. apply mkH_ok in Ea. destruct Ea as [_ [_ Ea]]. exact Ea.
Qed.
End Sim.

(* ---------- explode with the executable vadd ---------- *)
Theorem explode_vadd_vadd' : forall pad fuel h pred lim isz infv, nonneg h ->
  explode VO pad vadd fuel h pred lim isz infv = explode VO pad vadd' fuel h pred lim isz infv.
Proof.
  intros pad fuel h pred lim isz infv Hn. unfold explode. f_equal.
  apply (call_sim VO pad (fun src => [SH src]) (fun _ => h)).
  - intros _. exact Hn.
  - intros src rs. destruct rs as [|[|o [|o' r]] [|r' rs]]; try apply rs_raise.
    destruct (pred o src); [|apply rs_out].
    destruct (Nat.eqb (length src) 1 && is_fractional lim).
    + destruct (isz o).
      * apply rs_hist. intros oc [E|[]]. subst oc. cbn [snd]. lia.
      * destruct (infv o) as [v|]; [|apply rs_raise].
        apply rs_hist. intros oc [E|[]]. subst oc. cbn [snd]. lia.
    + apply rs_bin; [apply rs_call|apply rs_out|].
      intros x1 x2 G1 _. split; [apply vadd_vadd'_agree; exact G1|]. intros y. apply vadd_good.
Qed.

(* C08_explode_is_truncated_reroll for the function the correspondence check runs *)
Theorem explode_int_Qc : forall pad fuel h pred n isz infv, nonneg h -> (n < fuel)%nat ->
  explode VO pad vadd fuel h pred (Some (RInt (Z.of_nat n))) isz infv =
  match reroll VO Vadd h pred n with Ok x => Ok (lowest VO x) | Err e => Err e end.
Proof.
  intros pad fuel h pred n isz infv Hn Hf. rewrite explode_vadd_vadd' by exact Hn.
  exact (explode_int VO pad Vadd vadd' vadd'_hist_out fuel h pred n isz infv Hf).
Qed.

Print Assumptions Vadd_comm.
Print Assumptions Vadd_assoc.
Print Assumptions Vadd_0_l.
Print Assumptions Vmulz_nat.
Print Assumptions p_h_correct_Qc.
Print Assumptions p_h_equivalent_Qc.
Print Assumptions p_h_all_Qc.
Print Assumptions p_h_order_stat_Qc.
Print Assumptions sum_h_cnt_Qc.
Print Assumptions sum_h_total_Qc.
Print Assumptions hmatmul_cnt_Qc.
Print Assumptions hmatmul_add_Qc.
Print Assumptions vadd_hist_out_nonneg.
Print Assumptions vadd_hist_out_neg.
Print Assumptions vadd_vadd'_agree.
Print Assumptions call_sim.
Print Assumptions explode_vadd_vadd'.
Print Assumptions explode_int_Qc.
