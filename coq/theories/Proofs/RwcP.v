(* P.rolls_with_counts equals brute force: for every pool of well-formed, non-empty
   histograms and every selection, the weighted list returned by [rwc] has the same
   weighted sum, for every test function F, as the brute-force enumeration of all
   ascending-sorted rolls with the selection applied to each of them. *)
From Coq Require Import ZArith List Lia Bool Arith Permutation Sorted.
From Dyce Require Import Base.Sums Base.Order Base.Hist Base.Brute Model.Select Model.Pool.
From Dyce Require Import Proofs.MergeP Proofs.SelectP Proofs.SeldP.
Import ListNotations. Open Scope Z_scope.

(* ------------------------------------------------------------------ *)
(* generic list facts                                                  *)

Lemma firstn_pad {A} ka (so full pads : list A) :
  firstn ka so = firstn ka full -> (length so <= length full)%nat ->
  length pads = (length full - length so)%nat ->
  firstn ka (so ++ pads) = firstn ka full.
Proof.
  intros He Hle Hp. destruct (le_lt_dec ka (length so)) as [Hk|Hk].
  - rewrite firstn_app. replace (ka - length so)%nat with 0%nat by lia.
    cbn [firstn]. rewrite app_nil_r. exact He.
  - assert (Hl : length (firstn ka so) = length (firstn ka full)) by (rewrite He; reflexivity).
    rewrite !firstn_length in Hl.
    assert (Hp0 : length pads = 0%nat) by lia.
    destruct pads as [|x pads]; [|cbn [length] in Hp0; lia].
    rewrite app_nil_r. exact He.
Qed.

Lemma lastn_pad {A} ka (so full pads : list A) :
  lastn ka so = lastn ka full -> (length so <= length full)%nat ->
  length pads = (length full - length so)%nat ->
  lastn ka (pads ++ so) = lastn ka full.
Proof.
  intros He Hle Hp. destruct (le_lt_dec ka (length so)) as [Hk|Hk].
  - rewrite <- He. unfold lastn. rewrite app_length, skipn_app.
    rewrite skipn_all2 by lia. cbn [app]. f_equal. lia.
  - assert (Hl : length (lastn ka so) = length (lastn ka full)) by (rewrite He; reflexivity).
    unfold lastn in Hl. rewrite !skipn_length in Hl.
    assert (Hp0 : length pads = 0%nat) by lia.
    destruct pads as [|x pads]; [|cbn [length] in Hp0; lia].
    cbn [app]. exact He.
Qed.

Lemma getitems_skipn_eq {A} d (r full : list A) idx :
  skipn d r = skipn d full -> Forall (fun i => (d <= i)%nat) idx ->
  getitems r idx = getitems full idx.
Proof.
  intros He H. apply getitems_ext. eapply Forall_impl; [|exact H].
  intros i Hi; cbv beta in Hi.
  replace i with (d + (i - d))%nat by lia.
  rewrite <- !nth_error_skipn_add, He. reflexivity.
Qed.

(* ------------------------------------------------------------------ *)
(* what the enumerated (partially selected and padded) roll has to share
   with the full sorted roll *)

Definition agree {A} (i : option Z) (r full : list A) : Prop :=
  length r = length full /\
  match i with
  | None => r = full
  | Some kk => if kk <? 0 then lastn (Z.abs_nat kk) r = lastn (Z.abs_nat kk) full
               else firstn (Z.abs_nat kk) r = firstn (Z.abs_nat kk) full
  end.

Lemma agree_all {A} (r full : list A) : agree (Some (Z.of_nat (length full))) r full -> r = full.
Proof.
  intros [Hl H]. destruct (Z.ltb_spec (Z.of_nat (length full)) 0) as [L|L]; [lia|].
  rewrite Zabs2Nat.id in H. rewrite !firstn_all2 in H by lia. exact H.
Qed.

Lemma agree_getitems {A} N idx i (r full : list A) :
  Forall (fun j => (j < N)%nat) idx -> analyze N idx = i -> idx <> [] ->
  length full = N -> agree i r full -> getitems r idx = getitems full idx.
Proof.
  intros Hb Ha Hne HN [Hl H]. destruct i as [z|]; [|rewrite H; reflexivity].
  destruct (analyze_sound N idx z Hb Ha)
    as [(_ & He) | [(Hr & Hi) | [(Hr & Hi) | (m & Hm & Hz & Hn & _)]]].
  - contradiction.
  - destruct (Z.ltb_spec z 0) as [L|L]; [lia|].
    assert (Hi' : Forall (fun i => (i < Z.abs_nat z)%nat) idx).
    { eapply Forall_impl; [|exact Hi]. intros j Hj; cbv beta in Hj. lia. }
    rewrite <- (getitems_firstn r _ idx Hi'), <- (getitems_firstn full _ idx Hi'), H. reflexivity.
  - destruct (Z.ltb_spec z 0) as [L|L]; [|lia].
    unfold lastn in H. rewrite Hl in H.
    apply (getitems_skipn_eq _ _ _ _ H).
    eapply Forall_impl; [|exact Hi]. intros j Hj; cbv beta in Hj. lia.
  - destruct (Z.ltb_spec z 0) as [L|L]; [nia|].
    rewrite !firstn_all2 in H by nia. rewrite H. reflexivity.
Qed.

Section P.
Context {T : Type} (O : ord T).
Local Notation hist := (hist T).

Definition okh (h : hist) : Prop := sasc O (keys h) /\ nonneg h /\ h <> [].
Definition okpool (p : list hist) : Prop :=
  Forall (fun h => sasc O (keys h) /\ nonneg h /\ h <> []) p.

(* ------------------------------------------------------------------ *)
(* 1. grouping identical dice                                          *)

Lemma items_eqb_eq (a b : hist) : items_eqb O a b = true <-> a = b.
Proof.
  revert b. induction a as [|[o c] a IH]; intros [|[o' c'] b]; cbn [items_eqb].
  - split; reflexivity.
  - split; discriminate.
  - split; discriminate.
  - unfold item_eqb. cbn [fst snd]. rewrite !andb_true_iff, eqb_eq, Z.eqb_eq, IH.
    split; [intros [[-> ->] ->]; reflexivity|intros E; injection E as -> -> ->; auto].
Qed.

Lemma h_groups_expand p : expand_groups (h_groups O p) = p.
Proof.
  induction p as [|h p IH]; [reflexivity|]. cbn [h_groups].
  destruct (h_groups O p) as [|[h' n] gs] eqn:E.
  - unfold expand_groups in *. cbn [map concat] in IH. subst p. reflexivity.
  - destruct (items_eqb O h h') eqn:Eq.
    + apply items_eqb_eq in Eq. subst h'.
      unfold expand_groups in *. cbn [map concat fst snd repeat app] in *. f_equal. exact IH.
    + unfold expand_groups in *. cbn [map concat fst snd repeat app] in *. f_equal. exact IH.
Qed.

Lemma h_groups_pos p : Forall (fun g => (1 <= snd g)%nat) (h_groups O p).
Proof.
  induction p as [|h p IH]; [constructor|]. cbn [h_groups].
  destruct (h_groups O p) as [|[h' n] gs] eqn:E.
  - constructor; [cbn [snd]; lia|constructor].
  - destruct (items_eqb O h h').
    + inversion IH as [|? ? H1 H2]; subst. constructor; [cbn [snd]; lia|exact H2].
    + constructor; [cbn [snd]; lia|exact IH].
Qed.

Lemma expand_groups_cons (h : hist) n gs :
  expand_groups ((h, n) :: gs) = repeat h n ++ expand_groups gs.
Proof. reflexivity. Qed.

Lemma groups_ok gs : okpool (expand_groups gs) -> Forall (fun g => (1 <= snd g)%nat) gs ->
  Forall (fun g => okh (fst g) /\ (1 <= snd g)%nat) gs.
Proof.
  induction gs as [|[h n] gs IH]; intros Hok Hpos; [constructor|].
  rewrite expand_groups_cons in Hok. unfold okpool in Hok. apply Forall_app in Hok.
  destruct Hok as [Hh Hok]. inversion Hpos as [|? ? H1 H2]; subst. cbn [snd] in H1.
  constructor; [|apply IH; assumption]. cbn [fst snd]. split; [|exact H1].
  destruct n as [|n]; [lia|]. cbn [repeat] in Hh. inversion Hh; subst. assumption.
Qed.

Definition gtotal (gs : list (hist * nat)) : nat := fold_right (fun g acc => (snd g + acc)%nat) 0%nat gs.
Lemma gtotal_expand gs : gtotal gs = length (expand_groups gs).
Proof.
  induction gs as [|[h n] gs IH]; [reflexivity|].
  rewrite expand_groups_cons, app_length, repeat_length, <- IH. reflexivity.
Qed.

(* ------------------------------------------------------------------ *)
(* 2. one group of identical dice                                      *)

Lemma hom_full (h : hist) n F : okh h -> (1 <= n)%nat ->
  wsum (rwc_hom n h (Z.of_nat n) None) F = bsum O h n F.
Proof.
  intros (Hs & Hnn & Hne) Hn.
  rewrite (rwc_hom_correct O h n (Z.of_nat n) None F Hs Hnn Hne) by lia.
  cbv zeta. destruct (Z.ltb_spec (Z.of_nat n) 0) as [L|L]; [lia|].
  apply bsum_ext_inh. intros l _ _ Hl. rewrite firstn_all2 by lia. reflexivity.
Qed.

(* the homogeneous branch of rwc *)
Lemma rolls_hom pad (h : hist) n i G : okh h -> (1 <= n)%nat -> i <> Some 0 ->
  (forall r full, sorted O full -> length full = n -> agree i r full -> G r = G full) ->
  wsum (match i with
        | Some ii => if negb (ii =? 0) && (Z.abs ii <? Z.of_nat n) then rwc_hom n h ii (Some pad)
                     else rwc_hom n h (Z.of_nat n) None
        | None => rwc_hom n h (Z.of_nat n) None
        end) G = bsum O h n G.
Proof.
  intros Hok Hn Hi HG. pose proof (hom_full h n G Hok Hn) as Hfull.
  destruct i as [ii|]; [|exact Hfull].
  destruct (Z.eqb_spec ii 0) as [E|NE]; [subst ii; contradiction|]. cbn [negb andb].
  destruct (Z.ltb_spec (Z.abs ii) (Z.of_nat n)) as [L|L]; [|exact Hfull].
  destruct Hok as (Hs & Hnn & Hne).
  rewrite (rwc_hom_correct O h n ii (Some pad) G Hs Hnn Hne) by lia.
  cbv zeta. apply bsum_ext_inh. intros l _ Hsl Hl. apply HG; [exact Hsl|exact Hl|].
  unfold agree. set (ka := Z.abs_nat ii). assert (Hka : (ka <= n)%nat) by lia.
  destruct (Z.ltb_spec ii 0) as [L0|L0].
  - split.
    + rewrite app_length, repeat_length, skipn_length. lia.
    + apply lastn_pad.
      * unfold lastn. rewrite skipn_length, Hl. replace (n - (n - ka) - ka)%nat with 0%nat by lia. reflexivity.
      * rewrite skipn_length. lia.
      * rewrite repeat_length, skipn_length. lia.
  - split.
    + rewrite app_length, repeat_length, firstn_length. lia.
    + apply firstn_pad.
      * rewrite firstn_firstn. rewrite Nat.min_id. reflexivity.
      * rewrite firstn_length. lia.
      * rewrite repeat_length, firstn_length. lia.
Qed.

(* ------------------------------------------------------------------ *)
(* 3. several groups                                                   *)

Definition gpart {A} (k : option Z) (l : list A) : list A :=
  match k with
  | None => l
  | Some kk => if kk <? 0 then lastn (Z.abs_nat kk) l else firstn (Z.abs_nat kk) l
  end.

Definition kgroup (k : option Z) (n : nat) : Z :=
  match k with
  | Some kk => if negb (kk =? 0) && (Z.abs kk <? Z.of_nat n) then kk else Z.of_nat n
  | None => Z.of_nat n
  end.

Definition hpost {A} (pad : A) (N : nat) (k : option Z) (so : list A) : list A :=
  match k with
  | Some kk => if kk <? 0 then repeat pad (N - length so) ++ so else so ++ repeat pad (N - length so)
  | None => so
  end.

Lemma rwc_het_eq pad groups k :
  rwc_het O pad groups k =
  match groups with
  | [] => []
  | _ => map (fun v => (hpost pad (gtotal groups) k (isort O (concat (fst v))), snd v))
             (rwc_product (map (fun '(h, n) => rwc_hom n h (kgroup k n) None) groups))
  end.
Proof. reflexivity. Qed.

(* one group's enumeration, as used by the heterogeneous path *)
Lemma group_enum (h : hist) n k F : okh h -> (1 <= n)%nat -> k <> Some 0 ->
  wsum (rwc_hom n h (kgroup k n) None) F = bsum O h n (fun l => F (gpart k l)).
Proof.
  intros Hok Hn Hk. pose proof (hom_full h n F Hok Hn) as Hfull.
  destruct k as [kk|]; [|exact Hfull]. unfold kgroup, gpart.
  destruct (Z.eqb_spec kk 0) as [E|NE]; [subst kk; contradiction|]. cbn [negb andb].
  destruct (Z.ltb_spec (Z.abs kk) (Z.of_nat n)) as [L|L].
  - destruct Hok as (Hs & Hnn & Hne).
    rewrite (rwc_hom_correct O h n kk None F Hs Hnn Hne) by lia.
    cbv zeta. apply bsum_ext_inh. intros l _ _ Hl.
    destruct (kk <? 0); [|reflexivity]. unfold lastn. rewrite Hl. reflexivity.
  - rewrite Hfull. apply bsum_ext_inh. intros l _ _ Hl.
    destruct (kk <? 0).
    + unfold lastn. replace (length l - Z.abs_nat kk)%nat with 0%nat by lia. reflexivity.
    + rewrite firstn_all2 by lia. reflexivity.
Qed.

(* weighted sums over the product of the groups' enumerations *)
Definition psum (L : list (list (list T) * Z)) (G : list (list T) -> Z) : Z :=
  lsum (fun v => snd v * G (fst v)) L.

Lemma psum_product_cons g gs G :
  psum (rwc_product (g :: gs)) G =
  wsum g (fun l => psum (rwc_product gs) (fun ls => G (l :: ls))).
Proof.
  cbn [rwc_product]. unfold psum. rewrite lsum_flat_map, wsum_as_lsum.
  apply lsum_ext. intros rc _. rewrite lsum_map. cbn [fst snd]. rewrite <- lsum_scale.
  apply lsum_ext. intros v _. ring.
Qed.

Lemma wsum_map_psum (g : list (list T) -> list T) L F :
  wsum (map (fun v => (g (fst v), snd v)) L) F = psum L (fun ls => F (g ls)).
Proof. unfold psum. induction L as [|x L IH]; cbn [wsum map lsum fst snd]; [reflexivity|]. rewrite IH. reflexivity. Qed.

Definition okg (g : hist * nat) : Prop := okh (fst g) /\ (1 <= snd g)%nat.

Lemma het_product groups k : Forall okg groups -> k <> Some 0 -> forall G,
  psum (rwc_product (map (fun '(h, n) => rwc_hom n h (kgroup k n) None) groups)) G =
  gsum O groups (fun ls => G (map (gpart k) ls)).
Proof.
  intros Hok Hk. induction Hok as [|[h n] groups [Hh Hn] _ IH]; intros G.
  - cbn [map rwc_product gsum]. unfold psum. cbn [lsum fst snd]. ring.
  - cbn [fst snd] in Hh, Hn. cbn [map]. rewrite psum_product_cons.
    rewrite (group_enum h n k _ Hh Hn Hk). cbn [gsum].
    apply bsum_ext. intros l. rewrite IH. apply gsum_ext. intros ls. reflexivity.
Qed.

(* extensionality of gsum on sorted lists of the right lengths *)
Lemma gsum_ext_s gs : forall F G,
  (forall ls, Forall (sorted O) ls -> map (@length T) ls = map snd gs -> F ls = G ls) ->
  gsum O gs F = gsum O gs G.
Proof.
  induction gs as [|[h n] gs IH]; intros F G H; cbn [gsum].
  - apply H; [constructor|reflexivity].
  - apply bsum_ext_inh. intros l _ Hs Hl. apply IH. intros ls Hss Hls.
    apply H; [constructor; assumption|]. cbn [map snd]. rewrite Hl, Hls. reflexivity.
Qed.

Lemma concat_lengths (ls : list (list T)) gs :
  map (@length T) ls = map snd gs -> length (concat ls) = gtotal gs.
Proof.
  revert gs. induction ls as [|l ls IH]; intros [|g gs] H; try discriminate; [reflexivity|].
  cbn [map] in H. injection H as H1 H2. cbn [concat gtotal fold_right].
  rewrite app_length, (IH gs H2), H1. reflexivity.
Qed.

Lemma concat_shrink_le (f : list T -> list T) (ls : list (list T)) :
  (forall l, (length (f l) <= length l)%nat) ->
  (length (concat (map f ls)) <= length (concat ls))%nat.
Proof.
  intros Hf. induction ls as [|l ls IH]; [cbn; lia|]. cbn [map concat]. rewrite !app_length.
  pose proof (Hf l). lia.
Qed.

Lemma map_sorted_isort (f : list T -> list T) ls : Forall (sorted O) ls ->
  map (fun l => f (isort O l)) ls = map f ls.
Proof.
  intros H. apply map_ext_in. intros l Hl. rewrite Forall_forall in H.
  rewrite (isort_id O l (H l Hl)). reflexivity.
Qed.

(* the padded merge of the groups' partial rolls agrees with the full sorted roll *)
Lemma het_agree pad k (ls : list (list T)) : Forall (sorted O) ls -> k <> Some 0 ->
  agree k (hpost pad (length (concat ls)) k (isort O (concat (map (gpart k) ls))))
          (isort O (concat ls)).
Proof.
  intros Hs Hk. destruct k as [kk|].
  2:{ unfold agree, hpost. cbn [gpart]. rewrite map_id. split; reflexivity. }
  unfold agree, hpost, gpart. set (ka := Z.abs_nat kk).
  assert (HN : length (concat ls) = length (isort O (concat ls))) by (rewrite isort_length; reflexivity).
  rewrite HN. set (full := isort O (concat ls)) in *.
  destruct (kk <? 0) eqn:L.
  - set (so := isort O (concat (map (fun l => lastn ka l) ls))).
    assert (Hlen : (length so <= length full)%nat).
    { unfold so, full. rewrite !isort_length. apply concat_shrink_le. intros l. unfold lastn. rewrite skipn_length. lia. }
    assert (He : lastn ka so = lastn ka full).
    { unfold so, full. rewrite (lastn_isort_concat O ka ls).
      rewrite (map_sorted_isort (lastn ka) ls Hs). reflexivity. }
    split; [rewrite app_length, repeat_length; lia|].
    apply lastn_pad; [exact He|exact Hlen|apply repeat_length].
  - set (so := isort O (concat (map (fun l => firstn ka l) ls))).
    assert (Hlen : (length so <= length full)%nat).
    { unfold so, full. rewrite !isort_length. apply concat_shrink_le. intros l. rewrite firstn_length. lia. }
    assert (He : firstn ka so = firstn ka full).
    { unfold so, full. rewrite (firstn_isort_concat O ka ls).
      rewrite (map_sorted_isort (firstn ka) ls Hs). reflexivity. }
    split; [rewrite app_length, repeat_length; lia|].
    apply firstn_pad; [exact He|exact Hlen|apply repeat_length].
Qed.

(* the heterogeneous branch of rwc *)
Lemma rolls_het pad groups i G : groups <> [] -> Forall okg groups -> i <> Some 0 ->
  (forall r full, sorted O full -> length full = gtotal groups -> agree i r full -> G r = G full) ->
  wsum (rwc_het O pad groups i) G = pbsum O (expand_groups groups) G.
Proof.
  intros Hne Hok Hi HG. rewrite pbsum_groups, rwc_het_eq.
  destruct groups as [|g0 gs0] eqn:Eg; [contradiction|]. rewrite <- Eg in *. clear Hne.
  rewrite (wsum_map_psum (fun ls => hpost pad (gtotal groups) i (isort O (concat ls)))).
  rewrite (het_product groups i Hok Hi).
  apply gsum_ext_s. intros ls Hs Hl.
  pose proof (concat_lengths ls groups Hl) as HN.
  apply HG; [apply isort_sorted|rewrite isort_length; exact HN|].
  rewrite <- HN. apply het_agree; assumption.
Qed.

(* ------------------------------------------------------------------ *)
(* 4. rolls_with_counts                                                *)

Definition isz (i : option Z) : bool := match i with Some 0 => true | _ => false end.
Lemma isz_false i : i <> Some 0 -> isz i = false.
Proof. destruct i as [[|q|q]|]; intros H; try reflexivity. contradiction. Qed.

Definition rolls_of (pad : T) (p : list hist) (i : option Z) : list (list T * Z) :=
  match h_groups O p with
  | [(h, hn)] =>
      match i with
      | Some ii => if negb (ii =? 0) && (Z.abs ii <? Z.of_nat (length p)) then rwc_hom (length p) h ii (Some pad)
                   else rwc_hom (length p) h (Z.of_nat (length p)) None
      | None => rwc_hom (length p) h (Z.of_nat (length p)) None
      end
  | groups => rwc_het O pad groups i
  end.

Lemma rwc_unfold pad p which :
  rwc O pad p which =
  match (match which with
         | None => Ok (Some (Z.of_nat (length p)), None)
         | Some w => match resolve (length p) w with
                     | Ok idx => Ok (analyze (length p) idx, Some idx)
                     | Err e => Err e
                     end
         end) with
  | Err e => Err e
  | Ok (i, oidx) =>
      Ok (map (fun rc => (match oidx with Some idx => getitems (fst rc) idx | None => fst rc end, snd rc))
              (if isz i || Nat.eqb (length p) 0 then [] else rolls_of pad p i))
  end.
Proof. reflexivity. Qed.

Lemma rolls_core pad p i G : okpool p -> p <> [] -> i <> Some 0 ->
  (forall r full, sorted O full -> length full = length p -> agree i r full -> G r = G full) ->
  wsum (rolls_of pad p i) G = pbsum O p G.
Proof.
  intros Hok Hne Hi HG. unfold rolls_of.
  pose proof (h_groups_expand p) as Hex. pose proof (h_groups_pos p) as Hpos.
  assert (Hg : Forall okg (h_groups O p)).
  { apply groups_ok; [rewrite Hex; exact Hok|exact Hpos]. }
  pose proof (gtotal_expand (h_groups O p)) as Htot. rewrite Hex in Htot.
  destruct (h_groups O p) as [|[h hn] [|g2 gs]] eqn:E.
  - cbn in Hex. congruence.
  - rewrite expand_groups_cons in Hex. unfold expand_groups in Hex. cbn [map concat] in Hex.
    rewrite app_nil_r in Hex. cbn [gtotal fold_right snd] in Htot.
    assert (Hn : length p = hn) by lia. rewrite Hn in *. rewrite <- Hex, pbsum_repeat.
    inversion Hg as [|? ? [Hh Hh1] _]; subst. cbn [fst snd] in Hh, Hh1.
    apply rolls_hom; assumption.
  - rewrite <- Hex. apply rolls_het; [discriminate|exact Hg|exact Hi|].
    rewrite Htot. exact HG.
Qed.

Lemma length_pos_eqb (p : list hist) : p <> [] -> Nat.eqb (length p) 0 = false.
Proof. destruct p; [contradiction|reflexivity]. Qed.

(* no argument: every ascending-sorted roll with its exact count *)
Theorem rwc_none_correct pad p : okpool p -> p <> [] ->
  exists rolls, rwc O pad p None = Ok rolls /\ forall F, wsum rolls F = pbsum O p F.
Proof.
  intros Hok Hne. rewrite rwc_unfold.
  assert (Hi : Some (Z.of_nat (length p)) <> Some 0).
  { destruct p; [contradiction|]. cbn [length]. intros H. injection H as H. lia. }
  rewrite (isz_false _ Hi), (length_pos_eqb p Hne). cbn [orb].
  eexists. split; [reflexivity|]. intros F.
  rewrite (wsum_map_fst (fun t => t)).
  apply rolls_core; [exact Hok|exact Hne|exact Hi|].
  intros r full _ Hl Ha. rewrite <- Hl in Ha. rewrite (agree_all r full Ha). reflexivity.
Qed.

(* a selection that resolves to the position list idx *)
Theorem rwc_some_correct pad p w idx : okpool p -> p <> [] -> resolve (length p) w = Ok idx ->
  exists rolls, rwc O pad p (Some w) = Ok rolls /\
    (idx = [] -> rolls = []) /\
    (idx <> [] -> forall F, wsum rolls F = pbsum O p (fun l => F (getitems l idx))).
Proof.
  intros Hok Hne Hr. rewrite rwc_unfold, Hr.
  pose proof (resolve_bound _ _ _ Hr) as Hb.
  eexists. split; [reflexivity|]. split.
  - intros ->. rewrite analyze_nil. reflexivity.
  - intros Hidx F.
    assert (Hi : analyze (length p) idx <> Some 0).
    { intros H. apply Hidx. exact (analyze_zero_inv _ _ Hb H). }
    rewrite (isz_false _ Hi), (length_pos_eqb p Hne). cbn [orb].
    rewrite (wsum_map_fst (fun t => getitems t idx)).
    apply (rolls_core pad p (analyze (length p) idx) (fun t => F (getitems t idx))); [exact Hok|exact Hne|exact Hi|].
    intros r full _ Hl Ha. f_equal.
    exact (agree_getitems (length p) idx _ r full Hb eq_refl Hidx Hl Ha).
Qed.

(* errors of the selection surface unchanged *)
Theorem rwc_error pad p w e : resolve (length p) w = Err e -> rwc O pad p (Some w) = Err e.
Proof. intros H. rewrite rwc_unfold, H. reflexivity. Qed.

(* the empty pool yields nothing *)
Theorem rwc_empty_pool pad which rolls : rwc O pad [] which = Ok rolls -> rolls = [].
Proof.
  rewrite rwc_unfold. cbn [length Nat.eqb]. intros H.
  destruct which as [w|].
  - destruct (resolve 0 w) as [idx|e]; [|discriminate].
    rewrite orb_true_r in H. injection H as <-. reflexivity.
  - rewrite orb_true_r in H. injection H as <-. reflexivity.
Qed.

(* counts sum to the pool's total for every non-empty selection *)
Corollary rwc_counts_sum pad p w idx rolls : okpool p -> p <> [] -> resolve (length p) w = Ok idx -> idx <> [] ->
  rwc O pad p (Some w) = Ok rolls -> lsum snd rolls = ptotal p.
Proof.
  intros Hok Hne Hr Hidx Hrw.
  destruct (rwc_some_correct pad p w idx Hok Hne Hr) as (rolls' & Hrw' & _ & Hsum).
  rewrite Hrw in Hrw'. injection Hrw' as <-.
  specialize (Hsum Hidx (fun _ => 1)). cbv beta in Hsum. rewrite pbsum_const, wsum_as_lsum in Hsum.
  rewrite <- (Z.mul_1_r (ptotal p)), <- Hsum. apply lsum_ext. intros x _. ring.
Qed.

Corollary rwc_none_counts_sum pad p rolls : okpool p -> p <> [] ->
  rwc O pad p None = Ok rolls -> lsum snd rolls = ptotal p.
Proof.
  intros Hok Hne Hrw.
  destruct (rwc_none_correct pad p Hok Hne) as (rolls' & Hrw' & Hsum).
  rewrite Hrw in Hrw'. injection Hrw' as <-.
  specialize (Hsum (fun _ => 1)). rewrite pbsum_const, wsum_as_lsum in Hsum.
  rewrite <- (Z.mul_1_r (ptotal p)), <- Hsum. apply lsum_ext. intros x _. ring.
Qed.

End P.

Print Assumptions rwc_none_correct.
Print Assumptions rwc_some_correct.
Print Assumptions rwc_error.
Print Assumptions rwc_empty_pool.
Print Assumptions rwc_counts_sum.
Print Assumptions rwc_none_counts_sum.
