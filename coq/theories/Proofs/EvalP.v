(* Properties of the @expandable evaluator model (Model/Eval.v):
   A. the ContextVar never leaks, the invocation counter only grows, a consumed fault has no
      influence on later evaluations, exception propagation (C14);
   B. aggregate_weighted is the exact weighted mixture of its kept branches (C06);
   C. foreach on non-recursive callbacks is lowest_terms of the aggregate over the product of
      the source results. *)
From Coq Require Import ZArith QArith List Bool Arith Lia.
From Dyce Require Import Base.Sums Base.Order Base.Hist Base.Brute Model.Select Model.Pool
  Model.Equality Model.Eval Model.Explode.
Import ListNotations.
Open Scope Z_scope.

Section EP.
Context {T : Type} (O : ord T) {St : Type}.
Variable pad : T.
Variable srcs : St -> list (source (T:=T)).
Variable sentinel : St -> hist T.
Variable cb : St -> list (result (T:=T)) -> ret (T:=T) (St:=St).

(* ------------------------------------------------------------------------------------ *)
(* The two inner fixpoints of [call] as standalone definitions                            *)
(* ------------------------------------------------------------------------------------ *)
Section Inner.
Variable callf : evstate -> St -> option rawlimit -> evstate * res (hist T).

Fixpoint ev (r : ret (T:=T) (St:=St)) (s : evstate) {struct r} : evstate * res (val (T:=T)) :=
  match r with
  | ROut o => (s, Ok (VOut o))
  | RHist h => (s, Ok (VHist h))
  | RCall st' lim' => match callf s st' lim' with
                      | (s', Ok h) => (s', Ok (VHist h))
                      | (s', Err e) => (s', Err e)
                      end
  | RUn f r' => match ev r' s with
                | (s', Ok x) => (s', f x)
                | (s', Err e) => (s', Err e)
                end
  | RBin f r1 r2 => match ev r1 s with
                    | (s1, Ok x1) => match ev r2 s1 with
                                     | (s2, Ok x2) => (s2, f x1 x2)
                                     | (s2, Err e) => (s2, Err e)
                                     end
                    | (s1, Err e) => (s1, Err e)
                    end
  | RRaise e => (s, Err e)
  | RTry c r1 r2 => match ev r1 s with
                    | (s1, Ok x) => (s1, Ok x)
                    | (s1, Err e) => if c e then ev r2 s1 else (s1, Err e)
                    end
  end.

Variable fault : option nat.
Variable st : St.
Variable l : limit.
Variable cur : ctxt.
Variable tot : Z.

Definition newctx (cnt : Z) : ctxt :=
  {| c_lim := Some l; c_depth := c_depth cur + 1;
     c_prec := (c_prec cur * (inject_Z cnt / inject_Z (if tot =? 0 then 1 else tot)))%Q |}.

Definition fires (n : nat) : bool := match fault with Some i => Nat.eqb i n | None => false end.

(* one callback invocation, with the context set *)
Definition branch_eval (s : evstate) (rs : list (result (T:=T))) (cnt : Z) : evstate * res (val (T:=T)) :=
  if fires (snd s)
  then ((Some (newctx cnt), Datatypes.S (snd s)), Err (UserError 7))
  else ev (cb st rs) (Some (newctx cnt), Datatypes.S (snd s)).

Fixpoint go (bs : list (list (result (T:=T)) * Z)) (s : evstate) (acc : list (val (T:=T) * Z))
  : evstate * res (list (val (T:=T) * Z)) :=
  match bs with
  | [] => (s, Ok (rev acc))
  | (rs, cnt) :: bs' =>
    let '(s', r) := branch_eval s rs cnt in
    let s'' := (fst s, snd s') in
    match r with
    | Ok x => go bs' s'' ((x, cnt) :: acc)
    | Err RecursionError => go bs' s'' ((VHist (sentinel st), cnt) :: acc)
    | Err e => (s'', Err e)
    end
  end.
End Inner.

Definition cur_of (s : evstate) : ctxt := match fst s with Some c => c | None => ctxt0 end.
Definition nlimit (s : evstate) (lim : option rawlimit) : res limit :=
  match lim with
  | None => match c_lim (cur_of s) with None => Ok (LInt 1) | Some l => norm_limit (raw_of l) end
  | Some l => norm_limit l
  end.

(* [call] in terms of the standalone fixpoints: by computation *)
Lemma call_unfold fault fuel s st lim :
  call O pad srcs sentinel cb fault (Datatypes.S fuel) s st lim =
  match nlimit s lim with
  | Err e => (s, Err e)
  | Ok l =>
    if cut l (cur_of s) then (s, Ok (lowest_if_top O (cur_of s) (sentinel st))) else
    match branches O pad (srcs st) with
    | Err e => (s, Err e)
    | Ok bs =>
      match go (call O pad srcs sentinel cb fault fuel) fault st l (cur_of s) (srcs_total (srcs st)) bs s [] with
      | (s', Ok ws) => match aggw O ws with
                       | Ok h => (s', Ok (lowest_if_top O (cur_of s) h))
                       | Err e => (s', Err e)
                       end
      | (s', Err e) => (s', Err e)
      end
    end
  end.
Proof. reflexivity. Qed.

(* ------------------------------------------------------------------------------------ *)
(* PART A                                                                                 *)
(* ------------------------------------------------------------------------------------ *)
Local Notation callT := (evstate -> St -> option rawlimit -> evstate * res (hist T)).

Definition restoring (f : callT) : Prop := forall s st lim, fst (fst (f s st lim)) = fst s.
Definition monotone (f : callT) : Prop := forall s st lim, (snd s <= snd (fst (f s st lim)))%nat.

Lemma ev_restores f : restoring f -> forall r s, fst (fst (ev f r s)) = fst s.
Proof.
  intros Hf. induction r as [o|h|st' lim'|g r IH|g r1 IH1 r2 IH2|e|c r1 IH1 r2 IH2]; intros s; cbn [ev]; try reflexivity.
  - specialize (Hf s st' lim'). destruct (f s st' lim') as [s' [h|e]]; exact Hf.
  - specialize (IH s). destruct (ev f r s) as [s' [x|e]]; exact IH.
  - specialize (IH1 s). destruct (ev f r1 s) as [s1 [x1|e]]; [|exact IH1].
    specialize (IH2 s1). destruct (ev f r2 s1) as [s2 [x2|e]]; cbn [fst] in *; congruence.
  - specialize (IH1 s). destruct (ev f r1 s) as [s1 [x1|e]]; [exact IH1|].
    destruct (c e); [|exact IH1]. rewrite IH2. exact IH1.
Qed.

Lemma ev_mono f : monotone f -> forall r s, (snd s <= snd (fst (ev f r s)))%nat.
Proof.
  intros Hf. induction r as [o|h|st' lim'|g r IH|g r1 IH1 r2 IH2|e|c r1 IH1 r2 IH2]; intros s; cbn [ev]; try (cbn [fst]; lia).
  - specialize (Hf s st' lim'). destruct (f s st' lim') as [s' [h|e]]; exact Hf.
  - specialize (IH s). destruct (ev f r s) as [s' [x|e]]; exact IH.
  - specialize (IH1 s). destruct (ev f r1 s) as [s1 [x1|e]]; [|exact IH1].
    specialize (IH2 s1). destruct (ev f r2 s1) as [s2 [x2|e]]; cbn [fst] in *; lia.
  - specialize (IH1 s). destruct (ev f r1 s) as [s1 [x1|e]]; [exact IH1|].
    destruct (c e); [|exact IH1]. specialize (IH2 s1). cbn [fst] in *. lia.
Qed.

(* ---- try / except inside a callback ---- *)

(* one step of the evaluation of a try term: the handler runs only on a caught exception, from the
   state the protected term left behind *)
Lemma call_try_catches f c r1 r2 s :
  ev f (RTry c r1 r2) s =
  match ev f r1 s with
  | (s1, Ok x) => (s1, Ok x)
  | (s1, Err e) => if c e then ev f r2 s1 else (s1, Err e)
  end.
Proof. reflexivity. Qed.

(* a failed protected term leaves nothing behind in the ContextVar: the handler r2 is evaluated from
   a state whose ContextVar is exactly the one the protected term r1 started with (only the invocation
   counter has advanced), so whatever the handler calls inherits the enclosing limit, depth and
   precision *)
Theorem ev_try_handler_context f : restoring f -> forall c r1 r2 s s1 e,
  ev f r1 s = (s1, Err e) ->
  fst s1 = fst s /\ (c e = true -> ev f (RTry c r1 r2) s = ev f r2 s1).
Proof.
  intros Hf c r1 r2 s s1 e H. split.
  - pose proof (ev_restores f Hf r1 s) as R. rewrite H in R. exact R.
  - intros C. cbn [ev]. rewrite H, C. reflexivity.
Qed.

Lemma go_restores f fault st l cur tot : forall bs s acc,
  fst (fst (go f fault st l cur tot bs s acc)) = fst s.
Proof.
  induction bs as [|[rs cnt] bs IH]; intros s acc; cbn [go]; [reflexivity|].
  destruct (branch_eval f fault st l cur tot s rs cnt) as [s' [x|e]].
  - rewrite IH. reflexivity.
  - destruct e; try reflexivity. rewrite IH. reflexivity.
Qed.

Lemma branch_eval_mono f fault st l cur tot : monotone f -> forall s rs cnt,
  (Datatypes.S (snd s) <= snd (fst (branch_eval f fault st l cur tot s rs cnt)))%nat.
Proof.
  intros Hf s rs cnt. unfold branch_eval. destruct (fires fault (snd s)); [cbn [fst snd]; lia|].
  pose proof (ev_mono f Hf (cb st rs) (Some (newctx l cur tot cnt), Datatypes.S (snd s))) as H.
  cbn [snd] in H. exact H.
Qed.

Lemma go_mono f fault st l cur tot : monotone f -> forall bs s acc,
  (snd s <= snd (fst (go f fault st l cur tot bs s acc)))%nat.
Proof.
  intros Hf. induction bs as [|[rs cnt] bs IH]; intros s acc; cbn [go]; [cbn [fst]; lia|].
  pose proof (branch_eval_mono f fault st l cur tot Hf s rs cnt) as Hb.
  destruct (branch_eval f fault st l cur tot s rs cnt) as [s' [x|e]]; cbn [fst] in Hb.
  - specialize (IH (fst s, snd s') ((x, cnt) :: acc)). cbn [snd] in IH. lia.
  - destruct e; try (cbn [fst snd]; lia).
    specialize (IH (fst s, snd s') ((VHist (sentinel st), cnt) :: acc)). cbn [snd] in IH. lia.
Qed.

(* whatever happens inside - nesting, exceptions at any invocation - the ContextVar is restored *)
Theorem call_restores fault fuel s st lim :
  fst (fst (call O pad srcs sentinel cb fault fuel s st lim)) = fst s.
Proof.
  destruct fuel as [|fuel]; [reflexivity|]. rewrite call_unfold.
  destruct (nlimit s lim) as [l|e]; [|reflexivity].
  destruct (cut l (cur_of s)); [reflexivity|].
  destruct (branches O pad (srcs st)) as [bs|e]; [|reflexivity].
  pose proof (go_restores (call O pad srcs sentinel cb fault fuel) fault st l (cur_of s)
                (srcs_total (srcs st)) bs s []) as H.
  destruct (go _ _ _ _ _ _ bs s []) as [s' [ws|e]]; [|exact H].
  destruct (aggw O ws); exact H.
Qed.

(* the same for the callback terms evaluated inside [call] (by [call_unfold] these are evaluated by
   [ev (call ... fuel)]): the handler of a try starts in the context of the enclosing evaluation *)
Corollary call_try_handler_context fault fuel c r1 r2 s s1 e :
  ev (call O pad srcs sentinel cb fault fuel) r1 s = (s1, Err e) ->
  fst s1 = fst s /\
  (c e = true -> ev (call O pad srcs sentinel cb fault fuel) (RTry c r1 r2) s
                 = ev (call O pad srcs sentinel cb fault fuel) r2 s1).
Proof. apply ev_try_handler_context. intros s0 st0 lim0. apply call_restores. Qed.

(* the invocation counter only grows *)
Theorem call_counter_mono fault fuel s st lim :
  (snd s <= snd (fst (call O pad srcs sentinel cb fault fuel s st lim)))%nat.
Proof.
  revert s st lim. induction fuel as [|fuel IH]; intros s st lim; [cbn [call fst]; lia|]. rewrite call_unfold.
  destruct (nlimit s lim) as [l|e]; [|cbn [fst]; lia].
  destruct (cut l (cur_of s)); [cbn [fst]; lia|].
  destruct (branches O pad (srcs st)) as [bs|e]; [|cbn [fst]; lia].
  pose proof (go_mono (call O pad srcs sentinel cb fault fuel) fault st l (cur_of s)
                (srcs_total (srcs st)) IH bs s []) as H.
  destruct (go _ _ _ _ _ _ bs s []) as [s' [ws|e]]; [|exact H].
  destruct (aggw O ws); exact H.
Qed.

(* ---- a consumed fault has no influence ---- *)
Definition past (fault : option nat) (n : nat) : Prop := forall i, fault = Some i -> (i < n)%nat.

Lemma past_le fault n m : past fault n -> (n <= m)%nat -> past fault m.
Proof. intros H L i Hi. specialize (H i Hi). lia. Qed.

Lemma past_fires fault n : past fault n -> fires fault n = false.
Proof. unfold fires. destruct fault as [i|]; [|reflexivity]. intros H. specialize (H i eq_refl).
  apply Nat.eqb_neq. lia. Qed.

Definition related (fault : option nat) (f f' : callT) : Prop :=
  forall s s' st lim, fst s = fst s' -> past fault (snd s) -> snd (f s st lim) = snd (f' s' st lim).

Lemma ev_related fault f f' : related fault f f' -> restoring f -> restoring f' -> monotone f ->
  forall r s s', fst s = fst s' -> past fault (snd s) -> snd (ev f r s) = snd (ev f' r s').
Proof.
  intros Hrel Hr Hr' Hm.
  induction r as [o|h|st' lim'|g r IH|g r1 IH1 r2 IH2|e|c r1 IH1 r2 IH2]; intros s s' Hs Hp; cbn [ev]; try reflexivity.
  - specialize (Hrel s s' st' lim' Hs Hp).
    destruct (f s st' lim') as [s1 [h|e]], (f' s' st' lim') as [s1' [h'|e']]; cbn [snd] in *; congruence.
  - specialize (IH s s' Hs Hp).
    destruct (ev f r s) as [s1 [x|e]], (ev f' r s') as [s1' [x'|e']]; cbn [snd] in *; congruence.
  - pose proof (IH1 s s' Hs Hp) as E1.
    pose proof (ev_restores f Hr r1 s) as R1. pose proof (ev_restores f' Hr' r1 s') as R1'.
    pose proof (ev_mono f Hm r1 s) as M1.
    destruct (ev f r1 s) as [s1 [x1|e1]], (ev f' r1 s') as [s1' [x1'|e1']]; cbn [snd fst] in *; try congruence.
    assert (Hs1 : fst s1 = fst s1') by congruence.
    specialize (IH2 s1 s1' Hs1 (past_le _ _ _ Hp M1)).
    destruct (ev f r2 s1) as [s2 [x2|e2]], (ev f' r2 s1') as [s2' [x2'|e2']]; cbn [snd] in *; congruence.
  - (* both runs raise the same exception in the protected term, hence take the same branch *)
    pose proof (IH1 s s' Hs Hp) as E1.
    pose proof (ev_restores f Hr r1 s) as R1. pose proof (ev_restores f' Hr' r1 s') as R1'.
    pose proof (ev_mono f Hm r1 s) as M1.
    destruct (ev f r1 s) as [s1 [x1|e1]], (ev f' r1 s') as [s1' [x1'|e1']]; cbn [snd fst] in *; try congruence.
    injection E1 as <-. destruct (c e1); [|reflexivity].
    apply IH2; [congruence|exact (past_le _ _ _ Hp M1)].
Qed.

Lemma go_related fault f f' st l cur tot : related fault f f' -> restoring f -> restoring f' -> monotone f ->
  forall bs s s' acc, fst s = fst s' -> past fault (snd s) ->
  snd (go f fault st l cur tot bs s acc) = snd (go f' None st l cur tot bs s' acc).
Proof.
  intros Hrel Hr Hr' Hm.
  induction bs as [|[rs cnt] bs IH]; intros s s' acc Hs Hp; cbn [go]; [reflexivity|].
  pose proof (branch_eval_mono f fault st l cur tot Hm s rs cnt) as Hb.
  unfold branch_eval in *. rewrite (past_fires _ _ Hp) in *. cbn [fires].
  assert (E : snd (ev f (cb st rs) (Some (newctx l cur tot cnt), Datatypes.S (snd s)))
            = snd (ev f' (cb st rs) (Some (newctx l cur tot cnt), Datatypes.S (snd s')))).
  { apply (ev_related fault); try assumption; [reflexivity|]. cbn [snd]. apply (past_le _ _ _ Hp). lia. }
  destruct (ev f (cb st rs) _) as [s1 [x|e]], (ev f' (cb st rs) _) as [s1' [x'|e']]; cbn [snd fst] in *; try congruence.
  - injection E as <-. apply IH; [cbn [fst]; exact Hs|cbn [snd]; apply (past_le _ _ _ Hp); lia].
  - injection E as <-. destruct e; try reflexivity.
    apply IH; [cbn [fst]; exact Hs|cbn [snd]; apply (past_le _ _ _ Hp); lia].
Qed.

Lemma cur_of_eq (s s' : evstate) : fst s = fst s' -> cur_of s = cur_of s'.
Proof. unfold cur_of. intros ->. reflexivity. Qed.
Lemma nlimit_eq (s s' : evstate) lim : fst s = fst s' -> nlimit s lim = nlimit s' lim.
Proof. unfold nlimit. intros H. rewrite (cur_of_eq _ _ H). reflexivity. Qed.

Lemma call_related fault fuel :
  related fault (call O pad srcs sentinel cb fault fuel) (call O pad srcs sentinel cb None fuel).
Proof.
  induction fuel as [|fuel IH]; intros s s' st lim Hs Hp; [reflexivity|]. rewrite !call_unfold.
  rewrite (nlimit_eq _ _ lim Hs), (cur_of_eq _ _ Hs).
  destruct (nlimit s' lim) as [l|e]; [|reflexivity].
  destruct (cut l (cur_of s')); [reflexivity|].
  destruct (branches O pad (srcs st)) as [bs|e]; [|reflexivity].
  pose proof (go_related fault _ _ st l (cur_of s') (srcs_total (srcs st)) IH
                (call_restores fault fuel) (call_restores None fuel) (call_counter_mono fault fuel)
                bs s s' [] Hs Hp) as H.
  destruct (go _ fault _ _ _ _ bs s []) as [s1 [ws|e]], (go _ None _ _ _ _ bs s' []) as [s1' [ws'|e']];
    cbn [snd] in H; try congruence.
  - injection H as <-. destruct (aggw O ws); reflexivity.
  - injection H as <-. reflexivity.
Qed.

(* once the injected fault lies in the past (or there is none) the evaluation does not depend on the
   counter and equals the fault-free evaluation *)
Theorem call_fault_past fault fuel s st lim :
  (forall i, fault = Some i -> (i < snd s)%nat) ->
  snd (call O pad srcs sentinel cb fault fuel s st lim)
  = snd (call O pad srcs sentinel cb None fuel (fst s, 0%nat) st lim).
Proof. intros H. apply call_related; [reflexivity|exact H]. Qed.

(* the fault-free evaluation does not depend on the counter at all *)
Corollary call_counter_irrelevant fuel c n n' st lim :
  snd (call O pad srcs sentinel cb None fuel (c, n) st lim)
  = snd (call O pad srcs sentinel cb None fuel (c, n') st lim).
Proof. apply call_related; [reflexivity|]. intros i Hi. discriminate. Qed.

(* hence: after ANY first top-level evaluation, a later top-level evaluation behaves as in a fresh
   interpreter, provided the fault (if any) was consumed by the first one *)
Corollary later_call_fresh fault fuel st1 lim1 st2 lim2 :
  let s1 := fst (call O pad srcs sentinel cb fault fuel (None, 0%nat) st1 lim1) in
  (forall i, fault = Some i -> (i < snd s1)%nat) ->
  snd (call O pad srcs sentinel cb fault fuel s1 st2 lim2)
  = snd (call O pad srcs sentinel cb None fuel (None, 0%nat) st2 lim2).
Proof.
  intros s1 H. rewrite (call_fault_past fault fuel s1 st2 lim2 H).
  unfold s1. rewrite call_restores. reflexivity.
Qed.

(* ---- exception propagation ---- *)

(* (1) the injected fault: if the counter passes the fault index, the fault fired, and it surfaces
       through every enclosing callback term, loop and nested call as that very exception *)
Definition fires_spec (i : nat) (f : callT) : Prop :=
  forall s st lim, (snd s <= i)%nat -> (i < snd (fst (f s st lim)))%nat -> snd (f s st lim) = Err (UserError 7).

(* callbacks that never catch: the term contains no RTry.  With an RTry the injected exception can
   be caught by an enclosing handler, so "the fault fired" no longer implies "the call raised it"
   (see try_catches_fault_example in Props/C14.v) *)
Fixpoint try_free (r : ret (T:=T) (St:=St)) : bool :=
  match r with
  | ROut _ | RHist _ | RCall _ _ | RRaise _ => true
  | RUn _ r' => try_free r'
  | RBin _ r1 r2 => try_free r1 && try_free r2
  | RTry _ _ _ => false
  end.

Lemma ev_fires i f : fires_spec i f -> forall r, try_free r = true -> forall s,
  (snd s <= i)%nat -> (i < snd (fst (ev f r s)))%nat -> snd (ev f r s) = Err (UserError 7).
Proof.
  intros Hf. induction r as [o|h|st' lim'|g r IH|g r1 IH1 r2 IH2|e|c r1 IH1 r2 IH2]; intros Hfree;
    cbn [try_free] in Hfree; try discriminate Hfree;
    try (apply andb_true_iff in Hfree; destruct Hfree as [Hfree1 Hfree2];
         specialize (IH1 Hfree1); specialize (IH2 Hfree2));
    try specialize (IH Hfree);
    intros s Hs; cbn [ev]; try (cbn [fst]; lia).
  - specialize (Hf s st' lim' Hs). destruct (f s st' lim') as [s' [h|e]]; cbn [fst snd] in *; intros H;
      specialize (Hf H); congruence.
  - specialize (IH s Hs). destruct (ev f r s) as [s' [x|e]]; cbn [fst snd] in *; intros H; specialize (IH H); congruence.
  - specialize (IH1 s Hs). destruct (ev f r1 s) as [s1 [x1|e1]]; cbn [fst snd] in *; [|intros H; exact (IH1 H)].
    destruct (le_lt_dec (snd s1) i) as [L|L]; [|specialize (IH1 L); discriminate].
    specialize (IH2 s1 L). destruct (ev f r2 s1) as [s2 [x2|e2]]; cbn [fst snd] in *; intros H; specialize (IH2 H); congruence.
Qed.

Lemma go_fires i f st l cur tot : (forall st rs, try_free (cb st rs) = true) ->
  fires_spec i f -> forall bs s acc,
  (snd s <= i)%nat -> (i < snd (fst (go f (Some i) st l cur tot bs s acc)))%nat ->
  snd (go f (Some i) st l cur tot bs s acc) = Err (UserError 7).
Proof.
  intros Hfree Hf. induction bs as [|[rs cnt] bs IH]; intros s acc Hs; cbn [go]; [cbn [fst]; lia|].
  unfold branch_eval, fires. destruct (Nat.eqb_spec i (snd s)) as [E|N]; [reflexivity|].
  assert (Hs1 : (Datatypes.S (snd s) <= i)%nat) by lia.
  pose proof (ev_fires i f Hf (cb st rs) (Hfree st rs) (Some (newctx l cur tot cnt), Datatypes.S (snd s)) Hs1) as He.
  destruct (ev f (cb st rs) _) as [s1 [x|e]]; cbn [fst snd] in *.
  - destruct (le_lt_dec (snd s1) i) as [L|L]; [|specialize (He L); discriminate].
    apply IH. exact L.
  - destruct (le_lt_dec (snd s1) i) as [L|L].
    + destruct e; try (cbn [fst snd]; lia). apply IH. exact L.
    + specialize (He L). injection He as ->. intros _. reflexivity.
Qed.

Theorem call_fault_fires : (forall st rs, try_free (cb st rs) = true) -> forall i fuel s st lim,
  (snd s <= i)%nat ->
  (i < snd (fst (call O pad srcs sentinel cb (Some i) fuel s st lim)))%nat ->
  snd (call O pad srcs sentinel cb (Some i) fuel s st lim) = Err (UserError 7).
Proof.
  intros Hfree i fuel. induction fuel as [|fuel IH]; intros s st lim Hs; [cbn [call fst]; lia|]. rewrite call_unfold.
  destruct (nlimit s lim) as [l|e]; [|cbn [fst]; lia].
  destruct (cut l (cur_of s)); [cbn [fst]; lia|].
  destruct (branches O pad (srcs st)) as [bs|e]; [|cbn [fst]; lia].
  pose proof (go_fires i _ st l (cur_of s) (srcs_total (srcs st)) Hfree IH bs s [] Hs) as H.
  destruct (go _ _ _ _ _ _ bs s []) as [s' [ws|e]]; cbn [fst snd] in *.
  - destruct (aggw O ws); cbn [fst snd]; intros L; specialize (H L); discriminate.
  - intros L. specialize (H L). injection H as ->. reflexivity.
Qed.

(* (2) conversely, as long as the counter has not passed the fault index the fault is invisible:
       state and result coincide with the fault-free evaluation *)
Definition unreached_spec (i : nat) (f f' : callT) : Prop :=
  forall s st lim, (snd (fst (f s st lim)) <= i)%nat -> f s st lim = f' s st lim.

Lemma ev_unreached i f f' : unreached_spec i f f' -> monotone f -> forall r s,
  (snd (fst (ev f r s)) <= i)%nat -> ev f r s = ev f' r s.
Proof.
  intros Hf Hm. induction r as [o|h|st' lim'|g r IH|g r1 IH1 r2 IH2|e|c r1 IH1 r2 IH2]; intros s; cbn [ev]; try reflexivity.
  - specialize (Hf s st' lim'). destruct (f s st' lim') as [s' [h|e]]; cbn [fst] in *; intros H; rewrite <- (Hf H); reflexivity.
  - specialize (IH s). destruct (ev f r s) as [s' [x|e]]; cbn [fst] in *; intros H; rewrite <- (IH H); reflexivity.
  - specialize (IH1 s). destruct (ev f r1 s) as [s1 [x1|e1]]; cbn [fst] in *; [|intros H; rewrite <- (IH1 H); reflexivity].
    specialize (IH2 s1). pose proof (ev_mono f Hm r2 s1) as M.
    destruct (ev f r2 s1) as [s2 [x2|e2]]; cbn [fst] in *; intros H;
      rewrite <- IH1 by lia; rewrite <- (IH2 H); reflexivity.
  - specialize (IH1 s). destruct (ev f r1 s) as [s1 [x1|e1]]; cbn [fst] in *; [intros H; rewrite <- (IH1 H); reflexivity|].
    destruct (c e1) eqn:C.
    + specialize (IH2 s1). pose proof (ev_mono f Hm r2 s1) as M.
      intros H. rewrite <- IH1 by lia. cbv beta iota. rewrite C. exact (IH2 H).
    + intros H. rewrite <- (IH1 H). cbv beta iota. rewrite C. reflexivity.
Qed.

Lemma go_unreached i f f' st l cur tot : unreached_spec i f f' -> monotone f -> forall bs s acc,
  (snd (fst (go f (Some i) st l cur tot bs s acc)) <= i)%nat ->
  go f (Some i) st l cur tot bs s acc = go f' None st l cur tot bs s acc.
Proof.
  intros Hf Hm. induction bs as [|[rs cnt] bs IH]; intros s acc; cbn [go]; [reflexivity|].
  pose proof (branch_eval_mono f (Some i) st l cur tot Hm s rs cnt) as Hb.
  unfold branch_eval, fires in *. destruct (Nat.eqb_spec i (snd s)) as [E|N]; [cbn [fst snd]; lia|].
  pose proof (ev_unreached i f f' Hf Hm (cb st rs) (Some (newctx l cur tot cnt), Datatypes.S (snd s))) as He.
  destruct (ev f (cb st rs) _) as [s1 [x|e]]; cbn [fst snd] in *.
  - pose proof (go_mono f (Some i) st l cur tot Hm bs (fst s, snd s1) ((x, cnt) :: acc)) as M. cbn [snd] in M.
    intros H. rewrite <- He by lia. apply IH. exact H.
  - destruct e; try (cbn [fst snd]; intros H; rewrite <- (He H); reflexivity).
    pose proof (go_mono f (Some i) st l cur tot Hm bs (fst s, snd s1) ((VHist (sentinel st), cnt) :: acc)) as M.
    cbn [snd] in M. intros H. rewrite <- He by lia. apply IH. exact H.
Qed.

Theorem call_fault_unreached i fuel s st lim :
  (snd (fst (call O pad srcs sentinel cb (Some i) fuel s st lim)) <= i)%nat ->
  call O pad srcs sentinel cb (Some i) fuel s st lim = call O pad srcs sentinel cb None fuel s st lim.
Proof.
  revert s st lim. induction fuel as [|fuel IH]; intros s st lim; [reflexivity|]. rewrite !call_unfold.
  destruct (nlimit s lim) as [l|e]; [|reflexivity].
  destruct (cut l (cur_of s)); [reflexivity|].
  destruct (branches O pad (srcs st)) as [bs|e]; [|reflexivity].
  pose proof (go_unreached i _ _ st l (cur_of s) (srcs_total (srcs st)) IH (call_counter_mono (Some i) fuel) bs s []) as H.
  destruct (go _ (Some i) _ _ _ _ bs s []) as [s' [ws|e]]; cbn [fst] in *.
  - destruct (aggw O ws) eqn:EA; cbn [fst]; intros L; rewrite <- (H L); rewrite EA; reflexivity.
  - intros L. rewrite <- (H L). reflexivity.
Qed.

(* (1)+(2): with a pending fault there are exactly two possibilities *)
Corollary call_fault_dichotomy : (forall st rs, try_free (cb st rs) = true) -> forall i fuel s st lim,
  (snd s <= i)%nat ->
  let R := call O pad srcs sentinel cb (Some i) fuel s st lim in
  ((i < snd (fst R))%nat /\ snd R = Err (UserError 7)) \/
  ((snd (fst R) <= i)%nat /\ R = call O pad srcs sentinel cb None fuel s st lim).
Proof.
  intros Hfree i fuel s st lim Hs R. destruct (le_lt_dec (snd (fst R)) i) as [L|L].
  - right. split; [exact L|]. apply call_fault_unreached. exact L.
  - left. split; [exact L|]. apply call_fault_fires; assumption.
Qed.

(* (3) the loop: exactly RecursionError is swallowed (replaced by the sentinel); every other
       exception of a branch ends the loop and is the loop's exception *)
Section Trace.
Variable f : callT.
Variable fault : option nat.
Variable st : St.
Variable l : limit.
Variable cur : ctxt.
Variable tot : Z.
Local Notation be := (branch_eval f fault st l cur tot).
Local Notation goL := (go f fault st l cur tot).

(* what the loop records for a branch that did not end it *)
Definition swallowed (r : res (val (T:=T))) (v : val (T:=T)) : Prop :=
  r = Ok v \/ (r = Err RecursionError /\ v = VHist (sentinel st)).

(* go_trace bs s ws s': starting in state s all branches bs were evaluated, none ended the loop,
   the collected weighted values are ws and the final state is s' *)
Inductive go_trace : list (list (result (T:=T)) * Z) -> evstate -> list (val (T:=T) * Z) -> evstate -> Prop :=
| gt_nil s : go_trace [] s [] s
| gt_cons rs cnt bs s s1 r v ws s' :
    be s rs cnt = (s1, r) -> swallowed r v -> go_trace bs (fst s, snd s1) ws s' ->
    go_trace ((rs, cnt) :: bs) s ((v, cnt) :: ws) s'.

Lemma loop_error_propagates rs cnt bs s acc s1 e :
  be s rs cnt = (s1, Err e) -> e <> RecursionError ->
  goL ((rs, cnt) :: bs) s acc = ((fst s, snd s1), Err e).
Proof. intros H N. cbn [go]. rewrite H. destruct e; try reflexivity. congruence. Qed.

Lemma loop_recursion_error_swallowed rs cnt bs s acc s1 :
  be s rs cnt = (s1, Err RecursionError) ->
  goL ((rs, cnt) :: bs) s acc = goL bs (fst s, snd s1) ((VHist (sentinel st), cnt) :: acc).
Proof. intros H. cbn [go]. rewrite H. reflexivity. Qed.

Lemma loop_ok_continues rs cnt bs s acc s1 x :
  be s rs cnt = (s1, Ok x) ->
  goL ((rs, cnt) :: bs) s acc = goL bs (fst s, snd s1) ((x, cnt) :: acc).
Proof. intros H. cbn [go]. rewrite H. reflexivity. Qed.

Lemma go_ok_iff : forall bs s acc s' ws,
  goL bs s acc = (s', Ok ws) <-> exists ws', ws = rev acc ++ ws' /\ go_trace bs s ws' s'.
Proof.
  induction bs as [|[rs cnt] bs IH]; intros s acc s' ws.
  - cbn [go]. split.
    + intros H. injection H as <- <-. exists []. rewrite app_nil_r. split; [reflexivity|constructor].
    + intros [ws' [-> Ht]]. inversion Ht; subst. rewrite app_nil_r. reflexivity.
  - cbn [go]. destruct (be s rs cnt) as [s1 r] eqn:E. split.
    + intros H. destruct r as [x|e].
      * apply IH in H. destruct H as [ws' [-> Ht]]. exists ((x, cnt) :: ws'). cbn [rev]. rewrite <- app_assoc.
        split; [reflexivity|]. econstructor; [exact E|left; reflexivity|exact Ht].
      * destruct e; try discriminate. apply IH in H. destruct H as [ws' [-> Ht]].
        exists ((VHist (sentinel st), cnt) :: ws'). cbn [rev]. rewrite <- app_assoc.
        split; [reflexivity|]. econstructor; [exact E|right; split; reflexivity|exact Ht].
    + intros [ws' [-> Ht]]. inversion Ht as [|rs0 cnt0 bs0 s0 s2 r0 v ws0 s0' Hbe Hsw Ht']; subst.
      rewrite E in Hbe. injection Hbe as <- <-.
      destruct Hsw as [->|[-> ->]]; apply IH; exists ws0; cbn [rev]; rewrite <- app_assoc; split; try reflexivity; exact Ht'.
Qed.

Lemma go_err_iff : forall bs s acc s' e,
  goL bs s acc = (s', Err e) <->
  e <> RecursionError /\
  exists bs1 rs cnt bs2 ws s0 s1,
    bs = bs1 ++ (rs, cnt) :: bs2 /\ go_trace bs1 s ws s0 /\ be s0 rs cnt = (s1, Err e) /\ s' = (fst s0, snd s1).
Proof.
  induction bs as [|[rs cnt] bs IH]; intros s acc s' e.
  - cbn [go]. split; [discriminate|]. intros [_ [bs1 [rs [cnt [bs2 [ws [s0 [s1 [H _]]]]]]]]].
    destruct bs1; discriminate.
  - cbn [go]. destruct (be s rs cnt) as [s1 r] eqn:E. split.
    + intros H.
      assert (K : forall v, swallowed r v -> goL bs (fst s, snd s1) ((v, cnt) :: acc) = (s', Err e) ->
                e <> RecursionError /\
                exists bs1 rs0 cnt0 bs2 ws s0 s2,
                  (rs, cnt) :: bs = bs1 ++ (rs0, cnt0) :: bs2 /\ go_trace bs1 s ws s0 /\
                  be s0 rs0 cnt0 = (s2, Err e) /\ s' = (fst s0, snd s2)).
      { intros v Hsw Hg. apply IH in Hg. destruct Hg as [N [bs1 [rs0 [cnt0 [bs2 [ws [s0 [s2 [-> [Ht [Hb ->]]]]]]]]]]].
        split; [exact N|]. exists ((rs, cnt) :: bs1), rs0, cnt0, bs2, ((v, cnt) :: ws), s0, s2.
        split; [reflexivity|]. split; [econstructor; eassumption|]. split; [exact Hb|reflexivity]. }
      destruct r as [x|e0]; [apply (K x); [left; reflexivity|exact H]|].
      destruct e0; try (injection H as <- <-; split; [discriminate|];
        exists [], rs, cnt, bs, [], s, s1; split; [reflexivity|]; split; [constructor|]; split; [exact E|reflexivity]).
      apply (K (VHist (sentinel st))); [right; split; reflexivity|exact H].
    + intros [N [bs1 [rs0 [cnt0 [bs2 [ws [s0 [s2 [Hbs [Ht [Hb ->]]]]]]]]]]].
      destruct bs1 as [|b bs1]; cbn [app] in Hbs.
      * injection Hbs as <- <- <-. inversion Ht; subst. rewrite E in Hb. injection Hb as <- ->.
        destruct e; try reflexivity. congruence.
      * injection Hbs as <- ->. inversion Ht as [|rs1 cnt1 bs0 s3 s4 r0 v ws0 s0' Hbe Hsw Ht']; subst.
        rewrite E in Hbe. injection Hbe as <- <-.
        assert (G : goL (bs1 ++ (rs0, cnt0) :: bs2) (fst s, snd s1) ((v, cnt) :: acc) = ((fst s0, snd s2), Err e)).
        { apply IH. split; [exact N|]. exists bs1, rs0, cnt0, bs2, ws0, s0, s2. repeat split; assumption. }
        destruct Hsw as [->|[-> ->]]; exact G.
Qed.
End Trace.

(* only RecursionError is swallowed: a successful decorated call evaluated ALL its branches, and each
   of them returned a value or raised RecursionError (recorded as the sentinel) *)
Theorem only_recursion_error_is_swallowed fault fuel s st lim s' h :
  call O pad srcs sentinel cb fault (Datatypes.S fuel) s st lim = (s', Ok h) ->
  exists l, nlimit s lim = Ok l /\
  ((cut l (cur_of s) = true /\ s' = s /\ h = lowest_if_top O (cur_of s) (sentinel st)) \/
   (cut l (cur_of s) = false /\
    exists bs ws hh, branches O pad (srcs st) = Ok bs /\
      go_trace (call O pad srcs sentinel cb fault fuel) fault st l (cur_of s) (srcs_total (srcs st)) bs s ws s' /\
      aggw O ws = Ok hh /\ h = lowest_if_top O (cur_of s) hh)).
Proof.
  rewrite call_unfold. destruct (nlimit s lim) as [l|e]; [|discriminate]. intros H. exists l. split; [reflexivity|].
  destruct (cut l (cur_of s)); [left; injection H as <- <-; repeat split; reflexivity|right].
  split; [reflexivity|]. destruct (branches O pad (srcs st)) as [bs|e]; [|discriminate].
  destruct (go _ _ _ _ _ _ bs s []) as [s1 [ws|e]] eqn:G; [|discriminate].
  destruct (aggw O ws) as [hh|e] eqn:A; [|discriminate]. injection H as <- <-.
  apply go_ok_iff in G. destruct G as [ws' [-> Ht]]. cbn [rev app] in A.
  exists bs, ws', hh. repeat split; try assumption; reflexivity.
Qed.

(* any other exception raised by a branch is the exception of the decorated call *)
Theorem branch_error_is_call_error fault fuel s st lim l bs bs1 rs cnt bs2 ws s0 s1 e :
  nlimit s lim = Ok l -> cut l (cur_of s) = false -> branches O pad (srcs st) = Ok bs ->
  bs = bs1 ++ (rs, cnt) :: bs2 ->
  go_trace (call O pad srcs sentinel cb fault fuel) fault st l (cur_of s) (srcs_total (srcs st)) bs1 s ws s0 ->
  branch_eval (call O pad srcs sentinel cb fault fuel) fault st l (cur_of s) (srcs_total (srcs st)) s0 rs cnt = (s1, Err e) ->
  e <> RecursionError ->
  call O pad srcs sentinel cb fault (Datatypes.S fuel) s st lim = ((fst s0, snd s1), Err e).
Proof.
  intros Hl Hc Hb Hbs Ht Hbe N. rewrite call_unfold, Hl, Hc, Hb.
  assert (G : go (call O pad srcs sentinel cb fault fuel) fault st l (cur_of s) (srcs_total (srcs st)) bs s []
              = ((fst s0, snd s1), Err e)).
  { apply go_err_iff. split; [exact N|]. exists bs1, rs, cnt, bs2, ws, s0, s1. repeat split; assumption. }
  rewrite G. reflexivity.
Qed.

(* ------------------------------------------------------------------------------------ *)
(* PART B: aggregate_weighted is the exact weighted mixture                              *)
(* ------------------------------------------------------------------------------------ *)
Definition vtotal (v : val (T:=T)) : Z := match v with VOut _ => 1 | VHist h => total h end.
Definition vcnt (v : val (T:=T)) (z : T) : Z :=
  match v with VOut o => if eqb O o z then 1 else 0 | VHist h => cnt O h z end.
Definition kept (v : val (T:=T)) : bool := match v with VOut _ => true | VHist h => negb (total h =? 0) end.
(* product of the totals of the kept branches *)
Fixpoint ktot (ws : list (val (T:=T) * Z)) : Z :=
  match ws with [] => 1 | (v, _) :: t => (if kept v then vtotal v else 1) * ktot t end.
(* each kept branch contributes count * (product of the OTHER kept totals) * its own counts *)
Fixpoint mixsum (F : val (T:=T) -> Z) (ws : list (val (T:=T) * Z)) : Z :=
  match ws with
  | [] => 0
  | (v, c) :: t => (if kept v then c * ktot t * F v else 0) + (if kept v then vtotal v else 1) * mixsum F t
  end.
(* sum of the weights of the kept branches *)
Fixpoint wsumk (ws : list (val (T:=T) * Z)) : Z :=
  match ws with [] => 0 | (v, c) :: t => (if kept v then c else 0) + wsumk t end.

(* linear functionals on count lists *)
Definition lin (g : T -> Z) (l : list (T * Z)) : Z := lsum (fun oc => g (fst oc) * snd oc) l.
Definition vlin (g : T -> Z) (v : val (T:=T)) : Z := match v with VOut o => g o | VHist h => lin g h end.
Definition ind (z : T) (o : T) : Z := if eqb O o z then 1 else 0.

Lemma lin_app g a b : lin g (a ++ b) = lin g a + lin g b.
Proof. apply lsum_app. Qed.
Lemma lin_map_r g k (l0 : list (T * Z)) : lin g (map (fun oc => (fst oc, snd oc * k)) l0) = k * lin g l0.
Proof. unfold lin. rewrite lsum_map, <- lsum_scale. apply lsum_ext. intros x _. cbn [fst snd]. ring. Qed.
Lemma lin_map_l g k (l0 : list (T * Z)) : lin g (map (fun oc => (fst oc, k * snd oc)) l0) = k * lin g l0.
Proof. unfold lin. rewrite lsum_map, <- lsum_scale. apply lsum_ext. intros x _. cbn [fst snd]. ring. Qed.

Lemma cnt_lin (l0 : list (T * Z)) z : cnt O l0 z = lin (ind z) l0.
Proof. rewrite cnt_as_lsum. apply lsum_ext. intros x _. unfold ind. destruct (eqb O (fst x) z); ring. Qed.
Lemma total_lin (l0 : list (T * Z)) : total l0 = lin (fun _ => 1) l0.
Proof. apply lsum_ext. intros x _. ring. Qed.
Lemma vcnt_vlin v z : vcnt v z = vlin (ind z) v.
Proof. destruct v as [o|h]; [reflexivity|apply cnt_lin]. Qed.
Lemma vtotal_vlin v : vtotal v = vlin (fun _ => 1) v.
Proof. destruct v as [o|h]; [reflexivity|apply total_lin]. Qed.

Lemma mixsum_ext F G ws : (forall v, F v = G v) -> mixsum F ws = mixsum G ws.
Proof. intros H. induction ws as [|[v c] ws IH]; cbn [mixsum]; [reflexivity|]. rewrite IH, H. reflexivity. Qed.

Lemma fold_aggw_lin g : forall ws S0 l0,
  fst (fold_left aggw_step ws (S0, l0)) = S0 * ktot ws /\
  lin g (snd (fold_left aggw_step ws (S0, l0))) = ktot ws * lin g l0 + S0 * mixsum (vlin g) ws.
Proof.
  induction ws as [|[v c] ws IH]; intros S0 l0; cbn [fold_left].
  - cbn [fst snd ktot mixsum]. split; ring.
  - destruct v as [o|h]; cbn [aggw_step].
    + destruct (IH S0 (l0 ++ [(o, c * S0)])) as [E1 E2]. rewrite E1, E2. cbn [ktot mixsum kept vtotal vlin].
      rewrite lin_app. unfold lin at 2. cbn [lsum fst snd]. split; ring.
    + cbn [ktot mixsum kept vtotal vlin]. destruct (total h =? 0); cbn [negb].
      * destruct (IH S0 l0) as [E1 E2]. rewrite E1, E2. split; ring.
      * destruct (IH (S0 * total h) (map (fun oc => (fst oc, snd oc * total h)) l0
                                      ++ map (fun oc => (fst oc, c * S0 * snd oc)) h)) as [E1 E2].
        rewrite E1, E2. rewrite lin_app, lin_map_r, lin_map_l. split; ring.
Qed.

Lemma aggw_inv ws h : aggw O ws = Ok h ->
  h = mk O (snd (fold_left aggw_step ws (1, []))) /\ wf O h.
Proof. unfold aggw. apply mkH_ok. Qed.

Lemma aggw_lin g ws h : aggw O ws = Ok h -> lin g h = mixsum (vlin g) ws.
Proof.
  intros H. apply aggw_inv in H. destruct H as [-> _].
  destruct (fold_aggw_lin g ws 1 []) as [_ E].
  assert (M : forall l0, lin g (mk O l0) = lin g l0).
  { induction l0 as [|[o c] l0 IH]; [reflexivity|]. cbn [mk fold_right fst snd]. fold (mk O l0).
    unfold lin in *. cbn [lsum fst snd]. rewrite <- IH. clear IH. generalize (mk O l0) as m.
    induction m as [|[o' c'] m IHm]; cbn [hins lsum fst snd]; [ring|].
    destruct (eqb_spec O o o') as [->|N]; [cbn [lsum fst snd]; ring|].
    destruct (leb O o o'); cbn [lsum fst snd]; [ring|]. rewrite IHm. ring. }
  rewrite M, E. unfold lin at 1. cbn [lsum]. ring.
Qed.

Theorem aggw_cnt ws h z : aggw O ws = Ok h -> cnt O h z = mixsum (fun v => vcnt v z) ws.
Proof. intros H. rewrite cnt_lin, (aggw_lin _ _ _ H). apply mixsum_ext. intros v. symmetry. apply vcnt_vlin. Qed.

Theorem aggw_total ws h : aggw O ws = Ok h -> total h = mixsum vtotal ws.
Proof. intros H. rewrite total_lin, (aggw_lin _ _ _ H). apply mixsum_ext. intros v. symmetry. apply vtotal_vlin. Qed.

(* the running scalar is the product of the kept totals *)
Lemma aggw_scalar ws : fst (fold_left aggw_step ws (1, @nil (T * Z))) = ktot ws.
Proof. destruct (fold_aggw_lin (fun _ => 1) ws 1 []) as [E _]. rewrite E. ring. Qed.

Lemma mkH_of_nonneg (l0 : list (T * Z)) : (forall oc, In oc l0 -> 0 <= snd oc) -> mkH O l0 = Ok (mk O l0).
Proof. intros H. unfold mkH. destruct (existsb _ l0) eqn:E; [|reflexivity].
  apply existsb_exists in E. destruct E as [oc [Hin Hlt]]. apply Z.ltb_lt in Hlt. specialize (H oc Hin). lia. Qed.

Lemma fold_aggw_nonneg : forall ws S0 (l0 : list (T * Z)),
  0 <= S0 -> (forall oc, In oc l0 -> 0 <= snd oc) ->
  (forall v c, In (v, c) ws -> 0 <= c /\ match v with VHist h => nonneg h | VOut _ => True end) ->
  forall oc, In oc (snd (fold_left aggw_step ws (S0, l0))) -> 0 <= snd oc.
Proof.
  induction ws as [|[v c] ws IH]; intros S0 l0 HS Hl Hws; cbn [fold_left]; [exact Hl|].
  destruct (Hws v c (or_introl eq_refl)) as [Hc Hv].
  assert (Hws' : forall v c, In (v, c) ws -> 0 <= c /\ match v with VHist h => nonneg h | VOut _ => True end)
    by (intros; apply Hws; right; assumption).
  destruct v as [o|h]; cbn [aggw_step].
  - apply IH; [exact HS| |exact Hws']. intros oc Hin. apply in_app_or in Hin. destruct Hin as [Hin|[<-|[]]]; [auto|].
    cbn [snd]. apply Z.mul_nonneg_nonneg; assumption.
  - destruct (total h =? 0); [apply IH; assumption|].
    pose proof (total_nonneg h Hv) as Ht.
    apply IH; [apply Z.mul_nonneg_nonneg; assumption| |exact Hws'].
    intros oc Hin. apply in_app_or in Hin. destruct Hin as [Hin|Hin]; apply in_map_iff in Hin;
      destruct Hin as [oc' [<- Hin]]; cbn [snd].
    + apply Z.mul_nonneg_nonneg; [auto|exact Ht].
    + apply Z.mul_nonneg_nonneg; [apply Z.mul_nonneg_nonneg; assumption|apply Hv; exact Hin].
Qed.

Theorem aggw_ok ws :
  (forall v c, In (v, c) ws -> 0 <= c /\ match v with VHist h => nonneg h | VOut _ => True end) ->
  exists h, aggw O ws = Ok h /\ wf O h.
Proof.
  intros H. assert (E : aggw O ws = Ok (mk O (snd (fold_left aggw_step ws (1, []))))).
  { unfold aggw. apply mkH_of_nonneg. apply fold_aggw_nonneg; [lia|intros ? []|exact H]. }
  eexists. split; [exact E|]. apply aggw_inv in E. apply E.
Qed.

(* dropped branches really are dropped *)
Theorem aggw_skip_empty ws1 ws2 h0 c :
  total h0 = 0 -> aggw O (ws1 ++ (VHist h0, c) :: ws2) = aggw O (ws1 ++ ws2).
Proof.
  intros H. unfold aggw. rewrite !fold_left_app. cbn [fold_left].
  destruct (fold_left aggw_step ws1 (1, [])) as [S0 l0]. cbn [aggw_step]. rewrite H. reflexivity.
Qed.

(* an outcome branch of weight c is the histogram {o: 1} of weight c *)
Theorem aggw_out_as_hist ws1 ws2 o c :
  aggw O (ws1 ++ (VOut o, c) :: ws2) = aggw O (ws1 ++ (VHist [(o, 1)], c) :: ws2).
Proof.
  unfold aggw. rewrite !fold_left_app. cbn [fold_left].
  destruct (fold_left aggw_step ws1 (1, [])) as [S0 l0]. cbn [aggw_step].
  change (total [(o, 1)]) with 1. cbn [Z.eqb map fst snd].
  replace (S0 * 1) with S0 by ring. replace (c * S0 * 1) with (c * S0) by ring.
  replace (map (fun oc : T * Z => (fst oc, snd oc * 1)) l0) with l0; [reflexivity|].
  induction l0 as [|[o' c'] l0 IH]; [reflexivity|]. cbn [map fst snd]. rewrite <- IH.
  replace (c' * 1) with c' by ring. reflexivity.
Qed.

(* the integer forms of the mixture law *)
Lemma kept_vtotal_nz v : kept v = true -> vtotal v <> 0.
Proof. destruct v as [o|h]; cbn [kept vtotal]; [lia|]. intros H E. rewrite E in H. discriminate. Qed.
Lemma ktot_nz ws : ktot ws <> 0.
Proof. induction ws as [|[v c] ws IH]; cbn [ktot]; [lia|].
  destruct (kept v) eqn:K; [pose proof (kept_vtotal_nz v K)|]; nia. Qed.

Theorem mixsum_vtotal ws : mixsum vtotal ws = ktot ws * wsumk ws.
Proof. induction ws as [|[v c] ws IH]; cbn [mixsum ktot wsumk]; [ring|]. rewrite IH. destruct (kept v); ring. Qed.

Theorem aggw_total_wsumk ws h : aggw O ws = Ok h -> total h = ktot ws * wsumk ws.
Proof. intros H. rewrite (aggw_total _ _ H). apply mixsum_vtotal. Qed.

(* cross-multiplied: cnt h z / total h = (sum_i c_i * vcnt_i z * prod_{j<>i} T_j) / (K * W) *)
Theorem aggw_mixture_cross ws h z : aggw O ws = Ok h ->
  cnt O h z * (wsumk ws * ktot ws) = total h * mixsum (fun v => vcnt v z) ws.
Proof. intros H. rewrite (aggw_cnt _ _ z H), (aggw_total_wsumk _ _ H). ring. Qed.

(* the normalised (rational) form: the result is the weighted mixture of the branch distributions *)
Fixpoint qmix (G : val (T:=T) -> Q) (ws : list (val (T:=T) * Z)) : Q :=
  match ws with
  | [] => 0%Q
  | (v, c) :: t => ((if kept v then inject_Z c * G v else 0) + qmix G t)%Q
  end.

Lemma inject_Z_nz a : a <> 0 -> ~ (inject_Z a == 0)%Q.
Proof. unfold Qeq, inject_Z. cbn [Qnum Qden]. lia. Qed.

Lemma mixsum_qmix F ws :
  (inject_Z (mixsum F ws) == inject_Z (ktot ws) * qmix (fun v => inject_Z (F v) / inject_Z (vtotal v)) ws)%Q.
Proof.
  induction ws as [|[v c] ws IH]; cbn [mixsum ktot qmix]; [reflexivity|].
  destruct (kept v) eqn:K; cbn beta iota; rewrite inject_Z_plus, !inject_Z_mult, IH.
  - field. exact (inject_Z_nz _ (kept_vtotal_nz v K)).
  - change (inject_Z 0) with 0%Q. change (inject_Z 1) with 1%Q. ring.
Qed.

Lemma wsumk_qmix ws : (inject_Z (wsumk ws) == qmix (fun _ => 1) ws)%Q.
Proof.
  induction ws as [|[v c] ws IH]; cbn [wsumk qmix]; [reflexivity|].
  rewrite inject_Z_plus, IH. destruct (kept v); [ring|reflexivity].
Qed.

Theorem aggw_mixture_Q ws h z : aggw O ws = Ok h -> total h <> 0 ->
  (inject_Z (cnt O h z) / inject_Z (total h) ==
   qmix (fun v => inject_Z (vcnt v z) / inject_Z (vtotal v)) ws / qmix (fun _ => 1) ws)%Q.
Proof.
  intros H Ht. rewrite (aggw_total_wsumk _ _ H) in Ht.
  rewrite (aggw_cnt _ _ z H), (aggw_total_wsumk _ _ H).
  rewrite (mixsum_qmix (fun v => vcnt v z) ws), inject_Z_mult, wsumk_qmix.
  assert (HK : ~ (inject_Z (ktot ws) == 0)%Q) by (apply inject_Z_nz, ktot_nz).
  assert (HB : ~ (qmix (fun _ => 1) ws == 0)%Q).
  { rewrite <- wsumk_qmix. apply inject_Z_nz. intros E. apply Ht. rewrite E. ring. }
  set (A := qmix (fun v => (inject_Z (vcnt v z) / inject_Z (vtotal v))%Q) ws) in *.
  set (B := qmix (fun _ => 1%Q) ws) in *. set (K := inject_Z (ktot ws)) in *.
  field. split; assumption.
Qed.

End EP.

(* ------------------------------------------------------------------------------------ *)
(* PART C: foreach on non-recursive callbacks                                            *)
(* ------------------------------------------------------------------------------------ *)
Section FE.
Context {T : Type} (O : ord T).
Variable pad : T.

Definition ret_of_val (v : val (T:=T)) : ret (T:=T) (St:=unit) :=
  match v with VOut o => ROut o | VHist h => RHist h end.

Lemma ev_ret_of_val f (v : val (T:=T)) s : ev (St:=unit) f (ret_of_val v) s = (s, Ok v).
Proof. destruct v; reflexivity. Qed.

Lemma go_nonrec (sent : hist T) (cbv : list (result (T:=T)) -> val (T:=T)) f l cur tot : forall bs s acc,
  snd (go (fun _ => sent) (fun _ rs => ret_of_val (cbv rs)) f None tt l cur tot bs s acc)
  = Ok (rev acc ++ map (fun b => (cbv (fst b), snd b)) bs).
Proof.
  induction bs as [|[rs cnt] bs IH]; intros s acc; cbn [go].
  - cbn [map snd]. rewrite app_nil_r. reflexivity.
  - unfold branch_eval. cbn [fires]. rewrite ev_ret_of_val. rewrite IH.
    cbn [rev map fst snd]. rewrite <- app_assoc. reflexivity.
Qed.

Theorem foreach_unfold fuel srcl sent (cbv : list (result (T:=T)) -> val (T:=T)) :
  (1 <= fuel)%nat ->
  foreach O pad fuel srcl sent (fun rs => ret_of_val (cbv rs)) None =
  match branches O pad srcl with
  | Err e => Err e
  | Ok bs => match aggw O (map (fun b => (cbv (fst b), snd b)) bs) with
             | Ok h => Ok (lowest O h)
             | Err e => Err e
             end
  end.
Proof.
  destruct fuel as [|fuel]; [lia|]. intros _. unfold foreach, top. rewrite call_unfold.
  change (nlimit (None, 0%nat) None) with (Ok (LInt 1)).
  change (cur_of (None, 0%nat)) with ctxt0.
  change (cut (LInt 1) ctxt0) with false. cbn beta iota.
  destruct (branches O pad srcl) as [bs|e]; [|reflexivity].
  pose proof (go_nonrec sent cbv
    (call O pad (fun _ : unit => srcl) (fun _ => sent) (fun _ rs => ret_of_val (cbv rs)) None fuel)
    (LInt 1) ctxt0 (srcs_total srcl) bs (None, 0%nat) []) as G.
  destruct (go _ _ _ _ _ _ _ _ bs (None, 0%nat) []) as [s' [ws|e]]; cbn [snd] in G; [|discriminate].
  injection G as ->. cbn [rev app].
  destruct (aggw O (map (fun b => (cbv (fst b), snd b)) bs)); reflexivity.
Qed.
End FE.

Print Assumptions call_restores.
Print Assumptions call_try_catches.
Print Assumptions ev_try_handler_context.
Print Assumptions call_try_handler_context.
Print Assumptions call_counter_mono.
Print Assumptions call_fault_past.
Print Assumptions later_call_fresh.
Print Assumptions call_fault_fires.
Print Assumptions call_fault_unreached.
Print Assumptions call_fault_dichotomy.
Print Assumptions only_recursion_error_is_swallowed.
Print Assumptions branch_error_is_call_error.
Print Assumptions go_err_iff.
Print Assumptions aggw_cnt.
Print Assumptions aggw_total.
Print Assumptions aggw_ok.
Print Assumptions aggw_skip_empty.
Print Assumptions aggw_out_as_hist.
Print Assumptions aggw_mixture_cross.
Print Assumptions aggw_mixture_Q.
Print Assumptions foreach_unfold.
