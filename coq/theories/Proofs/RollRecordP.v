(* Completeness and consistency of the roll records built by R.roll() (Model/RollRecord.v).
   Main results (end of file): roll_m_complete (corrected statement: every allocated roll is complete,
   or is an adopted copy made by Roll.adopt inside SubstitutionRoller, for which part 1 of completeness
   holds and which copies a complete roll), roll_m_complete_no_subst (the statement as originally posed,
   for trees without RSubst), roll_m_complete_original_fails (the original statement is false for RSubst),
   roll_m_source_paths, roll_m_values, roll_m_heap_ok.  No axioms. *)
From Coq Require Import ZArith QArith List Bool Arith Lia Permutation.
From Dyce Require Import Base.Sums Base.Order Base.Hist Model.Select Model.Pool Model.Roller Model.RollRecord.
From Dyce Require Proofs.RollerP.   (* only for RollerP.teq (filterby_const_is_filter_m) *)
Import ListNotations.
Local Open Scope nat_scope.

Section P.
Context {T : Type} (O : ord T).
Variable zeroT : T.
Variable addT : T -> T -> T.
Local Notation heap := (@heap T).
Local Notation tree := (@Roller.tree T).
Local Notation M := (@RollRecord.M T).

(* ================= scripted runs ================= *)
Lemma run_bind {A B} (t : tree A) (f : A -> tree B) : forall s a b,
  run (bind t f) s = (a, Some (Ok b)) ->
  exists s1 s2 a1 a2 x, s = s1 ++ s2 /\ run t s1 = (a1, Some (Ok x)) /\ length a1 = length s1 /\
    run (f x) s2 = (a2, Some (Ok b)) /\ a = a1 ++ a2.
Proof.
  induction t as [x|e|pop w k IH]; intros s a b H; cbn [bind run] in *.
  - exists [], s, [], a, x. repeat split; auto.
  - discriminate.
  - destruct s as [|i rest]; [discriminate|].
    destruct (run (bind (k i) f) rest) as [asks r] eqn:E. inversion H; subst.
    destruct (IH i _ _ _ E) as (s1&s2&a1&a2&x&E1&E2&E3&E4&E5). subst.
    exists (i::s1), s2, ((pop,w)::a1), a2, x. cbn [run]. rewrite E2. cbn [length app]. repeat split; auto.
Qed.

Lemma run_bind_ok {A B} (t : tree A) (f : A -> tree B) : forall s1 s2 a1 a2 x r,
  run t s1 = (a1, Some (Ok x)) -> length a1 = length s1 -> run (f x) s2 = (a2, r) ->
  run (bind t f) (s1 ++ s2) = (a1 ++ a2, r).
Proof.
  induction t as [y|e|pop w k IH]; intros s1 s2 a1 a2 x r H L H2; cbn [bind run] in *.
  - inversion H; subst. destruct s1; [|discriminate]. exact H2.
  - discriminate.
  - destruct s1 as [|i rest]; [discriminate|].
    destruct (run (k i) rest) as [asks r0] eqn:E. inversion H; subst. cbn [length] in L.
    cbn [app]. rewrite (IH i rest s2 asks a2 x r E ltac:(lia) H2). reflexivity.
Qed.

Lemma run_bind_ret {A B} (t : tree A) (g : A -> B) : forall s a y,
  run (bind t (fun x => Ret (g x))) s = (a, Some (Ok y)) ->
  exists x, run t s = (a, Some (Ok x)) /\ y = g x.
Proof.
  induction t as [x|e|pop w k IH]; intros s a y H; cbn [bind run] in *.
  - inversion H; subst. exists x. auto.
  - discriminate.
  - destruct s as [|i rest]; [discriminate|].
    destruct (run (bind (k i) (fun x => Ret (g x))) rest) as [asks r] eqn:E. inversion H; subst.
    destruct (IH i _ _ _ E) as (x&E1&E2). exists x. rewrite E1. auto.
Qed.

Lemma run_bind_ret_ok {A B} (t : tree A) (g : A -> B) : forall s a x,
  run t s = (a, Some (Ok x)) -> run (bind t (fun x => Ret (g x))) s = (a, Some (Ok (g x))).
Proof.
  induction t as [y|e|pop w k IH]; intros s a x H; cbn [bind run] in *.
  - inversion H; subst. reflexivity.
  - discriminate.
  - destruct s as [|i rest]; [discriminate|].
    destruct (run (k i) rest) as [asks r] eqn:E. inversion H; subst. rewrite (IH i _ _ _ E). reflexivity.
Qed.

Lemma Ret_inj {A} (a b : A) : Ret (T:=T) a = Ret b -> a = b.
Proof. intros H; inversion H; reflexivity. Qed.
Lemma run_ret {A} (x : A) s a r : run (Ret (T:=T) x) s = (a, Some (Ok r)) -> a = [] /\ r = x.
Proof. cbn [run]. intros H. inversion H. auto. Qed.

Lemma run_mbind {A B} (m : M A) (f : A -> M B) hp s a hp' b :
  run (mbind m f hp) s = (a, Some (Ok (hp', b))) ->
  exists s1 s2 a1 a2 hp1 x, s = s1 ++ s2 /\ run (m hp) s1 = (a1, Some (Ok (hp1, x))) /\ length a1 = length s1 /\
    run (f x hp1) s2 = (a2, Some (Ok (hp', b))) /\ a = a1 ++ a2.
Proof.
  unfold mbind. intros H. apply run_bind in H. destruct H as (s1&s2&a1&a2&[hp1 x]&E1&E2&E3&E4&E5).
  exists s1, s2, a1, a2, hp1, x. cbn [fst snd] in E4. auto.
Qed.

Lemma run_mlift {A} (t : tree A) hp s a hp' x :
  run (mlift t hp) s = (a, Some (Ok (hp', x))) -> hp' = hp /\ run t s = (a, Some (Ok x)).
Proof.
  unfold mlift. intros H. apply run_bind_ret in H. destruct H as (y&E1&E2). inversion E2; subst. auto.
Qed.

(* ================= the properties ================= *)
Definition owned (hp : heap) (i : nat) : Prop := oown (get_o hp i) <> None.
Inductive reach (hp : heap) : nat -> nat -> Prop :=
| reach_refl i : reach hp i i
| reach_step i j k : In j (osrc (get_o hp i)) -> reach hp j k -> reach hp i k.

Definition heap_ok (hp : heap) : Prop :=
  (forall i, i < length (houts hp) ->
     Forall (fun j => j < i) (osrc (get_o hp i)) /\
     (forall rid, oown (get_o hp i) = Some rid -> rid < length (hrolls hp))) /\
  (forall rid, rid < length (hrolls hp) ->
     Forall (fun i => i < length (houts hp)) (rout (get_r hp rid)) /\
     Forall (fun s => s < rid) (rsrc (get_r hp rid))).

(* part 1: every outcome reachable through sources from the roll's outcomes is associated with a roll *)
Definition complete1 (hp : heap) (rid : nat) : Prop :=
  forall i j, In i (rout (get_r hp rid)) -> reach hp i j -> owned hp j.
(* every live outcome of roll s is one of outs or a transitive source of one of them *)
Definition covers (hp : heap) (outs : list nat) (s : nat) : Prop :=
  forall o, In o (roll_live hp s) -> exists i, In i outs /\ reach hp i o.
Definition complete (hp : heap) (rid : nat) : Prop :=
  (forall i j, In i (rout (get_r hp rid)) -> reach hp i j -> owned hp j) /\
  (forall s o, In s (rsrc (get_r hp rid)) -> In o (roll_live hp s) ->
     exists i, In i (rout (get_r hp rid)) /\ reach hp i o).

Definition extends (hp hp' : heap) : Prop :=
  length (houts hp) <= length (houts hp') /\ length (hrolls hp) <= length (hrolls hp') /\
  (forall i, i < length (houts hp) -> ov (get_o hp' i) = ov (get_o hp i) /\ osrc (get_o hp' i) = osrc (get_o hp i) /\
       (oown (get_o hp i) <> None -> oown (get_o hp' i) = oown (get_o hp i))) /\
  (forall r, r < length (hrolls hp) -> get_r hp' r = get_r hp r).

Lemma complete_c1 hp rid : complete hp rid -> complete1 hp rid.
Proof. intros [H _]. exact H. Qed.

Lemma extends_refl hp : extends hp hp.
Proof. repeat split; auto. Qed.
Lemma extends_trans a b c : extends a b -> extends b c -> extends a c.
Proof.
  intros (L1&L2&H1&H2) (L1'&L2'&H1'&H2'). split; [lia|]. split; [lia|]. split.
  - intros i Hi. destruct (H1 i Hi) as (A1&A2&A3). destruct (H1' i ltac:(lia)) as (B1&B2&B3).
    split; [congruence|]. split; [congruence|]. intros Hn. rewrite B3; [auto|]. rewrite A3; auto.
  - intros r Hr. rewrite H2' by lia. auto.
Qed.

(* ---- reachability ---- *)
Lemma reach_trans hp i j k : reach hp i j -> reach hp j k -> reach hp i k.
Proof. induction 1 as [|i j0 j Hin _ IH]; intros H; [exact H|]. eapply reach_step; [exact Hin|auto]. Qed.
Lemma reach_one hp i j : In j (osrc (get_o hp i)) -> reach hp i j.
Proof. intros H. eapply reach_step; [exact H|apply reach_refl]. Qed.
Lemma reach_le hp i j : heap_ok hp -> reach hp i j -> i < length (houts hp) -> j <= i.
Proof.
  intros [Ho _]. induction 1 as [|i j0 j Hin _ IH]; intros Hi; [lia|].
  destruct (Ho i Hi) as [Hs _]. rewrite Forall_forall in Hs. specialize (Hs _ Hin). specialize (IH ltac:(lia)). lia.
Qed.
Lemma reach_ext hp hp' i j : heap_ok hp -> extends hp hp' -> i < length (houts hp) -> reach hp i j -> reach hp' i j.
Proof.
  intros Hok Hex Hi H. revert Hi. induction H as [|i j0 j Hin _ IH]; intros Hi; [apply reach_refl|].
  destruct Hok as [Ho _]. destruct (Ho i Hi) as [Hs _]. rewrite Forall_forall in Hs. pose proof (Hs _ Hin) as Hj.
  destruct Hex as (_&_&H1&_). destruct (H1 i Hi) as (_&E&_).
  eapply reach_step; [rewrite E; exact Hin|]. apply IH. lia.
Qed.
Lemma reach_ext_inv hp hp' i j : heap_ok hp -> extends hp hp' -> i < length (houts hp) -> reach hp' i j -> reach hp i j.
Proof.
  intros Hok Hex Hi H. revert Hi. induction H as [|i j0 j Hin _ IH]; intros Hi; [apply reach_refl|].
  destruct Hok as [Ho _]. destruct (Ho i Hi) as [Hs _]. rewrite Forall_forall in Hs.
  destruct Hex as (_&_&H1&_). destruct (H1 i Hi) as (_&E&_). rewrite E in Hin. pose proof (Hs _ Hin) as Hj.
  eapply reach_step; [exact Hin|]. apply IH. lia.
Qed.
Lemma reach_inv hp i j : reach hp i j -> i = j \/ exists k, In k (osrc (get_o hp i)) /\ reach hp k j.
Proof. intros H. inversion H; subst; [auto|]. right. eauto. Qed.

Lemma owned_ext hp hp' j : extends hp hp' -> j < length (houts hp) -> owned hp j -> owned hp' j.
Proof. intros (_&_&H1&_) Hj H. unfold owned in *. destruct (H1 j Hj) as (_&_&E). rewrite E; auto. Qed.

Lemma live_ids_ext hp hp' ids : extends hp hp' -> Forall (fun i => i < length (houts hp)) ids ->
  live_ids hp' ids = live_ids hp ids.
Proof.
  intros (_&_&H1&_) Hr. unfold live_ids. apply filter_ext_in. intros i Hi. rewrite Forall_forall in Hr.
  destruct (H1 i (Hr _ Hi)) as (E&_). rewrite E. reflexivity.
Qed.
Lemma roll_live_ext hp hp' s : heap_ok hp -> extends hp hp' -> s < length (hrolls hp) ->
  roll_live hp' s = roll_live hp s.
Proof.
  intros [_ Hr] Hex Hs. unfold roll_live. destruct (Hr s Hs) as [Ho _].
  pose proof Hex as (_&_&_&H2). rewrite (H2 s Hs). apply live_ids_ext; assumption.
Qed.
Lemma live_ids_in (hp : heap) ids i : In i (live_ids hp ids) -> In i ids.
Proof. unfold live_ids. intros H. apply filter_In in H. tauto. Qed.
Lemma roll_live_in (hp : heap) s i : In i (roll_live hp s) -> In i (rout (get_r hp s)).
Proof. apply live_ids_in. Qed.
Lemma roll_live_lt hp s i : heap_ok hp -> s < length (hrolls hp) -> In i (roll_live hp s) -> i < length (houts hp).
Proof.
  intros [_ Hr] Hs Hi. destruct (Hr s Hs) as [Ho _]. rewrite Forall_forall in Ho. apply Ho. apply roll_live_in. exact Hi.
Qed.

Lemma complete1_ext hp hp' rid : heap_ok hp -> extends hp hp' -> rid < length (hrolls hp) ->
  complete1 hp rid -> complete1 hp' rid.
Proof.
  intros Hok Hex Hrid H i j Hi Hreach. pose proof Hex as (_&_&_&H2). rewrite (H2 rid Hrid) in Hi.
  destruct Hok as [Ho Hr]. destruct (Hr rid Hrid) as [Hro _]. rewrite Forall_forall in Hro. pose proof (Hro _ Hi) as Hilt.
  assert (Hr0 : reach hp i j) by (eapply reach_ext_inv; eauto; split; auto).
  pose proof (reach_le hp i j (conj Ho Hr) Hr0 Hilt) as Hle.
  eapply owned_ext; [exact Hex|lia|]. eapply H; eauto.
Qed.
Lemma covers_ext hp hp' outs s : heap_ok hp -> extends hp hp' -> s < length (hrolls hp) ->
  Forall (fun i => i < length (houts hp)) outs -> covers hp outs s -> covers hp' outs s.
Proof.
  intros Hok Hex Hs Hr H o Ho. rewrite (roll_live_ext hp hp' s Hok Hex Hs) in Ho.
  destruct (H o Ho) as (i&Hi&Hreach). exists i. split; [exact Hi|]. rewrite Forall_forall in Hr.
  eapply reach_ext; eauto.
Qed.
Lemma complete_ext hp hp' rid : heap_ok hp -> extends hp hp' -> rid < length (hrolls hp) ->
  complete hp rid -> complete hp' rid.
Proof.
  intros Hok Hex Hrid [H1 H2]. split; [apply (complete1_ext hp hp' rid Hok Hex Hrid H1)|].
  pose proof Hex as (_&_&_&E). rewrite (E rid Hrid). intros s o Hs Ho.
  destruct Hok as [Hoo Hr]. destruct (Hr rid Hrid) as [Hro Hrs]. rewrite Forall_forall in Hrs.
  apply (covers_ext hp hp' (rout (get_r hp rid)) s (conj Hoo Hr) Hex); auto.
  - pose proof (Hrs _ Hs). lia.
  - intros o' Ho'. apply (H2 s o' Hs Ho').
Qed.

(* ================= heap primitives ================= *)
Definition push_o (hp : heap) (c : ocell) : heap := {| houts := houts hp ++ [c]; hrolls := hrolls hp |}.
Definition push_r (hp : heap) (c : rcell) : heap := {| houts := houts hp; hrolls := hrolls hp ++ [c] |}.

Lemma new_o_eq (hp : heap) v s o : new_o hp v s o = (push_o hp {| ov := v; osrc := s; oown := o |}, length (houts hp)).
Proof. reflexivity. Qed.

Lemma get_o_push_old (hp : heap) c i : i < length (houts hp) -> get_o (push_o hp c) i = get_o hp i.
Proof. intros H. unfold get_o, push_o. cbn [houts]. apply app_nth1. exact H. Qed.
Lemma get_o_push_new (hp : heap) c : get_o (push_o hp c) (length (houts hp)) = c.
Proof. unfold get_o, push_o. cbn [houts]. rewrite app_nth2 by lia. rewrite Nat.sub_diag. reflexivity. Qed.
Lemma get_r_push_o (hp : heap) c r : get_r (push_o hp c) r = get_r hp r.
Proof. reflexivity. Qed.
Lemma len_o_push_o (hp : heap) c : length (houts (push_o hp c)) = S (length (houts hp)).
Proof. unfold push_o. cbn [houts]. rewrite app_length. cbn [length]. lia. Qed.
Lemma len_r_push_o (hp : heap) c : length (hrolls (push_o hp c)) = length (hrolls hp).
Proof. reflexivity. Qed.

Lemma push_o_ext (hp : heap) c : extends hp (push_o hp c).
Proof.
  split; [rewrite len_o_push_o; lia|]. split; [rewrite len_r_push_o; lia|]. split.
  - intros i Hi. rewrite get_o_push_old by exact Hi. auto.
  - intros r _. apply get_r_push_o.
Qed.
Lemma push_o_ok (hp : heap) c : heap_ok hp -> Forall (fun j => j < length (houts hp)) (osrc c) ->
  (forall r, oown c = Some r -> r < length (hrolls hp)) -> heap_ok (push_o hp c).
Proof.
  intros [Ho Hr] Hs Hw. split.
  - intros i Hi. rewrite len_o_push_o in Hi. rewrite len_r_push_o.
    destruct (Nat.eq_dec i (length (houts hp))) as [->|Hne].
    + rewrite get_o_push_new. split; [exact Hs|exact Hw].
    + rewrite get_o_push_old by lia. apply Ho. lia.
  - intros rid Hrid. rewrite len_r_push_o in Hrid. rewrite get_r_push_o, len_o_push_o.
    destruct (Hr rid Hrid) as [A B]. split; [|exact B]. eapply Forall_impl; [|exact A]. cbv beta. intros; lia.
Qed.

Lemma get_r_push_old (hp : heap) c r : r < length (hrolls hp) -> get_r (push_r hp c) r = get_r hp r.
Proof. intros H. unfold get_r, push_r. cbn [hrolls]. apply app_nth1. exact H. Qed.
Lemma get_r_push_new (hp : heap) c : get_r (push_r hp c) (length (hrolls hp)) = c.
Proof. unfold get_r, push_r. cbn [hrolls]. rewrite app_nth2 by lia. rewrite Nat.sub_diag. reflexivity. Qed.
Lemma get_o_push_r (hp : heap) c i : get_o (push_r hp c) i = get_o hp i.
Proof. reflexivity. Qed.
Lemma len_r_push_r (hp : heap) c : length (hrolls (push_r hp c)) = S (length (hrolls hp)).
Proof. unfold push_r. cbn [hrolls]. rewrite app_length. cbn [length]. lia. Qed.
Lemma len_o_push_r (hp : heap) c : length (houts (push_r hp c)) = length (houts hp).
Proof. reflexivity. Qed.
Lemma push_r_ext (hp : heap) c : extends hp (push_r hp c).
Proof.
  split; [rewrite len_o_push_r; lia|]. split; [rewrite len_r_push_r; lia|]. split.
  - intros i Hi. rewrite get_o_push_r. auto.
  - intros r Hr. apply get_r_push_old. exact Hr.
Qed.
Lemma push_r_ok (hp : heap) c : heap_ok hp -> Forall (fun i => i < length (houts hp)) (rout c) ->
  Forall (fun s => s < length (hrolls hp)) (rsrc c) -> heap_ok (push_r hp c).
Proof.
  intros [Ho Hr] Hs Hw. split.
  - intros i Hi. rewrite len_o_push_r in Hi. rewrite len_r_push_r, get_o_push_r.
    destruct (Ho i Hi) as [A B]. split; [exact A|]. intros rid E. specialize (B rid E). lia.
  - intros rid Hrid. rewrite len_r_push_r in Hrid. rewrite len_o_push_r.
    destruct (Nat.eq_dec rid (length (hrolls hp))) as [->|Hne].
    + rewrite get_r_push_new. split; assumption.
    + rewrite get_r_push_old by lia. apply Hr. lia.
Qed.

(* set_owner *)
Lemma existsb_eqb_In i ids : existsb (Nat.eqb i) ids = true <-> In i ids.
Proof.
  rewrite existsb_exists. split.
  - intros (x&Hx&E). apply Nat.eqb_eq in E. subst. exact Hx.
  - intros H. exists i. split; [exact H|apply Nat.eqb_refl].
Qed.
Lemma set_owner_length (l : list (@ocell T)) ids rid : forall pos, length (set_owner l ids rid pos) = length l.
Proof. induction l as [|c t IH]; intros pos; cbn [set_owner length]; [reflexivity|]. rewrite IH. reflexivity. Qed.
Lemma set_owner_nth (l : list (@ocell T)) ids rid d : forall pos i, i < length l ->
  nth i (set_owner l ids rid pos) d =
  (if existsb (Nat.eqb (pos + i)) ids && (match oown (nth i l d) with None => true | Some _ => false end)
   then {| ov := ov (nth i l d); osrc := osrc (nth i l d); oown := Some rid |} else nth i l d).
Proof.
  induction l as [|c t IH]; intros pos i Hi; cbn [length] in Hi; [lia|].
  cbn [set_owner]. destruct i as [|i]; cbn [nth].
  - rewrite Nat.add_0_r. reflexivity.
  - rewrite IH by lia. rewrite Nat.add_succ_r. reflexivity.
Qed.
Lemma set_owner_twice (l : list (@ocell T)) a b rid : forall pos,
  set_owner (set_owner l a rid pos) b rid pos = set_owner l (a ++ b) rid pos.
Proof.
  induction l as [|c t IH]; intros pos; cbn [set_owner]; [reflexivity|]. rewrite IH. f_equal.
  rewrite existsb_app. destruct (existsb (Nat.eqb pos) a), (existsb (Nat.eqb pos) b), (oown c) eqn:E;
    cbn [andb orb ov osrc oown]; try rewrite E; try reflexivity; destruct c; cbn in *; subst; reflexivity.
Qed.

Lemma len_o_ao (hp : heap) ids rid : length (houts (adopt_orphans hp ids rid)) = length (houts hp).
Proof. unfold adopt_orphans. cbn [houts]. apply set_owner_length. Qed.
Lemma len_r_ao (hp : heap) ids rid : length (hrolls (adopt_orphans hp ids rid)) = length (hrolls hp).
Proof. reflexivity. Qed.
Lemma get_r_ao (hp : heap) ids rid r : get_r (adopt_orphans hp ids rid) r = get_r hp r.
Proof. reflexivity. Qed.
Lemma get_o_ao (hp : heap) ids rid i :
  ov (get_o (adopt_orphans hp ids rid) i) = ov (get_o hp i) /\
  osrc (get_o (adopt_orphans hp ids rid) i) = osrc (get_o hp i) /\
  oown (get_o (adopt_orphans hp ids rid) i) =
    match oown (get_o hp i) with
    | Some r => Some r
    | None => if (i <? length (houts hp)) && existsb (Nat.eqb i) ids then Some rid else None
    end.
Proof.
  unfold get_o, adopt_orphans. cbn [houts]. destruct (Nat.ltb_spec i (length (houts hp))) as [Hi|Hi].
  - rewrite set_owner_nth by exact Hi. cbn [Nat.add andb].
    destruct (existsb (Nat.eqb i) ids); cbn [andb];
      destruct (oown (nth i (houts hp) _)) eqn:E; cbn [ov osrc oown]; auto.
  - rewrite !nth_overflow by (try rewrite set_owner_length; lia). cbn [ov osrc oown andb]. auto.
Qed.
Lemma ao_ext (hp : heap) ids rid : extends hp (adopt_orphans hp ids rid).
Proof.
  split; [rewrite len_o_ao; lia|]. split; [rewrite len_r_ao; lia|]. split.
  - intros i Hi. destruct (get_o_ao hp ids rid i) as (A&B&C). split; [exact A|]. split; [exact B|].
    intros Hn. rewrite C. destruct (oown (get_o hp i)); [reflexivity|contradiction].
  - intros r _. apply get_r_ao.
Qed.
Lemma ao_ok (hp : heap) ids rid : heap_ok hp -> rid < length (hrolls hp) -> heap_ok (adopt_orphans hp ids rid).
Proof.
  intros [Ho Hr] Hrid. split.
  - intros i Hi. rewrite len_o_ao in Hi. rewrite len_r_ao. destruct (get_o_ao hp ids rid i) as (A&B&C).
    destruct (Ho i Hi) as [H1 H2]. rewrite B. split; [exact H1|]. intros r E. rewrite C in E.
    destruct (oown (get_o hp i)) as [r0|] eqn:E0.
    + inversion E; subst. apply H2. reflexivity.
    + destruct ((i <? length (houts hp)) && existsb (Nat.eqb i) ids); inversion E; subst. exact Hrid.
  - intros r Hlt. rewrite len_r_ao in Hlt. rewrite len_o_ao, get_r_ao. apply Hr. exact Hlt.
Qed.
Lemma ao_owned (hp : heap) ids rid j : j < length (houts hp) -> In j ids -> owned (adopt_orphans hp ids rid) j.
Proof.
  intros Hj Hin. unfold owned. destruct (get_o_ao hp ids rid j) as (_&_&C). rewrite C.
  destruct (oown (get_o hp j)); [discriminate|].
  apply Nat.ltb_lt in Hj. rewrite Hj. apply existsb_eqb_In in Hin. rewrite Hin. discriminate.
Qed.

(* Roll.__init__, generalised: the outcomes in ownids become the roll's if still un-owned *)
Definition new_roll_g (hp : heap) (p : path) (outs ownids srolls : list nat) : heap :=
  adopt_orphans (push_r hp {| rpath := p; rout := outs; rsrc := srolls |}) ownids (length (hrolls hp)).
Lemma new_roll_eq (hp : heap) p outs srolls :
  new_roll hp p outs srolls = (new_roll_g hp p outs outs srolls, length (hrolls hp)).
Proof. reflexivity. Qed.
Lemma adopt_new_roll (hp : heap) p outs srolls orph :
  adopt_orphans (new_roll_g hp p outs outs srolls) orph (length (hrolls hp)) = new_roll_g hp p outs (outs ++ orph) srolls.
Proof. unfold new_roll_g, adopt_orphans. cbn [houts hrolls push_r]. f_equal. apply set_owner_twice. Qed.

Lemma new_roll_g_ok (hp : heap) p outs ownids srolls :
  heap_ok hp -> Forall (fun i => i < length (houts hp)) outs -> Forall (fun s => s < length (hrolls hp)) srolls ->
  heap_ok (new_roll_g hp p outs ownids srolls) /\ extends hp (new_roll_g hp p outs ownids srolls) /\
  length (hrolls (new_roll_g hp p outs ownids srolls)) = S (length (hrolls hp)) /\
  length (houts (new_roll_g hp p outs ownids srolls)) = length (houts hp) /\
  get_r (new_roll_g hp p outs ownids srolls) (length (hrolls hp)) = {| rpath := p; rout := outs; rsrc := srolls |}.
Proof.
  intros Hok Ho Hs. unfold new_roll_g.
  set (c := {| rpath := p; rout := outs; rsrc := srolls |}).
  assert (Hok1 : heap_ok (push_r hp c)) by (apply push_r_ok; assumption).
  split; [apply ao_ok; [exact Hok1|rewrite len_r_push_r; lia]|].
  split; [eapply extends_trans; [apply push_r_ext|apply ao_ext]|].
  split; [rewrite len_r_ao; apply len_r_push_r|].
  split; [rewrite len_o_ao; apply len_o_push_r|].
  rewrite get_r_ao. apply get_r_push_new.
Qed.

Lemma new_roll_g_complete (hp : heap) p outs ownids srolls :
  heap_ok hp -> Forall (fun i => i < length (houts hp)) outs -> Forall (fun s => s < length (hrolls hp)) srolls ->
  (forall i j, In i outs -> reach hp i j -> owned hp j \/ In j ownids) ->
  (forall s, In s srolls -> covers hp outs s) ->
  complete (new_roll_g hp p outs ownids srolls) (length (hrolls hp)).
Proof.
  intros Hok Ho Hs H1 H2.
  destruct (new_roll_g_ok hp p outs ownids srolls Hok Ho Hs) as (Hok'&Hex&_&_&E).
  unfold complete. rewrite E. cbn [rout rsrc]. rewrite Forall_forall in Ho, Hs. split.
  - intros i j Hi Hreach. pose proof (Ho _ Hi) as Hlt.
    assert (Hr0 : reach hp i j) by (eapply reach_ext_inv; eauto).
    pose proof (reach_le hp i j Hok Hr0 Hlt) as Hle.
    destruct (H1 i j Hi Hr0) as [Hw|Hin].
    + eapply owned_ext; [exact Hex|lia|exact Hw].
    + unfold new_roll_g. apply ao_owned; [rewrite len_o_push_r; lia|exact Hin].
  - intros s o Hin Hlive.
    apply (covers_ext hp _ outs s Hok Hex (Hs _ Hin)); [apply Forall_forall; exact Ho|apply H2; exact Hin|exact Hlive].
Qed.

(* ================= values of outcomes ================= *)
Definition ovs (hp : heap) (ids : list nat) : rollv := map (fun i => ov (get_o hp i)) ids.
Definition rollv_of (hp : heap) (rid : nat) : rollv := ovs hp (rout (get_r hp rid)).

Lemma ovs_ext (hp hp' : heap) ids : extends hp hp' -> Forall (fun i => i < length (houts hp)) ids -> ovs hp' ids = ovs hp ids.
Proof.
  intros (_&_&H1&_) Hr. unfold ovs. apply map_ext_in. intros i Hi. rewrite Forall_forall in Hr.
  destruct (H1 i (Hr _ Hi)) as (E&_). exact E.
Qed.
Lemma rollv_of_ext (hp hp' : heap) rid : heap_ok hp -> extends hp hp' -> rid < length (hrolls hp) ->
  rollv_of hp' rid = rollv_of hp rid.
Proof.
  intros [_ Hr] Hex Hrid. unfold rollv_of. destruct (Hr rid Hrid) as [Ho _].
  pose proof Hex as (_&_&_&H2). rewrite (H2 rid Hrid). apply ovs_ext; assumption.
Qed.
Lemma live_cons (x : option T) l : live (x :: l) = (match x with Some v => [v] | None => [] end) ++ live l.
Proof. reflexivity. Qed.
Lemma live_app (a b : @rollv T) : live (a ++ b) = live a ++ live b.
Proof. unfold live. apply flat_map_app. Qed.
Lemma live_map_some (l : list T) : live (map (@Some T) l) = l.
Proof. induction l as [|x t IH]; [reflexivity|]. cbn [map]. rewrite live_cons, IH. reflexivity. Qed.
Lemma ovs_live_ids (hp : heap) ids : ovs hp (live_ids hp ids) = map (@Some T) (live (ovs hp ids)).
Proof.
  induction ids as [|i t IH]; [reflexivity|]. unfold live_ids in *. cbn [filter ovs map]. fold (ovs hp t).
  rewrite live_cons. destruct (ov (get_o hp i)) eqn:E.
  - cbn [map app]. unfold ovs at 1. cbn [map]. fold (ovs hp (filter (fun i0 => match ov (get_o hp i0) with Some _ => true | None => false end) t)).
    rewrite IH, E. reflexivity.
  - cbn [app]. exact IH.
Qed.
Lemma vals_live_ids (hp : heap) ids : map (val_of zeroT hp) (live_ids hp ids) = live (ovs hp ids).
Proof.
  induction ids as [|i t IH]; [reflexivity|]. unfold live_ids in *. cbn [filter ovs map]. fold (ovs hp t).
  rewrite live_cons. destruct (ov (get_o hp i)) eqn:E.
  - cbn [map app]. rewrite IH. unfold val_of. rewrite E. reflexivity.
  - cbn [app]. exact IH.
Qed.
Lemma ovs_app (hp : heap) a b : ovs hp (a ++ b) = ovs hp a ++ ovs hp b.
Proof. apply map_app. Qed.
Lemma ovs_flat_live (hp : heap) rids :
  ovs hp (flat_map (roll_live hp) rids) = map (@Some T) (flat_map live (map (rollv_of hp) rids)).
Proof.
  induction rids as [|r t IH]; [reflexivity|]. cbn [flat_map map]. rewrite ovs_app, map_app, IH. f_equal.
  unfold roll_live, rollv_of. apply ovs_live_ids.
Qed.
Lemma vals_flat_live (hp : heap) rids :
  map (val_of zeroT hp) (flat_map (roll_live hp) rids) = flat_map live (map (rollv_of hp) rids).
Proof.
  induction rids as [|r t IH]; [reflexivity|]. cbn [flat_map map]. rewrite map_app, IH. f_equal.
  unfold roll_live, rollv_of. apply vals_live_ids.
Qed.
Lemma live_ids_all_live (hp : heap) ids i : In i (live_ids hp ids) -> ov (get_o hp i) = Some (val_of zeroT hp i).
Proof.
  unfold live_ids. intros H. apply filter_In in H. destruct H as [_ H]. unfold val_of.
  destruct (ov (get_o hp i)); [reflexivity|discriminate].
Qed.

(* ================= adopted rolls (Roll.adopt) ================= *)
(* c is a copy of o with possibly more sources *)
Definition copy_of (hp : heap) (c o : nat) : Prop :=
  ov (get_o hp c) = ov (get_o hp o) /\ oown (get_o hp c) = oown (get_o hp o) /\
  exists extra, osrc (get_o hp c) = osrc (get_o hp o) ++ extra.
Definition adopted_of (hp : heap) (a r : nat) : Prop :=
  rpath (get_r hp a) = rpath (get_r hp r) /\ rsrc (get_r hp a) = rsrc (get_r hp r) /\
  Forall2 (copy_of hp) (rout (get_r hp a)) (rout (get_r hp r)).
(* an adopted roll: part 1 of completeness holds, and it is a copy of a complete roll *)
Definition adopted_ok (hp : heap) (a : nat) : Prop :=
  complete1 hp a /\ exists r, r < a /\ complete hp r /\ adopted_of hp a r.
Definition roll_ok (hp : heap) (rid : nat) : Prop := complete hp rid \/ adopted_ok hp rid.

Lemma Forall2_impl_in {A B} (R R' : A -> B -> Prop) l l' :
  (forall a b, In a l -> In b l' -> R a b -> R' a b) -> Forall2 R l l' -> Forall2 R' l l'.
Proof.
  intros H F. induction F as [|a b l l' Hab F IH]; constructor.
  - apply H; [left; reflexivity|left; reflexivity|exact Hab].
  - apply IH. intros a0 b0 Ha Hb. apply H; right; assumption.
Qed.

Lemma adopted_ok_ext (hp hp' : heap) a : heap_ok hp -> extends hp hp' -> a < length (hrolls hp) ->
  adopted_ok hp a -> adopted_ok hp' a.
Proof.
  intros Hok Hex Ha (H1&r&Hra&Hc&Hp&Hs&Hf).
  split; [apply (complete1_ext hp hp' a Hok Hex Ha H1)|]. exists r. split; [exact Hra|].
  split; [apply (complete_ext hp hp' r Hok Hex ltac:(lia) Hc)|].
  pose proof Hex as (_&_&Ho&Hr). unfold adopted_of. rewrite (Hr a Ha), (Hr r ltac:(lia)).
  split; [exact Hp|]. split; [exact Hs|].
  destruct Hok as [Hoo Hrr]. destruct (Hrr a Ha) as [Fa _]. destruct (Hrr r ltac:(lia)) as [Fr _].
  rewrite Forall_forall in Fa, Fr.
  eapply Forall2_impl_in; [|exact Hf]. intros c o Hic Hio (E1&E2&x&E3).
  destruct (Ho c (Fa _ Hic)) as (A1&A2&A3). destruct (Ho o (Fr _ Hio)) as (B1&B2&B3).
  assert (Hown : oown (get_o hp o) <> None) by (apply (proj1 Hc o o Hio); apply reach_refl).
  split; [congruence|]. split.
  - rewrite A3, B3; [exact E2|exact Hown|rewrite E2; exact Hown].
  - exists x. rewrite A2, B2. exact E3.
Qed.
Lemma roll_ok_ext (hp hp' : heap) a : heap_ok hp -> extends hp hp' -> a < length (hrolls hp) ->
  roll_ok hp a -> roll_ok hp' a.
Proof.
  intros Hok Hex Ha [H|H]; [left; apply (complete_ext hp hp' a Hok Hex Ha H)|right; apply (adopted_ok_ext hp hp' a Hok Hex Ha H)].
Qed.
Lemma roll_ok_c1 hp a : roll_ok hp a -> complete1 hp a.
Proof. intros [H|[H _]]; [apply complete_c1; exact H|exact H]. Qed.

(* trees in which SubstitutionRoller occurs only if S holds *)
Fixpoint legal (S : Prop) (r : @rtree T) : Prop :=
  match r with
  | RVal _ | RH _ | RP _ => True
  | RPool l | RSelect _ l | RFilter _ l | RFilterBy _ l =>
      (fix all (l : list (@rtree T)) : Prop := match l with [] => True | x :: t => legal S x /\ all t end) l
  | RRepeat _ r' | RUnOp _ r' => legal S r'
  | RBinOp _ a b => legal S a /\ legal S b
  | RSubst _ _ _ r' => S /\ legal S r'
  end.
Definition no_subst (r : @rtree T) : Prop := legal False r.
Lemma legal_all S l :
  (fix all (l : list (@rtree T)) : Prop := match l with [] => True | x :: t => legal S x /\ all t end) l <-> Forall (legal S) l.
Proof.
  induction l as [|x t IH]; [split; auto|]. split.
  - intros [A B]. constructor; [exact A|apply IH; exact B].
  - intros H. inversion H; subst. split; [assumption|apply IH; assumption].
Qed.

(* induction principle for the nested inductive rtree *)
Section RtreeInd.
Variable P : @rtree T -> Prop.
Hypothesis hVal : forall v, P (RVal v).
Hypothesis hH : forall h, P (RH h).
Hypothesis hP : forall p, P (RP p).
Hypothesis hPool : forall l, Forall P l -> P (RPool l).
Hypothesis hRepeat : forall n r, P r -> P (RRepeat n r).
Hypothesis hBin : forall op a b, P a -> P b -> P (RBinOp op a b).
Hypothesis hUn : forall op a, P a -> P (RUnOp op a).
Hypothesis hSelect : forall w l, Forall P l -> P (RSelect w l).
Hypothesis hFilter : forall f l, Forall P l -> P (RFilter f l).
Hypothesis hFilterBy : forall f l, Forall P l -> P (RFilterBy f l).
Hypothesis hSubst : forall e a d r, P r -> P (RSubst e a d r).
Fixpoint rtree_ind' (r : @rtree T) : P r :=
  match r with
  | RVal v => hVal v
  | RH h => hH h
  | RP p => hP p
  | RPool l => hPool l ((fix F l : Forall P l := match l with [] => Forall_nil P | x :: t => Forall_cons x (rtree_ind' x) (F t) end) l)
  | RRepeat n r => hRepeat n r (rtree_ind' r)
  | RBinOp op a b => hBin op a b (rtree_ind' a) (rtree_ind' b)
  | RUnOp op a => hUn op a (rtree_ind' a)
  | RSelect w l => hSelect w l ((fix F l : Forall P l := match l with [] => Forall_nil P | x :: t => Forall_cons x (rtree_ind' x) (F t) end) l)
  | RFilter f l => hFilter f l ((fix F l : Forall P l := match l with [] => Forall_nil P | x :: t => Forall_cons x (rtree_ind' x) (F t) end) l)
  | RFilterBy f l => hFilterBy f l ((fix F l : Forall P l := match l with [] => Forall_nil P | x :: t => Forall_cons x (rtree_ind' x) (F t) end) l)
  | RSubst e a d r => hSubst e a d r (rtree_ind' r)
  end.
End RtreeInd.

(* tails that never ask *)
Definition pure_t {A} (t : tree A) : Prop := match t with Ask _ _ _ => False | _ => True end.
Lemma run_bind_tail {A B} (t : tree A) (f : A -> tree B) : (forall x, pure_t (f x)) -> forall s a b,
  run (bind t f) s = (a, Some (Ok b)) -> exists x, run t s = (a, Some (Ok x)) /\ f x = Ret b.
Proof.
  intros Hp. induction t as [x|e|pop w k IH]; intros s a b H; cbn [bind run] in *.
  - exists x. specialize (Hp x). destruct (f x) as [y|e|? ? ?]; cbn [run pure_t] in *; [|discriminate|contradiction].
    inversion H; subst. auto.
  - discriminate.
  - destruct s as [|i rest]; [discriminate|].
    destruct (run (bind (k i) f) rest) as [asks r] eqn:E. inversion H; subst.
    destruct (IH i _ _ _ E) as (x&E1&E2). exists x. rewrite E1. auto.
Qed.
Lemma run_bind_pure {A B} (t : tree A) (f : A -> tree B) : forall s a x y,
  run t s = (a, Some (Ok x)) -> f x = Ret y -> run (bind t f) s = (a, Some (Ok y)).
Proof.
  induction t as [z|e|pop w k IH]; intros s a x y H Hf; cbn [bind run] in *.
  - inversion H; subst. rewrite Hf. reflexivity.
  - discriminate.
  - destruct s as [|i rest]; [discriminate|].
    destruct (run (k i) rest) as [asks r] eqn:E. inversion H; subst. rewrite (IH i _ _ _ _ E Hf). reflexivity.
Qed.
Lemma run_mbind_tail {A B} (m : M A) (f : A -> M B) hp : (forall x hp1, pure_t (f x hp1)) -> forall s a hp' b,
  run (mbind m f hp) s = (a, Some (Ok (hp', b))) ->
  exists hp1 x, run (m hp) s = (a, Some (Ok (hp1, x))) /\ f x hp1 = Ret (hp', b).
Proof.
  intros Hp s a hp' b H. unfold mbind in H. apply run_bind_tail in H; [|intros [h x]; apply Hp].
  destruct H as ([hp1 x]&E1&E2). exists hp1, x. auto.
Qed.

Definition src_paths (r : @rtree T) (p : path) (hp : heap) (rid : nat) : Prop :=
  let ps := map (fun s => rpath (get_r hp s)) (rsrc (get_r hp rid)) in
  match r with
  | RVal _ | RH _ | RP _ => ps = []
  | RPool l | RSelect _ l | RFilter _ l | RFilterBy _ l => ps = map (fun k => p ++ [k]) (seq 0 (length l))
  | RRepeat n _ => ps = repeat (p ++ [0]) n
  | RBinOp _ _ _ => ps = [p ++ [0]; p ++ [1]]
  | RUnOp _ _ => ps = [p ++ [0]]
  | RSubst _ _ _ _ => ps <> [] /\ Forall (fun q => q = p ++ [0]) ps
  end.

(* ================= the generic induction ================= *)
Section Gen.
Variable Q : heap -> nat -> Prop.
Variable subst_ok : Prop.
Hypothesis Q_ext : forall hp hp' rid, heap_ok hp -> extends hp hp' -> rid < length (hrolls hp) -> Q hp rid -> Q hp' rid.
Hypothesis Q_complete : forall hp rid, complete hp rid -> Q hp rid.
Hypothesis Q_c1 : forall hp rid, Q hp rid -> complete1 hp rid.
Hypothesis Q_adopt : subst_ok -> forall hp a, adopted_ok hp a -> Q hp a.

Definition QInv (hp : heap) : Prop := forall rid, rid < length (hrolls hp) -> Q hp rid.

Lemma QInv_same hp hp' : heap_ok hp -> extends hp hp' -> length (hrolls hp') = length (hrolls hp) -> QInv hp -> QInv hp'.
Proof. intros Hok Hex E H rid Hrid. rewrite E in Hrid. apply (Q_ext hp hp' rid Hok Hex Hrid). apply H. exact Hrid. Qed.
Lemma QInv_one hp hp' : heap_ok hp -> extends hp hp' -> length (hrolls hp') = S (length (hrolls hp)) ->
  Q hp' (length (hrolls hp)) -> QInv hp -> QInv hp'.
Proof.
  intros Hok Hex E Hn H rid Hrid. rewrite E in Hrid. destruct (Nat.eq_dec rid (length (hrolls hp))) as [->|Hne]; [exact Hn|].
  apply (Q_ext hp hp' rid Hok Hex ltac:(lia)). apply H. lia.
Qed.

Definition post (r : @rtree T) (p : path) (hp : heap) (script : list nat) (asks : list (list T * list Z))
    (hp' : heap) (rid : nat) : Prop :=
  heap_ok hp' /\ extends hp hp' /\ (length (hrolls hp) <= rid < length (hrolls hp')) /\ rpath (get_r hp' rid) = p /\
  run (roll_v O zeroT addT r) script = (asks, Some (Ok (rollv_of hp' rid))) /\
  src_paths r p hp' rid /\
  (QInv hp -> complete hp' rid /\ QInv hp').

Definition good (r : @rtree T) : Prop :=
  legal subst_ok r -> forall p hp script asks hp' rid, heap_ok hp ->
  run (roll_m O zeroT addT p r hp) script = (asks, Some (Ok (hp', rid))) -> post r p hp script asks hp' rid.

(* Roll(r, outs, srolls) *)
Lemma new_roll_post (hp : heap) p outs srolls hp' rid :
  heap_ok hp -> Forall (fun i => i < length (houts hp)) outs -> Forall (fun s => s < length (hrolls hp)) srolls ->
  new_roll hp p outs srolls = (hp', rid) ->
  heap_ok hp' /\ extends hp hp' /\ rid = length (hrolls hp) /\ length (hrolls hp') = S (length (hrolls hp)) /\
  length (houts hp') = length (houts hp) /\
  get_r hp' rid = {| rpath := p; rout := outs; rsrc := srolls |} /\
  (QInv hp -> (forall i j, In i outs -> reach hp i j -> owned hp j \/ In j outs) ->
     (forall s, In s srolls -> covers hp outs s) -> complete hp' rid /\ QInv hp').
Proof.
  intros Hok Ho Hs E. rewrite new_roll_eq in E. inversion E; subst hp' rid. clear E.
  destruct (new_roll_g_ok hp p outs outs srolls Hok Ho Hs) as (A&B&C&D&F).
  repeat (split; [assumption|]). split; [reflexivity|]. repeat (split; [assumption|]).
  intros HQ H1 H2. pose proof (new_roll_g_complete hp p outs outs srolls Hok Ho Hs H1 H2) as Hc.
  split; [exact Hc|]. apply (QInv_one hp _ Hok B C); [apply Q_complete; exact Hc|exact HQ].
Qed.

(* fresh leaf outcomes *)
Lemma new_os_spec vs : forall (hp hp1 : heap) ids, new_os hp vs = (hp1, ids) -> heap_ok hp ->
  heap_ok hp1 /\ extends hp hp1 /\ length (hrolls hp1) = length (hrolls hp) /\
  Forall (fun i => i < length (houts hp1)) ids /\ ovs hp1 ids = map (@Some T) vs /\
  (forall i, In i ids -> osrc (get_o hp1 i) = []).
Proof.
  induction vs as [|v t IH]; intros hp hp1 ids E Hok; cbn [new_os] in E.
  - inversion E; subst. split; [exact Hok|]. split; [apply extends_refl|]. split; [reflexivity|].
    split; [constructor|]. split; [reflexivity|]. intros i [].
  - rewrite new_o_eq in E. set (c := {| ov := Some v; osrc := []; oown := None |}) in *.
    destruct (new_os (push_o hp c) t) as [hp2 is] eqn:E2. inversion E; subst hp1 ids. clear E.
    assert (Hok1 : heap_ok (push_o hp c)) by (apply push_o_ok; [exact Hok|constructor|intros r Hr; discriminate]).
    destruct (IH _ _ _ E2 Hok1) as (A&B&C&D&F&G).
    split; [exact A|]. split; [eapply extends_trans; [apply push_o_ext|exact B]|].
    split; [rewrite C; apply len_r_push_o|].
    pose proof B as (L&_&Hg&_). rewrite len_o_push_o in L.
    destruct (Hg (length (houts hp)) ltac:(rewrite len_o_push_o; lia)) as (G1&G2&_).
    rewrite get_o_push_new in G1, G2. cbn [ov osrc c] in G1, G2.
    split; [constructor; [lia|exact D]|]. split.
    + unfold ovs in *. cbn [map]. rewrite G1, F. reflexivity.
    + intros i [<-|Hi]; [exact G2|apply G; exact Hi].
Qed.

Lemma leaf_post (hp : heap) p vs hp' rid :
  heap_ok hp -> (let '(hp1, ids) := new_os hp vs in new_roll hp1 p ids []) = (hp', rid) ->
  heap_ok hp' /\ extends hp hp' /\ (length (hrolls hp) <= rid < length (hrolls hp')) /\ rpath (get_r hp' rid) = p /\
  rollv_of hp' rid = map (@Some T) vs /\ rsrc (get_r hp' rid) = [] /\
  (QInv hp -> complete hp' rid /\ QInv hp').
Proof.
  intros Hok E. destruct (new_os hp vs) as [hp1 ids] eqn:E1.
  destruct (new_os_spec vs hp hp1 ids E1 Hok) as (A&B&C&D&F&G).
  destruct (new_roll_post hp1 p ids [] hp' rid A D ltac:(constructor) E) as (A'&B'&C'&D'&L'&F'&G').
  split; [exact A'|]. split; [eapply extends_trans; eassumption|]. split; [lia|].
  rewrite F'. cbn [rpath rsrc]. split; [reflexivity|]. split.
  - unfold rollv_of. rewrite F'. cbn [rout]. rewrite (ovs_ext hp1 hp' ids B' D). exact F.
  - split; [reflexivity|]. intros HQ. apply G'.
    + apply (QInv_same hp hp1 Hok B C HQ).
    + intros i j Hi Hr. right. destruct (reach_inv _ _ _ Hr) as [<-|(k&Hk&_)]; [exact Hi|]. rewrite (G i Hi) in Hk. destruct Hk.
    + intros s [].
Qed.

Lemma leaf_good (r : @rtree T) p (hp : heap) vs hp' rid script asks :
  heap_ok hp -> (let '(hp1, ids) := new_os hp vs in new_roll hp1 p ids []) = (hp', rid) ->
  run (roll_v O zeroT addT r) script = (asks, Some (Ok (map (@Some T) vs))) ->
  match r with RVal _ | RH _ | RP _ => True | _ => False end ->
  post r p hp script asks hp' rid.
Proof.
  intros Hok H Hv Hr. destruct (leaf_post hp p vs hp' rid Hok H) as (A&B&C&D&F&G&I).
  split; [exact A|]. split; [exact B|]. split; [exact C|]. split; [exact D|].
  split; [rewrite F; exact Hv|]. split; [|exact I].
  unfold src_paths. rewrite G. destruct r; try contradiction; reflexivity.
Qed.

Lemma good_val v : good (RVal v).
Proof.
  intros _ p hp script asks hp' rid Hok H. cbn [roll_m] in H.
  change (run (Ret (let '(hp1, ids) := new_os hp [v] in new_roll hp1 p ids [])) script = (asks, Some (Ok (hp', rid)))) in H.
  apply run_ret in H. destruct H as [-> H]. symmetry in H.
  apply (leaf_good (RVal v) p hp [v] hp' rid script [] Hok H); [reflexivity|exact I].
Qed.

Lemma good_h h : good (RH h).
Proof.
  intros _ p hp script asks hp' rid Hok H. cbn [roll_m] in H.
  apply run_mbind_tail in H; [|intros x hp1; exact I].
  destruct H as (hp1&x&E1&E2). apply run_mlift in E1. destruct E1 as [-> E1].
  change (Ret (let '(hp1, ids) := new_os hp [x] in new_roll hp1 p ids []) = Ret (T:=T) (hp', rid)) in E2.
  apply Ret_inj in E2. rename E2 into E3.
  apply (leaf_good (RH h) p hp [x] hp' rid script asks Hok E3); [|exact I].
  cbn [roll_v]. apply (run_bind_pure _ _ _ _ x); [exact E1|reflexivity].
Qed.

Lemma good_p pl : good (RP pl).
Proof.
  intros _ p hp script asks hp' rid Hok H. cbn [roll_m] in H.
  apply run_mbind_tail in H; [|intros x hp1; destruct (new_os hp1 x); exact I].
  destruct H as (hp1&l&E1&E2). apply run_mlift in E1. destruct E1 as [-> E1].
  assert (E3 : (let '(hp1, ids) := new_os hp l in new_roll hp1 p ids []) = (hp', rid)).
  { destruct (new_os hp l) as [h1 ids]. apply Ret_inj in E2. exact E2. }
  apply (leaf_good (RP pl) p hp l hp' rid script asks Hok E3); [|exact I].
  cbn [roll_v]. apply (run_bind_pure _ _ _ _ l); [exact E1|reflexivity].
Qed.

(* ---- rolling a list of sources ---- *)
Definition mroll (pl : list (path * @rtree T)) : M (list nat) :=
  mseq (map (fun qx => roll_m O zeroT addT (fst qx) (snd qx)) pl).

Lemma run_mbind_mret {A B} (m : M A) (g : A -> B) hp s a hp' y :
  run (mbind m (fun r => mret (g r)) hp) s = (a, Some (Ok (hp', y))) ->
  exists x, run (m hp) s = (a, Some (Ok (hp', x))) /\ y = g x.
Proof.
  intros H. apply run_mbind_tail in H; [|intros x hp1; exact I].
  destruct H as (hp1&x&E1&E2). apply Ret_inj in E2. inversion E2; subst. exists x. auto.
Qed.

Lemma mroll_post : forall pl, Forall (fun qx => good (snd qx) /\ legal subst_ok (snd qx)) pl ->
  forall hp script asks hp' rids, heap_ok hp ->
  run (mroll pl hp) script = (asks, Some (Ok (hp', rids))) ->
  heap_ok hp' /\ extends hp hp' /\ Forall (fun s => s < length (hrolls hp')) rids /\
  map (fun s => rpath (get_r hp' s)) rids = map fst pl /\
  run (seq_tree (map (fun qx => roll_v O zeroT addT (snd qx)) pl)) script = (asks, Some (Ok (map (rollv_of hp') rids))) /\
  (QInv hp -> QInv hp' /\ Forall (complete hp') rids).
Proof.
  induction pl as [|[q x] rest IH]; intros HF hp script asks hp' rids Hok H.
  - cbn [mroll map mseq] in H. apply run_ret in H. destruct H as [-> H]. inversion H; subst.
    split; [exact Hok|]. split; [apply extends_refl|]. split; [constructor|]. split; [reflexivity|].
    split; [reflexivity|]. intros HQ. split; [exact HQ|constructor].
  - inversion HF as [|? ? [Hg Hl] HF']; subst. cbn [fst snd] in Hg, Hl.
    unfold mroll in H. cbn [map mseq fst snd] in H. fold (mroll rest) in H.
    apply run_mbind in H. destruct H as (s1&s2&a1&a2&hp1&rid&->&E1&L1&E2&->).
    apply run_mbind_mret in E2. destruct E2 as (rs&E2&->).
    destruct (Hg Hl q hp s1 a1 hp1 rid Hok E1) as (A1&B1&C1&D1&V1&_&I1).
    destruct (IH HF' hp1 s2 a2 hp' rs A1 E2) as (A2&B2&C2&D2&V2&I2).
    pose proof B2 as (_&Lr&_&Hr).
    split; [exact A2|]. split; [eapply extends_trans; eassumption|].
    split; [constructor; [lia|exact C2]|].
    split; [cbn [map fst]; rewrite (Hr rid ltac:(lia)), D1, D2; reflexivity|]. split.
    + cbn [map seq_tree snd]. eapply run_bind_ok; [exact V1|exact L1|].
      eapply run_bind_pure; [exact V2|]. rewrite (rollv_of_ext hp1 hp' rid A1 B2 ltac:(lia)). reflexivity.
    + intros HQ. destruct (I1 HQ) as [Hc HQ1]. destruct (I2 HQ1) as [HQ2 Hcs]. split; [exact HQ2|].
      constructor; [|exact Hcs]. apply (complete_ext hp1 hp' rid A1 B2 ltac:(lia) Hc).
Qed.

Lemma go_mseq p : forall l k,
  (fix go (l : list (@rtree T)) (k : nat) : M (list nat) :=
     match l with
     | [] => mret []
     | x :: rest => mbind (roll_m O zeroT addT (p ++ [k]) x) (fun rid => mbind (go rest (Datatypes.S k)) (fun rs => mret (rid :: rs)))
     end) l k = mroll (combine (map (fun k => p ++ [k]) (seq k (length l))) l).
Proof.
  induction l as [|x rest IH]; intros k; [reflexivity|].
  rewrite IH. reflexivity.
Qed.

Lemma combine_fst {A B} (a : list A) (b : list B) : length a = length b -> map fst (combine a b) = a.
Proof. revert b. induction a as [|x a IH]; intros [|y b] H; cbn in *; try lia; [reflexivity|]. f_equal. apply IH. lia. Qed.
Lemma combine_snd {A B} (a : list A) (b : list B) : length a = length b -> map snd (combine a b) = b.
Proof. revert b. induction a as [|x a IH]; intros [|y b] H; cbn in *; try lia; [reflexivity|]. f_equal. apply IH. lia. Qed.

Lemma combine_map_snd {A B C} (f : B -> C) (a : list A) (b : list B) : length a = length b ->
  map (fun qx => f (snd qx)) (combine a b) = map f b.
Proof. revert b. induction a as [|x a IH]; intros [|y b] H; cbn in *; try lia; [reflexivity|]. f_equal. apply IH. lia. Qed.

Lemma Forall_good_combine (ps : list path) l : length ps = length l -> Forall good l -> Forall (legal subst_ok) l ->
  Forall (fun qx => good (snd qx) /\ legal subst_ok (snd qx)) (combine ps l).
Proof.
  intros HL Hg Hl. apply Forall_forall. intros [q x] Hin. cbn [snd].
  assert (Hx : In x l). { rewrite <- (combine_snd ps l HL). change x with (snd (q, x)). apply in_map. exact Hin. }
  rewrite Forall_forall in Hg, Hl. auto.
Qed.

Lemma sources_post p l : Forall good l -> Forall (legal subst_ok) l ->
  forall hp script asks hp' rids, heap_ok hp ->
  run (mroll (combine (map (fun k => p ++ [k]) (seq 0 (length l))) l) hp) script = (asks, Some (Ok (hp', rids))) ->
  heap_ok hp' /\ extends hp hp' /\ Forall (fun s => s < length (hrolls hp')) rids /\
  map (fun s => rpath (get_r hp' s)) rids = map (fun k => p ++ [k]) (seq 0 (length l)) /\
  run (seq_tree (map (roll_v O zeroT addT) l)) script = (asks, Some (Ok (map (rollv_of hp') rids))) /\
  (QInv hp -> QInv hp' /\ Forall (complete hp') rids).
Proof.
  intros Hg Hl hp script asks hp' rids Hok H.
  assert (HL : length (map (fun k => p ++ [k]) (seq 0 (length l))) = length l) by (rewrite map_length, seq_length; reflexivity).
  destruct (mroll_post _ (Forall_good_combine _ l HL Hg Hl) hp script asks hp' rids Hok H) as (A&B&C&D&V&I).
  pose proof (eq_trans D (combine_fst _ _ HL)) as D'.
  pose proof (combine_map_snd (roll_v O zeroT addT) _ _ HL) as EV.
  split; [exact A|]. split; [exact B|]. split; [exact C|]. split; [exact D'|]. split; [|exact I].
  etransitivity; [|exact V]. f_equal. f_equal. symmetry. exact EV.
Qed.

Lemma flat_live_lt (hp : heap) rids : heap_ok hp -> Forall (fun s => s < length (hrolls hp)) rids ->
  Forall (fun i => i < length (houts hp)) (flat_map (roll_live hp) rids).
Proof.
  intros Hok Hr. apply Forall_forall. intros i Hi. apply in_flat_map in Hi. destruct Hi as (s&Hs&Hi).
  rewrite Forall_forall in Hr. apply (roll_live_lt hp s i Hok (Hr _ Hs) Hi).
Qed.

(* live outcomes of complete rolls: everything reachable is owned *)
Lemma live_deep_owned (hp : heap) s i j : complete1 hp s -> In i (roll_live hp s) -> reach hp i j -> owned hp j.
Proof. intros H Hi Hr. apply (H i j); [apply roll_live_in; exact Hi|exact Hr]. Qed.

Lemma pool_final (hp : heap) p rids hp' rid :
  heap_ok hp -> Forall (fun s => s < length (hrolls hp)) rids ->
  new_roll hp p (flat_map (roll_live hp) rids) rids = (hp', rid) ->
  heap_ok hp' /\ extends hp hp' /\ rid = length (hrolls hp) /\ length (hrolls hp') = S (length (hrolls hp)) /\
  get_r hp' rid = {| rpath := p; rout := flat_map (roll_live hp) rids; rsrc := rids |} /\
  rollv_of hp' rid = map (@Some T) (flat_map live (map (rollv_of hp) rids)) /\
  (QInv hp -> complete hp' rid /\ QInv hp').
Proof.
  intros Hok Hr E. pose proof (flat_live_lt hp rids Hok Hr) as Ho.
  destruct (new_roll_post hp p _ rids hp' rid Hok Ho Hr E) as (A&B&C&D&L&F&G).
  split; [exact A|]. split; [exact B|]. split; [exact C|]. split; [exact D|]. split; [exact F|]. split.
  - unfold rollv_of. rewrite F. cbn [rout]. rewrite (ovs_ext hp hp' _ B Ho). apply ovs_flat_live.
  - intros HQ. apply G; [exact HQ| |].
    + intros i j Hi Hreach. left. apply in_flat_map in Hi. destruct Hi as (s&Hs&Hi).
      rewrite Forall_forall in Hr. apply (live_deep_owned hp s i j); [apply Q_c1, HQ, Hr, Hs|exact Hi|exact Hreach].
    + intros s Hs o Hlive. exists o. split; [|apply reach_refl]. apply in_flat_map. exists s. auto.
Qed.

Lemma map_rpath_ext (hp hp' : heap) rids : extends hp hp' -> Forall (fun s => s < length (hrolls hp)) rids ->
  map (fun s => rpath (get_r hp' s)) rids = map (fun s => rpath (get_r hp s)) rids.
Proof.
  intros (_&_&_&H) Hr. apply map_ext_in. intros s Hs. rewrite Forall_forall in Hr. rewrite (H s (Hr _ Hs)). reflexivity.
Qed.

Lemma good_pool l : Forall good l -> good (RPool l).
Proof.
  intros Hg Hl p hp script asks hp' rid Hok H. cbn [legal] in Hl. apply legal_all in Hl.
  cbn [roll_m] in H. rewrite go_mseq in H.
  apply run_mbind_tail in H; [|intros x hp1; exact I]. destruct H as (hp1&rids&E1&E2). apply Ret_inj in E2.
  destruct (sources_post p l Hg Hl hp script asks hp1 rids Hok E1) as (A&B&C&D&V&J).
  destruct (pool_final hp1 p rids hp' rid A C E2) as (A'&B'&C'&D'&F'&V'&J').
  pose proof B as (_&Lr&_&_).
  split; [exact A'|]. split; [eapply extends_trans; eassumption|]. split; [lia|].
  split; [rewrite F'; reflexivity|]. split.
  - cbn [roll_v]. eapply run_bind_pure; [exact V|]. rewrite V'. reflexivity.
  - split.
    + unfold src_paths. rewrite F'. cbn [rsrc]. rewrite (map_rpath_ext hp1 hp' rids B' C). exact D.
    + intros HQ. destruct (J HQ) as [HQ1 _]. apply J'. exact HQ1.
Qed.

Lemma map_repeat' {A B} (f : A -> B) x n : map f (repeat x n) = repeat (f x) n.
Proof. induction n as [|n IH]; [reflexivity|]. cbn [repeat map]. rewrite IH. reflexivity. Qed.

Lemma good_repeat n r : good r -> good (RRepeat n r).
Proof.
  intros Hg Hl p hp script asks hp' rid Hok H. cbn [legal] in Hl. cbn [roll_m] in H.
  assert (EM : mseq (repeat (roll_m O zeroT addT (p ++ [0]) r) n) = mroll (repeat (p ++ [0], r) n)).
  { unfold mroll. rewrite map_repeat'. reflexivity. }
  rewrite EM in H. clear EM.
  apply run_mbind_tail in H; [|intros x hp1; exact I]. destruct H as (hp1&rids&E1&E2). apply Ret_inj in E2.
  assert (HF : Forall (fun qx : path * rtree => good (snd qx) /\ legal subst_ok (snd qx)) (repeat (p ++ [0], r) n)).
  { apply Forall_forall. intros qx Hin. apply repeat_spec in Hin. subst qx. split; assumption. }
  destruct (mroll_post _ HF hp script asks hp1 rids Hok E1) as (A&B&C&D&V&J).
  rewrite map_repeat' in D. rewrite map_repeat' in V. cbn [fst snd] in D, V.
  destruct (pool_final hp1 p rids hp' rid A C E2) as (A'&B'&C'&D'&F'&V'&J').
  pose proof B as (_&Lr&_&_).
  split; [exact A'|]. split; [eapply extends_trans; eassumption|]. split; [lia|].
  split; [rewrite F'; reflexivity|]. split.
  - cbn [roll_v]. eapply run_bind_pure; [exact V|]. rewrite V'. reflexivity.
  - split.
    + unfold src_paths. rewrite F'. cbn [rsrc]. rewrite (map_rpath_ext hp1 hp' rids B' C). exact D.
    + intros HQ. destruct (J HQ) as [HQ1 _]. apply J'. exact HQ1.
Qed.

(* ---- NarySumOpRoller ---- *)
Definition sum_f (hp : heap) (rid : nat) : heap * (nat * list nat) :=
  let outs := rout (get_r hp rid) in
  let fresh := (push_o hp {| ov := Some (tsumv zeroT addT (outcomes_rec zeroT hp rid)); osrc := outs; oown := None |},
                (length (houts hp), [length (houts hp)])) in
  match outs with
  | [i] => match ov (get_o hp i) with Some _ => (hp, (i, [])) | None => fresh end
  | _ => fresh
  end.
Lemma sum_outcome_eq rid (hp : heap) : sum_outcome zeroT addT rid hp = Ret (sum_f hp rid).
Proof.
  unfold sum_outcome, sum_f. destruct (rout (get_r hp rid)) as [|i [|j t]]; try reflexivity.
  destruct (ov (get_o hp i)); reflexivity.
Qed.

Lemma val_of_ext (hp hp' : heap) i : extends hp hp' -> i < length (houts hp) -> val_of zeroT hp' i = val_of zeroT hp i.
Proof. intros (_&_&H&_) Hi. unfold val_of. destruct (H i Hi) as (E&_). rewrite E. reflexivity. Qed.

Lemma closure_ext (hp hp' : heap) x orph : heap_ok hp -> extends hp hp' -> x < length (houts hp) ->
  (forall j, reach hp x j -> owned hp j \/ In j orph) -> (forall j, reach hp' x j -> owned hp' j \/ In j orph).
Proof.
  intros Hok Hex Hx H j Hr. pose proof (reach_ext_inv hp hp' x j Hok Hex Hx Hr) as Hr0.
  pose proof (reach_le hp x j Hok Hr0 Hx) as Hle.
  destruct (H j Hr0) as [Hw|Hin]; [left; apply (owned_ext hp hp' j Hex ltac:(lia) Hw)|right; exact Hin].
Qed.

Lemma sum_f_spec (hp : heap) rid hp1 x orph : heap_ok hp -> rid < length (hrolls hp) -> sum_f hp rid = (hp1, (x, orph)) ->
  heap_ok hp1 /\ extends hp hp1 /\ length (hrolls hp1) = length (hrolls hp) /\ x < length (houts hp1) /\
  Forall (fun i => i < length (houts hp1)) orph /\
  val_of zeroT hp1 x = summed zeroT addT (rollv_of hp rid) /\
  (complete1 hp rid -> forall j, reach hp1 x j -> owned hp1 j \/ In j orph) /\
  (forall o, In o (roll_live hp rid) -> reach hp1 x o).
Proof.
  intros Hok Hrid E. pose proof Hok as [_ Hr]. destruct (Hr rid Hrid) as [Ho _].
  set (c := {| ov := Some (tsumv zeroT addT (outcomes_rec zeroT hp rid)); osrc := rout (get_r hp rid); oown := None |}).
  assert (Fresh : (hp1, (x, orph)) = (push_o hp c, (length (houts hp), [length (houts hp)])) ->
                  summed zeroT addT (rollv_of hp rid) = tsumv zeroT addT (live (rollv_of hp rid)) ->
    heap_ok hp1 /\ extends hp hp1 /\ length (hrolls hp1) = length (hrolls hp) /\ x < length (houts hp1) /\
    Forall (fun i => i < length (houts hp1)) orph /\
    val_of zeroT hp1 x = summed zeroT addT (rollv_of hp rid) /\
    (complete1 hp rid -> forall j, reach hp1 x j -> owned hp1 j \/ In j orph) /\
    (forall o, In o (roll_live hp rid) -> reach hp1 x o)).
  { intros E1 Es. inversion E1; subst hp1 x orph. clear E1.
    assert (Hok1 : heap_ok (push_o hp c)) by (apply push_o_ok; [exact Hok|exact Ho|intros r Hr0; discriminate]).
    pose proof (push_o_ext hp c) as Hex.
    split; [exact Hok1|]. split; [exact Hex|]. split; [reflexivity|]. rewrite len_o_push_o.
    split; [lia|]. split; [constructor; [lia|constructor]|]. split.
    - unfold val_of. rewrite get_o_push_new. cbn [ov c]. rewrite Es. unfold outcomes_rec, roll_live, rollv_of.
      rewrite vals_live_ids. reflexivity.
    - split.
      + intros Hc j Hreach. destruct (reach_inv _ _ _ Hreach) as [<-|(k&Hk&Hkj)]; [right; left; reflexivity|].
        rewrite get_o_push_new in Hk. cbn [osrc c] in Hk. left.
        rewrite Forall_forall in Ho. pose proof (Ho _ Hk) as Hklt.
        pose proof (reach_ext_inv hp _ k j Hok Hex Hklt Hkj) as Hr0.
        pose proof (reach_le hp k j Hok Hr0 Hklt) as Hle.
        apply (owned_ext hp _ j Hex ltac:(lia)). apply (Hc k j Hk Hr0).
      + intros o Hlive. apply reach_one. rewrite get_o_push_new. cbn [osrc c]. apply roll_live_in. exact Hlive. }
  unfold sum_f in E. fold c in E. unfold roll_live, rollv_of in Fresh |- *.
  destruct (rout (get_r hp rid)) as [|i [|j t]] eqn:Eo.
  - apply Fresh; [symmetry; exact E|reflexivity].
  - destruct (ov (get_o hp i)) as [v|] eqn:Ev.
    + inversion E; subst hp1 x orph. clear E Fresh.
      split; [exact Hok|]. split; [apply extends_refl|]. split; [reflexivity|].
      inversion Ho; subst. split; [assumption|]. split; [constructor|]. split.
      * unfold val_of, ovs. cbn [map summed]. rewrite Ev. reflexivity.
      * split.
        -- intros Hc j Hreach. left. apply (Hc i j); [rewrite Eo; left; reflexivity|exact Hreach].
        -- intros o Hlive. apply live_ids_in in Hlive. destruct Hlive as [<-|[]]. apply reach_refl.
    + apply Fresh; [symmetry; exact E|]. unfold ovs. cbn [map]. rewrite Ev. reflexivity.
  - apply Fresh; [symmetry; exact E|]. unfold ovs. cbn [map summed].
    destruct (ov (get_o hp i)); reflexivity.
Qed.

(* the summands gathered so far: outcomes xs (one per source roll in ras), implicit sums orph;
   c is the condition under which completeness is claimed *)
Definition ninv (c : Prop) (hp : heap) (xs orph ras : list nat) : Prop :=
  Forall (fun i => i < length (houts hp)) xs /\ Forall (fun i => i < length (houts hp)) orph /\
  Forall (fun s => s < length (hrolls hp)) ras /\
  (c -> (forall x j, In x xs -> reach hp x j -> owned hp j \/ In j orph) /\
        (forall s o, In s ras -> In o (roll_live hp s) -> exists x, In x xs /\ reach hp x o)).

Lemma Forall_lt_mono (l : list nat) a b : a <= b -> Forall (fun i => i < a) l -> Forall (fun i => i < b) l.
Proof. intros H F. eapply Forall_impl; [|exact F]. cbv beta. intros; lia. Qed.

Lemma sum_step (c : Prop) (hp : heap) xs orph ras rid hp1 x o1 :
  heap_ok hp -> ninv c hp xs orph ras -> rid < length (hrolls hp) -> (c -> complete1 hp rid) ->
  sum_f hp rid = (hp1, (x, o1)) ->
  heap_ok hp1 /\ extends hp hp1 /\ length (hrolls hp1) = length (hrolls hp) /\
  val_of zeroT hp1 x = summed zeroT addT (rollv_of hp rid) /\
  ninv c hp1 (xs ++ [x]) (orph ++ o1) (ras ++ [rid]).
Proof.
  intros Hok (N1&N2&N3&N4) Hrid Hc1 E.
  destruct (sum_f_spec hp rid hp1 x o1 Hok Hrid E) as (A&B&C&D&F&V&G1&G2).
  pose proof B as (Lo&_&_&_).
  split; [exact A|]. split; [exact B|]. split; [exact C|]. split; [exact V|].
  split; [apply Forall_app; split; [apply (Forall_lt_mono _ _ _ Lo N1)|constructor; [exact D|constructor]]|].
  split; [apply Forall_app; split; [apply (Forall_lt_mono _ _ _ Lo N2)|exact F]|].
  split; [rewrite C; apply Forall_app; split; [exact N3|constructor; [exact Hrid|constructor]]|].
  intros Hc. destruct (N4 Hc) as [K1 K2]. rewrite Forall_forall in N1, N3. split.
  - intros x0 j Hin Hreach. apply in_app_or in Hin. destruct Hin as [Hin|[<-|[]]].
    + destruct (closure_ext hp hp1 x0 orph Hok B (N1 _ Hin) (fun j => K1 x0 j Hin) j Hreach) as [H|H];
        [left; exact H|right; apply in_or_app; left; exact H].
    + destruct (G1 (Hc1 Hc) j Hreach) as [H|H]; [left; exact H|right; apply in_or_app; right; exact H].
  - intros s o Hin Hlive. apply in_app_or in Hin. destruct Hin as [Hin|[<-|[]]].
    + rewrite (roll_live_ext hp hp1 s Hok B (N3 _ Hin)) in Hlive.
      destruct (K2 s o Hin Hlive) as (x0&Hx0&Hr). exists x0. split; [apply in_or_app; left; exact Hx0|].
      apply (reach_ext hp hp1 x0 o Hok B (N1 _ Hx0) Hr).
    + rewrite (roll_live_ext hp hp1 rid Hok B Hrid) in Hlive. exists x.
      split; [apply in_or_app; right; left; reflexivity|apply G2; exact Hlive].
Qed.

Lemma ninv_nil c (hp : heap) : ninv c hp [] [] [].
Proof. unfold ninv. split; [constructor|]. split; [constructor|]. split; [constructor|]. intros _. split; [intros x j []|intros s o []]. Qed.

Lemma nary_final (c : Prop) (hp : heap) p v xs orph ras :
  heap_ok hp -> ninv c hp xs orph ras ->
  heap_ok (new_roll_g (push_o hp {| ov := Some v; osrc := xs; oown := None |}) p [length (houts hp)] ([length (houts hp)] ++ orph) ras) /\
  extends hp (new_roll_g (push_o hp {| ov := Some v; osrc := xs; oown := None |}) p [length (houts hp)] ([length (houts hp)] ++ orph) ras) /\
  length (hrolls (new_roll_g (push_o hp {| ov := Some v; osrc := xs; oown := None |}) p [length (houts hp)] ([length (houts hp)] ++ orph) ras)) = S (length (hrolls hp)) /\
  get_r (new_roll_g (push_o hp {| ov := Some v; osrc := xs; oown := None |}) p [length (houts hp)] ([length (houts hp)] ++ orph) ras) (length (hrolls hp)) = {| rpath := p; rout := [length (houts hp)]; rsrc := ras |} /\
  rollv_of (new_roll_g (push_o hp {| ov := Some v; osrc := xs; oown := None |}) p [length (houts hp)] ([length (houts hp)] ++ orph) ras) (length (hrolls hp)) = [Some v] /\
  (c -> QInv hp ->
   complete (new_roll_g (push_o hp {| ov := Some v; osrc := xs; oown := None |}) p [length (houts hp)] ([length (houts hp)] ++ orph) ras) (length (hrolls hp)) /\
   QInv (new_roll_g (push_o hp {| ov := Some v; osrc := xs; oown := None |}) p [length (houts hp)] ([length (houts hp)] ++ orph) ras)).
Proof.
  intros Hok (N1&N2&N3&N4).
  set (cell := {| ov := Some v; osrc := xs; oown := None |}). set (res := length (houts hp)).
  set (hpC := push_o hp cell).
  assert (HokC : heap_ok hpC) by (apply push_o_ok; [exact Hok|exact N1|intros r Hr; discriminate]).
  pose proof (push_o_ext hp cell) as HexC. fold hpC in HexC.
  assert (Hres : Forall (fun i => i < length (houts hpC)) [res]).
  { constructor; [|constructor]. unfold hpC. rewrite len_o_push_o. unfold res. lia. }
  assert (Hras : Forall (fun s => s < length (hrolls hpC)) ras) by exact N3.
  destruct (new_roll_g_ok hpC p [res] ([res] ++ orph) ras HokC Hres Hras) as (A&B&C&D&F).
  change (length (hrolls hpC)) with (length (hrolls hp)) in *.
  split; [exact A|]. split; [eapply extends_trans; eassumption|]. split; [exact C|]. split; [exact F|]. split.
  - unfold rollv_of. rewrite F. cbn [rout]. rewrite (ovs_ext hpC _ [res] B Hres). unfold ovs. cbn [map].
    unfold hpC, res. rewrite get_o_push_new. reflexivity.
  - intros Hc HQ. destruct (N4 Hc) as [K1 K2]. rewrite Forall_forall in N1, N3.
    assert (Hcomp : complete (new_roll_g hpC p [res] ([res] ++ orph) ras) (length (hrolls hp))).
    { apply (new_roll_g_complete hpC p [res] ([res] ++ orph) ras HokC Hres Hras).
      - intros i j [<-|[]] Hreach. destruct (reach_inv _ _ _ Hreach) as [<-|(k&Hk&Hkj)]; [right; left; reflexivity|].
        unfold hpC, res in Hk. rewrite get_o_push_new in Hk. cbn [osrc cell] in Hk.
        destruct (closure_ext hp hpC k orph Hok HexC (N1 _ Hk) (fun j => K1 k j Hk) j Hkj) as [H|H];
          [left; exact H|right; right; exact H].
      - intros s Hs o Hlive. rewrite (roll_live_ext hp hpC s Hok HexC (N3 _ Hs)) in Hlive.
        destruct (K2 s o Hs Hlive) as (x&Hx&Hr). exists res. split; [left; reflexivity|].
        eapply reach_step; [|apply (reach_ext hp hpC x o Hok HexC (N1 _ Hx) Hr)].
        unfold hpC, res. rewrite get_o_push_new. exact Hx. }
    split; [exact Hcomp|].
    apply (QInv_one hpC _ HokC B C); [apply Q_complete; exact Hcomp|].
    apply (QInv_same hp hpC Hok HexC eq_refl HQ).
Qed.

Lemma pure_of_eq {A} (t : tree A) y : t = Ret y -> pure_t t.
Proof. intros ->. exact I. Qed.

Definition bin_f (op : T -> T -> T) (p : path) (ra rb : nat) (hp : heap) : heap * nat :=
  let '(hp1, (x, oa)) := sum_f hp ra in
  let '(hp2, (y, ob)) := sum_f hp1 rb in
  (new_roll_g (push_o hp2 {| ov := Some (op (val_of zeroT hp2 x) (val_of zeroT hp2 y)); osrc := [x; y]; oown := None |})
              p [length (houts hp2)] ([length (houts hp2)] ++ (oa ++ ob)) [ra; rb], length (hrolls hp2)).
Lemma bin_tail_eq op p ra rb (hp : heap) :
  mbind (sum_outcome zeroT addT ra) (fun sa => mbind (sum_outcome zeroT addT rb) (fun sb => fun hp =>
        let x := fst sa in let y := fst sb in
        let '(hp1, res) := new_o hp (Some (op (val_of zeroT hp x) (val_of zeroT hp y))) [x; y] None in
        let '(hp2, rid) := new_roll hp1 p [res] [ra; rb] in
        Ret (adopt_orphans hp2 (snd sa ++ snd sb) rid, rid))) hp = Ret (bin_f op p ra rb hp).
Proof.
  unfold mbind, bin_f. rewrite sum_outcome_eq. cbn [bind]. destruct (sum_f hp ra) as [hp1 [x oa]]. cbn [fst snd].
  rewrite sum_outcome_eq. cbn [bind]. destruct (sum_f hp1 rb) as [hp2 [y ob]]. cbn [fst snd].
  rewrite new_o_eq. cbv beta iota zeta. rewrite new_roll_eq. cbv beta iota zeta. rewrite adopt_new_roll. reflexivity.
Qed.

Lemma good_bin op a b : good a -> good b -> good (RBinOp op a b).
Proof.
  intros Hga Hgb [Hla Hlb] p hp script asks hp' rid Hok H. cbn [roll_m] in H.
  apply run_mbind in H. destruct H as (s1&s2&a1&a2&hp1&ra&->&E1&L1&E2&->).
  apply run_mbind_tail in E2; [|intros rb hp2; eapply pure_of_eq; apply bin_tail_eq].
  destruct E2 as (hp2&rb&E2&E3).
  assert (E4 : bin_f op p ra rb hp2 = (hp', rid)).
  { apply Ret_inj. rewrite <- E3. symmetry. apply bin_tail_eq. }
  clear E3. unfold bin_f in E4.
  destruct (Hga Hla (p ++ [0]) hp s1 a1 hp1 ra Hok E1) as (A1&B1&C1&D1&V1&_&I1).
  destruct (Hgb Hlb (p ++ [1]) hp1 s2 a2 hp2 rb A1 E2) as (A2&B2&C2&D2&V2&_&I2).
  destruct (sum_f hp2 ra) as [hp3 [x oa]] eqn:S1. destruct (sum_f hp3 rb) as [hp4 [y ob]] eqn:S2.
  apply pair_equal_spec in E4. destruct E4 as [E5 E6].
  pose proof B2 as (_&Lr2&_&Hr2).
  assert (Hra2 : ra < length (hrolls hp2)) by lia.
  assert (Hca : QInv hp -> complete1 hp2 ra).
  { intros HQ. destruct (I1 HQ) as [Hc _]. apply complete_c1. apply (complete_ext hp1 hp2 ra A1 B2 ltac:(lia) Hc). }
  destruct (sum_step (QInv hp) hp2 [] [] [] ra hp3 x oa A2 (ninv_nil _ hp2) Hra2 Hca S1) as (A3&B3&C3&V3&N3).
  assert (Hrb3 : rb < length (hrolls hp3)) by lia.
  assert (Hcb : QInv hp -> complete1 hp3 rb).
  { intros HQ. destruct (I1 HQ) as [_ HQ1]. destruct (I2 HQ1) as [Hc _]. apply complete_c1.
    apply (complete_ext hp2 hp3 rb A2 B3 ltac:(lia) Hc). }
  destruct (sum_step (QInv hp) hp3 _ _ _ rb hp4 y ob A3 N3 Hrb3 Hcb S2) as (A4&B4&C4&V4&N4).
  cbn [app] in N4.
  pose proof (nary_final (QInv hp) hp4 p (op (val_of zeroT hp4 x) (val_of zeroT hp4 y)) [x; y] (oa ++ ob) [ra; rb] A4 N4) as NF.
  rewrite E5, E6 in NF. destruct NF as (A5&B5&C5&F5&V5&I5).
  assert (B25 : extends hp2 hp') by (eapply extends_trans; [exact B3|eapply extends_trans; eassumption]).
  assert (B15 : extends hp1 hp') by (eapply extends_trans; eassumption).
  split; [exact A5|]. split; [eapply extends_trans; eassumption|]. split; [lia|].
  split; [rewrite F5; reflexivity|]. split.
  - cbn [roll_v]. eapply run_bind_ok; [exact V1|exact L1|]. eapply run_bind_pure; [exact V2|].
    rewrite V5. destruct N3 as (Nx&_). inversion Nx; subst.
    rewrite (val_of_ext hp3 hp4 x B4) by assumption. rewrite V3, V4.
    rewrite (rollv_of_ext hp1 hp2 ra A1 B2 ltac:(lia)). rewrite (rollv_of_ext hp2 hp3 rb A2 B3 ltac:(lia)). reflexivity.
  - split.
    + unfold src_paths. rewrite F5. cbn [rsrc map]. pose proof B15 as (_&_&_&G1). pose proof B25 as (_&_&_&G2).
      rewrite (G1 ra ltac:(lia)), (G2 rb ltac:(lia)), D1, D2. reflexivity.
    + intros HQ. destruct (I1 HQ) as [_ HQ1]. destruct (I2 HQ1) as [_ HQ2]. apply (I5 HQ).
      apply (QInv_same hp3 hp4 A3 B4 C4). apply (QInv_same hp2 hp3 A2 B3 C3). exact HQ2.
Qed.

Definition un_f (op : T -> T) (p : path) (ra : nat) (hp : heap) : heap * nat :=
  let '(hp1, (x, oa)) := sum_f hp ra in
  (new_roll_g (push_o hp1 {| ov := Some (op (val_of zeroT hp1 x)); osrc := [x]; oown := None |})
              p [length (houts hp1)] ([length (houts hp1)] ++ oa) [ra], length (hrolls hp1)).
Lemma un_tail_eq op p ra (hp : heap) :
  mbind (sum_outcome zeroT addT ra) (fun sa => fun hp =>
        let x := fst sa in
        let '(hp1, res) := new_o hp (Some (op (val_of zeroT hp x))) [x] None in
        let '(hp2, rid) := new_roll hp1 p [res] [ra] in
        Ret (adopt_orphans hp2 (snd sa) rid, rid)) hp = Ret (un_f op p ra hp).
Proof.
  unfold mbind, un_f. rewrite sum_outcome_eq. cbn [bind]. destruct (sum_f hp ra) as [hp1 [x oa]]. cbn [fst snd].
  rewrite new_o_eq. cbv beta iota zeta. rewrite new_roll_eq. cbv beta iota zeta. rewrite adopt_new_roll. reflexivity.
Qed.

Lemma good_un op a : good a -> good (RUnOp op a).
Proof.
  intros Hga Hla p hp script asks hp' rid Hok H. cbn [legal] in Hla. cbn [roll_m] in H.
  apply run_mbind_tail in H; [|intros rb hp2; eapply pure_of_eq; apply un_tail_eq].
  destruct H as (hp1&ra&E1&E3).
  assert (E4 : un_f op p ra hp1 = (hp', rid)).
  { apply Ret_inj. rewrite <- E3. symmetry. apply un_tail_eq. }
  clear E3. unfold un_f in E4.
  destruct (Hga Hla (p ++ [0]) hp script asks hp1 ra Hok E1) as (A1&B1&C1&D1&V1&_&I1).
  destruct (sum_f hp1 ra) as [hp3 [x oa]] eqn:S1.
  apply pair_equal_spec in E4. destruct E4 as [E5 E6].
  assert (Hca : QInv hp -> complete1 hp1 ra).
  { intros HQ. destruct (I1 HQ) as [Hc _]. apply complete_c1. exact Hc. }
  destruct (sum_step (QInv hp) hp1 [] [] [] ra hp3 x oa A1 (ninv_nil _ hp1) ltac:(lia) Hca S1) as (A3&B3&C3&V3&N3).
  cbn [app] in N3.
  pose proof (nary_final (QInv hp) hp3 p (op (val_of zeroT hp3 x)) [x] oa [ra] A3 N3) as NF.
  rewrite E5, E6 in NF. destruct NF as (A5&B5&C5&F5&V5&I5).
  assert (B15 : extends hp1 hp') by (eapply extends_trans; eassumption).
  split; [exact A5|]. split; [eapply extends_trans; eassumption|]. split; [lia|].
  split; [rewrite F5; reflexivity|]. split.
  - cbn [roll_v]. eapply run_bind_pure; [exact V1|]. rewrite V5, V3. reflexivity.
  - split.
    + unfold src_paths. rewrite F5. cbn [rsrc map]. pose proof B15 as (_&_&_&G1).
      rewrite (G1 ra ltac:(lia)), D1. reflexivity.
    + intros HQ. destruct (I1 HQ) as [_ HQ1]. apply (I5 HQ).
      apply (QInv_same hp1 hp3 A1 B3 C3). exact HQ1.
Qed.

(* ---- tombstones: SelectionRoller / FilterRoller ---- *)
Definition is_tomb (h h' : heap) (x i : nat) : Prop :=
  length (houts h) <= x < length (houts h') /\ ov (get_o h' x) = None /\ osrc (get_o h' x) = [i].
Lemma is_tomb_ext (h h' h'' : heap) x i : extends h' h'' -> is_tomb h h' x i -> is_tomb h h'' x i.
Proof.
  intros (L&_&H&_) (A&B&C). destruct (H x ltac:(lia)) as (E1&E2&_). split; [lia|]. split; congruence.
Qed.
Lemma is_tomb_lower (h0 h h' : heap) x i : length (houts h0) <= length (houts h) -> is_tomb h h' x i -> is_tomb h0 h' x i.
Proof. intros L (A&B&C). split; [lia|]. auto. Qed.
Lemma euthanize_eq (h : heap) i : euthanize h i = (push_o h {| ov := None; osrc := [i]; oown := None |}, length (houts h)).
Proof. reflexivity. Qed.
Lemma euthanize_spec (h : heap) i : heap_ok h -> i < length (houts h) ->
  heap_ok (push_o h {| ov := None; osrc := [i]; oown := None |}) /\
  extends h (push_o h {| ov := None; osrc := [i]; oown := None |}) /\
  is_tomb h (push_o h {| ov := None; osrc := [i]; oown := None |}) (length (houts h)) i.
Proof.
  intros Hok Hi. split; [apply push_o_ok; [exact Hok|constructor; [exact Hi|constructor]|intros r Hr; discriminate]|].
  split; [apply push_o_ext|]. split; [rewrite len_o_push_o; lia|]. rewrite get_o_push_new. auto.
Qed.

(* outs are kept outcomes of ids or tombstones of them *)
Definition kept_or_tomb (h h' : heap) (x i : nat) : Prop := x = i \/ is_tomb h h' x i.
Lemma kot_closure (h h' : heap) news ids : Forall2 (kept_or_tomb h h') news ids ->
  (forall x j, In x news -> reach h' x j -> In j news \/ exists i, In i ids /\ reach h' i j) /\
  (forall i, In i ids -> exists x, In x news /\ reach h' x i).
Proof.
  induction 1 as [|x i news ids Hxi F [IH1 IH2]].
  - split; [intros x j []|intros i []].
  - split.
    + intros x0 j [<-|Hin] Hreach.
      * destruct Hxi as [->|(_&_&Es)]; [right; exists i; split; [left; reflexivity|exact Hreach]|].
        destruct (reach_inv _ _ _ Hreach) as [<-|(k&Hk&Hkj)]; [left; left; reflexivity|].
        rewrite Es in Hk. destruct Hk as [<-|[]]. right. exists i. split; [left; reflexivity|exact Hkj].
      * destruct (IH1 x0 j Hin Hreach) as [H|(i0&Hi0&Hr)]; [left; right; exact H|right; exists i0; split; [right; exact Hi0|exact Hr]].
    + intros i0 [<-|Hin].
      * exists x. split; [left; reflexivity|]. destruct Hxi as [->|(_&_&Es)]; [apply reach_refl|].
        apply reach_one. rewrite Es. left; reflexivity.
      * destruct (IH2 i0 Hin) as (x0&Hx0&Hr). exists x0. split; [right; exact Hx0|exact Hr].
Qed.

Definition fstep (pred : T -> bool) (acc : heap * list nat) (i : nat) : heap * list nat :=
  let '(h0, os) := acc in
  if pred (val_of zeroT h0 i) then (h0, os ++ [i]) else let '(h1, t) := euthanize h0 i in (h1, os ++ [t]).

Lemma filter_fold_spec pred ids : forall (h : heap) os h' os', heap_ok h -> Forall (fun i => i < length (houts h)) ids ->
  fold_left (fstep pred) ids (h, os) = (h', os') ->
  heap_ok h' /\ extends h h' /\ length (hrolls h') = length (hrolls h) /\
  exists news, os' = os ++ news /\ Forall (fun x => x < length (houts h')) news /\
    Forall2 (fun x i => (pred (val_of zeroT h i) = true /\ x = i) \/ (pred (val_of zeroT h i) = false /\ is_tomb h h' x i)) news ids.
Proof.
  induction ids as [|i rest IH]; intros h os h' os' Hok Hr E; cbn [fold_left] in E.
  - inversion E; subst. split; [exact Hok|]. split; [apply extends_refl|]. split; [reflexivity|].
    exists []. rewrite app_nil_r. split; [reflexivity|]. split; constructor.
  - inversion Hr as [|? ? Hi Hr']; subst. unfold fstep at 2 in E.
    destruct (pred (val_of zeroT h i)) eqn:Ep.
    + destruct (IH h (os ++ [i]) h' os' Hok Hr' E) as (A&B&C&news&E1&F1&F2).
      split; [exact A|]. split; [exact B|]. split; [exact C|]. exists (i :: news).
      split; [rewrite E1, <- app_assoc; reflexivity|]. pose proof B as (L&_).
      split; [constructor; [lia|exact F1]|]. constructor; [left; auto|exact F2].
    + rewrite euthanize_eq in E. set (c := {| ov := None; osrc := [i]; oown := None |}) in *.
      destruct (euthanize_spec h i Hok Hi) as (A1&B1&T1). fold c in A1, B1, T1.
      pose proof B1 as (L1&_).
      destruct (IH (push_o h c) (os ++ [length (houts h)]) h' os' A1 (Forall_lt_mono _ _ _ L1 Hr') E) as (A&B&C&news&E1&F1&F2).
      split; [exact A|]. split; [eapply extends_trans; eassumption|]. split; [rewrite C; reflexivity|].
      exists (length (houts h) :: news). split; [rewrite E1, <- app_assoc; reflexivity|].
      pose proof B as (L&_). rewrite len_o_push_o in L.
      split; [constructor; [lia|exact F1]|]. constructor.
      * right. split; [exact Ep|]. apply (is_tomb_ext h (push_o h c) h' _ i B T1).
      * rewrite Forall_forall in Hr'. eapply Forall2_impl_in; [|exact F2]. cbv beta. intros x i0 _ Hi0 [[P1 P2]|[P1 P2]].
        -- left. split; [|exact P2]. rewrite <- (val_of_ext h (push_o h c) i0 B1 (Hr' _ Hi0)). exact P1.
        -- right. split; [rewrite <- (val_of_ext h (push_o h c) i0 B1 (Hr' _ Hi0)); exact P1|].
           apply (is_tomb_lower h (push_o h c) h' x i0 L1 P2).
Qed.

(* a roll over source rolls rids whose outcomes are kept outcomes / tombstones of the sources' live outcomes *)
Lemma select_final (hp hp1 : heap) p outs rids hp' rid :
  heap_ok hp -> Forall (fun s => s < length (hrolls hp)) rids ->
  heap_ok hp1 -> extends hp hp1 -> length (hrolls hp1) = length (hrolls hp) ->
  Forall (fun x => x < length (houts hp1)) outs ->
  (forall x j, In x outs -> reach hp1 x j -> In j outs \/ exists i, In i (flat_map (roll_live hp) rids) /\ reach hp1 i j) ->
  (forall i, In i (flat_map (roll_live hp) rids) -> exists x, In x outs /\ reach hp1 x i) ->
  new_roll hp1 p outs rids = (hp', rid) ->
  heap_ok hp' /\ extends hp hp' /\ rid = length (hrolls hp) /\ length (hrolls hp') = S (length (hrolls hp)) /\
  get_r hp' rid = {| rpath := p; rout := outs; rsrc := rids |} /\
  rollv_of hp' rid = ovs hp1 outs /\
  (QInv hp -> complete hp' rid /\ QInv hp').
Proof.
  intros Hok Hr Hok1 Hex Hl Ho K1 K2 E.
  assert (Hr1 : Forall (fun s => s < length (hrolls hp1)) rids) by (rewrite Hl; exact Hr).
  destruct (new_roll_post hp1 p outs rids hp' rid Hok1 Ho Hr1 E) as (A&B&C&D&L&F&G).
  split; [exact A|]. split; [eapply extends_trans; eassumption|]. split; [lia|]. split; [lia|]. split; [exact F|]. split.
  - unfold rollv_of. rewrite F. cbn [rout]. apply (ovs_ext hp1 hp' _ B Ho).
  - intros HQ. rewrite Forall_forall in Hr. apply G; [apply (QInv_same hp hp1 Hok Hex Hl HQ)| |].
    + intros x j Hx Hreach. destruct (K1 x j Hx Hreach) as [H|(i&Hi&Hij)]; [right; exact H|left].
      apply in_flat_map in Hi. destruct Hi as (s&Hs&Hi).
      rewrite <- (roll_live_ext hp hp1 s Hok Hex (Hr _ Hs)) in Hi.
      apply (live_deep_owned hp1 s i j); [|exact Hi|exact Hij].
      apply (complete1_ext hp hp1 s Hok Hex (Hr _ Hs)). apply Q_c1, HQ, Hr, Hs.
    + intros s Hs o Hlive. rewrite (roll_live_ext hp hp1 s Hok Hex (Hr _ Hs)) in Hlive.
      apply K2. apply in_flat_map. exists s. auto.
Qed.

Lemma filter_vals pred (h h' : heap) news ids : extends h h' ->
  Forall2 (fun x i => (pred (val_of zeroT h i) = true /\ x = i) \/ (pred (val_of zeroT h i) = false /\ is_tomb h h' x i)) news ids ->
  (forall i, In i ids -> i < length (houts h) /\ ov (get_o h i) = Some (val_of zeroT h i)) ->
  ovs h' news = map (fun v => if pred v then Some v else None) (map (val_of zeroT h) ids).
Proof.
  intros Hex F. induction F as [|x i news ids Hxi F IH]; intros Hl; [reflexivity|].
  unfold ovs in *. cbn [map]. rewrite IH by (intros i0 Hi0; apply Hl; right; exact Hi0). f_equal.
  destruct (Hl i (or_introl eq_refl)) as [Hi Hv]. destruct Hxi as [[P ->]|[P (_&Ev&_)]]; rewrite P.
  - destruct Hex as (_&_&H&_). destruct (H i Hi) as (E&_). rewrite E. exact Hv.
  - exact Ev.
Qed.

Lemma flat_live_all_live (hp : heap) rids i : In i (flat_map (roll_live hp) rids) -> ov (get_o hp i) = Some (val_of zeroT hp i).
Proof. intros H. apply in_flat_map in H. destruct H as (s&_&H). apply (live_ids_all_live hp _ i H). Qed.

Lemma good_filter pred l : Forall good l -> good (RFilter pred l).
Proof.
  intros Hg Hl p hp script asks hp' rid Hok H. cbn [legal] in Hl. apply legal_all in Hl.
  cbn [roll_m] in H. rewrite go_mseq in H.
  apply run_mbind_tail in H;
    [|intros x hp1; match goal with |- pure_t (let '(_, _) := ?e in _) => destruct e end; exact I].
  destruct H as (hp1&rids&E1&E2).
  match type of E2 with (let '(_, _) := ?e in _) = _ => destruct e as [hp2 outs] eqn:EF end.
  change (fold_left (fstep pred) (flat_map (roll_live hp1) rids) (hp1, []) = (hp2, outs)) in EF.
  apply Ret_inj in E2.
  destruct (sources_post p l Hg Hl hp script asks hp1 rids Hok E1) as (A&B&C&D&V&J).
  pose proof (flat_live_lt hp1 rids A C) as Hall.
  destruct (filter_fold_spec pred _ hp1 [] hp2 outs A Hall EF) as (A2&B2&C2&news&EN&F1&F2).
  cbn [app] in EN. subst news.
  assert (F3 : Forall2 (kept_or_tomb hp1 hp2) outs (flat_map (roll_live hp1) rids)).
  { eapply Forall2_impl_in; [|exact F2]. cbv beta. intros x i _ _ [[_ ->]|[_ Ht]]; [left; reflexivity|right; exact Ht]. }
  destruct (kot_closure hp1 hp2 _ _ F3) as [K1 K2].
  destruct (select_final hp1 hp2 p outs rids hp' rid A C A2 B2 C2 F1 K1 K2 E2) as (A'&B'&C'&D'&F'&V'&J').
  pose proof B as (_&Lr&_&_).
  split; [exact A'|]. split; [eapply extends_trans; eassumption|]. split; [lia|].
  split; [rewrite F'; reflexivity|]. split.
  - cbn [roll_v]. eapply run_bind_pure; [exact V|]. rewrite V'.
    rewrite (filter_vals pred hp1 hp2 outs _ B2 F2).
    + rewrite vals_flat_live. reflexivity.
    + intros i Hi. rewrite Forall_forall in Hall. split; [apply Hall; exact Hi|apply (flat_live_all_live hp1 rids i Hi)].
  - split.
    + unfold src_paths. rewrite F'. cbn [rsrc]. rewrite (map_rpath_ext hp1 hp' rids B' C). exact D.
    + intros HQ. destruct (J HQ) as [HQ1 _]. apply J'. exact HQ1.
Qed.

(* ---- FilterRoller with a provenance-aware predicate: the ids come tagged with the source position ---- *)
Definition fbstep (pred : nat -> T -> bool) (acc : heap * list nat) (ki : nat * nat) : heap * list nat :=
  let '(h0, os) := acc in
  if pred (fst ki) (val_of zeroT h0 (snd ki)) then (h0, os ++ [snd ki])
  else let '(h1, t) := euthanize h0 (snd ki) in (h1, os ++ [t]).

Lemma filterby_fold_spec pred kids : forall (h : heap) os h' os', heap_ok h ->
  Forall (fun ki => snd ki < length (houts h)) kids ->
  fold_left (fbstep pred) kids (h, os) = (h', os') ->
  heap_ok h' /\ extends h h' /\ length (hrolls h') = length (hrolls h) /\
  exists news, os' = os ++ news /\ Forall (fun x => x < length (houts h')) news /\
    Forall2 (fun x ki => (pred (fst ki) (val_of zeroT h (snd ki)) = true /\ x = snd ki) \/
                         (pred (fst ki) (val_of zeroT h (snd ki)) = false /\ is_tomb h h' x (snd ki))) news kids.
Proof.
  induction kids as [|[k i] rest IH]; intros h os h' os' Hok Hr E; cbn [fold_left] in E.
  - inversion E; subst. split; [exact Hok|]. split; [apply extends_refl|]. split; [reflexivity|].
    exists []. rewrite app_nil_r. split; [reflexivity|]. split; constructor.
  - inversion Hr as [|? ? Hi Hr']; subst. cbn [snd] in Hi. unfold fbstep at 2 in E. cbn [fst snd] in E.
    destruct (pred k (val_of zeroT h i)) eqn:Ep.
    + destruct (IH h (os ++ [i]) h' os' Hok Hr' E) as (A&B&C&news&E1&F1&F2).
      split; [exact A|]. split; [exact B|]. split; [exact C|]. exists (i :: news).
      split; [rewrite E1, <- app_assoc; reflexivity|]. pose proof B as (L&_).
      split; [constructor; [lia|exact F1]|]. constructor; [left; auto|exact F2].
    + rewrite euthanize_eq in E. set (c := {| ov := None; osrc := [i]; oown := None |}) in *.
      destruct (euthanize_spec h i Hok Hi) as (A1&B1&T1). fold c in A1, B1, T1.
      pose proof B1 as (L1&_).
      assert (Hr1 : Forall (fun ki : nat * nat => snd ki < length (houts (push_o h c))) rest).
      { eapply Forall_impl; [|exact Hr']. cbv beta. intros ki Hki. lia. }
      destruct (IH (push_o h c) (os ++ [length (houts h)]) h' os' A1 Hr1 E) as (A&B&C&news&E1&F1&F2).
      split; [exact A|]. split; [eapply extends_trans; eassumption|]. split; [rewrite C; reflexivity|].
      exists (length (houts h) :: news). split; [rewrite E1, <- app_assoc; reflexivity|].
      pose proof B as (L&_). rewrite len_o_push_o in L.
      split; [constructor; [lia|exact F1]|]. constructor.
      * right. cbn [fst snd]. split; [exact Ep|]. apply (is_tomb_ext h (push_o h c) h' _ i B T1).
      * rewrite Forall_forall in Hr'. eapply Forall2_impl_in; [|exact F2]. cbv beta. intros x ki0 _ Hi0 [[P1 P2]|[P1 P2]].
        -- left. split; [|exact P2]. rewrite <- (val_of_ext h (push_o h c) (snd ki0) B1 (Hr' _ Hi0)). exact P1.
        -- right. split; [rewrite <- (val_of_ext h (push_o h c) (snd ki0) B1 (Hr' _ Hi0)); exact P1|].
           apply (is_tomb_lower h (push_o h c) h' x (snd ki0) L1 P2).
Qed.

Lemma Forall2_map_r {A B C} (R : A -> C -> Prop) (g : B -> C) l l' :
  Forall2 (fun a b => R a (g b)) l l' -> Forall2 R l (map g l').
Proof. induction 1 as [|a b l l' Hab F IH]; cbn [map]; constructor; assumption. Qed.

Lemma tagged_from_snd {A B} (f : A -> list B) l : forall k, map snd (tagged_from f k l) = flat_map f l.
Proof.
  induction l as [|x t IH]; intros k; [reflexivity|]. cbn [tagged_from flat_map].
  rewrite map_app, map_map, IH. cbn [snd]. rewrite map_id. reflexivity.
Qed.

(* the tagged live values of the source rolls, as the value-level semantics sees them *)
Lemma vals_tagged_live (hp : heap) rids : forall k,
  map (fun ki => (fst ki, val_of zeroT hp (snd ki))) (tagged_from (roll_live hp) k rids) =
  tagged_from (@live T) k (map (rollv_of hp) rids).
Proof.
  induction rids as [|r t IH]; intros k; [reflexivity|]. cbn [tagged_from map]. rewrite map_app, IH. f_equal.
  rewrite map_map. cbn [fst snd]. unfold roll_live, rollv_of. rewrite <- vals_live_ids, map_map. reflexivity.
Qed.

Lemma filterby_vals (pred : nat -> T -> bool) (h h' : heap) news (kids : list (nat * nat)) : extends h h' ->
  Forall2 (fun x ki => (pred (fst ki) (val_of zeroT h (snd ki)) = true /\ x = snd ki) \/
                       (pred (fst ki) (val_of zeroT h (snd ki)) = false /\ is_tomb h h' x (snd ki))) news kids ->
  (forall ki, In ki kids -> snd ki < length (houts h) /\ ov (get_o h (snd ki)) = Some (val_of zeroT h (snd ki))) ->
  ovs h' news = map (fun kv => if pred (fst kv) (snd kv) then Some (snd kv) else None)
                    (map (fun ki => (fst ki, val_of zeroT h (snd ki))) kids).
Proof.
  intros Hex F. induction F as [|x ki news kids Hxi F IH]; intros Hl; [reflexivity|].
  unfold ovs in *. cbn [map]. rewrite IH by (intros ki0 Hi0; apply Hl; right; exact Hi0). f_equal.
  destruct (Hl ki (or_introl eq_refl)) as [Hi Hv]. cbn [fst snd]. destruct Hxi as [[P ->]|[P (_&Ev&_)]]; rewrite P.
  - destruct Hex as (_&_&H&_). destruct (H (snd ki) Hi) as (E&_). rewrite E. exact Hv.
  - exact Ev.
Qed.

Lemma good_filterby pred l : Forall good l -> good (RFilterBy pred l).
Proof.
  intros Hg Hl p hp script asks hp' rid Hok H. cbn [legal] in Hl. apply legal_all in Hl.
  cbn [roll_m] in H. rewrite go_mseq in H.
  apply run_mbind_tail in H;
    [|intros x hp1; match goal with |- pure_t (let '(_, _) := ?e in _) => destruct e end; exact I].
  destruct H as (hp1&rids&E1&E2).
  match type of E2 with (let '(_, _) := ?e in _) = _ => destruct e as [hp2 outs] eqn:EF end.
  change (fold_left (fbstep pred) (tagged_from (roll_live hp1) 0 rids) (hp1, []) = (hp2, outs)) in EF.
  apply Ret_inj in E2.
  destruct (sources_post p l Hg Hl hp script asks hp1 rids Hok E1) as (A&B&C&D&V&J).
  pose proof (flat_live_lt hp1 rids A C) as Hall.
  assert (Hallk : Forall (fun ki : nat * nat => snd ki < length (houts hp1)) (tagged_from (roll_live hp1) 0 rids)).
  { rewrite <- (tagged_from_snd (roll_live hp1) rids 0) in Hall. rewrite Forall_map in Hall. exact Hall. }
  destruct (filterby_fold_spec pred _ hp1 [] hp2 outs A Hallk EF) as (A2&B2&C2&news&EN&F1&F2).
  cbn [app] in EN. subst news.
  assert (F3 : Forall2 (kept_or_tomb hp1 hp2) outs (flat_map (roll_live hp1) rids)).
  { rewrite <- (tagged_from_snd (roll_live hp1) rids 0). apply Forall2_map_r.
    eapply Forall2_impl_in; [|exact F2]. cbv beta. intros x ki _ _ [[_ ->]|[_ Ht]]; [left; reflexivity|right; exact Ht]. }
  destruct (kot_closure hp1 hp2 _ _ F3) as [K1 K2].
  destruct (select_final hp1 hp2 p outs rids hp' rid A C A2 B2 C2 F1 K1 K2 E2) as (A'&B'&C'&D'&F'&V'&J').
  pose proof B as (_&Lr&_&_).
  split; [exact A'|]. split; [eapply extends_trans; eassumption|]. split; [lia|].
  split; [rewrite F'; reflexivity|]. split.
  - cbn [roll_v]. eapply run_bind_pure; [exact V|]. rewrite V'.
    rewrite (filterby_vals pred hp1 hp2 outs _ B2 F2).
    + rewrite vals_tagged_live. reflexivity.
    + intros ki Hki. rewrite Forall_forall in Hallk. split; [apply Hallk; exact Hki|].
      apply (flat_live_all_live hp1 rids (snd ki)). rewrite <- (tagged_from_snd (roll_live hp1) rids 0).
      apply in_map. exact Hki.
  - split.
    + unfold src_paths. rewrite F'. cbn [rsrc]. rewrite (map_rpath_ext hp1 hp' rids B' C). exact D.
    + intros HQ. destruct (J HQ) as [HQ1 _]. apply J'. exact HQ1.
Qed.

(* ---- SelectionRoller ---- *)
Definition tstep (acc : heap * list nat) (i : nat) : heap * list nat :=
  let '(h0, ts) := acc in let '(h1, t) := euthanize h0 i in (h1, ts ++ [t]).
Lemma fold_left_map_arg {A B C} (F : A -> B -> A) (g : C -> B) l a :
  fold_left (fun acc i => F acc (g i)) l a = fold_left F (map g l) a.
Proof. revert a. induction l as [|x t IH]; intros a; [reflexivity|]. cbn [map fold_left]. apply IH. Qed.

Lemma tomb_fold_spec ids : forall (h : heap) ts h' ts', heap_ok h -> Forall (fun i => i < length (houts h)) ids ->
  fold_left tstep ids (h, ts) = (h', ts') ->
  heap_ok h' /\ extends h h' /\ length (hrolls h') = length (hrolls h) /\
  exists news, ts' = ts ++ news /\ Forall (fun x => x < length (houts h')) news /\ Forall2 (is_tomb h h') news ids.
Proof.
  induction ids as [|i rest IH]; intros h ts h' ts' Hok Hr E; cbn [fold_left] in E.
  - inversion E; subst. split; [exact Hok|]. split; [apply extends_refl|]. split; [reflexivity|].
    exists []. rewrite app_nil_r. split; [reflexivity|]. split; constructor.
  - inversion Hr as [|? ? Hi Hr']; subst. unfold tstep at 2 in E.
    rewrite euthanize_eq in E. set (c := {| ov := None; osrc := [i]; oown := None |}) in *.
    destruct (euthanize_spec h i Hok Hi) as (A1&B1&T1). fold c in A1, B1, T1.
    pose proof B1 as (L1&_).
    destruct (IH (push_o h c) (ts ++ [length (houts h)]) h' ts' A1 (Forall_lt_mono _ _ _ L1 Hr') E) as (A&B&C&news&E1&F1&F2).
    split; [exact A|]. split; [eapply extends_trans; eassumption|]. split; [rewrite C; reflexivity|].
    exists (length (houts h) :: news). split; [rewrite E1, <- app_assoc; reflexivity|].
    pose proof B as (L&_). rewrite len_o_push_o in L.
    split; [constructor; [lia|exact F1]|]. constructor.
    + apply (is_tomb_ext h (push_o h c) h' _ i B T1).
    + eapply Forall2_impl_in; [|exact F2]. cbv beta. intros x i0 _ _ P. apply (is_tomb_lower h (push_o h c) h' x i0 L1 P).
Qed.

Lemma insert_id_perm (hp : heap) i l : Permutation (i :: l) (insert_id O zeroT hp i l).
Proof.
  induction l as [|j t IH]; cbn [insert_id]; [reflexivity|].
  destruct (leb O (val_of zeroT hp i) (val_of zeroT hp j)); [reflexivity|]. rewrite perm_swap. constructor. exact IH.
Qed.
Lemma sort_ids_perm (hp : heap) ids : Permutation ids (sort_ids O zeroT hp ids).
Proof.
  induction ids as [|i t IH]; [reflexivity|]. unfold sort_ids in *. cbn [fold_right].
  rewrite <- insert_id_perm. constructor. exact IH.
Qed.
Lemma insert_id_vals (hp : heap) i l :
  map (val_of zeroT hp) (insert_id O zeroT hp i l) = insert O (val_of zeroT hp i) (map (val_of zeroT hp) l).
Proof.
  induction l as [|j t IH]; cbn [insert_id map insert]; [reflexivity|].
  destruct (leb O (val_of zeroT hp i) (val_of zeroT hp j)); cbn [map]; [reflexivity|]. rewrite IH. reflexivity.
Qed.
Lemma sort_ids_vals (hp : heap) ids :
  map (val_of zeroT hp) (sort_ids O zeroT hp ids) = isort O (map (val_of zeroT hp) ids).
Proof.
  induction ids as [|i t IH]; [reflexivity|]. unfold sort_ids in *. cbn [fold_right map isort].
  rewrite insert_id_vals, IH. reflexivity.
Qed.
Lemma nth_error_map' {A B} (f : A -> B) l i : nth_error (map f l) i = option_map f (nth_error l i).
Proof. revert i. induction l as [|x t IH]; intros [|i]; cbn; auto. Qed.
Lemma getitems_map {A B} (f : A -> B) l idx : map f (getitems l idx) = getitems (map f l) idx.
Proof.
  unfold getitems. induction idx as [|i t IH]; [reflexivity|]. cbn [flat_map]. rewrite map_app, IH. f_equal.
  rewrite nth_error_map'. destruct (nth_error l i); reflexivity.
Qed.
Lemma getitems_in {A} (l : list A) idx x : In x (getitems l idx) -> In x l.
Proof.
  unfold getitems. intros H. apply in_flat_map in H. destruct H as (i&_&H).
  destruct (nth_error l i) eqn:E; [|destruct H]. destruct H as [<-|[]]. apply (nth_error_In _ _ E).
Qed.

Lemma tomb_vals (h h' : heap) news ids : Forall2 (is_tomb h h') news ids -> ovs h' news = map (fun _ => None) ids.
Proof.
  induction 1 as [|x i news ids (_&E&_) F IH]; [reflexivity|]. unfold ovs in *. cbn [map]. rewrite E, IH. reflexivity.
Qed.
Lemma ovs_all_live (hp : heap) ids : (forall i, In i ids -> ov (get_o hp i) = Some (val_of zeroT hp i)) ->
  ovs hp ids = map (@Some T) (map (val_of zeroT hp) ids).
Proof. intros H. unfold ovs. rewrite map_map. apply map_ext_in. exact H. Qed.

Lemma good_select w l : Forall good l -> good (RSelect w l).
Proof.
  intros Hg Hl p hp script asks hp' rid Hok H. cbn [legal] in Hl. apply legal_all in Hl.
  cbn [roll_m] in H. rewrite go_mseq in H.
  apply run_mbind_tail in H;
    [|intros x hp1; cbv zeta; destruct (resolve _ w); [|exact I];
      match goal with |- pure_t (let '(_, _) := ?e in _) => destruct e end; exact I].
  destruct H as (hp1&rids&E1&E2). cbv zeta in E2.
  set (all := flat_map (roll_live hp1) rids) in *. set (sorted := sort_ids O zeroT hp1 all) in *.
  destruct (resolve (length sorted) w) as [idx|e] eqn:ER; [|discriminate].
  set (excluded := filter (fun i => negb (existsb (Nat.eqb i) idx)) (seq 0 (length sorted))) in *.
  match type of E2 with (let '(_, _) := ?e in _) = _ => destruct e as [hp2 tombs] eqn:EF end.
  change (fold_left (fun acc i => tstep acc (nth i sorted 0)) excluded (hp1, []) = (hp2, tombs)) in EF.
  rewrite fold_left_map_arg in EF. set (exl := map (fun i => nth i sorted 0) excluded) in *.
  apply Ret_inj in E2.
  destruct (sources_post p l Hg Hl hp script asks hp1 rids Hok E1) as (A&B&C&D&V&J).
  pose proof (flat_live_lt hp1 rids A C) as Hall. fold all in Hall.
  pose proof (sort_ids_perm hp1 all) as Hperm. fold sorted in Hperm.
  assert (Hsorted_in : forall x, In x sorted -> In x all) by (intros x Hx; apply (Permutation_in _ (Permutation_sym Hperm) Hx)).
  assert (Hexl_in : forall x, In x exl -> In x sorted).
  { intros x Hx. unfold exl in Hx. apply in_map_iff in Hx. destruct Hx as (k&<-&Hk). unfold excluded in Hk.
    apply filter_In in Hk. destruct Hk as [Hk _]. apply in_seq in Hk. apply nth_In. lia. }
  assert (Hexl_lt : Forall (fun i => i < length (houts hp1)) exl).
  { apply Forall_forall. intros x Hx. rewrite Forall_forall in Hall. auto. }
  destruct (tomb_fold_spec exl hp1 [] hp2 tombs A Hexl_lt EF) as (A2&B2&C2&news&EN&F1&F2).
  cbn [app] in EN. subst news.
  pose proof B2 as (Lo2&_).
  assert (Houts : Forall (fun x => x < length (houts hp2)) (getitems sorted idx ++ tombs)).
  { apply Forall_app. split; [|exact F1]. apply Forall_forall. intros x Hx. apply getitems_in in Hx.
    rewrite Forall_forall in Hall. pose proof (Hall x (Hsorted_in _ Hx)). lia. }
  assert (F3 : Forall2 (kept_or_tomb hp1 hp2) tombs exl).
  { eapply Forall2_impl_in; [|exact F2]. intros x i _ _ Ht. right. exact Ht. }
  destruct (kot_closure hp1 hp2 _ _ F3) as [K1 K2].
  assert (K1' : forall x j, In x (getitems sorted idx ++ tombs) -> reach hp2 x j ->
            In j (getitems sorted idx ++ tombs) \/ exists i, In i all /\ reach hp2 i j).
  { intros x j Hx Hreach. apply in_app_or in Hx. destruct Hx as [Hx|Hx].
    - right. exists x. split; [apply Hsorted_in; apply (getitems_in _ _ _ Hx)|exact Hreach].
    - destruct (K1 x j Hx Hreach) as [Hj|(i&Hi&Hij)]; [left; apply in_or_app; right; exact Hj|].
      right. exists i. split; [apply Hsorted_in, Hexl_in, Hi|exact Hij]. }
  assert (K2' : forall i, In i all -> exists x, In x (getitems sorted idx ++ tombs) /\ reach hp2 x i).
  { intros i Hi. apply (Permutation_in _ Hperm) in Hi. destruct (In_nth _ _ 0 Hi) as (k&Hk&Ek).
    destruct (existsb (Nat.eqb k) idx) eqn:Ex.
    - exists i. split; [|apply reach_refl]. apply in_or_app. left. unfold getitems. apply in_flat_map.
      exists k. split; [apply existsb_eqb_In; exact Ex|]. rewrite (nth_error_nth' _ 0 Hk), Ek. left; reflexivity.
    - assert (Hk' : In i exl).
      { unfold exl. apply in_map_iff. exists k. split; [exact Ek|]. unfold excluded. apply filter_In.
        split; [apply in_seq; lia|rewrite Ex; reflexivity]. }
      destruct (K2 i Hk') as (x&Hx&Hr). exists x. split; [apply in_or_app; right; exact Hx|exact Hr]. }
  destruct (select_final hp1 hp2 p _ rids hp' rid A C A2 B2 C2 Houts K1' K2' E2) as (A'&B'&C'&D'&F'&V'&J').
  pose proof B as (_&Lr&_&_).
  split; [exact A'|]. split; [eapply extends_trans; eassumption|]. split; [lia|].
  split; [rewrite F'; reflexivity|]. split.
  - cbn [roll_v]. eapply run_bind_pure; [exact V|]. rewrite V'. unfold select_values.
    rewrite <- vals_flat_live. fold all. rewrite <- sort_ids_vals. fold sorted. rewrite map_length. rewrite ER.
    fold excluded. f_equal. f_equal. rewrite ovs_app. f_equal.
    + assert (Hg1 : Forall (fun i => i < length (houts hp1)) (getitems sorted idx)).
      { apply Forall_forall. intros x Hx. apply getitems_in in Hx. rewrite Forall_forall in Hall. auto. }
      rewrite (ovs_ext hp1 hp2 _ B2 Hg1). rewrite ovs_all_live; [rewrite (getitems_map (val_of zeroT hp1) sorted idx); reflexivity|].
      intros i Hi. apply getitems_in in Hi. apply (flat_live_all_live hp1 rids i). apply Hsorted_in. exact Hi.
    + rewrite (tomb_vals hp1 hp2 tombs exl F2). unfold exl. rewrite map_map. reflexivity.
  - split.
    + unfold src_paths. rewrite F'. cbn [rsrc]. rewrite (map_rpath_ext hp1 hp' rids B' C). exact D.
    + intros HQ. destruct (J HQ) as [HQ1 _]. apply J'. exact HQ1.
Qed.

(* ---- SubstitutionRoller: the nested fixpoints of roll_m / roll_v as top-level definitions ---- *)
Section Subst.
Variable src : M nat.
Variable srcv : tree (@rollv T).
Variable expand : T -> @expansion T.
Variable append : bool.

Definition one_m (er : nat -> M (list nat * list nat)) (i : nat) : M (list nat * list nat) :=
  fun hp =>
    match expand (val_of zeroT hp i) with
    | EKeep => Ret (hp, ([i], []))
    | EOut v' =>
        let '(hp1, fresh) := new_o hp (Some v') [] None in
        let '(hp2, ad) := adopt_o hp1 fresh [i] in Ret (hp2, ([ad], []))
    | EReroll =>
        bind (src hp) (fun r1 =>
          let hp1 := fst r1 in let rid' := snd r1 in
          let '(hp2, head) := if append then (hp1, i) else euthanize hp1 i in
          let '(hp3, ar) := adopt_roll hp2 rid' [i] in
          bind (er ar hp3) (fun r2 =>
            Ret (fst r2, (head :: fst (snd r2), snd (snd r2)))))
    end.
Definition each_m (er : nat -> M (list nat * list nat)) : list nat -> M (list nat * list nat) :=
  fix each (ids : list nat) : M (list nat * list nat) :=
    match ids with
    | [] => mret ([], [])
    | i :: rest => mbind (one_m er i) (fun here => mbind (each rest) (fun more =>
                     mret (fst here ++ fst more, snd here ++ snd more)))
    end.
Fixpoint expand_m (left : nat) (rid : nat) {struct left} : M (list nat * list nat) :=
  match left with
  | 0 => fun hp => Ret (hp, (roll_live hp rid, [rid]))
  | Datatypes.S left' =>
      fun hp => bind (each_m (expand_m left') (roll_live hp rid) hp)
                     (fun r => Ret (fst r, (fst (snd r), rid :: snd (snd r))))
  end.

Definition one_v (er : @rollv T -> tree (@rollv T)) (v : T) : tree (@rollv T) :=
  match expand v with
  | EKeep => Ret [Some v]
  | EOut v' => Ret [Some v']
  | EReroll => bind srcv (fun rv' => bind (er rv') (fun sub => Ret ((if append then Some v else None) :: sub)))
  end.
Definition each_v (er : @rollv T -> tree (@rollv T)) : list T -> tree (@rollv T) :=
  fix each (vals : list T) : tree (@rollv T) :=
    match vals with
    | [] => Ret []
    | v :: rest => bind (one_v er v) (fun here => bind (each rest) (fun more => Ret (here ++ more)))
    end.
Fixpoint expand_v (left : nat) (rv : @rollv T) {struct left} : tree (@rollv T) :=
  match left with
  | 0 => Ret (map (@Some T) (live rv))
  | Datatypes.S left' => each_v (expand_v left') (live rv)
  end.
End Subst.

Lemma roll_m_subst p e a d r :
  roll_m O zeroT addT p (RSubst e a d r) =
  mbind (roll_m O zeroT addT (p ++ [0]) r) (fun rid => mbind (expand_m (roll_m O zeroT addT (p ++ [0]) r) e a d rid)
    (fun res hp => Ret (new_roll hp p (fst res) (snd res)))).
Proof. reflexivity. Qed.
Lemma roll_v_subst e a d r :
  roll_v O zeroT addT (RSubst e a d r) = bind (roll_v O zeroT addT r) (expand_v (roll_v O zeroT addT r) e a d).
Proof. reflexivity. Qed.

Definition closed (hp : heap) (outs : list nat) : Prop :=
  forall x j, In x outs -> reach hp x j -> owned hp j \/ In j outs.
Definition deep_owned (hp : heap) (i : nat) : Prop := forall j, reach hp i j -> owned hp j.

Lemma deep_owned_ext (hp hp' : heap) i : heap_ok hp -> extends hp hp' -> i < length (houts hp) ->
  deep_owned hp i -> deep_owned hp' i.
Proof.
  intros Hok Hex Hi H j Hr. pose proof (reach_ext_inv hp hp' i j Hok Hex Hi Hr) as Hr0.
  pose proof (reach_le hp i j Hok Hr0 Hi) as Hle. apply (owned_ext hp hp' j Hex ltac:(lia)). apply H. exact Hr0.
Qed.
Lemma closed_ext (hp hp' : heap) outs : heap_ok hp -> extends hp hp' -> Forall (fun i => i < length (houts hp)) outs ->
  closed hp outs -> closed hp' outs.
Proof.
  intros Hok Hex Ho H x j Hx Hr. rewrite Forall_forall in Ho.
  apply (closure_ext hp hp' x outs Hok Hex (Ho _ Hx) (fun j => H x j Hx) j Hr).
Qed.
Lemma closed_app (hp : heap) a b : closed hp a -> closed hp b -> closed hp (a ++ b).
Proof.
  intros Ha Hb x j Hx Hr. apply in_app_or in Hx. destruct Hx as [Hx|Hx].
  - destruct (Ha x j Hx Hr) as [H|H]; [left; exact H|right; apply in_or_app; left; exact H].
  - destruct (Hb x j Hx Hr) as [H|H]; [left; exact H|right; apply in_or_app; right; exact H].
Qed.
Lemma covers_mono (hp : heap) a b s : incl a b -> covers hp a s -> covers hp b s.
Proof. intros Hi H o Ho. destruct (H o Ho) as (x&Hx&Hr). exists x. split; [apply Hi; exact Hx|exact Hr]. Qed.

Lemma Forall2_in_l {A B} (R : A -> B -> Prop) l l' a : Forall2 R l l' -> In a l -> exists b, In b l' /\ R a b.
Proof.
  induction 1 as [|x y l l' Hxy F IH]; intros Hin; [destruct Hin|]. destruct Hin as [<-|Hin].
  - exists y. split; [left; reflexivity|exact Hxy].
  - destruct (IH Hin) as (b&Hb&Hr). exists b. split; [right; exact Hb|exact Hr].
Qed.

(* c (in hp1) is an adopted copy of o (in hp) *)
Definition cp (hp hp1 : heap) (extra : list nat) (c o : nat) : Prop :=
  length (houts hp) <= c /\ ov (get_o hp1 c) = ov (get_o hp o) /\ osrc (get_o hp1 c) = osrc (get_o hp o) ++ extra /\
  (oown (get_o hp o) <> None -> oown (get_o hp1 c) = oown (get_o hp o)).
Lemma cp_ext (hp hp1 hp2 : heap) extra c o : extends hp1 hp2 -> c < length (houts hp1) -> cp hp hp1 extra c o -> cp hp hp2 extra c o.
Proof.
  intros (_&_&H&_) Hc (A&B&C&D). destruct (H c Hc) as (E1&E2&E3).
  split; [exact A|]. split; [congruence|]. split; [congruence|].
  intros Hn. rewrite E3; [apply D; exact Hn|rewrite (D Hn); exact Hn].
Qed.

Lemma adopt_os_spec extra ids : forall (hp hp1 : heap) outs, heap_ok hp ->
  Forall (fun i => i < length (houts hp)) ids -> Forall (fun i => i < length (houts hp)) extra ->
  adopt_os hp ids extra = (hp1, outs) ->
  heap_ok hp1 /\ extends hp hp1 /\ length (hrolls hp1) = length (hrolls hp) /\
  Forall (fun c => c < length (houts hp1)) outs /\ Forall2 (cp hp hp1 extra) outs ids.
Proof.
  induction ids as [|i rest IH]; intros hp hp1 outs Hok Hi He E; cbn [adopt_os] in E.
  - inversion E; subst. split; [exact Hok|]. split; [apply extends_refl|]. split; [reflexivity|]. split; constructor.
  - inversion Hi as [|? ? Hi0 Hi']; subst. unfold adopt_o in E. rewrite new_o_eq in E.
    set (c := {| ov := ov (get_o hp i); osrc := osrc (get_o hp i) ++ extra; oown := oown (get_o hp i) |}) in *.
    destruct (adopt_os (push_o hp c) rest extra) as [hp2 js] eqn:E2. inversion E; subst hp1 outs. clear E.
    pose proof Hok as [Ho _]. destruct (Ho i Hi0) as [Hs Hw].
    assert (Hok1 : heap_ok (push_o hp c)).
    { apply push_o_ok; [exact Hok| |exact Hw]. cbn [osrc c]. apply Forall_app. split; [|exact He].
      eapply Forall_impl; [|exact Hs]. cbv beta. intros; lia. }
    pose proof (push_o_ext hp c) as Hex1. pose proof Hex1 as (L1&_).
    destruct (IH (push_o hp c) hp2 js Hok1 (Forall_lt_mono _ _ _ L1 Hi') (Forall_lt_mono _ _ _ L1 He) E2) as (A&B&C&D&F).
    split; [exact A|]. split; [eapply extends_trans; eassumption|]. split; [rewrite C; reflexivity|].
    pose proof B as (L2&_). rewrite len_o_push_o in L2. split; [constructor; [lia|exact D]|]. constructor.
    + apply (cp_ext hp (push_o hp c) hp2 extra _ i B); [rewrite len_o_push_o; lia|].
      split; [lia|]. rewrite get_o_push_new. cbn [ov osrc oown c]. auto.
    + rewrite Forall_forall in Hi'. eapply Forall2_impl_in; [|exact F]. intros x o _ Hino (P1&P2&P3&P4).
      rewrite (get_o_push_old hp c o (Hi' _ Hino)) in P2, P3, P4. split; [lia|]. auto.
Qed.
Lemma cp_ovs (hp hp1 : heap) extra outs ids : Forall2 (cp hp hp1 extra) outs ids -> ovs hp1 outs = ovs hp ids.
Proof. induction 1 as [|c o outs ids (_&E&_) F IH]; [reflexivity|]. unfold ovs in *. cbn [map]. rewrite E, IH. reflexivity. Qed.

Lemma adopt_roll_spec (hp : heap) rid extra hp' ar : heap_ok hp -> rid < length (hrolls hp) ->
  Forall (fun i => i < length (houts hp)) extra -> adopt_roll hp rid extra = (hp', ar) ->
  heap_ok hp' /\ extends hp hp' /\ ar = length (hrolls hp) /\ length (hrolls hp') = S (length (hrolls hp)) /\
  rpath (get_r hp' ar) = rpath (get_r hp rid) /\ rollv_of hp' ar = rollv_of hp rid /\
  (subst_ok -> QInv hp -> complete hp rid -> (forall e, In e extra -> deep_owned hp e) -> QInv hp').
Proof.
  intros Hok Hrid He E. unfold adopt_roll in E.
  destruct (adopt_os hp (rout (get_r hp rid)) extra) as [hp1 outs] eqn:E1.
  pose proof Hok as [Hoo Hrr]. destruct (Hrr rid Hrid) as [Hro Hrs].
  destruct (adopt_os_spec extra _ hp hp1 outs Hok Hro He E1) as (A1&B1&C1&D1&F1).
  assert (Hrs1 : Forall (fun s => s < length (hrolls hp1)) (rsrc (get_r hp rid))).
  { rewrite C1. eapply Forall_impl; [|exact Hrs]. cbv beta. intros; lia. }
  destruct (new_roll_post hp1 _ outs _ hp' ar A1 D1 Hrs1 E) as (A&B&C&D&L&F&_).
  assert (Hex : extends hp hp') by (eapply extends_trans; eassumption).
  split; [exact A|]. split; [exact Hex|]. split; [lia|]. split; [lia|]. split; [rewrite F; reflexivity|]. split.
  - unfold rollv_of. rewrite F. cbn [rout]. rewrite (ovs_ext hp1 hp' outs B D1). apply (cp_ovs hp hp1 extra _ _ F1).
  - intros Hs HQ Hc Hdeep.
    apply (QInv_one hp1 hp' A1 B ltac:(lia)); [|apply (QInv_same hp hp1 Hok B1 C1 HQ)].
    rewrite C1. replace (length (hrolls hp)) with ar by lia. apply (Q_adopt Hs). rewrite Forall_forall in Hro, D1, He.
    pose proof Hex as (_&_&Hg&Hgr). split.
    + intros c j Hc0 Hreach. rewrite F in Hc0. cbn [rout] in Hc0.
      destruct (Forall2_in_l _ _ _ c F1 Hc0) as (o&Ho&(P1&P2&P3&P4)).
      assert (Howned : oown (get_o hp o) <> None) by (apply (proj1 Hc o o Ho); apply reach_refl).
      pose proof (reach_ext_inv hp1 hp' c j A1 B (D1 _ Hc0) Hreach) as Hr1.
      destruct (reach_inv _ _ _ Hr1) as [<-|(k&Hk&Hkj)].
      * apply (owned_ext hp1 hp' c B (D1 _ Hc0)). unfold owned. rewrite (P4 Howned). exact Howned.
      * rewrite P3 in Hk. destruct (Hoo o (Hro _ Ho)) as [Hso _]. rewrite Forall_forall in Hso.
        assert (Hklt : k < length (houts hp)).
        { apply in_app_or in Hk. destruct Hk as [Hk|Hk]; [pose proof (Hso _ Hk); pose proof (Hro _ Ho); lia|apply He; exact Hk]. }
        pose proof (reach_ext_inv hp hp1 k j Hok B1 Hklt Hkj) as Hr0.
        pose proof (reach_le hp k j Hok Hr0 Hklt) as Hle.
        apply (owned_ext hp hp' j Hex ltac:(lia)).
        apply in_app_or in Hk. destruct Hk as [Hk|Hk].
        -- apply (proj1 Hc o j Ho). eapply reach_step; [exact Hk|exact Hr0].
        -- apply (Hdeep k Hk j Hr0).
    + exists rid. split; [lia|]. split; [apply (complete_ext hp hp' rid Hok Hex Hrid Hc)|].
      unfold adopted_of. rewrite (Hgr rid Hrid), F. cbn [rpath rsrc rout]. split; [reflexivity|]. split; [reflexivity|].
      eapply Forall2_impl_in; [|exact F1]. intros c o Hc0 Ho (P1&P2&P3&P4).
      assert (Howned : oown (get_o hp o) <> None) by (apply (proj1 Hc o o Ho); apply reach_refl).
      destruct (Hg o (Hro _ Ho)) as (G1&G2&G3). pose proof B as (_&_&Hg1&_). destruct (Hg1 c (D1 _ Hc0)) as (K1&K2&K3).
      split; [congruence|]. split.
      * rewrite K3, (G3 Howned); [apply P4; exact Howned|rewrite (P4 Howned); exact Howned].
      * exists extra. rewrite K2, G2. exact P3.
Qed.

Lemma head_spec (append : bool) (hpS : heap) i hp2 head : heap_ok hpS -> i < length (houts hpS) ->
  (if append then (hpS, i) else euthanize hpS i) = (hp2, head) ->
  heap_ok hp2 /\ extends hpS hp2 /\ length (hrolls hp2) = length (hrolls hpS) /\ head < length (houts hp2) /\
  ov (get_o hp2 head) = (if append then ov (get_o hpS i) else None) /\
  (forall j, reach hp2 head j -> j = head \/ reach hp2 i j) /\ reach hp2 head i.
Proof.
  intros Hok Hi E. destruct append.
  - inversion E; subst. split; [exact Hok|]. split; [apply extends_refl|]. split; [reflexivity|]. split; [exact Hi|].
    split; [reflexivity|]. split; [intros j Hr; right; exact Hr|apply reach_refl].
  - rewrite euthanize_eq in E. inversion E; subst hp2 head. clear E.
    destruct (euthanize_spec hpS i Hok Hi) as (A&B&(T1&T2&T3)).
    split; [exact A|]. split; [exact B|]. split; [reflexivity|]. split; [lia|]. split; [exact T2|]. split.
    + intros j Hr. destruct (reach_inv _ _ _ Hr) as [<-|(k&Hk&Hkj)]; [left; reflexivity|].
      rewrite T3 in Hk. destruct Hk as [<-|[]]. right. exact Hkj.
    + apply reach_one. rewrite T3. left; reflexivity.
Qed.

Section SubstSpec.
Variable q : path.
Variable r' : @rtree T.
Hypothesis Hs_ok : subst_ok.
Hypothesis Hgood : good r'.
Hypothesis Hlegal : legal subst_ok r'.
Variable expand : T -> @expansion T.
Variable append : bool.
Let src := roll_m O zeroT addT q r'.
Let srcv := roll_v O zeroT addT r'.

Definition xpost (pre : Prop) (hp : heap) (tv : tree (@rollv T)) (script : list nat) (asks : list (list T * list Z))
    (hp' : heap) (outs srolls : list nat) : Prop :=
  heap_ok hp' /\ extends hp hp' /\ Forall (fun i => i < length (houts hp')) outs /\
  Forall (fun s => s < length (hrolls hp') /\ rpath (get_r hp' s) = q) srolls /\
  run tv script = (asks, Some (Ok (ovs hp' outs))) /\
  (QInv hp -> pre -> QInv hp' /\ closed hp' outs /\ (forall s, In s srolls -> covers hp' outs s)).

Definition er_spec (er : nat -> M (list nat * list nat)) (erv : @rollv T -> tree (@rollv T)) : Prop :=
  forall rid hp script asks hp' outs srolls, heap_ok hp -> rid < length (hrolls hp) -> rpath (get_r hp rid) = q ->
  run (er rid hp) script = (asks, Some (Ok (hp', (outs, srolls)))) ->
  xpost True hp (erv (rollv_of hp rid)) script asks hp' outs srolls /\ srolls <> [].

Lemma one_m_spec er erv : er_spec er erv -> forall i hp script asks hp' outs srolls,
  heap_ok hp -> i < length (houts hp) -> ov (get_o hp i) = Some (val_of zeroT hp i) ->
  run (one_m src expand append er i hp) script = (asks, Some (Ok (hp', (outs, srolls)))) ->
  xpost (deep_owned hp i) hp (one_v srcv expand append erv (val_of zeroT hp i)) script asks hp' outs srolls /\
  (exists x, In x outs /\ reach hp' x i).
Proof.
  intros Her i hp script asks hp' outs srolls Hok Hi Hlive H. unfold one_m in H. unfold one_v.
  destruct (expand (val_of zeroT hp i)) as [|v'|] eqn:Ee.
  - (* keep *)
    apply run_ret in H. destruct H as [-> H]. inversion H; subst hp' outs srolls. clear H. split.
    + split; [exact Hok|]. split; [apply extends_refl|]. split; [constructor; [exact Hi|constructor]|].
      split; [constructor|]. split; [unfold ovs; cbn [map run]; rewrite Hlive; reflexivity|].
      intros HQ Hd. split; [exact HQ|]. split; [|intros s []].
      intros x j [<-|[]] Hr. left. apply Hd. exact Hr.
    + exists i. split; [left; reflexivity|apply reach_refl].
  - (* a new outcome adopting i *)
    rewrite new_o_eq in H. cbv beta iota zeta in H. unfold adopt_o in H. rewrite new_o_eq in H.
    rewrite get_o_push_new in H. cbn [ov osrc oown app] in H.
    set (c1 := {| ov := Some v'; osrc := []; oown := None |}) in *.
    set (c2 := {| ov := Some v'; osrc := [i]; oown := None |}) in *.
    apply run_ret in H. destruct H as [-> H].
    apply pair_equal_spec in H. destruct H as [H1 H2]. apply pair_equal_spec in H2. destruct H2 as [H2 H3].
    subst hp' outs srolls.
    assert (Hok1 : heap_ok (push_o hp c1)) by (apply push_o_ok; [exact Hok|constructor|intros r Hr; discriminate]).
    pose proof (push_o_ext hp c1) as Hex1.
    assert (Hok2 : heap_ok (push_o (push_o hp c1) c2)).
    { apply push_o_ok; [exact Hok1| |intros r Hr; discriminate]. constructor; [rewrite len_o_push_o; lia|constructor]. }
    pose proof (push_o_ext (push_o hp c1) c2) as Hex2.
    assert (Hex : extends hp (push_o (push_o hp c1) c2)) by (eapply extends_trans; eassumption).
    assert (Esrc : osrc (get_o (push_o (push_o hp c1) c2) (length (houts (push_o hp c1)))) = [i])
      by (rewrite get_o_push_new; reflexivity).
    split.
    + split; [exact Hok2|]. split; [exact Hex|].
      split; [constructor; [rewrite !len_o_push_o; lia|constructor]|]. split; [constructor|].
      split; [unfold ovs; cbn [map run]; rewrite get_o_push_new; reflexivity|].
      intros HQ Hd. split; [apply (QInv_same hp _ Hok Hex eq_refl HQ)|]. split; [|intros s []].
      intros x j [<-|[]] Hr. destruct (reach_inv _ _ _ Hr) as [<-|(k&Hk&Hkj)]; [right; left; reflexivity|].
      rewrite Esrc in Hk. destruct Hk as [<-|[]]. left.
      apply (deep_owned_ext hp _ i Hok Hex Hi Hd j Hkj).
    + exists (length (houts (push_o hp c1))). split; [left; reflexivity|]. apply reach_one. rewrite Esrc. left; reflexivity.
  - (* reroll *)
    apply run_bind in H. destruct H as (s1&s2&a1&a2&[hpS rid']&->&E1&L1&E4&->). cbn [fst snd] in E4.
    destruct (Hgood Hlegal q hp s1 a1 hpS rid' Hok E1) as (A1&B1&C1&D1&V1&_&I1).
    pose proof B1 as (Lo1&_).
    destruct (if append then (hpS, i) else euthanize hpS i) as [hp2 head] eqn:EH.
    destruct (head_spec append hpS i hp2 head A1 ltac:(lia) EH) as (A2&B2&C2&Hh&Vh&Kh&Rh).
    pose proof B2 as (Lo2&_).
    destruct (adopt_roll hp2 rid' [i]) as [hp3 ar] eqn:EA.
    destruct (adopt_roll_spec hp2 rid' [i] hp3 ar A2 ltac:(lia) ltac:(constructor; [lia|constructor]) EA)
      as (A3&B3&C3&D3&P3&V3&I3).
    apply run_bind_ret in E4. destruct E4 as ([hp4 [outs2 srolls2]]&E4&E5). cbn [fst snd] in E5.
    inversion E5; subst hp' outs srolls. clear E5.
    assert (Hq3 : rpath (get_r hp3 ar) = q).
    { rewrite P3. pose proof B2 as (_&_&_&G). rewrite (G rid' ltac:(lia)). exact D1. }
    destruct (Her ar hp3 s2 a2 hp4 outs2 srolls2 A3 ltac:(lia) Hq3 E4) as [(A4&B4&C4&D4&V4&I4) _].
    pose proof B3 as (Lo3&_). pose proof B4 as (Lo4&_).
    assert (B24 : extends hp2 hp4) by (eapply extends_trans; eassumption).
    assert (B04 : extends hp hp4) by (eapply extends_trans; [exact B1|eapply extends_trans; eassumption]).
    split.
    + split; [exact A4|]. split; [exact B04|]. split; [constructor; [lia|exact C4]|]. split; [exact D4|]. split.
      * assert (Eov : ovs hp4 (head :: outs2) = (if append then Some (val_of zeroT hp i) else None) :: ovs hp4 outs2).
        { unfold ovs. cbn [map]. f_equal. pose proof B24 as (_&_&G&_). destruct (G head Hh) as (G1&_). rewrite G1, Vh.
          pose proof B1 as (_&_&G0&_). destruct (G0 i Hi) as (G2&_). rewrite G2, Hlive. reflexivity. }
        rewrite Eov. eapply run_bind_ok; [exact V1|exact L1|]. eapply run_bind_pure; [|reflexivity].
        rewrite V3 in V4. rewrite (rollv_of_ext hpS hp2 rid' A1 B2 ltac:(lia)) in V4. exact V4.
      * intros HQ Hd. destruct (I1 HQ) as [Hc1 HQ1].
        assert (HQ2 : QInv hp2) by (apply (QInv_same hpS hp2 A1 B2 C2 HQ1)).
        assert (Hd2 : deep_owned hp2 i).
        { apply (deep_owned_ext hp hp2 i Hok (extends_trans _ _ _ B1 B2) Hi Hd). }
        assert (HQ3 : QInv hp3).
        { apply (I3 Hs_ok HQ2); [apply (complete_ext hpS hp2 rid' A1 B2 ltac:(lia) Hc1)|].
          intros e [<-|[]]. exact Hd2. }
        destruct (I4 HQ3 I) as (HQ4&Hcl&Hcov). split; [exact HQ4|]. split.
        -- intros x j [<-|Hx] Hr.
           ++ pose proof (reach_ext_inv hp2 hp4 head j A2 B24 Hh Hr) as Hr2.
              destruct (Kh j Hr2) as [->|Hij]; [right; left; reflexivity|]. left.
              apply (deep_owned_ext hp2 hp4 i A2 B24 ltac:(lia) Hd2). apply (reach_ext hp2 hp4 i j A2 B24 ltac:(lia) Hij).
           ++ destruct (Hcl x j Hx Hr) as [Hw|Hin]; [left; exact Hw|right; right; exact Hin].
        -- intros s Hs. apply (covers_mono hp4 outs2 (head :: outs2) s); [intros x Hx; right; exact Hx|apply Hcov; exact Hs].
    + exists head. split; [left; reflexivity|]. apply (reach_ext hp2 hp4 head i A2 B24 Hh Rh).
Qed.

Lemma each_m_spec er erv : er_spec er erv -> forall ids hp script asks hp' outs srolls,
  heap_ok hp -> Forall (fun i => i < length (houts hp) /\ ov (get_o hp i) = Some (val_of zeroT hp i)) ids ->
  run (each_m src expand append er ids hp) script = (asks, Some (Ok (hp', (outs, srolls)))) ->
  xpost (forall i, In i ids -> deep_owned hp i) hp (each_v srcv expand append erv (map (val_of zeroT hp) ids))
        script asks hp' outs srolls /\
  (forall i, In i ids -> exists x, In x outs /\ reach hp' x i).
Proof.
  intros Her. induction ids as [|i rest IH]; intros hp script asks hp' outs srolls Hok Hids H.
  - change (run (Ret (hp, (@nil nat, @nil nat))) script = (asks, Some (Ok (hp', (outs, srolls))))) in H.
    apply run_ret in H. destruct H as [-> H]. inversion H; subst hp' outs srolls. clear H. split; [|intros i []].
    split; [exact Hok|]. split; [apply extends_refl|]. split; [constructor|]. split; [constructor|].
    split; [reflexivity|]. intros HQ _. split; [exact HQ|]. split; [intros x j []|intros s []].
  - change (run (mbind (one_m src expand append er i) (fun here => mbind (each_m src expand append er rest) (fun more =>
              mret (fst here ++ fst more, snd here ++ snd more))) hp) script = (asks, Some (Ok (hp', (outs, srolls))))) in H.
    apply run_mbind in H. destruct H as (s1&s2&a1&a2&hp1&[outs1 srolls1]&->&E1&L1&E2&->).
    apply run_mbind_mret in E2. destruct E2 as ([outs2 srolls2]&E2&E3). cbn [fst snd] in E3.
    apply pair_equal_spec in E3. destruct E3 as [-> ->].
    inversion Hids as [|? ? [Hi Hlive] Hids']; subst.
    destruct (one_m_spec er erv Her i hp s1 a1 hp1 outs1 srolls1 Hok Hi Hlive E1) as [(A1&B1&C1&D1&V1&I1) (x1&Hx1&Hr1)].
    pose proof B1 as (Lo1&Lr1&Hg1&Hgr1).
    assert (Hids1 : Forall (fun i => i < length (houts hp1) /\ ov (get_o hp1 i) = Some (val_of zeroT hp1 i)) rest).
    { eapply Forall_impl; [|exact Hids']. cbv beta. intros i0 [Hi0 Hl0]. split; [lia|].
      destruct (Hg1 i0 Hi0) as (G&_). rewrite G, (val_of_ext hp hp1 i0 B1 Hi0). exact Hl0. }
    destruct (IH hp1 s2 a2 hp' outs2 srolls2 A1 Hids1 E2) as [(A2&B2&C2&D2&V2&I2) Hcov2].
    pose proof B2 as (Lo2&Lr2&Hg2&Hgr2).
    assert (Evals : map (val_of zeroT hp1) rest = map (val_of zeroT hp) rest).
    { apply map_ext_in. intros i0 Hi0. rewrite Forall_forall in Hids'. apply (val_of_ext hp hp1 i0 B1). apply Hids'. exact Hi0. }
    split.
    + split; [exact A2|]. split; [eapply extends_trans; eassumption|].
      split; [apply Forall_app; split; [apply (Forall_lt_mono _ _ _ Lo2 C1)|exact C2]|]. split.
      * apply Forall_app. split; [|exact D2]. eapply Forall_impl; [|exact D1]. cbv beta.
        intros s [Hs Hp]. split; [lia|]. rewrite (Hgr2 s Hs). exact Hp.
      * split.
        -- cbn [map]. change (run (bind (one_v srcv expand append erv (val_of zeroT hp i)) (fun here =>
                 bind (each_v srcv expand append erv (map (val_of zeroT hp) rest)) (fun more => Ret (here ++ more)))) (s1 ++ s2) =
                 (a1 ++ a2, Some (Ok (ovs hp' (outs1 ++ outs2))))).
           eapply run_bind_ok; [exact V1|exact L1|]. eapply run_bind_pure; [rewrite <- Evals; exact V2|].
           rewrite ovs_app, (ovs_ext hp1 hp' outs1 B2 C1). reflexivity.
        -- intros HQ Hd. destruct (I1 HQ (Hd i (or_introl eq_refl))) as (HQ1&Hcl1&Hcv1).
           assert (Hd1 : forall i0, In i0 rest -> deep_owned hp1 i0).
           { intros i0 Hi0. rewrite Forall_forall in Hids'. destruct (Hids' _ Hi0) as [Hlt _].
             apply (deep_owned_ext hp hp1 i0 Hok B1 Hlt). apply Hd. right. exact Hi0. }
           destruct (I2 HQ1 Hd1) as (HQ2&Hcl2&Hcv2). split; [exact HQ2|]. split.
           ++ apply closed_app; [apply (closed_ext hp1 hp' outs1 A1 B2 C1 Hcl1)|exact Hcl2].
           ++ intros s Hs. apply in_app_or in Hs. destruct Hs as [Hs|Hs].
              ** rewrite Forall_forall in D1. destruct (D1 _ Hs) as [Hslt _].
                 apply (covers_mono hp' outs1); [apply incl_appl, incl_refl|].
                 apply (covers_ext hp1 hp' outs1 s A1 B2 Hslt C1). apply Hcv1. exact Hs.
              ** apply (covers_mono hp' outs2); [apply incl_appr, incl_refl|]. apply Hcv2. exact Hs.
    + intros i0 [<-|Hi0].
      * exists x1. split; [apply in_or_app; left; exact Hx1|]. rewrite Forall_forall in C1.
        apply (reach_ext hp1 hp' x1 i A1 B2 (C1 _ Hx1) Hr1).
      * destruct (Hcov2 i0 Hi0) as (x&Hx&Hr). exists x. split; [apply in_or_app; right; exact Hx|exact Hr].
Qed.

Lemma expand_m_spec : forall left, er_spec (expand_m src expand append left) (expand_v srcv expand append left).
Proof.
  induction left as [|left IH]; intros rid hp script asks hp' outs srolls Hok Hrid Hq H.
  - cbn [expand_m] in H. apply run_ret in H. destruct H as [-> H]. inversion H; subst hp' outs srolls. clear H.
    split; [|discriminate].
    split; [exact Hok|]. split; [apply extends_refl|].
    split; [apply Forall_forall; intros i Hi; apply (roll_live_lt hp rid i Hok Hrid Hi)|].
    split; [constructor; [split; assumption|constructor]|]. split.
    + cbn [expand_v run]. unfold roll_live, rollv_of. rewrite ovs_live_ids. reflexivity.
    + intros HQ _. split; [exact HQ|]. split.
      * intros x j Hx Hr. left. apply (live_deep_owned hp rid x j); [apply Q_c1, HQ, Hrid|exact Hx|exact Hr].
      * intros s [<-|[]] o Ho. exists o. split; [exact Ho|apply reach_refl].
  - cbn [expand_m] in H. apply run_bind_ret in H. destruct H as ([hp1 [outs1 srolls1]]&E1&E2). cbn [fst snd] in E2.
    apply pair_equal_spec in E2. destruct E2 as [-> E2]. apply pair_equal_spec in E2. destruct E2 as [-> ->].
    assert (Hids : Forall (fun i => i < length (houts hp) /\ ov (get_o hp i) = Some (val_of zeroT hp i)) (roll_live hp rid)).
    { apply Forall_forall. intros i Hi. split; [apply (roll_live_lt hp rid i Hok Hrid Hi)|apply (live_ids_all_live hp _ i Hi)]. }
    destruct (each_m_spec _ _ IH (roll_live hp rid) hp script asks hp1 outs1 srolls1 Hok Hids E1) as [(A1&B1&C1&D1&V1&I1) Hcov].
    pose proof B1 as (_&Lr1&_&Hgr1).
    split; [|discriminate].
    split; [exact A1|]. split; [exact B1|]. split; [exact C1|].
    split; [constructor; [split; [lia|rewrite (Hgr1 rid Hrid); exact Hq]|exact D1]|]. split.
    + cbn [expand_v]. unfold roll_live, rollv_of in *. rewrite vals_live_ids in V1. exact V1.
    + intros HQ _.
      assert (Hd : forall i, In i (roll_live hp rid) -> deep_owned hp i).
      { intros i Hi j Hr. apply (live_deep_owned hp rid i j); [apply Q_c1, HQ, Hrid|exact Hi|exact Hr]. }
      destruct (I1 HQ Hd) as (HQ1&Hcl&Hcv). split; [exact HQ1|]. split; [exact Hcl|].
      intros s [<-|Hs]; [|apply Hcv; exact Hs]. intros o Ho. rewrite (roll_live_ext hp hp1 rid Hok B1 Hrid) in Ho.
      apply Hcov. exact Ho.
Qed.
End SubstSpec.

Lemma good_subst e a d r : good r -> good (RSubst e a d r).
Proof.
  intros Hg [Hs Hl] p hp script asks hp' rid Hok H. rewrite roll_m_subst in H.
  apply run_mbind in H. destruct H as (s1&s2&a1&a2&hp1&rid1&->&E1&L1&E2&->).
  apply run_mbind_tail in E2; [|intros x h; exact I]. destruct E2 as (hp2&[outs srolls]&E2&E3).
  apply Ret_inj in E3. cbn [fst snd] in E3.
  destruct (Hg Hl (p ++ [0]) hp s1 a1 hp1 rid1 Hok E1) as (A1&B1&C1&D1&V1&_&I1).
  destruct (expand_m_spec (p ++ [0]) r Hs Hg Hl e a d rid1 hp1 s2 a2 hp2 outs srolls A1 ltac:(lia) D1 E2)
    as [(A2&B2&C2&D2&V2&I2) Hne].
  assert (Hsr : Forall (fun s => s < length (hrolls hp2)) srolls).
  { eapply Forall_impl; [|exact D2]. cbv beta. intros s [Hs0 _]. exact Hs0. }
  destruct (new_roll_post hp2 p outs srolls hp' rid A2 C2 Hsr E3) as (A3&B3&C3&D3&L3&F3&G3).
  pose proof B1 as (_&Lr1&_&_). pose proof B2 as (_&Lr2&_&_). pose proof B3 as (_&_&_&Hgr3).
  split; [exact A3|]. split; [eapply extends_trans; [exact B1|eapply extends_trans; eassumption]|].
  split; [lia|]. split; [rewrite F3; reflexivity|]. split.
  - rewrite roll_v_subst. eapply run_bind_ok; [exact V1|exact L1|].
    unfold rollv_of. rewrite F3. cbn [rout]. rewrite (ovs_ext hp2 hp' outs B3 C2). exact V2.
  - split.
    + unfold src_paths. rewrite F3. cbn [rsrc]. split.
      * destruct srolls; [contradiction|discriminate].
      * apply Forall_map. eapply Forall_impl; [|exact D2]. cbv beta. intros s [Hs0 Hp]. rewrite (Hgr3 s Hs0). exact Hp.
    + intros HQ. destruct (I1 HQ) as [_ HQ1]. destruct (I2 HQ1 I) as (HQ2&Hcl&Hcv).
      apply (G3 HQ2); [exact Hcl|exact Hcv].
Qed.

(* ---- all rollers ---- *)
Theorem all_good : forall r, good r.
Proof.
  apply rtree_ind'.
  - apply good_val.
  - apply good_h.
  - apply good_p.
  - apply good_pool.
  - apply good_repeat.
  - apply good_bin.
  - apply good_un.
  - apply good_select.
  - apply good_filter.
  - apply good_filterby.
  - apply good_subst.
Qed.

End Gen.

(* ================= the theorems ================= *)
Lemma legal_True : forall r : @rtree T, legal True r.
Proof.
  apply rtree_ind'; intros; cbn [legal]; auto; try (apply legal_all; assumption).
Qed.

Lemma all_post : forall (r : @rtree T) p hp script asks hp' rid, heap_ok hp ->
  run (roll_m O zeroT addT p r hp) script = (asks, Some (Ok (hp', rid))) ->
  post roll_ok r p hp script asks hp' rid.
Proof.
  intros r. apply (all_good roll_ok True).
  - apply roll_ok_ext.
  - intros hp rid H. left. exact H.
  - apply roll_ok_c1.
  - intros _ hp a H. right. exact H.
  - apply legal_True.
Qed.

(* CORRECTED main theorem (see roll_m_complete_original_fails below): the new roll is complete, and every
   allocated roll is complete or is an adopted copy (Roll.adopt in SubstitutionRoller) of a complete roll,
   for which part 1 of completeness holds (roll_ok). *)
Theorem roll_m_complete : forall (r : @rtree T) p hp script asks hp' rid,
  heap_ok hp -> (forall rid0, rid0 < length (hrolls hp) -> roll_ok hp rid0) ->
  run (roll_m O zeroT addT p r hp) script = (asks, Some (Ok (hp', rid))) ->
  heap_ok hp' /\ extends hp hp' /\ (length (hrolls hp) <= rid < length (hrolls hp')) /\
  rpath (get_r hp' rid) = p /\ complete hp' rid /\
  (forall rid0, rid0 < length (hrolls hp') -> roll_ok hp' rid0).
Proof.
  intros r p hp script asks hp' rid Hok HQ H.
  destruct (all_post r p hp script asks hp' rid Hok H) as (A&B&C&D&_&_&I).
  destruct (I HQ) as [Hc HQ']. auto 10.
Qed.

Corollary roll_m_complete' : forall (r : @rtree T) p hp script asks hp' rid,
  heap_ok hp -> (forall rid0, rid0 < length (hrolls hp) -> complete hp rid0) ->
  run (roll_m O zeroT addT p r hp) script = (asks, Some (Ok (hp', rid))) ->
  heap_ok hp' /\ extends hp hp' /\ (length (hrolls hp) <= rid < length (hrolls hp')) /\
  rpath (get_r hp' rid) = p /\ complete hp' rid /\
  (forall rid0, rid0 < length (hrolls hp') -> roll_ok hp' rid0).
Proof.
  intros r p hp script asks hp' rid Hok HQ H. apply (roll_m_complete r p hp script asks hp' rid Hok); [|exact H].
  intros rid0 Hr. left. apply HQ. exact Hr.
Qed.

(* in particular: part 1 (every outcome reachable from a roll's outcomes is associated with a roll)
   holds for EVERY allocated roll of EVERY roller tree *)
Corollary roll_m_all_owned : forall (r : @rtree T) p hp script asks hp' rid,
  heap_ok hp -> (forall rid0, rid0 < length (hrolls hp) -> roll_ok hp rid0) ->
  run (roll_m O zeroT addT p r hp) script = (asks, Some (Ok (hp', rid))) ->
  forall rid0 i j, rid0 < length (hrolls hp') -> In i (rout (get_r hp' rid0)) -> reach hp' i j -> owned hp' j.
Proof.
  intros r p hp script asks hp' rid Hok HQ H rid0 i j Hr Hi Hreach.
  destruct (roll_m_complete r p hp script asks hp' rid Hok HQ H) as (_&_&_&_&_&HQ').
  apply (roll_ok_c1 hp' rid0 (HQ' rid0 Hr) i j Hi Hreach).
Qed.

(* the statement as originally posed, for trees without SubstitutionRoller *)
Theorem roll_m_complete_no_subst : forall (r : @rtree T), no_subst r -> forall p hp script asks hp' rid,
  heap_ok hp -> (forall rid0, rid0 < length (hrolls hp) -> complete hp rid0) ->
  run (roll_m O zeroT addT p r hp) script = (asks, Some (Ok (hp', rid))) ->
  heap_ok hp' /\ extends hp hp' /\ (length (hrolls hp) <= rid < length (hrolls hp')) /\
  rpath (get_r hp' rid) = p /\
  (forall rid0, rid0 < length (hrolls hp') -> complete hp' rid0).
Proof.
  intros r Hl p hp script asks hp' rid Hok HQ H.
  assert (Hg : good complete False r).
  { apply all_good.
    - apply complete_ext.
    - auto.
    - apply complete_c1.
    - intros []. }
  destruct (Hg Hl p hp script asks hp' rid Hok H) as (A&B&C&D&_&_&I).
  destruct (I HQ) as [Hc HQ']. auto 10.
Qed.

(* the originally posed statement is FALSE when SubstitutionRoller re-rolls a source that passes outcomes
   through (here a PoolRoller): Roll.adopt copies the outcomes (new sources: the substituted outcome) but keeps
   the source rolls, so the source roll's live outcome is neither kept nor a source of a kept outcome *)
Definition cex : @rtree T := RSubst (fun _ => EReroll) true 1 (RPool [RVal zeroT]).
Theorem roll_m_complete_original_fails :
  ~ (forall (r : @rtree T) p hp script asks hp' rid,
       heap_ok hp -> (forall rid0, rid0 < length (hrolls hp) -> complete hp rid0) ->
       run (roll_m O zeroT addT p r hp) script = (asks, Some (Ok (hp', rid))) ->
       heap_ok hp' /\ extends hp hp' /\ (length (hrolls hp) <= rid < length (hrolls hp')) /\
       rpath (get_r hp' rid) = p /\
       (forall rid0, rid0 < length (hrolls hp') -> complete hp' rid0)).
Proof.
  intros H.
  assert (Hok0 : heap_ok (@heap0 T)).
  { split; intros i Hi; cbn in Hi; lia. }
  set (HP := {| houts := [{| ov := Some zeroT; osrc := []; oown := Some 0 |};
                          {| ov := Some zeroT; osrc := []; oown := Some 2 |};
                          {| ov := Some zeroT; osrc := [0]; oown := Some 2 |}];
                hrolls := [{| rpath := [0; 0]; rout := [0]; rsrc := [] |};
                           {| rpath := [0]; rout := [0]; rsrc := [0] |};
                           {| rpath := [0; 0]; rout := [1]; rsrc := [] |};
                           {| rpath := [0]; rout := [1]; rsrc := [2] |};
                           {| rpath := [0]; rout := [2]; rsrc := [2] |};
                           {| rpath := []; rout := [0; 2]; rsrc := [1; 4] |}] |} : heap).
  assert (E : run (roll_m O zeroT addT [] cex heap0) [] = ([], Some (Ok (HP, 5)))) by (cbv; reflexivity).
  assert (Hvac : forall rid0, rid0 < length (hrolls (@heap0 T)) -> complete heap0 rid0)
    by (intros rid0 Hr; cbn in Hr; lia).
  specialize (H cex [] heap0 [] [] HP 5 Hok0 Hvac E). clear E.
  destruct H as (_&_&_&_&H). specialize (H 4 ltac:(cbn; lia)). destruct H as [_ H2].
  (* roll 4 is the adopted roll: outcomes [2], source rolls [2]; roll 2 has the live outcome 1 *)
  specialize (H2 2 1 (or_introl eq_refl) (or_introl eq_refl)). destruct H2 as (i&Hi&Hr).
  destruct Hi as [<-|[]].
  inversion Hr as [|? j ? Hj Hr']; subst. destruct Hj as [<-|[]].
  inversion Hr' as [|? j ? Hj Hr'']; subst. destruct Hj.
Qed.

(* source rolls are the rolls of the child rollers, in order *)
Theorem roll_m_source_paths : forall (r : @rtree T) p hp script asks hp' rid, heap_ok hp ->
  run (roll_m O zeroT addT p r hp) script = (asks, Some (Ok (hp', rid))) ->
  src_paths r p hp' rid.
Proof.
  intros r p hp script asks hp' rid Hok H.
  destruct (all_post r p hp script asks hp' rid Hok H) as (_&_&_&_&_&S&_). exact S.
Qed.

(* ... spelled out per roller class *)
Section SourcePaths.
Variables (p : path) (hp : heap) (script : list nat) (asks : list (list T * list Z)) (hp' : heap) (rid : nat).
Hypothesis Hok : heap_ok hp.
Let ps := map (fun s => rpath (get_r hp' s)) (rsrc (get_r hp' rid)).
Corollary source_paths_pool l :
  run (roll_m O zeroT addT p (RPool l) hp) script = (asks, Some (Ok (hp', rid))) ->
  ps = map (fun k => p ++ [k]) (seq 0 (length l)).
Proof. intros H. exact (roll_m_source_paths _ _ _ _ _ _ _ Hok H). Qed.
Corollary source_paths_select w l :
  run (roll_m O zeroT addT p (RSelect w l) hp) script = (asks, Some (Ok (hp', rid))) ->
  ps = map (fun k => p ++ [k]) (seq 0 (length l)).
Proof. intros H. exact (roll_m_source_paths _ _ _ _ _ _ _ Hok H). Qed.
Corollary source_paths_filter f l :
  run (roll_m O zeroT addT p (RFilter f l) hp) script = (asks, Some (Ok (hp', rid))) ->
  ps = map (fun k => p ++ [k]) (seq 0 (length l)).
Proof. intros H. exact (roll_m_source_paths _ _ _ _ _ _ _ Hok H). Qed.
Corollary source_paths_filterby f l :
  run (roll_m O zeroT addT p (RFilterBy f l) hp) script = (asks, Some (Ok (hp', rid))) ->
  ps = map (fun k => p ++ [k]) (seq 0 (length l)).
Proof. intros H. exact (roll_m_source_paths _ _ _ _ _ _ _ Hok H). Qed.
Corollary source_paths_repeat n r :
  run (roll_m O zeroT addT p (RRepeat n r) hp) script = (asks, Some (Ok (hp', rid))) ->
  ps = repeat (p ++ [0]) n.
Proof. intros H. exact (roll_m_source_paths _ _ _ _ _ _ _ Hok H). Qed.
Corollary source_paths_binop op a b :
  run (roll_m O zeroT addT p (RBinOp op a b) hp) script = (asks, Some (Ok (hp', rid))) ->
  ps = [p ++ [0]; p ++ [1]].
Proof. intros H. exact (roll_m_source_paths _ _ _ _ _ _ _ Hok H). Qed.
Corollary source_paths_unop op a :
  run (roll_m O zeroT addT p (RUnOp op a) hp) script = (asks, Some (Ok (hp', rid))) ->
  ps = [p ++ [0]].
Proof. intros H. exact (roll_m_source_paths _ _ _ _ _ _ _ Hok H). Qed.
Corollary source_paths_subst e a d r :
  run (roll_m O zeroT addT p (RSubst e a d r) hp) script = (asks, Some (Ok (hp', rid))) ->
  ps <> [] /\ Forall (fun q => q = p ++ [0]) ps.
Proof. intros H. exact (roll_m_source_paths _ _ _ _ _ _ _ Hok H). Qed.
Corollary source_paths_leaf r :
  match r with RVal _ | RH _ | RP _ => True | _ => False end ->
  run (roll_m O zeroT addT p r hp) script = (asks, Some (Ok (hp', rid))) -> ps = [].
Proof. intros Hr H. pose proof (roll_m_source_paths _ _ _ _ _ _ _ Hok H) as S. destruct r; try contradiction; exact S. Qed.
End SourcePaths.

(* outcomes() reports exactly the values the value-level semantics returns, asking the same questions *)
Theorem roll_m_values : forall (r : @rtree T) p hp script asks hp' rid, heap_ok hp ->
  run (roll_m O zeroT addT p r hp) script = (asks, Some (Ok (hp', rid))) ->
  exists asks', run (roll_v O zeroT addT r) script =
                  (asks', Some (Ok (map (fun i => ov (get_o hp' i)) (rout (get_r hp' rid))))) /\ asks' = asks.
Proof.
  intros r p hp script asks hp' rid Hok H.
  destruct (all_post r p hp script asks hp' rid Hok H) as (_&_&_&_&V&_). exists asks. split; [exact V|reflexivity].
Qed.

(* structural facts without any completeness premise *)
Theorem roll_m_heap_ok : forall (r : @rtree T) p hp script asks hp' rid, heap_ok hp ->
  run (roll_m O zeroT addT p r hp) script = (asks, Some (Ok (hp', rid))) ->
  heap_ok hp' /\ extends hp hp' /\ (length (hrolls hp) <= rid < length (hrolls hp')) /\ rpath (get_r hp' rid) = p.
Proof.
  intros r p hp script asks hp' rid Hok H.
  destruct (all_post r p hp script asks hp' rid Hok H) as (A&B&C&D&_). auto.
Qed.

(* RFilterBy with a predicate that ignores the source index builds the same record as RFilter: the same
   choice tree up to pointwise equal continuations (RollerP.teq; Leibniz equality of the two M-computations,
   which are functions of the heap returning trees of functions, would need functional extensionality) *)
Lemma fbstep_const_fold (pred : T -> bool) (kids : list (nat * nat)) : forall acc : heap * list nat,
  fold_left (fbstep (fun _ => pred)) kids acc = fold_left (fstep pred) (map snd kids) acc.
Proof. induction kids as [|ki rest IH]; intros acc; [reflexivity|]. cbn [map fold_left]. rewrite <- IH. reflexivity. Qed.

Lemma filterby_const_is_filter_m (pred : T -> bool) (l : list (@rtree T)) p hp :
  RollerP.teq (roll_m O zeroT addT p (RFilterBy (fun _ => pred) l) hp) (roll_m O zeroT addT p (RFilter pred l) hp).
Proof.
  cbn [roll_m]. unfold mbind. apply RollerP.teq_bind. intros [hp1 rids]. cbn [fst snd].
  match goal with |- RollerP.teq (let '(_, _) := ?e1 in _) (let '(_, _) := ?e2 in _) =>
    replace e1 with e2; [apply RollerP.teq_refl|] end.
  symmetry. etransitivity; [exact (fbstep_const_fold pred _ _)|]. rewrite tagged_from_snd. reflexivity.
Qed.
Corollary filterby_const_is_filter_m_run (pred : T -> bool) (l : list (@rtree T)) p hp script :
  run (roll_m O zeroT addT p (RFilterBy (fun _ => pred) l) hp) script = run (roll_m O zeroT addT p (RFilter pred l) hp) script.
Proof. apply RollerP.teq_run, filterby_const_is_filter_m. Qed.

End P.

Print Assumptions roll_m_complete.
Print Assumptions roll_m_complete'.
Print Assumptions source_paths_subst.
Print Assumptions roll_m_all_owned.
Print Assumptions roll_m_complete_no_subst.
Print Assumptions roll_m_complete_original_fails.
Print Assumptions roll_m_source_paths.
Print Assumptions roll_m_values.
Print Assumptions roll_m_heap_ok.
Print Assumptions filterby_const_is_filter_m.
Print Assumptions filterby_const_is_filter_m_run.
