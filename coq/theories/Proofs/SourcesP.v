(* The branches a dependent-term evaluation iterates over are exactly the Cartesian product of
   the sources' results, with brute-force weights:
   - the result iterable of one source (a histogram's faces with their counts; the rolls of a
     pool with their counts, restricted to the selected positions) has, for every test function,
     the same weighted sum as the brute-force enumeration ([src_results_sum]);
   - the branch list of a list of sources has the weighted sum of the nested brute-force
     enumeration ([branches_sum]); the weights add up to the product of the sources' totals
     ([branches_total]); well-formed sources never fail ([src_results_ok], [branches_ok]);
   - foreach with a non-recursive callback, written against brute force
     ([foreach_against_brute_force], [foreach_count_against_brute_force]). *)
From Coq Require Import ZArith QArith List Bool Arith Lia.
From Dyce Require Import Base.Sums Base.Order Base.Hist Base.Brute Model.Select Model.Pool
  Model.Equality Model.Eval Model.Explode Proofs.RwcP Proofs.EvalP.
Import ListNotations.
Open Scope Z_scope.

(* ---- seq_res ---- *)
Lemma seq_res_Forall2 {A B} (f : A -> res B) (l : list A) : forall rs,
  seq_res (map f l) = Ok rs -> Forall2 (fun a r => f a = Ok r) l rs.
Proof.
  induction l as [|a l IH]; intros rs H; cbn [map seq_res] in H.
  - injection H as <-. constructor.
  - destruct (f a) as [r|e] eqn:Ea; [|discriminate].
    destruct (seq_res (map f l)) as [rs'|e] eqn:El; [|discriminate].
    injection H as <-. constructor; [exact Ea|]. apply IH. reflexivity.
Qed.

Lemma seq_res_ok {A B} (f : A -> res B) (l : list A) :
  Forall (fun a => exists r, f a = Ok r) l -> exists rs, seq_res (map f l) = Ok rs.
Proof.
  induction 1 as [|a l [r Hr] _ [rs IH]]; cbn [map seq_res].
  - exists []. reflexivity.
  - rewrite Hr, IH. exists (r :: rs). reflexivity.
Qed.

Section P.
Context {T : Type} (O : ord T).
Variable pad : T.

(* a well-formed source: a histogram, or a non-empty pool of well-formed dice; a selection must
   resolve *)
Definition src_ok (s : source (T:=T)) : Prop :=
  match s with
  | SH h => True
  | SP p => okpool O p /\ p <> []
  | SPW p w => okpool O p /\ p <> [] /\ exists idx, resolve (length p) w = Ok idx
  end.

(* brute-force sum over one source: faces with their counts / all sorted rolls of the Cartesian
   product, restricted to the selected positions (a selection that resolves to no position
   yields nothing) *)
Definition src_sum (s : source (T:=T)) (F : result (T:=T) -> Z) : Z :=
  match s with
  | SH h => lsum (fun oc => snd oc * F [fst oc]) h
  | SP p => pbsum O p F
  | SPW p [] => pbsum O p F
  | SPW p w => match resolve (length p) w with
               | Ok [] => 0
               | Ok idx => pbsum O p (fun l => F (getitems l idx))
               | Err _ => 0
               end
  end.

Lemma src_sum_ext s F G : (forall r, F r = G r) -> src_sum s F = src_sum s G.
Proof.
  intros H. destruct s as [h|p|p [|s0 w]]; cbn [src_sum].
  - apply lsum_ext. intros oc _. rewrite H. reflexivity.
  - apply pbsum_ext. exact H.
  - apply pbsum_ext. exact H.
  - destruct (resolve (length p) (s0 :: w)) as [[|i idx]|e]; try reflexivity.
    apply pbsum_ext. intros l. apply H.
Qed.

Lemma src_sum_scale s c F : src_sum s (fun r => c * F r) = c * src_sum s F.
Proof.
  destruct s as [h|p|p [|s0 w]]; cbn [src_sum].
  - rewrite <- lsum_scale. apply lsum_ext. intros oc _. ring.
  - apply pbsum_scale.
  - apply pbsum_scale.
  - destruct (resolve (length p) (s0 :: w)) as [[|i idx]|e]; try ring.
    apply (pbsum_scale O p c (fun l => F (getitems l (i :: idx)))).
Qed.

Lemma src_sum_add s F G : src_sum s (fun r => F r + G r) = src_sum s F + src_sum s G.
Proof.
  destruct s as [h|p|p [|s0 w]]; cbn [src_sum].
  - rewrite <- lsum_add. apply lsum_ext. intros oc _. ring.
  - apply pbsum_add.
  - apply pbsum_add.
  - destruct (resolve (length p) (s0 :: w)) as [[|i idx]|e]; try ring.
    apply (pbsum_add O p (fun l => F (getitems l (i :: idx))) (fun l => G (getitems l (i :: idx)))).
Qed.

Theorem src_results_sum s rs F : src_ok s -> src_results O pad s = Ok rs ->
  lsum (fun rc => snd rc * F (fst rc)) rs = src_sum s F.
Proof.
  intros Hok Hrs. destruct s as [h|p|p w].
  - cbn [src_results] in Hrs. injection Hrs as <-. cbn [src_sum].
    rewrite lsum_map. apply lsum_ext. intros oc _. reflexivity.
  - destruct Hok as [Hp Hne]. cbn [src_results] in Hrs. cbn [src_sum].
    destruct (rwc_none_correct O pad p Hp Hne) as (rolls & Hr & Hs).
    rewrite Hrs in Hr. injection Hr as ->.
    rewrite <- Hs, wsum_as_lsum. reflexivity.
  - destruct Hok as (Hp & Hne & idx & Hres). destruct w as [|s0 w].
    + cbn [src_results] in Hrs. cbn [src_sum].
      destruct (rwc_none_correct O pad p Hp Hne) as (rolls & Hr & Hs).
      rewrite Hrs in Hr. injection Hr as ->.
      rewrite <- Hs, wsum_as_lsum. reflexivity.
    + cbn [src_results] in Hrs. cbn [src_sum]. rewrite Hres.
      destruct (rwc_some_correct O pad p (s0 :: w) idx Hp Hne Hres) as (rolls & Hr & He & Hn).
      rewrite Hrs in Hr. injection Hr as ->.
      destruct idx as [|i idx].
      * rewrite (He eq_refl). reflexivity.
      * rewrite <- (Hn ltac:(discriminate) F), wsum_as_lsum. reflexivity.
Qed.

Theorem src_results_ok s : src_ok s -> exists rs, src_results O pad s = Ok rs.
Proof.
  intros Hok. destruct s as [h|p|p w].
  - eexists. reflexivity.
  - destruct Hok as [Hp Hne]. cbn [src_results].
    destruct (rwc_none_correct O pad p Hp Hne) as (rolls & Hr & _). exists rolls. exact Hr.
  - destruct Hok as (Hp & Hne & idx & Hres). destruct w as [|s0 w]; cbn [src_results].
    + destruct (rwc_none_correct O pad p Hp Hne) as (rolls & Hr & _). exists rolls. exact Hr.
    + destruct (rwc_some_correct O pad p (s0 :: w) idx Hp Hne Hres) as (rolls & Hr & _).
      exists rolls. exact Hr.
Qed.

(* conversely: on a well-formed non-empty pool the only failure is that of the selection *)
Theorem src_results_err p w e : resolve (length p) w = Err e -> src_results O pad (SPW p w) = Err e.
Proof.
  intros H. destruct w as [|s0 w]; [cbn [resolve] in H; discriminate|].
  cbn [src_results]. apply rwc_error. exact H.
Qed.

(* ---- the product of the result iterables ---- *)
Fixpoint nested (rss : list (list (result (T:=T) * Z))) (F : list (result (T:=T)) -> Z) : Z :=
  match rss with
  | [] => F []
  | rs :: rest => lsum (fun rc => snd rc * nested rest (fun l => F (fst rc :: l))) rs
  end.

Lemma results_product_sum rss : forall F,
  lsum (fun b => snd b * F (fst b)) (results_product rss) = nested rss F.
Proof.
  induction rss as [|rs rss IH]; intros F; cbn [results_product nested].
  - cbn [lsum fst snd]. ring.
  - rewrite lsum_flat_map. apply lsum_ext. intros rc _. rewrite lsum_map. cbn [fst snd].
    rewrite <- IH, <- lsum_scale. apply lsum_ext. intros b _. ring.
Qed.

Lemma nested_ext rss : forall F G, (forall l, F l = G l) -> nested rss F = nested rss G.
Proof.
  induction rss as [|rs rss IH]; intros F G H; cbn [nested]; [apply H|].
  apply lsum_ext. intros rc _. f_equal. apply IH. intros l. apply H.
Qed.

(* nested brute force over a list of sources *)
Fixpoint srcs_sum (srcs : list (source (T:=T))) (F : list (result (T:=T)) -> Z) : Z :=
  match srcs with
  | [] => F []
  | s :: rest => src_sum s (fun r => srcs_sum rest (fun rs => F (r :: rs)))
  end.

Lemma srcs_sum_ext srcs : forall F G, (forall l, F l = G l) -> srcs_sum srcs F = srcs_sum srcs G.
Proof.
  induction srcs as [|s srcs IH]; intros F G H; cbn [srcs_sum]; [apply H|].
  apply src_sum_ext. intros r. apply IH. intros l. apply H.
Qed.

Lemma nested_srcs_sum srcs rss : Forall src_ok srcs ->
  Forall2 (fun s rs => src_results O pad s = Ok rs) srcs rss ->
  forall F, nested rss F = srcs_sum srcs F.
Proof.
  intros Hok H2. induction H2 as [|s rs srcs rss Hs _ IH]; intros F; cbn [nested srcs_sum]; [reflexivity|].
  inversion Hok as [|? ? Hoks Hokr]; subst.
  rewrite <- (src_results_sum s rs _ Hoks Hs).
  apply lsum_ext. intros rc _. f_equal. apply (IH Hokr).
Qed.

Lemma branches_inv srcs bs : branches O pad srcs = Ok bs ->
  exists rss, Forall2 (fun s rs => src_results O pad s = Ok rs) srcs rss /\ bs = results_product rss.
Proof.
  unfold branches. intros H.
  destruct (seq_res (map (src_results O pad) srcs)) as [rss|e] eqn:E; [|discriminate].
  injection H as <-. exists rss. split; [|reflexivity]. apply seq_res_Forall2. exact E.
Qed.

Theorem branches_sum srcs bs F : Forall src_ok srcs -> branches O pad srcs = Ok bs ->
  lsum (fun b => snd b * F (fst b)) bs = srcs_sum srcs F.
Proof.
  intros Hok Hbs. destruct (branches_inv srcs bs Hbs) as (rss & H2 & ->).
  rewrite results_product_sum. apply nested_srcs_sum; assumption.
Qed.

Theorem branches_ok srcs : Forall src_ok srcs -> exists bs, branches O pad srcs = Ok bs.
Proof.
  intros Hok. unfold branches.
  destruct (seq_res_ok (src_results O pad) srcs) as [rss Hrss].
  - apply Forall_impl with (2 := Hok). intros s Hs. apply src_results_ok. exact Hs.
  - rewrite Hrss. eexists. reflexivity.
Qed.

(* the weights of all branches add up to the product of the sources' totals (what the branch
   precision divides by), provided every selection picks at least one position *)
Definition src_nonempty_sel (s : source (T:=T)) : Prop :=
  match s with
  | SPW p ((_ :: _) as w) => forall idx, resolve (length p) w = Ok idx -> idx <> []
  | _ => True
  end.

Lemma src_sum_const s c : src_ok s -> src_nonempty_sel s -> src_sum s (fun _ => c) = src_total s * c.
Proof.
  intros Hok Hsel. destruct s as [h|p|p [|s0 w]]; cbn [src_sum src_total].
  - unfold total. rewrite Z.mul_comm, <- lsum_scale. apply lsum_ext. intros oc _. ring.
  - apply pbsum_const.
  - apply pbsum_const.
  - destruct Hok as (_ & _ & idx & Hres). rewrite Hres.
    pose proof (Hsel idx Hres) as Hne. destruct idx as [|i idx]; [contradiction|].
    apply (pbsum_const O p c).
Qed.

Lemma srcs_sum_const srcs c : Forall src_ok srcs -> Forall src_nonempty_sel srcs ->
  srcs_sum srcs (fun _ => c) = srcs_total srcs * c.
Proof.
  intros Hok Hsel. induction srcs as [|s srcs IH]; cbn [srcs_sum srcs_total fold_right]; [ring|].
  fold (srcs_total srcs).
  inversion Hok as [|? ? Hoks Hokr]; subst. inversion Hsel as [|? ? Hsels Hselr]; subst.
  rewrite (src_sum_ext s _ (fun _ => srcs_total srcs * c)) by (intros r; apply IH; assumption).
  rewrite src_sum_const by assumption. ring.
Qed.

Theorem branches_total srcs bs : Forall src_ok srcs -> Forall src_nonempty_sel srcs ->
  branches O pad srcs = Ok bs -> lsum snd bs = srcs_total srcs.
Proof.
  intros Hok Hsel Hbs.
  pose proof (branches_sum srcs bs (fun _ => 1) Hok Hbs) as H.
  rewrite srcs_sum_const in H by assumption.
  rewrite Z.mul_1_r in H. rewrite <- H. apply lsum_ext. intros b _. ring.
Qed.

(* one source whose selection resolves to no position makes the whole product empty *)
Theorem src_results_empty_sel p w rs : src_ok (SPW p w) -> w <> [] -> resolve (length p) w = Ok [] ->
  src_results O pad (SPW p w) = Ok rs -> rs = [].
Proof.
  intros (Hp & Hne & _) Hw Hres Hrs. destruct w as [|s0 w]; [contradiction|].
  cbn [src_results] in Hrs.
  destruct (rwc_some_correct O pad p (s0 :: w) [] Hp Hne Hres) as (rolls & Hr & He & _).
  rewrite Hrs in Hr. injection Hr as ->. apply He. reflexivity.
Qed.

(* hence: foreach with an arbitrary non-recursive callback cbv, written against brute force - the
   count of z in the (unreduced) aggregate is mixsum over the branches, and every linear
   functional of the branch list is the nested brute-force sum *)
Theorem foreach_against_brute_force fuel srcl sent (cbv : list (result (T:=T)) -> val (T:=T)) r :
  (1 <= fuel)%nat -> Forall src_ok srcl ->
  foreach O pad fuel srcl sent (fun rs => ret_of_val (cbv rs)) None = Ok r ->
  exists bs h, branches O pad srcl = Ok bs /\ aggw O (map (fun b => (cbv (fst b), snd b)) bs) = Ok h /\
    r = lowest O h /\ (forall F, lsum (fun b => snd b * F (fst b)) bs = srcs_sum srcl F).
Proof.
  intros Hf Hok Hfe. rewrite foreach_unfold in Hfe by exact Hf.
  destruct (branches_ok srcl Hok) as [bs Hbs]. rewrite Hbs in Hfe.
  destruct (aggw O (map (fun b => (cbv (fst b), snd b)) bs)) as [h|e] eqn:Ha; [|discriminate].
  injection Hfe as <-. exists bs, h. split; [exact Hbs|]. split; [exact Ha|]. split; [reflexivity|].
  intros F. apply branches_sum; assumption.
Qed.

(* the same with the count of every outcome z of the unreduced aggregate spelled out *)
Corollary foreach_count_against_brute_force fuel srcl sent (cbv : list (result (T:=T)) -> val (T:=T)) r :
  (1 <= fuel)%nat -> Forall src_ok srcl ->
  foreach O pad fuel srcl sent (fun rs => ret_of_val (cbv rs)) None = Ok r ->
  exists bs h, branches O pad srcl = Ok bs /\ r = lowest O h /\
    (forall z, cnt O h z = mixsum (fun v => vcnt O v z) (map (fun b => (cbv (fst b), snd b)) bs)) /\
    (forall F, lsum (fun b => snd b * F (fst b)) bs = srcs_sum srcl F).
Proof.
  intros Hf Hok Hfe.
  destruct (foreach_against_brute_force fuel srcl sent cbv r Hf Hok Hfe) as (bs & h & Hbs & Ha & Hr & HF).
  exists bs, h. split; [exact Hbs|]. split; [exact Hr|]. split; [|exact HF].
  intros z. apply aggw_cnt. exact Ha.
Qed.
End P.

Print Assumptions src_results_sum.
Print Assumptions src_results_ok.
Print Assumptions src_results_err.
Print Assumptions src_results_empty_sel.
Print Assumptions branches_sum.
Print Assumptions branches_ok.
Print Assumptions branches_total.
Print Assumptions foreach_against_brute_force.
Print Assumptions foreach_count_against_brute_force.
