(* Histogram arithmetic (H.map / rmap / umap): exact convolution counts, totals,
   well-formedness, agreement of the raising and total versions, and invariance of
   counts under zero-count faces, common multipliers and count-equal operands. *)
From Coq Require Import ZArith List Lia Bool Arith Permutation.
From Dyce Require Import Base.Sums Base.Order Base.Hist Model.Arith.
Import ListNotations. Open Scope Z_scope.

(* ---------- rmapM ---------- *)
Lemma rmapM_ok {A B} (f : A -> res B) (g : A -> B) l :
  (forall x, In x l -> f x = Ok (g x)) -> rmapM f l = Ok (map g l).
Proof.
  induction l as [|x l IH]; intros H; cbn [rmapM map]; [reflexivity|].
  rewrite (H x (or_introl eq_refl)). rewrite IH by (intros; apply H; right; assumption). reflexivity.
Qed.

Lemma rmapM_ok_inv {A B} (f : A -> res B) l : forall ys,
  rmapM f l = Ok ys -> forall y, In y ys -> exists x, In x l /\ f x = Ok y.
Proof.
  induction l as [|x l IH]; intros ys H y Hy; cbn [rmapM] in H.
  - injection H as <-. destruct Hy.
  - destruct (f x) as [v|e] eqn:Fx; [|discriminate].
    destruct (rmapM f l) as [vs|e] eqn:R; [|discriminate].
    injection H as <-. destruct Hy as [E|Hy].
    + subst y. exists x. split; [left; reflexivity|exact Fx].
    + destruct (IH vs eq_refl y Hy) as [x' [Hin Hx']]. exists x'. split; [right; exact Hin|exact Hx'].
Qed.

Lemma rmapM_err {A B} (f : A -> res B) l :
  (exists e, rmapM f l = Err e) <-> exists x e, In x l /\ f x = Err e.
Proof.
  induction l as [|x l IH]; cbn [rmapM].
  - split; [intros [e He]; discriminate|intros [x [e [[] _]]]].
  - destruct (f x) as [v|e] eqn:Fx.
    + destruct (rmapM f l) as [vs|e'] eqn:R.
      * split; [intros [e He]; discriminate|].
        intros [x' [e [[E|Hin] He]]]; [subst x'; congruence|].
        destruct (proj2 IH (ex_intro _ x' (ex_intro _ e (conj Hin He)))) as [e0 He0]. discriminate.
      * split; [intros _|intros _; eexists; reflexivity].
        destruct (proj1 IH (ex_intro _ e' eq_refl)) as [x' [e [Hin He]]].
        exists x', e. split; [right; exact Hin|exact He].
    + split; [intros _|intros _; eexists; reflexivity].
      exists x, e. split; [left; reflexivity|exact Fx].
Qed.

Lemma map_list_prod {A B C} (g : A * B -> C) (a : list A) (b : list B) :
  map g (list_prod a b) = flat_map (fun x => map (fun y => g (x, y)) b) a.
Proof.
  induction a as [|x a IH]; cbn [list_prod flat_map map]; [reflexivity|].
  rewrite map_app, map_map, IH. reflexivity.
Qed.

Section P.
Context {T : Type} (O : ord T).

Lemma mkH_nonneg (l : list (T * Z)) : (forall oc, In oc l -> 0 <= snd oc) -> mkH O l = Ok (mk O l).
Proof.
  intros H. unfold mkH. destruct (existsb (fun oc => snd oc <? 0) l) eqn:E; [|reflexivity].
  exfalso. apply existsb_exists in E. destruct E as [oc [Hin Hlt]]. apply Z.ltb_lt in Hlt.
  pose proof (H oc Hin). lia.
Qed.

(* ---------- 1. binary, total operator ---------- *)
Theorem hmapT_cnt (op : T -> T -> T) (a b : hist T) z :
  cnt O (hmapT O op a b) z =
  lsum (fun x => lsum (fun y => if eqb O (op (fst x) (fst y)) z then snd x * snd y else 0) b) a.
Proof.
  unfold hmapT. rewrite cnt_mk, lsum_flat_map. apply lsum_ext. intros x _.
  rewrite lsum_map. cbn [fst snd]. reflexivity.
Qed.

Theorem hmapT_total (op : T -> T -> T) (a b : hist T) : total (hmapT O op a b) = total a * total b.
Proof.
  unfold hmapT. rewrite total_mk, lsum_flat_map.
  rewrite (lsum_ext a _ (fun x => total b * snd x)).
  - rewrite lsum_scale. unfold total. ring.
  - intros x _. rewrite lsum_map. cbn [snd]. rewrite lsum_scale. unfold total. ring.
Qed.

Lemma hmapT_entries_nonneg (op : T -> T -> T) (a b : hist T) : nonneg a -> nonneg b ->
  forall oc, In oc (flat_map (fun x => map (fun y => (op (fst x) (fst y), snd x * snd y)) b) a) -> 0 <= snd oc.
Proof.
  intros Ha Hb oc Hin. apply in_flat_map in Hin. destruct Hin as [x [Hx Hin]].
  apply in_map_iff in Hin. destruct Hin as [y [E Hy]]. subst oc. cbn [snd].
  pose proof (Ha x Hx). pose proof (Hb y Hy). apply Z.mul_nonneg_nonneg; assumption.
Qed.

Theorem hmapT_wf op a b : nonneg a -> nonneg b -> wf O (hmapT O op a b).
Proof.
  intros Ha Hb. unfold hmapT. split; [apply sasc_mk|].
  apply nonneg_mk. apply hmapT_entries_nonneg; assumption.
Qed.

(* ---------- 2. unary relabelling ---------- *)
Theorem humapT_cnt (f : T -> T) (a : hist T) z :
  cnt O (humapT O f a) z = lsum (fun x => if eqb O (f (fst x)) z then snd x else 0) a.
Proof. unfold humapT. rewrite cnt_mk, lsum_map. cbn [fst snd]. reflexivity. Qed.

Theorem humapT_total f a : total (humapT O f a) = total a.
Proof. unfold humapT. rewrite total_mk, lsum_map. cbn [snd]. reflexivity. Qed.

Theorem humapT_wf f a : nonneg a -> wf O (humapT O f a).
Proof.
  intros Ha. unfold humapT. split; [apply sasc_mk|]. apply nonneg_mk.
  intros oc Hin. apply in_map_iff in Hin. destruct Hin as [x [E Hx]]. subst oc. cbn [snd]. apply Ha. exact Hx.
Qed.

Theorem humapT_inj (f : T -> T) a x : sasc O (keys a) -> (forall u v, f u = f v -> u = v) ->
  cnt O (humapT O f a) (f x) = cnt O a x.
Proof.
  intros _ Hinj. rewrite humapT_cnt, cnt_as_lsum. apply lsum_ext. intros oc _.
  destruct (eqb_spec O (f (fst oc)) (f x)) as [E|N], (eqb_spec O (fst oc) x) as [E'|N']; try reflexivity.
  - exfalso. apply N'. apply Hinj. exact E.
  - exfalso. apply N. rewrite E'. reflexivity.
Qed.

(* ---------- 3. operators that may raise ---------- *)
Theorem hmap_total_op (op : T -> T -> res T) (opT : T -> T -> T) a b :
  nonneg a -> nonneg b ->
  (forall x y, In x (keys a) -> In y (keys b) -> op x y = Ok (opT x y)) ->
  hmap O op a b = Ok (hmapT O opT a b).
Proof.
  intros Ha Hb Hop. unfold hmap.
  rewrite (rmapM_ok _ (fun xy : (T * Z) * (T * Z) =>
             (opT (fst (fst xy)) (fst (snd xy)), snd (fst xy) * snd (snd xy)))).
  - rewrite map_list_prod. cbn [fst snd]. rewrite mkH_nonneg; [reflexivity|].
    apply hmapT_entries_nonneg; assumption.
  - intros [x y] Hin. apply in_prod_iff in Hin. destruct Hin as [Hx Hy]. cbn [fst snd].
    rewrite Hop; [reflexivity| |]; unfold keys; apply in_map; assumption.
Qed.

Theorem hmap_raises_iff (op : T -> T -> res T) a b : nonneg a -> nonneg b ->
  ((exists e, hmap O op a b = Err e) <-> exists x y e, In x (keys a) /\ In y (keys b) /\ op x y = Err e).
Proof.
  intros Ha Hb. unfold hmap.
  set (F := fun xy : (T * Z) * (T * Z) =>
              match op (fst (fst xy)) (fst (snd xy)) with
              | Ok v => Ok (v, snd (fst xy) * snd (snd xy))
              | Err e => Err e
              end).
  assert (HF : (exists xy e, In xy (list_prod a b) /\ F xy = Err e) <->
               exists x y e, In x (keys a) /\ In y (keys b) /\ op x y = Err e).
  { split.
    - intros [[x y] [e [Hin He]]]. apply in_prod_iff in Hin. destruct Hin as [Hx Hy].
      exists (fst x), (fst y), e. split; [unfold keys; apply in_map; exact Hx|].
      split; [unfold keys; apply in_map; exact Hy|].
      unfold F in He. cbn [fst snd] in He. destruct (op (fst x) (fst y)) as [v|e0]; [discriminate|congruence].
    - intros [x [y [e [Hx [Hy He]]]]]. unfold keys in Hx, Hy.
      apply in_map_iff in Hx. destruct Hx as [xc [Ex Hx]].
      apply in_map_iff in Hy. destruct Hy as [yc [Ey Hy]]. subst x y.
      exists (xc, yc), e. split; [apply in_prod; assumption|].
      unfold F. cbn [fst snd]. rewrite He. reflexivity. }
  rewrite <- HF. rewrite <- rmapM_err.
  destruct (rmapM F (list_prod a b)) as [l|e] eqn:R.
  - split; [|intros [e He]; discriminate].
    intros [e He]. exfalso.
    destruct (proj1 (mkH_err O l) (ex_intro _ e He)) as [oc [Hin Hlt]].
    destruct (rmapM_ok_inv F _ l R oc Hin) as [[x y] [Hxy Hoc]].
    apply in_prod_iff in Hxy. destruct Hxy as [Hx Hy].
    unfold F in Hoc. cbn [fst snd] in Hoc. destruct (op (fst x) (fst y)) as [v|e']; [|discriminate].
    injection Hoc as <-. cbn [snd] in Hlt.
    pose proof (Ha x Hx). pose proof (Hb y Hy).
    assert (0 <= snd x * snd y) by (apply Z.mul_nonneg_nonneg; assumption). lia.
  - split; intros _; exists e; reflexivity.
Qed.

Theorem humap_total_op (f : T -> res T) (fT : T -> T) a : nonneg a ->
  (forall x, In x (keys a) -> f x = Ok (fT x)) -> humap O f a = Ok (humapT O fT a).
Proof.
  intros Ha Hf. unfold humap.
  rewrite (rmapM_ok _ (fun x : T * Z => (fT (fst x), snd x))).
  - rewrite mkH_nonneg; [reflexivity|].
    intros oc Hin. apply in_map_iff in Hin. destruct Hin as [x [E Hx]]. subst oc. cbn [snd]. apply Ha. exact Hx.
  - intros x Hx. rewrite Hf; [reflexivity|]. unfold keys. apply in_map. exact Hx.
Qed.

Theorem humap_raises_iff (f : T -> res T) a : nonneg a ->
  ((exists e, humap O f a = Err e) <-> exists x e, In x (keys a) /\ f x = Err e).
Proof.
  intros Ha. unfold humap.
  set (F := fun x : T * Z => match f (fst x) with Ok v => Ok (v, snd x) | Err e => Err e end).
  assert (HF : (exists xc e, In xc a /\ F xc = Err e) <-> exists x e, In x (keys a) /\ f x = Err e).
  { split.
    - intros [xc [e [Hin He]]]. exists (fst xc), e. split; [unfold keys; apply in_map; exact Hin|].
      unfold F in He. destruct (f (fst xc)) as [v|e0]; [discriminate|congruence].
    - intros [x [e [Hx He]]]. unfold keys in Hx. apply in_map_iff in Hx. destruct Hx as [xc [Ex Hx]]. subst x.
      exists xc, e. split; [exact Hx|]. unfold F. rewrite He. reflexivity. }
  rewrite <- HF. rewrite <- rmapM_err.
  destruct (rmapM F a) as [l|e] eqn:R.
  - split; [|intros [e He]; discriminate].
    intros [e He]. exfalso.
    destruct (proj1 (mkH_err O l) (ex_intro _ e He)) as [oc [Hin Hlt]].
    destruct (rmapM_ok_inv F _ l R oc Hin) as [x [Hx Hoc]].
    unfold F in Hoc. destruct (f (fst x)) as [v|e']; [|discriminate].
    injection Hoc as <-. cbn [snd] in Hlt. pose proof (Ha x Hx). lia.
  - split; intros _; exists e; reflexivity.
Qed.

(* ---------- 4. multipliers, zero-count faces, extensionality in the counts ---------- *)
Definition scale (k : Z) (h : hist T) : hist T := map (fun oc => (fst oc, k * snd oc)) h.

Theorem hmapT_scale_l op k a b z : cnt O (hmapT O op (scale k a) b) z = k * cnt O (hmapT O op a b) z.
Proof.
  rewrite !hmapT_cnt. unfold scale. rewrite lsum_map. cbn [fst snd]. rewrite <- lsum_scale.
  apply lsum_ext. intros x _. rewrite <- lsum_scale. apply lsum_ext. intros y _.
  destruct (eqb O (op (fst x) (fst y)) z); ring.
Qed.

Theorem hmapT_scale_r op k a b z : cnt O (hmapT O op a (scale k b)) z = k * cnt O (hmapT O op a b) z.
Proof.
  rewrite !hmapT_cnt. unfold scale. rewrite <- lsum_scale.
  apply lsum_ext. intros x _. rewrite lsum_map. cbn [fst snd]. rewrite <- lsum_scale. apply lsum_ext. intros y _.
  destruct (eqb O (op (fst x) (fst y)) z); ring.
Qed.

Theorem hmapT_zero_face_l op a b o z : cnt O (hmapT O op ((o, 0) :: a) b) z = cnt O (hmapT O op a b) z.
Proof.
  rewrite !hmapT_cnt. cbn [lsum fst snd].
  rewrite (lsum_ext b _ (fun _ => 0)).
  - rewrite lsum_zero. ring.
  - intros y _. destruct (eqb O (op o (fst y)) z); ring.
Qed.

Theorem hmapT_zero_face_r op a b o z : cnt O (hmapT O op a ((o, 0) :: b)) z = cnt O (hmapT O op a b) z.
Proof.
  rewrite !hmapT_cnt. apply lsum_ext. intros x _. cbn [lsum fst snd].
  destruct (eqb O (op (fst x) o) z); ring.
Qed.

(* dropping the zero-count faces *)
Definition nz (h : hist T) : hist T := filter (fun oc => negb (snd oc =? 0)) h.

Lemma lsum_nz (G : T -> Z) h :
  lsum (fun x => G (fst x) * snd x) (nz h) = lsum (fun x => G (fst x) * snd x) h.
Proof.
  induction h as [|[o c] h IH]; [reflexivity|]. unfold nz in *. cbn [filter snd lsum fst].
  destruct (Z.eqb_spec c 0) as [E|N]; cbn [negb lsum fst snd]; rewrite IH; [subst c; ring|reflexivity].
Qed.

Lemma cnt_nz h z : cnt O (nz h) z = cnt O h z.
Proof.
  induction h as [|[o c] h IH]; [reflexivity|]. unfold nz in *. cbn [filter snd cnt].
  destruct (Z.eqb_spec c 0) as [E|N]; cbn [negb cnt]; rewrite IH; [|reflexivity].
  subst c. destruct (eqb O o z); ring.
Qed.

Lemma in_keys_nz_sub h k : In k (keys (nz h)) -> In k (keys h).
Proof.
  unfold keys, nz. intros H. apply in_map_iff in H. destruct H as [oc [E H]].
  apply filter_In in H. destruct H as [H _]. subst k. apply in_map. exact H.
Qed.

Lemma nz_entries h oc : In oc (nz h) -> snd oc <> 0.
Proof.
  unfold nz. intros H. apply filter_In in H. destruct H as [_ H].
  destruct (Z.eqb_spec (snd oc) 0); [discriminate|assumption].
Qed.

Lemma sasc_nz h : sasc O (keys h) -> sasc O (keys (nz h)).
Proof.
  induction h as [|[o c] h IH]; [intros _; exact I|]. intros [Hlt Hs].
  change (nz ((o, c) :: h)) with (if negb (c =? 0) then (o, c) :: nz h else nz h).
  destruct (negb (c =? 0)); [|apply IH; exact Hs].
  split; [|apply IH; exact Hs]. intros y Hy. apply Hlt. apply in_keys_nz_sub. exact Hy.
Qed.

Lemma in_keys_cnt h k : sasc O (keys h) -> (forall oc, In oc h -> snd oc <> 0) ->
  (In k (keys h) <-> cnt O h k <> 0).
Proof.
  induction h as [|[o c] h IH]; intros Hs Hnz.
  - cbn [keys map In cnt]. split; [intros []|intros H; apply H; reflexivity].
  - pose proof (sasc_head_notin O _ _ Hs) as Hn. destruct Hs as [_ Hs].
    assert (Hc : c <> 0) by (apply (Hnz (o, c)); left; reflexivity).
    assert (IH' : In k (keys h) <-> cnt O h k <> 0)
      by (apply IH; [exact Hs|intros; apply Hnz; right; assumption]).
    unfold keys in *. cbn [map fst In cnt].
    destruct (eqb_spec O o k) as [E|N].
    + subst k. rewrite (cnt_notin O h o Hn). split; [intros _; lia|intros _; left; reflexivity].
    + rewrite Z.add_0_l. rewrite <- IH'. split; [intros [E|H]; [contradiction|exact H]|intros H; right; exact H].
Qed.

Lemma nz_eq a a' : sasc O (keys a) -> sasc O (keys a') ->
  (forall x, cnt O a x = cnt O a' x) -> nz a = nz a'.
Proof.
  intros Ha Ha' Hc. apply (hist_ext O); try (apply sasc_nz; assumption).
  - apply (sasc_unique O); try (apply sasc_nz; assumption).
    intros y. rewrite !in_keys_cnt; try (apply sasc_nz; assumption); try apply nz_entries.
    rewrite !cnt_nz, Hc. reflexivity.
  - intros z. rewrite !cnt_nz. apply Hc.
Qed.

(* a sum that is linear in the counts only depends on the count function *)
Lemma lsum_cnt_ext (G : T -> Z) a a' : sasc O (keys a) -> sasc O (keys a') ->
  (forall x, cnt O a x = cnt O a' x) ->
  lsum (fun x => G (fst x) * snd x) a = lsum (fun x => G (fst x) * snd x) a'.
Proof.
  intros Ha Ha' Hc. rewrite <- (lsum_nz G a), <- (lsum_nz G a'). rewrite (nz_eq a a' Ha Ha' Hc). reflexivity.
Qed.

Lemma hmapT_cnt_ext_l op a a' b z : sasc O (keys a) -> sasc O (keys a') ->
  (forall x, cnt O a x = cnt O a' x) ->
  cnt O (hmapT O op a b) z = cnt O (hmapT O op a' b) z.
Proof.
  intros Ha Ha' Hc. rewrite !hmapT_cnt.
  set (G := fun k => lsum (fun y => if eqb O (op k (fst y)) z then snd y else 0) b).
  assert (E : forall h : hist T,
    lsum (fun x => lsum (fun y => if eqb O (op (fst x) (fst y)) z then snd x * snd y else 0) b) h =
    lsum (fun x => G (fst x) * snd x) h).
  { intros h. apply lsum_ext. intros x _. unfold G. rewrite Z.mul_comm, <- lsum_scale.
    apply lsum_ext. intros y _. destruct (eqb O (op (fst x) (fst y)) z); ring. }
  rewrite !E. apply lsum_cnt_ext; assumption.
Qed.

Lemma hmapT_cnt_ext_r op a b b' z : sasc O (keys b) -> sasc O (keys b') ->
  (forall y, cnt O b y = cnt O b' y) ->
  cnt O (hmapT O op a b) z = cnt O (hmapT O op a b') z.
Proof.
  intros Hb Hb' Hc. rewrite !hmapT_cnt.
  set (G := fun k => lsum (fun x => if eqb O (op (fst x) k) z then snd x else 0) a).
  assert (E : forall h : hist T,
    lsum (fun x => lsum (fun y => if eqb O (op (fst x) (fst y)) z then snd x * snd y else 0) h) a =
    lsum (fun y => G (fst y) * snd y) h).
  { intros h. rewrite lsum_swap. apply lsum_ext. intros y _. unfold G. rewrite Z.mul_comm, <- lsum_scale.
    apply lsum_ext. intros x _. destruct (eqb O (op (fst x) (fst y)) z); ring. }
  rewrite !E. apply lsum_cnt_ext; assumption.
Qed.

Theorem hmapT_cnt_ext op a a' b b' z : sasc O (keys a) -> sasc O (keys a') -> sasc O (keys b) -> sasc O (keys b') ->
  (forall x, cnt O a x = cnt O a' x) -> (forall y, cnt O b y = cnt O b' y) ->
  cnt O (hmapT O op a b) z = cnt O (hmapT O op a' b') z.
Proof.
  intros Ha Ha' Hb Hb' Hca Hcb.
  rewrite (hmapT_cnt_ext_l op a a' b z Ha Ha' Hca). apply hmapT_cnt_ext_r; assumption.
Qed.
End P.

Print Assumptions hmapT_cnt.
Print Assumptions hmap_raises_iff.
Print Assumptions hmapT_cnt_ext.
