(* The store of immutable objects: no public operation, successful or failing, changes any existing
   object (frame property), the store only grows, failing operations leave it untouched, and
   well-formedness is preserved. *)
From Coq Require Import ZArith QArith Qcanon List Bool Lia.
From Dyce Require Import Base.Sums Base.Order Base.Hist Base.QcOrd Model.Select Model.Pool Model.Equality
  Model.Arith Model.Draw Model.Store.
Import ListNotations.
Open Scope Z_scope.

(* ---------- well-formedness ---------- *)

(* well-formed store: every reference points to an allocated cell *)
Definition store_ok (s : store) : Prop :=
  forall i, (i < length (objs s))%nat ->
    match get_obj s i with
    | HObj d => (d < length (dicts s))%nat
    | PObj dice => Forall (fun j => (j < length (objs s))%nat /\ exists d, get_obj s j = HObj d) dice
    | RObj srcs _ => Forall (fun j => (j < length (objs s))%nat) srcs
    end.

(* an allocated H object *)
Definition is_h (s : store) (j : nat) : Prop :=
  (j < length (objs s))%nat /\ exists d, get_obj s j = HObj d.

(* the body of [store_ok], for one object *)
Definition obj_ok (s : store) (o : obj) : Prop :=
  match o with
  | HObj d => (d < length (dicts s))%nat
  | PObj dice => Forall (is_h s) dice
  | RObj srcs _ => Forall (fun j => (j < length (objs s))%nat) srcs
  end.

Lemma store_ok_obj_ok s : store_ok s <-> forall i, (i < length (objs s))%nat -> obj_ok s (get_obj s i).
Proof.
  unfold store_ok, obj_ok, is_h. split; intros H i Hi; specialize (H i Hi);
    destruct (get_obj s i); exact H.
Qed.

Lemma store0_ok : store_ok store0.
Proof. intros i Hi. cbn [store0 objs length] in Hi. lia. Qed.

(* ---------- extension ---------- *)

Definition extends (s s' : store) : Prop :=
  exists ds os, dicts s' = dicts s ++ ds /\ objs s' = objs s ++ os.

Lemma extends_refl s : extends s s.
Proof. exists [], []. now rewrite !app_nil_r. Qed.

Lemma extends_trans s1 s2 s3 : extends s1 s2 -> extends s2 s3 -> extends s1 s3.
Proof.
  intros (ds & os & Hd & Ho) (ds' & os' & Hd' & Ho').
  exists (ds ++ ds'), (os ++ os'). rewrite Hd', Ho', Hd, Ho, !app_assoc. auto.
Qed.

Lemma extends_new_h s h : extends s (fst (new_h s h)).
Proof. unfold new_h. cbn [fst dicts objs]. eexists _, _. split; reflexivity. Qed.

Lemma extends_new_obj s o : extends s (fst (new_obj s o)).
Proof. unfold new_obj. cbn [fst dicts objs]. exists [], [o]. now rewrite app_nil_r. Qed.

Lemma extends_len_objs s s' : extends s s' -> (length (objs s) <= length (objs s'))%nat.
Proof. intros (ds & os & _ & Ho). rewrite Ho, app_length. lia. Qed.

Lemma extends_len_dicts s s' : extends s s' -> (length (dicts s) <= length (dicts s'))%nat.
Proof. intros (ds & os & Hd & _). rewrite Hd, app_length. lia. Qed.

Lemma extends_get_obj s s' i : extends s s' -> (i < length (objs s))%nat -> get_obj s' i = get_obj s i.
Proof. intros (ds & os & _ & Ho) Hi. unfold get_obj. rewrite Ho. now apply app_nth1. Qed.

Lemma extends_get_dict s s' d : extends s s' -> (d < length (dicts s))%nat -> get_dict s' d = get_dict s d.
Proof. intros (ds & os & Hd & _) Hi. unfold get_dict. rewrite Hd. now apply app_nth1. Qed.

Lemma extends_h_items s s' j : store_ok s -> extends s s' -> (j < length (objs s))%nat ->
  h_items s' j = h_items s j.
Proof.
  intros Hok Hex Hj. unfold h_items. rewrite (extends_get_obj _ _ _ Hex Hj).
  specialize (Hok j Hj). destruct (get_obj s j) as [d|dice|srcs ann]; auto.
  now apply extends_get_dict.
Qed.

Lemma extends_observe s s' i : store_ok s -> extends s s' -> (i < length (objs s))%nat ->
  observe s' i = observe s i.
Proof.
  intros Hok Hex Hi. unfold observe. rewrite (extends_get_obj _ _ _ Hex Hi).
  pose proof (Hok i Hi) as Hoi. destruct (get_obj s i) as [d|dice|srcs ann]; auto.
  - now rewrite (extends_get_dict _ _ _ Hex Hoi).
  - f_equal. apply map_ext_in. intros j Hj.
    rewrite Forall_forall in Hoi. destruct (Hoi j Hj) as [Hlt _].
    now apply extends_h_items.
Qed.

Lemma extends_is_h s s' j : extends s s' -> is_h s j -> is_h s' j.
Proof.
  intros Hex [Hlt [d Hd]]. split.
  - pose proof (extends_len_objs _ _ Hex). lia.
  - exists d. now rewrite (extends_get_obj _ _ _ Hex Hlt).
Qed.

Lemma extends_obj_ok s s' o : extends s s' -> obj_ok s o -> obj_ok s' o.
Proof.
  intros Hex Ho. destruct o as [d|dice|srcs ann]; cbn [obj_ok] in *.
  - pose proof (extends_len_dicts _ _ Hex). lia.
  - eapply Forall_impl; [|exact Ho]. intros j. now apply extends_is_h.
  - eapply Forall_impl; [|exact Ho]. intros j Hj. cbv beta in *.
    pose proof (extends_len_objs _ _ Hex). lia.
Qed.

(* ---------- allocation preserves well-formedness ---------- *)

Lemma get_obj_last ds os o : get_obj {| dicts := ds; objs := os ++ [o] |} (length os) = o.
Proof. unfold get_obj. cbn [objs]. now rewrite nth_middle. Qed.

Lemma new_obj_ok s o : store_ok s -> obj_ok s o -> store_ok (fst (new_obj s o)).
Proof.
  intros Hok Ho. pose proof (extends_new_obj s o) as Hex.
  apply store_ok_obj_ok. intros i Hi.
  rewrite store_ok_obj_ok in Hok.
  destruct (Nat.lt_ge_cases i (length (objs s))) as [Hlt|Hge].
  - rewrite (extends_get_obj _ _ _ Hex Hlt). eapply extends_obj_ok; eauto.
  - unfold new_obj in Hi |- *. cbn [fst objs] in Hi |- *. rewrite app_length in Hi. cbn [length] in Hi.
    assert (i = length (objs s)) as -> by lia.
    rewrite get_obj_last. eapply extends_obj_ok; [exact Hex|exact Ho].
Qed.

Lemma new_h_ok s h : store_ok s -> store_ok (fst (new_h s h)).
Proof.
  intros Hok. pose proof (extends_new_h s h) as Hex.
  apply store_ok_obj_ok. intros i Hi.
  rewrite store_ok_obj_ok in Hok.
  destruct (Nat.lt_ge_cases i (length (objs s))) as [Hlt|Hge].
  - rewrite (extends_get_obj _ _ _ Hex Hlt). eapply extends_obj_ok; eauto.
  - unfold new_h in Hi |- *. cbn [fst objs] in Hi |- *. rewrite app_length in Hi. cbn [length] in Hi.
    assert (i = length (objs s)) as -> by lia.
    rewrite get_obj_last. cbn [obj_ok dicts]. rewrite app_length. cbn [length]. lia.
Qed.

(* ---------- pools only reuse allocated H objects ---------- *)

Lemma insert_by_In {A} (le : A -> A -> bool) x y l : In x (insert_by le y l) -> x = y \/ In x l.
Proof.
  induction l as [|z t IH]; cbn [insert_by].
  - intros [->|[]]. now left.
  - destruct (le y z).
    + intros [->|H]; auto.
    + intros [->|H]; [right; now left|]. destruct (IH H); auto. right; now right.
Qed.

Lemma isort_by_In {A} (le : A -> A -> bool) x l : In x (isort_by le l) -> In x l.
Proof.
  unfold isort_by. induction l as [|y t IH]; cbn [fold_right]; auto.
  intros H. apply insert_by_In in H. destruct H as [->|H]; [now left|right; auto].
Qed.

Lemma pool_ids_In s l x : In x (pool_ids s l) -> In x l.
Proof. unfold pool_ids. intros H. apply isort_by_In in H. apply filter_In in H. tauto. Qed.

Lemma pool_ids_Forall s (P : nat -> Prop) l : Forall P l -> Forall P (pool_ids s l).
Proof. rewrite !Forall_forall. intros H x Hx. apply H. eapply pool_ids_In; eauto. Qed.

Lemma dice_of_is_h s i : store_ok s -> (i < length (objs s))%nat -> Forall (is_h s) (dice_of s i).
Proof.
  intros Hok Hi. specialize (Hok i Hi). unfold dice_of.
  destruct (get_obj s i) as [d|dice|srcs ann] eqn:E.
  - constructor; [|constructor]. split; eauto.
  - exact Hok.
  - constructor.
Qed.

Lemma firstn_In_ {A} n (l : list A) x : In x (firstn n l) -> In x l.
Proof. intros H. rewrite <- (firstn_skipn n l). apply in_or_app. now left. Qed.

Lemma skipn_In_ {A} n (l : list A) x : In x (skipn n l) -> In x l.
Proof. intros H. rewrite <- (firstn_skipn n l). apply in_or_app. now right. Qed.

(* ---------- operations ---------- *)

(* the operation only mentions allocated objects, where this matters: the operations that read
   only the items of their arguments (OAdd, ODraw, OAccumulate, OFlatten) or that reject anything
   that is not a roller (OAnnotate) need no assumption *)
Definition op_ok (s : store) (o : op) : Prop :=
  match o with
  | OAlias a | OLowest a => (a < length (objs s))%nat
  | OPool args => Forall (fun j => (j < length (objs s))%nat) args
  | OPoolIndex p _ | OPoolSlice p _ _ | OMatmulP _ p => (p < length (objs s))%nat
  | ORoller srcs _ => Forall (fun j => (j < length (objs s))%nat) srcs
  | OConst _ | OAdd _ _ | ODraw _ _ | OAccumulate _ _ | OFlatten _ | OAnnotate _ _
  | OSetItem _ | ORejected _ => True
  end.

(* the uniform version: every object id mentioned in the operation is allocated *)
Definition op_ids (o : op) : list nat :=
  match o with
  | OConst _ | ORejected _ => []
  | OAdd a b | OAccumulate a b => [a; b]
  | OAlias a | OLowest a | ODraw a _ | OSetItem a => [a]
  | OPool args => args
  | OPoolIndex p _ | OPoolSlice p _ _ | OMatmulP _ p | OFlatten p => [p]
  | ORoller srcs _ => srcs
  | OAnnotate r _ => [r]
  end.
Definition op_allocated (s : store) (o : op) : Prop :=
  Forall (fun j => (j < length (objs s))%nat) (op_ids o).

Lemma op_allocated_ok s o : op_allocated s o -> op_ok s o.
Proof.
  unfold op_allocated. destruct o; cbn [op_ids op_ok]; intros H; auto;
    now inversion H.
Qed.

Ltac step_cases :=
  unfold step; cbv beta zeta;
  repeat match goal with
  | |- context [match ?x with _ => _ end] => destruct x eqn:?
  end.

(* the store only grows: existing mappings and objects are never written *)
Theorem step_extends s o :
  exists ds os, dicts (fst (step s o)) = dicts s ++ ds /\ objs (fst (step s o)) = objs s ++ os.
Proof.
  change (extends s (fst (step s o))).
  destruct o; step_cases; cbn [fst];
    first [apply extends_refl | apply extends_new_h | apply extends_new_obj].
Qed.

(* FRAME: no operation, successful or failing, changes what can be observed of an existing object *)
Theorem step_frame s o i : store_ok s -> (i < length (objs s))%nat ->
  observe (fst (step s o)) i = observe s i.
Proof. intros Hok Hi. apply extends_observe; auto. apply step_extends. Qed.

(* a failing operation leaves the store exactly as it was *)
Theorem step_error_unchanged s o e : snd (step s o) = Err e -> fst (step s o) = s.
Proof.
  destruct o; step_cases; cbn [fst snd]; intros H; try reflexivity; discriminate H.
Qed.

Lemma flat_dice_is_h s args : store_ok s -> Forall (fun j => (j < length (objs s))%nat) args ->
  Forall (is_h s) (flat_map (dice_of s) args).
Proof.
  intros Hok Hargs. rewrite Forall_forall in *. intros x Hx.
  apply in_flat_map in Hx. destruct Hx as (a & Ha & Hx).
  pose proof (dice_of_is_h s a Hok (Hargs a Ha)) as Hd. rewrite Forall_forall in Hd. auto.
Qed.

(* well-formedness is preserved, provided the operation only mentions allocated objects *)
Theorem step_ok s o : store_ok s -> op_ok s o -> store_ok (fst (step s o)).
Proof.
  intros Hok Hop.
  destruct o; cbn [op_ok] in Hop; step_cases; cbn [fst];
    try exact Hok; try (apply new_h_ok; exact Hok); apply new_obj_ok; try exact Hok; cbn [obj_ok].
  - (* OAlias *)
    specialize (Hok a Hop). match goal with E : get_obj s a = _ |- _ => rewrite E in Hok end. exact Hok.
  - (* OPool *)
    apply pool_ids_Forall. now apply flat_dice_is_h.
  - (* OPoolSlice *)
    apply pool_ids_Forall. pose proof (dice_of_is_h s p Hok Hop) as Hd.
    rewrite Forall_forall in *. intros x Hx. apply Hd.
    eapply skipn_In_, firstn_In_, Hx.
  - (* OMatmulP *)
    apply pool_ids_Forall. pose proof (dice_of_is_h s p Hok Hop) as Hd.
    rewrite Forall_forall in *. intros x Hx. apply Hd.
    apply in_concat in Hx. destruct Hx as (l & Hl & Hx).
    apply repeat_spec in Hl. now subst l.
  - (* ORoller *)
    exact Hop.
  - (* OAnnotate *)
    destruct (Nat.lt_ge_cases r (length (objs s))) as [Hlt|Hge].
    + specialize (Hok r Hlt). match goal with E : get_obj s r = _ |- _ => rewrite E in Hok end. exact Hok.
    + exfalso. match goal with E : get_obj s r = _ |- _ => unfold get_obj in E; rewrite nth_overflow in E by lia; discriminate E end.
Qed.

(* a successful operation returns an allocated object *)
Theorem step_result_allocated s o r : store_ok s -> op_ok s o -> snd (step s o) = Ok r ->
  (r < length (objs (fst (step s o))))%nat.
Proof.
  intros Hok Hop.
  destruct o; cbn [op_ok] in Hop; step_cases; cbn [fst snd new_h new_obj objs]; intros Hr;
    try discriminate Hr; injection Hr as <-;
    try (rewrite app_length; cbn [length]; lia).
  - (* OLowest, already in lowest terms *) exact Hop.
  - (* OPoolIndex *)
    match goal with E : nth_error _ _ = Some _ |- _ => apply nth_error_In in E; rename E into Hin end.
    pose proof (dice_of_is_h s p Hok Hop) as Hd. rewrite Forall_forall in Hd.
    now destruct (Hd _ Hin).
Qed.

(* ---------- sequences of operations ---------- *)

(* every operation of the sequence is [op_ok] in the store where it runs *)
Fixpoint ops_ok (s : store) (ops : list op) : Prop :=
  match ops with
  | [] => True
  | o :: rest => op_ok s o /\ ops_ok (fst (step s o)) rest
  end.

Lemma steps_extends s ops : extends s (steps s ops).
Proof.
  revert s. induction ops as [|o rest IH]; intros s; cbn [steps].
  - apply extends_refl.
  - eapply extends_trans; [apply step_extends|apply IH].
Qed.

Theorem steps_ok s ops : store_ok s -> ops_ok s ops -> store_ok (steps s ops).
Proof.
  revert s. induction ops as [|o rest IH]; intros s Hok Hops; cbn [steps ops_ok] in *; auto.
  destruct Hops as [Ho Hrest]. apply IH; auto. now apply step_ok.
Qed.

Theorem steps_frame s ops i : store_ok s -> ops_ok s ops -> (i < length (objs s))%nat ->
  observe (steps s ops) i = observe s i.
Proof.
  revert s. induction ops as [|o rest IH]; intros s Hok Hops Hi; cbn [steps ops_ok] in *; auto.
  destruct Hops as [Ho Hrest].
  rewrite IH; auto.
  - now apply step_frame.
  - now apply step_ok.
  - pose proof (extends_len_objs _ _ (step_extends s o)). lia.
Qed.

(* the frame property alone needs no assumption on the operations: existing objects are untouched
   even by operations that mention unallocated ids *)
Theorem steps_frame_any s ops i : store_ok s -> (i < length (objs s))%nat ->
  observe (steps s ops) i = observe s i.
Proof. intros Hok Hi. apply extends_observe; auto. apply steps_extends. Qed.

(* ---------- aliasing ---------- *)

(* H(a) shares the mapping of a: both show the same content, and a is unchanged *)
Theorem alias_shares_content s a s1 b : store_ok s -> (a < length (objs s))%nat ->
  step s (OAlias a) = (s1, Ok b) -> observe s1 b = observe s a /\ observe s1 a = observe s a.
Proof.
  intros Hok Ha Hstep.
  pose proof (step_frame s (OAlias a) a Hok Ha) as Hfr. rewrite Hstep in Hfr. cbn [fst] in Hfr.
  split; [|exact Hfr].
  pose proof (Hok a Ha) as Hoa.
  unfold step in Hstep. cbv beta zeta in Hstep.
  destruct (get_obj s a) as [d|dice|srcs ann] eqn:E; try discriminate Hstep.
  unfold new_obj in Hstep. cbn [fst snd] in Hstep. injection Hstep as <- <-.
  unfold observe. rewrite get_obj_last, E. unfold get_dict. cbn [dicts]. reflexivity.
Qed.

(* ... and whatever is done afterwards, both keep showing that same content *)
Theorem alias_stable s a s1 b ops : store_ok s -> (a < length (objs s))%nat ->
  step s (OAlias a) = (s1, Ok b) -> ops_ok s1 ops ->
  observe (steps s1 ops) a = observe s a /\ observe (steps s1 ops) b = observe s a /\
  exists items tot, observe s a = ObsH items tot.
Proof.
  intros Hok Ha Hstep Hops.
  destruct (alias_shares_content s a s1 b Hok Ha Hstep) as [Hb Haa].
  assert (Hok1 : store_ok s1).
  { pose proof (step_ok s (OAlias a) Hok Ha) as H. now rewrite Hstep in H. }
  assert (Hb1 : (b < length (objs s1))%nat).
  { pose proof (step_result_allocated s (OAlias a) b Hok Ha) as H. rewrite Hstep in H. now apply H. }
  assert (Ha1 : (a < length (objs s1))%nat).
  { pose proof (extends_len_objs _ _ (step_extends s (OAlias a))) as H. rewrite Hstep in H. cbn [fst] in H. lia. }
  repeat split.
  - rewrite steps_frame; auto.
  - rewrite steps_frame; auto.
  - unfold step in Hstep. cbv beta zeta in Hstep. unfold observe.
    destruct (get_obj s a) as [d|dice|srcs ann]; try discriminate Hstep. eauto.
Qed.

Print Assumptions step_frame.
Print Assumptions step_extends.
Print Assumptions step_error_unchanged.
Print Assumptions step_ok.
Print Assumptions steps_frame.
Print Assumptions alias_shares_content.
Print Assumptions alias_stable.
Print Assumptions step_result_allocated.
