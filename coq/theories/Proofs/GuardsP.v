From Coq Require Import ZArith QArith List Bool Lia.
From Dyce Require Import Base.Hist Model.Eval Model.Guards.
Import ListNotations.
Open Scope Z_scope.

(* integral values of any numeric type are accepted and treated as the integer they equal *)
Theorem as_int_accepts bt a z : integral_value a = Some z -> as_int_arg bt a = Ok z.
Proof. destruct a; cbn; intros H; try discriminate; try (injection H as <-; reflexivity);
  destruct (q_integral q); try discriminate; injection H as <-; reflexivity. Qed.
(* everything else is rejected: TypeError, or the type-checker's error for non-numbers when it is on *)
Theorem as_int_rejects bt a : integral_value a = None ->
  as_int_arg bt a = Err (if bt && negb (is_number a) then TypeCheck else TypeError).
Proof. destruct a; cbn; intros H; try discriminate; try (destruct bt; reflexivity);
  destruct (q_integral q); try discriminate; destruct bt; reflexivity. Qed.

Theorem count_accepts bt a z : integral_value a = Some z -> 0 <= z -> count_guard bt a = Ok z.
Proof. intros H Hz. unfold count_guard. rewrite (as_int_accepts bt a z H).
  destruct (Z.ltb_spec z 0); [lia|reflexivity]. Qed.
Theorem count_negative_rejected bt a z : integral_value a = Some z -> z < 0 -> count_guard bt a = Err ValueError.
Proof. intros H Hz. unfold count_guard. rewrite (as_int_accepts bt a z H).
  destruct (Z.ltb_spec z 0); [reflexivity|lia]. Qed.
Theorem count_nonintegral_rejected bt a : integral_value a = None ->
  exists e, count_guard bt a = Err e /\ (e = TypeError \/ e = TypeCheck).
Proof. intros H. unfold count_guard. rewrite (as_int_rejects bt a H).
  destruct (bt && negb (is_number a)); eexists; split; try reflexivity; tauto. Qed.

Theorem matmul_accepts bt a z : integral_value a = Some z -> 0 <= z -> matmul_guard bt a = Ok z.
Proof. exact (count_accepts bt a z). Qed.
Theorem matmul_negative_rejected bt a z : integral_value a = Some z -> z < 0 -> matmul_guard bt a = Err ValueError.
Proof. exact (count_negative_rejected bt a z). Qed.
Theorem matmul_nonintegral_rejected bt a : integral_value a = None ->
  exists e, matmul_guard bt a = Err e /\ (e = TypeError \/ e = TypeCheck).
Proof. exact (count_nonintegral_rejected bt a). Qed.

Theorem index_in_range bt n a i : is_index a = true -> integral_value a = Some i ->
  - Z.of_nat n <= i < Z.of_nat n ->
  index_guard bt n a = Ok (Z.to_nat (if i <? 0 then i + Z.of_nat n else i)).
Proof. intros Hi Hv Hr. unfold index_guard. rewrite Hi, Hv.
  destruct (Z.leb_spec 0 i); destruct (Z.ltb_spec i (Z.of_nat n)); cbn [andb].
  - destruct (Z.ltb_spec i 0); [lia|reflexivity].
  - lia.
  - destruct (Z.leb_spec (- Z.of_nat n) i); destruct (Z.ltb_spec i 0); cbn [andb]; try lia. reflexivity.
  - lia.
Qed.
Theorem index_out_of_range bt n a i : is_index a = true -> integral_value a = Some i ->
  (i < - Z.of_nat n \/ Z.of_nat n <= i) -> index_guard bt n a = Err IndexError.
Proof. intros Hi Hv Hr. unfold index_guard. rewrite Hi, Hv.
  destruct (Z.leb_spec 0 i); destruct (Z.ltb_spec i (Z.of_nat n)); cbn [andb]; try lia;
  destruct (Z.leb_spec (- Z.of_nat n) i); destruct (Z.ltb_spec i 0); cbn [andb]; try lia; reflexivity. Qed.
Theorem index_non_index_rejected bt n a : is_index a = false ->
  index_guard bt n a = Err (if bt then TypeCheck else TypeError).
Proof. intros H. unfold index_guard. rewrite H. reflexivity. Qed.

Theorem limit_illegal_int_rejected bt a z : limit_arg a = Some (RInt z) -> z < -1 -> limit_guard bt a = Err ValueError.
Proof. intros H Hz. unfold limit_guard. rewrite H. cbn [norm_limit].
  destruct (Z.eqb_spec z (-1)); [lia|]. destruct (Z.ltb_spec z 0); [reflexivity|lia]. Qed.
Theorem limit_fraction_outside_rejected bt a q : (limit_arg a = Some (RFrac q) \/ limit_arg a = Some (RFloat q)) ->
  (q <= 0 \/ 1 <= q)%Q -> limit_guard bt a = Err ValueError.
Proof. intros [H|H] Hq; unfold limit_guard; rewrite H; cbn [norm_limit];
  (destruct Hq as [Hq|Hq]; [rewrite (proj2 (Qle_bool_iff q 0) Hq); reflexivity|
    rewrite (proj2 (Qle_bool_iff 1 q) Hq); rewrite orb_true_r; reflexivity]). Qed.
Theorem limit_non_number_rejected bt : limit_guard bt AStr = Err (if bt then TypeCheck else TypeError).
Proof. reflexivity. Qed.
Theorem limit_valid_int bt a z : limit_arg a = Some (RInt z) -> 0 <= z -> limit_guard bt a = Ok (Some (LInt z)).
Proof. intros H Hz. unfold limit_guard. rewrite H. cbn [norm_limit].
  destruct (Z.eqb_spec z (-1)); [lia|]. destruct (Z.ltb_spec z 0); [lia|reflexivity]. Qed.

Theorem parity_accepts a z : integral_value a = Some z -> parity_guard a = Ok (Z.even z).
Proof. intros H. unfold parity_guard. rewrite H. reflexivity. Qed.
Theorem parity_rejects a : integral_value a = None -> parity_guard a = Err TypeError.
Proof. intros H. unfold parity_guard. rewrite H. reflexivity. Qed.
Theorem within_inverted_rejected lo hi : (hi < lo)%Q -> within_guard lo hi = Err ValueError.
Proof. intros H. unfold within_guard. destruct (Qle_bool lo hi) eqn:E; [|reflexivity].
  apply Qle_bool_iff in E. exfalso. apply (Qlt_not_le _ _ H E). Qed.
Theorem within_ordered_accepted lo hi : (lo <= hi)%Q -> within_guard lo hi = Ok tt.
Proof. intros H. unfold within_guard. rewrite (proj2 (Qle_bool_iff lo hi) H). reflexivity. Qed.
Theorem both_limits_rejected : both_limits_guard true true = Err ValueError.
Proof. reflexivity. Qed.
Theorem roll_outcome_none_rejected : roll_outcome_guard true 0 = Err ValueError.
Proof. reflexivity. Qed.
Theorem roll_outcome_none_with_sources n : roll_outcome_guard true (S n) = Ok tt.
Proof. reflexivity. Qed.
