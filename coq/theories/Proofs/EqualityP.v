(* H.lowest_terms, __eq__, __ne__, __hash__ and construction invariance:
   reduced form, "same distribution" characterisation of equality, hashing,
   regrouping and permutation of the constructor's input. *)
From Coq Require Import ZArith List Lia Bool Arith Permutation.
From Dyce Require Import Base.Sums Base.Order Base.Hist Model.Pool Model.Equality Proofs.ArithP.
Import ListNotations. Open Scope Z_scope.

Section P.
Context {T : Type} (O : ord T).

(* ---------- items_eqb ---------- *)
Lemma item_eqb_eq (x y : T * Z) : item_eqb O x y = true <-> x = y.
Proof.
  destruct x as [o c], y as [o' c']. unfold item_eqb. cbn [fst snd].
  rewrite andb_true_iff, (eqb_eq O), Z.eqb_eq.
  split; [intros [E1 E2]; subst; reflexivity|intros E; injection E; auto].
Qed.

Lemma items_eqb_eq (a b : hist T) : items_eqb O a b = true <-> a = b.
Proof.
  revert b. induction a as [|x a IH]; intros [|y b]; cbn [items_eqb].
  - split; reflexivity.
  - split; discriminate.
  - split; discriminate.
  - rewrite andb_true_iff, item_eqb_eq, IH.
    split; [intros [E1 E2]; subst; reflexivity|intros E; injection E; auto].
Qed.

Lemma items_eqb_refl (a : hist T) : items_eqb O a a = true.
Proof. apply items_eqb_eq. reflexivity. Qed.

Lemma items_eqb_sym (a b : hist T) : items_eqb O a b = items_eqb O b a.
Proof.
  destruct (items_eqb O a b) eqn:E1, (items_eqb O b a) eqn:E2; try reflexivity.
  - apply items_eqb_eq in E1. subst b. rewrite items_eqb_refl in E2. discriminate.
  - apply items_eqb_eq in E2. subst b. rewrite items_eqb_refl in E1. discriminate.
Qed.

(* ---------- counts_gcd ---------- *)
Lemma cgcd_cons (x : T * Z) h : counts_gcd (x :: h) = Z.gcd (snd x) (counts_gcd h).
Proof. reflexivity. Qed.

Lemma cgcd_nonneg (h : hist T) : 0 <= counts_gcd h.
Proof. destruct h as [|x h]; [cbv; discriminate|]. rewrite cgcd_cons. apply Z.gcd_nonneg. Qed.

Lemma cgcd_divide (h : hist T) oc : In oc h -> (counts_gcd h | snd oc).
Proof.
  induction h as [|x h IH]; intros Hin; [destruct Hin|]. rewrite cgcd_cons.
  destruct Hin as [E|Hin].
  - subst x. apply Z.gcd_divide_l.
  - eapply Z.divide_trans; [apply Z.gcd_divide_r|apply IH; exact Hin].
Qed.

Lemma cgcd_zero (h : hist T) : counts_gcd h = 0 -> forall oc, In oc h -> snd oc = 0.
Proof.
  intros Hg oc Hin. pose proof (cgcd_divide h oc Hin) as D. rewrite Hg in D.
  apply Z.divide_0_l. exact D.
Qed.

Lemma cgcd_nz (h : hist T) : counts_gcd (nz h) = counts_gcd h.
Proof.
  induction h as [|[o c] h IH]; [reflexivity|].
  change (nz ((o, c) :: h)) with (if negb (c =? 0) then (o, c) :: nz h else nz h).
  rewrite cgcd_cons. cbn [snd].
  destruct (Z.eqb_spec c 0) as [E|N]; cbn [negb].
  - subst c. rewrite Z.gcd_0_l_nonneg by apply cgcd_nonneg. exact IH.
  - rewrite cgcd_cons, IH. reflexivity.
Qed.

(* a common divisor of all k * c_i divides k * gcd(c) *)
Lemma cgcd_greatest (h : hist T) d k : 0 <= k ->
  (forall oc, In oc h -> (d | k * snd oc)) -> (d | k * counts_gcd h).
Proof.
  intros Hk. induction h as [|x h IH]; intros H.
  - change (counts_gcd (@nil (T * Z))) with 0. rewrite Z.mul_0_r. apply Z.divide_0_r.
  - rewrite cgcd_cons, <- Z.gcd_mul_mono_l_nonneg by exact Hk.
    apply Z.gcd_greatest; [apply H; left; reflexivity|].
    apply IH. intros oc Hin. apply H. right. exact Hin.
Qed.

Definition scl (k : Z) (h : hist T) : hist T := map (fun oc => (fst oc, k * snd oc)) h.
Definition dv (g : Z) (h : hist T) : hist T := map (fun oc => (fst oc, snd oc / g)) h.

Lemma cgcd_scl k h : 0 <= k -> counts_gcd (scl k h) = k * counts_gcd h.
Proof.
  intros Hk. induction h as [|x h IH].
  - change (0 = k * 0). ring.
  - change (scl k (x :: h)) with ((fst x, k * snd x) :: scl k h).
    rewrite !cgcd_cons. cbn [snd]. rewrite IH. apply Z.gcd_mul_mono_l_nonneg. exact Hk.
Qed.

Lemma div_mul_divide g c : (g | c) -> c / g * g = c.
Proof.
  intros [q E]. subst c. destruct (Z.eq_dec g 0) as [Hz0|N].
  - subst g. rewrite !Z.mul_0_r. reflexivity.
  - rewrite Z.div_mul by exact N. reflexivity.
Qed.

Lemma scl_dv g h : (forall oc, In oc h -> (g | snd oc)) -> scl g (dv g h) = h.
Proof.
  intros H. unfold scl, dv. rewrite map_map. cbn [fst snd].
  rewrite <- (map_id h) at 2. apply map_ext_in. intros [o c] Hin. cbn [fst snd].
  f_equal. pose proof (div_mul_divide g c (H (o, c) Hin)) as E. cbn [snd] in E. lia.
Qed.

Lemma keys_dv g h : keys (dv g h) = keys h.
Proof. unfold keys, dv. rewrite map_map. reflexivity. Qed.
Lemma keys_scl k h : keys (scl k h) = keys h.
Proof. unfold keys, scl. rewrite map_map. reflexivity. Qed.

Lemma cnt_scl k h z : cnt O (scl k h) z = k * cnt O h z.
Proof.
  induction h as [|[o c] h IH]; [cbn [scl map cnt]; ring|].
  change (scl k ((o, c) :: h)) with ((o, k * c) :: scl k h). cbn [cnt]. rewrite IH.
  destruct (eqb O o z); ring.
Qed.
Lemma total_scl k h : total (scl k h) = k * total h.
Proof.
  unfold total, scl. rewrite lsum_map. cbn [snd]. apply lsum_scale.
Qed.

Lemma cnt_dv g h z : (forall oc, In oc h -> (g | snd oc)) -> cnt O (dv g h) z * g = cnt O h z.
Proof.
  intros H. rewrite <- (scl_dv g h H) at 2. rewrite cnt_scl. ring.
Qed.
Lemma total_dv g h : (forall oc, In oc h -> (g | snd oc)) -> total (dv g h) * g = total h.
Proof.
  intros H. rewrite <- (scl_dv g h H) at 2. rewrite total_scl. ring.
Qed.

(* ---------- nz ---------- *)
Lemma in_nz (h : hist T) oc : In oc (nz h) <-> In oc h /\ snd oc <> 0.
Proof.
  unfold nz. rewrite filter_In. destruct (Z.eqb_spec (snd oc) 0) as [E|N]; cbn [negb]; intuition congruence.
Qed.

Lemma nz_id (h : hist T) : existsb (fun oc => snd oc =? 0) h = false -> nz h = h.
Proof.
  induction h as [|[o c] h IH]; [reflexivity|]. cbn [existsb snd]. intros H.
  apply orb_false_iff in H. destruct H as [H1 H2].
  change (nz ((o, c) :: h)) with (if negb (c =? 0) then (o, c) :: nz h else nz h).
  rewrite H1. cbn [negb]. rewrite IH by exact H2. reflexivity.
Qed.

Lemma total_nz (h : hist T) : total (nz h) = total h.
Proof.
  unfold total. induction h as [|[o c] h IH]; [reflexivity|].
  change (nz ((o, c) :: h)) with (if negb (c =? 0) then (o, c) :: nz h else nz h).
  destruct (Z.eqb_spec c 0) as [E|N]; cbn [negb lsum snd]; rewrite IH; [subst c; ring|reflexivity].
Qed.

Lemma nz_nil_iff (h : hist T) : nonneg h -> (nz h = [] <-> total h = 0).
Proof.
  induction h as [|[o c] h IH]; intros Hn; [split; reflexivity|].
  assert (Hc : 0 <= c) by (apply (Hn (o, c)); left; reflexivity).
  assert (Hn' : nonneg h) by (intros oc Hin; apply Hn; right; exact Hin).
  pose proof (total_nonneg h Hn') as Ht. specialize (IH Hn').
  change (nz ((o, c) :: h)) with (if negb (c =? 0) then (o, c) :: nz h else nz h).
  change (total ((o, c) :: h)) with (c + total h).
  destruct (Z.eqb_spec c 0) as [E|N]; cbn [negb].
  - subst c. rewrite IH. split; lia.
  - split; [discriminate|lia].
Qed.

(* ---------- lowest_terms as "divide the non-zero entries by the gcd" ---------- *)
Definition red (h : hist T) : hist T := dv (counts_gcd h) (nz h).

Lemma keys_red h : keys (red h) = keys (nz h).
Proof. apply keys_dv. Qed.

Lemma red_divides (h : hist T) : forall oc, In oc (nz h) -> (counts_gcd h | snd oc).
Proof. intros oc Hin. apply cgcd_divide. apply in_nz in Hin. tauto. Qed.

Lemma lowest_red h : sasc O (keys h) -> lowest O h = red h.
Proof.
  intros Hs. unfold lowest, red. cbv zeta. fold (nz h). fold (dv (counts_gcd h) (nz h)).
  destruct (((counts_gcd h =? 0) || (counts_gcd h =? 1)) && negb (existsb (fun oc => snd oc =? 0) h)) eqn:C.
  - apply andb_true_iff in C. destruct C as [C1 C2]. apply negb_true_iff in C2.
    rewrite (nz_id h C2). apply orb_true_iff in C1. destruct C1 as [G|G]; apply Z.eqb_eq in G.
    + destruct h as [|x h]; [reflexivity|]. exfalso.
      pose proof (cgcd_zero _ G x (or_introl eq_refl)) as Hx.
      cbn [existsb] in C2. apply orb_false_iff in C2. destruct C2 as [C2 _].
      apply Z.eqb_neq in C2. contradiction.
    + rewrite G. unfold dv. rewrite <- (map_id h) at 1. apply map_ext. intros [o c]. cbn [fst snd].
      rewrite Z.div_1_r. reflexivity.
  - apply mk_id. rewrite keys_dv. apply sasc_nz. exact Hs.
Qed.

Lemma cnt_red h z : cnt O (red h) z * counts_gcd h = cnt O h z.
Proof. unfold red. rewrite cnt_dv by apply red_divides. apply cnt_nz. Qed.
Lemma total_red h : total (red h) * counts_gcd h = total h.
Proof. unfold red. rewrite total_dv by apply red_divides. apply total_nz. Qed.

Lemma in_red h oc : In oc (red h) ->
  exists oc', In oc' h /\ snd oc' <> 0 /\ oc = (fst oc', snd oc' / counts_gcd h).
Proof.
  unfold red, dv. intros H. apply in_map_iff in H. destruct H as [oc' [E H]].
  apply in_nz in H. exists oc'. split; [tauto|]. split; [tauto|]. symmetry. exact E.
Qed.

Lemma red_positive h : nonneg h -> forall oc, In oc (red h) -> 0 < snd oc.
Proof.
  intros Hn oc Hin. destruct (in_red h oc Hin) as [oc' [Hin' [Hnz E]]]. subst oc. cbn [snd].
  pose proof (Hn oc' Hin') as Hc. pose proof (cgcd_divide h oc' Hin') as [q Hq].
  pose proof (cgcd_nonneg h) as Hg. set (g := counts_gcd h) in *.
  assert (Hg0 : g <> 0) by (intros Hz0; rewrite Hz0 in Hq; lia).
  rewrite Hq. rewrite Z.div_mul by exact Hg0. nia.
Qed.

Lemma red_nil_iff h : nonneg h -> (red h = [] <-> total h = 0).
Proof.
  intros Hn. rewrite <- (nz_nil_iff h Hn). unfold red, dv. split.
  - apply map_eq_nil.
  - intros E. rewrite E. reflexivity.
Qed.

Lemma red_gcd_one h : red h <> [] -> counts_gcd (red h) = 1.
Proof.
  intros Hne. pose proof (cgcd_nonneg h) as Hg.
  assert (E : counts_gcd h = counts_gcd h * counts_gcd (red h)).
  { rewrite <- (cgcd_nz h) at 1. rewrite <- (scl_dv (counts_gcd h) (nz h)) at 1 by apply red_divides.
    apply cgcd_scl. exact Hg. }
  assert (Hg0 : counts_gcd h <> 0).
  { intros Hz0. apply Hne. destruct (red h) as [|x r] eqn:R; [reflexivity|exfalso].
    assert (Hin : In x (red h)) by (rewrite R; left; reflexivity).
    destruct (in_red h x Hin) as [oc' [Hin' [Hnz _]]]. apply Hnz. apply (cgcd_zero h Hz0). exact Hin'. }
  nia.
Qed.

(* ---------- lowest_terms ---------- *)
Theorem lowest_cnt h : wf O h -> forall z, cnt O (lowest O h) z * counts_gcd h = cnt O h z.
Proof. intros [Hs _] z. rewrite (lowest_red h Hs). apply cnt_red. Qed.

Theorem lowest_total h : wf O h -> total (lowest O h) * counts_gcd h = total h.
Proof. intros [Hs _]. rewrite (lowest_red h Hs). apply total_red. Qed.

Theorem counts_gcd_nonneg (h : hist T) : 0 <= counts_gcd h.
Proof. apply cgcd_nonneg. Qed.

Theorem counts_gcd_zero h z : counts_gcd h = 0 -> cnt O h z = 0.
Proof.
  intros G. induction h as [|[o c] h IH]; [reflexivity|]. cbn [cnt].
  rewrite cgcd_cons in G. cbn [snd] in G. apply Z.gcd_eq_0 in G. destruct G as [G1 G2].
  rewrite IH by exact G2. subst c. destruct (eqb O o z); reflexivity.
Qed.

Theorem lowest_positive h : wf O h -> forall oc, In oc (lowest O h) -> 0 < snd oc.
Proof. intros [Hs Hn]. rewrite (lowest_red h Hs). apply red_positive. exact Hn. Qed.

Theorem lowest_wf h : wf O h -> wf O (lowest O h).
Proof.
  intros Hw. pose proof (lowest_positive h Hw) as Hp. destruct Hw as [Hs Hn].
  split.
  - rewrite (lowest_red h Hs), keys_red. apply sasc_nz. exact Hs.
  - intros oc Hin. pose proof (Hp oc Hin). lia.
Qed.

Theorem lowest_gcd_one h : wf O h -> lowest O h <> [] -> counts_gcd (lowest O h) = 1.
Proof. intros [Hs _]. rewrite (lowest_red h Hs). apply red_gcd_one. Qed.

Theorem lowest_empty_iff h : wf O h -> (lowest O h = [] <-> total h = 0).
Proof. intros [Hs Hn]. rewrite (lowest_red h Hs). apply red_nil_iff. exact Hn. Qed.

Lemma no_zero_of_positive (h : hist T) : (forall oc, In oc h -> 0 < snd oc) ->
  existsb (fun oc => snd oc =? 0) h = false.
Proof.
  intros H. destruct (existsb (fun oc => snd oc =? 0) h) eqn:E; [|reflexivity]. exfalso.
  apply existsb_exists in E. destruct E as [oc [Hin Hz]]. apply Z.eqb_eq in Hz.
  pose proof (H oc Hin). lia.
Qed.

Theorem lowest_idem h : wf O h -> lowest O (lowest O h) = lowest O h.
Proof.
  intros Hw. pose proof (lowest_positive h Hw) as Hp. pose proof (lowest_gcd_one h Hw) as Hg.
  set (A := lowest O h) in *. destruct A as [|x A'] eqn:EA; [reflexivity|].
  rewrite <- EA in *. unfold lowest at 1. cbv zeta.
  rewrite Hg by (rewrite EA; discriminate). rewrite (no_zero_of_positive A Hp). reflexivity.
Qed.

(* ---------- equality ---------- *)
Lemma cnt_in h o c : sasc O (keys h) -> In (o, c) h -> cnt O h o = c.
Proof.
  induction h as [|[o' c'] h IH]; intros Hs Hin; [destruct Hin|].
  pose proof (sasc_head_notin O _ _ Hs) as Hn. destruct Hs as [Hlt Hs]. cbn [cnt].
  destruct Hin as [E|Hin].
  - injection E as E1 E2. subst o' c'. rewrite (eqb_refl O). rewrite (cnt_notin O h o Hn). ring.
  - assert (Hk : In o (keys h)) by (unfold keys; apply (in_map fst h (o, c)); exact Hin).
    destruct (eqb_spec O o' o) as [E|N]; [subst o'; contradiction|].
    rewrite (IH Hs Hin). ring.
Qed.

(* two reduced positive count vectors that are proportional are equal *)
Lemma reduced_eq (A B : hist T) p q :
  sasc O (keys A) -> sasc O (keys B) ->
  (forall oc, In oc A -> 0 < snd oc) -> (forall oc, In oc B -> 0 < snd oc) ->
  counts_gcd A = 1 -> counts_gcd B = 1 -> 0 < p -> 0 < q ->
  (forall z, cnt O A z * p = cnt O B z * q) -> A = B.
Proof.
  intros HsA HsB HpA HpB HgA HgB Hp Hq Hc.
  assert (Dpq : (p | q)).
  { replace q with (q * counts_gcd B) by (rewrite HgB; ring).
    apply cgcd_greatest; [lia|]. intros [o c] Hin. cbn [snd].
    pose proof (Hc o) as Ho. rewrite (cnt_in B o c HsB Hin) in Ho.
    exists (cnt O A o). lia. }
  assert (Dqp : (q | p)).
  { replace p with (p * counts_gcd A) by (rewrite HgA; ring).
    apply cgcd_greatest; [lia|]. intros [o c] Hin. cbn [snd].
    pose proof (Hc o) as Ho. rewrite (cnt_in A o c HsA Hin) in Ho.
    exists (cnt O B o). lia. }
  assert (Epq : p = q) by (apply Z.divide_antisym_nonneg; [lia|lia|exact Dpq|exact Dqp]).
  subst q.
  assert (Hc' : forall z, cnt O A z = cnt O B z).
  { intros z. pose proof (Hc z) as Hz. apply Z.mul_cancel_r in Hz; [exact Hz|lia]. }
  assert (NA : forall oc, In oc A -> snd oc <> 0) by (intros oc Hin; pose proof (HpA oc Hin); lia).
  assert (NB : forall oc, In oc B -> snd oc <> 0) by (intros oc Hin; pose proof (HpB oc Hin); lia).
  apply (hist_ext O); try assumption.
  apply (sasc_unique O); try assumption. intros y.
  rewrite (in_keys_cnt O A y HsA NA), (in_keys_cnt O B y HsB NB), Hc'. reflexivity.
Qed.

Lemma heq_lowest_eq a b : heq O a b = true <-> lowest O a = lowest O b.
Proof. unfold heq. apply items_eqb_eq. Qed.

Theorem heq_iff a b : wf O a -> wf O b ->
  (heq O a b = true <->
   (total a = 0 /\ total b = 0) \/
   (total a <> 0 /\ total b <> 0 /\ forall z, cnt O a z * total b = cnt O b z * total a)).
Proof.
  intros Ha Hb. rewrite heq_lowest_eq.
  pose proof (lowest_empty_iff a Ha) as Ea. pose proof (lowest_empty_iff b Hb) as Eb.
  pose proof (lowest_total a Ha) as Ta. pose proof (lowest_total b Hb) as Tb.
  pose proof (lowest_cnt a Ha) as Ca. pose proof (lowest_cnt b Hb) as Cb.
  pose proof (cgcd_nonneg a) as Ga. pose proof (cgcd_nonneg b) as Gb.
  pose proof (total_nonneg a (proj2 Ha)) as Na. pose proof (total_nonneg b (proj2 Hb)) as Nb.
  split.
  - intros E. destruct (Z.eq_dec (total a) 0) as [Za|Za].
    + left. split; [exact Za|]. apply Eb. rewrite <- E. apply Ea. exact Za.
    + right. split; [exact Za|]. split.
      * intros Zb. apply Za. apply Ea. rewrite E. apply Eb. exact Zb.
      * intros z. rewrite <- Ta, <- Tb, <- (Ca z), <- (Cb z), E. ring.
  - intros [[Za Zb]|[Za [Zb Hc]]].
    + rewrite (proj2 Ea Za), (proj2 Eb Zb). reflexivity.
    + assert (NEa : lowest O a <> []) by (intros E; apply Za, Ea, E).
      assert (NEb : lowest O b <> []) by (intros E; apply Zb, Eb, E).
      assert (Ga0 : counts_gcd a <> 0) by (intros Hz0; rewrite Hz0 in Ta; lia).
      assert (Gb0 : counts_gcd b <> 0) by (intros Hz0; rewrite Hz0 in Tb; lia).
      apply (reduced_eq (lowest O a) (lowest O b) (counts_gcd a * total b) (counts_gcd b * total a)).
      * apply (lowest_wf a Ha).
      * apply (lowest_wf b Hb).
      * apply (lowest_positive a Ha).
      * apply (lowest_positive b Hb).
      * apply (lowest_gcd_one a Ha NEa).
      * apply (lowest_gcd_one b Hb NEb).
      * nia.
      * nia.
      * intros z. rewrite !Z.mul_assoc, (Ca z), (Cb z). apply Hc.
Qed.

Theorem heq_refl a : heq O a a = true.
Proof. apply heq_lowest_eq. reflexivity. Qed.

Theorem heq_sym a b : heq O a b = heq O b a.
Proof. unfold heq. apply items_eqb_sym. Qed.

Theorem heq_trans a b c : heq O a b = true -> heq O b c = true -> heq O a c = true.
Proof. rewrite !heq_lowest_eq. intros -> ->. reflexivity. Qed.

(* == is a congruence for the reduced form: equal histograms have identical lowest terms *)
Theorem heq_same_lowest a b : heq O a b = true <-> lowest O a = lowest O b.
Proof. exact (heq_lowest_eq a b). Qed.

Theorem heq_lowest h : wf O h -> heq O (lowest O h) h = true.
Proof. intros Hw. apply heq_lowest_eq. apply lowest_idem. exact Hw. Qed.

Theorem heq_hash a b : heq O a b = true -> hhash O a = hhash O b.
Proof. unfold hhash. apply heq_lowest_eq. Qed.

Theorem hne_negb a b : hne O a b = negb (heq O a b).
Proof. reflexivity. Qed.

(* histograms with the same count function are equal *)
Lemma heq_cnt_ext a b : wf O a -> wf O b -> total a = total b ->
  (forall z, cnt O a z = cnt O b z) -> heq O a b = true.
Proof.
  intros Ha Hb Ht Hc. apply (heq_iff a b Ha Hb).
  destruct (Z.eq_dec (total a) 0) as [Za|Za].
  - left. split; [exact Za|]. rewrite <- Ht. exact Za.
  - right. split; [exact Za|]. split; [rewrite <- Ht; exact Za|]. intros z. rewrite Hc, Ht. reflexivity.
Qed.

Theorem heq_scale k h : wf O h -> 0 < k -> heq O (map (fun oc => (fst oc, k * snd oc)) h) h = true.
Proof.
  intros Hw Hk. fold (scl k h).
  assert (Hws : wf O (scl k h)).
  { destruct Hw as [Hs Hn]. split; [rewrite keys_scl; exact Hs|].
    intros oc Hin. unfold scl in Hin. apply in_map_iff in Hin. destruct Hin as [oc' [E Hin]].
    subst oc. cbn [snd]. pose proof (Hn oc' Hin). nia. }
  apply (heq_iff _ _ Hws Hw). rewrite total_scl.
  destruct (Z.eq_dec (total h) 0) as [Hz0|Hz0].
  - left. split; [rewrite Hz0; ring|exact Hz0].
  - right. split; [nia|]. split; [exact Hz0|]. intros z. rewrite cnt_scl. ring.
Qed.

Theorem heq_zero_pad h o : wf O h -> heq O (mk O ((o, 0) :: h)) h = true.
Proof.
  intros Hw. pose proof Hw as [Hs Hn].
  assert (E : mk O ((o, 0) :: h) = hins O o 0 h).
  { cbn [mk fold_right fst snd]. fold (mk O h). rewrite (mk_id O h Hs). reflexivity. }
  rewrite E. apply heq_cnt_ext.
  - split; [apply sasc_hins; exact Hs|apply nonneg_hins; [lia|exact Hn]].
  - exact Hw.
  - rewrite total_hins. ring.
  - intros z. rewrite cnt_hins. destruct (eqb O o z); ring.
Qed.

(* ---------- construction ---------- *)
Theorem mk_regroup (l1 l2 : list (T * Z)) : mk O (mk O l1 ++ l2) = mk O (l1 ++ l2).
Proof.
  apply (hist_ext O); try apply sasc_mk.
  - apply (sasc_unique O); try apply sasc_mk. intros y.
    rewrite !in_keys_mk, !map_app, !in_app_iff. fold (keys (mk O l1)). rewrite in_keys_mk. reflexivity.
  - intros z. rewrite !cnt_mk, !lsum_app. rewrite <- (cnt_as_lsum O (mk O l1) z), cnt_mk. reflexivity.
Qed.

Lemma existsb_perm {A} (f : A -> bool) l l' : Permutation l l' -> existsb f l = existsb f l'.
Proof.
  induction 1 as [|x l l' P IH|x y l|l l' l'' P1 IH1 P2 IH2]; cbn [existsb].
  - reflexivity.
  - rewrite IH. reflexivity.
  - destruct (f x), (f y); reflexivity.
  - rewrite IH1. exact IH2.
Qed.

Theorem mkH_perm l l' : Permutation l l' -> mkH O l = mkH O l'.
Proof.
  intros P. unfold mkH. rewrite (existsb_perm _ l l' P), (mk_perm O l l' P). reflexivity.
Qed.

Theorem mkH_total l h : mkH O l = Ok h -> total h = lsum (@snd T Z) l /\ wf O h.
Proof.
  intros H. apply mkH_ok in H. destruct H as [E Hw]. split; [|exact Hw].
  subst h. apply total_mk.
Qed.

End P.

Print Assumptions heq_iff.
Print Assumptions lowest_idem.
Print Assumptions lowest_gcd_one.
