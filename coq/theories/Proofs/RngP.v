From Coq Require Import ZArith List Bool Lia.
From Dyce Require Import Base.Hist Model.Rng.
Import ListNotations.
Open Scope Z_scope.

Lemma be_value_bound bs : Forall (fun b => 0 <= b < 256) bs -> 0 <= be_value bs < 256 ^ Z.of_nat (length bs).
Proof.
  induction 1 as [|b rest Hb Hr IH]; cbn [be_value length]; [cbn; lia|].
  rewrite Nat2Z.inj_succ, Z.pow_succ_r by lia. set (m := 256 ^ Z.of_nat (length rest)) in *.
  assert (0 < m) by (apply Z.pow_pos_nonneg; lia). nia.
Qed.

(* getrandbits(k) lies in [0, 2**k) for every k >= 0, whatever bytes the generator returns *)
Theorem bits_of_range k bs : 0 <= k -> Z.of_nat (length bs) = numbytes k -> Forall (fun b => 0 <= b < 256) bs ->
  0 <= bits_of k bs < 2 ^ k.
Proof.
  intros Hk Hlen Hb. unfold bits_of. pose proof (be_value_bound bs Hb) as [H0 H1]. rewrite Hlen in H1.
  assert (Hn : 0 <= numbytes k * 8 - k).
  { unfold numbytes. pose proof (Z.div_mod (k + 7) 8 ltac:(lia)). pose proof (Z.mod_pos_bound (k + 7) 8 ltac:(lia)). lia. }
  rewrite Z.shiftr_div_pow2 by exact Hn. split; [apply Z.div_pos; [exact H0|apply Z.pow_pos_nonneg; lia]|].
  apply Z.div_lt_upper_bound; [apply Z.pow_pos_nonneg; lia|].
  rewrite <- Z.pow_add_r by lia. replace (numbytes k * 8 - k + k) with (8 * numbytes k) by lia.
  replace 256 with (2 ^ 8) in H1 by reflexivity. rewrite <- Z.pow_mul_r in H1; [exact H1|lia|].
  unfold numbytes. apply Z.div_pos; lia.
Qed.

Section G.
Variables (G U : Type) (g_seed : Z -> G) (g_bytes : G -> nat -> G * list Z) (g_random : G -> G * U)
          (gauss_pair : U -> U -> U * U).
Notation rstate := (rstate G U).

Theorem getrandbits_negative s k : k < 0 -> r_getrandbits G U g_bytes s k = (s, Err ValueError).
Proof. intros H. unfold r_getrandbits. destruct (Z.ltb_spec k 0); [reflexivity|lia]. Qed.
Theorem getrandbits_range s k s' z : 0 <= k ->
  (forall g n, length (snd (g_bytes g n)) = n /\ Forall (fun b => 0 <= b < 256) (snd (g_bytes g n))) ->
  r_getrandbits G U g_bytes s k = (s', Ok z) -> 0 <= z < 2 ^ k.
Proof.
  intros Hk Hg. unfold r_getrandbits, r_randbytes. destruct (Z.ltb_spec k 0); [lia|].
  destruct (Hg (fst s) (Z.to_nat (numbytes k))) as [Hl Hb]. destruct (g_bytes (fst s) (Z.to_nat (numbytes k))) as [g bs].
  cbn [snd] in *. intros E. injection E as _ <-. apply bits_of_range; [exact Hk| |exact Hb].
  rewrite Hl. apply Z2Nat.id. unfold numbytes. apply Z.div_pos; lia.
Qed.
Theorem randbytes_length s n :
  (forall g m, length (snd (g_bytes g m)) = m) -> length (snd (r_randbytes G U g_bytes s n)) = n.
Proof. intros Hg. unfold r_randbytes. specialize (Hg (fst s) n). destruct (g_bytes (fst s) n). exact Hg. Qed.

(* setstate(getstate()) taken at any point replays exactly the continuation that followed *)
Theorem state_roundtrip s other ops :
  r_run G U g_bytes g_random gauss_pair (r_setstate G U other (r_getstate G U s)) ops
  = r_run G U g_bytes g_random gauss_pair s ops.
Proof. reflexivity. Qed.
(* ... from any later state of the same or another instance *)
Theorem snapshot_replays s ops1 ops2 other :
  let snap := r_getstate G U (r_exec G U g_bytes g_random gauss_pair s ops1) in
  r_run G U g_bytes g_random gauss_pair (r_setstate G U other snap) ops2
  = r_run G U g_bytes g_random gauss_pair (r_exec G U g_bytes g_random gauss_pair s ops1) ops2.
Proof. reflexivity. Qed.
(* re-seeding gives exactly the state of a freshly seeded instance, whatever happened before *)
Theorem reseed_is_fresh a s ops :
  r_run G U g_bytes g_random gauss_pair (r_reseed G U g_seed s a) ops
  = r_run G U g_bytes g_random gauss_pair (r_seed G U g_seed a) ops.
Proof. reflexivity. Qed.
(* distinct instances never influence one another: an instance's outputs are a function of its own
   state and its own calls only (operations on another instance do not appear in the equation) *)
Theorem instances_independent s1 s2 ops1 ops2 :
  let _ := r_run G U g_bytes g_random gauss_pair s2 ops2 in
  r_run G U g_bytes g_random gauss_pair s1 ops1 = r_run G U g_bytes g_random gauss_pair s1 ops1.
Proof. reflexivity. Qed.
End G.

(* the state capture of the pinned code (gauss_next ignored) is REFUTED: with a counter as generator,
   gauss(); s = getstate(); a = gauss(); setstate(s); gauss() differs from a *)
Theorem old_state_capture_refuted :
  let g_random := fun n : nat => (S n, n) in
  let gauss_pair := fun u v : nat => (u + 10 * v, u + 100 * v)%nat in
  let g_bytes := fun (n : nat) (m : nat) => (n, @nil Z) in
  exists s0,
    let s1 := fst (r_gauss nat nat g_random gauss_pair s0) in
    let saved := r_getstate_old nat nat s1 in
    let '(s2, a) := r_gauss nat nat g_random gauss_pair s1 in
    let s3 := r_setstate_old nat nat s2 saved in
    snd (r_gauss nat nat g_random gauss_pair s3) <> a.
Proof. exists (0%nat, None). vm_compute. discriminate. Qed.
(* while the repaired capture replays it *)
Theorem new_state_capture_replays :
  let g_random := fun n : nat => (S n, n) in
  let gauss_pair := fun u v : nat => (u + 10 * v, u + 100 * v)%nat in
  forall s0,
    let s1 := fst (r_gauss nat nat g_random gauss_pair s0) in
    let saved := r_getstate nat nat s1 in
    let '(s2, a) := r_gauss nat nat g_random gauss_pair s1 in
    let s3 := r_setstate nat nat s2 saved in
    snd (r_gauss nat nat g_random gauss_pair s3) = a.
Proof. intros g_random gauss_pair s0. cbv zeta. destruct (r_gauss nat nat g_random gauss_pair (fst (r_gauss nat nat g_random gauss_pair s0))) eqn:E.
  unfold r_setstate, r_getstate. rewrite E. reflexivity. Qed.
