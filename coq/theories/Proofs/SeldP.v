(* Correctness of the partial-selection enumerator (seld) and of the homogeneous
   rolls_with_counts enumerator (rwc_hom) against brute-force enumeration. *)
From Coq Require Import ZArith List Lia Bool Arith Permutation.
From Dyce Require Import Base.Sums Base.Order Base.Hist Base.Brute Model.Select Model.Pool.
Import ListNotations. Open Scope Z_scope.

(* ---------- generic list helpers ---------- *)
Lemma rev_repeat {A} (x : A) n : rev (repeat x n) = repeat x n.
Proof.
  induction n as [|n IH]; [reflexivity|].
  cbn [repeat rev]. rewrite IH. change [x] with (repeat x 1). rewrite <- repeat_app.
  replace (n + 1)%nat with (S n) by lia. reflexivity.
Qed.

Lemma Forall2_imp {A B} (R1 R2 : A -> B -> Prop) l1 l2 :
  (forall a b, R1 a b -> R2 a b) -> Forall2 R1 l1 l2 -> Forall2 R2 l1 l2.
Proof. intros H HF. induction HF as [|a b l1 l2 Hab HF IH]; constructor; auto. Qed.

Lemma Forall2_map2 {A B A' B'} (R : A' -> B' -> Prop) (f : A -> A') (g : B -> B') l1 l2 :
  Forall2 (fun a b => R (f a) (g b)) l1 l2 -> Forall2 R (map f l1) (map g l2).
Proof. intros HF. induction HF as [|a b l1 l2 Hab HF IH]; cbn [map]; constructor; auto. Qed.

Lemma Forall2_flat_map_same {I A B} (R : A -> B -> Prop) (f : I -> list A) (g : I -> list B) l :
  (forall i, In i l -> Forall2 R (f i) (g i)) -> Forall2 R (flat_map f l) (flat_map g l).
Proof.
  induction l as [|i l IH]; intros H; cbn [flat_map]; [constructor|].
  apply Forall2_app; [apply H; left; reflexivity|apply IH; intros j Hj; apply H; right; exact Hj].
Qed.

Lemma map_flat_map {I A B} (f : A -> B) (g : I -> list A) l :
  map f (flat_map g l) = flat_map (fun i => map f (g i)) l.
Proof. induction l as [|i l IH]; cbn [flat_map map]; [reflexivity|]. rewrite map_app, IH. reflexivity. Qed.

Lemma zpow_eq_0 x n : zpow x n = 0 -> x = 0.
Proof. induction n as [|n IH]; cbn [zpow]; intros H; [lia|]. destruct (Z.eq_dec x 0) as [E|N]; [exact E|].
  apply IH. apply Z.mul_eq_0 in H. tauto. Qed.

Definition conv {T : Type} (tc : Z) (t : list T * Z * Z) : list T * Z :=
  let '(outs, num, den) := t in (outs, tc * num / den).

(* ---------- the count-level twin of seld ---------- *)
Section C.
Context {T : Type} (O : ord T).
Local Notation hist := (hist T).

Fixpoint selc2 (h : hist) (n k : nat) : list (list T * Z) :=
  match h with
  | [] => [([], match n with 0%nat => 1 | _ => 0 end)]
  | (m, c) :: h' =>
      match h' with
      | [] => [(repeat m k, zpow c n)]
      | _ :: _ =>
          flat_map (fun i => map (fun tc => (repeat m i ++ fst tc, (binom n i * zpow c i) * snd tc))
                                 (selc2 h' (n - i) (k - i))) (seq 0 k)
          ++ [(repeat m k,
               zsum (fun j => binom n (k + j) * zpow c (k + j) * zpow (total h') (n - (k + j))) (S n - k))]
      end
  end.

Lemma selc2_cons2 m c p h'' n k :
  selc2 ((m, c) :: p :: h'') n k =
  flat_map (fun i => map (fun tc => (repeat m i ++ fst tc, (binom n i * zpow c i) * snd tc))
                         (selc2 (p :: h'') (n - i) (k - i))) (seq 0 k)
  ++ [(repeat m k,
       zsum (fun j => binom n (k + j) * zpow c (k + j) * zpow (total (p :: h'')) (n - (k + j))) (S n - k))].
Proof. reflexivity. Qed.

Lemma insert_repeat m n : insert O m (repeat m n) = repeat m (S n).
Proof. destruct n as [|n]; cbn [repeat insert]; [reflexivity|]. rewrite (leb_refl O). reflexivity. Qed.

Lemma bsum_single m c n : forall G, bsum O [(m, c)] n G = zpow c n * G (repeat m n).
Proof.
  induction n as [|n IH]; intros G.
  - cbn [bsum zpow repeat]. ring.
  - cbn [bsum lsum fst snd]. rewrite IH. rewrite insert_repeat. cbn [zpow]. ring.
Qed.

Lemma firstn_repeat (m : T) k n : (k <= n)%nat -> firstn k (repeat m n) = repeat m k.
Proof. intros H. rewrite <- (app_nil_r (repeat m n)). apply firstn_rep_ge. exact H. Qed.

Theorem selc2_correct : forall h, sasc O (keys h) -> forall n k F, (k <= n)%nat ->
  wsum (selc2 h n k) F = bsum O h n (fun l => F (firstn k l)).
Proof.
  induction h as [|[m c] h' IH]; intros Hasc n k F Hk.
  - destruct n as [|n]; cbn [selc2 wsum fst snd bsum lsum].
    + rewrite firstn_nil. ring.
    + ring.
  - destruct h' as [|p h''].
    + rewrite bsum_single. cbn [selc2 wsum fst snd]. rewrite firstn_repeat by exact Hk. ring.
    + destruct Hasc as [Hm Hasc].
      rewrite (split O m c (p :: h'') Hm).
      rewrite selc2_cons2. rewrite wsum_app, wsum_flat_seq.
      rewrite (zsum_split_at _ k (S n)) by lia. f_equal.
      * apply zsum_ext. intros i Hi. cbn [Nat.add]. rewrite wsum_map.
        unfold X. rewrite (IH Hasc (n - i)%nat (k - i)%nat) by lia. f_equal.
        apply bsum_ext. intros l. rewrite firstn_rep_lt by lia. reflexivity.
      * cbn [wsum fst snd]. rewrite Z.add_0_r. rewrite Z.mul_comm, <- zsum_scale.
        apply zsum_ext. intros j _. unfold X.
        rewrite (bsum_ext O (p :: h'') _ _ (fun _ => F (repeat m k))).
        2:{ intros l. rewrite firstn_rep_ge by lia. reflexivity. }
        rewrite bsum_const. ring.
Qed.
End C.

(* ---------- element-wise relation between seld and selc2 ---------- *)
Section R.
Context {T : Type}.
Local Notation hist := (hist T).

Definition step (right : bool) (m : T) (i : nat) (hc tt : Z) (t : list T * Z * Z) : list T * Z * Z :=
  let '(tail, tn, td) := t in
  (if right then tail ++ repeat m i else repeat m i ++ tail, hc * tn, tt * td).

Lemma seld_cons2 right m c p (h'' : hist) n k :
  seld right ((m, c) :: p :: h'') n k =
  let tot := c + total (p :: h'') in
  let tt := if zpow tot n =? 0 then 1 else zpow tot n in
  flat_map (fun i => map (step right m i (exactly c tot n i) tt) (seld right (p :: h'') (n - i) (k - i))) (seq 0 k)
  ++ [(repeat m k, tt - lsum (fun i => exactly c tot n i) (seq 0 k), tt)].
Proof. reflexivity. Qed.

Lemma exactly_binom c tot n i : exactly c tot n i = binom n i * zpow c i * zpow (tot - c) (n - i).
Proof. unfold exactly. rewrite binomR_binom. reflexivity. Qed.

(* (tuple, num, den) ~ (tuple, count), relative to the denominator total^n *)
Definition rel (tn : Z) (x : list T * Z * Z) (y : list T * Z) : Prop :=
  fst (fst x) = fst y /\ 0 < snd x /\
  (tn <> 0 -> snd (fst x) * tn = snd y * snd x) /\ (tn = 0 -> snd y = 0).

Lemma seld_rel : forall h : hist, nonneg h -> h <> [] -> forall n k, (1 <= k <= n)%nat ->
  Forall2 (rel (zpow (total h) n)) (seld false h n k) (selc2 h n k).
Proof.
  induction h as [|[m c] h' IH]; intros Hnn Hne n k Hk; [congruence|].
  destruct h' as [|p h''].
  - cbn [seld selc2]. constructor; [|constructor]. unfold rel. cbn [fst snd].
    unfold total. cbn [lsum snd]. rewrite Z.add_0_r.
    split; [reflexivity|]. split; [lia|]. split; [intros _; ring|intros E; exact E].
  - assert (Hc : 0 <= c) by (apply (Hnn (m, c)); left; reflexivity).
    assert (Hnn' : nonneg (p :: h'')) by (intros oc Hoc; apply Hnn; right; exact Hoc).
    assert (Ht' : 0 <= total (p :: h'')) by (apply total_nonneg; exact Hnn').
    assert (Htot : total ((m, c) :: p :: h'') = c + total (p :: h'')) by reflexivity.
    rewrite Htot. rewrite seld_cons2, selc2_cons2. cbv zeta.
    set (h' := p :: h'') in *. set (T' := total h') in *. set (Tn := zpow (c + T') n).
    assert (HTn : 0 <= Tn) by (apply zpow_nonneg; lia).
    set (tt := if Tn =? 0 then 1 else Tn).
    assert (Htt : 0 < tt) by (unfold tt; destruct (Z.eqb_spec Tn 0); lia).
    assert (Htt' : Tn <> 0 -> tt = Tn) by (unfold tt; destruct (Z.eqb_spec Tn 0); [contradiction|reflexivity]).
    assert (Hz : Tn = 0 -> c = 0 /\ T' = 0).
    { intros E. apply zpow_eq_0 in E. lia. }
    apply Forall2_app.
    + apply Forall2_flat_map_same. intros i Hi. apply in_seq in Hi. apply Forall2_map2.
      apply Forall2_imp with (R1 := rel (zpow T' (n - i))).
      2:{ apply IH; [exact Hnn'|discriminate|lia]. }
      intros [[tail tn] td] [tail' cnt'] [H1 [H2 [H3 H4]]]. cbn [fst snd] in H1, H2, H3, H4.
      unfold rel, step. cbn [fst snd]. rewrite exactly_binom.
      replace (c + T' - c) with T' by ring.
      set (B := binom n i * zpow c i). set (P := zpow T' (n - i)) in *.
      split; [rewrite H1; reflexivity|]. split; [apply Z.mul_pos_pos; assumption|]. split.
      * intros HN. rewrite (Htt' HN). destruct (Z.eq_dec P 0) as [EP|NP].
        -- rewrite (H4 EP), EP. ring.
        -- transitivity (B * Tn * (tn * P)); [ring|]. rewrite (H3 NP). ring.
      * intros E. destruct (Hz E) as [Ec ET]. destruct i as [|i].
        -- rewrite H4; [ring|]. unfold P. rewrite ET. apply zpow_0_l. lia.
        -- unfold B. rewrite Ec, zpow_0_l by lia. ring.
    + constructor; [|constructor]. unfold rel. cbn [fst snd].
      split; [reflexivity|]. split; [exact Htt|]. split.
      * intros HN. rewrite (Htt' HN). f_equal.
        pose proof (binomial_theorem c T' n) as BT. fold Tn in BT.
        rewrite (zsum_split_at _ k (S n)) in BT by lia. cbv beta in BT.
        rewrite lsum_seq.
        rewrite (zsum_ext (fun j => exactly c (c + T') n (0 + j)) (fun i => binom n i * zpow c i * zpow T' (n - i)) k).
        2:{ intros j _. rewrite exactly_binom. cbn [Nat.add]. replace (c + T' - c) with T' by ring. reflexivity. }
        set (S1 := zsum (fun i => binom n i * zpow c i * zpow T' (n - i)) k) in *.
        set (S2 := zsum (fun j => binom n (k + j) * zpow c (k + j) * zpow T' (n - (k + j))) (S n - k)) in *.
        lia.
      * intros E. destruct (Hz E) as [Ec ET].
        rewrite (zsum_ext _ (fun _ => 0)); [apply zsum_zero|].
        intros j _. rewrite Ec, zpow_0_l by lia. ring.
Qed.

Lemma wsum_conv_rel tn (L : list (list T * Z * Z)) (L2 : list (list T * Z)) F :
  Forall2 (rel tn) L L2 -> wsum (map (conv tn) L) F = wsum L2 F.
Proof.
  intros HF. induction HF as [|[[t num] den] [t' cnt] L L2 Hxy HF IH]; [reflexivity|].
  cbn [map wsum]. rewrite IH. f_equal.
  destruct Hxy as [H1 [H2 [H3 H4]]]. cbn [fst snd] in H1, H2, H3, H4. subst t'.
  unfold conv. cbn [fst snd]. f_equal.
  destruct (Z.eq_dec tn 0) as [E|N].
  - rewrite (H4 E), E. rewrite Z.mul_0_l. apply Zdiv_0_l.
  - replace (tn * num) with (cnt * den) by (rewrite <- (H3 N); ring).
    apply Z.div_mul. lia.
Qed.
End R.

Section P1.
Context {T : Type} (O : ord T).

(* partial selection of the k lowest of n dice of h *)
Theorem seld_left_correct : forall (h : hist T), sasc O (keys h) -> nonneg h -> h <> [] ->
  forall n k F, (1 <= k <= n)%nat ->
  wsum (map (conv (zpow (total h) n)) (seld false h n k)) F = bsum O h n (fun l => F (firstn k l)).
Proof.
  intros h Hs Hnn Hne n k F Hk.
  rewrite (wsum_conv_rel _ _ _ F (seld_rel h Hnn Hne n k Hk)).
  apply selc2_correct; [exact Hs|lia].
Qed.
End P1.

(* ---------- taking from the right: reversed tuples, flipped order ---------- *)
Section Rev.
Context {T : Type}.
Local Notation hist := (hist T).

Definition rv (t : list T * Z * Z) : list T * Z * Z := let '(outs, a, b) := t in (rev outs, a, b).

Lemma seld_true_false : forall (hl : hist) n k, seld true hl n k = map rv (seld false hl n k).
Proof.
  induction hl as [|[m c] hl' IH]; intros n k; [reflexivity|].
  destruct hl' as [|p h''].
  - cbn [seld map rv]. rewrite rev_repeat. reflexivity.
  - rewrite !seld_cons2. cbv zeta. rewrite map_app. f_equal.
    + rewrite map_flat_map. apply flat_map_ext. intros i. rewrite IH, !map_map. apply map_ext.
      intros [[tail tn] td]. cbn [rv step]. rewrite rev_app_distr, rev_repeat. reflexivity.
    + cbn [map rv]. rewrite rev_repeat. reflexivity.
Qed.

Lemma conv_rv tc t : conv tc (rv t) = (rev (fst (conv tc t)), snd (conv tc t)).
Proof. destruct t as [[outs a] b]. reflexivity. Qed.
End Rev.

Section Flip2.
Context {T : Type} (O : ord T).
Local Notation hist := (hist T).

Lemma insert_flip_rev x l : sorted O l -> insert (flip_ord O) x (rev l) = rev (insert O x l).
Proof.
  intros Hs. apply sorted_perm_unique with (O := flip_ord O).
  - apply insert_sorted. apply sorted_flip_rev. exact Hs.
  - apply sorted_flip_rev. apply insert_sorted. exact Hs.
  - eapply perm_trans; [symmetry; apply insert_perm|].
    eapply perm_trans; [|apply Permutation_rev].
    eapply perm_trans; [|apply insert_perm].
    apply perm_skip. symmetry. apply Permutation_rev.
Qed.

Lemma bsum_flip (h : hist) n : forall G, bsum (flip_ord O) h n G = bsum O h n (fun l => G (rev l)).
Proof.
  induction n as [|n IH]; intros G; cbn [bsum]; [reflexivity|].
  apply lsum_ext. intros f _. f_equal. rewrite IH.
  apply bsum_ext_inh. intros l _ Hs _. rewrite insert_flip_rev by exact Hs. reflexivity.
Qed.

Lemma bsum_rev_h (h : hist) n : forall G, bsum O (rev h) n G = bsum O h n G.
Proof.
  induction n as [|n IH]; intros G; cbn [bsum]; [reflexivity|].
  rewrite (lsum_perm (rev h) h) by (symmetry; apply Permutation_rev).
  apply lsum_ext. intros f _. rewrite IH. reflexivity.
Qed.

Lemma ltb_flip x y : ltb (flip_ord O) x y = ltb O y x.
Proof. unfold ltb. cbn [leb eqb flip_ord]. rewrite (eqb_sym O x y). reflexivity. Qed.

Lemma sasc_snoc (O' : ord T) l x : sasc O' l -> (forall y, In y l -> ltb O' y x = true) -> sasc O' (l ++ [x]).
Proof.
  induction l as [|a l IH]; intros Hs Hx; cbn [app sasc].
  - split; [intros y []|exact I].
  - destruct Hs as [Ha Hs]. split.
    + intros y Hy. apply in_app_or in Hy. destruct Hy as [Hy|[Hy|[]]]; [apply Ha; exact Hy|].
      subst y. apply Hx. left; reflexivity.
    + apply IH; [exact Hs|]. intros y Hy. apply Hx. right; exact Hy.
Qed.

Lemma sasc_flip_rev l : sasc O l -> sasc (flip_ord O) (rev l).
Proof.
  induction l as [|x l IH]; intros Hs; cbn [rev]; [exact I|].
  destruct Hs as [Hx Hs]. apply sasc_snoc; [apply IH; exact Hs|].
  intros y Hy. rewrite ltb_flip. apply Hx. apply in_rev. exact Hy.
Qed.

Lemma total_rev (h : hist) : total (rev h) = total h.
Proof. unfold total. apply lsum_perm. symmetry. apply Permutation_rev. Qed.

Lemma wsum_map_conv_rv tc (L : list (list T * Z * Z)) F :
  wsum (map (conv tc) (map rv L)) F = wsum (map (conv tc) L) (fun t => F (rev t)).
Proof.
  induction L as [|x L IH]; [reflexivity|]. cbn [map wsum]. rewrite IH, conv_rv. reflexivity.
Qed.

(* the k highest: faces processed in descending order, tuples built as tail ++ head *)
Theorem seld_right_correct : forall (h : hist), sasc O (keys h) -> nonneg h -> h <> [] ->
  forall n k F, (1 <= k <= n)%nat ->
  wsum (map (conv (zpow (total h) n)) (seld true (rev h) n k)) F = bsum O h n (fun l => F (skipn (n - k) l)).
Proof.
  intros h Hs Hnn Hne n k F Hk.
  rewrite seld_true_false, wsum_map_conv_rv. rewrite <- (total_rev h).
  rewrite (seld_left_correct (flip_ord O) (rev h)).
  - rewrite bsum_flip, bsum_rev_h. apply bsum_ext_inh. intros l _ _ Hl.
    rewrite firstn_rev, rev_involutive, Hl. reflexivity.
  - unfold keys. rewrite map_rev. apply sasc_flip_rev. exact Hs.
  - intros oc Hoc. apply Hnn. apply in_rev. exact Hoc.
  - intros E. apply Hne. rewrite <- (rev_involutive h), E. reflexivity.
  - exact Hk.
Qed.
End Flip2.

(* ---------- the homogeneous enumerator ---------- *)
Section P3.
Context {T : Type} (O : ord T).

Theorem rwc_hom_correct : forall (h : hist T) n (k : Z) fill F, sasc O (keys h) -> nonneg h -> h <> [] ->
  k <> 0 -> (Z.abs_nat k <= n)%nat ->
  wsum (rwc_hom n h k fill) F =
  bsum O h n (fun l =>
    let ka := Z.abs_nat k in
    let part := if k <? 0 then skipn (n - ka) l else firstn ka l in
    F (match fill with
       | None => part
       | Some f => if k <? 0 then repeat f (n - ka) ++ part else part ++ repeat f (n - ka)
       end)).
Proof.
  intros h n k fill F Hs Hnn Hne Hk0 Hkn.
  unfold rwc_hom.
  assert (Hka : (1 <= Z.abs_nat k)%nat) by lia.
  replace (Nat.eqb (Z.abs_nat k) 0 || Nat.ltb n (Z.abs_nat k)) with false.
  2:{ symmetry. apply orb_false_iff. split; [apply Nat.eqb_neq; lia|apply Nat.ltb_ge; lia]. }
  cbv zeta. set (ka := Z.abs_nat k) in *.
  set (pad := fun outs : list T =>
                match fill with
                | None => outs
                | Some f => if k <? 0 then repeat f (n - ka) ++ outs else outs ++ repeat f (n - ka)
                end).
  rewrite (map_ext _ (fun t => (fun tc => (pad (fst tc), snd tc)) (conv (zpow (total h) n) t))).
  2:{ intros [[outs num] den]. reflexivity. }
  rewrite <- (map_map (conv (zpow (total h) n)) (fun tc => (pad (fst tc), snd tc))), wsum_map_fst.
  unfold pad. destruct (k <? 0).
  - rewrite (seld_right_correct O h Hs Hnn Hne n ka) by lia. reflexivity.
  - rewrite (seld_left_correct O h Hs Hnn Hne n ka) by lia. reflexivity.
Qed.
End P3.

Print Assumptions seld_left_correct.
Print Assumptions seld_right_correct.
Print Assumptions rwc_hom_correct.
