(* Recursion limits of the @expandable evaluator (dyce/evaluation.py:80-101, 619-708):
   PART A  the ContextVar discipline of [call] implements explicit passing of the inherited
           limit, the depth and the path probability ([xeval]); limits are validated and cut
           the expansion exactly where documented;
   PART B  explode / H.substitute / H.explode are the truncated re-roll recursion. *)
From Coq Require Import ZArith QArith List Lia Bool Arith.
From Dyce Require Import Base.Sums Base.Order Base.Hist Base.Brute Model.Select Model.Pool
  Model.Arith Model.Equality Model.Eval Model.Explode.
Import ListNotations. Open Scope Z_scope.

(* ------------------------------------------------------------------------------------ *)
(* limits: validation and the cut-off test (no section context needed)                   *)
(* ------------------------------------------------------------------------------------ *)
Definition ctx_of (il : option limit) (d : Z) (pi : Q) : ctxt :=
  {| c_lim := il; c_depth := d; c_prec := pi |}.

(* validation: exactly z < -1, q <= 0, q >= 1 and non-numbers are rejected; -1 means unbounded *)
Theorem norm_limit_int z : norm_limit (RInt z) =
  if (z =? -1)%Z then Ok (LInt maxsize) else if (z <? 0)%Z then Err ValueError else Ok (LInt z).
Proof. reflexivity. Qed.

Lemma Qle_bool_false_lt x y : Qle_bool x y = false <-> (y < x)%Q.
Proof.
  split.
  - intros H. apply Qnot_le_lt. intros L. apply Qle_bool_iff in L. congruence.
  - intros H. destruct (Qle_bool x y) eqn:E; [|reflexivity].
    apply Qle_bool_iff in E. exfalso. exact (Qlt_not_le _ _ H E).
Qed.

Theorem norm_limit_frac_ok q : (0 < q)%Q -> (q < 1)%Q ->
  norm_limit (RFrac q) = Ok (LFrac q) /\ norm_limit (RFloat q) = Ok (LFrac q).
Proof.
  intros H0 H1. unfold norm_limit.
  apply Qle_bool_false_lt in H0. apply Qle_bool_false_lt in H1. rewrite H0, H1.
  split; reflexivity.
Qed.

Theorem norm_limit_frac_bad q : (q <= 0)%Q \/ (1 <= q)%Q ->
  norm_limit (RFrac q) = Err ValueError /\ norm_limit (RFloat q) = Err ValueError.
Proof.
  intros H. unfold norm_limit.
  assert (E : Qle_bool q 0 || Qle_bool 1 q = true).
  { apply orb_true_iff. destruct H as [H|H]; [left|right]; apply Qle_bool_iff; exact H. }
  rewrite E. split; reflexivity.
Qed.

Theorem norm_limit_other : norm_limit ROther = Err TypeError.
Proof. reflexivity. Qed.

(* a valid limit is one of: LInt z with 0 <= z, LFrac q with 0 < q < 1 *)
Lemma norm_limit_ok_inv r l : norm_limit r = Ok l ->
  match l with
  | LInt z => 0 <= z
  | LFrac q => Qle_bool q 0 = false /\ Qle_bool 1 q = false
  end.
Proof.
  destruct r as [z|q|q|]; unfold norm_limit.
  - destruct (Z.eqb_spec z (-1)).
    + intros E; injection E as <-. unfold maxsize. lia.
    + destruct (Z.ltb_spec z 0); [discriminate|]. intros E; injection E as <-. exact H.
  - destruct (Qle_bool q 0) eqn:E0; [discriminate|]. destruct (Qle_bool 1 q) eqn:E1; [discriminate|].
    cbn [orb]. intros E; injection E as <-. split; assumption.
  - destruct (Qle_bool q 0) eqn:E0; [discriminate|]. destruct (Qle_bool 1 q) eqn:E1; [discriminate|].
    cbn [orb]. intros E; injection E as <-. split; assumption.
  - discriminate.
Qed.

Lemma norm_limit_LInt z : 0 <= z -> norm_limit (RInt z) = Ok (LInt z).
Proof.
  intros H. unfold norm_limit.
  destruct (Z.eqb_spec z (-1)); [lia|]. destruct (Z.ltb_spec z 0); [lia|]. reflexivity.
Qed.

(* an inherited (already normalised) limit is inherited unchanged *)
Theorem norm_limit_idem l l' : norm_limit l = Ok l' -> norm_limit (raw_of l') = Ok l'.
Proof.
  intros H. apply norm_limit_ok_inv in H. destruct l' as [z|q]; cbn [raw_of].
  - apply norm_limit_LInt. exact H.
  - destruct H as [H0 H1]. unfold norm_limit. rewrite H0, H1. reflexivity.
Qed.

(* the cut-off: whole-number limit L cuts exactly at depth >= L; fractional e exactly at
   precision <= e *)
Theorem cut_int L il d pi : cut (LInt L) (ctx_of il d pi) = (L <=? d)%Z.
Proof. reflexivity. Qed.
Theorem cut_frac e il d pi : cut (LFrac e) (ctx_of il d pi) = Qle_bool pi e.
Proof. reflexivity. Qed.

(* ------------------------------------------------------------------------------------ *)
(* PART A: the evaluator with explicit depth / path-probability passing                  *)
(* ------------------------------------------------------------------------------------ *)
Section A.
Context {T : Type} (O : ord T).
Context {St : Type}.
Local Notation hist := (hist T).
Local Notation val := (val (T:=T)).
Local Notation ret := (ret (T:=T) (St:=St)).
Local Notation result := (result (T:=T)).
Variable pad : T.
Variable srcs : St -> list (source (T:=T)).
Variable sentinel : St -> hist.
Variable cb : St -> list result -> ret.
Variable fault : option nat.

(* evaluation of a callback's return term; [rec n st lim] is a nested decorated call made
   when [n] callbacks have been invoked so far *)
Fixpoint xev (rec : nat -> St -> option rawlimit -> nat * res hist) (r : ret) (n : nat)
  {struct r} : nat * res val :=
  match r with
  | ROut o => (n, Ok (VOut o))
  | RHist h => (n, Ok (VHist h))
  | RCall st' lim' => match rec n st' lim' with
                      | (n', Ok h) => (n', Ok (VHist h))
                      | (n', Err e) => (n', Err e)
                      end
  | RUn f r' => match xev rec r' n with
                | (n', Ok x) => (n', f x)
                | (n', Err e) => (n', Err e)
                end
  | RBin f r1 r2 => match xev rec r1 n with
                    | (n1, Ok x1) => match xev rec r2 n1 with
                                     | (n2, Ok x2) => (n2, f x1 x2)
                                     | (n2, Err e) => (n2, Err e)
                                     end
                    | (n1, Err e) => (n1, Err e)
                    end
  | RRaise e => (n, Err e)
  (* the handler runs with the SAME rec, i.e. the same inherited limit, depth and path probability *)
  | RTry c r1 r2 => match xev rec r1 n with
                    | (n1, Ok x) => (n1, Ok x)
                    | (n1, Err e) => if c e then xev rec r2 n1 else (n1, Err e)
                    end
  end.

(* the loop over the branches; [rec pi'] is a nested call made on a path of probability pi' *)
Fixpoint xloop (rec : Q -> nat -> St -> option rawlimit -> nat * res hist)
         (st : St) (pi : Q) (tot : Z) (bs : list (list result * Z)) (n : nat) (acc : list (val * Z))
  {struct bs} : nat * res (list (val * Z)) :=
  match bs with
  | [] => (n, Ok (rev acc))
  | (rs, cnt) :: bs' =>
    let pi' := (pi * (inject_Z cnt / inject_Z (if tot =? 0 then 1 else tot)))%Q in
    let '(n', r) := if (match fault with Some i => Nat.eqb i n | None => false end)
                    then (Datatypes.S n, Err (UserError 7))
                    else xev (rec pi') (cb st rs) (Datatypes.S n) in
    match r with
    | Ok x => xloop rec st pi tot bs' n' ((x, cnt) :: acc)
    | Err RecursionError => xloop rec st pi tot bs' n' ((VHist (sentinel st), cnt) :: acc)
    | Err e => (n', Err e)
    end
  end.

(* [il]: the limit inherited from the enclosing call (None at top level), [d]: the depth,
   [pi]: the probability of the path that led here, [n]: callbacks invoked so far *)
Fixpoint xeval (fuel : nat) (il : option limit) (d : Z) (pi : Q) (n : nat) (st : St)
         (lim : option rawlimit) {struct fuel} : nat * res hist :=
  match fuel with
  | Datatypes.O => (n, Err RecursionError)
  | Datatypes.S fuel' =>
    let nl := match lim with
              | None => match il with None => Ok (LInt 1) | Some l => norm_limit (raw_of l) end
              | Some l => norm_limit l
              end in
    match nl with
    | Err e => (n, Err e)
    | Ok l =>
      if cut l (ctx_of il d pi) then (n, Ok (if d =? 0 then lowest O (sentinel st) else sentinel st)) else
      match branches O pad (srcs st) with
      | Err e => (n, Err e)
      | Ok bs =>
        match xloop (fun pi' => xeval fuel' (Some l) (d + 1) pi') st pi (srcs_total (srcs st)) bs n [] with
        | (n', Ok ws) => match aggw O ws with
                         | Ok h => (n', Ok (if d =? 0 then lowest O h else h))
                         | Err e => (n', Err e)
                         end
        | (n', Err e) => (n', Err e)
        end
      end
    end
  end.

(* --- the same decomposition of [call] --- *)
Local Notation evstate := (evstate).
Definition cev (rec : evstate -> St -> option rawlimit -> evstate * res hist) :=
  fix ev (r : ret) (s : evstate) {struct r} : evstate * res val :=
  match r with
  | ROut o => (s, Ok (VOut o))
  | RHist h => (s, Ok (VHist h))
  | RCall st' lim' => match rec s st' lim' with
                      | (s', Ok h) => (s', Ok (VHist h))
                      | (s', Err e) => (s', Err e)
                      end
  | RUn f r' => match ev r' s with
                | (s', Ok x) => (s', f x)
                | (s', Err e) => (s', Err e)
                end
  | RBin f r1 r2 => match ev r1 s with
                    | (s1, Ok x1) => match ev r2 s1 with
                                     | (s2, Ok x2) => (s2, f x1 x2)
                                     | (s2, Err e) => (s2, Err e)
                                     end
                    | (s1, Err e) => (s1, Err e)
                    end
  | RRaise e => (s, Err e)
  | RTry c r1 r2 => match ev r1 s with
                    | (s1, Ok x) => (s1, Ok x)
                    | (s1, Err e) => if c e then ev r2 s1 else (s1, Err e)
                    end
  end.

Definition cloop (ev : ret -> evstate -> evstate * res val) (l : limit) (cur : ctxt) (tot : Z) (st : St) :=
  fix go (bs : list (list result * Z)) (s : evstate) (acc : list (val * Z))
  {struct bs} : evstate * res (list (val * Z)) :=
  match bs with
  | [] => (s, Ok (rev acc))
  | (rs, cnt) :: bs' =>
    let token := fst s in
    let newc := {| c_lim := Some l; c_depth := c_depth cur + 1;
                   c_prec := (c_prec cur * (inject_Z cnt / inject_Z (if tot =? 0 then 1 else tot)))%Q |} in
    let n := snd s in
    let '(s', r) := if (match fault with Some i => Nat.eqb i n | None => false end)
                    then ((Some newc, Datatypes.S n), Err (UserError 7))
                    else ev (cb st rs) (Some newc, Datatypes.S n) in
    let s'' := (token, snd s') in
    match r with
    | Ok x => go bs' s'' ((x, cnt) :: acc)
    | Err RecursionError => go bs' s'' ((VHist (sentinel st), cnt) :: acc)
    | Err e => (s'', Err e)
    end
  end.

Local Notation call := (call O pad srcs sentinel cb fault).

Lemma call_unfold fuel' s st lim :
  call (Datatypes.S fuel') s st lim =
    let cur := match fst s with Some c => c | None => ctxt0 end in
    let nl := match lim with
              | None => match c_lim cur with None => Ok (LInt 1) | Some l => norm_limit (raw_of l) end
              | Some l => norm_limit l
              end in
    match nl with
    | Err e => (s, Err e)
    | Ok l =>
      if cut l cur then (s, Ok (lowest_if_top O cur (sentinel st))) else
      match branches O pad (srcs st) with
      | Err e => (s, Err e)
      | Ok bs =>
        match cloop (cev (call fuel')) l cur (srcs_total (srcs st)) st bs s [] with
        | (s', Ok ws) => match aggw O ws with
                         | Ok h => (s', Ok (lowest_if_top O cur h))
                         | Err e => (s', Err e)
                         end
        | (s', Err e) => (s', Err e)
        end
      end
    end.
Proof. reflexivity. Qed.


Lemma cev_eq rec r s :
  cev rec r s =
  match r with
  | ROut o => (s, Ok (VOut o))
  | RHist h => (s, Ok (VHist h))
  | RCall st' lim' => match rec s st' lim' with
                      | (s', Ok h) => (s', Ok (VHist h))
                      | (s', Err e) => (s', Err e)
                      end
  | RUn f r' => match cev rec r' s with
                | (s', Ok x) => (s', f x)
                | (s', Err e) => (s', Err e)
                end
  | RBin f r1 r2 => match cev rec r1 s with
                    | (s1, Ok x1) => match cev rec r2 s1 with
                                     | (s2, Ok x2) => (s2, f x1 x2)
                                     | (s2, Err e) => (s2, Err e)
                                     end
                    | (s1, Err e) => (s1, Err e)
                    end
  | RRaise e => (s, Err e)
  | RTry c r1 r2 => match cev rec r1 s with
                    | (s1, Ok x) => (s1, Ok x)
                    | (s1, Err e) => if c e then cev rec r2 s1 else (s1, Err e)
                    end
  end.
Proof. destruct r; reflexivity. Qed.

Lemma cloop_cons ev l cur tot st rs cnt bs' s acc :
  cloop ev l cur tot st ((rs, cnt) :: bs') s acc =
    let token := fst s in
    let newc := {| c_lim := Some l; c_depth := c_depth cur + 1;
                   c_prec := (c_prec cur * (inject_Z cnt / inject_Z (if tot =? 0 then 1 else tot)))%Q |} in
    let n := snd s in
    let '(s', r) := if (match fault with Some i => Nat.eqb i n | None => false end)
                    then ((Some newc, Datatypes.S n), Err (UserError 7))
                    else ev (cb st rs) (Some newc, Datatypes.S n) in
    let s'' := (token, snd s') in
    match r with
    | Ok x => cloop ev l cur tot st bs' s'' ((x, cnt) :: acc)
    | Err RecursionError => cloop ev l cur tot st bs' s'' ((VHist (sentinel st), cnt) :: acc)
    | Err e => (s'', Err e)
    end.
Proof. reflexivity. Qed.

(* a nested evaluation in context c, explicit version xrec *)
Definition agrees (c : cvar) (crec : evstate -> St -> option rawlimit -> evstate * res hist)
           (xrec : nat -> St -> option rawlimit -> nat * res hist) : Prop :=
  forall m st lim, crec (c, m) st lim = let '(m', r) := xrec m st lim in ((c, m'), r).

Lemma cev_xev c crec xrec : agrees c crec xrec ->
  forall r m, cev crec r (c, m) = let '(m', v) := xev xrec r m in ((c, m'), v).
Proof.
  intros H. induction r as [o|h|st' lim'|f r' IH|f r1 IH1 r2 IH2|e|catch r1 IH1 r2 IH2]; intros m; rewrite cev_eq; cbn [xev].
  - reflexivity.
  - reflexivity.
  - rewrite H. destruct (xrec m st' lim') as [m' [h|e]]; reflexivity.
  - rewrite IH. destruct (xev xrec r' m) as [m' [x|e]]; reflexivity.
  - rewrite IH1. destruct (xev xrec r1 m) as [m1 [x1|e]]; [|reflexivity].
    rewrite IH2. destruct (xev xrec r2 m1) as [m2 [x2|e]]; reflexivity.
  - reflexivity.
  - (* the failed protected term has restored the ContextVar to c, so the handler is again a
       ContextVar evaluation from (c, m1) and the induction hypothesis applies *)
    rewrite IH1. destruct (xev xrec r1 m) as [m1 [x1|e]]; [reflexivity|].
    destruct (catch e); [|reflexivity]. apply IH2.
Qed.

Lemma cloop_xloop crec xrec l cur tot st :
  (forall cnt, agrees (Some {| c_lim := Some l; c_depth := c_depth cur + 1;
                               c_prec := (c_prec cur * (inject_Z cnt / inject_Z (if tot =? 0 then 1 else tot)))%Q |})
                      crec
                      (xrec (c_prec cur * (inject_Z cnt / inject_Z (if tot =? 0 then 1 else tot)))%Q)) ->
  forall bs tok n acc,
    cloop (cev crec) l cur tot st bs (tok, n) acc
    = let '(n', r) := xloop xrec st (c_prec cur) tot bs n acc in ((tok, n'), r).
Proof.
  intros H. induction bs as [|[rs cnt] bs IH]; intros tok n acc.
  - reflexivity.
  - rewrite cloop_cons. cbn [xloop fst snd].
    destruct (match fault with Some i => Nat.eqb i n | None => false end).
    + reflexivity.
    + rewrite (cev_xev _ _ _ (H cnt)).
      destruct (xev _ (cb st rs) (Datatypes.S n)) as [m' [x|e]]; cbn [snd].
      * apply IH.
      * destruct e; try reflexivity. apply IH.
Qed.

Theorem call_is_xeval fuel il d pi n st lim :
  call fuel (Some (ctx_of il d pi), n) st lim
  = let '(n', r) := xeval fuel il d pi n st lim in ((Some (ctx_of il d pi), n'), r).
Proof.
  revert il d pi n st lim. induction fuel as [|fuel IH]; intros il d pi n st lim.
  - reflexivity.
  - rewrite call_unfold. cbn [xeval fst c_lim ctx_of].
    change {| c_lim := il; c_depth := d; c_prec := pi |} with (ctx_of il d pi).
    destruct (match lim with
              | Some l => norm_limit l
              | None => match il with Some l => norm_limit (raw_of l) | None => Ok (LInt 1) end
              end) as [l|e]; [|reflexivity].
    destruct (cut l (ctx_of il d pi)); [reflexivity|].
    destruct (branches O pad (srcs st)) as [bs|e]; [|reflexivity].
    rewrite (cloop_xloop (call fuel) (fun pi' => xeval fuel (Some l) (d + 1) pi')).
    + cbn [c_prec ctx_of].
      destruct (xloop _ st pi (srcs_total (srcs st)) bs n []) as [n' [ws|e]]; [|reflexivity].
      destruct (aggw O ws); reflexivity.
    + intros cnt m st' lim'. cbn [c_depth c_prec ctx_of]. apply IH.
Qed.

Theorem call_is_xeval_top fuel n st lim :
  call fuel (None, n) st lim
  = let '(n', r) := xeval fuel None 0 1 n st lim in ((None, n'), r).
Proof.
  destruct fuel as [|fuel]; [reflexivity|].
  rewrite call_unfold. cbn [xeval fst c_lim ctxt0].
  change ctxt0 with (ctx_of None 0 1).
  destruct (match lim with Some l => norm_limit l | None => Ok (LInt 1) end) as [l|e]; [|reflexivity].
  destruct (cut l (ctx_of None 0 1)); [reflexivity|].
  destruct (branches O pad (srcs st)) as [bs|e]; [|reflexivity].
  rewrite (cloop_xloop (call fuel) (fun pi' => xeval fuel (Some l) (0 + 1) pi')).
  - cbn [c_prec ctx_of].
    destruct (xloop _ st 1 (srcs_total (srcs st)) bs n []) as [n' [ws|e]]; [|reflexivity].
    destruct (aggw O ws); reflexivity.
  - intros cnt m st' lim'. cbn [c_depth c_prec ctx_of]. apply call_is_xeval.
Qed.

(* the limit in force for a call: the explicit one, else the inherited one, else 1 *)
Definition eff_limit (il : option limit) (lim : option rawlimit) : res limit :=
  match lim with
  | None => match il with None => Ok (LInt 1) | Some l0 => norm_limit (raw_of l0) end
  | Some r => norm_limit r
  end.

Lemma xeval_S fuel il d pi n st lim :
  xeval (Datatypes.S fuel) il d pi n st lim =
    match eff_limit il lim with
    | Err e => (n, Err e)
    | Ok l =>
      if cut l (ctx_of il d pi) then (n, Ok (if d =? 0 then lowest O (sentinel st) else sentinel st)) else
      match branches O pad (srcs st) with
      | Err e => (n, Err e)
      | Ok bs =>
        match xloop (fun pi' => xeval fuel (Some l) (d + 1) pi') st pi (srcs_total (srcs st)) bs n [] with
        | (n', Ok ws) => match aggw O ws with
                         | Ok h => (n', Ok (if d =? 0 then lowest O h else h))
                         | Err e => (n', Err e)
                         end
        | (n', Err e) => (n', Err e)
        end
      end
    end.
Proof. reflexivity. Qed.

Theorem xeval_cut fuel il d pi n st lim l : (1 <= fuel)%nat ->
  (match lim with
   | None => match il with None => Ok (LInt 1) | Some l0 => norm_limit (raw_of l0) end
   | Some r => norm_limit r
   end) = Ok l ->
  cut l (ctx_of il d pi) = true ->
  xeval fuel il d pi n st lim = (n, Ok (if (d =? 0)%Z then lowest O (sentinel st) else sentinel st)).
Proof.
  intros Hf Hl Hc. destruct fuel as [|fuel]; [lia|].
  rewrite xeval_S. unfold eff_limit. rewrite Hl, Hc. reflexivity.
Qed.

(* limit 0 gives the sentinel alone; the default limit is 1 *)
Corollary xeval_limit_zero fuel n st : (1 <= fuel)%nat ->
  xeval fuel None 0 1 n st (Some (RInt 0)) = (n, Ok (lowest O (sentinel st))).
Proof. intros Hf. apply (xeval_cut fuel None 0 1 n st (Some (RInt 0)) (LInt 0) Hf); reflexivity. Qed.

Theorem xeval_default_limit fuel n st :
  xeval fuel None 0 1 n st None = xeval fuel None 0 1 n st (Some (RInt 1)).
Proof. destruct fuel; reflexivity. Qed.

(* illegal limits are rejected before anything is evaluated *)
Theorem xeval_bad_limit fuel il d pi n st r e : (1 <= fuel)%nat -> norm_limit r = Err e ->
  xeval fuel il d pi n st (Some r) = (n, Err e).
Proof.
  intros Hf Hr. destruct fuel as [|fuel]; [lia|].
  rewrite xeval_S. unfold eff_limit. rewrite Hr. reflexivity.
Qed.

(* below the cut-off the callback is invoked on every branch, one level deeper, with the path
   probability multiplied by the branch's share *)
Theorem xeval_expand fuel il d pi n st lim l bs : 
  eff_limit il lim = Ok l -> cut l (ctx_of il d pi) = false -> branches O pad (srcs st) = Ok bs ->
  xeval (Datatypes.S fuel) il d pi n st lim =
    match xloop (fun pi' => xeval fuel (Some l) (d + 1) pi') st pi (srcs_total (srcs st)) bs n [] with
    | (n', Ok ws) => match aggw O ws with
                     | Ok h => (n', Ok (if d =? 0 then lowest O h else h))
                     | Err e => (n', Err e)
                     end
    | (n', Err e) => (n', Err e)
    end.
Proof. intros Hl Hc Hb. rewrite xeval_S, Hl, Hc, Hb. reflexivity. Qed.

End A.

(* ------------------------------------------------------------------------------------ *)
(* PART B: explode / H.substitute / H.explode as the truncated re-roll recursion         *)
(* ------------------------------------------------------------------------------------ *)
Section B.
Context {T : Type} (O : ord T).
Local Notation hist := (hist T).
Local Notation val := (val (T:=T)).
Local Notation result := (result (T:=T)).
Variable pad : T.

(* aggregate_weighted can only fail with the constructor's ValueError (a negative count) *)
Lemma aggw_err (ws : list (val * Z)) e : aggw O ws = Err e -> e = ValueError.
Proof.
  unfold aggw, mkH. destruct (existsb _ _); [|discriminate].
  intros E; injection E as <-. reflexivity.
Qed.

(* a single histogram source: one branch per face, the count multiplied by the empty product *)
Lemma branches_SH (h : hist) :
  branches O pad [SH h] = Ok (map (fun oc => ([[fst oc]], snd oc * 1)) h).
Proof.
  unfold branches. cbn [map src_results seq_res results_product].
  f_equal. induction h as [|oc h IH]; [reflexivity|].
  cbn [map flat_map app fst snd]. cbn [map flat_map app fst snd] in IH. rewrite IH. reflexivity.
Qed.

Lemma srcs_total_SH (h : hist) : srcs_total [SH h] = total h * 1.
Proof. reflexivity. Qed.

Lemma snd_post {A} (p : A * res (list (val * Z))) (f : hist -> hist) :
  snd (match p with
       | (n', Ok ws) => match aggw O ws with Ok h => (n', Ok (f h)) | Err e => (n', Err e) end
       | (n', Err e) => (n', Err e)
       end)
  = match snd p with
    | Ok ws => match aggw O ws with Ok h => Ok (f h) | Err e => Err e end
    | Err e => Err e
    end.
Proof. destruct p as [n' [ws|e]]; cbn [snd]; [|reflexivity]. destruct (aggw O ws); reflexivity. Qed.

Lemma map_mul1 {A} (f : T * Z -> A) (l : hist) :
  map (fun oc => (f oc, snd oc * 1)) l = map (fun oc => (f oc, snd oc)) l.
Proof. apply map_ext. intros oc. rewrite Z.mul_1_r. reflexivity. Qed.

(* ---------------- explode ---------------- *)
Section Explode.
Variable addT : T -> T -> T.
Variable vadd : val -> val -> res val.
Hypothesis vadd_hist_out : forall h o, vadd (VHist h) (VOut o) = Ok (VHist (humapT O (fun x => addT x o) h)).

(* k re-rolls left; the raw (unreduced) histogram returned by the nested evaluation *)
Fixpoint reroll (h : hist) (pred : T -> hist -> bool) (k : nat) : res hist :=
  match k with
  | 0%nat => Ok h
  | Datatypes.S k' =>
      match reroll h pred k' with
      | Err e => Err e
      | Ok x => aggw O (map (fun oc => (if pred (fst oc) h then VHist (humapT O (fun y => addT y (fst oc)) x)
                                         else VOut (fst oc), snd oc)) h)
      end
  end.

Lemma reroll_err h pred k e : reroll h pred k = Err e -> e = ValueError.
Proof.
  induction k as [|k IH]; cbn [reroll]; [discriminate|].
  destruct (reroll h pred k) as [x|e'].
  - apply aggw_err.
  - intros E; injection E as <-. apply IH. reflexivity.
Qed.

(* when no face explodes every positive number of re-rolls is the plain aggregation *)
Lemma reroll_nopred h pred k : existsb (fun oc => pred (fst oc) h) h = false ->
  reroll h pred (Datatypes.S k) = aggw O (map (fun oc => (VOut (fst oc), snd oc)) h).
Proof.
  intros Hn.
  assert (M : forall x, map (fun oc : T * Z => (if pred (fst oc) h then VHist (humapT O (fun y => addT y (fst oc)) x)
                                         else VOut (fst oc), snd oc)) h
                        = map (fun oc => (VOut (fst oc), snd oc)) h).
  { intros x. apply map_ext_in. intros oc Hin.
    assert (E : pred (fst oc) h = false).
    { destruct (pred (fst oc) h) eqn:E; [|reflexivity].
      assert (X : existsb (fun oc => pred (fst oc) h) h = true) by (apply existsb_exists; exists oc; split; assumption).
      congruence. }
    rewrite E. reflexivity. }
  induction k as [|k IH].
  - cbn [reroll]. rewrite M. reflexivity.
  - change (reroll h pred (Datatypes.S (Datatypes.S k)))
      with (match reroll h pred (Datatypes.S k) with
            | Err e => Err e
            | Ok x => aggw O (map (fun oc => (if pred (fst oc) h then VHist (humapT O (fun y => addT y (fst oc)) x)
                                               else VOut (fst oc), snd oc)) h)
            end).
    destruct (reroll h pred (Datatypes.S k)) as [x|e] eqn:E.
    + rewrite M. reflexivity.
    + exact IH.
Qed.

(* the callback of evaluation.explode *)
Definition ecb (pred : T -> hist -> bool) (lim : option rawlimit) (isz : T -> bool) (infv : T -> option T)
           (src : hist) (rs : list result) : ret (T:=T) (St:=hist) :=
  match rs with
  | [[o]] =>
      if pred o src then
        if (Nat.eqb (length src) 1) && is_fractional lim then
          if isz o then RHist [(o, 1)]
          else match infv o with Some v => RHist [(v, 1)] | None => RRaise Unsupported end
        else RBin vadd (RCall src None) (ROut o)
      else ROut o
  | _ => RRaise TypeError
  end.

Definition xexplode fuel h pred lim isz infv :=
  xeval O pad (fun src => [SH src]) (fun _ : hist => h) (ecb pred lim isz infv) None fuel.

Lemma explode_xeval fuel h pred lim isz infv :
  explode O pad vadd fuel h pred lim isz infv = snd (xexplode fuel h pred lim isz infv None 0 1 0%nat h lim).
Proof.
  unfold explode, top, xexplode.
  change (fun (src : hist) (rs : list result) => _) with (ecb pred lim isz infv).
  rewrite call_is_xeval_top. destruct (xeval _ _ _ _ _ _ _ _ _ _ _ _ _) as [n' r]. reflexivity.
Qed.

Section Loop.
Variables (h : hist) (pred : T -> hist -> bool) (lim : option rawlimit) (isz : T -> bool) (infv : T -> option T).
Hypothesis Hfr : is_fractional lim = false.
Variable rec : Q -> nat -> hist -> option rawlimit -> nat * res hist.
Variable R : res hist.
Hypothesis Hrec : forall pi m, snd (rec pi m h None) = R.
Hypothesis HR : R <> Err RecursionError.

Lemma xloop_explode pi tot l : forall m acc,
  snd (xloop (fun _ : hist => h) (ecb pred lim isz infv) None rec h pi tot
             (map (fun oc => ([[fst oc]], snd oc * 1)) l) m acc)
  = match R with
    | Ok x => Ok (rev acc ++ map (fun oc => (if pred (fst oc) h then VHist (humapT O (fun y => addT y (fst oc)) x)
                                               else VOut (fst oc), snd oc * 1)) l)
    | Err e => if existsb (fun oc => pred (fst oc) h) l then Err e
               else Ok (rev acc ++ map (fun oc => (VOut (fst oc), snd oc * 1)) l)
    end.
Proof.
  induction l as [|[o c] l IH]; intros m acc.
  - cbn [map xloop snd existsb]. rewrite app_nil_r. destruct R; reflexivity.
  - cbn [map xloop fst snd existsb ecb]. rewrite Hfr, andb_false_r.
    destruct (pred o h) eqn:Ep.
    + cbn [xev orb].
      specialize (Hrec (pi * (inject_Z (c * 1) / inject_Z (if tot =? 0 then 1 else tot)))%Q (Datatypes.S m)).
      destruct (rec _ (Datatypes.S m) h None) as [m1 [x|e]]; cbn [snd] in Hrec.
      * rewrite vadd_hist_out. rewrite IH. rewrite <- Hrec.
        cbn [rev]. rewrite <- app_assoc. reflexivity.
      * rewrite <- Hrec. destruct e; try reflexivity. exfalso. apply HR. symmetry. exact Hrec.
    + cbn [xev orb]. rewrite IH. cbn [rev].
      destruct R as [x|e]; [rewrite <- app_assoc; reflexivity|].
      destruct (existsb _ l); [reflexivity|]. rewrite <- app_assoc. reflexivity.
Qed.
End Loop.

(* one level of the expansion below a whole-number limit N *)
Lemma xexplode_level fuel h pred lim isz infv il d pi m lim' N k :
  is_fractional lim = false ->
  eff_limit il lim' = Ok (LInt N) -> d < N ->
  (forall pi' m', snd (xexplode fuel h pred lim isz infv (Some (LInt N)) (d + 1) pi' m' h None) = reroll h pred k) ->
  snd (xexplode (Datatypes.S fuel) h pred lim isz infv il d pi m h lim')
  = match reroll h pred (Datatypes.S k) with
    | Ok x => Ok (if d =? 0 then lowest O x else x)
    | Err e => Err e
    end.
Proof.
  intros Hfr Hl Hd Hrec. unfold xexplode.
  rewrite (xeval_expand O pad _ _ _ None fuel il d pi m h lim' (LInt N)
             (map (fun oc => ([[fst oc]], snd oc * 1)) h) Hl).
  2:{ rewrite cut_int. apply Z.leb_gt. exact Hd. }
  2:{ apply branches_SH. }
  rewrite (snd_post _ (fun x => if d =? 0 then lowest O x else x)). cbv beta.
  rewrite (xloop_explode h pred lim isz infv Hfr _ (reroll h pred k) Hrec).
  2:{ intros E. apply reroll_err in E. discriminate. }
  cbn [rev app reroll].
  destruct (reroll h pred k) as [x|e] eqn:ER.
  - rewrite map_mul1. reflexivity.
  - destruct (existsb (fun oc => pred (fst oc) h) h) eqn:Ex; [reflexivity|].
    rewrite map_mul1.
    destruct k as [|k]; [cbn [reroll] in ER; discriminate|].
    rewrite (reroll_nopred h pred k Ex) in ER. rewrite ER. reflexivity.
Qed.

Lemma xexplode_nested h pred lim isz infv N : is_fractional lim = false ->
  forall k fuel d pi m, d + Z.of_nat k = N -> 1 <= d -> (k < fuel)%nat ->
  snd (xexplode fuel h pred lim isz infv (Some (LInt N)) d pi m h None) = reroll h pred k.
Proof.
  intros Hfr. induction k as [|k IH]; intros fuel d pi m Hdk Hd Hf.
  - unfold xexplode. rewrite (xeval_cut O pad _ _ _ None fuel (Some (LInt N)) d pi m h None (LInt N)).
    + cbn [snd reroll]. destruct (Z.eqb_spec d 0); [lia|]. reflexivity.
    + lia.
    + cbn [raw_of]. apply norm_limit_LInt. lia.
    + rewrite cut_int. apply Z.leb_le. lia.
  - destruct fuel as [|fuel]; [lia|].
    rewrite (xexplode_level fuel h pred lim isz infv (Some (LInt N)) d pi m None N k Hfr).
    + destruct (reroll h pred (Datatypes.S k)); [|reflexivity].
      destruct (Z.eqb_spec d 0); [lia|]. reflexivity.
    + unfold eff_limit. cbn [raw_of]. apply norm_limit_LInt. lia.
    + lia.
    + intros pi' m'. apply IH; lia.
Qed.

Theorem explode_int fuel h pred n isz infv : (n < fuel)%nat ->
  explode O pad vadd fuel h pred (Some (RInt (Z.of_nat n))) isz infv
  = match reroll h pred n with Ok x => Ok (lowest O x) | Err e => Err e end.
Proof.
  intros Hf. rewrite explode_xeval. destruct n as [|n].
  - unfold xexplode. change (Z.of_nat 0) with 0. rewrite xeval_limit_zero by lia. reflexivity.
  - destruct fuel as [|fuel]; [lia|].
    rewrite (xexplode_level fuel h pred _ isz infv None 0 1 0%nat _ (Z.of_nat (Datatypes.S n)) n).
    + reflexivity.
    + reflexivity.
    + unfold eff_limit. apply norm_limit_LInt. lia.
    + lia.
    + intros pi' m'. apply xexplode_nested; [reflexivity|lia|lia|lia].
Qed.

(* default limit is one re-roll; limit 0 and the empty histogram give back (the reduction of) h *)
Theorem explode_default fuel h pred isz infv :
  explode O pad vadd fuel h pred None isz infv = explode O pad vadd fuel h pred (Some (RInt 1)) isz infv.
Proof.
  rewrite !explode_xeval. unfold xexplode.
  change (ecb pred (Some (RInt 1)) isz infv) with (ecb pred None isz infv).
  rewrite xeval_default_limit. reflexivity.
Qed.

Theorem explode_zero fuel h pred isz infv : (0 < fuel)%nat ->
  explode O pad vadd fuel h pred (Some (RInt 0)) isz infv = Ok (lowest O h).
Proof. intros Hf. rewrite explode_xeval. unfold xexplode. rewrite xeval_limit_zero by lia. reflexivity. Qed.

Lemma lowest_nil : lowest O (@nil (T * Z)) = [].
Proof. reflexivity. Qed.

Theorem explode_empty fuel pred lim isz infv l : (0 < fuel)%nat ->
  match lim with None => Ok (LInt 1) | Some r => norm_limit r end = Ok l ->
  explode O pad vadd fuel [] pred lim isz infv = Ok [].
Proof.
  intros Hf Hl. rewrite explode_xeval. unfold xexplode.
  destruct fuel as [|fuel]; [lia|]. rewrite xeval_S.
  change (eff_limit None lim) with (match lim with None => Ok (LInt 1) | Some r => norm_limit r end).
  rewrite Hl. destruct (cut l (ctx_of None 0 1)); [reflexivity|].
  reflexivity.
Qed.

(* illegal limits are rejected *)
Theorem explode_bad_limit fuel h pred r isz infv e : (0 < fuel)%nat -> norm_limit r = Err e ->
  explode O pad vadd fuel h pred (Some r) isz infv = Err e.
Proof.
  intros Hf Hr. rewrite explode_xeval. unfold xexplode. rewrite (xeval_bad_limit _ _ _ _ _ _ _ _ _ _ _ _ _ e) by (lia || assumption).
  reflexivity.
Qed.

End Explode.
(* ---------------- H.substitute ---------------- *)
Section Subst.

(* H.substitute: the same bounded recursion with coalesce applied to each expanded branch; the
   sentinel stays the original histogram h0 while the re-rolled source may change *)
Fixpoint subst_k (h0 : hist) (expand : hist -> T -> val) (coalesce : val -> T -> res val)
         (k : nat) (src : hist) : res hist :=
  match k with
  | 0%nat => Ok h0
  | Datatypes.S k' =>
      match seq_res (map (fun oc => match expand src (fst oc) with
                                    | VOut o' => Ok (VOut o', snd oc)
                                    | VHist h' => match subst_k h0 expand coalesce k' h' with
                                                  | Ok x => match coalesce (VHist x) (fst oc) with
                                                            | Ok v => Ok (v, snd oc) | Err e => Err e end
                                                  | Err e => Err e end
                                    end) src) with
      | Ok ws => aggw O ws
      | Err e => Err e
      end
  end.

Lemma seq_res_err {A} (l : list (res A)) e : seq_res l = Err e -> In (Err e) l.
Proof.
  induction l as [|[a|e'] l IH]; cbn [seq_res].
  - discriminate.
  - destruct (seq_res l) as [r|e'']; [discriminate|].
    intros E; injection E as <-. right. apply IH. reflexivity.
  - intros E; injection E as <-. left. reflexivity.
Qed.

Definition scb (expand : hist -> T -> val) (coalesce : val -> T -> res val)
           (src : hist) (rs : list result) : ret (T:=T) (St:=hist) :=
  match rs with
  | [[o]] => match expand src o with
             | VHist h' => RUn (fun v => coalesce v o) (RCall h' None)
             | VOut o' => ROut o'
             end
  | _ => RRaise TypeError
  end.

Definition xsubst fuel h expand coalesce :=
  xeval O pad (fun src => [SH src]) (fun _ : hist => h) (scb expand coalesce) None fuel.

Lemma substitute_xeval fuel h expand coalesce md pl :
  substitute O pad fuel h expand coalesce md pl =
  match md, pl with
  | Some _, Some _ => Err ValueError
  | _, _ => snd (xsubst fuel h expand coalesce None 0 1 0%nat h (match pl with None => md | Some _ => pl end))
  end.
Proof.
  unfold substitute, top, xsubst.
  change (fun (src : hist) (rs : list result) => _) with (scb expand coalesce).
  rewrite call_is_xeval_top. destruct (xeval _ _ _ _ _ _ _ _ _ _ _ _ _) as [n' r].
  destruct md, pl; reflexivity.
Qed.

Theorem substitute_both_limits fuel h expand coalesce a b :
  substitute O pad fuel h expand coalesce (Some a) (Some b) = Err ValueError.
Proof. reflexivity. Qed.

Variables (h0 : hist) (expand : hist -> T -> val) (coalesce : val -> T -> res val).
(* RecursionError raised by the callback itself would be swallowed by the evaluator *)
Hypothesis coalesce_norec : forall v o e, coalesce v o = Err e -> e <> RecursionError.

Lemma subst_k_norec k : forall src, subst_k h0 expand coalesce k src <> Err RecursionError.
Proof.
  induction k as [|k IH]; intros src; cbn [subst_k]; [discriminate|].
  destruct (seq_res _) as [ws|e] eqn:E.
  - intros X. apply aggw_err in X. discriminate.
  - intros X. injection X as ->. apply seq_res_err in E. apply in_map_iff in E.
    destruct E as [oc [E _]].
    destruct (expand src (fst oc)) as [o'|h']; [discriminate|].
    destruct (subst_k h0 expand coalesce k h') as [x|e] eqn:Ek.
    + destruct (coalesce (VHist x) (fst oc)) as [v|e] eqn:Ec; [discriminate|].
      injection E as ->. exact (coalesce_norec _ _ _ Ec eq_refl).
    + injection E as ->. exact (IH h' Ek).
Qed.

Section Loop.
Variable rec : Q -> nat -> hist -> option rawlimit -> nat * res hist.
Variable F : hist -> res hist.
Hypothesis Hrec : forall pi m h', snd (rec pi m h' None) = F h'.
Hypothesis HF : forall h', F h' <> Err RecursionError.

Lemma xloop_subst src pi tot l : forall m acc,
  snd (xloop (fun _ : hist => h0) (scb expand coalesce) None rec src pi tot
             (map (fun oc => ([[fst oc]], snd oc * 1)) l) m acc)
  = match seq_res (map (fun oc => match expand src (fst oc) with
                                  | VOut o' => Ok (VOut o', snd oc * 1)
                                  | VHist h' => match F h' with
                                                | Ok x => match coalesce (VHist x) (fst oc) with
                                                          | Ok v => Ok (v, snd oc * 1) | Err e => Err e end
                                                | Err e => Err e end
                                  end) l) with
    | Ok ws => Ok (rev acc ++ ws)
    | Err e => Err e
    end.
Proof.
  induction l as [|[o c] l IH]; intros m acc.
  - cbn [map xloop snd seq_res]. rewrite app_nil_r. reflexivity.
  - cbn [map xloop fst snd scb seq_res].
    destruct (expand src o) as [o'|h'].
    + cbn [xev]. rewrite IH. cbn [rev].
      destruct (seq_res _) as [ws|e]; [|reflexivity]. rewrite <- app_assoc. reflexivity.
    + cbn [xev].
      specialize (Hrec (pi * (inject_Z (c * 1) / inject_Z (if tot =? 0 then 1 else tot)))%Q (Datatypes.S m) h').
      specialize (HF h').
      destruct (rec _ (Datatypes.S m) h' None) as [m1 [x|e]]; cbn [snd] in Hrec; rewrite <- Hrec in *.
      * destruct (coalesce (VHist x) o) as [v|e] eqn:Ec.
        -- rewrite IH. cbn [rev].
           destruct (seq_res _) as [ws|e]; [|reflexivity]. rewrite <- app_assoc. reflexivity.
        -- destruct e; try reflexivity. exfalso. exact (coalesce_norec _ _ _ Ec eq_refl).
      * destruct e; try reflexivity. exfalso. apply HF. reflexivity.
Qed.
End Loop.

Lemma xsubst_level fuel il d pi m src lim' N k :
  eff_limit il lim' = Ok (LInt N) -> d < N ->
  (forall pi' m' h', snd (xsubst fuel h0 expand coalesce (Some (LInt N)) (d + 1) pi' m' h' None)
                     = subst_k h0 expand coalesce k h') ->
  snd (xsubst (Datatypes.S fuel) h0 expand coalesce il d pi m src lim')
  = match subst_k h0 expand coalesce (Datatypes.S k) src with
    | Ok x => Ok (if d =? 0 then lowest O x else x)
    | Err e => Err e
    end.
Proof.
  intros Hl Hd Hrec. unfold xsubst.
  rewrite (xeval_expand O pad _ _ _ None fuel il d pi m src lim' (LInt N)
             (map (fun oc => ([[fst oc]], snd oc * 1)) src) Hl).
  2:{ rewrite cut_int. apply Z.leb_gt. exact Hd. }
  2:{ apply branches_SH. }
  rewrite (snd_post _ (fun x => if d =? 0 then lowest O x else x)). cbv beta.
  rewrite (xloop_subst _ (subst_k h0 expand coalesce k) Hrec (subst_k_norec k)).
  cbn [rev app subst_k].
  match goal with |- match match seq_res (map ?f src) with _ => _ end with _ => _ end
                     = match match seq_res (map ?g src) with _ => _ end with _ => _ end =>
    assert (E : map f src = map g src) end.
  { apply map_ext. intros oc. rewrite Z.mul_1_r. reflexivity. }
  rewrite E. destruct (seq_res _) as [ws|e]; reflexivity.
Qed.

Lemma xsubst_nested N :
  forall k fuel d pi m src, d + Z.of_nat k = N -> 1 <= d -> (k < fuel)%nat ->
  snd (xsubst fuel h0 expand coalesce (Some (LInt N)) d pi m src None) = subst_k h0 expand coalesce k src.
Proof.
  induction k as [|k IH]; intros fuel d pi m src Hdk Hd Hf.
  - unfold xsubst. rewrite (xeval_cut O pad _ _ _ None fuel (Some (LInt N)) d pi m src None (LInt N)).
    + cbn [snd subst_k]. destruct (Z.eqb_spec d 0); [lia|]. reflexivity.
    + lia.
    + cbn [raw_of]. apply norm_limit_LInt. lia.
    + rewrite cut_int. apply Z.leb_le. lia.
  - destruct fuel as [|fuel]; [lia|].
    rewrite (xsubst_level fuel (Some (LInt N)) d pi m src None N k).
    + destruct (subst_k h0 expand coalesce (Datatypes.S k) src); [|reflexivity].
      destruct (Z.eqb_spec d 0); [lia|]. reflexivity.
    + unfold eff_limit. cbn [raw_of]. apply norm_limit_LInt. lia.
    + lia.
    + intros pi' m' h'. apply IH; lia.
Qed.

Theorem substitute_int fuel n : (n < fuel)%nat ->
  substitute O pad fuel h0 expand coalesce (Some (RInt (Z.of_nat n))) None
  = match subst_k h0 expand coalesce n h0 with Ok x => Ok (lowest O x) | Err e => Err e end.
Proof.
  intros Hf. rewrite substitute_xeval. destruct n as [|n].
  - unfold xsubst. change (Z.of_nat 0) with 0. rewrite xeval_limit_zero by lia. reflexivity.
  - destruct fuel as [|fuel]; [lia|].
    rewrite (xsubst_level fuel None 0 1 0%nat h0 _ (Z.of_nat (Datatypes.S n)) n).
    + reflexivity.
    + unfold eff_limit. apply norm_limit_LInt. lia.
    + lia.
    + intros pi' m' h'. apply xsubst_nested; lia.
Qed.

End Subst.

(* ---------------- deprecated H.explode ---------------- *)
Theorem h_explode_single_face vadd fuel maxT (h : hist) md l :
  length h = 1%nat -> (forall oc, In oc h -> 0 <= snd oc) -> (0 < fuel)%nat ->
  match md with None => Ok (LInt 1) | Some r => norm_limit r end = Ok l ->
  h_explode O pad vadd fuel maxT h md None = Ok (lowest O h).
Proof.
  intros Hlen Hnn Hf Hl. unfold h_explode. rewrite substitute_xeval.
  replace (match md with Some _ | _ => _ end)
    with (snd (xsubst fuel h
                 (fun src o => if Nat.eqb (length src) 1 then VOut o
                               else match maxT src with
                                    | Some m => if eqb O o m then VHist src else VOut o
                                    | None => VOut o
                                    end)
                 (fun v o => vadd v (VOut o)) None 0 1 0%nat h md)) by (destruct md; reflexivity).
  destruct h as [|[o c] [|oc' h']]; try discriminate Hlen.
  assert (Hc : 0 <= c) by (apply (Hnn (o, c)); left; reflexivity).
  destruct fuel as [|fuel]; [lia|]. unfold xsubst. rewrite xeval_S.
  change (eff_limit None md) with (match md with None => Ok (LInt 1) | Some r => norm_limit r end).
  rewrite Hl. destruct (cut l (ctx_of None 0 1)); [reflexivity|].
  rewrite branches_SH. cbn [map fst snd xloop scb length Nat.eqb xev rev app].
  unfold aggw. cbn [fold_left aggw_step snd app]. unfold mkH. cbn [existsb snd orb].
  replace (c * 1 * 1) with c by ring.
  destruct (Z.ltb_spec c 0); [lia|]. reflexivity.
Qed.

(* the side condition on the counts is needed: a negative count makes the constructor fail *)
Theorem h_explode_single_face_neg vadd fuel maxT o c : c < 0 ->
  h_explode O pad vadd (Datatypes.S fuel) maxT [(o, c)] None None = Err ValueError.
Proof.
  intros Hc. unfold h_explode. rewrite substitute_xeval. unfold xsubst. rewrite xeval_S.
  cbn [eff_limit]. rewrite cut_int. cbn [Z.leb Z.compare].
  rewrite branches_SH. cbn [map fst snd xloop scb length Nat.eqb xev rev app].
  unfold aggw. cbn [fold_left aggw_step snd app]. unfold mkH. cbn [existsb snd orb].
  replace (c * 1 * 1) with c by ring.
  destruct (Z.ltb_spec c 0); [reflexivity|lia].
Qed.

(* with any other number of faces H.explode is evaluation.explode with the default predicate
   "the face is the histogram's maximum" (for every limit, fuel, and including all errors) *)
Section HExplode.
Variable vadd : val -> val -> res val.
Variable maxT : hist -> option T.
Variables (h : hist) (lim : option rawlimit) (isz : T -> bool) (infv : T -> option T).
Hypothesis Hlen : length h <> 1%nat.

Let hexpand := fun (src : hist) (o : T) =>
  if Nat.eqb (length src) 1 then VOut o
  else match maxT src with
       | Some m => if eqb O o m then VHist src else VOut o
       | None => VOut o
       end.
Let hcoalesce := fun (v : val) (o : T) => vadd v (VOut o).
Let hpred := fun (o : T) (src : hist) => match maxT src with Some m => eqb O o m | None => false end.

Lemma xloop_hexplode rec1 rec2 pi tot :
  (forall pi' m, rec1 pi' m h None = rec2 pi' m h None) ->
  forall bs m acc,
  xloop (fun _ : hist => h) (scb hexpand hcoalesce) None rec1 h pi tot bs m acc
  = xloop (fun _ : hist => h) (ecb vadd hpred lim isz infv) None rec2 h pi tot bs m acc.
Proof.
  intros Hrec. induction bs as [|[rs c] bs IH]; intros m acc; [reflexivity|].
  cbn [xloop].
  assert (E : xev (rec1 (pi * (inject_Z c / inject_Z (if tot =? 0 then 1 else tot)))%Q)
                  (scb hexpand hcoalesce h rs) (Datatypes.S m)
            = xev (rec2 (pi * (inject_Z c / inject_Z (if tot =? 0 then 1 else tot)))%Q)
                  (ecb vadd hpred lim isz infv h rs) (Datatypes.S m)).
  { destruct rs as [|[|o [|o' r]] [|r' rs]]; try reflexivity.
    unfold scb, ecb, hexpand, hpred.
    destruct (Nat.eqb_spec (length h) 1) as [E1|_]; [contradiction|]. cbn [andb].
    destruct (maxT h) as [mx|]; [|reflexivity].
    destruct (eqb O o mx); [|reflexivity].
    cbn [xev]. rewrite Hrec.
    destruct (rec2 _ (Datatypes.S m) h None) as [m1 [x|e]]; reflexivity. }
  rewrite E. clear E. destruct (xev _ _ _) as [m1 [x|e]]; [apply IH|].
  destruct e; try reflexivity. apply IH.
Qed.

Lemma xeval_hexplode fuel : forall il d pi m lim',
  xsubst fuel h hexpand hcoalesce il d pi m h lim'
  = xexplode vadd fuel h hpred lim isz infv il d pi m h lim'.
Proof.
  unfold xsubst, xexplode. induction fuel as [|fuel IH]; intros il d pi m lim'; [reflexivity|].
  rewrite !xeval_S. destruct (eff_limit il lim') as [l|e]; [|reflexivity].
  destruct (cut l (ctx_of il d pi)); [reflexivity|].
  destruct (branches O pad [SH h]) as [bs|e]; [|reflexivity].
  rewrite (xloop_hexplode _ (fun pi' => xeval O pad (fun src => [SH src]) (fun _ : hist => h)
                                         (ecb vadd hpred lim isz infv) None fuel (Some l) (d + 1) pi')).
  - reflexivity.
  - intros pi' m'. apply IH.
Qed.

Theorem h_explode_is_explode fuel md pl :
  lim = match pl with None => md | Some _ => pl end ->
  h_explode O pad vadd fuel maxT h md pl
  = match md, pl with
    | Some _, Some _ => Err ValueError
    | _, _ => explode O pad vadd fuel h hpred lim isz infv
    end.
Proof.
  intros El. unfold h_explode. rewrite substitute_xeval, explode_xeval.
  fold hexpand. fold hcoalesce. rewrite <- El. rewrite xeval_hexplode. reflexivity.
Qed.
End HExplode.

(* the default predicate of evaluation.explode *)
Definition max_pred (maxT : hist -> option T) : T -> hist -> bool :=
  fun o src => match maxT src with Some m => eqb O o m | None => false end.

Corollary h_explode_max_depth vadd maxT h md isz infv fuel : length h <> 1%nat ->
  h_explode O pad vadd fuel maxT h md None = explode O pad vadd fuel h (max_pred maxT) md isz infv.
Proof.
  intros Hlen. rewrite (h_explode_is_explode vadd maxT h md isz infv Hlen fuel md None eq_refl).
  destruct md; reflexivity.
Qed.

Corollary h_explode_precision vadd maxT h pl isz infv fuel : length h <> 1%nat ->
  h_explode O pad vadd fuel maxT h None (Some pl) = explode O pad vadd fuel h (max_pred maxT) (Some pl) isz infv.
Proof.
  intros Hlen. exact (h_explode_is_explode vadd maxT h (Some pl) isz infv Hlen fuel None (Some pl) eq_refl).
Qed.

(* the hypothesis of substitute_int is needed: a coalesce raising RecursionError is silently
   replaced by the sentinel, so the evaluator succeeds where the plain recursion fails *)
Theorem substitute_norec_needed (o : T) :
  let h := [(o, 1)] in
  let expand := fun (src : hist) (_ : T) => VHist src in
  let coalesce := fun (_ : val) (_ : T) => @Err val RecursionError in
  substitute O pad 2 h expand coalesce (Some (RInt 1)) None = Ok h
  /\ subst_k h expand coalesce 1 h = Err RecursionError.
Proof. split; reflexivity. Qed.

End B.

Print Assumptions call_is_xeval.
Print Assumptions call_is_xeval_top.
Print Assumptions xeval_cut.
Print Assumptions explode_int.
Print Assumptions substitute_int.
Print Assumptions h_explode_single_face.
Print Assumptions h_explode_is_explode.
