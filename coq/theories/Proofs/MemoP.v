From Coq Require Import ZArith QArith Qcanon List Bool Lia.
From Dyce Require Import Base.Sums Base.Order Base.Hist Base.QcOrd Model.Select Model.Pool Model.Equality Model.Memo.
Import ListNotations.
Open Scope Z_scope.

Section P.
Context {Inp Key Ans : Type}.
Variable K : Inp -> Key.
Variable f : Inp -> Ans.
Variable keqb : Key -> Key -> bool.
Hypothesis keqb_spec : forall a b, keqb a b = true <-> a = b.

(* every stored entry is the pure answer for its key *)
Definition table_ok (t : table (Key:=Key) (Ans:=Ans)) : Prop :=
  forall k a, In (k, a) t -> exists x, K x = k /\ f x = a.

Lemma memo_call_ok t x : (forall x y, K x = K y -> f x = f y) -> table_ok t ->
  snd (memo_call K f keqb t x) = f x /\ table_ok (fst (memo_call K f keqb t x)).
Proof.
  intros Hr Ht. unfold memo_call. destruct (find _ t) as [[k a]|] eqn:E.
  - apply find_some in E. destruct E as [Hin Hk]. cbn [fst snd] in *. apply keqb_spec in Hk. subst k.
    destruct (Ht _ _ Hin) as [y [Ky Fy]]. split; [|exact Ht]. rewrite <- Fy. apply Hr. exact Ky.
  - cbn [fst snd]. split; [reflexivity|]. intros k a [E'|Hin]; [injection E' as <- <-; exists x; split; reflexivity|exact (Ht _ _ Hin)].
Qed.

(* a memo whose key determines the answer is transparent: any history answers as first calls do *)
Theorem memo_transparent : (forall x y, K x = K y -> f x = f y) ->
  forall xs, memo_run K f keqb [] xs = map f xs.
Proof.
  intros Hr. assert (G : forall xs t, table_ok t -> memo_run K f keqb t xs = map f xs).
  { induction xs as [|x xs IH]; intros t Ht; cbn [memo_run map]; [reflexivity|].
    destruct (memo_call_ok t x Hr Ht) as [Ha Ht']. destruct (memo_call K f keqb t x) as [t' a]. cbn [fst snd] in *.
    rewrite Ha, (IH t' Ht'). reflexivity. }
  intros xs. apply G. intros k a [].
Qed.

(* and conversely: a key that conflates two inputs with different answers breaks some history *)
Theorem memo_not_transparent x y : K x = K y -> f x <> f y ->
  memo_run K f keqb [] [x; y] <> map f [x; y].
Proof.
  intros Hk Hf. cbn [memo_run map]. unfold memo_call at 1. cbn [find fst snd].
  unfold memo_call. cbn [find fst]. rewrite Hk.
  rewrite (proj2 (keqb_spec (K y) (K y)) eq_refl). cbn [snd memo_run]. intros E. injection E as E. congruence.
Qed.
End P.

(* the exact key trivially determines the answer *)
Theorem K_exact_respects : forall a b, K_exact a = K_exact b -> sel_fun a = sel_fun b.
Proof. unfold K_exact. intros a b ->. reflexivity. Qed.
