(* Facts about index / slice resolution, getitems and _analyze_selection
   (model in Model/Select.v). *)
From Coq Require Import ZArith List Lia Bool Arith Permutation.
From Dyce Require Import Base.Hist Model.Select.
Import ListNotations.
Local Open Scope nat_scope.

(* ------------------------------------------------------------------ *)
(* range(start, stop, step)                                            *)

Lemma zrange_up_bound fuel : forall cur stop step, (0 < step)%Z ->
  Forall (fun x => (cur <= x < stop)%Z) (zrange_up fuel cur stop step).
Proof.
  induction fuel as [|f IH]; intros cur stop step Hstep; cbn [zrange_up].
  - constructor.
  - destruct (Z.ltb_spec cur stop) as [Hlt|Hge].
    + constructor; [lia|].
      eapply Forall_impl; [|apply (IH (cur + step)%Z stop step Hstep)].
      intros x Hx; cbv beta in Hx; lia.
    + constructor.
Qed.

Lemma zrange_down_bound fuel : forall cur stop step, (step < 0)%Z ->
  Forall (fun x => (stop < x <= cur)%Z) (zrange_down fuel cur stop step).
Proof.
  induction fuel as [|f IH]; intros cur stop step Hstep; cbn [zrange_down].
  - constructor.
  - destruct (Z.ltb_spec stop cur) as [Hlt|Hge].
    + constructor; [lia|].
      eapply Forall_impl; [|apply (IH (cur + step)%Z stop step Hstep)].
      intros x Hx; cbv beta in Hx; lia.
    + constructor.
Qed.

Lemma slice_positions_err n a b c e : slice_positions n a b c = Err e -> e = ValueError.
Proof.
  unfold slice_positions.
  destruct (Z.eqb_spec (match c with Some s => s | None => 1%Z end) 0) as [Hz|Hnz];
    intros H; [injection H as <-; reflexivity | discriminate H].
Qed.

Lemma slice_positions_bound n a b c l : slice_positions n a b c = Ok l ->
  Forall (fun x => (0 <= x < Z.of_nat n)%Z) l.
Proof.
  unfold slice_positions.
  set (st := match c with Some s => s | None => 1%Z end).
  generalize (S n) as fuel; intros fuel.
  destruct (Z.eqb_spec st 0) as [Hz|Hnz]; [discriminate|].
  intros H; injection H as <-.
  pose proof (Zle_0_nat n) as Hn.
  destruct (Z.ltb_spec st 0) as [Hneg|Hpos].
  - (* negative step *)
    eapply Forall_impl; [|apply zrange_down_bound; exact Hneg].
    intros x Hx; cbv beta in Hx.
    assert (Hclamp : forall v, (-1 <= (if (v <? 0)%Z then Z.max (v + Z.of_nat n) (-1)
                                       else Z.min v (Z.of_nat n - 1)) <= Z.of_nat n - 1)%Z).
    { intros v. destruct (Z.ltb_spec v 0) as [Hv|Hv]; lia. }
    assert (Hs : ((match a with
                   | Some v => if (v <? 0)%Z then Z.max (v + Z.of_nat n) (-1)
                               else Z.min v (Z.of_nat n - 1)
                   | None => Z.of_nat n - 1 end) <= Z.of_nat n - 1)%Z).
    { destruct a as [v|]; [apply Hclamp | lia]. }
    assert (He : (-1 <= (match b with
                   | Some v => if (v <? 0)%Z then Z.max (v + Z.of_nat n) (-1)
                               else Z.min v (Z.of_nat n - 1)
                   | None => -1 end))%Z).
    { destruct b as [v|]; [apply Hclamp | lia]. }
    lia.
  - (* positive step *)
    assert (Hpos' : (0 < st)%Z) by lia.
    eapply Forall_impl; [|apply zrange_up_bound; exact Hpos'].
    intros x Hx; cbv beta in Hx.
    assert (Hclamp : forall v, (0 <= (if (v <? 0)%Z then Z.max (v + Z.of_nat n) 0
                                      else Z.min v (Z.of_nat n)) <= Z.of_nat n)%Z).
    { intros v. destruct (Z.ltb_spec v 0) as [Hv|Hv]; lia. }
    assert (Hs : (0 <= (match a with
                   | Some v => if (v <? 0)%Z then Z.max (v + Z.of_nat n) 0
                               else Z.min v (Z.of_nat n)
                   | None => 0 end))%Z).
    { destruct a as [v|]; [apply Hclamp | lia]. }
    assert (He : ((match b with
                   | Some v => if (v <? 0)%Z then Z.max (v + Z.of_nat n) 0
                               else Z.min v (Z.of_nat n)
                   | None => Z.of_nat n end) <= Z.of_nat n)%Z).
    { destruct b as [v|]; [apply Hclamp | lia]. }
    lia.
Qed.

(* ------------------------------------------------------------------ *)
(* resolve1 / resolve                                                  *)

Lemma resolve1_bound n s idx : resolve1 n s = Ok idx -> Forall (fun i => i < n) idx.
Proof.
  destruct s as [i|a b c]; cbn [resolve1].
  - destruct (Z.leb_spec 0 i) as [H0|H0]; destruct (Z.ltb_spec i (Z.of_nat n)) as [H1|H1];
      cbn [andb].
    + intros H; injection H as <-. constructor; [lia|constructor].
    + destruct (Z.leb_spec (- Z.of_nat n) i) as [H2|H2];
        destruct (Z.ltb_spec i 0) as [H3|H3]; cbn [andb]; try discriminate.
      lia.
    + destruct (Z.leb_spec (- Z.of_nat n) i) as [H2|H2];
        destruct (Z.ltb_spec i 0) as [H3|H3]; cbn [andb]; try discriminate.
      intros H; injection H as <-. constructor; [lia|constructor].
    + destruct (Z.leb_spec (- Z.of_nat n) i) as [H2|H2];
        destruct (Z.ltb_spec i 0) as [H3|H3]; cbn [andb]; try discriminate.
      lia.
  - destruct (slice_positions n a b c) as [l|e] eqn:Hs; [|discriminate].
    intros H; injection H as <-.
    apply slice_positions_bound in Hs.
    apply Forall_map. eapply Forall_impl; [|exact Hs].
    intros x Hx; cbv beta in Hx; lia.
Qed.

Lemma resolve1_err n s e : resolve1 n s = Err e ->
  (exists i, s = Idx i /\ e = IndexError /\ (i < - Z.of_nat n \/ Z.of_nat n <= i)%Z)
  \/ ((exists a b c, s = Slice a b c) /\ e = ValueError).
Proof.
  destruct s as [i|a b c]; cbn [resolve1].
  - destruct (Z.leb_spec 0 i) as [H0|H0]; destruct (Z.ltb_spec i (Z.of_nat n)) as [H1|H1];
      cbn [andb]; try discriminate;
      destruct (Z.leb_spec (- Z.of_nat n) i) as [H2|H2];
      destruct (Z.ltb_spec i 0) as [H3|H3]; cbn [andb]; try discriminate;
      intros H; injection H as <-; left; exists i; (split; [reflexivity|split; [reflexivity|lia]]).
  - destruct (slice_positions n a b c) as [l|e'] eqn:Hs; [discriminate|].
    intros H; injection H as <-. right. split; [eauto|].
    eapply slice_positions_err; exact Hs.
Qed.

(* every resolved position is in range *)
Lemma resolve_bound n w idx : resolve n w = Ok idx -> Forall (fun i => (i < n)%nat) idx.
Proof.
  revert idx; induction w as [|s w IH]; intros idx; cbn [resolve].
  - intros H; injection H as <-; constructor.
  - destruct (resolve1 n s) as [l|e] eqn:H1; [|discriminate].
    destruct (resolve n w) as [l'|e] eqn:H2; [|discriminate].
    intros H; injection H as <-.
    apply Forall_app; split; [eapply resolve1_bound; exact H1 | apply IH; reflexivity].
Qed.

Lemma resolve_err n w e : resolve n w = Err e -> e = IndexError \/ e = ValueError.
Proof.
  induction w as [|s w IH]; cbn [resolve]; [discriminate|].
  destruct (resolve1 n s) as [l|e1] eqn:H1.
  - destruct (resolve n w) as [l'|e2] eqn:H2; [discriminate|].
    intros H; injection H as <-. apply IH; reflexivity.
  - intros H; injection H as <-.
    apply resolve1_err in H1.
    destruct H1 as [(i & _ & He & _) | (_ & He)]; [left|right]; exact He.
Qed.

Lemma resolve_index_error n w : resolve n w = Err IndexError ->
  exists i, In (Idx i) w /\ (i < - Z.of_nat n \/ Z.of_nat n <= i)%Z.
Proof.
  induction w as [|s w IH]; cbn [resolve]; [discriminate|].
  destruct (resolve1 n s) as [l|e1] eqn:H1.
  - destruct (resolve n w) as [l'|e2] eqn:H2; [discriminate|].
    intros H; injection H as ->.
    destruct (IH eq_refl) as (i & Hin & Hr). exists i; split; [right; exact Hin|exact Hr].
  - intros H; injection H as ->.
    apply resolve1_err in H1.
    destruct H1 as [(i & -> & _ & Hr) | (_ & He)]; [|discriminate He].
    exists i; split; [left; reflexivity|exact Hr].
Qed.

(* ------------------------------------------------------------------ *)
(* getitems                                                            *)

Lemma getitems_nil {A} (l : list A) : getitems l [] = [].
Proof. reflexivity. Qed.

Lemma getitems_cons {A} (l : list A) i idx :
  getitems l (i :: idx) =
  (match nth_error l i with Some x => [x] | None => [] end) ++ getitems l idx.
Proof. reflexivity. Qed.

Lemma getitems_app {A} (l : list A) idx1 idx2 :
  getitems l (idx1 ++ idx2) = getitems l idx1 ++ getitems l idx2.
Proof. unfold getitems; apply flat_map_app. Qed.

(* getitems only depends on the elements at the requested positions *)
Lemma getitems_ext {A} (l l' : list A) idx :
  Forall (fun i => nth_error l' i = nth_error l i) idx -> getitems l' idx = getitems l idx.
Proof.
  induction 1 as [|i idx Hi _ IH]; [reflexivity|].
  rewrite !getitems_cons, Hi, IH; reflexivity.
Qed.

Lemma getitems_map {A B} (f : A -> B) l idx : getitems (map f l) idx = map f (getitems l idx).
Proof.
  induction idx as [|i idx IH]; [reflexivity|].
  rewrite !getitems_cons, map_app, IH, nth_error_map.
  destruct (nth_error l i) as [x|]; reflexivity.
Qed.

Lemma nth_error_firstn_lt {A} (l : list A) : forall k i, i < k ->
  nth_error (firstn k l) i = nth_error l i.
Proof.
  induction l as [|a l IH]; intros k i Hik.
  - rewrite firstn_nil; reflexivity.
  - destruct k as [|k]; [lia|]. destruct i as [|i]; [reflexivity|].
    cbn [firstn nth_error]. apply IH; lia.
Qed.

Lemma nth_error_skipn_add {A} (l : list A) : forall d j,
  nth_error (skipn d l) j = nth_error l (d + j).
Proof.
  induction l as [|a l IH]; intros d j.
  - rewrite skipn_nil. destruct j, d; reflexivity.
  - destruct d as [|d]; [reflexivity|].
    cbn [skipn Nat.add nth_error]. apply IH.
Qed.

Lemma getitems_firstn {A} (l : list A) k idx :
  Forall (fun i => (i < k)%nat) idx -> getitems (firstn k l ) idx = getitems l idx.
Proof.
  intros H. apply getitems_ext. eapply Forall_impl; [|exact H].
  intros i Hi; cbv beta in Hi. apply nth_error_firstn_lt; exact Hi.
Qed.

Lemma getitems_app_l {A} (l pad : list A) idx :
  Forall (fun i => (i < length l)%nat) idx -> getitems (l ++ pad) idx = getitems l idx.
Proof.
  intros H. apply getitems_ext. eapply Forall_impl; [|exact H].
  intros i Hi; cbv beta in Hi. apply nth_error_app1; exact Hi.
Qed.

Lemma getitems_prefix_pad {A} (l pad : list A) k idx :
  Forall (fun i => (i < k)%nat) idx -> (k <= length l)%nat ->
  getitems (firstn k l ++ pad) idx = getitems l idx.
Proof.
  intros H Hk.
  rewrite getitems_app_l; [apply getitems_firstn; exact H|].
  rewrite firstn_length_le by exact Hk. exact H.
Qed.

Lemma getitems_suffix_pad {A} (l pad : list A) k idx :
  (k <= length l)%nat -> length pad = (length l - k)%nat ->
  Forall (fun i => (length l - k <= i)%nat) idx ->
  getitems (pad ++ skipn (length l - k) l) idx = getitems l idx.
Proof.
  intros Hk Hpad H. apply getitems_ext. eapply Forall_impl; [|exact H].
  intros i Hi; cbv beta in Hi.
  rewrite nth_error_app2 by lia.
  rewrite nth_error_skipn_add. f_equal. lia.
Qed.

Lemma getitems_length {A} (l : list A) idx :
  Forall (fun i => (i < length l)%nat) idx -> length (getitems l idx) = length idx.
Proof.
  induction 1 as [|i idx Hi _ IH]; [reflexivity|].
  rewrite getitems_cons, app_length, IH.
  destruct (nth_error l i) as [x|] eqn:Hn; [reflexivity|].
  apply nth_error_None in Hn; lia.
Qed.

Lemma getitems_map_S {A} (a : A) l idx : getitems (a :: l) (map S idx) = getitems l idx.
Proof.
  induction idx as [|i idx IH]; [reflexivity|].
  cbn [map]. rewrite !getitems_cons, IH. reflexivity.
Qed.

Lemma getitems_seq_all {A} (l : list A) : getitems l (seq 0 (length l)) = l.
Proof.
  induction l as [|a l IH]; [reflexivity|].
  cbn [length seq]. rewrite getitems_cons. cbn [nth_error app].
  rewrite <- seq_shift, getitems_map_S, IH. reflexivity.
Qed.

Lemma getitems_concat_repeat {A} (l : list A) s m :
  getitems l (concat (repeat s m)) = concat (repeat (getitems l s) m).
Proof.
  induction m as [|m IH]; [reflexivity|].
  cbn [repeat concat]. rewrite getitems_app, IH. reflexivity.
Qed.

Lemma getitems_perm {A} (l : list A) idx idx' :
  Permutation idx idx' -> Permutation (getitems l idx) (getitems l idx').
Proof. intros H. unfold getitems. apply Permutation_flat_map. exact H. Qed.

Lemma occurrences_count_occ i idx : occurrences i idx = count_occ Nat.eq_dec idx i.
Proof.
  unfold occurrences. induction idx as [|j idx IH]; [reflexivity|].
  cbn [filter]. destruct (Nat.eqb_spec i j) as [He|Hne].
  - subst j. rewrite count_occ_cons_eq by reflexivity. cbn [length]. rewrite IH; reflexivity.
  - rewrite count_occ_cons_neq by (intros E; apply Hne; symmetry; exact E). exact IH.
Qed.

Lemma count_occ_concat_repeat (s : list nat) m x :
  count_occ Nat.eq_dec (concat (repeat s m)) x = m * count_occ Nat.eq_dec s x.
Proof.
  induction m as [|m IH]; [reflexivity|].
  cbn [repeat concat]. rewrite count_occ_app, IH. lia.
Qed.

Lemma count_occ_seq start len x :
  count_occ Nat.eq_dec (seq start len) x = if (start <=? x) && (x <? start + len) then 1 else 0.
Proof.
  revert start; induction len as [|len IH]; intros start.
  - cbn [seq count_occ].
    destruct (Nat.leb_spec start x); destruct (Nat.ltb_spec x (start + 0)); cbn [andb];
      try reflexivity; lia.
  - cbn [seq]. destruct (Nat.eq_dec start x) as [He|Hne].
    + rewrite count_occ_cons_eq by exact He. rewrite IH. subst x.
      destruct (Nat.leb_spec (S start) start); [lia|].
      destruct (Nat.leb_spec start start); [|lia].
      destruct (Nat.ltb_spec start (start + S len)); [|lia].
      reflexivity.
    + rewrite count_occ_cons_neq by exact Hne. rewrite IH.
      destruct (Nat.leb_spec (S start) x); destruct (Nat.leb_spec start x);
        destruct (Nat.ltb_spec x (S start + len)); destruct (Nat.ltb_spec x (start + S len));
        cbn [andb]; try reflexivity; lia.
Qed.

Lemma occurrences_out n idx i : Forall (fun j => j < n) idx -> n <= i -> occurrences i idx = 0.
Proof.
  intros H Hi. rewrite occurrences_count_occ. apply count_occ_not_In.
  intros Hin. rewrite Forall_forall in H. apply H in Hin. lia.
Qed.

(* selecting every position exactly m times is a permutation of m copies *)
Lemma getitems_all_m {A} (l : list A) idx m :
  Forall (fun i => (i < length l)%nat) idx ->
  (forall i, (i < length l)%nat -> occurrences i idx = m) ->
  Permutation (getitems l idx) (concat (repeat l m)).
Proof.
  intros Hb Hocc.
  assert (Hp : Permutation idx (concat (repeat (seq 0 (length l)) m))).
  { apply (Permutation_count_occ Nat.eq_dec). intros x.
    rewrite count_occ_concat_repeat, count_occ_seq, <- occurrences_count_occ.
    destruct (Nat.leb_spec 0 x) as [_|Hx]; [|lia].
    destruct (Nat.ltb_spec x (0 + length l)) as [Hx|Hx]; cbn [andb].
    - rewrite Hocc by lia. lia.
    - rewrite (occurrences_out (length l)) by (assumption || lia). lia. }
  apply (getitems_perm l) in Hp.
  rewrite getitems_concat_repeat, getitems_seq_all in Hp. exact Hp.
Qed.

(* ------------------------------------------------------------------ *)
(* analyze                                                             *)

Lemma fold_min_spec d l :
  fold_right Nat.min d l <= d /\
  Forall (fun x => fold_right Nat.min d l <= x) l /\
  (fold_right Nat.min d l = d \/ In (fold_right Nat.min d l) l).
Proof.
  induction l as [|a l (IH1 & IH2 & IH3)]; cbn [fold_right].
  - split; [lia|]. split; [constructor|]. left; reflexivity.
  - split; [lia|]. split.
    + constructor; [lia|]. eapply Forall_impl; [|exact IH2].
      intros x Hx; cbv beta in Hx; lia.
    + destruct (Nat.min_spec a (fold_right Nat.min d l)) as [(_ & ->)|(_ & ->)].
      * right; left; reflexivity.
      * destruct IH3 as [IH3|IH3]; [left; exact IH3|right; right; exact IH3].
Qed.

Lemma fold_max_spec d l :
  d <= fold_right Nat.max d l /\
  Forall (fun x => x <= fold_right Nat.max d l) l /\
  (fold_right Nat.max d l = d \/ In (fold_right Nat.max d l) l).
Proof.
  induction l as [|a l (IH1 & IH2 & IH3)]; cbn [fold_right].
  - split; [lia|]. split; [constructor|]. left; reflexivity.
  - split; [lia|]. split.
    + constructor; [lia|]. eapply Forall_impl; [|exact IH2].
      intros x Hx; cbv beta in Hx; lia.
    + destruct (Nat.max_spec a (fold_right Nat.max d l)) as [(_ & ->)|(_ & ->)].
      * destruct IH3 as [IH3|IH3]; [left; exact IH3|right; right; exact IH3].
      * right; left; reflexivity.
Qed.

Lemma occurrences_in_pos i idx : In i idx -> 1 <= occurrences i idx.
Proof.
  intros H. rewrite occurrences_count_occ.
  apply (count_occ_In Nat.eq_dec) in H. lia.
Qed.

Lemma analyze_nil n : analyze n [] = Some 0%Z.
Proof. reflexivity. Qed.

Lemma analyze_sound n idx z : Forall (fun i => (i < n)%nat) idx -> analyze n idx = Some z ->
  (z = 0%Z /\ idx = []) \/
  (0 < z < Z.of_nat n /\ Forall (fun i => (Z.of_nat i < z)%Z) idx)%Z \/
  (- Z.of_nat n < z < 0 /\ Forall (fun i => (Z.of_nat n + z <= Z.of_nat i)%Z) idx)%Z \/
  (exists m, (1 <= m)%nat /\ z = (Z.of_nat n * Z.of_nat m)%Z /\ (0 < n)%nat /\
             forall i, (i < n)%nat -> occurrences i idx = m).
Proof.
  intros Hb. destruct idx as [|i0 t].
  - cbn [analyze]. intros H; injection H as <-. left; split; reflexivity.
  - unfold analyze. cbv zeta. set (idx := i0 :: t) in *.
    destruct (fold_min_spec i0 idx) as (Hmn1 & Hmn2 & Hmn3).
    destruct (fold_max_spec i0 idx) as (Hmx1 & Hmx2 & Hmx3).
    set (mn := fold_right Nat.min i0 idx) in *.
    set (mx := fold_right Nat.max i0 idx) in *.
    assert (Hi0 : In i0 idx) by (left; reflexivity).
    assert (Hmn_in : In mn idx) by (destruct Hmn3 as [->|H]; assumption).
    assert (Hmx_in : In mx idx) by (destruct Hmx3 as [->|H]; assumption).
    pose proof Hb as Hb'. rewrite Forall_forall in Hb'.
    pose proof (Hb' _ Hmn_in) as Hmn_lt. pose proof (Hb' _ Hmx_in) as Hmx_lt.
    cbv beta in Hmn_lt, Hmx_lt.
    assert (Hmnmx : mn <= mx) by lia.
    destruct (Nat.eqb_spec (S mx - mn) n) as [Hall|Hnall].
    + (* all positions *)
      destruct (forallb (fun i => existsb (Nat.eqb i) idx) (seq 0 n)
                && forallb (fun i => Nat.eqb (occurrences i idx) (occurrences i0 idx)) idx)
        eqn:Hchk; [|discriminate].
      intros H; injection H as <-.
      apply andb_prop in Hchk. destruct Hchk as [Hex Hsame].
      rewrite forallb_forall in Hex, Hsame.
      right; right; right. exists (occurrences i0 idx).
      split; [apply occurrences_in_pos; exact Hi0|].
      split; [reflexivity|]. split; [lia|].
      intros i Hi.
      assert (Hin : In i idx).
      { specialize (Hex i). rewrite in_seq in Hex.
        assert (Hex' : existsb (Nat.eqb i) idx = true) by (apply Hex; lia).
        apply existsb_exists in Hex'. destruct Hex' as (j & Hj & Hij).
        apply Nat.eqb_eq in Hij. subst j. exact Hj. }
      apply Hsame in Hin. apply Nat.eqb_eq in Hin. exact Hin.
    + destruct (Nat.ltb_spec (n - S mx) mn) as [Hneg|Hpos].
      * intros H; injection H as <-.
        right; right; left. split; [lia|].
        eapply Forall_impl; [|exact Hmn2]. intros x Hx; cbv beta in Hx. lia.
      * intros H; injection H as <-.
        right; left. split; [lia|].
        eapply Forall_impl; [|exact Hmx2]. intros x Hx; cbv beta in Hx. lia.
Qed.

Lemma analyze_zero_inv n idx :
  Forall (fun i => (i < n)%nat) idx -> analyze n idx = Some 0%Z -> idx = [].
Proof.
  intros Hb H. destruct (analyze_sound n idx 0%Z Hb H)
    as [(_ & He) | [(Hr & _) | [(Hr & _) | (m & Hm & Hz & Hn & _)]]].
  - exact He.
  - lia.
  - lia.
  - nia.
Qed.

Print Assumptions resolve_bound.
Print Assumptions analyze_sound.
Print Assumptions getitems_all_m.
