#!/bin/bash
# usage: goal.sh FILE LINE [TAIL] -- show the proof state after the first LINE lines of FILE
here="$(cd "$(dirname "$0")" && pwd)"
f=$1; n=$2
tmp=$(mktemp /tmp/goalXXXX.v)
head -n "$n" "$f" > "$tmp"
echo "Show." >> "$tmp"
cd "$here" && timeout 120 coqtop -Q theories Dyce -batch -l "$tmp" 2>&1 | tail -${3:-40}
rm -f "$tmp"
