#!/bin/bash
# usage: goal.sh FILE LINE  -- show the proof state after the first LINE lines of FILE
f=$1; n=$2
tmp=$(mktemp /tmp/goalXXXX.v)
head -n "$n" "$f" > "$tmp"
echo "Show." >> "$tmp"
cd /verif/coq && timeout 120 coqtop -Q theories Dyce -batch -l "$tmp" 2>&1 | tail -${3:-40}
rm -f "$tmp"
