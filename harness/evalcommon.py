"""Finite-state mechanics for the evaluation properties (C06, C07, C14): JSON format, Coq printing,
execution on the implementation, and an independent path-enumerating oracle over Fractions.

mech = {"states": [{"srcs": [src...], "npos": k, "sentinel": items, "table": [[key, term]...]}...]}
src  = {"h": items} | {"p": dice} | {"pw": dice, "which": [...]}
key  = list of results, one per source (H: [outcome]; pool: the selected sorted roll)
term = ["out", o] | ["hist", items] | ["call", st, lim] | ["addc", c, term] | ["add", t1, t2] | ["raise"]
lim  = None | ["int", z] | ["frac", n, d] | ["float", n, d] | ["bool", b] | ["other"]
"""
import itertools
import json
from fractions import Fraction

from common import chist, clist, cq, cz, cnat, copt, hist_items, qv
import gens
import pools


# ---- Coq printing ---------------------------------------------------------------------

def climit(lim):
    if lim is None:
        return "None"
    k = lim[0]
    if k == "int":
        return f"(Some (RInt {cz(lim[1])}))"
    if k == "bool":
        return f"(Some (RInt {cz(int(lim[1]))}))"
    if k == "frac":
        return f"(Some (RFrac ({lim[1]} # {lim[2]})))"
    if k == "float":
        return f"(Some (RFloat ({lim[1]} # {lim[2]})))"
    return "(Some ROther)"


def csource(s):
    if "h" in s:
        return f"(SH {chist(s['h'])})"
    if "p" in s:
        return f"(SP {pools.cpool(s['p'])})"
    w = pools.csel(s["which"])
    inner = w[len("(Some "):-1] if w != "None" else "[]"
    return f"(SPW {pools.cpool(s['pw'])} {inner})"


def cterm(t):
    k = t[0]
    if k == "out":
        return f"(ROut {cq(t[1])})"
    if k == "hist":
        return f"(RHist {chist(t[1])})"
    if k == "call":
        return f"(RCall {cnat(t[1])} {climit(t[2])})"
    if k == "addc":
        return f"(RUn (vaddc {cq(t[1])}) {cterm(t[2])})"
    if k == "add":
        return f"(RBin vadd {cterm(t[1])} {cterm(t[2])})"
    if k == "raise":
        return "(RRaise (UserError 5))"
    if k == "recerr":
        return "(RRaise RecursionError)"
    if k == "reject":
        # the callback performs a call that the library rejects (a documented guard): the exception it raises
        return f"(RRaise {REJECTS[t[1]][0]})"
    if k == "try":
        # try: t[2]  except <t[1]>: t[3]   (t[1]: "ValueError" or "Exception")
        return f"(RTry {'catch_value_error' if t[1] == 'ValueError' else 'catch_exception'} {cterm(t[2])} {cterm(t[3])})"
    if k == "dep":
        pools_ = clist(clist(chist(h) for h in d) for d in t[2])
        tbl = clist(f"({ckey(key)}, {_cval(v)})" for key, v in t[3])
        return f"(dep_foreach {pools_} {tbl})"
    raise ValueError(k)


def _cval(t):
    return f"(VOut {cq(t[1])})" if t[0] == "out" else f"(VHist {chist(t[1])})"


def ckey(key):
    return clist(clist(cq(o) for o in r) for r in key)


def cmech(mech):
    sts = []
    for st in mech["states"]:
        tbl = clist(f"({ckey(k)}, {cterm(t)})" for k, t in st["table"])
        sts.append(f"({clist(csource(s) for s in st['srcs'])}, {chist(st['sentinel'])}, {tbl})")
    return clist(sts)


def ccalls(calls):
    return clist(f"({cnat(st)}, {climit(lim)})" for st, lim in calls)


# ---- source results (independent of dyce): used to build tables and by the oracle ------------

def src_results(s):
    """list of (result tuple of Fractions, count); raises IndexError like the selection would"""
    if "h" in s:
        return [((Fraction(*o),), c) for o, c in s["h"]]
    dice = s["p"] if "p" in s else s["pw"]
    which = None if "p" in s else (s["which"] or None)
    agg = {}
    n = len(pools.effective_dice(dice))
    if which:
        pools.pick(tuple(range(n)), which)
    if n == 0:
        return []
    for roll, cnt in pools.brute_rolls(dice):
        t = pools.pick(roll, which)
        if which is not None and len(t) == 0:
            continue
        agg[t] = agg.get(t, 0) + cnt
    return sorted(agg.items())


def src_total(s):
    if "h" in s:
        return sum(c for _, c in s["h"])
    dice = pools.effective_dice(s["p"] if "p" in s else s["pw"])
    t = 1
    for d in dice:
        t *= sum(c for _, c in d)
    return t


def key_of(results):
    return [[pools.fq(x) for x in r] for r in results]


def all_keys(srcs):
    lists = [src_results(s) for s in srcs]
    for combo in itertools.product(*lists):
        yield key_of([r for r, _ in combo])


# ---- running the implementation ------------------------------------------------------------

def _rej(name):
    from fractions import Fraction as F
    from dyce import H, P
    from dyce.evaluation import explode
    h = H({1: 1, 2: 2, 3: 1})
    if name == "neg_matmul":
        return (-1) @ h
    if name == "parity_frac":
        return H({F(1, 2): 1}).is_even()
    if name == "neg_count":
        return H({1: -1})
    if name == "within_inverted":
        return h.within(2, 1)
    if name == "both_limits":
        return h.explode(max_depth=1, precision_limit=F(1, 2))
    if name == "index_oob":
        return (2 @ P(h)).h(5)
    if name == "bad_limit":
        return explode(h, limit=F(3, 2))
    raise KeyError(name)


# name -> (Coq exception, Python exception class)
REJECTS = {"neg_matmul": ("ValueError", ValueError), "parity_frac": ("TypeError", TypeError), "neg_count": ("ValueError", ValueError),
           "within_inverted": ("ValueError", ValueError), "both_limits": ("ValueError", ValueError),
           "index_oob": ("IndexError", IndexError), "bad_limit": ("ValueError", ValueError)}


class Marker(Exception):
    pass


class WrongSource(BaseException):     # not an Exception: a callback's `except Exception` must not hide it
    pass


class BaseMarker(BaseException):
    """an exception that is not an Exception (like KeyboardInterrupt): callbacks may raise those too"""


def make_fault(kind):
    """the exception object a callback raises at the injected fault: user-defined subclasses of the families a
    careless `except` clause could swallow or a language rule could rewrite, and a few plain built-ins"""
    bases = {"exception": Exception, "runtime": RuntimeError, "notimplemented": NotImplementedError,
             "stopiteration": StopIteration, "lookup": KeyError, "arithmetic": OverflowError, "oserror": OSError,
             "memory": MemoryError, "attribute": AttributeError, "assertion": AssertionError,
             "stopasync": StopAsyncIteration, "generatorexit": GeneratorExit, "systemexit": SystemExit}
    if kind == "base":
        return BaseMarker("fault")
    if kind in (None, "exception"):
        return Marker("fault")
    if kind.startswith("plain-"):
        return bases[kind[6:]]("fault")
    return type("Fault_" + kind, (bases[kind],), {})("fault")


FAULT_KINDS = ["exception", "exception", "base", "base", "runtime", "notimplemented", "stopiteration", "lookup", "arithmetic",
               "oserror", "memory", "attribute", "assertion", "stopasync", "generatorexit", "systemexit",
               "plain-runtime", "plain-stopiteration", "plain-notimplemented", "plain-lookup"]


def py_limit(lim):
    if lim is None:
        return None
    k = lim[0]
    if k == "int":
        return lim[1]
    if k == "bool":
        return bool(lim[1])
    if k == "frac":
        return Fraction(lim[1], lim[2])
    if k == "float":
        return lim[1] / lim[2]
    return "not a number"


def py_source(s):
    from dyce import H
    from dyce.evaluation import PWithSelection
    if "h" in s:
        d = gens.py_hist_dict(s["h"])
        form = s.get("form", "H")
        # every spelling H(...) accepts is a source: the evaluator converts it exactly once
        if form == "dict":
            return d
        if form == "pairs":
            return list(d.items())
        if form == "pairs_iter":
            return iter(list(d.items()))
        if form == "generator":
            return ((o, c) for o, c in list(d.items()))
        if form == "zip":
            return zip(list(d.keys()), list(d.values()))
        return H(d)
    if "p" in s:
        return pools.py_pool(s["p"])
    return PWithSelection(pools.py_pool(s["pw"]), pools.py_which(s["which"]))


def run_mech_impl(mech, calls, fault=None, use_foreach=False, base_exception=False, exc_kind=None):
    """returns list of results ({'ok': items} | {'exc': name}) and the number of callback invocations"""
    from dyce import H
    from dyce.evaluation import expandable, foreach, HResult, PResult
    counter = {"n": 0}
    fs = {}
    decorated = {}
    states = mech["states"]
    raised = []

    def result_key(r):
        if isinstance(r, HResult):
            return (tuple(qv(r.outcome)),)
        return tuple(tuple(qv(x)) for x in r.roll)

    def ev(t):
        k = t[0]
        if k == "out":
            return gens.py_outcome(t[1])
        if k == "hist":
            return H(gens.py_hist_dict(t[1]))
        if k == "call":
            return invoke(t[1], t[2])
        if k == "addc":
            return ev(t[2]) + gens.py_outcome(t[1])
        if k == "add":
            a = ev(t[1])
            return a + ev(t[2])
        if k == "raise":
            raise Marker("table")
        if k == "reject":
            _rej(t[1])
            raise WrongSource()      # the rejected call returned something
        if k == "try":
            try:
                return ev(t[2])
            except (ValueError if t[1] == "ValueError" else Exception):
                return ev(t[3])
        if k == "recerr":
            raise RecursionError("callback bottomed out the stack")
        if k == "dep":
            # the deprecated, context-free spellings called from inside a callback
            from dyce import P
            tbl = {tuple(tuple(tuple(o) for o in r) for r in key): v for key, v in t[3]}
            names2 = [f"d{j}" for j in range(len(t[2]))]

            def val(v):
                return gens.py_outcome(v[1]) if v[0] == "out" else H(gens.py_hist_dict(v[1]))
            if t[1] == "p":
                def cb2(**kw):
                    key = tuple(tuple(tuple(qv(x)) for x in kw[nm]) for nm in names2)
                    v = tbl.get(key)
                    return 0 if v is None else val(v)
                return P.foreach(cb2, **{nm: pools.py_pool(d) for nm, d in zip(names2, t[2])})

            def cb3(**kw):
                key = tuple((tuple(qv(kw[nm])),) for nm in names2)
                v = tbl.get(key)
                return 0 if v is None else val(v)
            return H.foreach(cb3, **{nm: H(gens.py_hist_dict(d[0])) for nm, d in zip(names2, t[2])})
        raise ValueError(k)

    def make(i):
        st = states[i]
        names = [f"k{j}" for j in range(len(st["srcs"]))]
        table = {tuple(tuple(tuple(o) for o in r) for r in key): term for key, term in st["table"]}

        def cb(*args, **kw):
            n = counter["n"]
            counter["n"] += 1
            if fault is not None and n == fault:
                raised.append(make_fault(exc_kind or ("base" if base_exception else "exception")))
                raise raised[-1]
            results = list(args) + [kw[names[j]] for j in range(st["npos"], len(st["srcs"]))]
            # "each callback parameter receives the result of the source passed in that position or
            # keyword together with that source": compare the source carried by the result with the
            # source description (items incl. zero counts, dice in order)
            for r, sdesc in zip(results, st["srcs"]):
                if isinstance(r, HResult):
                    if "h" not in sdesc or hist_items(r.h) != [[list(o), c] for o, c in sdesc["h"]]:
                        raise WrongSource()
                else:
                    dice = sdesc.get("p") or sdesc.get("pw")
                    if dice is None or [hist_items(d) for d in r.p] != [hist_items(d) for d in pools.py_pool(dice)]:
                        raise WrongSource()
            key = tuple(result_key(r) for r in results)
            term = table.get(key)
            if term is None:
                return 0
            return ev(term)
        return cb, names

    def invoke(i, lim):
        st = states[i]
        cb, names = fs[i]
        # identical descriptions denote ONE object passed in several positions (foreach(f, p, p))
        built = {}
        srcs = []
        for j, s_ in enumerate(st["srcs"]):
            key = json.dumps(s_, sort_keys=True)
            if s_.get("form") in ("pairs_iter", "generator", "zip"):
                key += f"#{j}"            # a one-shot iterable can only be handed over once
            if key not in built:
                built[key] = py_source(s_)
            srcs.append(built[key])
        args = srcs[: st["npos"]]
        kw = {names[j]: srcs[j] for j in range(st["npos"], len(srcs))}
        sent = H(gens.py_hist_dict(st["sentinel"]))
        if use_foreach:
            return foreach(cb, *args, limit=py_limit(lim), sentinel=sent, **kw)
        # decorated ONCE per mechanic (as a user's @expandable function is) and reused by every nested and
        # every later top-level call, so state kept by the decorator itself is exercised as well
        if i not in decorated:
            decorated[i] = expandable(cb, sentinel=sent)
        return decorated[i](*args, limit=py_limit(lim), **kw)

    for i in range(len(states)):
        # "cb_of": j - this mechanic is the SAME Python callback as mechanic j (same table), used with
        # another sentinel (foreach(f, ..., sentinel=a) and later foreach(f, ..., sentinel=b))
        j = states[i].get("cb_of")
        fs[i] = fs[j] if j is not None else make(i)
    out = []
    for st, lim in calls:
        try:
            r = invoke(st, lim)
            out.append({"ok": hist_items(r)})
        except BaseException as e:  # noqa - whatever the callback raised must come back as it is
            if raised and e is raised[-1]:
                # the very object raised in the callback reached the caller
                out.append({"exc": "UserError", "which": "fault"})
            elif isinstance(e, Marker) and str(e) != "fault":
                out.append({"exc": "UserError", "which": str(e)})
            elif isinstance(e, WrongSource):
                out.append({"exc": "WrongSource"})
            elif raised and (e.__cause__ is raised[-1] or e.__context__ is raised[-1] or type(e) is type(raised[-1])):
                out.append({"exc": "UserError", "which": "fault-but-different-object", "seen": type(e).__name__})
            elif isinstance(e, (ValueError, TypeError, IndexError, ZeroDivisionError, RecursionError)):
                out.append({"exc": type(e).__name__})
            else:
                raise
    return out, counter["n"]


# ---- independent oracle: explicit depth / path probability, distributions over Fractions -----

MAXSIZE = 2 ** 63 - 1


def norm_limit(lim):
    k = lim[0]
    if k in ("int", "bool"):
        z = int(lim[1])
        if z == -1:
            return ("int", MAXSIZE)
        if z < 0:
            raise ValueError()
        return ("int", z)
    if k in ("frac", "float"):
        q = Fraction(lim[1], lim[2])
        if q <= 0 or q >= 1:
            raise ValueError()
        return ("frac", q)
    raise TypeError()


def dist_of_items(items):
    t = sum(c for _, c in items)
    if t == 0:
        return {}
    return {Fraction(*o): Fraction(c, t) for o, c in items if c}


class Budget(BaseException):     # must pass through the `except Exception` of a try term
    pass


class RecErr(Exception):
    pass


def oracle_calls(mech, calls, fault=None, budget=20000):
    """list of {'dist': {...}} / {'exc': name}; None when the budget is exceeded.
    Top-level calls are independent (that is the property C14)."""
    states = mech["states"]
    steps = {"n": 0}
    tables = [{tuple(tuple(tuple(o) for o in r) for r in key): term for key, term in st["table"]} for st in states]

    def conv(a, b):
        out = {}
        steps["n"] += (len(a) * len(b)) // 4
        if steps["n"] > budget:
            raise Budget()
        for x, px in a.items():
            for y, py in b.items():
                out[x + y] = out.get(x + y, 0) + px * py
        return out

    def as_dist(v):
        return v if isinstance(v, dict) else {v: Fraction(1)}

    def ev(t, ctx):
        k = t[0]
        if k == "out":
            return Fraction(*t[1])
        if k == "hist":
            return ("hist", dist_of_items(t[1]), sum(c for _, c in t[1]))
        if k == "call":
            return ("hist", spec(t[1], t[2], ctx), 1)
        if k == "addc":
            v = ev(t[2], ctx)
            c = Fraction(*t[1])
            if isinstance(v, tuple):
                return ("hist", {x + c: p for x, p in v[1].items()}, v[2])
            return v + c
        if k == "add":
            a, b = ev(t[1], ctx), ev(t[2], ctx)
            if isinstance(a, tuple) or isinstance(b, tuple):
                da = a[1] if isinstance(a, tuple) else {a: Fraction(1)}
                db = b[1] if isinstance(b, tuple) else {b: Fraction(1)}
                return ("hist", conv(da, db), 1)
            return a + b
        if k == "raise":
            raise Marker("table")
        if k == "reject":
            raise REJECTS[t[1]][1]()
        if k == "try":
            try:
                return ev(t[2], ctx)
            except (ValueError if t[1] == "ValueError" else Exception):
                return ev(t[3], ctx)
        if k == "recerr":
            raise RecErr()
        if k == "dep":
            srcs2 = [{"p": d} for d in t[2]]
            tbl2 = {tuple(tuple(tuple(o) for o in r) for r in key): v for key, v in t[3]}
            mix, wsum = {}, Fraction(0)
            for combo in itertools.product(*[src_results(x) for x in srcs2]):
                cnt = 1
                for _, c in combo:
                    cnt *= c
                key = tuple(tuple(tuple(pools.fq(x)) for x in r) for r, _ in combo)
                v = tbl2.get(key, ["out", [0, 1]])
                d = {Fraction(*v[1]): Fraction(1)} if v[0] == "out" else dist_of_items(v[1])
                if not d:
                    continue
                wsum += cnt
                for x, px in d.items():
                    mix[x] = mix.get(x, 0) + cnt * px
            return ("hist", {x: px / wsum for x, px in mix.items() if px} if wsum else {}, 1)
        raise ValueError(k)

    def spec(i, lim, ctx):
        cur_lim, depth, prec = ctx
        if lim is None:
            nl = ("int", 1) if cur_lim is None else cur_lim
        else:
            nl = norm_limit(lim)
        st = states[i]
        if (nl[0] == "int" and depth >= nl[1]) or (nl[0] == "frac" and prec <= nl[1]):
            return dist_of_items(st["sentinel"])
        lists = [src_results(s) for s in st["srcs"]]
        tot = 1
        for s in st["srcs"]:
            tot *= src_total(s)
        mix, wsum = {}, Fraction(0)
        for combo in itertools.product(*lists):
            steps["n"] += 1
            if steps["n"] > budget:
                raise Budget()
            cnt = 1
            for _, c in combo:
                cnt *= c
            p = Fraction(cnt, tot or 1)
            if fault is not None:
                raise Budget()   # fault positions are decided by the model, not by this oracle
            key = tuple(tuple(tuple(pools.fq(x)) for x in r) for r, _ in combo)
            term = tables[i].get(key)
            try:
                v = Fraction(0) if term is None else ev(term, (nl, depth + 1, prec * p))
            except RecErr:
                # only RecursionError is converted: THIS branch becomes the sentinel
                v = ("hist", dist_of_items(st["sentinel"]), 1)
            if isinstance(v, tuple):
                if not v[1]:
                    continue        # empty / zero-total histogram: dropped, the rest renormalised
                d = v[1]
            else:
                d = {v: Fraction(1)}
            wsum += p
            for x, px in d.items():
                mix[x] = mix.get(x, 0) + p * px
        if wsum == 0:
            return {}
        return {x: px / wsum for x, px in mix.items() if px}

    out = []
    for st, lim in calls:
        try:
            out.append({"dist": spec(st, lim, (None, 0, Fraction(1)))})
        except Marker:
            out.append({"exc": "UserError"})
        except Budget:
            return None
        except RecursionError:
            return None
        except (ValueError, TypeError, IndexError, ZeroDivisionError) as e:
            out.append({"exc": type(e).__name__})
    return out


def dist_json(d):
    return [[pools.fq(k), pools.fq(d[k])] for k in sorted(d)]


def agree_answers(impl_answers, oracle_answers):
    import math
    if len(impl_answers) != len(oracle_answers):
        return False
    for a, o in zip(impl_answers, oracle_answers):
        if "exc" in o:
            if a.get("exc") != o["exc"]:
                return False
            continue
        if "ok" not in a:
            return False
        if dist_of_items(a["ok"]) != o["dist"]:
            return False
        counts = [c for _, c in a["ok"]]
        # top-level results are in lowest terms: no zero counts, gcd 1
        if counts and (min(counts) <= 0 or math.gcd(*counts) != 1):
            return False
    return True


# ---- generators --------------------------------------------------------------------------------

def twin_of(rng, s):
    """an ==-equal but differently represented histogram source (scaled counts / zero-count padding)"""
    h = [list(x) for x in s["h"]]
    if rng.random() < 0.5:
        k = rng.choice([2, 3])
        h = [[o, c * k] for o, c in h]
    else:
        have = {tuple(o) for o, _ in h}
        for v in (9, -4, 0):
            if (v, 1) not in have:
                h.append([[v, 1], 0])
                break
        h.sort(key=lambda oc: Fraction(*oc[0]))
    return {"h": h}


def gen_source(rng, kinds=("h", "h", "p", "pw")):
    k = rng.choice(kinds)
    if k == "h":
        src = {"h": gens.hist(rng, max_faces=3, style=rng.choice(["unit", "small", "pos"]), frac_p=0.05, min_faces=1)}
        if rng.random() < 0.25:
            src["form"] = rng.choice(["dict", "pairs", "pairs_iter", "generator", "zip"])
        return src
    if k == "p" and rng.random() < 0.35:
        # a pool of DIFFERENT dice that share faces: the same sorted roll comes from several combinations
        a = gens.hist(rng, max_faces=3, style=rng.choice(["unit", "pos"]), frac_p=0.0, min_faces=2)
        b = [list(x) for x in a[:2]] + [[gens.q(9), 1]]
        if rng.random() < 0.5:
            b[0][1] += 1
        return {"p": [a, b]}
    # no "big" counts here: under recursion totals are raised to the power branching**depth (MB-long integers)
    dice, _ = pools.gen_pool(rng, max_dice=2, max_faces=2, frac_p=0.0, styles=("unit", "small", "small", "pos", "pos"))
    if k == "p":
        return {"p": dice}
    n = len(pools.effective_dice(dice))
    which = rng.choice([[{"i": 0}], [{"i": -1}], [{"s": [None, 1, None]}], [{"s": [None, None, None]}], [{"i": 0}, {"i": 0}]])
    if n == 0:
        which = [{"s": [None, None, None]}]
    return {"pw": dice, "which": which}


def gen_value_term(rng):
    r = rng.random()
    if r < 0.5:
        return ["out", gens.outcome(rng, 0.1)]
    if r < 0.65:
        return ["hist", []]
    if r < 0.75:
        return ["hist", [[gens.q(rng.randint(0, 3)), 0]]]
    return ["hist", gens.hist(rng, max_faces=3, style=rng.choice(["unit", "small", "pos"]), min_faces=1, frac_p=0.05)]


def gen_limit(rng, reach=None):
    r = rng.random()
    if r < 0.15:
        return None
    if r < 0.5:
        return ["int", rng.choice([0, 1, 1, 2, 2, 3, -1])]
    if r < 0.55:
        return ["bool", rng.choice([True, False])]
    if r < 0.8:
        if reach and rng.random() < 0.6:
            q = rng.choice(reach)
            if rng.random() < 0.35:
                # the float nearest a reachable branch probability, by its exact binary value
                f = Fraction(float(q))
                if 0 < f < 1:
                    return ["float", f.numerator, f.denominator]
            return ["frac", q.numerator, q.denominator]
        d = rng.choice([2, 3, 4, 6, 8, 9, 12, 16, 36])
        return ["frac", rng.randint(1, d - 1), d]
    if r < 0.9:
        q = rng.choice([Fraction(1, 2), Fraction(1, 4), Fraction(1, 8), Fraction(3, 8), Fraction(1, 16)])
        return ["float", q.numerator, q.denominator]
    return rng.choice([["int", -2], ["int", -5], ["frac", 0, 1], ["frac", 1, 1], ["frac", 3, 2], ["frac", -1, 2],
                       ["float", 1, 1], ["float", 2, 1], ["float", 0, 1], ["other"]])
