"""Regenerates DESIGN.md section 12.6 from seeded/*/meta.json and the list of changes that the first
version of a check missed (with what was strengthened)."""
import glob
import json

MISSED = {
 "C07-m2": "float limits were only dyadic; added float limits equal to the float nearest a reachable branch probability + corpus entry",
 "C08-m1": "default predicate rarely met a zero-count top face; added histogram-dependent predicates (default, max-count) over zero-padded / unreduced histograms + corpus entry",
 "C01-m1": "every case built fresh operands; added sequences of operations on ONE shared left operand against right operands that compare equal (scaled, zero-padded, pooled)",
 "C06-m2": "callbacks only looked at outcomes; callbacks now verify the source carried by each result, and sources that compare equal but are represented differently appear in one evaluation",
 "C19-m1": "counts were only tried one per outcome; added a repeated-outcome construction for every argument of the grammar",
 "C19-m2": "max_depth was only tried with 1; added 0 / 2 / False together with precision_limit",
 "C18-m1": "iterables were lists; added one-shot iterables (generators, iterators) and dealing a deck through them",
 "C15-m1": "zero_fill queries filled on both sides of the support; added fills only above / below / between and equal-but-distinguishable re-annotation",
 "C14-m1": "the injected exception was an Exception; a BaseException-only marker is now injected in 40% of the cases (also caught by the generic reversed-order rerun)",
 "C14-m2": "probes never used limit 0 and sentinels were reduced; added a limit-0 probe and unreduced / two-faced sentinels (C07 catches it as well)",
 "C11-m1": "substitution depth 2 over several re-rolling outcomes was excluded by the path bound; added targeted trees and corpus entries",
 "C05-m3": "pool-vs-histogram comparison only observed ==; all four spellings (p == h, h == p, p != h, h != p) are now compared with the distributions",
 "C08-m3": "fractional limits rarely sat exactly on the probability of a chain of re-rolls of a 5/10/20-sided die; added limits (c/t)**k for uniform and weighted dice",
 "C06-m4": "the deprecated P.foreach / H.foreach were only called at top level; callbacks of an enclosing evaluation now call them (model: context-free p_foreach)",
 "C07-m3": "no callback ever raised RecursionError; table entries that raise it were added (only that branch may become the sentinel)",
 "C01-m3": "no histogram had integer end points, as many faces as the integer span and a non-integer face inside; added such pseudo-ranges",
 "C03-m4": "roll counts never exceeded 2**53; pool dice now sometimes carry counts up to 2**70",
 "C19-m4": "RollOutcome sources were lists; sources now also arrive as tuples, iterators, generators and filter objects (empty ones included)",
 "C17-m3": "instances without a seed were never compared with each other; added unseeded / re-seeded-with-None instances and the module default drawing between a snapshot and its replay",
 "C12-m3": "repeated selections never reached the number of outcomes while selecting fewer distinct ones (missed with the default seed, caught with others); added (-1,-1,-1), (0,1,0,1), (0,0,0) selectors + corpus entries",
 "C12-m4": "the known-finding predicate K2 matched by symptom and swallowed the new records; K2 is now suppressed only for records the model itself predicts (the model reproduces K2, theorem C12_full_statement_refuted) + corpus entries with re-rolls from derived rollers",
 "C11-m3": "no tree applied the same unary operator twice; added neg/neg, inv/inv (new ~ operator in the vocabulary) over multi-outcome sources + corpus entries",
 "C13-m3": "every query built fresh objects, so per-instance caches lived for one query; added histories over a population of objects shared by all queries, hashing before any comparison (hasheq, set size, dict lookup, is_homogeneous) and definitional expectations",
 "C13-m4": "same shared-population histories: == between representation twins followed by lowest_terms() of the right operand, answers compared with types",
 "C14-m3": "mechanics were re-decorated for every call, hiding state kept by the decorator; each mechanic is now decorated once and reused, and a third of the C14 mechanics have branches that raise RecursionError",
 "C14-m4": "injected exceptions were direct subclasses of Exception / BaseException; now user subclasses and plain instances of RuntimeError, NotImplementedError, StopIteration, KeyError, OverflowError, OSError, MemoryError, ... (this also exposed the genuine defect F8)",
 "C15-m3": "no query read an outcome the histogram does not have; added read-only lookups of absent outcomes (get, [], in, exactly_k_times_in_n, appearances_in_rolls) on stored and derived histograms",
 "C15-m4": "selectors and sources were tuples; selection rollers are now built from caller-owned lists (emptied afterwards) and one-shot iterables, then rolled",
 "C05-m6": "bare outcomes always arrived in a list; constructions now arrive as list / tuple / generator / iterator / reversed / dict views / Counter / OrderedDict / frozenset / range objects (ascending, descending, strided, empty)",
 "C04-m5": "slices of pools were not observed; every pool is now sliced with positive and negative steps and compared (items, ==, total) with the pool built afresh from the sliced dice",
 "C04-m6": "repetition counts were ints; n now also arrives as float, Fraction, bool and Decimal, integral (accepted) and non-integral (TypeError)",
 "C08-m5": "fractional limits rarely separated two re-roll paths of different weight; added weighted three-faced dice with a predicate over two faces of different weight and limits on / between the chain probabilities",
 "C08-m6": "expand tables depended on the outcome only; added expand functions that depend on the histogram they are given (one face table per histogram, model chk_substitute2)",
 "C01-m5": "identity / absorbing scalars were rare; added 0, 1, -1, 2 as int / bool / Fraction operands (direct and reflected) against histograms and pools with non-integral outcomes",
 "C01-m6": "same family: h // 1 over Fraction outcomes",
 "C06-m6": "every source was a fresh object; identical source descriptions now denote ONE object passed in several positions",
 "C16-m6": "exactness was only checked when the implementation claimed it (a float answer was compared with a tolerance); results for Fraction-typed outcomes must now be exact rationals",
 "C12-m6": "the comparison vocabulary had lt / ge / eq only; added ne / le / gt",
 "C13-m5": "order statistics were asked for n >= 1 only; added n = 0 and upward sweeps of n on one object",
 "C13-m6": "collision families were equal histograms only; added UNEQUAL histograms whose items hash alike in CPython (-1 / -2, x / x + 2**61 - 1) and the same pool question echoed across the family",
 "C11-m5": "no selector consisted of negative indexes other than -1 only; added (-2), (-1,-2), (-2,-1), (-3,-2) + corpus entries",
 "C14-m5": "the aborted evaluation always failed inside a callback; added evaluations that fail while enumerating a source (selection beyond the pool), at top level and nested",
 "C14-m6": "a callback was always used with one sentinel; added mechanics that share one Python callback but differ in their sentinel, run through foreach as well as @expandable",
 "C19-m5": "every guard was exercised on a fresh function; added a reused @expandable function called with a limit and then with every equal-valued limit of another type",
 "C19-m6": "(caught, but as a crash of the runner: NumPy scalars in the answer) the runner now serialises foreign values as NONJSON markers, which never equal an expected answer",
 "C15-m6": "H(n) shorthands were not part of the operation vocabulary; added H(n) for the same n as int / float / Fraction / bool / numpy.int8",
 "C03-m1": "(regression of the generator: caught when it arrived, missed after the pool generator changed) added the selection class 'every position, unequally often, item count a multiple of n' + corpus entries",
 "C05-m8": "unequal pairs never had colliding hashes; added unequal histograms whose items hash alike in CPython",
 "C10-m7": "histograms were built from mappings; added construction from bare outcomes mixed with pairs (stored order not ascending); the model is run on the stored order",
 "C10-m8": "reproducibility was only tried with random.Random(12345); added the NumPy-backed generator installed afresh and re-seeded in place with 0 / 12345 / [0] / False",
 "C18-m7": "mappings of amounts were dicts; added H, MappingProxyType, UserDict, ChainMap, Counter and OrderedDict requests",
 "C01-m7": "counts were Python ints; added operands whose counts are numpy.int64 just above 2**32 (products leave the 64-bit range)",
 "C01-m8": "outcomes were never bools; added bool-valued histograms under every unary and several binary operators",
 "C09-m8": "n and k were Python ints; added float / Fraction / numpy.int8 / numpy.int64 / bool arguments (answers must be exact Python ints)",
 "C04-m7": "repetition counts stopped at 12 (quick); added 15..17, 31..33, 48, 64 on small dice",
 "C12-m7": "expansions returned the same object or a different value; added expansions returning a NEW outcome with an equal value + corpus entries",
 "C08-m8": "the single-face special case rarely met a float limit together with a finite inf; added that family under every predicate",
 "C11-m8": "no bitwise operator in the roller vocabulary; added & | ^ (roller-roller, roller-scalar, scalar-roller, map)",
 "C13-m7": "every enumeration was consumed completely; added abandoned enumerations (peeking at 1-3 rolls) before the same question",
 "C16-m7": "statistics were asked of fresh objects; added format() / variance(mu) / stdev(mu) histories on one object before the plain questions (type-exact comparison)",
 "C07-m7": "callbacks never caught exceptions; the MODEL was extended with try/except terms (RTry, proofs in EvalP/LimitsP) and mechanics now protect a nested evaluation that fails one level further down and fall back to another nested call",
 "C19-m7": "None-valued outcomes were only constructed; added re-parenting of tombstones with adopt() (outcome and roll, every mode)",
 "C19-m8": "within() bounds were only validated on a non-empty histogram; added empty / zero-total receivers and operands, pools",
 "C02-m8": "rolls were compared by value; added float / Fraction twins of integer pools enumerated next to them and the outcome types of the rolls",
 "C15-m7": "draws only removed existing cards; added non-positive amounts for outcomes the histogram does not have, visited first, also inside failing requests",
 "C15-m8": "no two population members were equal with different outcome types; added re-typed copies (float / Fraction / bool) and comparisons, hashing and grouping across the whole population",
 "C04-m9": "large repetition counts used Python-int counts; half of them now give the counts as numpy.int64 (h.total**n must stay exact)",
 "C05-m10": "bare outcomes and pairs were never mixed in one iterable; added that (undocumented but accepted) form with an outcome spelled both ways - counts and total are compared, the stored order is not",
 "C08-m10": "substitute was only called on histograms; a third of the cases now go through P(h).substitute",
 "C10-m10": "outcomes were numbers; added pools with unorderable (symbolic) outcomes: one question per die and the sampling distribution against brute force (outside the Coq model's outcome domain, counted as skipped there)",
 "C12-m10": "filter predicates looked at values only; the MODEL was extended with provenance-aware filters (RFilterBy: one value predicate per source, proofs in RollerP / RollRecordP) and trees now contain them",
 "C13-m4": "(regression of the generator after round 3) corpus entries: == between representation twins followed by lowest_terms of the right operand",
 "C13-m9": "an n was never asked again after other n on the same object; sweeps now come back to an earlier n",
 "C13-m10": "relabelled results were never reduced after the receiver had been compared; added umap (abs, parity, halving, negation) followed by lowest_terms / == / hash / set size of the result, with definitional expectations",
 "C15-m9": "the dict a histogram was built from was dropped at once; the caller now keeps and modifies it afterwards",
 "C15-m10": "pools were never compared with equal pools of differently scaled / typed dice; added such twin pools and comparisons from both sides, membership and index",
 "C16-m9": "stdev was compared with an absolute tolerance of 1e-9, which hides tiny positive variances; the comparison is now relative",
 "C17-m10": "randbytes was called 4 times per case; a leading zero byte occurs once in 256 draws - now 4500 draws",
 "C18-m6": "(regression of the generator) added operands with the same number of outcomes and the same end points but different outcomes in between + corpus entries",
 "C18-m10": "only the returned histogram was observed; the receiver and a histogram sharing its mapping must read as before after every operation",
 "C19-m9": "rejected calls were only made at top level; added mechanics whose nested callback makes the rejected call (7 guards), the enclosing callback catches the exception and continues with another nested evaluation (model: RRaise inside RTry)",
 "C02-m12": "positions were Python ints; added numpy.int64 positions, objects with __index__ and mixtures",
 "C04-m11": "pools of unorderable (symbolic) dice were absent; added nested / permuted / flat constructions of such pools next to numeric dice whose textual and numeric orders differ (outside the Coq model, oracle = one canonical order)",
 "C04-m12": "indexing was only probed in range; every integer outside [-len, len) must raise IndexError, and p[i - len] must equal p[i]",
 "C05-m11": "the mapping a histogram is built from was dropped at once; it is now modified afterwards (the histogram must not follow)",
 "C06-m11": "pools of different dice rarely shared faces; added pool sources whose dice overlap (the same sorted roll comes from several combinations)",
 "C06-m12": "histogram sources were H objects; added dicts, lists of pairs, one-shot iterators, generators and zip objects",
 "C07-m11": "the deprecated spellings (H/P.explode, H/P.substitute) were only exercised by C08; C07 and C14 now run them too, with limits exactly on the boundary (0, False, 1) and the illegal fractional 0, through the pool spellings as well",
 "C08-m12": "explode() always received an H; added dict / pairs / iterator / generator / zip / pool sources",
 "C11-m11": "(filter verdict memoised by value) provenance-aware filters existed after round 5 but rarely met equal values with different verdicts; corpus entries added",
 "C12-m11": "rollers were never labelled after construction; a fifth of the nodes is now built and then .annotate()d (twice for some), the copy being the roller that rolls",
 "C12-m12": "max_depth = 0 substitutions were rare (10 per run); corpus entries added",
 "C13-m11": "order statistics were asked of objects that stayed alive; added the same question asked of one short-lived object after another (address reuse)",
 "C13-m12": "a pool of n copies of an object was never asked for one position right after that object's order statistics; added, with positions in range and just past either end (IndexError expected) and bool-typed members",
 "C14-m11": "explode predicates were pure; added predicates that raise RecursionError / a marker / StopIteration at a given invocation, with limit 0 included (oracle: number of predicate calls, which branch becomes the sentinel, identity of the propagated exception)",
 "C14-m12": "same as C07-m11",
 "C15-m11": "rollers' sources were only read; added every in-place change a list would accept (item assignment / deletion, append, reverse, clear, attribute assignment) - all must be rejected and change nothing",
 "C15-m12": "rolls always succeeded; added substitution rollers whose expansion operator fails after a few calls (the failed roll must leave the roller as it was)",
 "C16-m12": "rational_t never rejected its arguments; added a strict rational_t that raises TypeError on the second outcome (exactly two calls, both with (count, total), the TypeError reaches the caller)",
 "C17-m12": "randbytes / getrandbits were only tried up to 1000 bits; added 64 KiB boundaries and 800000 bits",
 "C18-m11": "zero_fill was given lists; added one-shot iterables with an absent outcome in the middle",
 "C18-m12": "accumulate was given histograms; added pools, dicts and iterators of pairs",
 "C19-m12": "rejections were observed on immutable objects only; added Roll(...) construction from a lazy iterable that hits a rejected call after yielding outcomes (they must stay unassociated and usable)",
 "C01-m14": "powers were taken of mostly one-signed histograms; added even / odd / zero exponents (int and Fraction) on histograms containing an outcome and its negative",
 "C03-m13": "no mixed pool had a die whose range contains another's; added the 'nested' pool shape (like wide dice + narrow dice / constants strictly inside their range) and corpus entries",
 "C04-m13": "the H(n) shorthand was never used inside pools or repetitions; added negative and positive shorthands as pool arguments and as repeated dice, with h.total checked",
 "C05-m13": "(same defect class as C13-m10) a folding relabelling of an already reduced source: the result must reduce / compare / hash like the distribution built directly",
 "C10-m14": "generators were created one at a time; added equally seeded NumPy generators created up front and used alternately with the default generator in between",
 "C12-m14": "selections rarely left a gap between selected positions on three or more outcomes; added (0,-1), (0,2), every-second-position selectors and corpus entries",
 "C13-m14": "appearances were asked once per object; added the same object in a larger pool first and a smaller one afterwards",
 "C14-m13": "fractional limits exactly equal to the probability of a chain of re-rolls existed only for C08; C07 and C14 now run them for d5 / d10 / d11 / d13 / d20 at depths 1-3 (a double-precision path probability rounds the wrong way there)",
 "C15-m14": "n @ r was never applied to rollers in the population; added n @ r and (n @ r) @ m for n, m in 0..3, the operand being a repetition itself",
 "C16-m13": "outcomes stayed near the origin; added the same shapes shifted by millions (non-integral means of magnitude 2**21 and above) with float tolerances scaled by the squared mean",
 "C17-m13": "a snapshot was never taken right after another snapshot and an in-place re-seed; added, with restoration into a third instance",
 "C19-m14": "illegal limit arguments met a three-faced histogram only; added one-faced, weighted one-faced, zero-count one-faced, empty and one-die-pool receivers for every illegal limit and for max_depth together with precision_limit",
 "C16-m3": "histograms were built from mappings only; added construction from reversed pairs and from bare outcomes mixed with pairs (stored order not ascending)",
 "C12-m15": "dyce.r.walk (an anchor of the property: the traversal clients inspect a record with) was never called; every record is now walked from the roll, from its first outcome and from the roller, and the visited rolls / rollers / outcomes and the parents handed to the visitor are compared with an independent traversal of the same object graph",
 "C08-m15": "the recorded finding K1 suppressed EVERY disagreement on a single-faced histogram given to the deprecated spelling; it is now suppressed only when the answer is exactly the documented guard's (oracle and Coq model contain the guard), and single-faced histograms of weight 2, 3, 7 (also zero-padded, also through a pool) are generated for every limit",
 "C16-m15": "variance(mu) / stdev(mu) were only called with the value mean() returned or a wrong mu; the precomputed mean is now passed in every spelling a client holds it in (int, Fraction, float when it is exactly integral) and must give variance()",
 "C06-m15": "pool sources never held dice with the SAME faces but non-proportional weights; added such pools (both orders, with and without a selection) as sources of the mechanics",
}


def main():
    rows = []
    for d in sorted(glob.glob("/verif/seeded/*/")):
        m = json.load(open(d + "meta.json"))
        sid = m["id"]
        m["missed_by_first_version_of_check"] = sid in MISSED
        if sid in MISSED:
            m["strengthening"] = MISSED[sid]
        m["needs_to_manifest"] = m.get("note", "").strip()
        m.setdefault("applies_to_commit", "f9d52fa (checked: also applies cleanly to d019088)")
        json.dump(m, open(d + "meta.json", "w"), indent=1)
        first = " ".join(m.get("note", "").split())[:150]
        rows.append((sid, ",".join(m["caught_by"]) or "-", "missed at first" if sid in MISSED else "caught", first))
    n = len(rows)
    nm = sum(1 for r in rows if r[2] != "caught")
    tab = ("| seeded change | caught by (quick tier) | first version of the check | what it is |\n|---|---|---|---|\n"
           + "\n".join(f"| {a} | {b} | {c} | {d.replace('|', '/')} |" for a, b, c, d in rows))
    sec = f"""
### 12.6 Seeded changes: which checks catch which

{n} changes were written by independent sub-agents that saw only the text of one property (and, in the
second round, one-line summaries of the first-round changes to avoid) and their own scratch worktree of
/repo.  Each was confirmed here in a fresh worktree (demo exits 0 on the clean tree; patch applies; the
full test-suite still passes, 250; demo exits 1) and is kept under `seeded/<id>/` (`patch.diff`,
`demo.py`, `meta.json`).  The checks were run against a second scratch worktree with the patch applied
(`DYCE_REPO=<worktree> VERIF_SCRATCH=<dir> ./check Cxx`, the same code path as `/repo`).  {n - nm} were
caught by the version of the check that existed when they arrived; {nm} were missed and led to the
generator / observable strengthening recorded below and in each `meta.json` (`strengthening`), after
which all {n} are caught by the quick tier (`caught_by` in `meta.json` is the result of the last run).
One generic strengthening came out of this: every check re-runs its cases in REVERSE order in a second
fresh interpreter and reports any answer that differs (`answer-depends-on-call-history`), which catches
process-wide state such as equality-keyed caches whatever the property.

{tab}

Missed at first, and what was changed:

""" + "\n".join(f"* **{k}** - {v}." for k, v in MISSED.items()) + "\n"
    s = open("/verif/DESIGN.md").read()
    if "### 12.6" in s:
        s = s[:s.index("\n### 12.6")]
    open("/verif/DESIGN.md", "w").write(s.rstrip("\n") + "\n" + sec)
    print(n, "seeded,", nm, "missed at first")


if __name__ == "__main__":
    main()
