"""Roller trees for C10/C11/C12: JSON format, Python construction, Coq printing, exhaustive
exploration of the random source's answers, and an enumeration oracle.

tree = ["val", o] | ["h", items] | ["p", dice] | ["pool", [t...]] | ["repeat", n, t]
     | ["bin", op, a, b] | ["un", op, a] | ["select", which, [t...]] | ["filter", pred, [t...]]
     | ["subst", table, append, depth, t]           table: [[value, ["keep"]|["out", v]|["reroll"]]...]
"""
import itertools
import operator
import random
from fractions import Fraction

from common import chist, clist, cq, cz, cnat, qv
import gens
import pools

# name -> (Coq operator on values, function building the roller, function on values)
BIN = {"add": ("Qcplus", operator.add, operator.add), "sub": ("Qcminus", operator.sub, operator.sub),
       "mul": ("Qcmult", operator.mul, operator.mul),
       "and": ("(qbit And)", operator.and_, lambda x, y: Fraction(int(x) & int(y))),
       "or": ("(qbit Or)", operator.or_, lambda x, y: Fraction(int(x) | int(y))),
       "xor": ("(qbit Xor)", operator.xor, lambda x, y: Fraction(int(x) ^ int(y))),
       "lt": ("(fun x y => ofb (negb (Vleb y x)))", lambda a, b: a.lt(b), lambda x, y: Fraction(int(x < y))),
       "ge": ("(fun x y => ofb (Vleb y x))", lambda a, b: a.ge(b), lambda x, y: Fraction(int(x >= y))),
       "eq": ("(fun x y => ofb (Veqb x y))", lambda a, b: a.eq(b), lambda x, y: Fraction(int(x == y))),
       "ne": ("(fun x y => ofb (negb (Veqb x y)))", lambda a, b: a.ne(b), lambda x, y: Fraction(int(x != y))),
       "le": ("(fun x y => ofb (Vleb x y))", lambda a, b: a.le(b), lambda x, y: Fraction(int(x <= y))),
       "gt": ("(fun x y => ofb (negb (Vleb x y)))", lambda a, b: a.gt(b), lambda x, y: Fraction(int(x > y)))}
UN = {"neg": ("Qcopp", operator.neg, operator.neg), "abs": ("Vabs", abs, abs),
      "inv": ("(fun x => Qcminus (Qcopp x) (qc 1 1))", operator.invert, lambda x: -x - 1),
      "is_even": ("(fun x => ofb (p_even x))", lambda a: a.is_even(), lambda x: Fraction(int(x % 2 == 0)))}
PRED = {"even": ("p_even", lambda v: v % 2 == 0), "odd": ("p_odd", lambda v: v % 2 == 1),
        "gt2": ("(p_gt (qc 2 1))", lambda v: v > 2), "all": ("(fun _ => true)", lambda v: True),
        "none": ("(fun _ => false)", lambda v: False)}


# ---- Coq --------------------------------------------------------------------------------

def ctree(t):
    k = t[0]
    if k == "val":
        return f"(RVal {cq(t[1])})"
    if k == "h":
        return f"(RH {chist(t[1])})"
    if k == "p":
        return f"(RP {pools.cpool(t[1])})"
    if k == "pool":
        return f"(RPool {clist(ctree(x) for x in t[1])})"
    if k == "repeat":
        return f"(RRepeat {cnat(t[1])} {ctree(t[2])})"
    if k == "bin":
        return f"(RBinOp {BIN[t[1]][0]} {ctree(t[2])} {ctree(t[3])})"
    if k == "un":
        return f"(RUnOp {UN[t[1]][0]} {ctree(t[2])})"
    if k == "select":
        w = pools.csel(t[1])
        inner = w[len("(Some "):-1]
        return f"(RSelect {inner} {clist(ctree(x) for x in t[2])})"
    if k == "filter":
        return f"(RFilter {PRED[t[1]][0]} {clist(ctree(x) for x in t[2])})"
    if k == "filterby":
        # one value predicate per source: the verdict depends on where an outcome comes from
        preds = clist(PRED[n][0] for n in t[1])
        return f"(RFilterBy (fun i v => nth i {preds} (fun _ => false) v) {clist(ctree(x) for x in t[2])})"
    if k == "subst":
        def cexp(e):
            return "EKeep" if e[0] == "keep" else "EReroll" if e[0] == "reroll" else f"(EOut {cq(e[1])})"
        tbl = clist(f"({cq(v)}, {cexp(e)})" for v, e in t[1])
        return f"(RSubst (expand_tbl {tbl}) {'true' if t[2] else 'false'} {cnat(t[3])} {ctree(t[4])})"
    raise ValueError(k)


def casks(asks):
    return clist(f"({clist(cq(o) for o in pop)}, {clist(cz(w) for w in ws)})" for pop, ws in asks)


def cscript(script):
    return clist(cnat(i) for i in script)


# ---- Python rollers --------------------------------------------------------------------------

def _variant(t, n):
    """which of the n equivalent public spellings to use for this node: fixed by the node's content"""
    import json
    import zlib
    return zlib.crc32(json.dumps(t, sort_keys=True).encode()) % n


def _leaf_value(t):
    from dyce import H
    if t[0] == "val":
        return gens.py_outcome(t[1])
    if t[0] == "h":
        return H(gens.py_hist_dict(t[1]))
    return pools.py_pool(t[1])


def build(t):
    """the roller for a tree, sometimes labelled afterwards with .annotate() (a copy that must roll as its own roller)"""
    r = _build(t)
    v = _variant(["annotate", t], 5) if t[0] != "un" else 9    # unary nodes stay unlabelled (and see _build)
    if v == 0:
        return r.annotate("label")
    if v == 1:
        return r.annotate("a").annotate("")
    return r


def _build(t):
    """builds the roller for a tree; nodes are spelled through the different public constructors and
    convenience methods (operators, map/rmap/umap, *_from_values, *_iterable, select/filter methods), chosen
    by a hash of the node so that a replayed case is built the same way"""
    import operator
    from dyce import H, P
    from dyce.r import (R, ValueRoller, PoolRoller, RepeatRoller, SelectionRoller, FilterRoller,
                        SubstitutionRoller, RollOutcome, CoalesceMode)
    k = t[0]
    leaves = ("val", "h", "p")
    if k in leaves:
        v = _leaf_value(t)
        return R.from_value(v) if _variant(t, 2) else ValueRoller(v)
    if k == "pool":
        if all(x[0] in leaves for x in t[1]) and _variant(t, 3):
            vals = [_leaf_value(x) for x in t[1]]
            return R.from_values(*vals) if _variant(t, 2) else R.from_values_iterable(iter(vals))
        srcs = [build(x) for x in t[1]]
        return [lambda: PoolRoller(sources=srcs), lambda: R.from_sources(*srcs),
                lambda: R.from_sources_iterable(iter(srcs))][_variant(t, 3)]()
    if k == "repeat":
        return (t[1] @ build(t[2])) if _variant(t, 2) else RepeatRoller(t[1], build(t[2]))
    if k == "bin":
        name = t[1]
        v = _variant(t, 4)
        if name in ("add", "sub", "mul", "and", "or", "xor"):
            op = {"add": operator.__add__, "sub": operator.__sub__, "mul": operator.__mul__,
                  "and": operator.__and__, "or": operator.__or__, "xor": operator.__xor__}[name]
            if v == 1 and t[3][0] == "val":
                return op(build(t[2]), gens.py_outcome(t[3][1]))          # roller (op) scalar
            if v == 2 and t[2][0] == "val":
                return op(gens.py_outcome(t[2][1]), build(t[3]))          # scalar (op) roller: reflected
            if v == 3:
                return build(t[2]).map(op, build(t[3]))
        return BIN[name][1](build(t[2]), build(t[3]))
    if k == "un":
        name = t[1]
        same_op_twice = t[2][0] == "un" and t[2][1] == name
        if name in ("neg", "abs", "inv") and _variant(t, 2) and not same_op_twice:     # -(-x), ~(~x): through the dunders
            op = {"neg": operator.__neg__, "abs": operator.__abs__, "inv": operator.__invert__}[name]
            return build(t[2]).umap(op)
        return UN[name][1](build(t[2]))
    if k == "select":
        which = pools.py_which(t[1])
        v = _variant(t, 6)
        if all(x[0] in leaves for x in t[2]) and v in (1, 2):
            vals = [_leaf_value(x) for x in t[2]]
            return R.select_from_values(which, *vals) if v == 1 else R.select_from_values_iterable(iter(which), iter(vals))
        srcs = [build(x) for x in t[2]]
        if len(srcs) == 1 and v in (3, 4):
            return srcs[0].select(*which) if v == 3 else srcs[0].select_iterable(iter(which))
        if v == 5:
            return R.select_from_sources_iterable(iter(which), iter(srcs))
        return R.select_from_sources(which, *srcs)
    if k == "filter":
        f = PRED[t[1]][1]
        pred = lambda o: f(o.value)   # noqa: E731
        v = _variant(t, 6)
        if all(x[0] in leaves for x in t[2]) and v in (1, 2):
            vals = [_leaf_value(x) for x in t[2]]
            return R.filter_from_values(pred, *vals) if v == 1 else R.filter_from_values_iterable(pred, iter(vals))
        srcs = [build(x) for x in t[2]]
        if len(srcs) == 1 and v == 3:
            return srcs[0].filter(pred)
        if v == 4:
            return R.filter_from_sources_iterable(pred, iter(srcs))
        return R.filter_from_sources(pred, *srcs)
    if k == "filterby":
        srcs = [build(x) for x in t[2]]
        owner = {}

        def walk(r, i):
            owner[id(r)] = i
            for s_ in r.sources:
                walk(s_, i)
        for i, s_ in enumerate(srcs):
            walk(s_, i)
        fs = [PRED[n][1] for n in t[1]]

        def pred_by(o):
            # the predicate looks at the record: the roller that produced the outcome tells which source it belongs to
            return fs[owner[id(o.source_roll.r)]](o.value)
        return R.filter_from_sources(pred_by, *srcs) if _variant(t, 2) else R.filter_from_sources_iterable(pred_by, iter(srcs))
    if k == "subst":
        src = build(t[4])
        tbl = {Fraction(*v): e for v, e in t[1]}

        def expansion_op(outcome):
            e = tbl.get(Fraction(outcome.value))
            if e is None or e[0] == "keep":
                return outcome
            if e[0] == "out":
                return RollOutcome(gens.py_outcome(e[1]))
            return src.roll()
        mode = CoalesceMode.APPEND if t[2] else CoalesceMode.REPLACE
        if _variant(t, 2):
            return SubstitutionRoller(expansion_op, src, coalesce_mode=mode, max_depth=t[3])
        return SubstitutionRoller(expansion_op, src, mode, t[3])
    raise ValueError(k)


class NeedMore(Exception):
    def __init__(self, weights):
        self.weights = weights


class Scripted(random.Random):
    """a random.Random whose `choices` answers from a script and records what it was asked"""

    def __init__(self, script):
        super().__init__(0)
        self.script = list(script)
        self.pos = 0
        self.asks = []

    def choices(self, population, weights=None, *, cum_weights=None, k=1):
        population = list(population)
        weights = [int(w) for w in weights]
        assert k == 1 and cum_weights is None
        if self.pos >= len(self.script):
            raise NeedMore(weights)
        def _q(x):
            try:
                return qv(x)
            except (TypeError, ValueError):
                return ["sym", repr(x)]       # a non-numeric (symbolic) outcome
        self.asks.append([[_q(x) for x in population], weights])
        i = self.script[self.pos]
        self.pos += 1
        return [population[i]]

    def _forbidden(self, *a, **kw):
        raise AssertionError("dyce used a source of randomness other than RNG.choices")
    random = getrandbits = randrange = randint = choice = shuffle = sample = uniform = _forbidden


def explore(action, max_paths=300):
    """all complete answer scripts (positive-weight answers only). action() is run with dyce.rng.RNG
    replaced; returns (paths, exhaustive) with paths = [{'script', 'asks', 'result', 'prob'}]"""
    import dyce.rng
    paths, stack, exhaustive = [], [([], Fraction(1))], True
    old = dyce.rng.RNG
    try:
        while stack:
            if len(paths) >= max_paths:
                exhaustive = False
                break
            script, prob = stack.pop()
            rng = Scripted(script)
            dyce.rng.RNG = rng
            try:
                result = action()
            except NeedMore as e:
                tot = sum(e.weights)
                for i in reversed(range(len(e.weights))):
                    if e.weights[i] > 0:
                        stack.append((script + [i], prob * Fraction(e.weights[i], tot)))
                continue
            paths.append({"script": script, "asks": rng.asks, "result": result, "prob": [prob.numerator, prob.denominator]})
    finally:
        dyce.rng.RNG = old
    return paths, exhaustive


# ---- enumeration oracle (values only): distribution of the live outcome tuple --------------------

def _hdist(h):
    t = sum(c for _, c in h)
    if t == 0:
        return {Fraction(0): Fraction(1)}
    return {Fraction(*o): Fraction(c, t) for o, c in h if c}


def _bind(d, f):
    """distribution monad; a string key is a failure ('ERR:IndexError') and propagates"""
    out = {}
    for x, px in d.items():
        if isinstance(x, str):
            out[x] = out.get(x, 0) + px
            continue
        for y, py in f(x).items():
            out[y] = out.get(y, 0) + px * py
    return out


def _seq(ds):
    acc = {(): Fraction(1)}
    for d in ds:
        acc = _bind(acc, lambda pre, d=d: {(x if isinstance(x, str) else pre + (x,)): p for x, p in d.items()})
    return acc


def _live(rv):
    return tuple(x for x in rv if x is not None)


def _summed(rv):
    if len(rv) == 1 and rv[0] is not None:
        return rv[0]
    return sum(_live(rv), Fraction(0))


def enum(t):
    """distribution over rollv tuples (values, None for tombstones)"""
    k = t[0]
    if k == "val":
        return {(Fraction(*t[1]),): Fraction(1)}
    if k == "h":
        return {(x,): p for x, p in _hdist(t[1]).items()}
    if k == "p":
        dice = pools.effective_dice(t[1])
        if not dice:
            return {(): Fraction(1)}
        out = {}
        for xs, p in _seq([_hdist(d) for d in dice]).items():
            key = tuple(sorted(xs))
            out[key] = out.get(key, 0) + p
        return out
    if k in ("pool", "select", "filter", "filterby"):
        srcs = t[1] if k == "pool" else t[2]
        parts = _seq([enum(x) for x in srcs])

        def fin(rs):
            vals = tuple(v for r in rs for v in _live(r))
            if k == "filterby":
                fs = [PRED[n][1] for n in t[1]]
                return {tuple((v if fs[i](v) else None) for i, r in enumerate(rs) for v in _live(r)): Fraction(1)}
            if k == "pool":
                return {vals: Fraction(1)}
            if k == "filter":
                f = PRED[t[1]][1]
                return {tuple(v if f(v) else None for v in vals): Fraction(1)}
            s = tuple(sorted(vals))
            try:
                sel = pools.pick(s, t[1])
                idx = pools.pick(tuple(range(len(s))), t[1])
            except IndexError:
                return {"ERR:IndexError": Fraction(1)}
            return {tuple(sel) + (None,) * (len(s) - len(set(idx))): Fraction(1)}
        return _bind(parts, fin)
    if k == "repeat":
        parts = _seq([enum(t[2])] * t[1])
        return _bind(parts, lambda rs: {tuple(v for r in rs for v in _live(r)): Fraction(1)})
    if k == "bin":
        f = BIN[t[1]][2]
        return _bind(_seq([enum(t[2]), enum(t[3])]), lambda rs: {(f(_summed(rs[0]), _summed(rs[1])),): Fraction(1)})
    if k == "un":
        f = UN[t[1]][2]
        return _bind(enum(t[2]), lambda r: {(f(_summed(r)),): Fraction(1)})
    if k == "subst":
        tbl = {Fraction(*v): e for v, e in t[1]}
        src = enum(t[4])

        def expand(rv, left):
            vals = _live(rv)
            if left == 0:
                return {tuple(vals): Fraction(1)}
            acc = {(): Fraction(1)}
            for v in vals:
                e = tbl.get(v)
                if e is None or e[0] == "keep":
                    here = {(v,): Fraction(1)}
                elif e[0] == "out":
                    here = {(Fraction(*e[1]),): Fraction(1)}
                else:
                    head = (v,) if t[2] else (None,)
                    here = _bind(src, lambda rv2: {(sub if isinstance(sub, str) else head + sub): p for sub, p in expand(rv2, left - 1).items()})
                acc = _bind(acc, lambda pre, here=here: {(x if isinstance(x, str) else pre + x): p for x, p in here.items()})
            return acc
        return _bind(src, lambda rv: expand(rv, t[3]))
    raise ValueError(k)


def _agg(d):
    return d


def est_paths(t):
    """upper bound on the number of answer paths"""
    k = t[0]
    if k == "val":
        return 1
    if k == "h":
        return max(1, sum(1 for _, c in t[1] if c > 0)) if sum(c for _, c in t[1]) else 1
    if k == "p":
        n = 1
        for d in pools.effective_dice(t[1]):
            n *= max(1, sum(1 for _, c in d if c > 0))
        return n
    if k in ("pool",):
        n = 1
        for x in t[1]:
            n *= est_paths(x)
        return n
    if k in ("select", "filter", "filterby"):
        n = 1
        for x in t[2]:
            n *= est_paths(x)
        return n
    if k == "repeat":
        return est_paths(t[2]) ** t[1]
    if k == "bin":
        return est_paths(t[2]) * est_paths(t[3])
    if k == "un":
        return est_paths(t[2])
    if k == "subst":
        b = est_paths(t[4])
        return min(b ** (1 + t[3] * 2), 150) if b <= 4 else b ** (1 + t[3] * 2)
    return 1


# ---- generator -------------------------------------------------------------------------------------

def gen_leaf(rng):
    r = rng.random()
    if r < 0.25:
        return ["val", gens.q(rng.randint(-2, 6))]
    if r < 0.8:
        return ["h", gens.hist(rng, max_faces=3, style=rng.choice(["unit", "small", "pos"]), frac_p=0.0, min_faces=1)]
    h = gens.hist(rng, max_faces=2, style="pos", frac_p=0.0, min_faces=1)
    return ["p", [h] * rng.randint(1, 2)]


def gen_tree(rng, depth):
    if depth == 0 or rng.random() < 0.25:
        return gen_leaf(rng)
    k = rng.choice(["pool", "repeat", "bin", "bin", "un", "select", "filter", "subst"])
    sub = lambda: gen_tree(rng, depth - 1)
    if k == "pool":
        return ["pool", [sub() for _ in range(rng.randint(1, 3))]]
    if k == "repeat":
        return ["repeat", rng.randint(0, 3), sub()]
    if k == "bin":
        return ["bin", rng.choice(list(BIN)), sub(), sub()]
    if k == "un":
        op = rng.choice(list(UN))
        if rng.random() < 0.3:
            # the same operator twice over a source with several outcomes: each node sums its source first
            return ["un", op, ["un", op, rng.choice([["repeat", 2, gen_leaf(rng)], ["pool", [gen_leaf(rng), gen_leaf(rng)]], sub()])]]
        return ["un", op, sub()]
    if k == "select":
        which = rng.choice([[{"i": 0}], [{"i": -1}], [{"s": [None, 1, None]}], [{"s": [-2, None, None]}],
                            [{"s": [None, None, -1]}], [{"i": 0}, {"i": 0}], [{"s": [1, None, None]}], [{"i": 1}], [{"i": -1}, {"i": 0}],
                            [{"i": -1}, {"i": -1}, {"i": -1}], [{"i": 0}, {"i": 1}, {"i": 0}, {"i": 1}], [{"i": 0}, {"i": 0}, {"i": 0}],
                            [{"s": [None, None, None]}, {"i": 0}], [{"i": -2}], [{"i": -1}, {"i": -2}], [{"i": -2}, {"i": -1}],
                            [{"i": -3}, {"i": -2}], [{"i": 1}, {"i": 0}], [{"s": [None, None, -1]}, {"i": -1}], [{"s": [-2, None, None]}, {"i": -2}],
                            [{"i": 0}, {"i": -1}], [{"i": 0}, {"i": 2}], [{"s": [None, None, 2]}], [{"i": -1}, {"i": 0}, {"i": -1}]])
        return ["select", which, [sub() for _ in range(rng.randint(1, 2))]]
    if k == "filter":
        if rng.random() < 0.4:
            srcs = [sub() for _ in range(rng.randint(2, 3))]
            return ["filterby", [rng.choice(list(PRED)) for _ in srcs], srcs]
        return ["filter", rng.choice(["even", "odd", "gt2"]), [sub() for _ in range(rng.randint(1, 2))]]
    tbl = []
    for v in range(-2, 8):
        q = rng.random()
        if q < 0.25:
            tbl.append([gens.q(v), ["reroll"]])
        elif q < 0.35:
            tbl.append([gens.q(v), ["out", gens.q(rng.randint(0, 9))]])
        elif q < 0.45:
            tbl.append([gens.q(v), ["out", gens.q(v)]])      # a NEW outcome object with an equal value (a clamp / cap)
    if rng.random() < 0.35:
        # several live outcomes that re-roll, with a depth budget of 2 (each branch has its own budget)
        coin = ["h", [[gens.q(1), 1], [gens.q(2), 1]]]
        src = rng.choice([["pool", [["val", gens.q(2)], coin]], ["repeat", 2, coin], ["pool", [coin, ["val", gens.q(2)]]]])
        return ["subst", [[gens.q(2), ["reroll"]]], rng.random() < 0.5, 2, src]
    return ["subst", tbl, rng.random() < 0.5, rng.randint(0, 2), sub()]


def gen_small_tree(rng, depth=3, max_paths=200):
    for _ in range(50):
        t = gen_tree(rng, rng.randint(1, depth))
        if est_paths(t) <= max_paths:
            return t
    return gen_leaf(rng)
