"""Pools and selections shared by C02/C03/C04/C09/C10/C13: generators, Coq printing,
brute-force oracles."""
import itertools
from fractions import Fraction

from common import chist, clist, cq, cz, copt
import gens


def csel(which):
    """which: None (no argument) or list of {'i': int} / {'s': [start, stop, step]}"""
    if which is None:
        return "None"
    items = []
    for w in which:
        if "i" in w:
            items.append(f"(Idx {cz(w['i'])})")
        else:
            a, b, c = w["s"]
            items.append(f"(Slice {copt(a, cz)} {copt(b, cz)} {copt(c, cz)})")
    return f"(Some {clist(items)})"


def cpool(hs):
    return f"(mkP VO {clist(chist(h) for h in hs)})"


class IndexLike:
    """an object that is an index (has __index__) without being an int"""

    def __init__(self, i):
        self.i = i

    def __index__(self):
        return self.i

    def __repr__(self):
        return f"IndexLike({self.i})"


def py_which(which, ityp=None):
    """ityp: how integer positions are spelled - None (int), "npint64", "indexlike", "mixed" (alternating)"""
    out = []
    for j, w in enumerate(which or []):
        if "i" in w:
            t = ityp if ityp != "mixed" else (None, "npint64", "indexlike")[j % 3]
            if t == "npint64":
                import numpy
                out.append(numpy.int64(w["i"]))
            elif t == "indexlike":
                out.append(IndexLike(w["i"]))
            else:
                out.append(w["i"])
        else:
            out.append(slice(*w["s"]))
    return tuple(out)


def py_pool(hs, otyp=None):
    """otyp: outcome type of the twin ("float" / "Fraction" / None = int for integral values)"""
    from dyce import H, P
    if otyp is None:
        return P(*[H(gens.py_hist_dict(h)) for h in hs])
    conv = {"float": float, "Fraction": Fraction}[otyp]
    return P(*[H({conv(k): c for k, c in gens.py_hist_dict(h).items()}) for h in hs])


def int_valued(hs):
    return all(o[1] == 1 for h in hs for o, _ in h)


def gen_sel_item(rng, n, cls):
    lo = -n - 1
    if cls == "low":
        k = rng.randint(1, max(1, n - 1))
        return rng.choice([{"i": rng.randrange(0, k)}, {"s": [None, k, None]}, {"s": [0, k, rng.choice([1, 2])]},
                           {"i": rng.randrange(0, k) - n}])
    if cls == "high":
        k = rng.randint(1, max(1, n - 1))
        return rng.choice([{"i": -rng.randint(1, k)}, {"s": [-k, None, None]}, {"s": [None, -k - 1, -1]},
                           {"i": n - rng.randint(1, k)}])
    if cls == "all":
        return rng.choice([{"s": [None, None, None]}, {"s": [None, None, -1]}, {"s": [0, n, 1]}])
    if cls == "mid":
        i = rng.randrange(0, max(1, n))
        return rng.choice([{"i": i}, {"s": [i, i + rng.randint(0, 2), None]}, {"s": [None, None, 2]}, {"s": [1, None, 2]}])
    if cls == "empty":
        return rng.choice([{"s": [0, 0, None]}, {"s": [n, None, None]}, {"s": [2, 1, None]}])
    if cls == "oob":
        return rng.choice([{"i": n}, {"i": -n - 1}, {"i": n + 2}])
    if cls == "wild":
        def b():
            return rng.choice([None, None] + list(range(lo, n + 2)))
        st = rng.choice([None, 1, -1, 2, -2, 3])
        return rng.choice([{"i": rng.randint(-n, max(0, n - 1))}, {"s": [b(), b(), st]}])
    raise ValueError(cls)


def gen_which(rng, n):
    cls = rng.choice(["none", "low", "low", "high", "high", "all", "mid", "mid", "wild", "wild", "empty", "oob", "allm", "ucover"])
    if cls == "none":
        return None, cls
    if cls == "ucover":
        # every position selected, UNEQUALLY often, the number of selected items a multiple of n
        if n < 2:
            return [{"i": 0}, {"i": 0}], cls
        j = rng.randrange(n)
        extra = [{"i": rng.choice([j, j - n])} for _ in range(n * rng.randint(1, 2))]
        if rng.random() < 0.3:
            extra[0] = {"i": (j + 1) % n}
            extra.append({"i": j}) if False else None
        items = ([{"s": [None, None, None]}] if rng.random() < 0.4 else [{"i": i} for i in range(n)]) + extra
        if rng.random() < 0.5:
            rng.shuffle(items)
        return items, cls
    if cls == "allm":
        m = rng.randint(1, 3)
        items = [{"s": [None, None, None]}] * m if rng.random() < 0.5 else [{"i": i} for i in range(n)] * m
        items = list(items)
        if rng.random() < 0.5:
            rng.shuffle(items)
        return items, cls
    k = rng.randint(1, 3) if cls not in ("empty", "oob") else rng.randint(1, 2)
    items = [gen_sel_item(rng, n, cls if (cls != "oob" or j == 0) else "wild") for j in range(k)]
    rng.shuffle(items)
    return items, cls


def gen_pool(rng, max_dice=4, max_faces=4, frac_p=0.1, styles=("unit", "small", "small", "pos", "pos", "big")):
    """a list of raw dice (histogram item lists); shapes: homogeneous, groups, proportional twins, mixed"""
    shape = rng.choice(["hom", "hom", "groups", "twins", "mixed", "mixed", "nested"])
    if shape == "nested" and (max_dice < 3 or max_faces < 4):
        shape = "mixed"          # callers that ask for tiny pools (sources of recursive mechanics) get tiny pools
    nd = rng.randint(1, max_dice)

    def die():
        return gens.hist(rng, max_faces=max_faces, style=rng.choice(styles), frac_p=frac_p, min_faces=1, scale_p=0.1)
    if shape == "hom":
        h = die()
        dice = [h] * nd
    elif shape == "groups":
        dice = []
        while len(dice) < nd:
            h = die()
            dice += [h] * rng.randint(1, 3)
        dice = dice[:max(nd, 2)]
    elif shape == "nested":
        # a group of like WIDE dice next to one or two narrow dice whose faces lie strictly inside the wide range (the
        # die with the smallest lowest face also has the largest highest face), constants included
        lo = rng.randint(-3, 1)
        wide = [[gens.q(v), rng.choice([1, 1, 2])] for v in range(lo, lo + rng.randint(4, 6))]
        inner = sorted(rng.sample(range(lo + 1, lo + len(wide) - 1), rng.randint(1, 2)))
        narrow = [[gens.q(v), rng.choice([1, 2])] for v in inner]
        dice = [wide] * rng.randint(2, max(2, min(3, max_dice - 1))) + [narrow]
        if rng.random() < 0.4:
            dice.append([[gens.q(rng.choice(inner)), rng.choice([1, 3])]])
    elif shape == "twins":
        h = die()
        k = rng.choice([2, 3])
        dice = [h, [[o, c * k] for o, c in h]] + [die() for _ in range(max(0, nd - 2))]
    else:
        dice = [die() for _ in range(nd)]
    dice = [list(map(list, d)) for d in dice]
    rng.shuffle(dice)
    return dice, shape


def effective_dice(hs):
    """dice P keeps: positive total"""
    return [h for h in hs if sum(c for _, c in h) != 0]


def brute_size(hs):
    n = 1
    for h in effective_dice(hs):
        n *= len(h)
    return n


def brute_rolls(hs):
    """yield (ascending-sorted roll as tuple of Fractions, count) over the Cartesian product"""
    dice = [[(Fraction(o[0], o[1]), c) for o, c in h] for h in effective_dice(hs)]
    for combo in itertools.product(*dice):
        cnt = 1
        for _, c in combo:
            cnt *= c
        yield tuple(sorted(o for o, _ in combo)), cnt


def pick(roll, which):
    """independent re-implementation of index/slice application (Python's own tuple indexing)"""
    if which is None:
        return roll
    out = []
    for w in which:
        if "i" in w:
            out.append(roll[w["i"]])
        else:
            out.extend(roll[slice(*w["s"])])
    return tuple(out)


def fq(x):
    return [x.numerator, x.denominator]


def agg_to_list(d):
    return [[[fq(x) for x in k], v] for k, v in sorted(d.items()) if v != 0]
