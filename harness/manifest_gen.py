"""Regenerates MANIFEST.json from the table below (kept in one place so it stays valid)."""
import json
from pathlib import Path

VERIF = Path(__file__).resolve().parent.parent
ALL = [f"C{i:02d}" for i in range(1, 20)]

COMMON_NOTE = ("Trusted: Coq 8.16.1 kernel incl. vm_compute (no native_compute, no extraction); the hand-written "
               "Gallina model is tied to /repo's working tree by a differential correspondence check (model "
               "evaluated inside Coq on the same generated cases as the implementation); Python harness, "
               "generators and spec oracles; /venv python 3.12. ")

CHECKS = {
    "C19": {
        "text": ("Theorems about the decision logic of every documented guard over the argument grammar (int, bool, numpy "
                 "integer, float, Fraction, numpy float, str, None): integral values of any numeric type are accepted as "
                 "the integer they equal; negative counts/repetitions are ValueError; non-integral ones TypeError (the "
                 "type-checker's error for non-numbers when it is on); positions out of range IndexError, non-index "
                 "types TypeError; illegal limits, inverted within bounds, both limits, RollOutcome(None) rejected. "
                 "Correspondence: the whole grammar x every entry point enumerated EXHAUSTIVELY with NUMERARY_BEARTYPE "
                 "off and on, operands snapshotted before and after each call."),
        "note": "beartype modelled as a mode flag; numpy scalars by exact value and kind; axioms: none.",
        "design": "5/C19",
    },
    "C01": {
        "text": ("Theorems for every outcome type with a decidable total order and every operator (an arbitrary function): "
                 "the count of z in a op b is the sum of a[x]*b[y] over pairs with x op y = z; total = product; scalar and "
                 "unary forms relabel with colliding counts added and the total preserved; an exception is raised exactly "
                 "when some pair of the support product raises; scaling and zero-count faces change nothing beyond the "
                 "formula; results depend on operands only as count functions. Correspondence ties operator dispatch "
                 "(map/rmap/umap, reflected forms, pool flattening, comparators, within/vs) and Python's operator "
                 "semantics on int/Fraction outcomes to the code."),
        "note": "Python operator semantics are modelled by tables on exact rationals; inexact float results are outside the model (skipped and counted); axioms: none.",
        "design": "5/C01",
    },
    "C02": {
        "text": ("Theorem rwc = brute force for all pools (homogeneous, grouped, heterogeneous; zero-count faces) and all "
                 "selections (indexes, negative indexes, slices with any step, repeats), proved for every strategy the code "
                 "dispatches to: Karonen partial selection from either end with its numerator/denominator bookkeeping, "
                 "grouped heterogeneous merge with padding, full enumeration; counts sum to the total; empty selection "
                 "yields nothing; IndexError surfaces. Correspondence runs the same Gallina functions against "
                 "P.rolls_with_counts on generated pools x selections."),
        "note": "math.comb = Pascal binomial; sorted = insertion sort; +/-inf padding modelled by an arbitrary filler; memo cache excluded (C13); axioms: none.",
        "design": "5/C02",
    },
    "C03": {
        "text": ("Theorem: P.h(*which) has exactly the brute-force counts of the sum of the selected positions for every "
                 "pool and selection, through every branch (no-selection sum_h, the 'everything m times' short-circuit, "
                 "enumeration by any strategy); equivalent selections give the same counts; a single index is the order "
                 "statistic; monotone relabelling commutes with sorting (decreasing maps mirror positions). Correspondence "
                 "on generated pools x selections incl. sizes beyond brute force (compared with the proved model) and "
                 "metamorphic pairs on the implementation."),
        "note": "outcome addition assumed commutative/associative with unit (section hypotheses, true of Qc); axioms: none.",
        "design": "5/C03",
    },
    "C04": {
        "text": ("Theorems: n@h is the n-fold independent sum (brute-force counts, total h.total**n), 0@h empty, negative n "
                 "rejected, (m+n)@h = m@h + n@h as identical histograms; P(...) ignores argument order, flattens nesting, "
                 "drops zero-total dice, is sorted canonically, total = product; n@P(h) is n copies of h; p.h() is the "
                 "brute-force sum of its dice. Correspondence up to n = 40 with counts far above 2**53."),
        "note": "sum()/list.sort modelled by folds and insertion sort; axioms: none.",
        "design": "5/C04",
    },
    "C05": {
        "text": ("Theorems: == holds iff same distribution (both directions, zero-total and empty cases), equal implies "
                 "equal hash, != is the negation, scaled and zero-padded copies are equal; lowest_terms is idempotent, "
                 "preserves the distribution, has positive counts of gcd 1; construction is independent of order and "
                 "regrouping, accumulates repeated outcomes, rejects negative counts. Correspondence incl. representation "
                 "twins (1 / 1.0 / Fraction(1) / True), pool == histogram, H(n)."),
        "note": "Python's hash()/frozenset trusted (model hash = reduced item list); axioms: none.",
        "design": "5/C05",
    },
    "C06": {
        "text": ("Theorems: aggregate_weighted returns exactly the weighted mixture of its branches (integer form and "
                 "normalised rational form), zero-total/empty histogram branches are dropped and the rest renormalised; "
                 "foreach / @expandable with any non-recursive callback (an arbitrary function of the tuple of source "
                 "results) is the lowest-terms reduction of that aggregate over the Cartesian product of source results "
                 "weighted by the product of counts; pool sources enumerate by C02's proved rolls_with_counts. "
                 "Correspondence: 1-3 sources of every kind x lookup-table callbacks x every positional/keyword split, "
                 "aggregate_weighted directly, deprecated P.foreach/H.foreach."),
        "note": "callbacks in the correspondence are finite lookup tables; axioms: none.",
        "design": "5/C06",
    },
    "C07": {
        "text": ("Theorems: the ContextVar-threaded evaluator equals an evaluator with explicit (inherited limit, depth, "
                 "path probability) parameters, nested calls running at depth+1 with probability * count/total over all "
                 "sources and the enclosing limit inherited; the sentinel is returned exactly when depth >= L resp. "
                 "probability <= e; limit 0 gives the sentinel alone, the default is 1, -1 is unbounded, illegal limits "
                 "(z < -1, q <= 0, q >= 1, non-numbers) raise before evaluation; below the cut-off the result is the "
                 "aggregate (exact mixture by C06) of the expanded and sentinel branches. Correspondence on random "
                 "recursive mechanics with limits on the boundary of reachable branch probabilities."),
        "note": "PARTIAL: the real interpreter stack limit (RecursionError) is modelled by fuel and not exercised; for heterogeneous pool sources a 'branch' is one yielded (roll, count) pair (see DESIGN interpretation note); axioms: none.",
        "design": "5/C07",
    },
    "C08": {
        "text": ("Theorems: explode(h, pred, n) is the lowest-terms reduction of the literal n-bounded re-roll recursion "
                 "(errors included), default limit 1, limit 0 and the empty histogram give back h, H.substitute is the "
                 "same recursion with coalesce per expanded branch, both limits rejected, the deprecated H.explode equals "
                 "explode with the default predicate unless the histogram has exactly one face, where it returns h "
                 "(refuted statement C08_deprecated_spelling_refuted_on_single_face = known finding K1). Correspondence "
                 "over histograms x predicates x limits x expand/coalesce tables and the three spellings."),
        "note": "PARTIAL: stack limit modelled by fuel; inf*outcome of the single-face special case is outside the rational domain; axioms: none.",
        "design": "5/C08",
    },
    "C09": {
        "text": ("Theorems: order_stat_for_n_at_pos has exactly the brute-force counts of the value at that position "
                 "(the same sum C03 proves for (n@P(h)).h(pos)); summed over positions n*h[z]*total^(n-1); "
                 "exactly_k_times_in_n equals brute force and the count of k in n@(h.eq(o)); appearances_in_rolls is the "
                 "histogram of how many dice show o; the per-instance cache never changes an answer for any call history. "
                 "Correspondence with interleaved call histories on shared objects."),
        "note": "math.comb = Pascal binomial; the instance cache is an association list; axioms: none.",
        "design": "5/C09",
    },
    "C10": {
        "text": ("Theorems over choice trees (one RNG.choices question at a time, answered fairly): h.roll() returns o with "
                 "probability h[o]/total (0 for zero-count outcomes; 0 is returned without a question for zero-total "
                 "histograms), p.roll() returns each sorted roll with probability brute-force count/total = the counts "
                 "rolls_with_counts enumerates (C02), asking exactly one question per die with that die's own outcomes "
                 "and weights. Correspondence: a scripted random.Random installed as dyce.rng.RNG explores EVERY "
                 "positive-weight answer sequence; questions and results must equal the model's scripted run; generator "
                 "installed after import and swapped between calls; equally seeded generators reproduce."),
        "note": "PARTIAL: the fairness of random.Random.choices is the stated assumption (the chooser is an oracle); axioms: none.",
        "design": "5/C10",
    },
    "C11": {
        "text": ("Theorem: for every roller tree (value, pool, repeat, binary/unary, selection, filter, substitution with "
                 "REPLACE/APPEND and any depth; operators, predicates and expansions arbitrary functions) and every "
                 "observable of the roll, the expectation under a fair random source equals the expectation under the "
                 "enumeration of the same expression with exact probabilities, failures included; the enumeration has "
                 "mass one. Correspondence: every positive-weight answer path of generated trees, questions asked and "
                 "outcome values (tombstones included) against the scripted model run, and the induced exact distribution "
                 "against an independent enumerator."),
        "note": "PARTIAL: fairness of random.Random.choices assumed; substitution expansions restricted to keep / fixed outcome / re-roll the source; axioms: none.",
        "design": "5/C11",
    },
    "C12": {
        "text": ("Theorems on a heap model of the object graph (outcome and roll cells with ids, late association of "
                 "outcomes with rolls, euthanize/adopt): for every roller tree, every answer script and every starting "
                 "heap the returned roll is complete (every outcome reachable through sources has a roll; every live "
                 "outcome of every source roll is kept or a transitive source of a kept outcome), carries the producing "
                 "roller, its source rolls are the children's rolls in order, its recorded values are those of the "
                 "value-level semantics (C11), and every outcome reachable from ANY allocated roll has a roll; every "
                 "allocated roll is complete except copies made by Roll.adopt inside SubstitutionRoller - the full "
                 "statement is REFUTED there (C12_full_statement_refuted), confirmed on the implementation and recorded "
                 "as known finding K2. Correspondence: on every answer path the real object graph is checked against the "
                 "property directly and its projection compared with the model's record; dyce.r.walk is compared with "
                 "an independent traversal of the same graph (visited sets and parents) from the roll, an outcome and "
                 "the roller."),
        "note": "PARTIAL: object identity is modelled by heap ids, the comparison uses a tree projection of the graph; set iteration order of excluded indexes taken as ascending; dyce.r.walk is not modelled in Coq (checked against a Python traversal only); axioms: none.",
        "design": "5/C12",
    },
    "C13": {
        "text": ("Theorems: a memo table keyed by K answers every history of calls like first calls iff K determines the "
                 "answer (both directions); the repaired key of the process-wide partial-selection memo (exact typed items) "
                 "does; the key the pinned code used (H.__eq__/__hash__) is REFUTED with vm_compute witnesses "
                 "(representation twins 1 vs 1.0, zero-count padding); the per-instance order-statistic cache is "
                 "transparent for every call history. Correspondence: every generated history over colliding families "
                 "runs warm in one fresh interpreter and each query cold in its own fresh interpreter; answers must be "
                 "identical including outcome types; selection sums also against the cache-free proved model."),
        "note": "functools.cache modelled as a finite map on a key function; 'cold' = a fresh interpreter process; axioms: none.",
        "design": "5/C13",
    },
    "C14": {
        "text": ("Theorems over the interpreter model with the ContextVar as threaded state and an injected exception at "
                 "an arbitrary callback invocation index: the context is restored after every call (normal or "
                 "exceptional exit, any nesting); a later top-level evaluation equals the one from a fresh interpreter; the "
                 "injected exception reaches the caller unchanged if reached, else the run is the fault-free one; only "
                 "RecursionError is converted into the sentinel. Correspondence: marker exception raised at every kind of "
                 "invocation index of generated mechanics (nested, pool sources), exception identity and follow-up probes "
                 "(default limit, explicit limits, explode, substitute) compared with stateless oracle and model."),
        "note": "PARTIAL: thread-level ContextVar behaviour and the real interpreter stack limit (modelled by fuel) are not exhibited; axioms: none.",
        "design": "5/C14",
    },
    "C15": {
        "text": ("Theorems on a store model (mappings, H objects referring to a mapping - H(h) shares it -, P objects "
                 "referring to H objects, R objects): no operation, successful or failing, changes what can be observed "
                 "of an existing object, for every sequence of operations (no side condition on the operations); the "
                 "store only grows; a failing operation leaves the store unchanged; item assignment is TypeError; an "
                 "alias and its input stay as they were whatever is done later. Correspondence: random operation "
                 "sequences over a shared growing population with full snapshots (items with types, totals, dice, "
                 "roller reprs) of EVERY existing object after EVERY step, incl. queries, evaluations, rolls and failing "
                 "calls; resolved operations replayed in the model, result ids / exceptions and final observations compared."),
        "note": "PARTIAL: object identity is modelled by store ids; mutation through private attributes or C extensions cannot be exhibited by the model (only public observations are compared); axioms: none.",
        "design": "5/C15",
    },
    "C16": {
        "text": ("Theorems over exact rationals: distribution lists every outcome once in order with (count, total), "
                 "probabilities sum to 1, variance = E[(X-mu)^2], mean/variance invariant under scaling and zero padding "
                 "and dependent only on the count function, additive for independent sums. Correspondence: exact where "
                 "Python is exact (Fraction outcomes, distribution()), tolerance for float paths."),
        "note": "PARTIAL: floating-point rounding and sqrt (stdev) are not modelled; float results are compared within a tolerance; axioms: none.",
        "design": "5/C16",
    },
    "C17": {
        "text": ("Theorems about the wrapper over an ABSTRACT deterministic bit generator: getrandbits(k) lies in "
                 "[0, 2**k) for every k >= 0 and every byte string the generator may return, negative k is rejected, "
                 "randbytes has the requested length; with the cached gauss value part of the state, setstate(getstate()) "
                 "at any point replays the continuation of every program over random/gauss/getrandbits/randbytes and "
                 "re-seeding restarts a fresh stream; the pinned state capture (gauss_next ignored) is REFUTED by a "
                 "vm_compute witness. Correspondence: (a) getrandbits against the model fed with bytes recorded through "
                 "a proxy generator; (b) implementation against implementation: call sequences over all sampling "
                 "methods, snapshots at every position, alike-seeded twins, re-seeding, interleaved instances, all seed "
                 "kinds, NumPy-backed and stdlib; (c) the dyce.rng.RNG default."),
        "note": "PARTIAL: NumPy's Generator and the stdlib sampling algorithms are oracles; only the wrapper and the state-capture argument are proved; axioms: none.",
        "design": "5/C17",
    },
    "C18": {
        "text": ("Theorems (all inputs, any outcome type with a decidable total order): a successful draw changes "
                 "exactly the requested counts, keeps every outcome, leaves no negative count and moves the total by the "
                 "net amount; it is rejected iff some outcome is over-drawn; any sequence of draws conserves the "
                 "bookkeeping; a deck drawn against itself is exhausted with every outcome kept at zero, putting the negated request back restores every count, two draws commute and equal the draw of the combined request; accumulate/zero_fill/remove specs, zero_fill result == original. Correspondence ties the model of H.draw's Counter "
                 "steps to the code on generated requests and draw sequences."),
        "note": "Counter arithmetic and H.__init__ accumulation are modelled (finite-map semantics); axioms: none.",
        "design": "5/C18",
    },
}


def main():
    checks = []
    for pid in ALL:
        if pid not in CHECKS:
            continue
        c = CHECKS[pid]
        checks.append({
            "property_id": pid,
            "quick_cmd": f"./check {pid} --tier quick",
            "thorough_cmd": f"./check {pid} --tier thorough",
            "evidence_file": f"/verif/evidence/{pid}.json",
            "replay_cmd_template": f"./check {pid} --replay {{path}}",
            "engine": "coq-model-correspondence",
            "level_claimed": {"category": "proof", "text": c["text"], "design_ref": c["design"]},
            "level_note": COMMON_NOTE + c["note"],
            "technique": c.get("technique", "Coq theorems about a Gallina model + differential correspondence (vm_compute) against the implementation"),
        })
    na = [{"property_id": pid, "reason": NA.get(pid, "check not built yet in this session (planned, see DESIGN.md section 5)")}
          for pid in ALL if pid not in CHECKS]
    m = {
        "version": 1,
        "setup_cmd": "./setup.sh",
        "hooks": {"guard": "POSITA_DYCE_VERIF", "enable": "none needed: every observable is public API (guard reserved, unused)",
                  "baseline_off_cmd": "cd /repo && /venv/bin/python -m pytest -ra -q -p no:cacheprovider --timeout=900 --continue-on-collection-errors",
                  "source_commits": [], "add_only": True},
        "engines": [{"name": "coq-model-correspondence", "path": "/verif/coq + /verif/harness",
                     "serves_properties": [c["property_id"] for c in checks],
                     "kind_free_text": "Coq 8.16 development (model, specification, theorems) and a Python differential harness evaluating the model by vm_compute"}],
        "checks": checks,
        "notes": "See DESIGN.md. Fix commits in /repo are listed in known_findings.json as fixed entries.",
        "not_applicable": na,
    }
    (VERIF / "MANIFEST.json").write_text(json.dumps(m, indent=1) + "\n")


NA = {}

if __name__ == "__main__":
    main()
