"""Seeded generators shared by the property modules.  Outcomes are canonical
[num, den] pairs; histograms are ascending lists [[outcome, count], ...]."""
from fractions import Fraction

INT_POOL = list(range(-3, 8))
FRAC_POOL = [Fraction(1, 2), Fraction(-1, 2), Fraction(3, 2), Fraction(1, 3), Fraction(-5, 3), Fraction(7, 4)]


def q(x):
    f = Fraction(x)
    return [f.numerator, f.denominator]


def outcome(rng, frac_p=0.15):
    if rng.random() < frac_p:
        return q(rng.choice(FRAC_POOL))
    return q(rng.choice(INT_POOL))


def count(rng, style):
    if style == "unit":
        return 1
    if style == "small":
        return rng.choice([0, 1, 1, 2, 3])
    if style == "pos":
        return rng.choice([1, 1, 2, 3, 5])
    if style == "big":
        return rng.choice([0, 1, 2 ** 40 + 7, 2 ** 70, 3 * 2 ** 64 + 1, 12345678901234567890])
    raise ValueError(style)


def hist(rng, max_faces=5, style=None, frac_p=0.15, min_faces=0, scale_p=0.2):
    style = style or rng.choice(["unit", "small", "small", "pos", "big"])
    n = rng.randint(min_faces, max_faces)
    outs = {}
    tries = 0
    while len(outs) < n and tries < 50:
        o = outcome(rng, frac_p)
        outs[Fraction(o[0], o[1])] = o
        tries += 1
    items = [[outs[k], count(rng, style)] for k in sorted(outs)]
    if rng.random() < scale_p:
        k = rng.choice([2, 3, 6])
        items = [[o, c * k] for o, c in items]
    return items


def hist_pos(rng, **kw):
    """a histogram with positive total"""
    for _ in range(20):
        h = hist(rng, min_faces=1, **kw)
        if sum(c for _, c in h) > 0:
            return h
    return [[q(1), 1]]


def py_outcome(o):
    """the Python object for a canonical outcome: int when integral, else Fraction"""
    if o[1] == 1:
        return int(o[0])
    return Fraction(o[0], o[1])


def py_hist_dict(h):
    return {py_outcome(o): c for o, c in h}
