"""C07 - recursion limits cut expansion exactly where documented."""
from fractions import Fraction

from common import clist
import evalcommon as ec
import gens
import pools
from props.C06 import _cans

PID = "C07"
CODES = True
RULE = ("corpus first; then random finite-state recursive mechanics (1-3 decorated functions over 1-2 sources of any "
        "kind; table entries: outcome, histogram, recursive call with or without an explicit limit, call + constant, "
        "sum of two calls) evaluated with integral limits 0..3 and -1 (acyclic mechanics only), True/False, Fraction "
        "and float limits incl. values equal to reachable branch probabilities, and illegal limits; sentinels are "
        "distinguishable outcomes.  Observable: the top-level histogram (count function, lowest terms) or the "
        "exception class.  Non-trivial: at least one recursive table entry is reached; distinct case JSON.")
ASSUMPTIONS = [
    "Python's interpreter stack limit (RecursionError -> sentinel) is modelled by fuel and not exercised by the cases",
    "callbacks are finite lookup tables (the theorems quantify over arbitrary Gallina functions)",
]


def _two_pos_faces(rng):
    for _ in range(20):
        s = ec.gen_source(rng, kinds=("h", "h", "h", "p", "pw"))
        try:
            res = ec.src_results(s)
        except IndexError:
            continue
        if sum(1 for _, c in res if c > 0) >= 2 and len(res) <= 6:
            return s
    return {"h": [[gens.q(1), 1], [gens.q(2), 1]]}


def gen_mech(rng, acyclic, recerr_p=0.04, try_p=0.2, try_classes=("ValueError", "Exception")):
    ns = rng.choice([1, 1, 2, 3])
    states = []
    for i in range(ns):
        nsrc = rng.choice([1, 1, 2])
        srcs = [_two_pos_faces(rng) for _ in range(nsrc)]
        if nsrc == 2 and rng.random() < 0.2:
            import copy
            srcs[1] = copy.deepcopy(srcs[0])      # one object passed twice
        keys = list(ec.all_keys(srcs))
        if len(keys) > 12:
            srcs = srcs[:1]
            keys = list(ec.all_keys(srcs))
        table = []
        for k in keys:
            r = rng.random()
            targets = list(range(i + 1, ns)) if acyclic else list(range(ns))
            if r < recerr_p:
                t = ["recerr"]          # this branch bottoms out the stack: it alone becomes the sentinel
            elif r < 0.45 or not targets:
                t = ec.gen_value_term(rng)
            else:
                tgt = rng.choice(targets)
                lim = None if rng.random() < 0.85 else rng.choice([["int", 1], ["int", 2], ["frac", 1, 4], ["int", 0]])
                call = ["call", tgt, lim]
                r2 = rng.random()
                if r2 < 0.4:
                    t = call
                elif r2 < 0.8:
                    t = ["addc", gens.q(rng.randint(1, 3)), call]
                else:
                    t = ["add", call, ["call", rng.choice(targets), None]]
            table.append([k, t])
        # sentinels: distinguishable outcomes; sometimes unreduced or two-faced (a top-level result must
        # still come back in lowest terms, also when it is the sentinel alone)
        sent = rng.choice([[[gens.q(100 + i), 1]], [[gens.q(100 + i), 1]], [[gens.q(100 + i), 4]],
                           [[gens.q(100 + i), 2], [gens.q(200 + i), 6]]])
        states.append({"srcs": srcs, "npos": rng.randint(0, len(srcs)), "sentinel": sent, "table": table})
    if rng.random() < try_p:
        # a callback that protects a nested evaluation with try/except and falls back to another nested call: the
        # protected mechanic ("bomb") fails one level further down (illegal nested limit -> ValueError, or a marker
        # exception); the fallback must inherit the ENCLOSING limit, depth and precision
        b = len(states)
        boom = rng.choice([["call", 0, ["frac", 3, 2]], ["call", 0, ["int", -2]]] + ([["raise"]] if "Exception" in try_classes else []))
        states.append({"srcs": [{"h": [[gens.q(1), 1], [gens.q(2), rng.choice([1, 3])]]}], "npos": 1, "sentinel": [[gens.q(150), 1]],
                       "table": [[[[gens.q(1)]], ["out", gens.q(1)]], [[[gens.q(2)]], boom]]})
        cls = "Exception" if boom == ["raise"] else rng.choice(list(try_classes))
        rows = [(i, j) for i, st in enumerate(states[:-1]) for j, (_, t) in enumerate(st["table"]) if t[0] in ("call", "addc", "add")]
        if not rows:
            rows = [(0, 0)] if states[0]["table"] else []
        for i, j in rows[:1] if rng.random() < 0.5 else rng.sample(rows, min(len(rows), 2)):
            orig = states[i]["table"][j][1]
            if orig[0] not in ("call", "addc", "add"):
                orig = ["call", rng.randrange(len(states) - 1), None]
            states[i]["table"][j][1] = ["try", cls, ["addc", gens.q(1), ["call", b, None]], orig]
    return {"states": states}


def _reach(mech):
    """probabilities of single branches and products of two: candidates for boundary limits"""
    ps = set()
    for st in mech["states"]:
        tot = 1
        for s in st["srcs"]:
            tot *= ec.src_total(s)
        import itertools
        for combo in itertools.product(*[ec.src_results(s) for s in st["srcs"]]):
            c = 1
            for _, x in combo:
                c *= x
            if 0 < c < tot:
                ps.add(Fraction(c, tot))
    ps = sorted(ps)
    two = {a * b for a in ps[:4] for b in ps[:4]}
    return [p for p in sorted(set(ps) | two) if 0 < p < 1][:10]


def gen_cases(rng, tier):
    n = 250 if tier == "quick" else 3000
    cases = []
    for i in range(n):
        acyclic = rng.random() < 0.3
        mech = gen_mech(rng, acyclic)
        reach = _reach(mech)
        lim = ec.gen_limit(rng, reach)
        if lim and lim[0] == "int" and lim[1] == -1 and not acyclic:
            lim = ["int", 3]
        if lim and lim[0] in ("frac", "float") and 0 < Fraction(lim[1], lim[2]) < Fraction(1, 40):
            lim = ["frac", 1, 36]
        case = {"kind": "mech", "mech": mech, "calls": [[0, lim]], "acyclic": acyclic}
        # keep the evaluation small: dry-run the path enumeration under a step budget
        if ec.oracle_calls(mech, [(0, lim)], budget=3000) is None:
            case["calls"] = [[0, ["int", 2]]]
            if ec.oracle_calls(mech, [(0, ["int", 2])], budget=3000) is None:
                continue
        cases.append(case)
    cases += _spelling_cases(rng, max(12, n // 12))
    return cases


_C08_KINDS = ("explode", "substitute", "h_explode")


def _c08():
    from props import C08
    return C08


def _spelling_cases(rng, n):
    """the deprecated spellings H.explode / H.substitute and their pool versions P.explode / P.substitute with limits
    exactly on the boundary (0, False, 1) and with the illegal fractional 0: decided by the C08 machinery"""
    out = []
    for _ in range(n):
        h = gens.hist(rng, max_faces=3, style=rng.choice(["unit", "pos"]), frac_p=0.0, min_faces=2)
        md = rng.choice([["int", 0], ["int", 0], ["bool", False], ["int", 1], ["int", 2], None])
        pl = None
        if md is None:
            pl = rng.choice([["frac", 0, 1], ["float", 0, 1], ["frac", 1, 4]])
        via_pool = rng.random() < 0.7
        if rng.random() < 0.5:
            out.append({"kind": "h_explode", "h": h, "md": md, "pl": pl, "via_pool": via_pool})
        else:
            out.append({"kind": "substitute", "h": h, "table": [[h[-1][0], ["hist", [list(x) for x in h]]]],
                        "coalesce": rng.choice(["replace", "add"]), "md": md, "pl": pl, "via_pool": via_pool})
    for _ in range(max(4, n // 3)):
        m = rng.choice([5, 10, 10, 20, 11, 13])
        k = rng.choice([1, 2, 2, 3]) if m <= 11 else rng.choice([1, 2])
        hm = [[gens.q(j), 1] for j in range(1, m + 1)]
        lim = ["frac", 1, m ** k]
        if rng.random() < 0.5:
            out.append({"kind": "explode", "h": hm, "sub": None, "lim": lim, "inf": None})
        else:
            out.append({"kind": "h_explode", "h": hm, "md": None, "pl": lim, "via_pool": rng.random() < 0.3})
    return [c for c in out if _c08()._safe(c)]


def impl_run(case):
    if case.get("kind") in _C08_KINDS:
        return _c08().impl_run(case)
    answers, ninv = ec.run_mech_impl(case["mech"], [tuple(c) for c in case["calls"]])
    return {"answers": answers, "ninv": ninv}


def coq_check(case, r):
    if case.get("kind") in _C08_KINDS:
        return _c08().coq_check(case, r)
    if "answers" not in r:
        return "MISMATCH"
    exps = [_cans(a) for a in r["answers"]]
    if any(e is None for e in exps):
        return "MISMATCH"
    return f"chk_mech {ec.cmech(case['mech'])} None {ec.ccalls(case['calls'])} {clist(exps)}"


def coq_show(case):
    return f"run_calls {ec.cmech(case['mech'])} None (None, 0%nat) {ec.ccalls(case['calls'])}"


def _frac_limits(case):
    lims = [c[1] for c in case["calls"]]
    def walk(t):
        if t[0] == "call":
            lims.append(t[2])
        elif t[0] == "addc":
            walk(t[2])
        elif t[0] == "add":
            walk(t[1]); walk(t[2])
        elif t[0] == "try":
            walk(t[2]); walk(t[3])
    for st in case["mech"]["states"]:
        for _, t in st["table"]:
            walk(t)
    return any(l and l[0] in ("frac", "float") for l in lims)


def _split_rolls_possible(case):
    """a heterogeneous pool may yield one roll in several (roll, count) pieces; each piece is a branch
    of its own for the precision test (C02 speaks of pairs 'aggregated per roll'), so the
    path-probability oracle, which merges them, does not apply"""
    for st in case["mech"]["states"]:
        for s in st["srcs"]:
            dice = s.get("p") or s.get("pw")
            if dice:
                eff = pools.effective_dice(dice)
                if len({str(d) for d in eff}) > 1:
                    return True
    return False


def oracle(case):
    if case.get("kind") in _C08_KINDS:
        return _c08().oracle(case)
    if _frac_limits(case) and _split_rolls_possible(case):
        return None
    o = ec.oracle_calls(case["mech"], [tuple(c) for c in case["calls"]])
    return None if o is None else {"answers": [{"dist": ec.dist_json(a["dist"])} if "dist" in a else a for a in o]}


def agree(case, r, o):
    if case.get("kind") in _C08_KINDS:
        return _c08().agree(case, r, o)
    if "answers" not in r:
        return False
    oo = [{"dist": {Fraction(*k): Fraction(*v) for k, v in a["dist"]}} if "dist" in a else a for a in o["answers"]]
    return ec.agree_answers(r["answers"], oo)


def _has_call(t):
    return (t[0] == "call" or (t[0] == "addc" and _has_call(t[2])) or (t[0] == "add" and (_has_call(t[1]) or _has_call(t[2])))
            or (t[0] == "try" and (_has_call(t[2]) or _has_call(t[3]))))


def nontrivial(case, r):
    if case.get("kind") in _C08_KINDS:
        return True
    return any(_has_call(t) for _, t in case["mech"]["states"][0]["table"]) and "ok" in (r.get("answers") or [{}])[0]


def case_class(case, r):
    if case.get("kind") in _C08_KINDS:
        return "spelling:" + case["kind"] + (":pool" if case.get("via_pool") else "") + (":" + r["exc"] if "exc" in r else "")
    lim = case["calls"][0][1]
    a = (r.get("answers") or [{}])[0]
    return "lim:" + ("none" if lim is None else lim[0] + (str(lim[1]) if lim[0] == "int" else "")) + (":" + a["exc"] if "exc" in a else "")


def shrink_candidates(case):
    import copy
    if case.get("kind") in _C08_KINDS:
        return
    m = case["mech"]
    for i, st in enumerate(m["states"]):
        for j, (k, t) in enumerate(st["table"]):
            if t[0] != "out":
                c = copy.deepcopy(case)
                c["mech"]["states"][i]["table"][j][1] = ["out", [0, 1]]
                yield c


def neighbours(case):
    yield from shrink_candidates(case)
