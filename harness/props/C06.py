"""C06 - dependent-term evaluation computes the exact weighted mixture."""
from fractions import Fraction

from common import chist, clist, cq, cres, cz, hist_items, qv
import evalcommon as ec
import gens
import pools

PID = "C06"
CODES = True
RULE = ("corpus first; then 1-3 independent sources of every kind (histogram, pool, pool with selection; zero-count "
        "faces; weighted) x callbacks as random lookup tables over the full product of source results returning an "
        "outcome / a histogram of any scale incl. zero-count entries / the empty or a zero-total histogram, under "
        "every positional-keyword split, through @expandable and foreach; aggregate_weighted called directly; the "
        "deprecated P.foreach / H.foreach.  Observable: the returned histogram (count function; lowest terms).  "
        "Non-trivial: at least two branches of which one returns a histogram; distinct case JSON.")
ASSUMPTIONS = [
    "callbacks are finite lookup tables (the theorems quantify over arbitrary Gallina functions)",
    "rolls_with_counts assumptions of C02 for pool sources",
]


def gen_mech(rng, nsrc=None):
    nsrc = nsrc or rng.choice([1, 1, 2, 2, 3])
    srcs = [ec.gen_source(rng) for _ in range(nsrc)]
    # sources that compare equal but are represented differently (unreduced counts, zero-count faces)
    if nsrc >= 2 and "h" in srcs[0] and rng.random() < 0.35:
        srcs[1] = ec.twin_of(rng, srcs[0])
    elif nsrc >= 2 and rng.random() < 0.25:
        # the very same object passed in two positions (evalcommon builds identical descriptions once)
        import copy
        srcs[-1] = copy.deepcopy(srcs[0])
    if rng.random() < 0.2:
        # a pool of dice with the SAME faces but different (non-proportional) weights: unlike dice that only look
        # alike by their outcomes; also under a selection
        a = gens.hist(rng, max_faces=3, style=rng.choice(["unit", "pos"]), frac_p=0.0, min_faces=2)
        b = [list(x) for x in a]
        b[-1][1] += rng.choice([1, 3])
        dice = [a, b] if rng.random() < 0.5 else [b, a]
        if rng.random() < 0.5:
            srcs[0] = {"p": dice}
        else:
            srcs[0] = {"pw": dice, "which": rng.choice([[{"i": 0}], [{"i": -1}], [{"s": [None, None, None]}]])}
    keys = list(ec.all_keys(srcs))
    if len(keys) > 60:
        srcs = srcs[:1]
        keys = list(ec.all_keys(srcs))
    table = [[k, ec.gen_value_term(rng)] for k in keys]
    if rng.random() < 0.2 and table:
        # the callback itself calls the deprecated (context-free) P.foreach / H.foreach
        kind = rng.choice(["p", "h"])
        if kind == "p":
            dice, _ = pools.gen_pool(rng, max_dice=2, max_faces=2, frac_p=0.0)
            inner = [dice]
        else:
            inner = [[gens.hist(rng, max_faces=3, min_faces=1, style="small")]]
        itbl = [[k, ec.gen_value_term(rng)] for k in ec.all_keys([{"p": d} for d in inner])]
        j = rng.randrange(len(table))
        table[j][1] = ["dep", kind, inner, itbl]
    return {"states": [{"srcs": srcs, "npos": rng.randint(0, len(srcs)), "sentinel": [[[0, 1], 1]], "table": table}]}


def gen_cases(rng, tier):
    n = 300 if tier == "quick" else 4000
    cases = []
    for i in range(n):
        r = i % 10
        if r < 7:
            cases.append({"kind": "mech", "mech": gen_mech(rng), "calls": [[0, None]], "foreach": rng.random() < 0.5})
        elif r == 7:
            ws = []
            for _ in range(rng.randint(0, 5)):
                ws.append([ec.gen_value_term(rng), rng.choice([0, 1, 1, 2, 3, 5])])
            cases.append({"kind": "aggw", "ws": ws})
        elif r == 8:
            # deprecated P.foreach over pools (keyword only)
            npools = rng.choice([1, 2])
            ps = []
            for _ in range(npools):
                dice, _ = pools.gen_pool(rng, max_dice=2, max_faces=2, frac_p=0.0)
                ps.append(dice)
            srcs = [{"p": d} for d in ps]
            table = [[k, ec.gen_value_term(rng)] for k in ec.all_keys(srcs)]
            cases.append({"kind": "p_foreach", "pools": ps, "table": table})
        else:
            hs = [gens.hist(rng, max_faces=3, min_faces=1, style="small") for _ in range(rng.choice([1, 2]))]
            srcs = [{"h": h} for h in hs]
            table = [[k, ec.gen_value_term(rng)] for k in ec.all_keys(srcs)]
            cases.append({"kind": "h_foreach", "hs": hs, "table": table})
    return cases


def _term_py(t):
    from dyce import H
    if t[0] == "out":
        return gens.py_outcome(t[1])
    return H(gens.py_hist_dict(t[1]))


def impl_run(case):
    from dyce import H, P
    from dyce.evaluation import aggregate_weighted
    k = case["kind"]
    try:
        if k == "mech":
            answers, ninv = ec.run_mech_impl(case["mech"], [tuple(c) for c in case["calls"]], use_foreach=case["foreach"])
            return {"answers": answers, "ninv": ninv}
        if k == "aggw":
            r = aggregate_weighted((_term_py(t), c) for t, c in case["ws"])
            return {"ok": hist_items(r)}
        if k == "p_foreach":
            table = {tuple(tuple(tuple(o) for o in r) for r in key): term for key, term in case["table"]}
            names = [f"k{j}" for j in range(len(case["pools"]))]

            def cb(**kw):
                key = tuple(tuple(tuple(qv(x)) for x in kw[nm]) for nm in names)
                t = table.get(key)
                return 0 if t is None else _term_py(t)
            r = P.foreach(cb, **{nm: pools.py_pool(d) for nm, d in zip(names, case["pools"])})
            return {"ok": hist_items(r)}
        if k == "h_foreach":
            table = {tuple(tuple(tuple(o) for o in r) for r in key): term for key, term in case["table"]}
            names = [f"k{j}" for j in range(len(case["hs"]))]

            def cb(**kw):
                key = tuple((tuple(qv(kw[nm])),) for nm in names)
                t = table.get(key)
                return 0 if t is None else _term_py(t)
            r = H.foreach(cb, **{nm: H(gens.py_hist_dict(h)) for nm, h in zip(names, case["hs"])})
            return {"ok": hist_items(r)}
    except (ValueError, TypeError, IndexError, ZeroDivisionError) as e:
        return {"exc": type(e).__name__}


def _cans(a):
    if "exc" in a:
        if a["exc"] == "UserError":
            return f"(Err (UserError {7 if a.get('which') == 'fault' else 5}))"
        if a["exc"] in ("ValueError", "TypeError", "IndexError", "ZeroDivisionError", "RecursionError"):
            return f"(Err {a['exc']})"
        return None
    return f"(Ok {chist(a['ok'])})"


def _cval(t):
    return f"(VOut {cq(t[1])})" if t[0] == "out" else f"(VHist {chist(t[1])})"


def coq_check(case, r):
    k = case["kind"]
    if k == "mech":
        if "answers" not in r:
            return "MISMATCH"
        exps = [_cans(a) for a in r["answers"]]
        if any(e is None for e in exps):
            return "MISMATCH"
        return f"chk_mech {ec.cmech(case['mech'])} None {ec.ccalls(case['calls'])} {clist(exps)}"
    e = _cans(r) if ("ok" in r or "exc" in r) else None
    if e is None:
        return "MISMATCH"
    if k == "aggw":
        return "chk_aggw %s %s" % (clist(f"({_cval(t)}, {cz(c)})" for t, c in case["ws"]), e)
    if k == "p_foreach":
        tbl = clist(f"({ec.ckey(key)}, {_cval(t)})" for key, t in case["table"])
        return "chk_p_foreach %s %s %s" % (clist(clist(chist(h) for h in d) for d in case["pools"]), tbl, e)
    if k == "h_foreach":
        tbl = clist(f"({ec.ckey(key)}, {_cval(t)})" for key, t in case["table"])
        return "chk_p_foreach %s %s %s" % (clist(clist([chist(h)]) for h in case["hs"]), tbl, e)


def coq_show(case):
    if case["kind"] == "mech":
        return f"run_calls {ec.cmech(case['mech'])} None (None, 0%nat) {ec.ccalls(case['calls'])}"
    if case["kind"] == "aggw":
        return "aggw VO %s" % clist(f"({_cval(t)}, {cz(c)})" for t, c in case["ws"])
    return None


def _mix(branches):
    """branches: list of (prob weight (Fraction or int), term) -> normalised mixture"""
    mix, wsum = {}, Fraction(0)
    for w, t in branches:
        if t[0] == "out":
            d = {Fraction(*t[1]): Fraction(1)}
        else:
            d = ec.dist_of_items(t[1])
            if not d:
                continue
        wsum += w
        for x, px in d.items():
            mix[x] = mix.get(x, 0) + w * px
    if wsum == 0:
        return {}
    return {x: p / wsum for x, p in mix.items() if p}


def oracle(case):
    k = case["kind"]
    if k == "mech":
        o = ec.oracle_calls(case["mech"], [tuple(c) for c in case["calls"]])
        return None if o is None else {"answers": [{"dist": ec.dist_json(a["dist"])} if "dist" in a else a for a in o]}
    if k == "aggw":
        return {"dist": ec.dist_json(_mix([(Fraction(c), t) for t, c in case["ws"]]))}
    srcs = [{"p": d} for d in case["pools"]] if k == "p_foreach" else [{"h": h} for h in case["hs"]]
    import itertools
    table = {tuple(tuple(tuple(o) for o in r) for r in key): term for key, term in case["table"]}
    brs = []
    for combo in itertools.product(*[ec.src_results(s) for s in srcs]):
        cnt = 1
        for _, c in combo:
            cnt *= c
        key = tuple(tuple(tuple(pools.fq(x)) for x in r) for r, _ in combo)
        brs.append((Fraction(cnt), table.get(key, ["out", [0, 1]])))
    return {"dist": ec.dist_json(_mix(brs))}


def agree(case, r, o):
    import math
    if case["kind"] == "mech":
        if "answers" not in r:
            return False
        oo = [{"dist": {Fraction(*k): Fraction(*v) for k, v in a["dist"]}} if "dist" in a else a for a in o["answers"]]
        return ec.agree_answers(r["answers"], oo)
    if "ok" not in r:
        return False
    want = {Fraction(*k): Fraction(*v) for k, v in o["dist"]}
    if ec.dist_of_items(r["ok"]) != want:
        return False
    if case["kind"] in ("p_foreach", "h_foreach"):
        counts = [c for _, c in r["ok"]]
        return not counts or (min(counts) > 0 and math.gcd(*counts) == 1)
    return True


def nontrivial(case, r):
    if case["kind"] == "mech":
        tbl = case["mech"]["states"][0]["table"]
        return len(tbl) >= 2 and any(t[0] in ("hist", "dep") and t[1] for _, t in tbl)
    if case["kind"] == "aggw":
        return len(case["ws"]) >= 2 and any(t[0] == "hist" and t[1] for t, _ in case["ws"])
    return len(case["table"]) >= 2


def case_class(case, r):
    k = case["kind"]
    if k == "mech":
        st = case["mech"]["states"][0]
        kinds = "".join("h" if "h" in s else "p" if "p" in s else "w" for s in st["srcs"])
        return f"mech:{kinds}:pos{st['npos']}" + (":foreach" if case["foreach"] else "")
    return k
