"""C18 - deck-style draws and count bookkeeping (H.draw, accumulate, zero_fill, remove)."""
from fractions import Fraction

from common import chist, clist, cq, cres, cz, qv, hist_items
import gens

PID = "C18"
RULE = ("corpus first, then seeded structured cases: histograms of 0-6 faces (int/Fraction outcomes, "
        "zero/unit/weighted/2**70 counts, scaled) x draw requests as single outcome / iterable with repeats / "
        "mapping with positive, zero, negative amounts, absent outcomes, over-draws; draw sequences until "
        "exhaustion; draw() with a scripted RNG; accumulate / zero_fill / remove.  A case is non-trivial when "
        "the request touches at least one outcome of a non-empty histogram; distinct = distinct case JSON.")
ASSUMPTIONS = [
    "collections.Counter arithmetic is modelled as finite-map arithmetic (keys of either side survive subtract)",
    "H.__init__ is modelled by sorted-insert accumulation (Base/Hist.v mk); outcomes are exact rationals",
    "h.draw() is run with a scripted dyce.rng.RNG; the fairness of random.choices is not part of this property",
]


def _req_pairs(case):
    form = case["form"]
    if form == "single":
        return [[case["req"], 1]]
    if form == "iter":
        return [[o, 1] for o in case["req"]]
    return [[o, a] for o, a in case["req"]]


def _py_req(case):
    form = case["form"]
    if form == "single":
        return gens.py_outcome(case["req"])
    if form == "iter":
        items = [gens.py_outcome(o) for o in case["req"]]
        style = case.get("iter_style", "list")
        if style == "generator":
            return (x for x in items)           # one-shot iterables are iterables too
        if style == "iter":
            return iter(items)
        if style == "tuple":
            return tuple(items)
        return items
    d = {gens.py_outcome(o): a for o, a in case["req"]}
    style = case.get("map_style", "dict")
    if style == "H" and all(a >= 0 for a in d.values()):
        from dyce import H
        return H(d)                       # a hand dealt earlier is a Mapping of outcome -> amount too
    if style == "proxy":
        import types
        return types.MappingProxyType(d)
    if style == "userdict":
        import collections
        return collections.UserDict(d)
    if style == "chainmap":
        import collections
        return collections.ChainMap(d)
    if style == "counter":
        import collections
        c = collections.Counter()
        c.update(d)
        for k, v in d.items():
            c[k] = v
        return c
    if style == "ordered":
        import collections
        return collections.OrderedDict(reversed(list(d.items())))
    return d


def gen_request(rng, h):
    keys = [o for o, _ in h]
    def pick():
        if keys and rng.random() < 0.8:
            return rng.choice(keys)
        return gens.outcome(rng)
    form = rng.choice(["single", "iter", "iter", "map", "map"])
    if form == "single":
        return {"form": form, "req": pick()}
    if form == "iter":
        return {"form": form, "req": [pick() for _ in range(rng.randint(0, 4))],
                "iter_style": rng.choice(["list", "tuple", "generator", "iter"])}
    ks = {}
    for _ in range(rng.randint(0, 4)):
        o = pick()
        ks[Fraction(o[0], o[1])] = o
    return {"form": form, "req": [[ks[k], rng.choice([-2, -1, 0, 1, 1, 2, 3])] for k in ks],
            "map_style": rng.choice(["dict", "dict", "H", "H", "proxy", "userdict", "chainmap", "counter", "ordered"])}


def gen_cases(rng, tier):
    n = 400 if tier == "quick" else 6000
    cases = []
    for i in range(n):
        h = gens.hist(rng, max_faces=6)
        r = i % 10
        if r < 5:
            c = {"kind": "draw", "h": h}
            c.update(gen_request(rng, h))
        elif r == 5:
            # draw until exhausted (and once more)
            deck = gens.hist(rng, max_faces=4, style="small", min_faces=1)
            cards = [o for o, cnt in deck for _ in range(min(cnt, 3))]
            rng.shuffle(cards)
            extra = [rng.choice(deck)[0]] if rng.random() < 0.5 else []
            if rng.random() < 0.5:
                c = {"kind": "draws", "h": deck, "reqs": [{"form": "single", "req": o} for o in cards + extra]}
            else:
                # deal in hands of 1-2 cards given as one-shot iterables
                seq, hands = cards + extra, []
                while seq:
                    n = rng.randint(1, 2)
                    hands.append({"form": "iter", "req": seq[:n], "iter_style": rng.choice(["generator", "iter", "list"])})
                    seq = seq[n:]
                c = {"kind": "draws", "h": deck, "reqs": hands}
        elif r == 6:
            c = {"kind": "draw_none", "h": gens.hist(rng, max_faces=5, style="small"), "pick": rng.randint(0, 5)}
        elif r == 7:
            c = {"kind": "accumulate", "h": h, "other": gens.hist(rng, max_faces=5), "other_form": rng.choice(["H", "H", "P", "P", "dict", "pairs_iter"])}
            if len(h) >= 3 and rng.random() < 0.4:
                # same number of outcomes, same lowest and highest outcome, different ones in between
                mid = sorted({Fraction(*o) + Fraction(1, 2) for o, _ in h[1:-1]})
                mid = [m for m in mid if Fraction(*h[0][0]) < m < Fraction(*h[-1][0])][:len(h) - 2]
                if len(mid) == len(h) - 2:
                    c["other"] = [[h[0][0], rng.randint(0, 3)]] + [[gens.q(m), rng.randint(1, 3)] for m in mid] + [[h[-1][0], rng.randint(0, 3)]]
        elif r == 8:
            c = {"kind": "zero_fill", "h": h, "outs": [gens.outcome(rng) for _ in range(rng.randint(0, 5))],
                 "outs_style": rng.choice(["list", "iter", "generator", "map", "tuple"])}
            if rng.random() < 0.4 and h:
                # mostly outcomes the histogram already has, a missing one somewhere in between
                c["outs"] = [o for o, _ in h] + [gens.outcome(rng)] + [o for o, _ in h][:1]
                rng.shuffle(c["outs"])
            if len(h) >= 3 and rng.random() < 0.4:
                lo, hi = Fraction(*h[0][0]), Fraction(*h[-1][0])
                c["outs"] = [h[0][0], h[-1][0]] + [gens.q(lo + (hi - lo) * Fraction(j, 7)) for j in rng.sample(range(1, 7), len(h) - 2)]
        else:
            keys = [o for o, _ in h]
            c = {"kind": "remove", "h": h, "o": rng.choice(keys) if keys and rng.random() < 0.7 else gens.outcome(rng)}
        cases.append(c)
    return cases


# ---- implementation side ----------------------------------------------------

def impl_run(case):
    """the operation, plus: the receiver (and a histogram sharing its mapping) still reads as before"""
    from dyce import H
    h0 = H(gens.py_hist_dict(case["h"]))
    alias = H(h0)
    before = (hist_items(h0), h0.total)
    out = _impl_op(case, h0)
    if (hist_items(h0), h0.total) != before or (hist_items(alias), alias.total) != before or h0.total != sum(h0.counts()):
        out = dict(out, receiver_changed=True)
    return out


def _impl_op(case, h):
    from dyce import H
    import dyce.rng
    k = case["kind"]
    try:
        if k == "draw":
            return {"ok": hist_items(h.draw(_py_req(case)))}
        if k == "draws":
            for r in case["reqs"]:
                h = h.draw(_py_req(r))
            return {"ok": hist_items(h)}
        if k == "draw_none":
            import random

            class Scripted(random.Random):
                def choices(self, population, weights=None, *, cum_weights=None, k=1):
                    population = list(population)
                    weights = list(weights)
                    pos = [i for i, w in enumerate(weights) if w > 0]
                    i = pos[case["pick"] % len(pos)]
                    self.rolled = population[i]
                    return [population[i]]
            old = dyce.rng.RNG
            s = Scripted()
            s.rolled = None
            dyce.rng.RNG = s
            try:
                res = h.draw()
            finally:
                dyce.rng.RNG = old
            return {"ok": hist_items(res), "rolled": None if s.rolled is None else qv(s.rolled)}
        if k == "accumulate":
            other = H(gens.py_hist_dict(case["other"]))
            form = case.get("other_form", "H")
            if form == "P" and other.total:
                from dyce import P
                other = P(other)                      # a pool is accepted wherever H(...) accepts it: its flattened histogram
            elif form == "dict":
                other = dict(other)
            elif form == "pairs_iter":
                other = iter(list(other.items()))
            return {"ok": hist_items(h.accumulate(other))}
        if k == "zero_fill":
            outs = [gens.py_outcome(o) for o in case["outs"]]
            style = case.get("outs_style", "list")
            given = {"list": outs, "iter": iter(outs), "generator": (x for x in outs), "map": map(lambda x: x, outs), "tuple": tuple(outs)}[style]
            return {"ok": hist_items(h.zero_fill(given))}
        if k == "remove":
            return {"ok": hist_items(h.remove(gens.py_outcome(case["o"])))}
    except (ValueError, TypeError, IndexError, ZeroDivisionError) as e:
        return {"exc": type(e).__name__}
    raise AssertionError(k)


# ---- model side ---------------------------------------------------------------

def _creq(pairs):
    return clist(f"({cq(o)}, {cz(a)})" for o, a in pairs)


def coq_check(case, r):
    k = case["kind"]
    if "exc" not in r and "ok" not in r:
        return "MISMATCH"
    if r.get("receiver_changed"):
        return "MISMATCH"
    exp = cres(r, chist)
    if exp is None:
        return "MISMATCH"
    if k == "draw":
        return f"chk_draw {chist(case['h'])} {_creq(_req_pairs(case))} {exp}"
    if k == "draws":
        return f"chk_draws {chist(case['h'])} {clist(_creq(_req_pairs(q)) for q in case['reqs'])} {exp}"
    if k == "draw_none":
        if "exc" in r and sum(c for _, c in case["h"]) != 0:
            return "MISMATCH"
        if r.get("rolled") is None:
            # zero-total histogram: roll() gives 0, then draw(0)
            return f"chk_draw {chist(case['h'])} {_creq([[[0, 1], 1]])} {exp}"
        return f"chk_draw {chist(case['h'])} {_creq([[r['rolled'], 1]])} {exp}"
    if "exc" in r:
        return "MISMATCH"
    if k == "accumulate":
        return f"chk_accumulate {chist(case['h'])} {chist(case['other'])} {chist(r['ok'])}"
    if k == "zero_fill":
        return f"chk_zero_fill {chist(case['h'])} {clist(cq(o) for o in case['outs'])} {chist(r['ok'])}"
    if k == "remove":
        return f"chk_remove {chist(case['h'])} {cq(case['o'])} {chist(r['ok'])}"


def coq_show(case):
    k = case["kind"]
    if k == "draw":
        return f"draw VO {chist(case['h'])} {_creq(_req_pairs(case))}"
    if k == "draws":
        return f"draws VO {chist(case['h'])} {clist(_creq(_req_pairs(q)) for q in case['reqs'])}"
    if k == "accumulate":
        return f"accumulate VO {chist(case['h'])} {chist(case['other'])}"
    if k == "zero_fill":
        return f"zero_fill VO {chist(case['h'])} {clist(cq(o) for o in case['outs'])}"
    if k == "remove":
        return f"remove VO {chist(case['h'])} {cq(case['o'])}"
    return None


# ---- independent oracle of the specification ------------------------------------

def _d(h):
    return {Fraction(o[0], o[1]): c for o, c in h}


def _items(d):
    return [[[k.numerator, k.denominator], d[k]] for k in sorted(d)]


def _draw(d, pairs):
    new = dict(d)
    for o, a in pairs:
        k = Fraction(o[0], o[1])
        new[k] = new.get(k, 0) - a
    if any(v < 0 for v in new.values()):
        return None
    return new


def oracle(case):
    k = case["kind"]
    d = _d(case["h"])
    if k == "draw":
        new = _draw(d, _req_pairs(case))
        return {"exc": "ValueError"} if new is None else {"ok": _items(new)}
    if k == "draws":
        for r in case["reqs"]:
            d = _draw(d, _req_pairs(r))
            if d is None:
                return {"exc": "ValueError"}
        return {"ok": _items(d)}
    if k == "draw_none":
        return {"spec": "one card of a positive-count outcome removed"}
    if k == "accumulate":
        for o, c in case["other"]:
            kk = Fraction(o[0], o[1])
            d[kk] = d.get(kk, 0) + c
        return {"ok": _items(d)}
    if k == "zero_fill":
        for o in case["outs"]:
            d.setdefault(Fraction(o[0], o[1]), 0)
        return {"ok": _items(d)}
    if k == "remove":
        d.pop(Fraction(case["o"][0], case["o"][1]), None)
        return {"ok": _items(d)}


def agree(case, r, o):
    if r.get("receiver_changed"):
        return False
    if case["kind"] == "draw_none":
        d = _d(case["h"])
        if sum(d.values()) == 0:
            # roll() returns 0 for a zero-total histogram; drawing it must fail unless... it cannot succeed
            return "exc" in r and r["exc"] == "ValueError"
        if "ok" not in r or r.get("rolled") is None:
            return False
        k = Fraction(*r["rolled"])
        if d.get(k, 0) <= 0:
            return False
        d[k] -= 1
        return r["ok"] == _items(d)
    if case["kind"] in ("draw", "draws") and "ok" in r and "ok" in o:
        # a zero entry for an outcome the histogram never held is not part of the property
        keys = {tuple(x) for x, _ in case["h"]}
        f = lambda items: [[x, c] for x, c in items if c != 0 or tuple(x) in keys]
        try:
            return f(r["ok"]) == f(o["ok"])
        except Exception:
            return False
    return {x: r.get(x) for x in ("ok", "exc")} == {x: o.get(x) for x in ("ok", "exc")}


def nontrivial(case, r):
    if not case["h"]:
        return False
    k = case["kind"]
    keys = {tuple(o) for o, _ in case["h"]}
    if k == "draw":
        return any(tuple(o) in keys for o, _ in _req_pairs(case))
    if k == "draws":
        return len(case["reqs"]) >= 2
    if k == "draw_none":
        return "ok" in r
    if k == "accumulate":
        return bool(case["other"])
    if k == "zero_fill":
        return bool(case["outs"])
    return tuple(case["o"]) in keys


def case_class(case, r):
    k = case["kind"]
    if k == "draw":
        k += ":" + case["form"]
    return k + (":" + r["exc"] if "exc" in r else ":ok")


def shrink_candidates(case):
    import copy
    h = case["h"]
    for i in range(len(h)):
        c = copy.deepcopy(case)
        del c["h"][i]
        yield c
    for i, (o, cnt) in enumerate(h):
        if cnt > 1:
            c = copy.deepcopy(case)
            c["h"][i][1] = 1
            yield c
    if case["kind"] == "draw" and case["form"] in ("iter", "map"):
        for i in range(len(case["req"])):
            c = copy.deepcopy(case)
            del c["req"][i]
            yield c
    if case["kind"] == "draws":
        for i in range(len(case["reqs"])):
            c = copy.deepcopy(case)
            del c["reqs"][i]
            yield c


def neighbours(case):
    yield from shrink_candidates(case)
