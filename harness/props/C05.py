"""C05 - equality, hashing, reduction and construction agree on 'same distribution'."""
import math
from fractions import Fraction

from common import chist, clist, cq, cres, cz, cbool, hist_items, qv
import gens
import pools

PID = "C05"
RULE = ("corpus first; then pairs (a, b) with b a scaled copy / zero-padded copy / both / a one-count perturbation / "
        "an unrelated histogram / a representation twin (1 vs 1.0 vs Fraction(1) vs True); observables ==, !=, "
        "hash equality (checked whenever == holds), lowest_terms items and its idempotence; constructions from "
        "shuffled (outcome, count) pairs with repeats, mappings, bare outcomes, H(h), H(p), H(n), negative counts; "
        "pool == histogram.  Non-trivial: histograms with at least two faces; distinct case JSON.")
ASSUMPTIONS = [
    "Python's hash()/frozenset are trusted: the model's hash is the reduced item list itself",
    "dict equality of reduced mappings is modelled as list equality (both sides are in ascending key order)",
]


def gen_cases(rng, tier):
    n = 400 if tier == "quick" else 6000
    cases = []
    for i in range(n):
        r = i % 8
        if r < 4:
            a = gens.hist(rng, max_faces=5, frac_p=0.1)
            v = rng.choice(["scaled", "padded", "both", "perturbed", "other", "same", "twin", "hashtwin"])
            if v == "hashtwin":
                # UNEQUAL histograms whose items hash alike in CPython (hash(-1) == hash(-2); hash(x) == hash(x + 2**61 - 1)):
                # == and != must still be decided by the items, whatever the hashes say
                m = 2 ** 61 - 1
                outs_a, outs_b = rng.choice([([-1], [-2]), ([-2, -1], [-2, -1]), ([-1, 0, 3], [-2, 0, 3]), ([0, 1], [m, m + 1]), ([0], [m])])
                cs = [rng.choice([1, 2, 3]) for _ in outs_a]
                a = [[gens.q(o), c] for o, c in zip(outs_a, cs)]
                if outs_a == outs_b:
                    cs = list(reversed(cs)) if cs != list(reversed(cs)) else [cs[0] + 1] + cs[1:]
                cases.append({"kind": "eq", "a": a, "b": [[gens.q(o), c] for o, c in zip(outs_b, cs)], "variant": v, "types": None})
                continue
            b = [list(x) for x in a]
            if v in ("scaled", "both"):
                k = rng.choice([2, 3, 7, 2 ** 40])
                b = [[o, c * k] for o, c in b]
            if v in ("padded", "both"):
                have = {tuple(o) for o, _ in b}
                for _ in range(rng.randint(1, 3)):
                    o = gens.outcome(rng)
                    if tuple(o) not in have:
                        have.add(tuple(o))
                        b.append([o, 0])
                b.sort(key=lambda oc: Fraction(*oc[0]))
            if v == "perturbed" and b:
                j = rng.randrange(len(b))
                b[j] = [b[j][0], b[j][1] + rng.choice([1, 2])]
            if v == "other":
                b = gens.hist(rng, max_faces=5, frac_p=0.1)
            types = rng.choice(["int", "float", "Fraction", "bool"]) if v == "twin" else None
            cases.append({"kind": "eq", "a": a, "b": b, "variant": v, "types": types})
        elif r == 4 or r == 5:
            base = gens.hist(rng, max_faces=5, frac_p=0.1)
            data = []
            for o, c in base:
                parts = rng.randint(1, 3)
                rest = c
                for j in range(parts - 1):
                    x = rng.randint(0, rest)
                    data.append([o, x])
                    rest -= x
                data.append([o, rest])
            rng.shuffle(data)
            form = rng.choice(["pairs", "pairs", "mapping", "bare", "neg", "H(h)", "mixed", "mixed"])
            want_mixed = form == "mixed"
            if want_mixed:
                form = "pairs"
                # make sure some outcome occurs both as a bare outcome and inside a pair
                for o, cc in list(data)[:2]:
                    data.append([o, 1])
                    data.append([o, 2])
                rng.shuffle(data)
            if form == "mapping":
                data = [list(x) for x in base]
                rng.shuffle(data)
            if form == "bare":
                data = [[o, 1] for o, c in base for _ in range(min(c, 3))]
                rng.shuffle(data)
            if form == "neg" and data:
                j = rng.randrange(len(data))
                data[j] = [data[j][0], -rng.randint(1, 3)]
            c = {"kind": "construct", "form": form, "data": data,
                 "container": rng.choice(["list", "list", "tuple", "generator", "iterator", "reversed", "view", "counter", "set"])}
            if form == "pairs" and (want_mixed or rng.random() < 0.15) and any(cc == 1 for _, cc in data):
                # bare outcomes and (outcome, count) pairs in ONE iterable (accepted, though not a documented form):
                # the counts of an outcome still add up across both spellings; the stored order is not checked here
                c["form"] = "mixed"
                c["bare_idx"] = [j for j, (_, cc) in enumerate(data) if cc == 1 and rng.random() < 0.7]
            if rng.random() < 0.15:
                # bare outcomes given as a range object (ascending, descending, with a stride, empty)
                start, step = rng.randint(-4, 6), rng.choice([1, -1, 2, -2, -3])
                stop = start + step * rng.randint(0, 6)
                c = {"kind": "construct", "form": "bare", "container": "range", "range": [start, stop, step],
                     "data": [[gens.q(v), 1] for v in range(start, stop, step)]}
            cases.append(c)
        elif r == 6:
            cases.append({"kind": "hrange", "n": rng.randint(-7, 9)})
        else:
            dice, _ = pools.gen_pool(rng, max_dice=3, max_faces=3)
            flat_equal = rng.random() < 0.5
            cases.append({"kind": "peq", "dice": dice, "h": gens.hist(rng, max_faces=4), "use_flat": flat_equal,
                          "scale": rng.choice([1, 2, 5])})
    return cases


def _typed(o, types):
    v = gens.py_outcome(o)
    if types == "float" and isinstance(v, int):
        return float(v)
    if types == "Fraction":
        return Fraction(v)
    if types == "bool" and v in (0, 1):
        return bool(v)
    return v


def impl_run(case):
    from dyce import H, P
    k = case["kind"]
    try:
        if k == "eq":
            a = H(gens.py_hist_dict(case["a"]))
            b = H({_typed(o, case["types"]): c for o, c in case["b"]})
            la = a.lowest_terms()
            # a relabelling that folds outcomes together, applied AFTER the source took part in a comparison: its result
            # reduces, compares and hashes like the same distribution built directly
            extra = {}
            if all(Fraction(o).denominator == 1 for o in a):
                u = abs(a) if len(a) % 2 else a.umap(lambda o: o // 2)
                ref = H(dict(u.items()))
                lu = u.lowest_terms()
                extra["umap_ok"] = (u == ref and hash(u) == hash(ref) and hist_items(lu) == hist_items(ref.lowest_terms())
                                    and (math.gcd(*lu.counts()) if len(lu) else 1) == 1)
            return {**extra, "eq": a == b, "ne": a != b, "hasheq": hash(a) == hash(b), "sym": (b == a) == (a == b),
                    "lowest": hist_items(la), "idem": hist_items(la.lowest_terms()) == hist_items(la),
                    "low_eq": la == a, "gcd": math.gcd(*la.counts()) if len(la) else 1,
                    "minc": min(la.counts()) if len(la) else 1}
        if k == "construct":
            form = case["form"]
            data = [(gens.py_outcome(o), c) for o, c in case["data"]]
            cont = case.get("container", "list")

            def deliver(seq):
                seq = list(seq)
                if cont == "tuple":
                    return tuple(seq)
                if cont == "generator":
                    return (x for x in seq)
                if cont == "iterator":
                    return iter(seq)
                if cont == "reversed":
                    return reversed(seq)
                return seq
            if form == "mapping":
                d = dict(data)
                if cont == "view":
                    h = H(d.items())
                elif cont == "counter":
                    import collections
                    h = H(collections.OrderedDict(data))
                else:
                    h = H(d)
                    # the caller goes on using its dict: the histogram built from it does not follow
                    snap = (hist_items(h), h.total)
                    for kk in list(d)[:1]:
                        d[kk] += 3
                    d[10 ** 6] = 1
                    if (hist_items(h), h.total) != snap or h.total != sum(h.counts()):
                        return {"exc": "AliasesCallersDict"}
            elif form == "bare":
                bare = [o for o, _ in data]
                if cont == "range":
                    h = H(range(*case["range"]))
                elif cont == "counter":
                    import collections
                    h = H(collections.Counter(bare))
                elif cont == "set" and len(set(bare)) == len(bare):
                    h = H(frozenset(bare))
                elif cont == "view":
                    h = H(dict.fromkeys(bare).keys()) if len(set(bare)) == len(bare) else H(bare)
                else:
                    h = H(deliver(bare))
            elif form == "mixed":
                bi = set(case.get("bare_idx", []))
                h = H(deliver([o if j in bi else (o, cnt) for j, (o, cnt) in enumerate(data)]))
                items = sorted(hist_items(h), key=lambda oc: Fraction(*oc[0]))
                return {"ok": items, "total": h.total, "len": len(h)}
            elif form == "H(h)":
                h = H(H(deliver(data)))
            else:
                h = H(deliver(data))
            return {"ok": hist_items(h), "total": h.total, "len": len(h)}
        if k == "hrange":
            h = H(case["n"])
            return {"ok": hist_items(h), "total": h.total}
        if k == "peq":
            p = pools.py_pool(case["dice"])
            if case["use_flat"]:
                h = H({o: c * case["scale"] for o, c in p.h().items()})
            else:
                h = H(gens.py_hist_dict(case["h"]))
            return {"h": hist_items(h), "eq": p == h, "req": h == p, "ne": p != h, "rne": h != p,
                    "flat": hist_items(p.h()), "Hp": hist_items(H(p)) == hist_items(p.h())}
    except (ValueError, TypeError, IndexError, ZeroDivisionError) as e:
        return {"exc": type(e).__name__}


def coq_check(case, r):
    k = case["kind"]
    if k == "eq":
        if "exc" in r:
            return "MISMATCH"
        return (f"chk_eq {chist(case['a'])} {chist(case['b'])} {cbool(r['eq'])} {cbool(r['ne'])} {cbool(r['hasheq'])}"
                f" && chk_lowest {chist(case['a'])} {chist(r['lowest'])}")
    if k == "construct":
        e = cres(r, chist)
        if e is None:
            return "MISMATCH"
        return f"chk_mk {clist(f'({cq(o)}, {cz(c)})' for o, c in case['data'])} {e}"
    if k == "hrange":
        if "exc" in r:
            return "MISMATCH"
        return f"chk_hrange {cz(case['n'])} {chist(r['ok'])}"
    if k == "peq":
        if "exc" in r:
            return "MISMATCH"
        return f"chk_peq {clist(chist(h) for h in case['dice'])} {chist(r['h'])} {cbool(r['eq'])}"


def coq_show(case):
    k = case["kind"]
    if k == "eq":
        return f"(heq VO {chist(case['a'])} {chist(case['b'])}, lowest VO {chist(case['a'])}, lowest VO {chist(case['b'])})"
    if k == "construct":
        return f"mkH VO {clist(f'({cq(o)}, {cz(c)})' for o, c in case['data'])}"
    if k == "hrange":
        return f"hrange VO Vz {cz(case['n'])}"
    return None


def _dist(h):
    t = sum(c for _, c in h)
    if t == 0:
        return {}
    return {Fraction(*o): Fraction(c, t) for o, c in h if c != 0}


def oracle(case):
    k = case["kind"]
    if k == "eq":
        a, b = case["a"], case["b"]
        eq = _dist(a) == _dist(b)
        g = math.gcd(*[c for _, c in a]) if a else 0
        low = [[o, c // g] for o, c in a if c != 0] if g else []
        return {"eq": eq, "lowest": low}
    if k == "construct":
        if any(c < 0 for _, c in case["data"]):
            return {"exc": "ValueError"}
        d = {}
        for o, c in case["data"]:
            d[Fraction(*o)] = d.get(Fraction(*o), 0) + c
        return {"ok": [[pools.fq(kk), d[kk]] for kk in sorted(d)], "total": sum(d.values())}
    if k == "hrange":
        n = case["n"]
        outs = range(1, n + 1) if n > 0 else range(n, 0)
        return {"ok": [[[i, 1], 1] for i in outs], "total": abs(n)}
    if k == "peq":
        return {"spec": "p == h, h == p, not (p != h), not (h != p) all say whether the flattened pool and h have the same distribution"}


def agree(case, r, o):
    k = case["kind"]
    if k == "peq":
        if "exc" in r:
            return False
        want = _dist(r["flat"]) == _dist(r["h"])
        return r["eq"] == want and r["req"] == want and r["ne"] == (not want) and r["rne"] == (not want) and r["Hp"]
    if k == "eq":
        if "exc" in r:
            return False
        return (r["eq"] == o["eq"] and r["ne"] == (not o["eq"]) and (r["hasheq"] or not r["eq"]) and r["sym"]
                and r["lowest"] == o["lowest"] and r["idem"] and r["low_eq"] and r["gcd"] == 1 and r["minc"] >= 1
                and r.get("umap_ok", True))
    if "exc" in o:
        return r.get("exc") == o["exc"]
    return r.get("ok") == o["ok"] and r.get("total") == o["total"]


def nontrivial(case, r):
    k = case["kind"]
    if k == "eq":
        return len(case["a"]) >= 2
    if k == "construct":
        return len(case["data"]) >= 2
    if k == "hrange":
        return abs(case["n"]) >= 2
    return len(case["dice"]) >= 1


def case_class(case, r):
    k = case["kind"]
    if k == "eq":
        return f"eq:{case['variant']}:{r.get('eq')}"
    if k == "construct":
        return f"construct:{case['form']}" + (":" + r["exc"] if "exc" in r else "")
    if k == "peq":
        return f"peq:{r.get('eq')}"
    return k
