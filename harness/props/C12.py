"""C12 - rolls are complete, consistent records of how results were produced."""
from fractions import Fraction

from common import clist, cq, cnat, qv
import rollers as rl
import pools

PID = "C12"
RULE = ("corpus first; then the roller trees of C11 with every positive-weight answer path explored.  On each path "
        "the Python object graph returned by r.roll() is checked directly against the property (producing roller, "
        "source rolls in source order - n-fold for n@r, one per expansion for substitution -, outcomes()/total() = "
        "live values, every live outcome of every source roll kept / a source of a derived outcome / the source of "
        "a tombstone, every outcome reachable through `sources` associated with a roll) and its projection to a "
        "tree (roller position, values, owner roller, sources recursively, source rolls) is compared with the "
        "model's record for the same answers; dyce.r.walk is run from the roll, from its first outcome and from the "
        "roller and must visit exactly once every roll / roller / outcome an independent traversal reaches, with "
        "exactly the referring objects as parents.  Non-trivial: an inner node and at least two paths.")
ASSUMPTIONS = [
    "object identity is modelled by heap ids; the comparison uses the projection of the graph to a tree",
    "iteration order of the set of excluded indexes in SelectionRoller is taken to be ascending",
    "dyce.r.walk is not modelled in Coq: it is compared with an independent Python traversal of the same object graph",
]


def gen_cases(rng, tier):
    n = 100 if tier == "quick" else 1200
    return [{"kind": "tree", "tree": rl.gen_small_tree(rng, max_paths=120)} for _ in range(n)]


def build_with_paths(t, path, reg):
    """rollers.build (all public spellings) + registration id(roller) -> position in the tree"""
    r = rl.build(t)
    _register(r, t, path, reg)
    return r


def _register(r, t, path, reg):
    reg[id(r)] = (path, r)
    k = t[0]
    kids = {"pool": lambda: t[1], "select": lambda: t[2], "filter": lambda: t[2], "filterby": lambda: t[2], "repeat": lambda: [t[2]],
            "bin": lambda: [t[2], t[3]], "un": lambda: [t[2]], "subst": lambda: [t[4]]}.get(k, lambda: [])()
    srcs = list(r.sources)
    assert len(srcs) == len(kids), (k, len(srcs), len(kids))
    for i, (sr, st) in enumerate(zip(srcs, kids)):
        _register(sr, st, path + [i], reg)


def _owner(o, reg):
    try:
        roll = o.source_roll
    except AssertionError:
        return "UNOWNED"
    return reg.get(id(roll.r), ("?", None))[0]


def _otree(o, reg, depth=0):
    if depth > 30:
        return ["DEEP"]
    return [None if o.value is None else qv(o.value), _owner(o, reg), [_otree(s, reg, depth + 1) for s in o.sources]]


def _rtree(roll, reg, depth=0):
    if depth > 30:
        return ["DEEP"]
    return [reg.get(id(roll.r), ("?", None))[0], [_otree(o, reg) for o in roll], [_rtree(sr, reg, depth + 1) for sr in roll.source_rolls]]


def _reachable(outs):
    seen, stack, out = set(), list(outs), []
    while stack:
        o = stack.pop()
        if id(o) in seen:
            continue
        seen.add(id(o))
        out.append(o)
        stack.extend(o.sources)
    return out


def wf_record(roll, r, tree, reg, problems, depth=0):
    """the property, checked on the real objects"""
    if roll.r is not r:
        problems.append("roll.r is not the producing roller")
    live = [o.value for o in roll if o.value is not None]
    if list(roll.outcomes()) != live or roll.total() != sum(live):
        problems.append("outcomes()/total() do not report exactly the live values")
    reach = _reachable(list(roll))
    ids = {id(o) for o in reach}
    for o in reach:
        try:
            o.source_roll, o.r, o.annotation
        except AssertionError:
            problems.append("an outcome reachable through sources is not associated with a roll")
            break
    k = tree[0]
    srcs = list(r.sources)
    srolls = list(roll.source_rolls)
    if k in ("pool", "bin", "un", "select", "filter", "filterby"):
        expected = srcs
    elif k == "repeat":
        expected = srcs * tree[1]
    elif k == "subst":
        expected = None
        if not srolls or any(sr.r is not srcs[0] for sr in srolls):
            problems.append("substitution source rolls were not produced by the source roller")
    else:
        expected = []
    if expected is not None:
        if len(srolls) != len(expected) or any(sr.r is not e for sr, e in zip(srolls, expected)):
            problems.append("source rolls do not match the roller's sources in order")
    for sr in srolls:
        for o in sr:
            if o.value is not None and id(o) not in ids:
                problems.append("a live outcome of a source roll is not accounted for in the parent roll")
                break
    if k == "subst" and srolls:
        wf_record(srolls[0], srcs[0], tree[4], reg, problems, depth + 1)
        for ar in srolls[1:]:
            ids2 = {id(o) for o in _reachable(list(ar))}
            for sr in ar.source_rolls:
                if any(o.value is not None and id(o) not in ids2 for o in sr):
                    problems.append("K2: an adopted expansion roll (Roll.adopt in SubstitutionRoller) does not account "
                                    "for a live outcome of its source roll")
                    break
            for o in _reachable(list(ar)):
                try:
                    o.source_roll
                except AssertionError:
                    problems.append("an outcome reachable from an adopted roll is not associated with a roll")
                    break
    if depth < 6 and k != "subst":
        subs = {"pool": lambda: tree[1], "select": lambda: tree[2], "filter": lambda: tree[2], "filterby": lambda: tree[2], "repeat": lambda: [tree[2]] * tree[1],
                "bin": lambda: [tree[2], tree[3]], "un": lambda: [tree[2]]}.get(k, lambda: [])()
        for sr, e, st in zip(srolls, expected or [], subs):
            wf_record(sr, e, st, reg, problems, depth + 1)


def walk_check(root, problems):
    """dyce.r.walk (the traversal clients use to inspect a record) against an independent traversal of the same
    object graph: every roll / roller / outcome reachable from the root is visited exactly once and is handed
    exactly the set of visited objects that refer to it (source_rolls / sources)"""
    from dyce.r import R, Roll, RollOutcome, RollerWalkerVisitor, RollOutcomeWalkerVisitor, RollWalkerVisitor, walk

    class V(RollWalkerVisitor, RollerWalkerVisitor, RollOutcomeWalkerVisitor):
        __slots__ = ("seen",)

        def __init__(self):
            self.seen = {"roll": [], "roller": [], "outcome": []}

        def on_roll(self, roll, parents):
            self.seen["roll"].append((id(roll), sorted(id(p) for p in parents)))

        def on_roller(self, r, parents):
            self.seen["roller"].append((id(r), sorted(id(p) for p in parents)))

        def on_roll_outcome(self, roll_outcome, parents):
            self.seen["outcome"].append((id(roll_outcome), sorted(id(p) for p in parents)))

    def closure(starts, succ):
        objs, todo = {}, list(starts)
        while todo:
            x = todo.pop()
            if id(x) in objs:
                continue
            objs[id(x)] = x
            todo.extend(succ(x))
        return objs

    def expect(objs, succ):
        par = {i: set() for i in objs}
        for i, x in objs.items():
            for s in succ(x):
                par[id(s)].add(i)
        return sorted((i, sorted(ps)) for i, ps in par.items())

    rolls = closure([root] if isinstance(root, Roll) else [], lambda x: list(x.source_rolls))
    rollers = closure([x.r for x in rolls.values()] + ([root] if isinstance(root, R) else []), lambda x: list(x.sources))
    outs = closure([o for x in rolls.values() for o in x] + ([root] if isinstance(root, RollOutcome) else []), lambda x: list(x.sources))
    v = V()
    try:
        walk(root, v)
    except Exception as e:  # noqa: BLE001
        problems.append(f"walk() raised {type(e).__name__} on a well-formed record")
        return
    for kind, objs, succ in (("roll", rolls, lambda x: list(x.source_rolls)), ("roller", rollers, lambda x: list(x.sources)),
                             ("outcome", outs, lambda x: list(x.sources))):
        if sorted(v.seen[kind]) != expect(objs, succ):
            got, exp = dict(v.seen[kind]), dict(expect(objs, succ))
            if len(v.seen[kind]) != len(got) or set(got) != set(exp):
                problems.append(f"walk() does not visit exactly once every {kind} reachable from the root")
            else:
                problems.append(f"walk() reports a wrong set of parents for a {kind}")


def impl_run(case):
    reg = {}
    r = build_with_paths(case["tree"], [], reg)

    def action():
        try:
            roll = r.roll()
        except (IndexError, ValueError, TypeError, ZeroDivisionError) as e:
            return {"exc": type(e).__name__}
        problems = []
        wf_record(roll, r, case["tree"], reg, problems)
        walk_check(roll, problems)
        if len(roll):
            walk_check(roll[0], problems)
        walk_check(r, problems)
        return {"ok": _rtree(roll, reg), "problems": sorted(set(problems))}
    paths, exhaustive = rl.explore(action, max_paths=150)
    return {"paths": paths, "exhaustive": exhaustive}


def _cpath(p):
    return clist(cnat(i) for i in p)


def _cotree(o):
    v = "None" if o[0] is None else f"(Some {cq(o[0])})"
    if o[1] == "UNOWNED":
        own = "None"
    else:
        own = f"(Some {_cpath(o[1])})"
    return f"(ONode {v} {own} {clist(_cotree(s) for s in o[2])})"


def _crtree(r):
    return f"(RNode {_cpath(r[0])} {clist(_cotree(o) for o in r[1])} {clist(_crtree(s) for s in r[2])})"


def coq_check(case, r):
    if "paths" not in r:
        return "MISMATCH"
    parts = []
    for p in r["paths"]:
        res = p["result"]
        if "ok" in res:
            if "DEEP" in str(res["ok"]) or "'?'" in str(res["ok"]):
                return "MISMATCH"
            e = f"(Ok {_crtree(res['ok'])})"
        elif res.get("exc") in ("IndexError", "ValueError", "TypeError"):
            e = f"(Err {res['exc']})"
        else:
            return "MISMATCH"
        parts.append(f"chk_record t {rl.cscript(p['script'])} {e}")
    body = " && ".join(parts) if parts else "true"
    return f"(let t := {rl.ctree(case['tree'])} in {body})"


def coq_show(case):
    return None


def oracle(case):
    return {"spec": "no problems reported by the direct check of the record"}


def agree(case, r, o):
    if "paths" not in r:
        return False
    return all(("exc" in p["result"]) or not p["result"].get("problems") for p in r["paths"])


KNOWN_ONLY_IF_MODEL_AGREES = True


def known_finding(case, known):
    """K2: only when every problem reported on every path is the adopted-roll one"""
    return None   # decided per result in common via known_finding_result


def known_finding_result(case, r, known):
    probs = [p for path in r.get("paths", []) for p in path["result"].get("problems", [])]
    if probs and all(p.startswith("K2:") for p in probs):
        for f in known.get("findings", []):
            if f.get("property") == "C12" and f.get("predicate") == "adopted_expansion_roll_drops_source_outcomes":
                return f["text"]
    return None


def nontrivial(case, r):
    return case["tree"][0] not in ("val", "h", "p") and len(r.get("paths", [])) >= 2


def case_class(case, r):
    return case["tree"][0]


UNITS_NAME = "answer_paths_explored"


def units(case, r):
    return len(r.get('paths', []))
