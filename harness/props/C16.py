"""C16 - distribution and summary statistics are consistent with the counts."""
import math
from fractions import Fraction

from common import chist, clist, cq, cres, cz, cbool, hist_items, qv
import gens

PID = "C16"
RULE = ("corpus first; then histograms with int / Fraction / bool outcomes, any counts (zero, scaled, 2**70, zero "
        "total, empty): distribution() through a recording rational_t, distribution_xy, mean, variance, stdev; "
        "invariance under scaling and zero padding; additivity of mean and variance for a+b.  Exact comparison "
        "where Python is exact (Fraction outcomes, distribution), closeness otherwise.  Non-trivial: total > 0 "
        "and at least two faces.")
ASSUMPTIONS = [
    "floating-point rounding and math.sqrt are not modelled: float results are compared with the exact model value "
    "within a relative tolerance (2**-50 for mean, 2**-36 of E[X^2]+1 for variance)",
]


def gen_cases(rng, tier):
    n = 300 if tier == "quick" else 4000
    cases = []
    for i in range(n):
        style = rng.choice(["small", "pos", "big", "unit"])
        frac = rng.choice([0.0, 0.0, 1.0, 0.3])
        h = gens.hist(rng, max_faces=6, style=style, frac_p=frac)
        if frac == 1.0:
            # Fraction-typed everywhere (integral values included) so that Python stays exact
            typ = "Fraction"
        elif frac == 0.0:
            typ = rng.choice(["int", "int", "bool"]) if all(o in ([0, 1], [1, 1]) for o, _ in h) else "int"
        else:
            typ = "mixed"
        k = rng.choice([2, 3, 10])
        pad = [gens.outcome(rng, 0.0) for _ in range(rng.randint(1, 2))]
        if rng.random() < 0.12:
            # the same shape far from the origin (means of millions, not whole numbers)
            shift = rng.choice([3_000_000, 10 ** 7, -2_500_000, 2 ** 21 + 1])
            h = [[gens.q(Fraction(*o) + shift), c] for o, c in h]
            typ = "int" if typ == "bool" else typ
        cases.append({"kind": "stats", "h": h, "typ": typ, "scale": k, "pad": pad, "form": rng.choice(["map", "map", "pairs", "mixed"]),
                      "other": gens.hist(rng, max_faces=4, style="pos", frac_p=0.0)})
    return cases


def _mk(h, typ, form="map"):
    from dyce import H
    d = {}
    for o, c in h:
        v = gens.py_outcome(o)
        if typ == "Fraction":
            v = Fraction(v)
        elif typ == "bool":
            v = bool(v)
        d[v] = c
    if form == "pairs":
        return H(reversed(list(d.items())))
    if form == "mixed" and typ != "bool":
        # bare outcomes mixed with (outcome, count) pairs: the initializer cannot sort those against each other and
        # falls back to another key, so the stored order need not be ascending (distribution() must still be)
        items = [o if c == 1 else (o, c) for o, c in d.items()]
        if items and all(isinstance(x, tuple) for x in items):
            o, c = items[-1]
            if c > 1:
                items[-1:] = [(o, c - 1), o]
        return H(reversed(items))
    return H(d)


def _num(x):
    """(exact [num, den], is_exact_type)"""
    if isinstance(x, float):
        if x != x or x in (float("inf"), float("-inf")):
            return None, False
        return qv(x), False
    return qv(x), True


def impl_run(case):
    from dyce import H
    h = _mk(case["h"], case["typ"], case.get("form", "map"))
    out = {}
    out["dist"] = [[qv(o), list(p)] for o, p in h.distribution(rational_t=lambda n, d: (n, d))]
    probs = [p for _, p in h.distribution()]
    out["dist_sum"] = qv(sum(probs, Fraction(0)))
    out["dist_frac_ok"] = all(isinstance(p, Fraction) and p == Fraction(h[o], h.total or 1) for o, p in h.distribution())
    # rational_t is called with exactly (count, total), once per outcome, and its exceptions are the caller's
    calls = []

    class Strict(Exception):
        pass

    def strict(n, d=None):
        calls.append((n, d))
        if d is None or type(n) is not int or type(d) is not int:
            raise TypeError("rational_t takes (count, total)")
        if len(calls) == 2:
            raise TypeError("second outcome rejected")
        return (n, d)
    try:
        list(h.distribution(rational_t=strict))
        strict_ok = len(h) < 2
    except TypeError:
        strict_ok = len(h) >= 2 and len(calls) == 2 and all(d is not None for _, d in calls)
    out["rational_t_ok"] = strict_ok
    xy = h.distribution_xy()
    out["xy_ok"] = (xy == () and len(h) == 0) or (len(xy) == 2 and list(xy[0]) == [o for o, _ in h.distribution()] == sorted(h.outcomes())
                    and all(isinstance(y, float) and y == float(p) for y, p in zip(xy[1], probs)))
    try:
        m = h.mean()
        v = h.variance()
        out["mean"], out["mean_exact"] = _num(m)
        out["var"], out["var_exact"] = _num(v)
        try:
            sd = h.stdev()
            # relative accuracy only: a tiny positive variance (a rare event) has a tiny positive square root
            out["sd_ok"] = (math.isclose(float(sd) ** 2, float(v), rel_tol=1e-9, abs_tol=0.0) if float(v) > 0
                            else abs(float(sd)) <= 1e-9)
        except ValueError:
            out["sd_ok"] = float(v) < 0 and float(v) > -1e-6   # sqrt of a rounding-negative variance
        # the answers do not depend on what was asked of the object before: format() (which passes a float mean to
        # stdev), variance/stdev with an explicit - even wrong - mu, distribution(), then the plain questions again
        h2 = _mk(case["h"], case["typ"], case.get("form", "map"))
        try:
            h2.format(), h2.format(width=0)
        except ValueError:
            # outside this property: format() passes float(mean) to stdev(), whose variance can round below zero
            # (H({Fraction(-5, 3): 1}).format() raises "math domain error" on the unchanged tree; see DESIGN 12.2)
            pass
        list(h2.distribution()), h2.distribution_xy()
        h3 = _mk(case["h"], case["typ"], case.get("form", "map"))
        try:
            h3.variance(m + 1), h3.stdev(float(m) + 0.5), h3.variance(float(m))
        except (ValueError, OverflowError):
            pass

        def same_exact(a, b):
            return type(a) is type(b) and (a == b or (a != a and b != b))
        out["history_ok"] = all(same_exact(x.mean(), m) and same_exact(x.variance(), v) for x in (h2, h3))
        # invariances (float paths compared approximately)
        hs = H({o: c * case["scale"] for o, c in h.items()})
        hp = h.zero_fill([gens.py_outcome(o) for o in case["pad"]])

        # float variances are computed as E[X^2] - mu^2: their absolute error grows with mu^2 (cancellation)
        vtol = (float(m) ** 2 + 1) * 2.0 ** -36

        def same(a, b):
            if isinstance(a, float) or isinstance(b, float):
                return math.isclose(float(a), float(b), rel_tol=1e-9, abs_tol=max(1e-9, vtol))
            return a == b
        # variance(mu) / stdev(mu) with the precomputed mean ("to avoid duplicate computation") in every spelling a
        # client holds it in: the value mean() returned, and - when it is integral - the int and the Fraction
        mus = [m]
        if m == m and abs(float(m)) < 2 ** 50 and m == int(m):     # exactly integral (a Fraction near an integer is not)
            mus += [int(m), Fraction(int(m)), float(int(m))]
        # (mu = 0 means "not given" to the implementation, which then computes the mean itself: same answer)
        out["mu_ok"] = all(same(h.variance(mu), v) for mu in mus)
        if float(v) > 0:
            out["mu_ok"] = out["mu_ok"] and all(math.isclose(float(h.stdev(mu)) ** 2, float(v), rel_tol=1e-9, abs_tol=max(1e-9, vtol)) for mu in mus)
        out["scale_ok"] = same(hs.mean(), m) and same(hs.variance(), v)
        out["pad_ok"] = same(hp.mean(), m) and same(hp.variance(), v)
        o2 = H(gens.py_hist_dict(case["other"]))
        if h.total > 0 and o2.total > 0:
            s = h + o2
            out["add_ok"] = same(s.mean(), m + o2.mean()) and math.isclose(float(s.variance()), float(v) + float(o2.variance()), rel_tol=1e-7, abs_tol=max(1e-7, 4 * vtol))
        else:
            out["add_ok"] = True
    except OverflowError:
        out["overflow"] = True
    return out


def _cdist(d):
    return clist(f"({cq(o)}, ({cz(p[0])}, {cz(p[1])}))" for o, p in d)


def coq_check(case, r):
    if "exc" in r:
        return "MISMATCH"
    e = f"chk_distribution {chist(case['h'])} {_cdist(r['dist'])}"
    if r.get("overflow"):
        return e
    if r.get("mean") is None or r.get("var") is None:
        return "MISMATCH"
    e += f" && chk_mean {chist(case['h'])} {cq(r['mean'])} {cbool(r['mean_exact'])}"
    e += f" && chk_variance {chist(case['h'])} {cq(r['var'])} {cbool(r['var_exact'])}"
    return e


def coq_show(case):
    return f"(distribution {chist(case['h'])}, mean {chist(case['h'])}, variance {chist(case['h'])})"


def oracle(case):
    h = case["h"]
    t = sum(c for _, c in h)
    t1 = t or 1
    mean = sum((Fraction(*o) * c for o, c in h), Fraction(0)) / t1
    var = sum((Fraction(*o) ** 2 * c for o, c in h), Fraction(0)) / t1 - mean ** 2
    return {"dist": [[o, [c, t1]] for o, c in h], "mean": [mean.numerator, mean.denominator],
            "var": [var.numerator, var.denominator], "total": t}


def agree(case, r, o):
    if "exc" in r:
        return False
    if r["dist"] != o["dist"] or not r["dist_frac_ok"] or not r["xy_ok"]:
        return False
    if o["total"] > 0 and r["dist_sum"] != [1, 1]:
        return False
    if r.get("overflow"):
        return True
    m, v = Fraction(*r["mean"]), Fraction(*r["var"])
    om, ov = Fraction(*o["mean"]), Fraction(*o["var"])
    # "exactly for rational outcomes": as soon as an outcome is a Fraction the results are Fractions, not floats
    rational = case["h"] and (case["typ"] == "Fraction" or any(oc[0][1] != 1 for oc in case["h"]))
    if rational and not (r["mean_exact"] and r["var_exact"]):
        return False
    if r["mean_exact"]:
        if m != om:
            return False
    elif abs(m - om) > (abs(om) + 1) / 2 ** 50:
        return False
    if r["var_exact"]:
        if v != ov:
            return False
    elif abs(v - ov) > (abs(ov) + om ** 2 + 1) / 2 ** 36:
        return False
    return r["sd_ok"] and r["scale_ok"] and r["pad_ok"] and r["add_ok"] and r.get("history_ok", True) and r.get("rational_t_ok", True) and r.get("mu_ok", True)


def nontrivial(case, r):
    return len(case["h"]) >= 2 and sum(c for _, c in case["h"]) > 0


def case_class(case, r):
    t = sum(c for _, c in case["h"])
    return f"{case['typ']}:" + ("empty" if not case["h"] else "zero-total" if t == 0 else "pos") + \
        (":exact" if r.get("mean_exact") else ":float") + (":overflow" if r.get("overflow") else "")
