"""C02 - P.rolls_with_counts equals brute-force enumeration for every selection."""
from fractions import Fraction

from common import cres, clist, cq, cz, qv
import gens
import pools

PID = "C02"
RULE = ("corpus first; then seeded pools (1-5 dice; homogeneous, grouped, proportional twins, mixed; zero-count "
        "faces, weighted and scaled counts, Fraction outcomes) x selections by class (none, low prefix, high suffix, "
        "all m times, middle, wild slices with any step, empty, out of range).  Observable: aggregated multiset of "
        "(roll, count) with zero-count rolls dropped, or the exception class.  Non-trivial: at least 2 dice and a "
        "selection argument; distinct = distinct case JSON.")
ASSUMPTIONS = [
    "itertools.groupby/product, sorted and math.comb are modelled by list recursion, insertion sort and Pascal's rule",
    "the +/-inf padding of the heterogeneous path is modelled by an arbitrary filler (it is deselected afterwards)",
    "the functools.cache memo is not part of this model (see C13)",
]


def small_scope(rng, want):
    """the exhaustive small scope of DESIGN 5/C02 - pools of 1-3 dice over faces {-1,0,1,2} with counts
    {0,1,2} (at most 2 faces per die) x selections of 1-2 items from indexes -3..2 and slices with
    start/stop in {None,-2..2} and step in {None,-2,-1,1,2} - walked with a seeded stride"""
    import itertools
    faces = [-1, 0, 1, 2]
    dice = []
    for k in (1, 2):
        for fs in itertools.combinations(faces, k):
            for cs in itertools.product([0, 1, 2], repeat=k):
                if sum(cs) > 0:
                    dice.append([[gens.q(f), c] for f, c in zip(fs, cs)])
    pools_ = [list(c) for n in (1, 2, 3) for c in itertools.combinations_with_replacement(range(len(dice)), n)]
    b = [None, -2, -1, 0, 1, 2]
    items = [{"i": i} for i in range(-3, 3)] + [{"s": [x, y, z]} for x in b for y in b for z in (None, -2, -1, 1, 2)]
    sels = [[a] for a in items] + [[a, c] for a in items for c in items]
    total = len(pools_) * len(sels)
    stride = max(1, total // want)
    start = rng.randrange(stride)
    out = []
    for idx in range(start, total, stride):
        pi, si = divmod(idx, len(sels))
        out.append({"kind": "rwc", "dice": [dice[j] for j in pools_[pi]], "which": sels[si], "shape": "small-scope", "cls": "enum"})
    return out, total


SMALL_SCOPE_TOTAL = 0


def gen_cases(rng, tier):
    n = 500 if tier == "quick" else 8000
    global SMALL_SCOPE_TOTAL
    cases, SMALL_SCOPE_TOTAL = small_scope(rng, 150 if tier == "quick" else 12000)
    for i in range(n):
        big = (i % 25 == 24)
        hs, shape = pools.gen_pool(rng, max_dice=6 if big else 4, max_faces=6 if big else 4)
        nd = len(pools.effective_dice(hs))
        which, cls = pools.gen_which(rng, nd)
        cases.append({"kind": "rwc", "dice": hs, "which": which, "shape": shape, "cls": cls})
        if which and any("i" in w for w in which) and rng.random() < 0.2:
            # positions given as index-likes that are not ints (NumPy integers, objects with __index__)
            cases[-1]["ityp"] = rng.choice(["npint64", "indexlike", "mixed"])
        if pools.int_valued(hs) and rng.random() < 0.25:
            # the same pool with float / Fraction outcomes, enumerated in the same interpreter right after (and, in
            # the reversed rerun, right before) its int twin: rolls carry the outcomes of THEIR dice
            cases.append({"kind": "rwc", "dice": hs, "which": which, "shape": shape, "cls": cls,
                          "otyp": rng.choice(["float", "Fraction"])})
    return cases


def impl_run(case):
    p = pools.py_pool(case["dice"], case.get("otyp"))
    try:
        agg = {}
        types = set()
        for roll, count in p.rolls_with_counts(*pools.py_which(case["which"], case.get("ityp"))):
            key = tuple(Fraction(x) for x in roll)
            agg[key] = agg.get(key, 0) + count
            types.update(type(x).__name__ for x in roll)
        out = {"ok": pools.agg_to_list(agg)}
        if "otyp" in case or pools.int_valued(case["dice"]):
            out["types"] = sorted(types)
        return out
    except (ValueError, TypeError, IndexError, ZeroDivisionError) as e:
        return {"exc": type(e).__name__}


def _crolls(rolls):
    return clist(f"({clist(cq(x) for x in r)}, {cz(c)})" for r, c in rolls)


def coq_check(case, r):
    exp = cres(r, _crolls) if ("ok" in r or "exc" in r) else None
    if exp is None:
        return "MISMATCH"
    return f"chk_rwc {pools.cpool(case['dice'])} {pools.csel(case['which'])} {exp}"


def coq_show(case):
    return f"rwc VO Vzero {pools.cpool(case['dice'])} {pools.csel(case['which'])}"


def oracle(case):
    if pools.brute_size(case["dice"]) > 50000:
        return None
    agg = {}
    try:
        n = len(pools.effective_dice(case["dice"]))
        if n == 0 and case["which"]:
            # an empty pool: indexes are still validated against the empty roll
            pools.pick((), case["which"])
        for roll, cnt in pools.brute_rolls(case["dice"]):
            if n == 0:
                continue
            t = pools.pick(roll, case["which"])
            if case["which"] is not None and len(t) == 0:
                continue
            agg[t] = agg.get(t, 0) + cnt
    except IndexError:
        return {"exc": "IndexError"}
    except ValueError:
        return {"exc": "ValueError"}
    return {"ok": pools.agg_to_list(agg)}


def agree(case, r, o):
    if "types" in r and r["types"] not in ([], [case.get("otyp", "int")]):
        return False      # outcomes of another numeric type than the dice's
    return {x: r.get(x) for x in ("ok", "exc")} == {x: o.get(x) for x in ("ok", "exc")}


def nontrivial(case, r):
    return len(pools.effective_dice(case["dice"])) >= 2 and case["which"] is not None


def case_class(case, r):
    return f"{case.get('shape', '?')}/{case.get('cls', '?')}" + (":" + r["exc"] if "exc" in r else "")


def shrink_candidates(case):
    import copy
    for i in range(len(case["dice"])):
        c = copy.deepcopy(case)
        del c["dice"][i]
        yield c
    for i, d in enumerate(case["dice"]):
        for j in range(len(d)):
            if len(d) > 1:
                c = copy.deepcopy(case)
                del c["dice"][i][j]
                yield c
        for j, (o, cnt) in enumerate(d):
            if cnt > 1:
                c = copy.deepcopy(case)
                c["dice"][i][j][1] = 1
                yield c
    if case["which"]:
        for i in range(len(case["which"])):
            c = copy.deepcopy(case)
            del c["which"][i]
            if c["which"]:
                yield c


def neighbours(case):
    yield from shrink_candidates(case)


def extra_coverage():
    return {"small_scope_space_size": SMALL_SCOPE_TOTAL, "small_scope_note": "walked with a seeded stride, not exhaustively"}
