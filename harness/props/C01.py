"""C01 - histogram arithmetic is the exact convolution of independent outcomes."""
import operator
from fractions import Fraction

from common import chist, clist, cq, cres, cz, qv, hist_items
import gens
import pools

PID = "C01"
CODES = True
RULE = ("corpus first; then seeded operand pairs: H x H, H x scalar, scalar x H, P x H, H x P, P x scalar over "
        "histograms with negative/zero/Fraction outcomes, zero counts, unreduced and 2**70 counts, empty; every "
        "operator (+ - * / // % ** & | ^, lt le eq ne gt ge, within, vs) in direct and reflected form and the "
        "unary ones (- + abs ~ is_even is_odd).  Observable: the count function (zero-count entries dropped) or "
        "the exception class.  Cases whose exact result leaves the rational domain (inexact floats) are skipped "
        "and counted.  Non-trivial: both operands non-empty and at least one histogram with two faces.")
ASSUMPTIONS = [
    "Python's operator semantics on int/Fraction values are modelled by the tables binop/unop in Model/Arith.v",
    "inexact float results (int/int true division, negative integer powers, fractional powers) are outside the model",
    "itertools.product iteration order is modelled by list_prod",
]

BINOPS = {"add": "Add", "sub": "Sub", "mul": "Mul", "truediv": "TrueDiv", "floordiv": "FloorDiv", "mod": "Mod",
          "pow": "Pow", "and": "And", "or": "Or", "xor": "Xor"}
CMPS = {"lt": "Lt", "le": "Le", "eq": "Eq", "ne": "Ne", "gt": "Gt", "ge": "Ge"}
UNOPS = {"neg": "Neg", "pos": "Pos", "abs": "Abs", "invert": "Invert", "is_even": "IsEven", "is_odd": "IsOdd"}


def gen_operand(rng, kinds):
    k = rng.choice(kinds)
    if k == "h":
        return {"h": gens.hist(rng, max_faces=4, frac_p=0.12)}
    if k == "hi":   # integer outcomes only (bitwise, parity)
        return {"h": gens.hist(rng, max_faces=4, frac_p=0.0)}
    if k == "s":
        return {"s": gens.outcome(rng, frac_p=0.2)}
    if k == "si":
        return {"s": gens.outcome(rng, frac_p=0.0)}
    if k == "p":
        dice, _ = pools.gen_pool(rng, max_dice=3, max_faces=3)
        return {"p": dice}
    raise ValueError(k)


def gen_cases(rng, tier):
    n = 700 if tier == "quick" else 10000
    cases = []
    names = list(BINOPS) + list(CMPS) + ["within", "vs"]
    for i in range(n):
        r = i % 10
        if r < 8:
            op = names[(i // 10 + r * 3) % len(names)] if rng.random() < 0.7 else rng.choice(names)
            intish = op in ("and", "or", "xor") and rng.random() < 0.8
            hk = "hi" if intish else "h"
            sk = "si" if intish else "s"
            shape = rng.choice(["hh", "hh", "hs", "sh", "ph", "hp", "ps"])
            if op in CMPS or op == "within":
                shape = rng.choice(["hh", "hh", "hs", "ph", "hp", "ps"])   # methods: left is H or P
            if op == "vs":
                shape = rng.choice(["hh", "hs", "hp"])                     # P has no vs()
            l = gen_operand(rng, {"h": [hk], "s": [sk], "p": ["p"]}[shape[0]])
            rr = gen_operand(rng, {"h": [hk], "s": [sk], "p": ["p"]}[shape[1]])
            c = {"kind": "bin", "op": op, "l": l, "r": rr}
            if op == "within":
                lo, hi = sorted([rng.randint(-3, 3), rng.randint(-3, 3)])
                if rng.random() < 0.1:
                    lo, hi = hi + 1, lo
                c["lo"], c["hi"] = gens.q(lo), gens.q(hi)
            if op == "pow":
                # keep exponents small
                if "h" in rr:
                    rr["h"] = [[o, cnt] for o, cnt in rr["h"] if abs(Fraction(*o)) <= 4]
                elif "s" in rr and abs(Fraction(*rr["s"])) > 4:
                    rr["s"] = gens.q(2)
                elif "p" in rr:
                    c["r"] = {"s": gens.q(rng.choice([0, 1, 2, 3, -1]))}
        else:
            op = rng.choice(list(UNOPS))
            a = gen_operand(rng, ["hi" if op in ("invert", "is_even", "is_odd") and rng.random() < 0.8 else "h", "p"])
            c = {"kind": "un", "op": op, "a": a}
        cases.append(c)
        if i % 20 == 13:
            # integer end points and as many faces as the integer span, but a non-integer face inside
            lo = rng.randint(-2, 2)
            span = rng.randint(2, 4)
            faces = [Fraction(lo + j) for j in range(span + 1)]
            j = rng.randrange(1, span)
            faces[j] = faces[j] + rng.choice([Fraction(1, 2), Fraction(-1, 2), Fraction(1, 3)])
            hh = [[gens.q(f), rng.choice([1, 1, 2, 3])] for f in sorted(set(faces))]
            other = gen_operand(rng, ["h", "p", "s"]) if rng.random() < 0.5 else {"h": [[gens.q(v), 1] for v in range(1, rng.randint(2, 4) + 1)]}
            opx = rng.choice(["add", "add", "sub", "mul", "ge"])
            pair = [{"h": hh}, other]
            if rng.random() < 0.5 and "s" not in other:
                pair.reverse()
            if "s" in pair[0] and opx == "ge":
                opx = "add"
            cases.append({"kind": "bin", "op": opx, "l": pair[0], "r": pair[1]})
        if i % 10 == 4:
            # identity / absorbing / boundary scalars (0, 1, -1, 2) of every exact type against operands with
            # non-integral outcomes: h * 0 collapses every face onto one, h // 1 floors, h ** 0, 0 - h, ...
            opi = rng.choice(["mul", "mul", "floordiv", "floordiv", "truediv", "add", "sub", "pow", "mod"])
            v = rng.choice([0, 0, 1, 1, -1, 2])
            styp = rng.choice(["int", "bool", "Fraction"]) if v in (0, 1) else rng.choice(["int", "Fraction"])
            sc = {"s": gens.q(v), "styp": styp}
            big = rng.random() < 0.3
            other = rng.choice([{"h": gens.hist(rng, max_faces=4, frac_p=0.5, style=rng.choice(["small", "pos", "big"] if big else ["small", "pos"]))},
                                {"h": gens.hist(rng, max_faces=4, frac_p=0.5)}, gen_operand(rng, ["p"])])
            if opi == "pow":
                other = {"h": [[o, cnt] for o, cnt in other.get("h", [[gens.q(2), 1]]) if abs(Fraction(*o)) <= 4]}
            pair = [other, sc] if rng.random() < 0.6 else [sc, other]
            cases.append({"kind": "bin", "op": opi, "l": pair[0], "r": pair[1]})
        if i % 25 == 3:
            # powers of histograms that contain an outcome and its negative (even exponents fold them together)
            vals = sorted(set(rng.sample(range(-3, 4), rng.randint(2, 5))) | {1, -1})
            hh = {"h": [[gens.q(v), rng.choice([1, 1, 2, 3])] for v in vals]}
            ex = {"s": gens.q(rng.choice([2, 2, 4, 3, 0])), "styp": rng.choice(["int", "Fraction"])}
            cases.append({"kind": "bin", "op": "pow", "l": hh if rng.random() < 0.8 else {"p": [hh["h"]]}, "r": ex})
        if i % 10 == 6:
            # typed operands: bool outcomes (results of comparisons: ~True == -2, True + True == 2) and counts given
            # as NumPy integers large enough for products to leave the 64-bit range (counts are exact Python ints)
            if rng.random() < 0.5:
                hb = {"h": [[gens.q(0), rng.choice([1, 2, 3])], [gens.q(1), rng.choice([0, 1, 3])]], "otyp": "bool"}
                if rng.random() < 0.5:
                    cases.append({"kind": "un", "op": rng.choice(["invert", "invert", "neg", "abs", "pos", "is_even"]), "a": hb})
                else:
                    other = gen_operand(rng, ["hi", "si", "p"])
                    pair = [hb, other] if (rng.random() < 0.5 or "s" in other) else [other, hb]
                    cases.append({"kind": "bin", "op": rng.choice(["add", "sub", "mul", "and", "or", "xor", "lt", "eq"]), "l": pair[0], "r": pair[1]})
            else:
                big = 2 ** 32
                ha = {"h": [[o, c + big * rng.randint(1, 3)] for o, c in gens.hist_pos(rng, max_faces=3, frac_p=0.0, style="pos")], "ctyp": "npint64"}
                hb2 = {"h": [[o, c + big * rng.randint(1, 3)] for o, c in gens.hist_pos(rng, max_faces=3, frac_p=0.0, style="pos")]}
                if rng.random() < 0.5:
                    hb2["ctyp"] = "npint64"
                pair = [ha, hb2] if rng.random() < 0.5 else [hb2, ha]
                cases.append({"kind": "bin", "op": rng.choice(["add", "sub", "mul", "lt", "ge", "floordiv"]), "l": pair[0], "r": pair[1]})
        if i % 20 == 7:
            # the SAME left object combined in turn with right operands that compare equal (scaled,
            # zero-padded, pooled) and with the base again: results must not depend on earlier calls
            base = gens.hist_pos(rng, max_faces=3, frac_p=0.0, style="pos")
            k = rng.choice([2, 3])
            scaled = [[o, cnt * k] for o, cnt in base]
            padded = sorted(base + [[gens.q(v), 0] for v in (-7, 11) if [v, 1] not in [o for o, _ in base]][:1],
                            key=lambda oc: Fraction(*oc[0]))
            rs = [{"h": base}, {"h": scaled}, {"h": padded}, {"p": [scaled]}, {"h": base}]
            rng.shuffle(rs)
            op2 = rng.choice(["add", "sub", "mul", "lt", "ge", "floordiv", "vs"])
            cases.append({"kind": "binseq", "op": op2, "l": {"h": gens.hist_pos(rng, max_faces=3, frac_p=0.0)}, "rs": rs})
    return cases


# ---- implementation ---------------------------------------------------------------

def _py_operand(x):
    from dyce import H
    if "h" in x:
        d = gens.py_hist_dict(x["h"])
        if x.get("otyp") == "bool":
            d = {bool(o): c for o, c in d.items()}
        if x.get("ctyp") == "npint64":
            import numpy
            d = {o: numpy.int64(c) for o, c in d.items()}
        return H(d)
    if "s" in x:
        v = gens.py_outcome(x["s"])
        styp = x.get("styp")
        return bool(v) if styp == "bool" else Fraction(v) if styp == "Fraction" else v
    return pools.py_pool(x["p"])


def impl_run(case):
    from dyce import H, P
    if case["kind"] == "binseq":
        l = _py_operand(case["l"])
        out = []
        for r in case["rs"]:
            sub = dict(case, kind="bin", r=r)
            out.append(_impl_bin(sub, l))
        return {"seq": out}
    return _impl_bin(case, None)


def _impl_bin(case, shared_left):
    from dyce import H, P
    try:
        if case["kind"] == "bin":
            l = shared_left if shared_left is not None else _py_operand(case["l"])
            r = _py_operand(case["r"])
            op = case["op"]
            if op in BINOPS:
                f = {"add": operator.add, "sub": operator.sub, "mul": operator.mul, "truediv": operator.truediv,
                     "floordiv": operator.floordiv, "mod": operator.mod, "pow": operator.pow, "and": operator.and_,
                     "or": operator.or_, "xor": operator.xor}[op]
                res = f(l, r)
            elif op in CMPS:
                res = getattr(l, op)(r)
            elif op == "within":
                res = l.within(gens.py_outcome(case["lo"]), gens.py_outcome(case["hi"]), r)
            else:
                res = l.vs(r)
        else:
            a = _py_operand(case["a"])
            op = case["op"]
            res = {"neg": operator.neg, "pos": operator.pos, "abs": abs, "invert": operator.invert,
                   "is_even": lambda h: h.is_even(), "is_odd": lambda h: h.is_odd()}[op](a)
        if isinstance(res, P):
            res = res.h()
        if not isinstance(res, H):
            return {"exc": "NotAHistogram", "repr": repr(res)[:100]}
        return {"ok": hist_items(res), "total": res.total}
    except (ValueError, TypeError, IndexError, ZeroDivisionError) as e:
        return {"exc": type(e).__name__}
    except OverflowError:
        return {"exc": "OverflowError"}


# ---- model ---------------------------------------------------------------------------

def _coperand(x):
    if "h" in x:
        return f"(OpH {chist(x['h'])})"
    if "s" in x:
        return f"(OpS {cq(x['s'])})"
    return f"(pool_operand {clist(chist(h) for h in x['p'])})"


def _cop(case):
    op = case["op"]
    if op in BINOPS:
        return BINOPS[op]
    if op in CMPS:
        return CMPS[op]
    if op == "within":
        return f"(Within {cq(case['lo'])} {cq(case['hi'])})"
    return f"(Within {cq([0, 1])} {cq([0, 1])})"


def _fraction_pow_quirk(case):
    """Fraction.__pow__(frac, H) falls back to float(frac) ** H before H.__rpow__ is ever consulted:
    the result is an inexact float (Python's Fraction, not dyce) - outside the exact-rational model"""
    return case.get("op") == "pow" and "s" in case.get("l", {}) and case["l"]["s"][1] != 1


def _typed_pool_issue(case):
    """bitwise operators distinguish Fraction(2) from 2; sums of Fraction dice can be integral-valued
    Fractions, which the value-level model cannot tell apart: outside the model's domain"""
    if case["op"] not in ("and", "or", "xor", "invert"):
        return False
    for key in ("l", "r", "a"):
        x = case.get(key)
        if x and "p" in x and any(o[1] != 1 for d in x["p"] for o, _ in d):
            return True
    return False


def coq_check(case, r):
    if case["kind"] == "binseq":
        if "seq" not in r:
            return "MISMATCH"
        parts = []
        for rr, ans in zip(case["rs"], r["seq"]):
            e = coq_check(dict(case, kind="bin", r=rr), ans)
            if e in (None, "MISMATCH"):
                return e
            parts.append(e)
        # every element must agree (code 0); the first non-zero code is reported
        return "(fold_right (fun c acc => match c with O => acc | _ => c end) 0%nat " + "[" + "; ".join(parts) + "])"
    if _typed_pool_issue(case) or _fraction_pow_quirk(case):
        return None
    if "ok" in r:
        try:
            exp = f"(Ok {chist(r['ok'])})"
        except Exception:
            return "MISMATCH"
    elif r.get("exc") in ("ValueError", "TypeError", "ZeroDivisionError", "IndexError"):
        exp = f"(Err {r['exc']})"
    elif r.get("exc") == "OverflowError":
        return None
    else:
        return "MISMATCH"
    if case["kind"] == "bin":
        return f"chk_hbin {_cop(case)} {_coperand(case['l'])} {_coperand(case['r'])} {exp}"
    return f"chk_hun {UNOPS[case['op']]} {_coperand(case['a'])} {exp}"


def coq_show(case):
    if case["kind"] == "binseq":
        return None
    if case["kind"] == "bin":
        return f"h_binop {_cop(case)} {_coperand(case['l'])} {_coperand(case['r'])}"
    return f"match {_coperand(case['a'])} with OpH h => h_unop {UNOPS[case['op']]} h | _ => Err Unsupported end"


# ---- independent oracle: product + Counter over Fractions ----------------------------------

class Unsup(Exception):
    pass


def _exact_float(x):
    if isinstance(x, float):
        if x != x or x in (float("inf"), float("-inf")):
            raise Unsup()
        return Fraction(x)
    return x


def _pyop(op, case):
    def guard_float(f):
        def g(a, b):
            v = f(a, b)
            if isinstance(v, complex):
                raise Unsup()
            if isinstance(v, float):
                # only exactly representable quotients/powers are inside the compared domain
                exact = None
                try:
                    if f is operator.truediv:
                        exact = Fraction(a) / Fraction(b)
                    elif f is operator.pow and isinstance(b, int):
                        exact = Fraction(a) ** b
                except ZeroDivisionError:
                    raise
                if exact is None or Fraction(v) != exact:
                    raise Unsup()
                return exact
            return v
        return g
    table = {"add": operator.add, "sub": operator.sub, "mul": operator.mul, "truediv": guard_float(operator.truediv),
             "floordiv": operator.floordiv, "mod": operator.mod, "pow": guard_float(operator.pow),
             "and": operator.and_, "or": operator.or_, "xor": operator.xor,
             "lt": operator.lt, "le": operator.le, "eq": operator.eq, "ne": operator.ne, "gt": operator.gt, "ge": operator.ge}
    if op in table:
        return table[op]
    lo, hi = (Fraction(*case["lo"]), Fraction(*case["hi"])) if op == "within" else (0, 0)
    return lambda a, b: int((a - b) > hi) - int((a - b) < lo)


def _flat(x):
    """operand -> ('h', dict outcome->count incl. zero counts, in ascending order) or ('s', value)"""
    if "s" in x:
        return "s", gens.py_outcome(x["s"])
    if "h" in x:
        return "h", {gens.py_outcome(o): c for o, c in x["h"]}
    # pool: sum of dice by brute force convolution
    dice = pools.effective_dice(x["p"])
    acc = None
    for d in dice:
        dd = {gens.py_outcome(o): c for o, c in d}
        if acc is None:
            acc = {0 + k: v for k, v in dd.items()}
        else:
            new = {}
            for a, ca in acc.items():
                for b, cb in dd.items():
                    new[a + b] = new.get(a + b, 0) + ca * cb
            acc = new
    return "h", (acc or {})


def oracle(case):
    if case["kind"] == "binseq":
        outs = [oracle(dict(case, kind="bin", r=rr)) for rr in case["rs"]]
        return None if any(o is None for o in outs) else {"seq": outs}
    try:
        if _typed_pool_issue(case) or _fraction_pow_quirk(case):
            return None
        if case["kind"] == "bin":
            op = case["op"]
            if op == "within" and Fraction(*case["lo"]) > Fraction(*case["hi"]):
                return {"exc": "ValueError"}
            f = _pyop(op, case)
            (kl, l), (kr, r) = _flat(case["l"]), _flat(case["r"])
            if op in ("and", "or", "xor"):
                if kl == "s":
                    if int(l) != l:
                        return {"exc": "TypeError"}
                    l = int(l)
                if kr == "s":
                    if int(r) != r:
                        return {"exc": "TypeError"}
                    r = int(r)
            out = {}
            if kl == "h" and kr == "h":
                for a in sorted(l):
                    for b in sorted(r):
                        z = f(a, b)
                        out[z] = out.get(z, 0) + l[a] * r[b]
            elif kl == "h":
                for a in sorted(l):
                    z = f(a, r)
                    out[z] = out.get(z, 0) + l[a]
            else:
                for b in sorted(r):
                    z = f(l, b)
                    out[z] = out.get(z, 0) + r[b]
        else:
            _, a = _flat(case["a"])
            op = case["op"]

            def par(x, even):
                if int(x) != x:
                    raise TypeError()
                return (int(x) % 2 == 0) == even
            f = {"neg": operator.neg, "pos": operator.pos, "abs": abs, "invert": operator.invert,
                 "is_even": lambda x: par(x, True), "is_odd": lambda x: par(x, False)}[op]
            out = {}
            for x in sorted(a):
                z = f(x)
                out[z] = out.get(z, 0) + a[x]
    except Unsup:
        return None
    except OverflowError:
        return None
    except (TypeError, ZeroDivisionError, ValueError) as e:
        return {"exc": type(e).__name__}
    agg = {}
    for k, v in out.items():
        kk = Fraction(k)
        agg[kk] = agg.get(kk, 0) + v
    return {"ok": [[[k.numerator, k.denominator], agg[k]] for k in sorted(agg)]}


def agree(case, r, o):
    if case["kind"] == "binseq":
        return "seq" in r and all(agree(dict(case, kind="bin", r=rr), a, b) for rr, a, b in zip(case["rs"], r["seq"], o["seq"]))
    if "exc" in o:
        return r.get("exc") == o["exc"]
    if "ok" not in r:
        return False
    nz = lambda items: [[x, c] for x, c in items if c != 0]
    return nz(r["ok"]) == nz(o["ok"]) and r.get("total") == sum(c for _, c in o["ok"])


def nontrivial(case, r):
    if case["kind"] == "binseq":
        return True
    ops = [case["l"], case["r"]] if case["kind"] == "bin" else [case["a"]]
    sizes = []
    for x in ops:
        if "h" in x:
            sizes.append(len(x["h"]))
        elif "p" in x:
            sizes.append(2 if pools.effective_dice(x["p"]) else 0)
        else:
            sizes.append(1)
    return all(s > 0 for s in sizes) and max(sizes) >= 2


def case_class(case, r):
    if case["kind"] == "binseq":
        return "binseq:" + case["op"]
    if case["kind"] == "bin":
        sh = "".join("h" if "h" in x else "s" if "s" in x else "p" for x in (case["l"], case["r"]))
        return f"{case['op']}:{sh}" + (":" + r["exc"] if "exc" in r else "")
    return f"{case['op']}" + (":" + r["exc"] if "exc" in r else "")


def shrink_candidates(case):
    import copy
    if case["kind"] == "binseq":
        for i in range(len(case["rs"])):
            if len(case["rs"]) > 1:
                c = copy.deepcopy(case)
                del c["rs"][i]
                yield c
        return
    for key in ("l", "r", "a"):
        x = case.get(key)
        if not x:
            continue
        if "h" in x:
            for i in range(len(x["h"])):
                c = copy.deepcopy(case)
                del c[key]["h"][i]
                yield c
            for i, (o, cnt) in enumerate(x["h"]):
                if cnt > 1:
                    c = copy.deepcopy(case)
                    c[key]["h"][i][1] = 1
                    yield c
        if "p" in x:
            for i in range(len(x["p"])):
                c = copy.deepcopy(case)
                del c[key]["p"][i]
                yield c


def neighbours(case):
    yield from shrink_candidates(case)
